#!/bin/sh
# usage: tools/mutation_all.sh <seed> <max-per-prop> <tag>   e.g. tools/mutation_all.sh 1 30 2
# full pipeline of a mutation campaign with the current operator set: own check -> repository tests -> other properties' checks
cd /verif
export MC_OUT=mutation_campaign$3.json MC_TAG=$3
rm -f seeded/$MC_OUT
tools/mutation_campaign.py --seed $1 --max-per-prop $2 --workers 10 > seeded/mutation_campaign$3_phase1.log 2>&1
tools/mutation_triage.py seeded/mutation_campaign$3_phase1.log --seed $1 --max-per-prop $2 --workers 5 > seeded/mutation_triage$3.log 2>&1
tools/mutation_cross.py --seed $1 --max-per-prop $2 --workers 6 > seeded/mutation_cross$3.log 2>&1
echo DONE >> seeded/mutation_cross$3.log
