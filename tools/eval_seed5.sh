#!/bin/sh
# usage: tools/eval_seed5.sh <PROP_ID> [name]     (round 5: worktree /tmp/seed5/<PROP_ID>, change left uncommitted by the seeding agent)
# 1. saves the change as seeded/<name>/patch.diff + demo, 2. runs the demo with and without the change in the worktree,
# 3. runs the property's quick check from a PRIVATE copy of /verif (rsync incl. build output, so builders working in /verif are
#    not disturbed) against the changed worktree (VERIF_REPO), 4. removes the private copy.
set -u
ID=$1; NAME=${2:-${ID}_5}; WT=/tmp/seed5/$ID
V=/verif; D=$V/seeded/$NAME; P=/tmp/vseed_$NAME
mkdir -p "$D"
git -C "$WT" diff -- stable_baselines3 > "$D/patch.diff"
[ -s "$D/patch.diff" ] || { echo "no change in $WT"; exit 2; }
cp "$WT"/demo_*.py "$D"/ 2>/dev/null
DEMO=$(ls "$WT"/demo_*.py | head -1)
(cd "$WT" && OMP_NUM_THREADS=1 PYTHONPATH="$WT" timeout 900 /venv/bin/python "$DEMO" > "$D/demo_with.log" 2>&1; echo "exit $?" >> "$D/demo_with.log")
echo "== demo WITH change: $(tail -1 "$D/demo_with.log")"
git -C "$WT" apply -R "$D/patch.diff"
(cd "$WT" && OMP_NUM_THREADS=1 PYTHONPATH="$WT" timeout 900 /venv/bin/python "$DEMO" > "$D/demo_without.log" 2>&1; echo "exit $?" >> "$D/demo_without.log")
echo "== demo WITHOUT change: $(tail -1 "$D/demo_without.log")"
git -C "$WT" apply "$D/patch.diff"
[ "${SKIP_CHECK:-0}" = 1 ] && exit 0
rm -rf "$P"; mkdir -p "$P"
rsync -a --exclude .git --exclude 'replays/*' --exclude seeded --exclude 'Cases_*' --exclude evidence_scratch "$V/" "$P/verif/"
mkdir -p "$P/verif/replays"
(cd "$P/verif" && VERIF_REPO="$WT" OMP_NUM_THREADS=1 timeout 1800 ./check "$ID" > "$D/check_with.log" 2>&1; echo "exit $?" >> "$D/check_with.log")
echo "== ./check $ID on changed tree:"
grep -E "VIOLATION|KNOWN-FINDING|exit|Traceback|Error" "$D/check_with.log" | cut -c1-260 | head -12
# keep the replay files named by VIOLATION lines
for r in $(grep -o 'replay=[^ ]*' "$D/check_with.log" | cut -d= -f2 | sort -u | head -3); do
  [ -f "$r" ] && cp "$r" "$D/" 2>/dev/null
  [ -f "$P/verif/$r" ] && cp "$P/verif/$r" "$D/" 2>/dev/null
done
rm -rf "$P"
