#!/venv/bin/python
"""Writes seeded/<id>/meta.json for every seeded change kept (facts recorded by the lead after confirming each one)."""
import json, os
V = os.path.dirname(os.path.dirname(os.path.abspath(__file__)))
COMMON_RAN = ("demo with the change (FAIL, exit 1) and without it (PASS, exit 0) in a scratch worktree via tools/try_seed.sh; "
              "relevant existing test files run by the seeding agent with the change applied (all pass except tests that fail identically on the unchanged tree: "
              "missing tqdm/rich, Atari ROMs, tensorboard); ./check <id> with VERIF_REPO pointing at the changed worktree, then again on /repo")
SEEDS = {
 "C03": dict(breaks="C03", what="ReplayBuffer.add only sets the timeout flag for truncated envs and never clears it", needs="a slot/env column that held a time-limit truncation is overwritten (wrap-around or reset) by a genuine termination: sampled done becomes 0", caught_by="C03 oracle-fields-done (concrete history)", detected=True),
 "C04": dict(breaks="C04", what="off-policy _store_transition keeps next_obs (terminal obs substituted) as _last_original_obs instead of new_obs_", needs="VecNormalize + an episode end followed by another step: first transition of the new episode stored with the previous terminal observation as obs", caught_by="C04 oracle-observation (concrete run)", detected=True),
 "C05": dict(breaks="C05", what="DictRolloutBuffer.get iterates range(0, n_samples - 1, batch_size)", needs="a Dict rollout whose last minibatch would hold exactly one sample ((n_steps*n_envs - 1) % batch_size == 0): that sample is never yielded", caught_by="C05 minibatch-count / oracle-not-exactly-once (concrete case); translator falls back (loop rewritten) and says so", detected=True),
 "C06": dict(breaks="C06", what="ActorCriticPolicy.predict_values uses the actor's features extractor", needs="share_features_extractor=False with a parametric features extractor: bootstrap V(terminal_obs) and last_values are not the critic's values", caught_by="MISSED by the first C06 harness (oracle recomputed V through predict_values and never used unshared parametric extractors); harness strengthened afterwards - see DESIGN 10.4", detected=False),
 "C08": dict(breaks="C08", what="DQN target update cadence uses num_timesteps % max(target_update_interval, n_envs)", needs="n_envs > 1 and an interval larger than but not a multiple of n_envs: updates every lcm instead of every max(interval // n_envs, 1) calls", caught_by="C08 oracle-dqn-update-instants (concrete run)", detected=True),
 "C11": dict(breaks="C11", what="preprocess_obs scales images only when the tensor dtype is uint8", needs="on-policy training path: rollout buffers hold float32 images, so evaluate_actions sees unscaled images while predict scales them", caught_by="MISSED by the first C11 harness (training path was fed uint8 tensors); harness strengthened afterwards - see DESIGN 10.4", detected=False),
 "C12": dict(breaks="C12", what="on-policy learn() refreshes progress_remaining after train() instead of before", needs="a second learn() call: its first train() sees the stale near-zero progress, then progress jumps up - schedules see an increasing value", caught_by="C12 oracle-progress-value (concrete run)", detected=True),
 "C13": dict(breaks="C13", what="EveryNTimesteps sets last_time_trigger += n_steps instead of = num_timesteps", needs="n_envs not dividing n_steps (or a callback attached to an already trained model): triggers closer than n_steps apart", caught_by="C13 oracle-everyN-too-early (concrete run) + model correspondence", detected=True),
 "C16": dict(breaks="C16", what="HerReplayBuffer.add invalidates the overwritten episode with a non-wrapping slice", needs="a finished episode straddling the ring end whose head is overwritten on the next lap: its wrapped tail stays sampleable", caught_by="C16 model-correspondence-valid-set (first version: no concrete input; oracle strengthened afterwards - see DESIGN 10.4)", detected=True),
 "C17": dict(breaks="C17", what="StackedObservations.reset no longer zeroes the window", needs="a second reset() while an env is mid-episode: the reset observation (and a short next episode's terminal stack) carries frames of the abandoned episode", caught_by="C17 oracle-reset-observation (concrete history)", detected=True),
 "C19": dict(breaks="C19", what="VecNormalize.normalize_obs shallow-copies Dict observations", needs="a Dict space with an un-normalised entry: the returned entry is the same array as VecNormalize.old_obs, so writing into it corrupts get_original_obs()", caught_by="C19 caller-write-changed-later-result (twin run, concrete history)", detected=True),
}
for sid, m in SEEDS.items():
    d = os.path.join(V, "seeded", sid)
    if not os.path.isdir(d):
        continue
    m = dict(m, id=sid, files=sorted(os.listdir(d)), ran=COMMON_RAN)
    json.dump(m, open(os.path.join(d, "meta.json"), "w"), indent=1)
print("meta written for", sorted(s for s in SEEDS if os.path.isdir(os.path.join(V, "seeded", s))))
