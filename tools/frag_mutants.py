#!/venv/bin/python
"""Fragment mutation score: how strongly are the regenerated fragments tied to the proofs?

For every fragment spec, every operator / small-constant mutation of the source statements the spec
selects is applied (one at a time) to a scratch copy of /repo; the group is regenerated and classified:
  same      the regenerated text is unchanged (mutation outside what the fragment captures)
  fallback  the translator fails closed (the check then reports `fragment-not-regenerated`)
  differs   the regenerated fragment changed -> the proofs of the properties using the group are rebuilt in a
            scratch copy of the Coq tree: `broken` (some Qed fails: the tie bites) or `survived` (weak lemma)
usage: tools/frag_mutants.py [group ...] [--max-compile N]   -> writes seeded/frag_mutants.json
"""
import ast
import copy
import json
import os
import re
import shutil
import subprocess
import sys

V = os.path.dirname(os.path.dirname(os.path.abspath(__file__)))
sys.path.insert(0, V)
from translate import gen, py2coq  # noqa: E402

SCRATCH_REPO = "/tmp/repo_fm"
SCRATCH_COQ = "/tmp/coq_fm"

SWAP_CMP = {ast.Lt: ast.LtE, ast.LtE: ast.Lt, ast.Gt: ast.GtE, ast.GtE: ast.Gt, ast.Eq: ast.NotEq, ast.NotEq: ast.Eq}
SWAP_BIN = {ast.Add: ast.Sub, ast.Sub: ast.Add, ast.Mult: ast.Add, ast.FloorDiv: ast.Mod, ast.Mod: ast.FloorDiv, ast.Div: ast.Mult}
SWAP_BOOL = {ast.And: ast.Or, ast.Or: ast.And}


def mutation_sites(stmt):
    sites = []
    for node in ast.walk(stmt):
        if isinstance(node, ast.Compare):
            for i, op in enumerate(node.ops):
                if type(op) in SWAP_CMP:
                    sites.append(("cmp", id(node), i))
        elif isinstance(node, (ast.BinOp, ast.AugAssign)) and type(node.op) in SWAP_BIN:
            sites.append(("bin", id(node), 0))
        elif isinstance(node, ast.BoolOp) and type(node.op) in SWAP_BOOL:
            sites.append(("bool", id(node), 0))
        elif isinstance(node, ast.Constant) and isinstance(node.value, int) and not isinstance(node.value, bool) and abs(node.value) <= 3:
            sites.append(("const", id(node), 0))
    return sites


def mutants_of(stmt):
    """yield (description, mutated statement source)"""
    base_nodes = list(ast.walk(stmt))
    for kind, nid, i in mutation_sites(stmt):
        idx = [k for k, n in enumerate(base_nodes) if id(n) == nid][0]
        m = copy.deepcopy(stmt)
        node = list(ast.walk(m))[idx]
        if kind == "cmp":
            old = type(node.ops[i]).__name__
            node.ops[i] = SWAP_CMP[type(node.ops[i])]()
            desc = f"{old}->{type(node.ops[i]).__name__}"
        elif kind == "bin":
            old = type(node.op).__name__
            node.op = SWAP_BIN[type(node.op)]()
            desc = f"{old}->{type(node.op).__name__}"
        elif kind == "bool":
            old = type(node.op).__name__
            node.op = SWAP_BOOL[type(node.op)]()
            desc = f"{old}->{type(node.op).__name__}"
        else:
            desc = f"const {node.value}->{node.value + 1}"
            node.value = node.value + 1
        try:
            yield desc, ast.unparse(m)
        except Exception:
            continue


def groups_to_pids():
    out = {}
    for f in sorted(os.listdir(os.path.join(V, "harness"))):
        m = re.fullmatch(r"c(\d\d)\.py", f)
        if not m:
            continue
        txt = open(os.path.join(V, "harness", f)).read()
        for g in re.findall(r'groups\s*=\s*\[([^\]]*)\]', txt):
            for name in re.findall(r'"(\w+)"', g):
                out.setdefault(name, set()).add("C" + m.group(1))
    return {k: sorted(v) for k, v in out.items()}


def main():
    argv = sys.argv[1:]
    max_compile = 3
    if "--max-compile" in argv:
        i = argv.index("--max-compile")
        max_compile = int(argv[i + 1])
        del argv[i:i + 2]
    args = [a for a in argv if not a.startswith("--")]
    shutil.rmtree(SCRATCH_REPO, ignore_errors=True)
    shutil.copytree("/repo", SCRATCH_REPO, ignore=shutil.ignore_patterns(".git"))
    shutil.rmtree(SCRATCH_COQ, ignore_errors=True)
    shutil.copytree(os.path.join(V, "coq"), SCRATCH_COQ, ignore=shutil.ignore_patterns("Cases_*"))
    g2p = groups_to_pids()
    report = {}
    import importlib

    for g in gen.groups():
        if args and g not in args:
            continue
        mod = importlib.import_module(f"translate.specs.{g}")
        gen.REPO = "/repo"
        try:
            base = gen.render(g)
        except Exception as e:
            report[g] = {"error": f"baseline does not render: {e}"}
            continue
        rep = {"specs": {}, "pids": g2p.get(g, [])}
        report[g] = rep
        for spec in mod.SPECS:
            f = spec.get("file", getattr(mod, "FILE", None))
            src_path = os.path.join("/repo", f)
            src = open(src_path).read()
            try:
                func = py2coq._find_func(ast.parse(src), spec["qual"])
                stmts = py2coq.select(func, spec.get("start"), spec.get("end"), spec.get("nth"), spec.get("of"))
            except Exception as e:
                rep["specs"][spec["name"]] = {"error": str(e)}
                continue
            lines = src.split("\n")
            res = {"same": 0, "fallback": 0, "differs": 0, "broken": 0, "survived": 0, "not_compiled": 0, "survivors": [], "fallbacks": [], "sames": []}
            rep["specs"][spec["name"]] = res
            compiled = 0
            for st in stmts:
                for desc, new_src in mutants_of(st):
                    indent = re.match(r"\s*", lines[st.lineno - 1]).group(0)
                    new_lines = lines[: st.lineno - 1] + [indent + ln for ln in new_src.split("\n")] + lines[st.end_lineno:]
                    tgt = os.path.join(SCRATCH_REPO, f)
                    open(tgt, "w").write("\n".join(new_lines))
                    gen.REPO = SCRATCH_REPO
                    label = f"{desc} @ {ast.unparse(st).splitlines()[0][:70]}"
                    try:
                        text = gen.render(g)
                    except Exception:
                        res["fallback"] += 1
                        res["fallbacks"].append(label)
                        open(tgt, "w").write(src)
                        continue
                    open(tgt, "w").write(src)
                    if text == base:
                        res["same"] += 1
                        res["sames"].append(label)
                        continue
                    res["differs"] += 1
                    if compiled >= max_compile or not rep["pids"]:
                        res["not_compiled"] += 1
                        continue
                    compiled += 1
                    fragp = os.path.join(SCRATCH_COQ, "Gen", f"Frag_{g}.v")
                    open(fragp, "w").write(text)
                    targets = []
                    for pid in rep["pids"]:
                        targets += ["Props/" + os.path.basename(x)[:-2] + ".vo" for x in sorted(os.listdir(os.path.join(SCRATCH_COQ, "Props")))
                                    if re.fullmatch(pid + r"(_\w+)?\.v", x)]
                    p = subprocess.run(["make", "-k", "-j8", "COQC=timeout 600 coqc", *targets], cwd=SCRATCH_COQ, capture_output=True, text=True)
                    if p.returncode != 0:
                        res["broken"] += 1
                    else:
                        res["survived"] += 1
                        res["survivors"].append(label)
                    open(fragp, "w").write(base)
            # restore the scratch tree for the next spec
        subprocess.run(["make", "-k", "-j8", "COQC=timeout 600 coqc"] + ["Props/" + x[:-2] + ".vo" for x in os.listdir(os.path.join(SCRATCH_COQ, "Props")) if x.endswith(".v") and any(x.startswith(p) for p in rep["pids"])],
                       cwd=SCRATCH_COQ, capture_output=True, text=True)
    gen.REPO = "/repo"
    out = os.path.join(V, "seeded", "frag_mutants.json")
    old = {}
    if os.path.exists(out) and args:
        old = json.load(open(out))
    old.update(report)
    json.dump(old, open(out, "w"), indent=1)
    tot = {"same": 0, "fallback": 0, "differs": 0, "broken": 0, "survived": 0, "not_compiled": 0}
    for g, rep in old.items():
        for sp in rep.get("specs", {}).values():
            for k in tot:
                tot[k] += sp.get(k, 0)
    print(json.dumps(tot))
    shutil.rmtree(SCRATCH_REPO, ignore_errors=True)
    shutil.rmtree(SCRATCH_COQ, ignore_errors=True)


if __name__ == "__main__":
    main()
