#!/venv/bin/python
"""Third phase of the mutation campaign: survivors that pass the repository's tests are run against EVERY other
property whose anchors name the mutated file (a change in `_worker` may be C02's business rather than C01's).
A mutant is a candidate gap only if no check reports it.

usage: tools/mutation_cross.py [--seed 0] [--max-per-prop 40] [--workers 6]
reads and updates seeded/mutation_campaign.json (field `other_checks`: {pid: status})
"""
import ast
import json
import os
import re
import shutil
import subprocess
import sys
from concurrent.futures import ThreadPoolExecutor

V = os.path.dirname(os.path.dirname(os.path.abspath(__file__)))
sys.path.insert(0, os.path.join(V, "tools"))
import mutation_campaign as mc  # noqa: E402


def main():
    seed = int(mc.arg_value("--seed", "0"))
    maxpp = int(mc.arg_value("--max-per-prop", "40"))
    workers = int(mc.arg_value("--workers", "6"))
    props = [json.loads(l) for l in open(os.path.join(V, "properties.jsonl"))]
    files_of = {}
    for p in props:
        a = p["anchors"]
        a = ast.literal_eval(a) if isinstance(a, str) else a
        files_of[p["id"]] = set(a.get("files", []))
    out_path = os.path.join(V, "seeded", os.environ.get("MC_OUT", "mutation_campaign.json"))
    data = json.load(open(out_path))
    key = lambda r: (r["pid"], r["file"], r["func"], r["line"], r["desc"])  # noqa: E731
    cands = {key(r): r for d in data.values() for r in d["mutants"] if r["status"] == "survived" and r.get("tests") == "tests-pass"}
    muts = {}
    for p in props:
        if any(k[0] == p["id"] for k in cands):
            for m in mc.build_mutants(p, maxpp, seed):
                if key(m) in cands:
                    muts[key(m)] = m
    jobs = []
    seen_src = {}
    own = "--own" in sys.argv  # re-run the property's OWN check (after the checks were strengthened) instead of the others
    for k, m in muts.items():
        others = [m["pid"]] if own else sorted(q for q, fs in files_of.items() if q != m["pid"] and m["file"] in fs)
        if own and cands[k].get("caught_by_other"):
            continue
        for q in others:
            jobs.append((k, q))
    print(f"{len(cands)} tests-pass survivors, {len(muts)} rebuilt, {len(jobs)} (mutant, other property) runs", flush=True)
    mc.ROOT = "/tmp/mx"
    ws = [mc.prepare_worker(i) for i in range(workers)]
    free = list(ws)

    def job(j):
        k, q = j
        w = free.pop()
        try:
            m = dict(muts[k], pid=q)
            r = mc.run_mutant(w, m, "quick", False)
        finally:
            free.append(w)
        print(f"{k[0]}->{q} {r['status']:17s} {k[1].split('/')[-1]}:{k[3]} {k[2]} [{k[4]}] {r.get('signatures', [])[:2]}", flush=True)
        return k, q, r

    with ThreadPoolExecutor(max_workers=workers) as ex:
        res = list(ex.map(job, jobs))
    for k, q, r in res:
        if own:
            cands[k]["own_recheck"] = {"status": r["status"], "signatures": r.get("signatures", [])[:3]}
        else:
            cands[k].setdefault("other_checks", {})[q] = {"status": r["status"], "signatures": r.get("signatures", [])[:3]}
    for k, r in cands.items():
        r.setdefault("other_checks", {})
        r["caught_by_other"] = sorted(q for q, o in r["other_checks"].items() if o["status"] != "survived")
    json.dump(data, open(out_path, "w"), indent=1)
    left = [r for r in cands.values() if not r["caught_by_other"] and r.get("own_recheck", {}).get("status", "survived") == "survived"]
    print(f"--- {len(left)} tests-pass survivors that no check reports:")
    for r in sorted(left, key=key):
        print(f"{r['pid']} {r['file'].split('/')[-1]}:{r['line']} {r['func']} [{r['desc']}] | {r['stmt'][:90]}")
    shutil.rmtree(mc.ROOT, ignore_errors=True)


if __name__ == "__main__":
    main()
