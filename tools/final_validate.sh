#!/bin/sh
# Final validation with the change REALLY applied to /repo (git apply), as the acceptance harness does:
# for every seeded change: apply, run the property's quick check, undo. Run only when nothing else uses /repo.
cd /verif
OUT=seeded/final_validation.log; : > $OUT
[ -z "$(git -C /repo status --porcelain)" ] || { echo "/repo is not clean"; exit 2; }
trap 'git -C /repo checkout -- . ; echo "interrupted: /repo restored" >> /verif/seeded/final_validation.log' INT TERM HUP
for d in /verif/seeded/C*/; do
  n=$(basename $d); id=$(echo $n | cut -c1-3)
  [ -f $d/patch.diff ] || continue
  if git -C /repo apply --check $d/patch.diff 2>/dev/null; then
    git -C /repo apply $d/patch.diff
    r=$(timeout 1500 ./check $id 2>/dev/null | grep -E "^VIOLATION" | head -2 | sed 's/replay=.*replays\///' | tr '\n' ' ')
    git -C /repo checkout -- .
    echo "$n: ${r:-NOT DETECTED}" | tee -a $OUT
  else
    echo "$n: patch no longer applies to the current /repo HEAD (made before a later fix: commit)" | tee -a $OUT
  fi
done
# restore coq/Gen and evidence for the unchanged tree
for p in $(cat harness/ready.txt); do ./check $p > /dev/null 2>&1; done
[ -z "$(git -C /repo status --porcelain)" ] && echo "repo clean" | tee -a $OUT
