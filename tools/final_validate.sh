#!/bin/sh
# Final validation with the change REALLY applied to /repo (git apply), as the acceptance harness does:
# for every seeded change: apply, run the property's quick check, undo. Run only when nothing else uses /repo.
cd /verif
OUT=seeded/final_validation.log
ONLY="$*"
if [ -z "$ONLY" ]; then : > $OUT; else for n in $ONLY; do sed -i "/^$n: /d" $OUT; done; sed -i "/^repo clean/d" $OUT; fi
[ -z "$(git -C /repo status --porcelain)" ] || { echo "/repo is not clean"; exit 2; }
trap 'git -C /repo checkout -- . ; echo "interrupted: /repo restored" >> /verif/seeded/final_validation.log' INT TERM HUP
for d in /verif/seeded/C*/; do
  n=$(basename $d); id=$(echo $n | cut -c1-3)
  [ -f $d/patch.diff ] || continue
  if [ -n "$ONLY" ]; then case " $ONLY " in *" $n "*) ;; *) continue;; esac; fi
  if git -C /repo apply --check $d/patch.diff 2>/dev/null; then
    git -C /repo apply $d/patch.diff
    o=$(timeout 1500 ./check $id 2>/dev/null | grep -E "^VIOLATION")
    # concrete (unsuffixed) reports first, at most two lines shown
    r=$( (echo "$o" | grep -v "no-failing-input-found$"; echo "$o" | grep "no-failing-input-found$") | grep . | head -2 | sed 's/replay=.*replays\///' | tr '\n' ' ')
    git -C /repo checkout -- .
    echo "$n: ${r:-NOT DETECTED}" | tee -a $OUT
  else
    echo "$n: patch no longer applies to the current /repo HEAD (made before a later fix: commit)" | tee -a $OUT
  fi
done
# restore coq/Gen and evidence for the unchanged tree
if [ -z "$ONLY" ]; then for p in $(cat harness/ready.txt); do ./check $p > /dev/null 2>&1; done
else for n in $ONLY; do ./check $(echo $n | cut -c1-3) > /dev/null 2>&1; done; sort -o $OUT $OUT; fi
[ -z "$(git -C /repo status --porcelain)" ] && echo "repo clean" | tee -a $OUT
