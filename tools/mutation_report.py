#!/venv/bin/python
"""Render seeded/mutation_campaign.json (+ the hand-written seeded/mutation_classification.json) as markdown:
   seeded/mutation_campaign.md, and the block between the markers `<!-- BEGIN MUTATION -->` / `<!-- END MUTATION -->` of DESIGN.md."""
import json
import os
import re

V = os.path.dirname(os.path.dirname(os.path.abspath(__file__)))
data = json.load(open(os.path.join(V, "seeded", os.environ.get("MC_OUT", "mutation_campaign.json"))))
TAG = os.environ.get("MC_TAG", "")  # "" = first campaign, "2" = second campaign (markers BEGIN MUTATION2, file mutation_campaign2.md)
cls_path = os.path.join(V, "seeded", f"mutation_classification{TAG}.json")
cls = json.load(open(cls_path)) if os.path.exists(cls_path) else {}


def key(r):
    return f"{r['pid']} {r['file'].split('/')[-1]}:{r['line']} {r['func']} [{r['desc']}]"


cols = ["mutants", "concrete", "unlocated", "tests-fail", "diagnostics", "other check", "equivalent", "gap->fixed", "open"]
rows, tot = [], {c: 0 for c in cols}
listing = []
for pid in sorted(data):
    c = {k: 0 for k in cols}
    for r in data[pid]["mutants"]:
        c["mutants"] += 1
        if r["status"] == "killed-concrete":
            c["concrete"] += 1
        elif r["status"] == "killed-unlocated":
            c["unlocated"] += 1
        else:
            t = r.get("tests", "untriaged")
            if t in ("tests-fail", "tests-timeout"):
                c["tests-fail"] += 1
            elif t == "diagnostics-only":
                c["diagnostics"] += 1
            elif r.get("caught_by_other"):
                c["other check"] += 1
                listing.append((key(r), "reported by " + ", ".join(r["caught_by_other"]), r["stmt"]))
            elif r.get("own_recheck", {}).get("status", "survived") != "survived":
                c["gap->fixed"] += 1
                listing.append((key(r), "gap of the property's own check, closed after the campaign: now " + r["own_recheck"]["status"] + " " + ", ".join(r["own_recheck"].get("signatures", [])[:2]), r["stmt"]))
            else:
                verdict = cls.get(key(r), "")
                if verdict.startswith("equivalent"):
                    c["equivalent"] += 1
                elif verdict.startswith("gap"):
                    c["gap->fixed"] += 1
                else:
                    c["open"] += 1
                listing.append((key(r), verdict or "OPEN (not yet classified)", r["stmt"]))
    rows.append((pid, c))
    for k in cols:
        tot[k] += c[k]

out = []
out.append("| property | " + " | ".join(cols) + " |")
out.append("|" + "---|" * (len(cols) + 1))
for pid, c in rows:
    out.append(f"| {pid} | " + " | ".join(str(c[k]) for k in cols) + " |")
out.append("| **total** | " + " | ".join(str(tot[k]) for k in cols) + " |")
table = "\n".join(out)
legend = (
    "Columns: *concrete* = the property's own check printed an unsuffixed VIOLATION with a failing input; *unlocated* = only "
    "`... no-failing-input-found` lines (a proof, a fragment or a correspondence broke) or a time-out; the remaining mutants "
    "left the property's own check at exit 0 and were triaged: *tests-fail* = the repository's own tests reject the change (outside "
    "the brief's scope); *diagnostics* = the mutated statement only logs / warns / prints; *other check* = a check of another "
    "property anchored on the same file reports it; *equivalent* = judged by hand not to violate any of the 20 properties (reason "
    "in `seeded/mutation_campaign.md`); *gap->fixed* = a real gap of a check, closed afterwards (signature in the same file); "
    "*open* = not classified.")
md = "# Mutation campaign\n\n" + table + "\n\n" + legend + "\n\n## Survivors that pass the repository's tests\n\n"
md += "| mutant | verdict | statement |\n|---|---|---|\n"
for k, v, st in sorted(listing):
    md += f"| `{k}` | {v} | `{st[:80].replace('|', '/')}` |\n"
open(os.path.join(V, "seeded", f"mutation_campaign{TAG}.md"), "w").write(md)
dp = os.path.join(V, "DESIGN.md")
s = open(dp).read()
block = f"<!-- BEGIN MUTATION{TAG} -->\n" + table + "\n\n" + legend + f"\n<!-- END MUTATION{TAG} -->"
if f"<!-- BEGIN MUTATION{TAG} -->" in s:
    s = re.sub(rf"<!-- BEGIN MUTATION{TAG} -->.*?<!-- END MUTATION{TAG} -->", lambda m: block, s, flags=re.S)
    open(dp, "w").write(s)
print(table)
print("open:", [k for k, v, _ in listing if v.startswith("OPEN")][:50])
