#!/venv/bin/python
"""Model mutation score: do the THEOREMS pin the Gallina models down?

Every `coq/Model/*.v` file (definitions only) is mutated one token at a time (boolean comparison operators, + / -,
&& / ||, true / false, fst / snd, firstn / skipn, min / max, small numerals, dropped `negb`); the mutated model replaces
the original in a private copy of the compiled Coq tree and every property file (`Props/*.vo`, `Refuted/*.vo`) is rebuilt:

  invalid    the model file itself (or a model file that imports it) no longer type-checks
  killed     some proof / property / refutation file no longer builds: a theorem depends on the mutated detail
  survived   everything still builds: no theorem distinguishes the mutant from the model (that part of the model is tied
             to the code by the differential correspondence only)
usage: tools/model_mutants.py [--per-file 12] [--workers 8] [--seed 0] [Model/File.v ...]   -> seeded/model_mutants.json / .md
"""
import json
import os
import random
import re
import shutil
import subprocess
import sys
from concurrent.futures import ThreadPoolExecutor

V = os.path.dirname(os.path.dirname(os.path.abspath(__file__)))
COQ = os.path.join(V, "coq")
ROOT = f"/tmp/mm_{os.getpid()}"  # private to this run: several runs may be active at once

SWAPS = [
    (r"<=\?", "<?"), (r"<\?", "<=?"), (r"=\?", "<?"), (r"&&", "||"), (r"\|\|", "&&"),
    (r"(?<![\w.])true(?![\w'])", "false"), (r"(?<![\w.])false(?![\w'])", "true"),
    (r"(?<![\w.])fst(?![\w'])", "snd"), (r"(?<![\w.])snd(?![\w'])", "fst"),
    (r"(?<![\w.])firstn(?![\w'])", "skipn"), (r"(?<![\w.])skipn(?![\w'])", "firstn"),
    (r"(?<![\w.])Z\.min(?![\w'])", "Z.max"), (r"(?<![\w.])Z\.max(?![\w'])", "Z.min"),
    (r"(?<![\w.])Nat\.min(?![\w'])", "Nat.max"), (r"(?<![\w.])Nat\.max(?![\w'])", "Nat.min"),
    (r"(?<![\w.])Qmin(?![\w'])", "Qmax"), (r"(?<![\w.])Qmax(?![\w'])", "Qmin"),
    (r" \+ ", " - "), (r" - ", " + "), (r" \* ", " + "),
    (r"(?<![\w.#])0(?![\w.#'])", "1"), (r"(?<![\w.#])1(?![\w.#'])", "2"),
    (r"(?<![\w.])negb (?=[\w(])", ""),
    (r"(?<![\w.])Nat\.pred(?![\w'])", "S"), (r"(?<![\w.])S (?=\()", ""),
]


def arg_value(name, default):
    return sys.argv[sys.argv.index(name) + 1] if name in sys.argv else default


def code_spans(txt):
    """(start, end) spans outside (* comments *) (nesting handled)"""
    spans, depth, i, start = [], 0, 0, 0
    while i < len(txt):
        if txt.startswith("(*", i):
            if depth == 0:
                spans.append((start, i))
            depth += 1
            i += 2
        elif txt.startswith("*)", i) and depth > 0:
            depth -= 1
            i += 2
            if depth == 0:
                start = i
        else:
            i += 1
    if depth == 0:
        spans.append((start, len(txt)))
    return spans


def sites_of(txt):
    out = []
    for a, b in code_spans(txt):
        seg = txt[a:b]
        for pat, repl in SWAPS:
            for m in re.finditer(pat, seg):
                # skip import / scope / notation lines
                ls = txt.rfind("\n", 0, a + m.start()) + 1
                le = txt.find("\n", a + m.start())
                line = txt[ls:le if le >= 0 else len(txt)]
                if re.match(r"\s*(From|Require|Import|Export|Local Open|Open Scope|Notation|Arguments|Set |Unset )", line):
                    continue
                out.append((a + m.start(), a + m.end(), repl, line.strip()[:110]))
    return out


def targets():
    t = []
    for d in ("Props", "Refuted"):
        for f in sorted(os.listdir(os.path.join(COQ, d))):
            if f.endswith(".v"):
                t.append(f"{d}/{f[:-2]}.vo")
    return t


def main():
    per_file = int(arg_value("--per-file", "12"))
    workers = int(arg_value("--workers", "8"))
    seed = int(arg_value("--seed", "0"))
    only = [a for a in sys.argv[1:] if a.endswith(".v")]
    files = only or ["Model/" + f for f in sorted(os.listdir(os.path.join(COQ, "Model"))) if f.endswith(".v")]
    shutil.rmtree(ROOT, ignore_errors=True)
    pristine = os.path.join(ROOT, "pristine")
    os.makedirs(pristine)
    subprocess.run(["rsync", "-a", "--exclude", "Gen/Cases_*", "--exclude", ".lock", COQ + "/", pristine + "/"], check=True)
    tg = targets()
    p = subprocess.run(["make", "-k", "-j16", "COQC=timeout 900 coqc", *tg], cwd=pristine, capture_output=True, text=True)
    if p.returncode != 0:
        print("pristine tree does not build:", p.stderr[-800:])
        return 2
    muts = []
    for f in files:
        txt = open(os.path.join(COQ, f)).read()
        ss = sites_of(txt)
        random.Random(f"{seed}-{f}").shuffle(ss)
        for (a, b, repl, line) in ss[:per_file]:
            muts.append({"file": f, "pos": a, "old": txt[a:b], "new": repl, "line": line, "text": txt[:a] + repl + txt[b:]})
        print(f"{f}: {len(ss)} sites, {min(len(ss), per_file)} taken", flush=True)
    wdirs = [os.path.join(ROOT, f"w{k}") for k in range(workers)]
    free = list(wdirs)

    def job(m):
        w = free.pop()
        try:
            subprocess.run(["rsync", "-a", "--delete", pristine + "/", w + "/"], check=True)
            open(os.path.join(w, m["file"]), "w").write(m["text"])
            vo = m["file"][:-2] + ".vo"
            p1 = subprocess.run(["make", "COQC=timeout 600 coqc", vo], cwd=w, capture_output=True, text=True)
            if p1.returncode != 0:
                status, where = "invalid", m["file"]
            else:
                p2 = subprocess.run(["make", "-k", "-j3", "COQC=timeout 600 coqc", *tg], cwd=w, capture_output=True, text=True)
                if p2.returncode == 0:
                    status, where = "survived", ""
                else:
                    fails = re.findall(r'File "\./([^"]+)", line (\d+)', p2.stderr)
                    where = ", ".join(sorted({f for f, _ in fails}))[:200]
                    status = "invalid" if fails and all(f.startswith("Model/") for f, _ in fails) else "killed"
        finally:
            free.append(w)
        r = {k: m[k] for k in ("file", "pos", "old", "new", "line")}
        r.update(status=status, where=where)
        print(f"{status:9s} {m['file']} `{m['old']}`->`{m['new']}` | {m['line'][:70]} | {where[:80]}", flush=True)
        return r

    with ThreadPoolExecutor(max_workers=workers) as ex:
        res = list(ex.map(job, muts))
    jp = os.path.join(V, "seeded", "model_mutants.json")
    out = json.load(open(jp)) if (only and os.path.exists(jp)) else {}  # a run on selected files updates their entries only
    for f in files:
        out.pop(f, None)
    for r in res:
        out.setdefault(r["file"], []).append(r)
    json.dump(out, open(jp, "w"), indent=1)
    md = ["# Model mutation score (do the theorems pin the models down?)", "",
          "| model file | mutants | invalid | killed by a proof / property / refutation | survived |", "|---|---|---|---|---|"]
    tot = [0, 0, 0, 0]
    surv = []
    for f in sorted(out):
        rs = out[f]
        c = [len(rs)] + [sum(r["status"] == s for r in rs) for s in ("invalid", "killed", "survived")]
        tot = [a + b for a, b in zip(tot, c)]
        md.append(f"| {f} | {c[0]} | {c[1]} | {c[2]} | {c[3]} |")
        surv += [r for r in rs if r["status"] == "survived"]
    md.append(f"| **total** | {tot[0]} | {tot[1]} | {tot[2]} | {tot[3]} |")
    md += ["", "## Survivors (no theorem distinguishes the mutant)", "", "| file | change | line |", "|---|---|---|"]
    for r in surv:
        md.append(f"| {r['file']} | `{r['old']}` -> `{r['new'] or '(dropped)'}` | `{r['line'].replace('|', '/')}` |")
    open(os.path.join(V, "seeded", "model_mutants.md"), "w").write("\n".join(md) + "\n")
    print("\n".join(md[:len(out) + 6]))
    shutil.rmtree(ROOT, ignore_errors=True)


if __name__ == "__main__":
    sys.exit(main() or 0)
