#!/venv/bin/python
"""Rewrites the generated parts of DESIGN.md: section 10.3 (per-property as-built notes from docs/Cxx.md)
and section 10.4 (seeded changes table from seeded/*/meta.json)."""
import json, os, re
V = os.path.dirname(os.path.dirname(os.path.abspath(__file__)))
p = os.path.join(V, "DESIGN.md")
s = open(p).read()
BEGIN, END = "<!-- BEGIN GENERATED 10.3-10.4 -->", "<!-- END GENERATED 10.3-10.4 -->"
parts = ["### 10.3 Per-property notes, as built\n",
         "One block per property, written by whoever built the check (files: `docs/Cxx.md`). They supersede the plan of section 5 wherever they differ.\n"]
for i in range(1, 21):
    f = os.path.join(V, "docs", f"C{i:02d}.md")
    if os.path.exists(f):
        txt = open(f).read().strip()
        txt = re.sub(r"^# ", "#### ", txt, flags=re.M)
        txt = re.sub(r"^## ", "##### ", txt, flags=re.M)
        parts.append(txt + "\n")
    else:
        parts.append(f"#### C{i:02d}\n(as-built note pending; see harness/c{i:02d}.py REGISTRY and coq/Props/C{i:02d}.v)\n")
parts.append("### 10.4 Seeded changes: which checks catch which\n")
parts.append("Each change was written by a fresh sub-agent that saw only the property text and a scratch worktree "
             "(nothing from /verif), confirmed by the lead (demo fails with the change, passes without; relevant existing tests pass), "
             "and evaluated with `tools/try_seed.sh`. Kept under `seeded/<name>/` (patch.diff, demo, logs, meta.json).\n")
parts.append("The last column is the final validation (`tools/final_validate.sh`): the patch REALLY applied to /repo with "
             "`git apply`, the property's quick check run, the patch undone with `git checkout -- .` - the signatures the checks "
             "print NOW (at most two shown).\n")
parts.append("| seed | property | change | needs | result when first tried | reported now (final validation) |\n|---|---|---|---|---|---|")
sd = os.path.join(V, "seeded")
final = {}
fv = os.path.join(sd, "final_validation.log")
if os.path.exists(fv):
    for ln in open(fv):
        if ":" in ln and ln.startswith("C"):
            k, _, v = ln.partition(":")
            final[k.strip()] = re.sub(r"-[0-9a-f]{10}\.json", "", v.strip()).replace("VIOLATION property=", "").replace("|", "/")
for name in sorted(os.listdir(sd)):
    m = os.path.join(sd, name, "meta.json")
    if os.path.exists(m):
        d = json.load(open(m))
        parts.append(f"| {name} | {d['breaks']} | {d['what']} | {d['needs']} | {'caught: ' if d['detected'] else '**missed at first**: '}{d['caught_by']} | {final.get(name, '(final validation not run yet)')} |")
block = BEGIN + "\n" + "\n".join(parts) + "\n" + END
if BEGIN in s:
    s = s[:s.index(BEGIN)] + block + s[s.index(END) + len(END):]
else:
    s = s.rstrip() + "\n\n" + block + "\n"
mm = os.path.join(V, "seeded", "model_mutants.md")
if os.path.exists(mm) and "<!-- BEGIN MODELMUT -->" in s:
    tab = open(mm).read()
    tab = tab[tab.index("| model file"):tab.index("## Survivors")].strip()
    s = re.sub(r"<!-- BEGIN MODELMUT -->.*?<!-- END MODELMUT -->", lambda m: "<!-- BEGIN MODELMUT -->\n" + tab + "\n<!-- END MODELMUT -->", s, flags=re.S)
# section 0, last column: theorem counts follow the property files
import glob as _glob
_lines = s.split("\n")
for _i, _l in enumerate(_lines[:60]):
    _m = re.match(r"\| (C\d\d) \|", _l)
    if not _m:
        continue
    _n = sum(len(re.findall(r"^Theorem", open(_f).read(), flags=re.M))
             for _f in _glob.glob(os.path.join(V, "coq", "Props", _m.group(1) + ".v")) + _glob.glob(os.path.join(V, "coq", "Props", _m.group(1) + "_*.v")))
    _cells = _l.split("|")
    _cells[-2] = re.sub(r"\d+ (grouped )?theorems", lambda mm: f"{_n} " + (mm.group(1) or "") + "theorems", _cells[-2])
    _lines[_i] = "|".join(_cells)
s = "\n".join(_lines)
open(p, "w").write(s)
print("DESIGN.md sections 10.3/10.4 regenerated")
