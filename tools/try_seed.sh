#!/bin/sh
# usage: tools/try_seed.sh <PROP_ID> <worktree-with-change-applied> [name]
# 1. saves the change as seeded/<name>/patch.diff (+ demo), 2. runs the demo with and without the change,
# 3. runs ./check <PROP_ID> against the changed tree (VERIF_REPO) and reports whether it was caught,
# 4. re-runs ./check on /repo to restore coq/Gen and the evidence file.
set -u
ID=$1; WT=$2; NAME=${3:-$ID}
V=/verif; D=$V/seeded/$NAME
mkdir -p "$D"
git -C "$WT" diff -- stable_baselines3 > "$D/patch.diff"
cp "$WT"/demo_*.py "$D"/ 2>/dev/null
DEMO=$(ls "$WT"/demo_*.py | head -1)
echo "== demo WITH change"; (cd "$WT" && OMP_NUM_THREADS=1 PYTHONPATH="$WT" timeout 900 /venv/bin/python "$DEMO" > "$D/demo_with.log" 2>&1; echo "exit $?" | tee -a "$D/demo_with.log"); tail -3 "$D/demo_with.log"
git -C "$WT" apply -R "$D/patch.diff"
echo "== demo WITHOUT change"; (cd "$WT" && OMP_NUM_THREADS=1 PYTHONPATH="$WT" timeout 900 /venv/bin/python "$DEMO" > "$D/demo_without.log" 2>&1; echo "exit $?" | tee -a "$D/demo_without.log"); tail -2 "$D/demo_without.log"
git -C "$WT" apply "$D/patch.diff"
[ "${SKIP_CHECK:-0}" = 1 ] && exit 0
echo "== ./check $ID on changed tree"
(cd $V && VERIF_REPO="$WT" timeout 1500 ./check "$ID" > "$D/check_with.log" 2>&1; echo "exit $?" >> "$D/check_with.log")
grep -E "VIOLATION|KNOWN-FINDING|^\[$ID\]|exit" "$D/check_with.log" | cut -c1-220
echo "== ./check $ID on /repo (restore)"
(cd $V && timeout 1500 ./check "$ID" > "$D/check_without.log" 2>&1; echo "exit $?" >> "$D/check_without.log")
grep -E "VIOLATION|^\[$ID\]|exit" "$D/check_without.log" | cut -c1-220
