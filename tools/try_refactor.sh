#!/bin/sh
# usage: tools/try_refactor.sh <patch> <name>  -> applies a behaviour-preserving patch to a scratch copy of /repo,
# runs every ready check against it, logs VIOLATION lines to seeded/refactors/<name>.log
P=$1; N=$2; V=/verif; S=/tmp/repo_refactor_$N
mkdir -p $V/seeded/refactors; cp "$P" $V/seeded/refactors/$N.patch
rm -rf $S; cp -r /repo $S; git -C $S apply "$P" || { echo "patch does not apply"; exit 2; }
: > $V/seeded/refactors/$N.log
for p in $(cat $V/harness/ready.txt); do
  (cd $V && VERIF_REPO=$S timeout 1500 ./check $p 2>&1 | grep -E "VIOLATION|^\[$p\]" | cut -c1-260 >> $V/seeded/refactors/$N.log)
done
rm -rf $S
grep -c VIOLATION $V/seeded/refactors/$N.log
