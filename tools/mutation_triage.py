#!/venv/bin/python
"""Second phase of tools/mutation_campaign.py, runnable on its own: triage the survivors recorded in a campaign log
with the repository's own tests.  The mutants are rebuilt deterministically (same seed / max-per-prop as the campaign),
applied to private scratch copies of /repo, and the test files that exercise the mutated module are run with `-x`
(the 40 tests that already fail on the unchanged tree are deselected).  `tests-fail` = outside the brief's scope.

usage: tools/mutation_triage.py <campaign log> [--seed 0] [--max-per-prop 40] [--workers 5] [--full]
merges the outcome into seeded/mutation_campaign.json
"""
import json
import os
import re
import shutil
import subprocess
import sys
import time
from concurrent.futures import ThreadPoolExecutor

V = os.path.dirname(os.path.dirname(os.path.abspath(__file__)))
sys.path.insert(0, os.path.join(V, "tools"))
import mutation_campaign as mc  # noqa: E402

ROOT = "/tmp/mt"
CORE = ["test_run", "test_save_load", "test_callbacks", "test_predict", "test_deterministic", "test_identity", "test_train_eval_mode",
        "test_dict_env", "test_her", "test_sde", "test_custom_policy", "test_cnn", "test_spaces", "test_utils", "test_gae", "test_buffers"]
VEC = ["test_vec_envs", "test_vec_normalize", "test_vec_monitor", "test_vec_stacked_obs", "test_vec_extract_dict_obs", "test_vec_check_nan",
       "test_dict_env", "test_spaces", "test_envs", "test_cnn", "test_her"]
MAP = [
    ("vec_env/vec_normalize.py", ["test_vec_normalize", "test_save_load", "test_her", "test_utils", "test_dict_env"]),
    ("running_mean_std.py", ["test_vec_normalize", "test_utils"]),
    ("vec_env/", VEC),
    ("her_replay_buffer.py", ["test_her"]),
    ("buffers.py", ["test_buffers", "test_gae", "test_dict_env", "test_her", "test_spaces", "test_run", "test_save_load"]),
    ("logger.py", ["test_logger", "test_tensorboard", "test_utils"]),
    ("monitor.py", ["test_monitor", "test_vec_monitor", "test_utils", "test_callbacks", "test_logger"]),
    ("evaluation.py", ["test_utils", "test_callbacks", "test_vec_monitor", "test_her", "test_dict_env"]),
    ("callbacks.py", ["test_callbacks", "test_her", "test_utils"]),
    ("distributions.py", ["test_distributions", "test_sde", "test_run", "test_spaces", "test_predict"]),
    ("noise.py", ["test_run", "test_deterministic", "test_identity", "test_save_load"]),
    ("save_util.py", ["test_save_load", "test_utils", "test_callbacks"]),
]


def tests_for(path):
    for key, files in MAP:
        if key in path:
            return files
    return CORE


def parse_log(path):
    surv = set()
    for ln in open(path):
        m = re.match(r"(C\d\d) survived\s+(?:tests-\w+\s+)?(\S+):(\d+) (\S+) \[(.+?)\] ", ln)
        if m:
            surv.add((m.group(1), m.group(2), int(m.group(3)), m.group(4), m.group(5)))
    return surv


def main():
    log = sys.argv[1]
    seed = int(mc.arg_value("--seed", "0"))
    maxpp = int(mc.arg_value("--max-per-prop", "40"))
    workers = int(mc.arg_value("--workers", "5"))
    full = "--full" in sys.argv
    surv = parse_log(log)
    props = [json.loads(l) for l in open(os.path.join(V, "properties.jsonl"))]
    muts = []
    for p in props:
        if not any(s[0] == p["id"] for s in surv):
            continue
        for m in mc.build_mutants(p, maxpp, seed):
            if (m["pid"], m["file"].split("/")[-1], m["line"], m["func"], m["desc"]) in surv:
                muts.append(m)
    # changes of diagnostics only (log records, warnings, prints, verbosity, memory estimates, f-string messages) touch no
    # property: recorded as `diagnostics-only`, not run
    NOISE = re.compile(r"logger\.record|warnings\.warn|^print\(|verbose|^f[\"']|total_memory_usage|_maybe_recommend_cpu|progress_bar|print_system_info|tqdm\.write|^assert .*, [\"']")
    noise = [m for m in muts if NOISE.search(m["stmt"])]
    muts = [m for m in muts if not NOISE.search(m["stmt"])]
    print(f"{len(surv)} survivors in the log, {len(muts)} to run, {len(noise)} diagnostics-only", flush=True)
    shutil.rmtree(ROOT, ignore_errors=True)
    free = []
    for k in range(workers):
        w = os.path.join(ROOT, f"r{k}")
        os.makedirs(w)
        subprocess.run(["rsync", "-a", "--exclude", ".git", "/repo/", w + "/"], check=True)
        free.append(w)
    desel = [a for t in open(os.path.join(V, "tools", "baseline_failing_tests.txt")).read().split() for a in ("--deselect", t)]

    def job(m):
        repo = free.pop()
        try:
            tgt = os.path.join(repo, m["file"])
            orig = open(os.path.join("/repo", m["file"])).read()
            open(tgt, "w").write(m["new_src"])
            files = ["tests"] if full else [f"tests/{t}.py" for t in tests_for(m["file"])]
            t0 = time.time()
            env = dict(os.environ, PYTHONPATH=repo, OMP_NUM_THREADS="1", PYTHONHASHSEED="0")
            try:
                p = subprocess.run(["/venv/bin/python", "-m", "pytest", "-x", "-q", "-p", "no:cacheprovider", "-n", "3", "--timeout=900", *desel, *files],
                                   cwd=repo, env=env, capture_output=True, text=True, timeout=3000)
                res = "tests-pass" if p.returncode == 0 else "tests-fail"
                mm = re.search(r"^(FAILED|ERROR) (\S+)", p.stdout, re.M)
                first = mm.group(2) if mm else ""
                tail = p.stdout.strip().split("\n")[-1][:160]
            except subprocess.TimeoutExpired:
                res, first, tail = "tests-timeout", "", ""
            open(tgt, "w").write(orig)
        finally:
            free.append(repo)
        r = {k: m[k] for k in ("pid", "file", "func", "line", "desc", "stmt")}
        r.update(status="survived", tests=res, tests_first_failure=first, tests_tail=tail, tests_s=round(time.time() - t0, 1),
                 tests_run="full suite" if full else ",".join(tests_for(m["file"])))
        print(f"{r['pid']} triage {res:11s} {r['file'].split('/')[-1]}:{r['line']} {r['func']} [{r['desc']}] | {r['stmt'][:70]} | {first}", flush=True)
        return r

    with ThreadPoolExecutor(max_workers=workers) as ex:
        tri = list(ex.map(job, muts))
    out_path = os.path.join(V, "seeded", os.environ.get("MC_OUT", "mutation_campaign.json"))
    old = json.load(open(out_path)) if os.path.exists(out_path) else {}
    if "--from-log" in sys.argv:
        # rebuild the first-phase records from the campaign log (the campaign was stopped before it wrote its JSON)
        allm = {}
        for p in props:
            for m in mc.build_mutants(p, maxpp, seed):
                allm[(m["pid"], m["file"].split("/")[-1], m["line"], m["func"], m["desc"])] = m
        recs = {}
        for ln in open(log):
            mm = re.match(r"(C\d\d) (killed-concrete|killed-unlocated|survived)\s+(?:tests-\w+\s+)?(\S+):(\d+) (\S+) \[(.+?)\] (\[.*\])", ln)
            if not mm:
                continue
            k = (mm.group(1), mm.group(3), int(mm.group(4)), mm.group(5), mm.group(6))
            if k not in allm:
                continue
            m = allm[k]
            r = {x: m[x] for x in ("pid", "file", "func", "line", "desc", "stmt")}
            r.update(status=mm.group(2), signatures=re.findall(r"'([^']+)'", mm.group(7)))
            recs.setdefault(m["pid"], []).append(r)
        for pid, rs in recs.items():
            old[pid] = {"seed": seed, "tier": "quick", "ops": os.environ.get("MC_OPS", "v2"), "summary": {}, "mutants": rs}
    key = lambda r: (r["pid"], r["file"], r["func"], r["line"], r["desc"])  # noqa: E731
    tri_by = {key(r): r for r in tri}
    for m in noise:
        r = {k: m[k] for k in ("pid", "file", "func", "line", "desc", "stmt")}
        tri_by[key(r)] = dict(r, tests="diagnostics-only")
    for pid, d in old.items():
        d["mutants"] = [dict(r, **{k: v for k, v in tri_by[key(r)].items() if k.startswith("tests")}) if key(r) in tri_by else r for r in d["mutants"]]
        summ = {}
        for r in d["mutants"]:
            k = r["status"] if r["status"] != "survived" else "survived/" + r.get("tests", "untriaged")
            summ[k] = summ.get(k, 0) + 1
        d["summary"] = summ
    json.dump(old, open(out_path, "w"), indent=1)
    for pid, d in sorted(old.items()):
        print(pid, d["summary"])
    shutil.rmtree(ROOT, ignore_errors=True)


if __name__ == "__main__":
    main()
