#!/bin/sh
# usage: tools/sweep.sh "<seeds>" [tier]  -> runs every ready check for each seed, logs to /tmp/sweep_<seed>.log
cd /verif
for s in $1; do
  : > /tmp/sweep_$s.log
  for p in $(cat harness/ready.txt); do
    VERIF_SEED=$s VERIF_TIER=${2:-quick} timeout 3000 ./check $p 2>&1 | grep -E "VIOLATION|^\[C|Traceback|Error" >> /tmp/sweep_$s.log
  done
  echo "DONE seed $s" >> /tmp/sweep_$s.log
done
