#!/venv/bin/python
"""Whole-check mutation campaign: which small changes of the anchored code does each property check notice?

For every property the functions overlapping the `mechanism[].where` line ranges of its anchors (resolved against the
snapshot commit the properties were written for) are mutated one site at a time (comparison / arithmetic / boolean
operator swaps, small integer constants, dropped `.copy()` / `deepcopy`, negated `if` tests, deleted expression
statements).  Every mutant is applied to a private scratch copy of /repo and decided by a private scratch copy of
/verif (`VERIF_REPO=<copy> <copy>/check Cxx --tier quick`), N workers in parallel:

  killed-concrete    a VIOLATION line with a concrete failing input (no suffix)
  killed-unlocated   only `... no-failing-input-found` lines (a proof / fragment / correspondence broke)
  survived           exit 0
Survivors are then triaged (after all checks have run) with the repository's own test suite (`--triage`): `tests-fail` means the change is
outside the brief's scope (it does not pass the existing tests), `tests-pass` means it is either an equivalent
mutant or a gap of the check - those are listed for the owners of the check.

usage: tools/mutation_campaign.py [--props C01,C05] [--workers 10] [--max-per-prop 40] [--seed 0] [--triage] [--tier quick]
writes seeded/mutation_campaign.json (merged per property).  Nothing is ever written to /repo.
"""
import ast
import copy
import json
import os
import random
import re
import shutil
import subprocess
import sys
import time
from concurrent.futures import ThreadPoolExecutor

V = os.path.dirname(os.path.dirname(os.path.abspath(__file__)))
SNAPSHOT = "9195fc6"
OPS_V2 = os.environ.get("MC_OPS", "v2") == "v2"  # v1 = the operator set of the first campaign (no delassign / swapargs)
ROOT = "/tmp/mc"

SWAP_CMP = {ast.Lt: ast.LtE, ast.LtE: ast.Lt, ast.Gt: ast.GtE, ast.GtE: ast.Gt, ast.Eq: ast.NotEq, ast.NotEq: ast.Eq,
            ast.Is: ast.IsNot, ast.IsNot: ast.Is, ast.In: ast.NotIn, ast.NotIn: ast.In}
SWAP_BIN = {ast.Add: ast.Sub, ast.Sub: ast.Add, ast.Mult: ast.Add, ast.FloorDiv: ast.Mod, ast.Mod: ast.FloorDiv, ast.Div: ast.Mult,
            ast.BitOr: ast.BitAnd, ast.BitAnd: ast.BitOr}
SWAP_BOOL = {ast.And: ast.Or, ast.Or: ast.And}


def arg_value(name, default):
    if name in sys.argv:
        return sys.argv[sys.argv.index(name) + 1]
    return default


# ----------------------------------------------------------------------------- targets

def parse_where(where, files):
    """'dummy_vec_env.py:56-73, subproc_vec_env.py:142-150' -> [(repo path, lo, hi)]"""
    out = []
    for m in re.finditer(r"([\w/]+\.py):([\d,\- ]+)", where):
        name, spans = m.group(1), m.group(2)
        cands = [f for f in files if f.endswith("/" + name) or f == name]
        if not cands:
            cands = [name if name.startswith("stable_baselines3/") else None]
            # a path such as 'sac/policies.py' that is not in anchors.files
            p = os.path.join("stable_baselines3", name)
            if os.path.exists(os.path.join("/repo", p)):
                cands = [p]
            else:
                hits = subprocess.run(["git", "-C", "/repo", "ls-files", f"*/{name}"], capture_output=True, text=True).stdout.split()
                hits = [h for h in hits if h.startswith("stable_baselines3/")]
                cands = hits[:1]
        if not cands or cands[0] is None:
            continue
        for sp in spans.split(","):
            sp = sp.strip()
            if not sp:
                continue
            lo, _, hi = sp.partition("-")
            try:
                out.append((cands[0], int(lo), int(hi or lo)))
            except ValueError:
                pass
    return out


def functions_of(tree):
    found = {}

    def visit(node, prefix):
        for ch in getattr(node, "body", []):
            if isinstance(ch, ast.ClassDef):
                visit(ch, prefix + ch.name + ".")
            elif isinstance(ch, (ast.FunctionDef, ast.AsyncFunctionDef)):
                found[prefix + ch.name] = ch
                visit(ch, prefix + ch.name + ".")
    visit(tree, "")
    return found


def targets_for(prop):
    anchors = prop["anchors"]
    if isinstance(anchors, str):
        anchors = ast.literal_eval(anchors)
    files = anchors.get("files", [])
    wanted = {}
    for mech in anchors.get("mechanism", []):
        for path, lo, hi in parse_where(mech.get("where", ""), files):
            old = subprocess.run(["git", "-C", "/repo", "show", f"{SNAPSHOT}:{path}"], capture_output=True, text=True).stdout
            if not old:
                continue
            fns = functions_of(ast.parse(old))
            for q, node in fns.items():
                if node.lineno <= hi and node.end_lineno >= lo:
                    # innermost functions only: drop an enclosing function when a nested one also overlaps
                    wanted.setdefault(path, set()).add(q)
    for path, qs in wanted.items():
        drop = {q for q in qs if any(o != q and o.startswith(q + ".") for o in qs)}
        wanted[path] = sorted(qs - drop)
    return wanted


# ----------------------------------------------------------------------------- mutants

def is_copy_call(node):
    if not isinstance(node, ast.Call):
        return None
    f = node.func
    if isinstance(f, ast.Attribute) and f.attr in ("copy", "clone") and not node.args and not node.keywords:
        if isinstance(f.value, ast.Name) and f.value.id in ("np", "copy", "th"):
            return None
        return f.value
    name = f.attr if isinstance(f, ast.Attribute) else getattr(f, "id", None)
    if name in ("deepcopy", "copy") and len(node.args) == 1 and not node.keywords:
        if isinstance(f, ast.Attribute) and not (isinstance(f.value, ast.Name) and f.value.id in ("copy", "np")):
            return None
        return node.args[0]
    return None


def _is_state_target(node):
    """assignment to self.<attr> or to an element of self.<attr> (a state update of the object)"""
    tgts = node.targets if isinstance(node, ast.Assign) else [node.target]
    for t in tgts:
        while isinstance(t, ast.Subscript):
            t = t.value
        if isinstance(t, ast.Attribute) and isinstance(t.value, ast.Name) and t.value.id == "self":
            return True
    return False


def sites(fn):
    out = []
    body_nodes = list(ast.walk(fn))
    pos = {id(n): i for i, n in enumerate(body_nodes)}
    neg_operands = {pos[id(n.operand)] for n in body_nodes if isinstance(n, ast.UnaryOp) and isinstance(n.op, ast.USub) and isinstance(n.operand, ast.Constant)}
    in_signature = set()
    for part in [fn.args] + list(fn.decorator_list) + ([fn.returns] if fn.returns is not None else []):
        in_signature |= {pos[id(n)] for n in ast.walk(part)}
    for idx, node in enumerate(body_nodes):
        if node is fn:
            continue
        if OPS_V2 and idx in in_signature:
            continue  # default values / annotations / decorators are not mutated
        if isinstance(node, ast.Compare):
            for i, op in enumerate(node.ops):
                if type(op) in SWAP_CMP:
                    out.append(("cmp", idx, i))
        elif isinstance(node, (ast.BinOp, ast.AugAssign)) and type(node.op) in SWAP_BIN:
            if isinstance(node, ast.BinOp) and isinstance(node.op, ast.Mod) and isinstance(node.left, ast.Constant) and isinstance(node.left.value, str):
                continue  # string formatting
            out.append(("bin", idx, 0))
        elif isinstance(node, ast.BoolOp) and type(node.op) in SWAP_BOOL:
            out.append(("bool", idx, 0))
        elif isinstance(node, ast.Constant) and isinstance(node.value, int) and not isinstance(node.value, bool) and abs(node.value) <= 3:
            if OPS_V2 and idx in neg_operands:
                continue  # the 1 of a literal -1: reshape(-1, ...) treats every negative number alike
            out.append(("const", idx, 0))
        elif isinstance(node, ast.Constant) and isinstance(node.value, bool):
            out.append(("boolconst", idx, 0))
        elif isinstance(node, ast.UnaryOp) and isinstance(node.op, ast.Not):
            out.append(("not", idx, 0))
        elif isinstance(node, (ast.If, ast.While, ast.IfExp)) and not (isinstance(node.test, ast.UnaryOp) and isinstance(node.test.op, ast.Not)):
            out.append(("negate", idx, 0))
        elif isinstance(node, ast.Expr) and isinstance(node.value, ast.Call):
            out.append(("delete", idx, 0))
        elif OPS_V2 and isinstance(node, (ast.Assign, ast.AugAssign)) and _is_state_target(node):
            out.append(("delassign", idx, 0))
        if OPS_V2 and isinstance(node, ast.Call) and len(node.args) >= 2 and not any(isinstance(a, ast.Starred) for a in node.args[:2]) \
                and ast.dump(node.args[0]) != ast.dump(node.args[1]):
            out.append(("swapargs", idx, 0))
        if is_copy_call(node) is not None:
            out.append(("uncopy", idx, 0))
    return out


class _Replace(ast.NodeTransformer):
    def __init__(self, target, new):
        self.target, self.new = target, new

    def visit(self, node):
        if node is self.target:
            return self.new
        return super().visit(node)


def mutate(fn, site):
    kind, idx, i = site
    m = copy.deepcopy(fn)
    node = list(ast.walk(m))[idx]
    line = node.lineno
    if kind == "cmp":
        old = type(node.ops[i]).__name__
        node.ops[i] = SWAP_CMP[type(node.ops[i])]()
        desc = f"{old}->{type(node.ops[i]).__name__}"
    elif kind == "bin":
        old = type(node.op).__name__
        node.op = SWAP_BIN[type(node.op)]()
        desc = f"{old}->{type(node.op).__name__}"
    elif kind == "bool":
        old = type(node.op).__name__
        node.op = SWAP_BOOL[type(node.op)]()
        desc = f"{old}->{type(node.op).__name__}"
    elif kind == "const":
        desc = f"const {node.value}->{node.value + 1}"
        node.value = node.value + 1
    elif kind == "boolconst":
        desc = f"const {node.value}->{not node.value}"
        node.value = not node.value
    elif kind == "not":
        desc = "drop not"
        m = _Replace(node, node.operand).visit(m)
    elif kind == "negate":
        desc = "negate test"
        node.test = ast.UnaryOp(op=ast.Not(), operand=node.test)
    elif kind == "delete":
        desc = "delete call statement"
        m = _Replace(node, ast.Pass()).visit(m)
    elif kind == "delassign":
        desc = "delete state assignment"
        m = _Replace(node, ast.Pass()).visit(m)
    elif kind == "swapargs":
        desc = "swap first two arguments"
        node.args[0], node.args[1] = node.args[1], node.args[0]
    elif kind == "uncopy":
        desc = "drop copy"
        m = _Replace(node, is_copy_call(node)).visit(m)
    else:
        raise ValueError(kind)
    ast.fix_missing_locations(m)
    return desc, line, m


def build_mutants(prop, max_per_prop, seed):
    rng = random.Random(f"{seed}-{prop['id']}")
    per_fn = []
    for path, quals in sorted(targets_for(prop).items()):
        src = open(os.path.join("/repo", path)).read()
        fns = functions_of(ast.parse(src))
        for q in quals:
            if q not in fns:
                continue
            fn = fns[q]
            ss = sites(fn)
            rng.shuffle(ss)
            per_fn.append((path, q, fn, ss, src))
    chosen = []
    k = 0
    while len(chosen) < max_per_prop and any(ss for (_, _, _, ss, _) in per_fn):
        path, q, fn, ss, src = per_fn[k % len(per_fn)]
        k += 1
        if not ss:
            continue
        site = ss.pop()
        try:
            desc, line, m = mutate(fn, site)
            new_fn_src = ast.unparse(m)
        except Exception:
            continue
        lines = src.split("\n")
        first = min([fn.lineno] + [d.lineno for d in fn.decorator_list])
        indent = re.match(r"\s*", lines[fn.lineno - 1]).group(0)
        new_lines = lines[: first - 1] + [indent + ln if ln else ln for ln in new_fn_src.split("\n")] + lines[fn.end_lineno:]
        new_src = "\n".join(new_lines)
        try:
            compile(new_src, path, "exec")
        except SyntaxError:
            continue
        if ast.dump(ast.parse(new_src)) == ast.dump(ast.parse(src)):
            continue
        stmt = lines[line - 1].strip()[:90] if line - 1 < len(lines) else ""
        if OPS_V2:
            desc = f"{desc} @{site[1]}"  # node index inside the function: distinguishes several sites of one line
        chosen.append({"pid": prop["id"], "file": path, "func": q, "line": line, "desc": desc, "stmt": stmt, "new_src": new_src})
    return chosen


# ----------------------------------------------------------------------------- workers

def prepare_worker(k):
    w = os.path.join(ROOT, f"w{k}")
    shutil.rmtree(w, ignore_errors=True)
    os.makedirs(w)
    subprocess.run(["rsync", "-a", "--exclude", ".git", "--exclude", "replays/*", "--exclude", "seeded", "--exclude", "Cases_*", V + "/", w + "/verif/"], check=True)
    subprocess.run(["rsync", "-a", "--exclude", ".git", "/repo/", w + "/repo/"], check=True)
    os.makedirs(os.path.join(w, "verif", "replays"), exist_ok=True)
    return w


def run_mutant(w, mut, tier, triage):
    repo = os.path.join(w, "repo")
    tgt = os.path.join(repo, mut["file"])
    orig = open(os.path.join("/repo", mut["file"])).read()
    open(tgt, "w").write(mut["new_src"])
    env = dict(os.environ, VERIF_REPO=repo, OMP_NUM_THREADS="1", PYTHONHASHSEED="0", VERIF_SEED="0")
    t0 = time.time()
    res = {k: mut[k] for k in ("pid", "file", "func", "line", "desc", "stmt")}
    if triage == "only":
        res.update(mut.get("prev", {}))
    try:
        if triage == "only":
            raise StopIteration
        p = subprocess.run([os.path.join(w, "verif", "check"), mut["pid"], "--tier", tier], env=env, capture_output=True, text=True, timeout=2400)
        out = p.stdout
        vio = [ln for ln in out.split("\n") if ln.startswith("VIOLATION")]
        sigs = sorted({re.sub(r"-[0-9a-f]{8,}\.json.*", "", ln.split("replay=")[1].split("/")[-1]) for ln in vio if "replay=" in ln})
        if any(not ln.rstrip().endswith("no-failing-input-found") for ln in vio):
            res["status"] = "killed-concrete"
        elif vio or p.returncode != 0:
            res["status"] = "killed-unlocated"
        else:
            res["status"] = "survived"
        res["signatures"] = sigs[:6]
        res["rc"] = p.returncode
    except StopIteration:
        pass
    except subprocess.TimeoutExpired:
        res["status"] = "killed-unlocated"
        res["signatures"] = ["timeout"]
    res["check_s"] = round(time.time() - t0, 1)
    if triage == "only" or (res["status"] == "survived" and triage):
        t0 = time.time()
        try:
            # the tests that already fail on the unchanged tree (Atari ROMs, tqdm/rich, tensorboard missing) are deselected
            desel = [a for t in open(os.path.join(V, "tools", "baseline_failing_tests.txt")).read().split() for a in ("--deselect", t)]
            p = subprocess.run(["/venv/bin/python", "-m", "pytest", "-x", "-q", "-p", "no:cacheprovider", "-n", "4", "--timeout=900", *desel, "tests"],
                               cwd=repo, env=dict(env, PYTHONPATH=repo), capture_output=True, text=True, timeout=3000)
            tail = p.stdout.strip().split("\n")[-1][:160]
            res["tests"] = "tests-pass" if p.returncode == 0 else "tests-fail"
            res["tests_tail"] = tail
            if p.returncode != 0:
                m = re.search(r"^(FAILED|ERROR) (\S+)", p.stdout, re.M)
                res["tests_first_failure"] = m.group(2) if m else ""
        except subprocess.TimeoutExpired:
            res["tests"] = "tests-timeout"
        res["tests_s"] = round(time.time() - t0, 1)
    open(tgt, "w").write(orig)
    # drop what the run left behind in the scratch copy
    for d in ("replays",):
        for f in os.listdir(os.path.join(w, "verif", d)):
            try:
                os.remove(os.path.join(w, "verif", d, f))
            except OSError:
                pass
    return res


def main():
    props = [json.loads(l) for l in open(os.path.join(V, "properties.jsonl"))]
    sel = arg_value("--props", None)
    if sel:
        props = [p for p in props if p["id"] in sel.split(",")]
    workers = int(arg_value("--workers", "10"))
    maxpp = int(arg_value("--max-per-prop", "40"))
    seed = int(arg_value("--seed", "0"))
    tier = arg_value("--tier", "quick")
    triage = "--triage" in sys.argv
    muts = []
    for p in props:
        ms = build_mutants(p, maxpp, seed)
        print(f"{p['id']}: {len(ms)} mutants over {sorted({m['func'] for m in ms})}", flush=True)
        muts += ms
    if "--list" in sys.argv:
        for m in muts:
            print(m["pid"], m["file"], m["func"], m["line"], m["desc"], "|", m["stmt"])
        return
    # interleave properties so that slow checks spread over the workers
    muts.sort(key=lambda m: (hash((m["line"], m["desc"])) % 997, m["pid"]))
    ws = [prepare_worker(k) for k in range(workers)]
    free = list(ws)
    results = []
    out_path = os.path.join(V, "seeded", os.environ.get("MC_OUT", "mutation_campaign.json"))

    def job(m):
        w = free.pop()
        try:
            r = run_mutant(w, m, tier, False)
        finally:
            free.append(w)
        print(f"{r['pid']} {r['status']:17s} {r.get('tests', ''):11s} {r['file'].split('/')[-1]}:{r['line']} {r['func']} [{r['desc']}] {r.get('signatures', [])[:2]}", flush=True)
        return r

    def job_triage(m):
        w = free.pop()
        try:
            r = run_mutant(w, m, tier, "only")
        finally:
            free.append(w)
        print(f"{r['pid']} triage {r.get('tests', ''):11s} {r['file'].split('/')[-1]}:{r['line']} {r['func']} [{r['desc']}] {r.get('tests_first_failure', '')}", flush=True)
        return r

    with ThreadPoolExecutor(max_workers=workers) as ex:
        results = list(ex.map(job, muts))
    if triage:
        by_key = {(m["pid"], m["file"], m["func"], m["line"], m["desc"]): m for m in muts}
        surv = []
        for r in results:
            if r["status"] == "survived":
                m = dict(by_key[(r["pid"], r["file"], r["func"], r["line"], r["desc"])], prev=r)
                surv.append(m)
        print(f"--- triage of {len(surv)} survivors with the repository's test suite", flush=True)
        with ThreadPoolExecutor(max_workers=max(2, workers // 3)) as ex:
            tri = list(ex.map(job_triage, surv))
        tri_by = {(r["pid"], r["file"], r["func"], r["line"], r["desc"]): r for r in tri}
        results = [tri_by.get((r["pid"], r["file"], r["func"], r["line"], r["desc"]), r) for r in results]
    old = {}
    if os.path.exists(out_path):
        old = json.load(open(out_path))
    for p in props:
        rs = [r for r in results if r["pid"] == p["id"]]
        summ = {}
        for r in rs:
            k = r["status"] if r["status"] != "survived" else "survived/" + r.get("tests", "untriaged")
            summ[k] = summ.get(k, 0) + 1
        old[p["id"]] = {"seed": seed, "tier": tier, "summary": summ, "mutants": rs}
    json.dump(old, open(out_path, "w"), indent=1)
    tot = {}
    for pid, d in sorted(old.items()):
        print(pid, d["summary"])
        for k, v in d["summary"].items():
            tot[k] = tot.get(k, 0) + v
    print("TOTAL", tot)
    shutil.rmtree(ROOT, ignore_errors=True)


if __name__ == "__main__":
    main()
