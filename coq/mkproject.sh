#!/bin/sh
# regenerate _CoqProject (all .v files except harness-generated Cases_*) and the Makefile
cd "$(dirname "$0")"
{ echo "-Q . SB3V"; echo "-arg -w -arg -notation-overridden,-deprecated-hint-without-locality,-deprecated-instance-without-locality,-ambiguous-paths,-redundant-canonical-projection";
  find Lib Model Gen Proofs Props Refuted -name '*.v' ! -name 'Cases_*' | sort; } > _CoqProject.new
if ! cmp -s _CoqProject.new _CoqProject 2>/dev/null; then mv _CoqProject.new _CoqProject; coq_makefile -f _CoqProject -o Makefile >/dev/null; else rm _CoqProject.new; fi
[ -f Makefile ] || coq_makefile -f _CoqProject -o Makefile >/dev/null
