(* Helpers for evaluating rational models inside coqc.
   Coq 8.16 prints large Z / Q numerals through Gallina number-notation printers, which is
   quadratic and takes seconds for 500-bit values: never print exact rationals; compare inside
   Coq and print booleans and 10^-9-unit integer approximations instead. *)
From Coq Require Import ZArith QArith Qabs List.
Import ListNotations.

Definition qapprox (q : Q) : Z := (Qnum q * 1000000000) / Zpos (Qden q).

(* |m - i| <= abs + rel * |m|   (rel = abs = 0: exact equality as rationals) *)
Definition qclose (rel abs m i : Q) : bool := Qle_bool (Qabs (m - i)) (abs + rel * Qabs m).

Fixpoint qclose_list (rel abs : Q) (ms is_ : list Q) : list bool :=
  match ms, is_ with
  | m :: ms', i :: is' => qclose rel abs m i :: qclose_list rel abs ms' is'
  | [], [] => []
  | _, _ => [false]
  end.

Lemma qclose_exact m i : qclose 0 0 m i = true -> m == i.
Proof.
  unfold qclose. intros H. apply Qle_bool_iff in H.
  assert (H0 : Qabs (m - i) <= 0).
  { eapply Qle_trans; [exact H|]. ring_simplify. apply Qle_refl. }
  assert (Hz : m - i == 0).
  { apply Qle_antisym.
    - eapply Qle_trans; [apply Qle_Qabs | exact H0].
    - assert (- (m - i) <= 0) as Hn.
      { eapply Qle_trans; [|exact H0]. rewrite <- Qabs_opp. apply Qle_Qabs. }
      apply Qopp_le_compat in Hn. rewrite Qopp_involutive in Hn. exact Hn. }
  rewrite <- (Qplus_0_r i). rewrite <- Hz. ring.
Qed.
