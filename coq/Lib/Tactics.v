(* Shared header: arithmetic automation set up so that [lia] decides boolean
   comparisons, [/] and [mod]. Stdlib only. *)
From Coq Require Export ZArith List Bool Lia Arith.
From Coq Require Export ZifyBool ZifyNat.
Export ListNotations.
Ltac Zify.zify_post_hook ::= Z.to_euclidean_division_equations.

Ltac inv H := inversion H; subst; clear H.
Ltac destr_if :=
  match goal with
  | |- context [if ?c then _ else _] => let E := fresh "E" in destruct c eqn:E
  | H : context [if ?c then _ else _] |- _ => let E := fresh "E" in destruct c eqn:E
  end.
