From SB3V Require Import Lib.Tactics.
From Coq Require Import Permutation.

Section ListUtil.
Context {A : Type}.

Lemma firstn_skipn_app (n : nat) (l : list A) : firstn n l ++ skipn n l = l.
Proof. apply firstn_skipn. Qed.

Lemma skipn_skipn_add (a b : nat) (l : list A) : skipn a (skipn b l) = skipn (b + a) l.
Proof.
  revert l; induction b as [|b IH]; intros l; simpl.
  - reflexivity.
  - destruct l as [|x l]; simpl.
    + now rewrite skipn_nil.
    + apply IH.
Qed.

Lemma skipn_all_ge (n : nat) (l : list A) : length l <= n -> skipn n l = [].
Proof. intros H; apply skipn_all2; exact H. Qed.

Lemma nth_skipn (n k : nat) (l : list A) (d : A) : nth k (skipn n l) d = nth (n + k) l d.
Proof.
  revert l; induction n as [|n IH]; intros l; simpl.
  - reflexivity.
  - destruct l as [|x l]; simpl.
    + destruct k; reflexivity.
    + apply IH.
Qed.

Lemma hd_skipn_nth (n : nat) (l : list A) (d : A) : hd d (skipn n l) = nth n l d.
Proof.
  rewrite <- (Nat.add_0_r n) at 2. rewrite <- nth_skipn.
  destruct (skipn n l); reflexivity.
Qed.
End ListUtil.
