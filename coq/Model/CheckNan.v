(* C17 (build round 5) - VecCheckNan (vec_check_nan.py).  Definitions only.
   A cell is a finite number, nan, +inf or -inf.  Every call checks a list of named arrays
   (reset: observations; step_async: actions; step_wait: observations, rewards, dones; a Dict / tuple
   observation contributes one array per key / index).  The data itself is handed on untouched. *)
From Coq Require Import ZArith List Bool.
Import ListNotations.
Local Open Scope nat_scope.

Inductive fval := Fin (z : Z) | NaN | PInf | NInf.
Definition is_nan (v : fval) : bool := match v with NaN => true | _ => false end.
Definition is_inf (v : fval) : bool := match v with PInf | NInf => true | _ => false end.
Definition is_finite (v : fval) : bool := match v with Fin _ => true | _ => false end.

Record cn_cfg := mk_cfg { raise_exception : bool; warn_once : bool; check_inf : bool }.

(* check_array_value: [(name, "inf")] then [(name, "nan")] *)
Inductive issue := IInf | INan.
Definition array_issues (c : cn_cfg) (name : nat) (a : list fval) : list (nat * issue) :=
  (if check_inf c && existsb is_inf a then [(name, IInf)] else []) ++
  (if existsb is_nan a then [(name, INan)] else []).
Fixpoint issues_from (c : cn_cfg) (k : nat) (arrays : list (list fval)) : list (nat * issue) :=
  match arrays with [] => [] | a :: r => array_issues c k a ++ issues_from c (S k) r end.
Definition issues (c : cn_cfg) (arrays : list (list fval)) : list (nat * issue) := issues_from c 0 arrays.

(* the cells that count as non-finite under check_inf *)
Definition bad_cell (c : cn_cfg) (v : fval) : bool := is_nan v || (check_inf c && is_inf v).

Inductive verdict := VPass | VWarn (found : list (nat * issue)) | VRaise (found : list (nat * issue)).
(* _check_val: (verdict, _user_warned afterwards) *)
Definition check_val (c : cn_cfg) (warned : bool) (arrays : list (list fval)) : verdict * bool :=
  if negb (raise_exception c) && warn_once c && warned then (VPass, warned)
  else match issues c arrays with
       | [] => (VPass, warned)
       | f => (if raise_exception c then VRaise f else VWarn f, true)
       end.

(* what the wrapped VecEnv delivers / what the agent sends *)
Inductive cn_event :=
  | NReset (obs : list (list fval))
  | NStep (actions : list fval) (obs : list (list fval)) (rewards : list fval) (dones : list bool).
(* what the caller of the wrapper sees *)
Inductive cn_out :=
  | CNReset (v : verdict) (obs : list (list fval))               (* v <> VRaise: the observation, unchanged *)
  | CNResetRaised (found : list (nat * issue))
  | CNAsyncRaised (found : list (nat * issue))                    (* raised before the wrapped env was stepped *)
  | CNStep (va vw : verdict) (obs : list (list fval)) (rewards : list fval) (dones : list bool)
  | CNWaitRaised (va : verdict) (found : list (nat * issue)).

Definition dones_arr (d : list bool) : list fval := map (fun b : bool => Fin (if b then 1%Z else 0%Z)) d.

Definition cn_step (c : cn_cfg) (warned : bool) (ev : cn_event) : cn_out * bool :=
  match ev with
  | NReset obs =>
      match check_val c warned obs with
      | (VRaise f, w) => (CNResetRaised f, w)
      | (v, w) => (CNReset v obs, w)
      end
  | NStep acts obs rews dones =>
      match check_val c warned [acts] with
      | (VRaise f, w) => (CNAsyncRaised f, w)
      | (va, w) =>
          match check_val c w (obs ++ [rews; dones_arr dones]) with
          | (VRaise f, w') => (CNWaitRaised va f, w')
          | (vw, w') => (CNStep va vw obs rews dones, w')
          end
      end
  end.
Fixpoint cn_run (c : cn_cfg) (warned : bool) (evs : list cn_event) : list cn_out :=
  match evs with
  | [] => []
  | ev :: r => let '(o, w) := cn_step c warned ev in o :: cn_run c w r
  end.

(* specification side *)
Definition arrays_finite (arrays : list (list fval)) : Prop := Forall (Forall (fun v => is_finite v = true)) arrays.
Definition event_finite (ev : cn_event) : Prop :=
  match ev with
  | NReset obs => arrays_finite obs
  | NStep a obs r _ => arrays_finite [a] /\ arrays_finite obs /\ arrays_finite [r]
  end.
Definition some_bad (c : cn_cfg) (arrays : list (list fval)) : Prop := exists a v, In a arrays /\ In v a /\ bad_cell c v = true.
Definition identity_out (ev : cn_event) : cn_out :=
  match ev with NReset obs => CNReset VPass obs | NStep _ obs r d => CNStep VPass VPass obs r d end.
