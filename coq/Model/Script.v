(* Scripted sub-environments shared by the VecEnv / collection / wrapper models.
   Mirrors /verif/harness/scripted_envs.py (ScriptedEnv): observations, infos are integer tags,
   rewards are integers in units of 1/4. Definitions only. *)
From Coq Require Import ZArith List Bool.
Import ListNotations.

Record sstep := mk_sstep { st_tag : Z; st_r4 : Z; st_term : bool; st_trunc : bool; st_info : Z }.
Record episode := mk_episode { ep_reset_tag : Z; ep_reset_info : Z; ep_steps : list sstep }.
Definition script := list episode.

(* cursor: number of resets so far, position inside the current episode *)
Record cursor := mk_cursor { c_resets : nat; c_pos : nat }.
Definition cursor0 : cursor := mk_cursor 0 0.

Definition dummy_step : sstep := mk_sstep 0 0 false true 0.
Definition dummy_episode : episode := mk_episode 0 0 [].

(* reset number k starts episode (k-1) mod (length script) *)
Definition cur_episode (sc : script) (c : cursor) : episode :=
  nth ((c_resets c - 1) mod (length sc)) sc dummy_episode.

(* reset: returns (new cursor, observation tag, info tag) *)
Definition env_reset (sc : script) (c : cursor) : cursor * Z * Z :=
  let c' := mk_cursor (S (c_resets c)) 0 in
  let ep := cur_episode sc c' in
  (c', ep_reset_tag ep, ep_reset_info ep).

(* step: the scripted step at the current position (the last one repeats if stepped past the end) *)
Definition env_step (sc : script) (c : cursor) : cursor * sstep :=
  let steps := ep_steps (cur_episode sc c) in
  let st := nth (Nat.min (c_pos c) (length steps - 1)) steps dummy_step in
  (mk_cursor (c_resets c) (S (c_pos c)), st).

(* a script is well formed when every episode is non-empty and ends exactly at its last step *)
Fixpoint ends_at_last (steps : list sstep) : bool :=
  match steps with
  | [] => false
  | [s] => st_term s || st_trunc s
  | s :: rest => negb (st_term s || st_trunc s) && ends_at_last rest
  end.
Definition wf_script (sc : script) : bool :=
  negb (Nat.eqb (length sc) 0) && forallb (fun e => ends_at_last (ep_steps e)) sc.
