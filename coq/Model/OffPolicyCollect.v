(* Model of OffPolicyAlgorithm.learn / collect_rollouts / _sample_action / _store_transition
   (off_policy_algorithm.py) and BasePolicy.scale_action / unscale_action (policies.py) over scripted
   sub-environments.  Definitions only; proofs are in Proofs/OffPolicyCollectProofs.v.

   One environment column at a time (the vectorised code does the same for every sub-env index); the auto-reset
   step [vstep1] is the one of Model/OnPolicyCollect.v, which duplicates Model/VecEnv.v (C01).
   The unscaled action chosen by the policy / the warm-up sampler and the action noise are ORACLE inputs. *)
From Coq Require Import ZArith QArith Qminmax List Bool.
From SB3V Require Import Model.Script Lib.QUtil Model.OnPolicyCollect.
Import ListNotations.
Local Open Scope Z_scope.

Inductive akind :=
| ABox (low high : list Q)     (* Box action space: scale to [-1,1], add noise, clip, unscale for the env *)
| ADisc.                       (* discrete: no scaling *)

Definition scale (lo hi a : Q) : Q := (2 * ((a - lo) / (hi - lo)) - 1)%Q.
Definition clip1 (x : Q) : Q := Qmin (Qmax x (-1)) 1.

Fixpoint map2q (f : Q -> Q -> Q) (a b : list Q) : list Q :=
  match a, b with x :: a', y :: b' => f x y :: map2q f a' b' | _, _ => [] end.

(* oracle for one (step, env): the unscaled action and the noise sample (None: no action noise configured) *)
Record orc := mkO { o_u : list Q; o_noise : option (list Q) }.

Definition buffer_action (ak : akind) (o : orc) : list Q :=
  match ak with
  | ABox lo hi =>
      let sc := map3 (fun a l h => scale l h a) (o_u o) lo hi in
      match o_noise o with
      | Some nz => map2q (fun s z => clip1 (s + z)) sc nz
      | None => sc
      end
  | ADisc => o_u o
  end.

Definition off_env_action (ak : akind) (ba : list Q) : list Q :=
  match ak with
  | ABox lo hi => map3 (fun x l h => unscale l h x) ba lo hi
  | ADisc => ba
  end.

(* one replay_buffer.add for one env + the action the env received *)
Record trans := mkT { t_obs : Z; t_next : Z; t_act : list Q; t_r4 : Z; t_done : bool; t_timeout : bool;
                      t_envact : list Q }.

(* per-column algorithm state: env cursor and _last_original_obs *)
Record ostate := mkOS { os_cur : cursor; os_obs : Z }.

(* next observation stored: infos["terminal_observation"] when done, else new_obs *)
Definition stored_next (o : vout) : Z := match vo_term o with Some t => if vo_done o then t else vo_obs o | None => vo_obs o end.

Definition off_step (ak : akind) (sc : script) (st : ostate) (o : orc) : ostate * trans * bool :=
  let '(c', out) := vstep1 sc (os_cur st) in
  let ba := buffer_action ak o in
  (mkOS c' (vo_obs out),
   mkT (os_obs st) (stored_next out) ba (vo_r4 out) (vo_done out) (vo_tl out) (off_env_action ak ba),
   vo_done out).

(* every oracle entry is one env step + one add: the log the property talks about *)
Fixpoint off_collect (ak : akind) (sc : script) (st : ostate) (os : list orc) : ostate * list trans :=
  match os with
  | [] => (st, [])
  | o :: r => let '(st1, t, _) := off_step ak sc st o in
              let '(st2, l) := off_collect ak sc st1 r in (st2, t :: l)
  end.

(* ---- a callback that returns False (stop request) ----
   collect_rollouts returns right after env.step and callback.on_step(): the transition is NOT stored and _last_obs /
   _last_original_obs are NOT advanced, while the environment has moved on.  learn() ends there; a later
   learn(reset_num_timesteps=False) continues from the stale observation.
   [off_collect_s]: like off_collect, every oracle entry carries the flag "the callback returned False at this step". *)
Definition off_step_stopped (sc : script) (st : ostate) : ostate :=
  mkOS (fst (vstep1 sc (os_cur st))) (os_obs st).

Fixpoint off_collect_s (ak : akind) (sc : script) (st : ostate) (os : list (orc * bool)) : ostate * list trans :=
  match os with
  | [] => (st, [])
  | (o, false) :: r => let '(st1, t, _) := off_step ak sc st o in
                       let '(st2, l) := off_collect_s ak sc st1 r in (st2, t :: l)
  | (_, true) :: r => off_collect_s ak sc (off_step_stopped sc st) r
  end.

(* ---- the loops that decide how many steps are taken ---- *)
Inductive tfreq := TfStep (f : Z) | TfEpis (f : Z).
Definition off_more (tf : tfreq) (steps eps : Z) : bool :=
  match tf with TfStep f => steps <? f | TfEpis f => eps <? f end.

Record lstate := mkL { l_os : ostate; l_nt : Z; l_orcs : list orc; l_exh : bool }.

(* collect_rollouts: structural in the oracle list; running out of oracle entries sets l_exh *)
Fixpoint off_rollout (ak : akind) (sc : script) (ne : Z) (tf : tfreq) (orcs : list orc) (steps eps : Z) (os : ostate) (nt : Z)
  : lstate * list trans :=
  if off_more tf steps eps then
    match orcs with
    | [] => (mkL os nt [] true, [])
    | o :: r =>
        let '(os1, t, done) := off_step ak sc os o in
        let '(s, l) := off_rollout ak sc ne tf r (steps + 1) (if done then eps + 1 else eps) os1 (nt + ne) in
        (s, t :: l)
    end
  else (mkL os nt orcs false, []).

Fixpoint off_learn_loop (fuel : nat) (ak : akind) (sc : script) (ne : Z) (tf : tfreq) (total : Z) (s : lstate)
  : lstate * list trans :=
  if l_nt s <? total then
    match fuel with
    | O => (mkL (l_os s) (l_nt s) (l_orcs s) true, [])
    | S f =>
        let '(s1, l1) := off_rollout ak sc ne tf (l_orcs s) 0 0 (l_os s) (l_nt s) in
        if l_exh s1 then (s1, l1)
        else let '(s2, l2) := off_learn_loop f ak sc ne tf total s1 in (s2, l1 ++ l2)
    end
  else (s, []).

Definition os_reset (sc : script) (os : ostate) : ostate :=
  let '(c', o, _) := env_reset sc (os_cur os) in mkOS c' o.

Record ocall := mkOC { oc_total : Z; oc_reset : bool; oc_env_reset : bool; oc_orcs : list orc }.

(* one learn(): _setup_learn counters (reset or total += num_timesteps), env reset when requested (or first call) *)
Definition off_learn (ak : akind) (sc : script) (ne : Z) (tf : tfreq) (c : ocall) (os : ostate) (nt : Z)
  : lstate * list trans :=
  let nt0 := if oc_reset c then 0 else nt in
  let total := if oc_reset c then oc_total c else oc_total c + nt in
  let os0 := if oc_env_reset c then os_reset sc os else os in
  off_learn_loop (S (length (oc_orcs c))) ak sc ne tf total (mkL os0 nt0 (oc_orcs c) false).

Fixpoint off_learns (ak : akind) (sc : script) (ne : Z) (tf : tfreq) (calls : list ocall) (os : ostate) (nt : Z)
  : list (list trans * Z * nat * bool) :=
  match calls with
  | [] => []
  | c :: r =>
      let '(s, l) := off_learn ak sc ne tf c os nt in
      (l, l_nt s, length (l_orcs s), l_exh s) :: off_learns ak sc ne tf r (l_os s) (l_nt s)
  end.

Definition ostate0 : ostate := mkOS cursor0 0.

(* ---- correspondence entry point ---- *)
Definition show_trans (rel abs : Q) (t : trans) (impl : list Q * list Q) : Z * Z * Z * bool * bool * bool * bool :=
  (t_obs t, t_next t, t_r4 t, t_done t, t_timeout t,
   qclose_all rel abs (t_act t) (fst impl), qclose_all rel abs (t_envact t) (snd impl)).

Fixpoint show_transs (rel abs : Q) (ts : list trans) (impl : list (list Q * list Q)) :=
  match ts, impl with
  | t :: ts', i :: impl' => show_trans rel abs t i :: show_transs rel abs ts' impl'
  | _, _ => []
  end.

Fixpoint show_calls (rel abs : Q) (rs : list (list trans * Z * nat * bool)) (impl : list (list (list Q * list Q))) :=
  match rs, impl with
  | (l, nt, lft, exh) :: rs', i :: impl' => (show_transs rel abs l i, length l, nt, lft, exh) :: show_calls rel abs rs' impl'
  | _, _ => []
  end.

Definition check_off (rel abs : Q) (ak : akind) (sc : script) (ne : Z) (tf : tfreq) (calls : list ocall)
           (impl : list (list (list Q * list Q))) :=
  show_calls rel abs (off_learns ak sc ne tf calls ostate0 0) impl.

(* stop-aware log, for the correspondence: (obs, next, r4, done, timeout) of every add *)
Definition show_collect_s (ak : akind) (sc : script) (reset_first : bool) (os : list (orc * bool)) : list (Z * Z * Z * bool * bool) :=
  map (fun t => (t_obs t, t_next t, t_r4 t, t_done t, t_timeout t))
      (snd (off_collect_s ak sc (if reset_first then os_reset sc ostate0 else ostate0) os)).
