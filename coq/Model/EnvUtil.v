(* Round 3 - models of stable_baselines3/common/env_util.py (unwrap_wrapper, is_wrapped, make_vec_env) and of
   vec_env/__init__.py (unwrap_vec_wrapper, is_vecenv_wrapped, sync_envs_normalization).  Definitions only.
   A wrapped object is the list of its layers, OUTERMOST FIRST (the innermost, unwrapped object is not a layer). *)
From Coq Require Import ZArith List Bool.
From SB3V Require Import Model.Script Model.VecEnv.
Import ListNotations.
Local Open Scope nat_scope.

Section Unwrap.
Context {L : Type}.
Variable is_inst : L -> bool.          (* isinstance(layer, wrapper_class) *)
(* while isinstance(env_tmp, Wrapper): if isinstance(env_tmp, cls): return env_tmp; env_tmp = env_tmp.env *)
Fixpoint unwrap (chain : list L) : option L :=
  match chain with
  | [] => None
  | l :: inner => if is_inst l then Some l else unwrap inner
  end.
Definition is_wrapped (chain : list L) : bool := match unwrap chain with Some _ => true | None => false end.
End Unwrap.

(* ---------- make_vec_env ---------- *)
Inductive gym_layer := GMonitor (file : option (Z * nat)) | GWrapper (cls : Z).   (* Monitor(filename = dir/rank) | wrapper_class(env) *)
Record env_desc := mk_desc {
  d_rank : nat;                       (* i + start_index *)
  d_action_seed : option Z;           (* env.action_space.seed(seed + rank) *)
  d_layers : list gym_layer }.        (* outermost first: [wrapper_class?; Monitor] *)

Definition make_env (seed : option Z) (monitor_dir : option Z) (wrapper_class : option Z) (rank : nat) : env_desc :=
  mk_desc rank
          (match seed with Some s => Some (s + Z.of_nat rank)%Z | None => None end)
          ((match wrapper_class with Some c => [GWrapper c] | None => [] end)
           ++ [GMonitor (match monitor_dir with Some d => Some (d, rank) | None => None end)]).

(* returns the constructors' results and the call made on the new VecEnv: vec_env.seed(seed); a None seed is
   replaced inside VecEnv.seed by a random draw, given here as [drawn] *)
Definition make_vec_env (n_envs : nat) (seed : option Z) (drawn : Z) (start_index : nat)
           (monitor_dir wrapper_class : option Z) : list env_desc * Z :=
  (map (fun i => make_env seed monitor_dir wrapper_class (i + start_index)) (seq 0 n_envs),
   match seed with Some s => s | None => drawn end).

Definition is_monitor (l : gym_layer) : bool := match l with GMonitor _ => true | _ => false end.

(* ---------- sync_envs_normalization: both chains walked in lock-step ---------- *)
Section Sync.
Context {S : Type}.
Variable copy_stats : S -> S -> S.     (* train level -> eval level -> new eval level: obs_rms and ret_rms copied *)
Inductive vlayer := LNorm (st : S) | LOther (cls : Z).
(* None = one of the two assertions fails *)
Fixpoint sync_chain (train evalc : list vlayer) : option (list vlayer) :=
  match train with
  | [] => Some evalc                                   (* the training chain reached the unwrapped VecEnv: loop ends *)
  | t :: tr =>
      match evalc with
      | [] => None                                     (* eval env is not a VecEnvWrapper here *)
      | e :: er =>
          match t, e with
          | LNorm st, LNorm se => option_map (cons (LNorm (copy_stats st se))) (sync_chain tr er)
          | LNorm _, LOther _ => None                  (* expected the eval env to be a VecNormalize *)
          | LOther _, _ => option_map (cons e) (sync_chain tr er)
          end
      end
  end.
End Sync.
Arguments vlayer : clear implicits.

(* instance used by the correspondence: a level carries (tag of obs_rms if the attribute exists, tag of ret_rms) *)
Definition copy_tags (t e : option Z * Z) : option Z * Z :=
  (match fst t with Some o => Some o | None => fst e end, snd t).
