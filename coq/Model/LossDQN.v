(* C07 - DQN objective (dqn/dqn.py train): Huber loss against r + gamma * (1 - done) * max_a Q_target. *)
From Coq Require Import Reals QArith Qminmax Qabs List.
From SB3V Require Import Model.LossCommon.
Import ListNotations.
Local Open Scope R_scope.

Definition max_list (l : list R) : R := match l with [] => 0 | x :: t => fold_right Rmax x t end.
Definition dqn_target (r d gamma : R) (next_qs : list R) : R := td_target r d gamma (max_list next_qs).
(* per-sample loss as a function of the gathered current Q-value *)
Definition dqn_term (target q : R) : R := huber (q - target).

Local Open Scope Q_scope.
Definition dqn_target_Q (gamma r d : Q) (next_qs : list Q) : Q := Qred (td_target_Q r d gamma (qmax_list next_qs)).
(* rewards, dones, next Q rows (target net), gathered current Q -> (targets, loss, dL/dq) *)
Definition dqn_batch_Q (gamma : Q) (rs ds : list Q) (next_rows : list (list Q)) (qs : list Q) : list Q * (Q * list Q) :=
  let n := qlen qs in
  let fix tg (rs ds : list Q) (rows : list (list Q)) : list Q :=
    match rs, ds, rows with r :: rt, d :: dt, row :: rowt => dqn_target_Q gamma r d row :: tg rt dt rowt | _, _, _ => [] end in
  let ys := tg rs ds next_rows in
  (ys, (qmean (qmap2 (fun q y => huber_Q (q - y)) qs ys), qmap2 (fun q y => huber_grad_Q (q - y) / n) qs ys)).
