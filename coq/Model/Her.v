(* Model of HerReplayBuffer (stable_baselines3/her/her_replay_buffer.py) on top of the
   DictReplayBuffer cursor (Model/Replay.v).  Definitions only; proofs in Proofs/HerProofs.v.
   Observations are triples of tags (observation, achieved_goal, desired_goal).
   Every env column has its own episode bookkeeping (ep_start, ep_length per slot,
   _current_ep_start) and shares the write cursor.  Ghost fields (x_ep, x_ix, x_last: number of
   the episode a stored transition belongs to, its index in that episode, whether it ended it)
   are written by the model only and used in statements. *)
From Coq Require Import ZArith List Bool.
From SB3V Require Import Model.Replay.
Import ListNotations.
Local Open Scope Z_scope.

(* one env column's part of an add() *)
Record hin := mkIn {
  i_obs : Z; i_ach : Z; i_des : Z; i_nobs : Z; i_nach : Z; i_ndes : Z;
  i_act : Z; i_rew : Z; i_done : bool; i_to : bool; i_info : Z }.
Definition din : hin := mkIn 0 0 0 0 0 0 0 0 false false 0.

Record hslot := mkS {
  x_obs : Z; x_ach : Z; x_des : Z; x_nobs : Z; x_nach : Z; x_ndes : Z;
  x_act : Z; x_rew : Z; x_done : Z; x_to : Z; x_info : Z;
  x_ep : Z; x_ix : Z; x_last : bool }.
Definition dslot : hslot := mkS 0 0 0 0 0 0 0 0 0 0 0 (-1) 0 false.

Record colst := mkC {
  st : Z -> Z;            (* ep_start[:, e] *)
  ln : Z -> Z;            (* ep_length[:, e]; 0 = not sampleable *)
  cur : Z;                (* _current_ep_start[e] *)
  eid : Z; cnt : Z;       (* ghost: number of the running episode, steps of it stored so far *)
  sl : Z -> hslot }.
Definition col0 : colst := mkC (fun _ => 0) (fun _ => 0) 0 0 0 (fun _ => dslot).

Definition fupd {A} (f : Z -> A) (i : Z) (v : A) : Z -> A := fun j => if j =? i then v else f j.

(* slot q is one of np.arange(a, b) % cap *)
Definition in_arange (a b cap q : Z) : bool := a + (q - a) mod cap <? b.
Definition set_range (f : Z -> Z) (a b cap v : Z) : Z -> Z :=
  fun q => if in_arange a b cap q then v else f q.

(* add(), first loop: if the slot about to be written belongs to a stored episode, the length of
   that episode's slots from pos to its end is set to 0 *)
Definition invalidate (cap pos : Z) (c : colst) : Z -> Z :=
  let s := st c pos in let l := ln c pos in
  if 0 <? l then set_range (ln c) pos (s + l) cap 0 else ln c.

(* _compute_episode_length with self.pos = p *)
Definition ep_end (p start cap : Z) : Z := if p <? start then p + cap else p.
Definition close_episode (cap p : Z) (c : colst) : colst :=
  let e := ep_end p (cur c) cap in
  mkC (st c) (set_range (ln c) (cur c) e cap (e - cur c)) p (eid c + 1) 0 (sl c).

Definition store (hto : bool) (c : colst) (x : hin) : hslot :=
  mkS (i_obs x) (i_ach x) (i_des x) (i_nobs x) (i_nach x) (i_ndes x) (i_act x) (i_rew x)
      (Z.b2z (i_done x)) (if hto then Z.b2z (i_to x) else 0) (i_info x)
      (eid c) (cnt c) (i_done x).

(* one column of add(): pos = cursor before, pos' = cursor after DictReplayBuffer.add *)
Definition col_add (cap : Z) (hto : bool) (pos pos' : Z) (c : colst) (x : hin) : colst :=
  let c1 := mkC (fupd (st c) pos (cur c)) (invalidate cap pos c) (cur c) (eid c) (cnt c + 1)
                (fupd (sl c) pos (store hto c x)) in
  if i_done x then close_episode cap pos' c1 else c1.

(* truncate_last_trajectory for one column: only when _current_ep_start != pos *)
Definition mark_end (hto : bool) (s : hslot) : hslot :=
  mkS (x_obs s) (x_ach s) (x_des s) (x_nobs s) (x_nach s) (x_ndes s) (x_act s) (x_rew s)
      1 (if hto then 1 else x_to s) (x_info s) (x_ep s) (x_ix s) true.
Definition col_truncate (cap : Z) (hto : bool) (pos : Z) (c : colst) : colst :=
  if cur c =? pos then c
  else
    let last := (pos - 1) mod cap in
    close_episode cap pos (mkC (st c) (ln c) (cur c) (eid c) (cnt c) (fupd (sl c) last (mark_end hto (sl c last)))).

Record her := mkH { h_cap : Z; h_nenv : Z; h_hto : bool; h_pos : Z; h_full : bool; h_cols : nat -> colst }.

Definition her_create (bs n : Z) (hto : bool) : her := mkH (capacity bs n) n hto 0 false (fun _ => col0).

Definition her_add (b : her) (row : list hin) : her :=
  let '(p', f') := add_cursor (h_pos b) (h_cap b) (h_full b) in
  mkH (h_cap b) (h_nenv b) (h_hto b) p' f'
      (fun e => col_add (h_cap b) (h_hto b) (h_pos b) p' (h_cols b e) (nth e row din)).

Definition her_truncate (b : her) : her :=
  mkH (h_cap b) (h_nenv b) (h_hto b) (h_pos b) (h_full b)
      (fun e => col_truncate (h_cap b) (h_hto b) (h_pos b) (h_cols b e)).

(* BaseBuffer.reset(), inherited unchanged: only the cursor; ep_start / ep_length / _current_ep_start stay.
   NOT part of the histories the theorems quantify over (see Refuted/C16_reset_keeps_bookkeeping.v) *)
Definition her_reset (b : her) : her := mkH (h_cap b) (h_nenv b) (h_hto b) 0 false (h_cols b).

Inductive hop := HAdd (row : list hin) | HTrunc | HPickle.
Definition her_step (b : her) (o : hop) : her :=
  match o with HAdd r => her_add b r | HTrunc => her_truncate b | HPickle => b end.
Definition her_run (b : her) (ops : list hop) : her := fold_left her_step ops b.

(* ------------------------------------------------------------------ sampling *)
Definition valid (c : colst) (i : Z) : bool := 0 <? ln c i.

Inductive strategy := Future | Final | Episode.

(* position of slot i inside its episode, range of admissible in-episode goal positions
   (the arguments of np.random.randint; Final draws nothing), and the slot of position k *)
Definition cur_ix (cap : Z) (c : colst) (i : Z) : Z := (i - st c i) mod cap.
Definition goal_range (g : strategy) (cap : Z) (c : colst) (i : Z) : Z * Z :=
  match g with
  | Final => (ln c i - 1, ln c i)
  | Future => (cur_ix cap c i, ln c i)
  | Episode => (0, ln c i)
  end.
Definition goal_slot (cap : Z) (c : colst) (i k : Z) : Z := (k + st c i) mod cap.

(* compute_reward of the scripted GoalEnv: a pairing of (info tag, next achieved goal, desired goal) *)
Definition reward_tag (info ach des : Z) : Z := info * 262144 + ach * 512 + des.

(* (obs, ach, des, act, next obs, next ach, next des, done, reward) *)
Definition sample9 := (Z * Z * Z * Z * Z * Z * Z * Z * Z)%type.
Definition real_sample (c : colst) (i : Z) : sample9 :=
  let s := sl c i in
  (x_obs s, x_ach s, x_des s, x_act s, x_nobs s, x_nach s, x_ndes s, done_mask (x_done s) (x_to s), x_rew s).
Definition virtual_sample (cap : Z) (copy_info : bool) (c : colst) (i k : Z) : sample9 :=
  let s := sl c i in
  let g := x_nach (sl c (goal_slot cap c i k)) in
  (x_obs s, x_ach s, g, x_act s, x_nobs s, x_nach s, g, done_mask (x_done s) (x_to s),
   reward_tag (if copy_info then x_info s else 0) (x_nach s) g).

(* share of relabelled transitions: int(her_ratio * batch_size), her_ratio = 1 - 1/(n+1) *)
Definition nb_virtual (n batch : Z) : Z := n * batch / (n + 1).

(* ------------------------------------------------------------------ for the harness *)
(* flat indices i * n_envs + e of the valid cells: np.flatnonzero(ep_length > 0) *)
Definition valid_flat (b : her) : list Z :=
  flat_map (fun i => flat_map (fun e => if valid (h_cols b e) i then [i * h_nenv b + Z.of_nat e] else [])
                              (seq 0 (Z.to_nat (h_nenv b))))
           (zrange 0 (Z.to_nat (h_cap b))).

(* for every valid cell: (i, e, (ep_start, ep_length), real sample, (lo, hi) of the goal draw,
   the virtual sample of every admissible goal position, ghost (episode, index)) *)
Definition her_table (g : strategy) (copy_info : bool) (b : her) :=
  flat_map (fun i => flat_map (fun e =>
      let c := h_cols b e in
      if valid c i then
        let '(lo, hi) := goal_range g (h_cap b) c i in
        [(i, Z.of_nat e, (st c i, ln c i), real_sample c i, (lo, hi),
          map (fun k => virtual_sample (h_cap b) copy_info c i k) (zrange lo (Z.to_nat (hi - lo))),
          (x_ep (sl c i), x_ix (sl c i)))]
      else []) (seq 0 (Z.to_nat (h_nenv b)))) (zrange 0 (Z.to_nat (h_cap b))).

Definition her_observe (g : strategy) (copy_info : bool) (b : her) :=
  (h_pos b, h_full b, map (fun e => cur (h_cols b (Z.to_nat e))) (zrange 0 (Z.to_nat (h_nenv b))),
   valid_flat b, her_table g copy_info b).

Inductive hhop := HHAdd (row : list hin) | HHTrunc | HHPickle | HHObs | HHReset.
Fixpoint hhrun (g : strategy) (copy_info : bool) (b : her) (ops : list hhop) :=
  match ops with
  | [] => []
  | HHAdd r :: rest => hhrun g copy_info (her_add b r) rest
  | HHTrunc :: rest => hhrun g copy_info (her_truncate b) rest
  | HHPickle :: rest => hhrun g copy_info b rest
  | HHObs :: rest => her_observe g copy_info b :: hhrun g copy_info b rest
  | HHReset :: rest => hhrun g copy_info (her_reset b) rest
  end.

(* sample(): the B drawn flat cells are split at nb_virtual (np.split(batch_indices, [nb_virtual])): the first part is relabelled,
   the rest is returned as stored; the batch is th.cat((real, virtual)) *)
Definition her_split (n B : Z) (draws : list Z) : list Z * list Z :=
  let v := Z.to_nat (nb_virtual n B) in (firstn v draws, skipn v draws).
Definition her_batch_cells (n B : Z) (draws : list Z) : list (bool * Z) :=     (* (relabelled?, flat cell) in output order *)
  let '(vi, re) := her_split n B draws in map (fun f => (false, f)) re ++ map (fun f => (true, f)) vi.
