(* C09 - model of data_to_json / json_to_data (save_util.py) on Python value trees.
   Definitions only; proofs in Proofs/JsonCodecProofs.v. *)
From Coq Require Import List ZArith Bool String Ascii.
Import ListNotations.
Local Open Scope Z_scope.

(* dictionary keys: json.dumps accepts str, int, float, bool, None keys (and writes them as strings); any
   other key (a tuple, ...) makes it raise TypeError *)
(* KSub = an instance of a proper subclass of str used as a key (np.str_("pi"), class MyStr(str)): json.dumps writes its
   text, json.loads gives back a plain str *)
Inductive key := KS (s : string) | KI (z : Z) | KF (tag : Z) | KB (b : bool) | KNone | KOther (id : Z) | KSub (cls : Z) (s : string).

(* Python values as far as JSON is concerned.  Floats are tags (no float arithmetic is involved).
   JSub = an instance of a proper subclass of float / int / str (np.float64, an IntEnum member, ...): json.dumps
   writes its base value.  JOpaque = anything json.dumps rejects (classes, callables, arrays, np.float32, spaces...) *)
Inductive jv :=
| JNull
| JBool (b : bool)
| JInt (z : Z)
| JFloat (tag : Z) (isnan : bool)
| JStr (s : string)
| JList (l : list jv)
| JTuple (l : list jv)
| JDict (d : list (key * jv))
| JSub (cls : Z) (base : jv)
| JOpaque (id : Z).

(* ---- what json.dumps accepts ---- *)
Definition key_ok (k : key) : bool := match k with KOther _ => false | _ => true end.
Definition scalar (v : jv) : bool :=
  match v with JBool _ | JInt _ | JFloat _ _ | JStr _ => true | _ => false end.

Fixpoint dumps_ok (v : jv) : bool :=
  match v with
  | JNull | JBool _ | JInt _ | JFloat _ _ | JStr _ => true
  | JList l | JTuple l => forallb dumps_ok l
  | JDict d => forallb (fun kv => key_ok (fst kv) && dumps_ok (snd kv)) d
  | JSub _ b => scalar b
  | JOpaque _ => false
  end.

(* ---- json.loads (json.dumps v): tuples become lists, keys become strings, subclasses their base ---- *)
(* the text json.dumps writes for a non-string key; only the fact that it is a string matters *)
Definition key_text (k : key) : string :=
  match k with
  | KS s => s
  | KI z => String "i" (if Z.ltb z 0 then "-" else "")   (* abstract rendering *)
  | KF _ => "f"
  | KB true => "true"
  | KB false => "false"
  | KNone => "null"
  | KOther _ => "?"
  | KSub _ s => s
  end.

Fixpoint jnorm (v : jv) : jv :=
  match v with
  | JList l => JList (map jnorm l)
  | JTuple l => JList (map jnorm l)
  | JDict d => JDict (map (fun kv => (KS (key_text (fst kv)), jnorm (snd kv))) d)
  | JSub _ b => b
  | _ => v
  end.

(* ---- _same_value_and_type: same type, recursively for lists and dicts, == for scalars (NaN != NaN) ---- *)
Definition key_eqb (a b : key) : bool :=
  match a, b with
  | KS x, KS y => String.eqb x y
  | KI x, KI y => Z.eqb x y
  | KF x, KF y => Z.eqb x y
  | KB x, KB y => Bool.eqb x y
  | KNone, KNone => true
  | KOther x, KOther y => Z.eqb x y
  | KSub c x, KSub c' y => Z.eqb c c' && String.eqb x y
  | _, _ => false
  end.

Fixpoint same_vt (a b : jv) : bool :=
  match a, b with
  | JNull, JNull => true
  | JBool x, JBool y => Bool.eqb x y
  | JInt x, JInt y => Z.eqb x y
  | JFloat x nx, JFloat y ny => Z.eqb x y && negb nx && negb ny
  | JStr x, JStr y => String.eqb x y
  | JList la, JList lb =>
      (fix go (la lb : list jv) : bool :=
         match la, lb with
         | [], [] => true
         | x :: la', y :: lb' => same_vt x y && go la' lb'
         | _, _ => false
         end) la lb
  | JTuple la, JTuple lb =>
      (fix go (la lb : list jv) : bool :=
         match la, lb with
         | [], [] => true
         | x :: la', y :: lb' => same_vt x y && go la' lb'
         | _, _ => false
         end) la lb
  | JDict da, JDict db =>
      (fix go (da db : list (key * jv)) : bool :=
         match da, db with
         | [], [] => true
         | (k, x) :: da', (k', y) :: db' => key_eqb k k' && same_vt x y && go da' db'
         | _, _ => false
         end) da db
  | JSub c x, JSub c' y => Z.eqb c c' && same_vt x y
  | JOpaque x, JOpaque y => Z.eqb x y
  | _, _ => false
  end.

(* ---- the decision of data_to_json (as regenerated) and the codec ---- *)
Definition roundtrippable (v : jv) : bool := if negb (dumps_ok v) then false else same_vt v (jnorm v).

(* one stored item: kept as plain JSON, or cloudpickled (identity through save/load - modelled) *)
Inductive stored := Plain (v : jv) | Pickled (v : jv).

Definition store_item (v : jv) : stored := if roundtrippable v then Plain v else Pickled v.
Definition load_item (s : stored) : jv := match s with Plain v => jnorm v | Pickled v => v end.

Definition data_to_json (d : list (string * jv)) : list (string * stored) := map (fun kv => (fst kv, store_item (snd kv))) d.
Definition json_to_data (j : list (string * stored)) : list (string * jv) := map (fun kv => (fst kv, load_item (snd kv))) j.

(* the rule before the fix: everything json.dumps accepts was kept as plain JSON *)
Definition store_item_old (v : jv) : stored := if dumps_ok v then Plain v else Pickled v.
Definition data_to_json_old (d : list (string * jv)) : list (string * stored) := map (fun kv => (fst kv, store_item_old (snd kv))) d.

(* ---- faithful values: what JSON can hold without change ---- *)
Definition key_is_str (k : key) : bool := match k with KS _ => true | _ => false end.
Fixpoint faithful (v : jv) : bool :=
  match v with
  | JNull | JBool _ | JInt _ | JStr _ => true
  | JFloat _ isnan => negb isnan
  | JList l => forallb faithful l
  | JDict d => forallb (fun kv => key_is_str (fst kv) && faithful (snd kv)) d
  | JTuple _ | JSub _ _ | JOpaque _ => false
  end.

Definition is_plain (s : stored) : bool := match s with Plain _ => true | Pickled _ => false end.


(* ---- extension: json_to_data(custom_objects=...): an attribute named in custom_objects is not decoded, the given
   object is used instead ---- *)
Fixpoint lookup_custom (k : string) (c : list (string * jv)) : option jv :=
  match c with
  | [] => None
  | (k', v) :: r => if String.eqb k k' then Some v else lookup_custom k r
  end.
Definition json_to_data_custom (j : list (string * stored)) (custom : list (string * jv)) : list (string * jv) :=
  map (fun kv => (fst kv, match lookup_custom (fst kv) custom with Some v => v | None => load_item (snd kv) end)) j.
