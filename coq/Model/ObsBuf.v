(* C01 (build round 5) - observation plumbing of DummyVecEnv / SubprocVecEnv for plain, Dict and Tuple spaces.
   Definitions only.  Sources: vec_env/util.py (obs_space_info, dict_to_obs), dummy_vec_env.py (__init__'s buf_obs,
   _save_obs, _obs_from_buf), subproc_vec_env.py (_stack_obs).
   V = the array of ONE sub-environment for ONE key (harness: the integer tag written in every cell); dV = zeros.
   Keys of the internal dict: None (plain space) | the Dict's keys (integers naming them) | 0..n-1 (Tuple). *)
From Coq Require Import List ZArith Bool.
Import ListNotations.
Local Open Scope nat_scope.

Definition okey := option Z.
Definition okey_eqb (a b : okey) : bool :=
  match a, b with None, None => true | Some x, Some y => Z.eqb x y | _, _ => false end.

(* the isinstance chains of util.py / _stack_obs decide on this enum *)
Inductive space := SPlain | SDict (keys : list Z) | STuple (n : nat).
Inductive skind := KPlain | KDict | KTuple.
Definition kind_of (sp : space) : skind := match sp with SPlain => KPlain | SDict _ => KDict | STuple _ => KTuple end.
Definition is_dict (sp : space) : bool := match sp with SDict _ => true | _ => false end.
Definition is_tuple (sp : space) : bool := match sp with STuple _ => true | _ => false end.

(* obs_space_info: `subspaces` = obs_space.spaces | {i: space for i, space in enumerate(obs_space.spaces)} | {None: obs_space};
   keys = the keys of `subspaces` in iteration order *)
Definition tuple_keys (n : nat) : list okey := map (fun i => Some (Z.of_nat i)) (seq 0 n).
Definition obs_space_info (sp : space) : list okey :=
  match sp with SPlain => [None] | SDict ks => map (@Some Z) ks | STuple n => tuple_keys n end.
(* code of the expression bound to `subspaces`: 1 = obs_space.spaces, 2 = {i: space for i, space in enumerate(obs_space.spaces)},
   3 = {None: obs_space} *)
Definition obs_space_info_code (code : Z) (sp : space) : list okey :=
  if Z.eqb code 1 then map (@Some Z) (match sp with SDict ks => ks | _ => [] end)
  else if Z.eqb code 2 then tuple_keys (match sp with STuple n => n | _ => 0 end)
  else [None].

Fixpoint row_set {X} (i : nat) (x : X) (l : list X) : list X :=
  match l, i with
  | [], _ => []
  | _ :: t, O => x :: t
  | y :: t, S i' => y :: row_set i' x t
  end.

Section ObsBuf.
Variable V : Type.
Variable dV : V.

(* one sub-environment's observation / a batch returned by the VecEnv *)
Inductive obs := OArr (v : V) | ODict (m : list (Z * V)) | OTup (l : list V).
Inductive batch := BArr (rows : list V) | BDict (m : list (Z * list V)) | BTup (l : list (list V)).
Definition batch_kind (b : batch) : skind := match b with BArr _ => KPlain | BDict _ => KDict | BTup _ => KTuple end.

Fixpoint assoc {B} (k : Z) (m : list (Z * B)) : option B :=
  match m with [] => None | (k', v) :: r => if Z.eqb k' k then Some v else assoc k r end.

(* obs[key] (Dict: lookup; Tuple: position) and `obs` itself (plain) *)
Definition obs_item (o : obs) (k : Z) : V :=
  match o with
  | ODict m => match assoc k m with Some v => v | None => dV end
  | OTup l => nth (Z.to_nat k) l dV
  | OArr _ => dV
  end.
Definition obs_whole (o : obs) : V := match o with OArr v => v | _ => dV end.
(* _save_obs: `if key is None: ... = obs  else: ... = obs[key]` *)
Definition save_value_with (guard : bool -> bool) (key : okey) (o : obs) : V :=
  if guard (match key with None => true | Some _ => false end)
  then obs_whole o
  else match key with Some k => obs_item o k | None => dV end.
Definition save_value (key : okey) (o : obs) : V :=
  match key with None => obs_whole o | Some k => obs_item o k end.

(* buf_obs: an ordered dict key -> array with one row per sub-environment *)
Definition buf := list (okey * list V).
Definition buf_init (keys : list okey) (n : nat) : buf := map (fun k => (k, repeat dV n)) keys.
Fixpoint buf_get (b : buf) (key : okey) : list V :=
  match b with [] => [] | (k, rows) :: r => if okey_eqb k key then rows else buf_get r key end.
(* buf_obs[key][i] = v *)
Fixpoint buf_set (b : buf) (key : okey) (i : nat) (v : V) : buf :=
  match b with
  | [] => []
  | (k, rows) :: r => if okey_eqb k key then (k, row_set i v rows) :: r else (k, rows) :: buf_set r key i v
  end.
(* _save_obs(env_idx, obs): for key in self.keys: ... *)
Definition save_obs (keys : list okey) (b : buf) (i : nat) (o : obs) : buf :=
  fold_left (fun b key => buf_set b key i (save_value key o)) keys b.
(* the reset()/step_wait() loop `for env_idx in range(num_envs): ... self._save_obs(env_idx, obs)` from env i0 on *)
Fixpoint save_all (keys : list okey) (b : buf) (i0 : nat) (l : list obs) : buf :=
  match l with [] => b | o :: r => save_all keys (save_obs keys b i0 o) (S i0) r end.

(* dict_to_obs(space, d): Dict -> d itself; Tuple -> tuple(d[i] for i in range(len(space.spaces))); else d[None] *)
Definition dict_items (b : buf) : list (Z * list V) :=
  flat_map (fun kr => match fst kr with Some k => [(k, snd kr)] | None => [] end) b.
Definition dict_to_obs_code (code : Z) (sp : space) (b : buf) : batch :=
  (* code 1: `obs_dict`; 2: `tuple(obs_dict[i] for i in range(len(obs_space.spaces)))`; 3: `obs_dict[None]` *)
  if Z.eqb code 1 then BDict (dict_items b)
  else if Z.eqb code 2 then BTup (map (fun i => buf_get b (Some (Z.of_nat i))) (seq 0 (match sp with STuple n => n | _ => 0 end)))
  else BArr (buf_get b None).
Definition dict_to_obs (sp : space) (b : buf) : batch :=
  match sp with
  | SDict _ => BDict (dict_items b)
  | STuple n => BTup (map (fun i => buf_get b (Some (Z.of_nat i))) (seq 0 n))
  | SPlain => BArr (buf_get b None)
  end.
(* _obs_from_buf = dict_to_obs(space, deepcopy(buf_obs)): values, so the copy is the identity here; the VERSION of the buffer
   that is read is explicit in the history semantics below *)
Definition obs_from_buf (sp : space) (b : buf) : batch := dict_to_obs sp b.

(* SubprocVecEnv: _stack_obs(obs_list, space) *)
Definition stack_obs (sp : space) (l : list obs) : batch :=
  match sp with
  | SDict ks => BDict (map (fun k => (k, map (fun o => obs_item o k) l)) ks)
  | STuple n => BTup (map (fun i => map (fun o => obs_item o (Z.of_nat i)) l) (seq 0 n))
  | SPlain => BArr (map obs_whole l)
  end.

(* code of the returned expression: 1 = {key: np.stack([o[key] for o in obs_list]) for key in space.spaces.keys()},
   2 = tuple(np.stack([o[i] for o in obs_list]) for i in range(len(space.spaces))), 3 = np.stack(obs_list) *)
Definition stack_obs_code (code : Z) (sp : space) (l : list obs) : batch :=
  if Z.eqb code 1 then BDict (map (fun k => (k, map (fun o => obs_item o k) l)) (match sp with SDict ks => ks | _ => [] end))
  else if Z.eqb code 2 then BTup (map (fun i => map (fun o => obs_item o (Z.of_nat i)) l) (seq 0 (match sp with STuple n => n | _ => 0 end)))
  else BArr (map obs_whole l).

(* write histories: _save_obs calls interleaved with _obs_from_buf calls; the result lists every returned batch *)
Inductive wop := WSave (i : nat) (o : obs) | WSnap.
Fixpoint wrun (sp : space) (b : buf) (h : list wop) : buf * list batch :=
  match h with
  | [] => (b, [])
  | WSave i o :: r => wrun sp (save_obs (obs_space_info sp) b i o) r
  | WSnap :: r => let '(b', out) := wrun sp b r in (b', obs_from_buf sp b :: out)
  end.
Definition wrun_init (sp : space) (n : nat) (h : list wop) : buf * list batch :=
  wrun sp (buf_init (obs_space_info sp) n) h.

(* well-formed observation of a space (what a sub-environment of that space returns) *)
Definition obs_fits (sp : space) (o : obs) : Prop :=
  match sp, o with
  | SPlain, OArr _ => True
  | SDict ks, ODict m => forall k, In k ks -> assoc k m <> None
  | STuple n, OTup l => length l = n
  | _, _ => False
  end.
Definition wf_buf (sp : space) (n : nat) (b : buf) : Prop :=
  map fst b = obs_space_info sp /\ Forall (fun kr => length (snd kr) = n) b.
Definition wf_space (sp : space) : Prop := match sp with SDict ks => NoDup ks | _ => True end.
End ObsBuf.

Arguments OArr {V}. Arguments ODict {V}. Arguments OTup {V}.
Arguments BArr {V}. Arguments BDict {V}. Arguments BTup {V}.
Arguments WSave {V}. Arguments WSnap {V}.
Arguments batch_kind {V}. Arguments obs_item {V}. Arguments obs_whole {V}.
Arguments save_value_with {V}. Arguments save_value {V}. Arguments buf_init {V}. Arguments buf_get {V}. Arguments buf_set {V}.
Arguments save_obs {V}. Arguments save_all {V}. Arguments dict_items {V}. Arguments dict_to_obs_code {V}. Arguments dict_to_obs {V}.
Arguments obs_from_buf {V}. Arguments stack_obs {V}. Arguments stack_obs_code {V}. Arguments wrun {V}. Arguments wrun_init {V}.
Arguments obs_fits {V}. Arguments wf_buf {V}.

(* ---- VecEnv._get_indices and Python list indexing of self.envs ---- *)
Inductive indices := INone | IInt (i : Z) | IList (l : list Z).
(* code of the value bound to `indices`: 1 = range(self.num_envs), 2 = [indices], 0 = kept as given *)
Definition get_indices_code (guard_none guard_int : bool) : Z :=
  if guard_none then 1%Z else if guard_int then 2%Z else 0%Z.
Definition indices_of_code (code : Z) (n : nat) (ix : indices) : list Z :=
  if Z.eqb code 1 then map Z.of_nat (seq 0 n)
  else if Z.eqb code 2 then match ix with IInt i => [i] | _ => [] end
  else match ix with IList l => l | _ => [] end.
Definition get_indices (n : nat) (ix : indices) : list Z :=
  match ix with INone => map Z.of_nat (seq 0 n) | IInt i => [i] | IList l => l end.
(* self.envs[i]: a negative i counts from the end, otherwise IndexError (None) *)
Definition py_index (n : nat) (i : Z) : option nat :=
  if (0 <=? i)%Z && (i <? Z.of_nat n)%Z then Some (Z.to_nat i)
  else if (- Z.of_nat n <=? i)%Z && (i <? 0)%Z then Some (Z.to_nat (Z.of_nat n + i))
  else None.
Fixpoint map_opt {A B} (f : A -> option B) (l : list A) : option (list B) :=
  match l with
  | [] => Some []
  | a :: r => match f a, map_opt f r with Some b, Some bs => Some (b :: bs) | _, _ => None end
  end.
(* _get_target_envs: [self.envs[i] for i in self._get_indices(indices)] as positions *)
Definition target_envs (n : nat) (ix : indices) : option (list nat) := map_opt (py_index n) (get_indices n ix).

(* for env_i in target_envs: f(env_i) - threading the sub-environment states, collecting (position, result) in call order *)
Section IndexedCall.
Variables W R : Type.
Variable f : W -> W * R.
Fixpoint call_loop (sts : list W) (ts : list nat) : list W * list (nat * R) :=
  match ts with
  | [] => (sts, [])
  | t :: r =>
      match nth_error sts t with
      | Some s => let '(s', x) := f s in
                  let '(sts', xs) := call_loop (row_set t s' sts) r in (sts', (t, x) :: xs)
      | None => call_loop sts r
      end
  end.
Definition indexed_call (sts : list W) (ix : indices) : option (list W * list (nat * R)) :=
  match target_envs (length sts) ix with Some ts => Some (call_loop sts ts) | None => None end.
(* sub-environment j alone receiving k calls *)
Fixpoint iter_calls (s : W) (k : nat) : W * list R :=
  match k with O => (s, []) | S k' => let '(s1, x) := f s in let '(s2, xs) := iter_calls s1 k' in (s2, x :: xs) end.
End IndexedCall.
Arguments call_loop {W R}. Arguments indexed_call {W R}. Arguments iter_calls {W R}.
