(* C09 (build round 5) - BaseAlgorithm.load (base_class.py:644-803) as a state transformer, in the code's order of effects,
   and OffPolicyAlgorithm.load_replay_buffer (off_policy_algorithm.py:220-250) as a decision function.  Definitions only.

   Inputs: the archive (Model.SaveLoad.archive), the caller's arguments (env, force_reset, custom_objects, kwargs), and the
   class: its constructor `ctor` (what `cls(policy, env, device, _init_setup_model=False)` puts into __dict__ for the env that
   is used), `_setup_model` (abstract `setup`) and the names `needing` of `_get_torch_save_params()[0]`.
   An env is an opaque object `JOpaque id`; a given env carries the two facts load() reads from it after `_wrap_env`:
   `num_envs` and whether `check_for_correct_spaces` accepts it. *)
From Coq Require Import List ZArith Bool String.
From SB3V Require Import Model.JsonCodec Model.SaveLoad.
Import ListNotations.
Local Open Scope string_scope.

Record env_arg := mk_env { e_id : Z; e_num_envs : Z; e_spaces_ok : bool }.
Record load_args := mk_args { la_env : option env_arg; la_force_reset : bool; la_custom : list (string * jv); la_kwargs : obj }.

Inductive load_error := EPolicyKwargs | ESpacesMissing | ESpacesMismatch | ESetParameters.
Inductive load_result := Loaded (o : obj) (noise_reset : bool) | LoadRaises (e : load_error).

Definition dget := lookup_custom.     (* data[k] on the decoded dictionary; the first binding is the live one *)
Definition dhas (k : string) (d : list (string * jv)) : bool := match dget k d with Some _ => true | None => false end.
Definition adata (d : list (string * jv)) : obj := map (fun kv => (fst kv, AData (snd kv))) d.

(* base_class.py:693-699: `del data["policy_kwargs"]["device"]` and the pre-1.8 net_arch = [dict(pi=.., vf=..)] conversion *)
Definition legacy_net_arch (truthy is_list first_is_dict : bool) : bool := truthy && is_list && first_is_dict.
Definition conv_item (kv : key * jv) : key * jv :=
  if key_eqb (fst kv) (KS "net_arch") then
    match snd kv with
    | JList (JDict d :: r) => if legacy_net_arch true true true then (fst kv, JDict d) else kv
    | _ => kv
    end
  else kv.
Definition convert_pk (pk : jv) : jv :=
  match pk with
  | JDict items => JDict (map conv_item (filter (fun kv => negb (key_eqb (fst kv) (KS "device"))) items))
  | _ => pk
  end.
Definition step_pk (d : list (string * jv)) : list (string * jv) :=
  match dget "policy_kwargs" d with Some pk => ("policy_kwargs", convert_pk pk) :: d | None => d end.

(* the guards, as decision functions of the tests the code evaluates *)
Definition pk_raises (in_kwargs differs : bool) : bool := in_kwargs && differs.
Definition spaces_missing (obs_in act_in : bool) : bool := negb obs_in || negb act_in.

(* kwargs["policy_kwargs"] != data["policy_kwargs"]: typed structural equality (Python's == on the value trees the runs use:
   no 1 == True == 1.0 identifications, no NaN); a missing data["policy_kwargs"] is a KeyError: it raises, too *)
Definition guard_pk (kwargs : obj) (d : list (string * jv)) : bool :=
  match lookup "policy_kwargs" kwargs with
  | Some (AData k) => match dget "policy_kwargs" d with Some s => pk_raises true (negb (same_vt k s)) | None => true end
  | Some _ => true
  | None => pk_raises false true
  end.

Inductive prepared := PRaise (e : load_error) | POk (d : list (string * jv)) (env : option jv).

(* base_class.py:693-729, everything that happens to `data` before the constructor runs *)
Definition prepare (d0 : list (string * jv)) (args : load_args) : prepared :=
  let d1 := step_pk d0 in
  if guard_pk (la_kwargs args) d1 then PRaise EPolicyKwargs else
  if spaces_missing (dhas "observation_space" d1) (dhas "action_space" d1) then PRaise ESpacesMissing else
  match la_env args with
  | Some e =>
      if negb (e_spaces_ok e) then PRaise ESpacesMismatch else
      let d2 := if la_force_reset args then ("_last_obs", JNull) :: d1 else d1 in
      POk (("n_envs", JInt (e_num_envs e)) :: d2) (Some (JOpaque (e_id e)))
  | None => POk d1 (dget "env" d1)
  end.

(* updated_objects != objects_needing_update (sets) *)
Definition subset (a b : list string) : bool := forallb (fun x => mem x b) a.
Definition set_eqb (a b : list string) : bool := subset a b && subset b a.

Definition use_sde_of (o : obj) : bool := match lookup "use_sde" o with Some (AData (JBool true)) => true | _ => false end.

Definition load_model (ctor : option jv -> obj) (setup : obj -> obj) (needing : list string) (a : archive) (args : load_args) : load_result :=
  match prepare (json_to_data_custom (a_data a) (la_custom args)) args with
  | PRaise e => LoadRaises e
  | POk d env =>
      let o1 := update (ctor env) (adata d) in                (* model.__dict__.update(data) *)
      let o2 := update o1 (la_kwargs args) in                 (* model.__dict__.update(kwargs) *)
      let o3 := setup o2 in                                   (* model._setup_model() *)
      if negb (set_eqb (map fst (a_params a)) needing) then LoadRaises ESetParameters   (* set_parameters(exact_match=True) *)
      else
        let o4 := set_parameters o3 (a_params a) in
        let o5 := update o4 (map (fun kv => (fst kv, AVar (snd kv))) (a_vars a)) in    (* pytorch variables *)
        Loaded o5 (use_sde_of o5)                             (* policy.reset_noise() iff use_sde *)
  end.

(* the decision alone: which guard fires first *)
Definition load_raises (needing : list string) (a : archive) (args : load_args) : option load_error :=
  let d1 := step_pk (json_to_data_custom (a_data a) (la_custom args)) in
  if guard_pk (la_kwargs args) d1 then Some EPolicyKwargs
  else if spaces_missing (dhas "observation_space" d1) (dhas "action_space" d1) then Some ESpacesMissing
  else if match la_env args with Some e => negb (e_spaces_ok e) | None => false end then Some ESpacesMismatch
  else if negb (set_eqb (map fst (a_params a)) needing) then Some ESetParameters
  else None.

(* ---------------- load_replay_buffer(path, truncate_last_traj) ---------------- *)
Record rb_in := mk_rb { ri_buffer : bool;       (* isinstance(loaded, ReplayBuffer) *)
                        ri_her : bool; ri_timeout_attr : bool;
                        ri_model_env : bool; ri_truncate : bool }.
Inductive rb_out := RbRaises | RbOk (legacy_timeouts_added set_env truncated device_reset : bool).
Definition load_replay_buffer (i : rb_in) : rb_out :=
  if negb (ri_buffer i) then RbRaises
  else if ri_her i && negb (ri_model_env i) then RbRaises
  else RbOk (negb (ri_timeout_attr i)) (ri_her i) (ri_her i && ri_truncate i) true.
