(* C20 - character-level model of CSVOutputFormat.write (logger.py) and of a CSV reader
   (RFC-4180 subset: quoted fields with doubled quotes, embedded separators and line breaks).
   Text = list of characters.  Definitions only. *)
From Coq Require Import List Ascii String Bool Arith.
Import ListNotations.
Local Open Scope nat_scope.

Definition text := list ascii.
Definition comma : ascii := ","%char.
Definition dquote : ascii := """"%char.
Definition nl : ascii := "010"%char.
Definition cr : ascii := "013"%char.

Definition ascii_eqb (a b : ascii) : bool := Nat.eqb (nat_of_ascii a) (nat_of_ascii b).
Fixpoint text_eqb (a b : text) : bool :=
  match a, b with
  | [], [] => true
  | x :: a', y :: b' => ascii_eqb x y && text_eqb a' b'
  | _, _ => false
  end.

(* a field as the reader sees it: unquoted text, or the content of a quoted field *)
Inductive field := FU (s : text) | FQ (s : text).

(* ---------- printer ---------- *)
Fixpoint escape (s : text) : text :=
  match s with
  | [] => []
  | c :: r => if ascii_eqb c dquote then dquote :: dquote :: escape r else c :: escape r
  end.

Definition print_field (f : field) : text :=
  match f with FU s => s | FQ s => dquote :: escape s ++ [dquote] end.

Fixpoint join_comma (l : list text) : text :=
  match l with
  | [] => []
  | [x] => x
  | x :: r => x ++ comma :: join_comma r
  end.

Definition print_row (r : list field) : text := join_comma (map print_field r) ++ [nl].
Definition print_table (t : list (list field)) : text := flat_map print_row t.

(* ---------- reader ---------- *)
(* states: at the start of a field; inside an unquoted field; inside a quoted field; just after a quote
   inside a quoted field (the next character decides between an escaped quote and the end of the field) *)
Inductive pst := PStart | PUnq | PQuo | PQQ.

(* cur = characters of the current field so far, row = finished fields of the current record *)
Fixpoint parse (st : pst) (cur : text) (row : list field) (s : text) : list (list field) :=
  match s with
  | [] =>
      match st with
      | PStart => match row with [] => [] | _ => [row ++ [FU []]] end
      | PUnq => [row ++ [FU cur]]
      | PQuo | PQQ => [row ++ [FQ cur]]
      end
  | c :: r =>
      match st with
      | PStart =>
          if ascii_eqb c dquote then parse PQuo [] row r
          else if ascii_eqb c comma then parse PStart [] (row ++ [FU []]) r
          else if ascii_eqb c nl then (row ++ [FU []]) :: parse PStart [] [] r
          else parse PUnq [c] row r
      | PUnq =>
          if ascii_eqb c comma then parse PStart [] (row ++ [FU cur]) r
          else if ascii_eqb c nl then (row ++ [FU cur]) :: parse PStart [] [] r
          else parse PUnq (cur ++ [c]) row r
      | PQuo =>
          if ascii_eqb c dquote then parse PQQ cur row r
          else parse PQuo (cur ++ [c]) row r
      | PQQ =>
          if ascii_eqb c dquote then parse PQuo (cur ++ [dquote]) row r
          else if ascii_eqb c comma then parse PStart [] (row ++ [FQ cur]) r
          else if ascii_eqb c nl then (row ++ [FQ cur]) :: parse PStart [] [] r
          else parse PQuo (cur ++ [c]) row r   (* malformed input: keep going *)
      end
  end.

Definition parse_csv (s : text) : list (list field) := parse PStart [] [] s.

(* ---------- the writer ---------- *)
(* physical lines of a file whose every line is terminated (text mode with universal newlines:
   a carriage return also ends a line and is read back as a line feed) *)
Definition is_break (c : ascii) : bool := ascii_eqb c nl || ascii_eqb c cr.

Fixpoint split_lines (cur : text) (s : text) : list text :=
  match s with
  | [] => match cur with [] => [] | _ => [cur] end
  | c :: r => if is_break c then cur :: split_lines [] r else split_lines (cur ++ [c]) r
  end.

Fixpoint lookup (k : text) (kv : list (text * field)) : option field :=
  match kv with
  | [] => None
  | (k', v) :: r => if text_eqb k k' then Some v else lookup k r
  end.

Definition render_cell (o : option field) : text := match o with None => [] | Some f => print_field f end.

Record csv := mk_csv { c_keys : list text; c_file : text }.
Definition csv0 : csv := mk_csv [] [].

(* kv = the key/value pairs visible to the csv format in this dump; extra = the keys that are new, in
   the order Python's set iteration delivered them (an oracle) *)
Definition csv_write (c : csv) (kv : list (text * field)) (extra : list text) : csv :=
  let keys' := c_keys c ++ extra in
  let file1 :=
    match extra with
    | [] => c_file c
    | _ => join_comma keys' ++ [nl]
           ++ flat_map (fun l => l ++ repeat comma (List.length extra) ++ [nl]) (tl (split_lines [] (c_file c)))
    end in
  mk_csv keys' (file1 ++ join_comma (map (fun k => render_cell (lookup k kv)) keys') ++ [nl]).

Fixpoint csv_run (c : csv) (dumps : list (list (text * field) * list text)) : csv :=
  match dumps with
  | [] => c
  | (kv, extra) :: rest => csv_run (csv_write c kv extra) rest
  end.

(* ---------- what the file is supposed to say ---------- *)
Definition cell_of (o : option field) : field := match o with None => FU [] | Some f => f end.
Definition expected_row (keys : list text) (kv : list (text * field)) : list field :=
  map (fun k => cell_of (lookup k kv)) keys.
Definition expected_table (keys : list text) (dumps : list (list (text * field) * list text)) : list (list field) :=
  map FU keys :: map (fun d => expected_row keys (fst d)) dumps.

(* side conditions *)
Definition plain_char (c : ascii) : bool :=
  negb (ascii_eqb c comma) && negb (ascii_eqb c dquote) && negb (ascii_eqb c nl) && negb (ascii_eqb c cr).
Definition plain (s : text) : bool := forallb plain_char s.
Definition no_break (s : text) : bool := forallb (fun c => negb (is_break c)) s.
Definition field_no_break (f : field) : bool := match f with FU s => true | FQ s => no_break s end.

Definition field_eqb (a b : field) : bool :=
  match a, b with FU x, FU y => text_eqb x y | FQ x, FQ y => text_eqb x y | _, _ => false end.
Fixpoint list_eqb {A} (eqb : A -> A -> bool) (a b : list A) : bool :=
  match a, b with
  | [], [] => true
  | x :: a', y :: b' => eqb x y && list_eqb eqb a' b'
  | _, _ => false
  end.
Definition table_eqb := list_eqb (list_eqb field_eqb).

(* for the correspondence: first position at which two texts differ (length of the common prefix) *)
Fixpoint first_diff (a b : text) (i : nat) : option nat :=
  match a, b with
  | [], [] => None
  | x :: a', y :: b' => if ascii_eqb x y then first_diff a' b' (S i) else Some i
  | _, _ => Some i
  end.

(* ---- the library's reader drops blank lines (pandas skip_blank_lines=True): a record that is one empty unquoted field ---- *)
Definition is_blank_row (r : list field) : bool := match r with [FU []] => true | _ => false end.
Definition parse_csv_skip_blank (s : text) : list (list field) := filter (fun r => negb (is_blank_row r)) (parse_csv s).
Definition no_blank_rows (t : list (list field)) : bool := forallb (fun r => negb (is_blank_row r)) t.
