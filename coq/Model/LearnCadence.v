(* Composition of the learn() loop model (Model/LearnLoop.v, C12) with the target-update counters
   (Model/Cadence.v, C08): which target updates happen over a whole learn() call.  Definitions only. *)
From Coq Require Import ZArith List Bool.
From SB3V Require Import Model.LearnLoop Model.Cadence.
Import ListNotations.
Local Open Scope Z_scope.

(* what the counters see of one learn() call: the gradient-step counts of its train() calls, in order,
   and the number of vectorised env steps *)
Definition train_sizes (evs : list (Z * Z)) : list nat := map (fun e => Z.to_nat (snd e)) evs.
Definition vector_steps (start fin n_envs : Z) : nat := Z.to_nat ((fin - start) / n_envs).

(* update flags of one learn() call from counters n_calls / n_updates *)
Definition learn_flags_dqn (tui n_envs n_calls start fin : Z) : list bool :=
  dqn_steps (dqn_period tui n_envs) n_calls (vector_steps start fin n_envs).
Definition learn_flags_td3 (delay n_updates : Z) (evs : list (Z * Z)) : list bool := td3_calls delay n_updates (train_sizes evs).
Definition learn_flags_sac (tui : Z) (evs : list (Z * Z)) : list bool := sac_calls tui (train_sizes evs).

(* ---- closed forms for train_freq = f steps, no callback stop, from num_timesteps = num ---- *)
(* rollouts (= loop iterations) until the first boundary at or after the target *)
Definition n_rollouts (R total num : Z) : nat := if num <? total then Z.to_nat ((total - num - 1) / R + 1) else 0%nat.
(* rollouts j = 1..K ending at num + j*R > learning_starts *)
Definition n_trains (R ls num : Z) (K : nat) : nat := (K - Nat.min K (Z.to_nat (Z.max 0 ((ls - num) / R))))%nat.

Definition dqn_updates (tui n_envs f n_calls : Z) (K : nat) : Z :=
  let m := dqn_period tui n_envs in (n_calls + Z.of_nat K * f) / m - n_calls / m.
Definition td3_updates (delay n_updates g : Z) (T : nat) : Z := (n_updates + Z.of_nat T * g) / delay - n_updates / delay.
Definition sac_updates (tui g : Z) (T : nat) : Z := Z.of_nat T * ((g - 1) / tui + 1).
