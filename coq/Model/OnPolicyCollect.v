(* Model of OnPolicyAlgorithm.collect_rollouts (on_policy_algorithm.py) over scripted sub-environments.
   Definitions only; proofs are in Proofs/OnPolicyCollectProofs.v.

   One environment column at a time: the vectorised loop of the code does the same thing for every
   sub-environment index (env.step, the bootstrap loop over enumerate(dones), rollout_buffer.add), so the
   rollout buffer is the list of its columns.  NOTE: [vstep1] (auto-reset step of one DummyVecEnv slot)
   duplicates what Model/VecEnv.v defines for C01; kept local so that this file does not depend on it.

   Policy outputs (sampled action, value, log-prob, value of a terminal observation, value of the last
   observation) are ORACLE inputs: the harness records them from the real run. *)
From Coq Require Import ZArith QArith Qminmax List Bool.
From SB3V Require Import Model.Script Lib.QUtil.
Import ListNotations.
Local Open Scope Z_scope.

(* what DummyVecEnv returns for one sub-environment after one step *)
Record vout := mkV {
  vo_obs : Z;            (* returned observation: the next episode's reset observation when done *)
  vo_r4 : Z;             (* reward in quarters *)
  vo_done : bool;        (* terminated or truncated *)
  vo_term : option Z;    (* infos["terminal_observation"] *)
  vo_tl : bool;          (* infos["TimeLimit.truncated"] = truncated and not terminated *)
  vo_terminated : bool;  (* the env's own signals, for the statement of the theorems *)
  vo_truncated : bool
}.

Definition vstep1 (sc : script) (c : cursor) : cursor * vout :=
  let '(c1, st) := env_step sc c in
  let done := st_term st || st_trunc st in
  let tl := st_trunc st && negb (st_term st) in
  if done then
    let '(c2, otag, _) := env_reset sc c1 in
    (c2, mkV otag (st_r4 st) true (Some (st_tag st)) tl (st_term st) (st_trunc st))
  else (c1, mkV (st_tag st) (st_r4 st) false None tl (st_term st) (st_trunc st)).

(* how the sampled action becomes the action given to the environment *)
Inductive act_kind :=
| ActClip (low high : list Q)     (* Box, not squashed: np.clip(actions, low, high) *)
| ActSquash (low high : list Q)   (* Box, squash_output: policy.unscale_action *)
| ActId.                          (* Discrete / MultiDiscrete / MultiBinary *)

Definition qclip (a lo hi : Q) : Q := Qmin (Qmax a lo) hi.   (* np.clip = minimum(maximum(a, lo), hi) *)
Definition unscale (lo hi x : Q) : Q := (lo + (1 # 2) * (x + 1) * (hi - lo))%Q.

Fixpoint map3 {A B C D} (f : A -> B -> C -> D) (a : list A) (b : list B) (c : list C) : list D :=
  match a, b, c with
  | x :: a', y :: b', z :: c' => f x y z :: map3 f a' b' c'
  | _, _, _ => []
  end.

Definition env_action (ak : act_kind) (a : list Q) : list Q :=
  match ak with
  | ActClip lo hi => map3 qclip a lo hi
  | ActSquash lo hi => map3 (fun x l h => unscale l h x) a lo hi
  | ActId => a
  end.

(* oracle for one (step, env): id of the policy forward call it came from, sampled action, value, log-prob,
   and the value the policy assigns to the terminal observation (used only when bootstrapping) *)
(* [p_tv] is V of the terminal observation IN THE REPRESENTATION THE POLICY IS TRAINED ON: under VecNormalize the terminal observation
   is normalised like every other observation, whether the statistics are being updated (training=True) or frozen (training=False);
   the model has no such flag because nothing in the bootstrap may depend on it - the harness checks the hand-over on the real code *)
Record pol := mkP { p_id : Z; p_act : list Q; p_val : Q; p_logp : Q; p_tv : Q }.

(* one (step, env) cell of the rollout buffer + the action the environment received *)
Record slot := mkS { s_obs : Z; s_id : Z; s_act : list Q; s_rew : Q; s_start : bool; s_val : Q; s_logp : Q;
                     s_envact : list Q; s_boot : bool; s_bootobs : option Z }.

(* per-column algorithm state: env cursor, _last_obs, _last_episode_starts *)
Record cstate := mkC { cs_cur : cursor; cs_obs : Z; cs_start : bool }.

Definition bootstraps (o : vout) : bool :=
  vo_done o && (match vo_term o with Some _ => true | None => false end) && vo_tl o.

Definition reward_of (gamma : Q) (o : vout) (p : pol) : Q :=
  (if bootstraps o then inject_Z (vo_r4 o) / 4 + gamma * p_tv p else inject_Z (vo_r4 o) / 4)%Q.

Definition step_col (ak : act_kind) (gamma : Q) (sc : script) (st : cstate) (p : pol) : cstate * slot :=
  let '(c', o) := vstep1 sc (cs_cur st) in
  (mkC c' (vo_obs o) (vo_done o),
   mkS (cs_obs st) (p_id p) (p_act p) (reward_of gamma o p) (cs_start st) (p_val p) (p_logp p)
       (env_action ak (p_act p)) (bootstraps o) (if bootstraps o then vo_term o else None)).

Fixpoint collect (ak : act_kind) (gamma : Q) (sc : script) (st : cstate) (ps : list pol) : cstate * list slot :=
  match ps with
  | [] => (st, [])
  | p :: r => let '(st1, s) := step_col ak gamma sc st p in
              let '(st2, l) := collect ak gamma sc st1 r in (st2, s :: l)
  end.

(* ---- a callback that returns False (stop request) ----
   collect_rollouts returns False right after env.step and callback.on_step(): nothing is added to the rollout buffer and
   _last_obs / _last_episode_starts are NOT advanced, while the environment has moved on; learn() ends there and a later
   learn(reset_num_timesteps=False) continues from the stale observation.  Every oracle entry carries the stop flag. *)
Definition step_col_stopped (sc : script) (st : cstate) : cstate :=
  mkC (fst (vstep1 sc (cs_cur st))) (cs_obs st) (cs_start st).

Fixpoint collect_s (ak : act_kind) (gamma : Q) (sc : script) (st : cstate) (ps : list (pol * bool)) : cstate * list slot :=
  match ps with
  | [] => (st, [])
  | (p, false) :: r => let '(st1, s) := step_col ak gamma sc st p in
                       let '(st2, l) := collect_s ak gamma sc st1 r in (st2, s :: l)
  | (_, true) :: r => collect_s ak gamma sc (step_col_stopped sc st) r
  end.

(* one rollout: its slots, the observation whose value bootstraps the end of the rollout (new_obs after the
   last step) and the final dones handed to compute_returns_and_advantage *)
Record rollout_out := mkR { ro_slots : list slot; ro_last_obs : Z; ro_dones : bool }.

Fixpoint rollouts (ak : act_kind) (gamma : Q) (sc : script) (st : cstate) (rs : list (list pol))
  : cstate * list rollout_out :=
  match rs with
  | [] => (st, [])
  | ps :: r => let '(st1, sl) := collect ak gamma sc st ps in
               let '(st2, l) := rollouts ak gamma sc st1 r in
               (st2, mkR sl (cs_obs st1) (cs_start st1) :: l)
  end.

(* _setup_learn with reset_num_timesteps (or the very first learn()): env.reset(), episode starts = ones *)
Definition col_reset (sc : script) (st : cstate) : cstate :=
  let '(c', o, _) := env_reset sc (cs_cur st) in mkC c' o true.

Definition cstate0 : cstate := mkC cursor0 0 true.

Fixpoint learns (ak : act_kind) (gamma : Q) (sc : script) (st : cstate) (calls : list (bool * list (list pol)))
  : cstate * list (list rollout_out) :=
  match calls with
  | [] => (st, [])
  | (reset, rs) :: r =>
      let st0 := if reset then col_reset sc st else st in
      let '(st1, outs) := rollouts ak gamma sc st0 rs in
      let '(st2, l) := learns ak gamma sc st1 r in (st2, outs :: l)
  end.

(* ---------------------------------------------------------------- gSDE noise resampling inside a rollout *)
(* step index j (0-based, within the rollout) at which `reset_noise` is called inside the collection loop *)
Definition sde_resample (use_sde : bool) (freq j : Z) : bool := use_sde && (0 <? freq) && (j mod freq =? 0).

Fixpoint sde_positions (use_sde : bool) (freq : Z) (k : nat) (j : Z) : list Z :=
  match k with
  | O => []
  | S k' => (if sde_resample use_sde freq j then [j] else []) ++ sde_positions use_sde freq k' (j + 1)
  end.

(* all reset_noise calls of one rollout of k steps: once before the loop when gSDE is on, then the positions above *)
Definition sde_calls (use_sde : bool) (freq : Z) (k : nat) : list Z :=
  (if use_sde then [0] else []) ++ sde_positions use_sde freq k 0.

(* ---------------------------------------------------------------- ground truth of one scripted env *)

(* cursor after g auto-reset steps, and the g-th (0-based) step's output *)
Fixpoint env_after (sc : script) (c : cursor) (g : nat) : cursor :=
  match g with O => c | S g' => fst (vstep1 sc (env_after sc c g')) end.
Definition out_at (sc : script) (c : cursor) (g : nat) : vout := snd (vstep1 sc (env_after sc c g)).

(* ---------------------------------------------------------------- correspondence entry point *)

Fixpoint qclose_all (rel abs : Q) (ms is_ : list Q) : bool :=
  match ms, is_ with
  | m :: ms', i :: is' => qclose rel abs m i && qclose_all rel abs ms' is'
  | [], [] => true
  | _, _ => false
  end.

(* per slot: (obs tag, id of the forward call, episode_start, bootstrapped?, obs whose value was added,
              reward agrees with impl?, env action agrees with impl?) *)
Definition show_slot (rel abs : Q) (s : slot) (impl : Q * list Q) : Z * Z * bool * bool * option Z * bool * bool :=
  (s_obs s, s_id s, s_start s, s_boot s, s_bootobs s,
   qclose rel abs (s_rew s) (fst impl), qclose_all rel abs (s_envact s) (snd impl)).

Fixpoint show_slots (rel abs : Q) (ss : list slot) (impl : list (Q * list Q)) :=
  match ss, impl with
  | s :: ss', i :: impl' => show_slot rel abs s i :: show_slots rel abs ss' impl'
  | _, _ => []
  end.

Definition show_rollout (rel abs : Q) (r : rollout_out) (impl : list (Q * list Q)) :=
  (show_slots rel abs (ro_slots r) impl, ro_last_obs r, ro_dones r).

Fixpoint map2 {A B C} (f : A -> B -> C) (a : list A) (b : list B) : list C :=
  match a, b with x :: a', y :: b' => f x y :: map2 f a' b' | _, _ => [] end.

Definition check_col (rel abs : Q) (ak : act_kind) (gamma : Q) (sc : script)
           (calls : list (bool * list (list pol))) (impl : list (list (list (Q * list Q)))) :=
  map2 (fun outs im => map2 (show_rollout rel abs) outs im) (snd (learns ak gamma sc cstate0 calls)) impl.

(* stop-aware slots, for the correspondence: (obs, episode_start, forward id) of every slot written *)
Definition show_collect_s (ak : act_kind) (gamma : Q) (sc : script) (ps : list (pol * bool)) : list (Z * bool * Z) :=
  map (fun s => (s_obs s, s_start s, s_id s)) (snd (collect_s ak gamma sc (col_reset sc cstate0) ps)).
