(* C09 (build round 5) - BaseAlgorithm.set_parameters(load_path_or_dict, exact_match) (base_class.py:575-641): the full
   decision, object by object, in the order of the given dictionary.  Definitions only.

   A state dict is a list of (key tag, tensor tag).  nn.Module.load_state_dict(given, strict) copies every own key that the
   given dictionary has (BEFORE it raises), and raises with strict=True when a key is missing or unexpected; an optimizer's
   load_state_dict replaces the whole state whatever `exact_match` is (the special case in the code). *)
From Coq Require Import List ZArith Bool String.
From SB3V Require Import Model.SaveLoad Model.LoadFlow.
Import ListNotations.
Local Open Scope Z_scope.

Definition sdict := list (Z * Z).
Inductive tobj := TModule (sd : sdict) | TOptim (sd : sdict).
Definition tmodel := list (string * tobj).       (* what recursive_getattr(self, name) finds *)

Fixpoint sd_get (k : Z) (sd : sdict) : option Z :=
  match sd with [] => None | (k', v) :: r => if Z.eqb k k' then Some v else sd_get k r end.
Definition sd_has (k : Z) (sd : sdict) : bool := match sd_get k sd with Some _ => true | None => false end.

Definition merge (own given : sdict) : sdict :=
  map (fun kv => (fst kv, match sd_get (fst kv) given with Some v => v | None => snd kv end)) own.
Definition missing_keys (own given : sdict) : list Z := map fst (filter (fun kv => negb (sd_has (fst kv) given)) own).
Definition unexpected_keys (own given : sdict) : list Z := map fst (filter (fun kv => negb (sd_has (fst kv) own)) given).
Definition strict_ok (own given : sdict) : bool :=
  match missing_keys own given, unexpected_keys own given with [], [] => true | _, _ => false end.

Fixpoint tlookup (n : string) (m : tmodel) : option tobj :=
  match m with [] => None | (n', t) :: r => if String.eqb n n' then Some t else tlookup n r end.
Fixpoint tset (n : string) (t : tobj) (m : tmodel) : tmodel :=
  match m with [] => [] | (n', t') :: r => if String.eqb n n' then (n', t) :: r else (n', t') :: tset n t r end.

Inductive sp_error := SPInvalidName (n : string) | SPStrict (n : string) | SPNames.

(* strict= argument of Module.load_state_dict, and the final test *)
Definition strict_arg (exact_match : bool) : bool := exact_match.
Definition names_raise (exact_match differ : bool) : bool := exact_match && differ.

Fixpoint sp_loop (exact : bool) (params : list (string * sdict)) (m : tmodel) (upd : list string)
  : tmodel * list string * option sp_error :=
  match params with
  | [] => (m, upd, None)
  | (n, g) :: r =>
      match tlookup n m with
      | None => (m, upd, Some (SPInvalidName n))
      | Some (TOptim _) => sp_loop exact r (tset n (TOptim g) m) (n :: upd)
      | Some (TModule own) =>
          let m' := tset n (TModule (merge own g)) m in
          if strict_arg exact && negb (strict_ok own g) then (m', upd, Some (SPStrict n))
          else sp_loop exact r m' (n :: upd)
      end
  end.

Definition set_parameters_full (exact : bool) (needing : list string) (params : list (string * sdict)) (m : tmodel)
  : tmodel * option sp_error :=
  match sp_loop exact params m [] with
  | (m', upd, Some e) => (m', Some e)
  | (m', upd, None) => if names_raise exact (negb (set_eqb upd needing)) then (m', Some SPNames) else (m', None)
  end.
