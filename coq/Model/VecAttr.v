(* C01 (extension) - attribute lookup through a chain of VecEnvWrapper objects
   (VecEnvWrapper.__getattr__ / getattr_recursive / getattr_depth_check, VecEnv.getattr_depth_check).
   A layer is the finite map of the attributes the wrapper object itself has (instance + class attributes);
   layers are listed outermost first, [base] are the attributes of the unwrapped VecEnv.  Definitions only. *)
From Coq Require Import ZArith List Bool.
Import ListNotations.
Local Open Scope nat_scope.

Definition attrs := list (Z * Z).          (* attribute name -> value *)
Fixpoint find (name : Z) (a : attrs) : option Z :=
  match a with [] => None | (k, v) :: r => if Z.eqb name k then Some v else find name r end.
Definition has (name : Z) (a : attrs) : bool := match find name a with Some _ => true | None => false end.

(* getattr_recursive: the first object, from the outside, that has the attribute *)
Fixpoint getattr_recursive (name : Z) (layers : list attrs) (base : attrs) : option Z :=
  match layers with
  | [] => find name base                                   (* getattr(self.venv, name) on the unwrapped VecEnv *)
  | l :: inner => match find name l with Some v => Some v | None => getattr_recursive name inner base end
  end.

(* getattr_depth_check: index (0 = outermost, length layers = the base VecEnv) of the object whose attribute
   is hidden by an outer one *)
Fixpoint depth_check (name : Z) (already_found : bool) (depth : nat) (layers : list attrs) (base : attrs) : option nat :=
  match layers with
  | [] => if has name base && already_found then Some depth else None
  | l :: inner =>
      if has name l && already_found then Some depth
      else if has name l && negb already_found then depth_check name true (S depth) inner base
      else depth_check name already_found (S depth) inner base
  end.

Inductive lookup_result := Value (v : Z) | Ambiguous (hidden : nat) | NoAttribute.

(* VecEnvWrapper.__getattr__ (called by Python only when the outermost object does not have the attribute) *)
Definition wrapper_getattr (name : Z) (layers : list attrs) (base : attrs) : lookup_result :=
  match depth_check name false 0 layers base with
  | Some d => Ambiguous d
  | None => match getattr_recursive name layers base with Some v => Value v | None => NoAttribute end
  end.

(* getattr(outermost, name) as Python evaluates it *)
Definition py_getattr (name : Z) (layers : list attrs) (base : attrs) : lookup_result :=
  match layers with
  | [] => match find name base with Some v => Value v | None => NoAttribute end
  | l :: _ => match find name l with Some v => Value v | None => wrapper_getattr name layers base end
  end.

(* specification: the objects that have the attribute, outermost first, with their index *)
Fixpoint holders (name : Z) (depth : nat) (layers : list attrs) (base : attrs) : list (nat * Z) :=
  match layers with
  | [] => match find name base with Some v => [(depth, v)] | None => [] end
  | l :: inner => (match find name l with Some v => [(depth, v)] | None => [] end) ++ holders name (S depth) inner base
  end.
