(* C07 - A2C objective (a2c/a2c.py train): policy gradient + value + entropy. *)
From Coq Require Import Reals QArith Qminmax Qabs List.
From SB3V Require Import Model.LossCommon Model.LossPPO.
Import ListNotations.
Local Open Scope R_scope.

(* loss = -(advantages * log_prob).mean() + ent_coef * entropy_loss + vf_coef * mse(returns, values) *)
Definition a2c_term (A ret ent_coef vf_coef : R) (lp v : R) (ent : option R) : R :=
  - (A * lp) + ent_coef * ent_term ent lp + vf_coef * sq_err ret v.

Local Open Scope Q_scope.
Definition a2c_batch_Q (ent_coef vf_coef : Q) (has_ent : bool) (advs lps rets vs ent_terms : list Q)
  : Q * (list Q * (list Q * Q)) :=
  let n := qlen advs in
  let pol := Qred (- qmean (qmap2 Qmult advs lps)) in
  let val := qmean (qmap2 (fun ret v => (ret - v) * (ret - v)) rets vs) in
  let loss := Qred (pol + ent_coef * qmean ent_terms + vf_coef * val) in
  let dlp := map (fun a => Qred ((- a + (if has_ent then 0 else ent_coef)) / n)) advs in
  let dv := qmap2 (fun ret v => vf_coef * 2 * (v - ret) / n) rets vs in
  (loss, (dlp, (dv, Qred (- ent_coef / n)))).
