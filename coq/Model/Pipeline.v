(* System-level compositions of the collection models with the buffer models.
   (a) on-policy: Model/OnPolicyCollect.v (what collect_rollouts writes into the rollout buffer) composed with Model/Gae.v
       (what compute_returns_and_advantage does with rewards / values / episode_starts / last_values / dones);
   (b) off-policy: Model/OffPolicyCollect.v (the replay_buffer.add calls of collect_rollouts) composed with Model/Replay.v
       (ring storage and sampling).
   Definitions only; proofs are in Proofs/PipelineProofs.v. *)
From Coq Require Import ZArith QArith List Bool.
From SB3V Require Import Model.Script Model.Gae Model.OnPolicyCollect Model.OffPolicyCollect Model.Replay.
Import ListNotations.
Local Open Scope Z_scope.

(* ------------------------------------------------------------------ (a) on-policy *)

Definition b2q (b : bool) : Q := if b then 1%Q else 0%Q.

(* the column of the rollout buffer that collect_rollouts fills for one env, handed to the GAE loop exactly as the code does:
   rewards, values, episode_starts of the slots; last_values = lv (oracle: V(new_obs)); dones = done of the last step *)
Definition pipeline_cells (ak : act_kind) (gamma : Q) (sc : script) (st : cstate) (ps : list pol) (lv : Q) : list stp :=
  let r := collect ak gamma sc st ps in
  mk_col (map s_rew (snd r)) (map s_val (snd r)) (map (fun s => b2q (s_start s)) (snd r)) lv (b2q (cs_start (fst r))).

Definition pipeline_adv (ak : act_kind) (gamma lam : Q) (sc : script) (st : cstate) (ps : list pol) (lv : Q) : list Q :=
  gae_code gamma lam (pipeline_cells ak gamma sc st ps lv).

(* consecutive rollouts of one learn(): the column state is carried from one rollout to the next *)
Fixpoint pipeline_rollouts (ak : act_kind) (gamma lam : Q) (sc : script) (st : cstate) (rs : list (list pol)) (lvs : list Q)
  : list (list Q) :=
  match rs, lvs with
  | ps :: r, lv :: lr =>
      pipeline_adv ak gamma lam sc st ps lv :: pipeline_rollouts ak gamma lam sc (fst (collect ak gamma sc st ps)) r lr
  | _, _ => []
  end.

(* what the property says a cell must be, written from the ground truth of the scripted env (out_at) and the policy oracle:
   reward = env reward + gamma*V(terminal obs) exactly when truncated and not terminated; value = the policy's value of the
   observation it saw; next value = next slot's value, or last_values after the last step; non-terminal = 1 - done of this step *)
Definition dpol : pol := mkP 0 [] 0 0 0.

Definition spec_cell (gamma : Q) (sc : script) (st : cstate) (ps : list pol) (lv : Q) (t : nat) : stp :=
  let o := out_at sc (cs_cur st) t in
  let p := nth t ps dpol in
  {| s_r := (if vo_truncated o && negb (vo_terminated o)
             then inject_Z (vo_r4 o) / 4 + gamma * p_tv p else inject_Z (vo_r4 o) / 4)%Q;
     s_v := p_val p;
     s_nv := if (S t <? length ps)%nat then p_val (nth (S t) ps dpol) else lv;
     s_nnt := (1 - b2q (vo_done o))%Q |}.

Definition spec_cells (gamma : Q) (sc : script) (st : cstate) (ps : list pol) (lv : Q) : list stp :=
  map (spec_cell gamma sc st ps lv) (seq 0 (length ps)).

(* the vectorised buffer: row t holds the cells of all envs *)
Definition dstp : stp := {| s_r := 0; s_v := 0; s_nv := 0; s_nnt := 0 |}.
Definition rows_of_cols (cols : list (list stp)) (T : nat) : list (list stp) :=
  map (fun t => map (fun c => nth t c dstp) cols) (seq 0 T).

(* ------------------------------------------------------------------ (b) off-policy *)

(* one env: its script, its algorithm-side state when collection starts, its oracle (unscaled actions, noise) *)
Record envcol := mkEC { ec_sc : script; ec_st : ostate; ec_orcs : list orc }.

Definition dtr : OffPolicyCollect.trans := OffPolicyCollect.mkT 0 0 [] 0 false false [].

(* a collected transition as the replay model stores it (actions are encoded by an arbitrary function to the model's tags) *)
Definition to_replay (aenc : list Q -> Z) (t : OffPolicyCollect.trans) : Replay.trans :=
  Replay.mkT (OffPolicyCollect.t_obs t) (OffPolicyCollect.t_next t) (aenc (OffPolicyCollect.t_act t)) (OffPolicyCollect.t_r4 t)
             (OffPolicyCollect.t_done t) (OffPolicyCollect.t_timeout t).

Definition env_adds (ak : akind) (ec : envcol) : list OffPolicyCollect.trans :=
  snd (off_collect ak (ec_sc ec) (ec_st ec) (ec_orcs ec)).

(* the g-th replay_buffer.add call: one transition per env *)
Definition add_row (aenc : list Q -> Z) (ak : akind) (envs : list envcol) (g : nat) : Replay.row :=
  map (fun ec => to_replay aenc (nth g (env_adds ak ec) dtr)) envs.

Definition add_rows (aenc : list Q -> Z) (ak : akind) (envs : list envcol) (G : nat) : list Replay.row :=
  map (add_row aenc ak envs) (seq 0 G).

(* the replay buffer after collecting G vector steps *)
Definition pipeline_buffer (aenc : list Q -> Z) (ak : akind) (envs : list envcol) (G : nat) (b0 : rb) : rb :=
  run b0 (map Add (add_rows aenc ak envs G)).

(* ------------------------------------------------------------------ correspondence entry points *)
From SB3V Require Import Lib.QUtil.

(* several learn() calls of one env column: advantages of every rollout (env reset on the first call / counter reset) *)
Fixpoint pipeline_learns (ak : act_kind) (gamma lam : Q) (sc : script) (st : cstate)
         (calls : list (bool * list (list pol))) (lvss : list (list Q)) : list (list (list Q)) :=
  match calls, lvss with
  | (reset, rs) :: r, lvs :: lr =>
      let st0 := if reset then col_reset sc st else st in
      pipeline_rollouts ak gamma lam sc st0 rs lvs
      :: pipeline_learns ak gamma lam sc (fst (rollouts ak gamma sc st0 rs)) r lr
  | _, _ => []
  end.

Definition check_pipeline (rel abs : Q) (ak : act_kind) (gamma lam : Q) (sc : script)
           (calls : list (bool * list (list pol))) (lvss : list (list Q)) (impl : list (list (list Q))) : list (list (list bool)) :=
  OnPolicyCollect.map2 (fun advs ims => OnPolicyCollect.map2 (fun a i => qclose_list rel abs (map Qred a) i) advs ims)
       (pipeline_learns ak gamma lam sc cstate0 calls lvss) impl.

(* everything sample() can return after collecting G steps (actions are compared outside: encoded as 0 here) *)
Definition pipeline_table (dict : bool) (bs : Z) (ht : bool) (ak : akind) (envs : list envcol) (G : nat) :=
  match create dict bs (Z.of_nat (length envs)) false ht with
  | Some b0 => Some (sample_table (pipeline_buffer (fun _ => 0) ak envs G b0))
  | None => None
  end.
