(* C10 - seed plumbing of stable-baselines3 (utils.set_random_seed, BaseAlgorithm.set_random_seed,
   VecEnv.seed / reset).  Only what is logic is modelled: which generator is seeded with what, and
   which seed each sub-environment receives at which reset.  Bit-reproducibility itself is decided
   by paired runs (harness/c10.py), not by this model. *)
From Coq Require Import ZArith List Bool.
Import ListNotations.
Local Open Scope Z_scope.

Inductive gstate : Type := Unseeded | Seeded (s : Z).

(* the generators a training run draws from *)
Inductive gen : Type := GPy | GNp | GTorch | GActionSpace | GEnv (i : nat).

Record st : Type := {
  s_py : gstate; s_np : gstate; s_torch : gstate; s_aspace : gstate;
  s_pending : list (option Z);        (* VecEnv._seeds: seed handed to sub-env i at the next reset() *)
  s_delivered : list (list (option Z)) (* per sub-env: the seed argument of every reset it has received, oldest first *)
}.

Definition init (n : nat) : st :=
  {| s_py := Unseeded; s_np := Unseeded; s_torch := Unseeded; s_aspace := Unseeded;
     s_pending := repeat None n; s_delivered := repeat [] n |}.

Inductive op : Type :=
| SetRandomSeed (s : Z)     (* utils.set_random_seed: random.seed, np.random.seed, th.manual_seed *)
| ActionSpaceSeed (s : Z)   (* self.action_space.seed(seed) *)
| EnvSeed (s : Z)           (* VecEnv.seed(seed): _seeds = [seed + idx for idx in range(num_envs)] *)
| Reset                     (* VecEnv.reset(): env i gets reset(seed=_seeds[i]); then _reset_seeds() *)
| AutoReset (i : nat).      (* episode end inside step_wait: envs[i].reset() without a seed *)

Fixpoint seeds_from (s : Z) (n : nat) : list (option Z) :=
  match n with O => [] | S k => Some s :: seeds_from (s + 1) k end.

Fixpoint deliver (pend : list (option Z)) (logs : list (list (option Z))) : list (list (option Z)) :=
  match pend, logs with
  | p :: pt, l :: lt => (l ++ [p]) :: deliver pt lt
  | _, _ => logs
  end.

Fixpoint deliver_at (i : nat) (logs : list (list (option Z))) : list (list (option Z)) :=
  match logs, i with
  | l :: lt, O => (l ++ [None]) :: lt
  | l :: lt, S k => l :: deliver_at k lt
  | [], _ => []
  end.

Definition step (x : st) (o : op) : st :=
  match o with
  | SetRandomSeed s => {| s_py := Seeded s; s_np := Seeded s; s_torch := Seeded s; s_aspace := s_aspace x;
                          s_pending := s_pending x; s_delivered := s_delivered x |}
  | ActionSpaceSeed s => {| s_py := s_py x; s_np := s_np x; s_torch := s_torch x; s_aspace := Seeded s;
                            s_pending := s_pending x; s_delivered := s_delivered x |}
  | EnvSeed s => {| s_py := s_py x; s_np := s_np x; s_torch := s_torch x; s_aspace := s_aspace x;
                    s_pending := seeds_from s (length (s_pending x)); s_delivered := s_delivered x |}
  | Reset => {| s_py := s_py x; s_np := s_np x; s_torch := s_torch x; s_aspace := s_aspace x;
                s_pending := repeat None (length (s_pending x)); s_delivered := deliver (s_pending x) (s_delivered x) |}
  | AutoReset i => {| s_py := s_py x; s_np := s_np x; s_torch := s_torch x; s_aspace := s_aspace x;
                      s_pending := s_pending x; s_delivered := deliver_at i (s_delivered x) |}
  end.

Definition run (x : st) (ops : list op) : st := fold_left step ops x.

(* BaseAlgorithm.set_random_seed(seed) as called by _setup_model; None: nothing is seeded *)
Definition setup (seed : option Z) : list op :=
  match seed with
  | None => []
  | Some s => [SetRandomSeed s; ActionSpaceSeed s; EnvSeed s]
  end.

Definition gen_state (x : st) (g : gen) : gstate :=
  match g with
  | GPy => s_py x | GNp => s_np x | GTorch => s_torch x | GActionSpace => s_aspace x
  | GEnv i => match nth_error (s_delivered x) i with
              | Some (Some s :: _) => Seeded s     (* the env's generator is created by its first seeded reset *)
              | _ => Unseeded
              end
  end.

(* what a later op may be: anything but a re-seeding *)
Definition is_reset (o : op) : bool := match o with Reset | AutoReset _ => true | _ => false end.

(* ---- consumers: every random draw of the library, resolved to the generator it uses ---- *)
Inductive consumer : Type :=
| CReplaySample | CRolloutPermutation | CHerSample | CHerGoalSample | CActionNoise | CEpsilonGreedy
| CWarmupActionSample | CEpsilonRandomAction | CPolicySample | CGsdeWeights | CTargetPolicyNoise | CNetworkInit
| CEnvDynamics (i : nat) | CVecEnvSeedFallback.

Definition consumer_gen (c : consumer) : gen :=
  match c with
  | CReplaySample | CRolloutPermutation | CHerSample | CHerGoalSample | CActionNoise | CEpsilonGreedy | CVecEnvSeedFallback => GNp
  | CWarmupActionSample | CEpsilonRandomAction => GActionSpace
  | CPolicySample | CGsdeWeights | CTargetPolicyNoise | CNetworkInit => GTorch
  | CEnvDynamics i => GEnv i
  end.

(* tags used by the call-site scan of harness/c10.py: 0 python global, 1 numpy global, 2 torch global,
   3 the model's action space, 4 a sub-environment's own generator; anything else is not seeded *)
Definition gen_of_tag (t : Z) : option gen :=
  match t with
  | 0 => Some GPy | 1 => Some GNp | 2 => Some GTorch | 3 => Some GActionSpace | 4 => Some (GEnv 0)
  | _ => None
  end.
Definition tag_of_gen (g : gen) : Z :=
  match g with GPy => 0 | GNp => 1 | GTorch => 2 | GActionSpace => 3 | GEnv _ => 4 end.
(* the tag the call-site scan must find at the site(s) that implement consumer c *)
Definition consumer_tag (c : consumer) : Z := tag_of_gen (consumer_gen c).
Definition is_seeded (x : st) (g : gen) : bool := match gen_state x g with Seeded _ => true | Unseeded => false end.
Definition scan_ok (x : st) (tags : list Z) : bool :=
  forallb (fun t => match gen_of_tag t with Some g => is_seeded x g | None => false end) tags.
