(* Model of the cursor / reset / get protocol of RolloutBuffer and DictRolloutBuffer
   (stable_baselines3/common/buffers.py); the GAE computation and the minibatch slicing are C05's
   (Model/Gae.v, Model/Minibatch.v).  Definitions only.
   The arrays [buffer_size, n_envs] are represented by the rows written since the last reset
   (row t = the add number t; the unwritten rows are zeros): `arr`.  get() needs a full buffer and, on
   the first pass after a reset only, replaces every array by its swap_and_flatten'ed version
   (generator_ready); add() at pos = buffer_size indexes out of bounds (IndexError). *)
From Coq Require Import List Arith Bool ZArith.
From SB3V Require Import Model.Minibatch.
Import ListNotations.

Record rbuf := mkR {
  r_T : nat; r_n : nat;                 (* buffer_size (n_steps), n_envs *)
  r_pos : nat; r_full : bool; r_ready : bool;
  r_rows : list (list Z);               (* rows added since the last reset, oldest first *)
  r_flat : option (list Z) }.           (* the flattened array once generator_ready *)

Definition rcreate (T n : nat) : rbuf := mkR T n 0 false false [] None.

(* self.pos += 1; if self.pos == self.buffer_size: self.full = True *)
Definition radd_cursor (pos T : nat) (full : bool) : nat * bool :=
  let p := S pos in (p, if p =? T then true else full).

Definition zero_row (n : nat) : list Z := repeat 0%Z n.
Definition arr (b : rbuf) : list (list Z) := r_rows b ++ repeat (zero_row (r_n b)) (r_T b - r_pos b).

Inductive rop := RAdd (row : list Z) | RReset | RGet.

(* None = the call raises *)
Definition rstep (b : rbuf) (o : rop) : option rbuf :=
  match o with
  | RAdd row =>
      if r_pos b <? r_T b then
        let '(p, f) := radd_cursor (r_pos b) (r_T b) (r_full b) in
        Some (mkR (r_T b) (r_n b) p f (r_ready b) (r_rows b ++ [row]) (r_flat b))
      else None
  | RReset => Some (mkR (r_T b) (r_n b) 0 false false [] None)
  | RGet =>
      if r_full b then
        if r_ready b then Some b
        else Some (mkR (r_T b) (r_n b) (r_pos b) (r_full b) true (r_rows b) (Some (flatten 0%Z (r_n b) (arr b))))
      else None
  end.

(* run, skipping the calls that raise (the harness catches the exception and goes on); the second
   component records which calls raised *)
Fixpoint rrun (b : rbuf) (ops : list rop) : rbuf * list bool :=
  match ops with
  | [] => (b, [])
  | o :: rest =>
      match rstep b o with
      | Some b' => let '(fin, errs) := rrun b' rest in (fin, false :: errs)
      | None => let '(fin, errs) := rrun b rest in (fin, true :: errs)
      end
  end.

(* ghost: rows successfully added since the last reset *)
Fixpoint rrecent (b : rbuf) (h : list (list Z)) (ops : list rop) : list (list Z) :=
  match ops with
  | [] => h
  | o :: rest =>
      match rstep b o with
      | Some b' => rrecent b' (match o with RAdd row => h ++ [row] | RReset => [] | RGet => h end) rest
      | None => rrecent b h rest
      end
  end.

(* for the harness: after every op (pos, full, generator_ready, flat array if any) *)
Fixpoint robserve (b : rbuf) (ops : list rop) : list (bool * nat * bool * bool * option (list Z)) :=
  match ops with
  | [] => []
  | o :: rest =>
      match rstep b o with
      | Some b' => (false, r_pos b', r_full b', r_ready b', r_flat b') :: robserve b' rest
      | None => (true, r_pos b, r_full b, r_ready b, r_flat b) :: robserve b rest
      end
  end.
