(* C07 - TD3 / DDPG objectives (td3/td3.py train): clipped double-Q with target-policy smoothing,
   delayed deterministic policy gradient.  DDPG = TD3 with policy_delay 1, noise clip 0, one critic. *)
From Coq Require Import Reals QArith Qminmax Qabs List ZArith.
From SB3V Require Import Model.LossCommon Model.LossSAC.
Import ListNotations.
Local Open Scope R_scope.

(* next_actions = (actor_target(s') + noise.clamp(-c, c)).clamp(-1, 1) *)
Definition td3_next_action (noise_clip a_target noise : R) : R :=
  clampR (-1) 1 (a_target + clampR (- noise_clip) noise_clip noise).
Definition td3_target (r d gamma : R) (next_qs : list R) : R := td_target r d gamma (min_list next_qs).
(* critic_loss = sum_j mse(current_q_j, target) *)
Definition td3_critic_term (target q : R) : R := sq_err target q.
(* actor_loss = -Q_1(s, actor(s)).mean() *)
Definition td3_actor_term (q1 : R) : R := - q1.
(* delayed policy update: if self._n_updates % self.policy_delay == 0 *)
Definition td3_actor_step (n_updates policy_delay : Z) : bool := (n_updates mod policy_delay =? 0)%Z.

Local Open Scope Q_scope.
Definition td3_next_action_Q (noise_clip a_target noise : Q) : Q :=
  qclamp (-(1)) 1 (a_target + qclamp (- noise_clip) noise_clip noise).
Definition td3_target_Q (gamma r d : Q) (next_qs : list Q) : Q := Qred (td_target_Q r d gamma (qmin_list next_qs)).
Fixpoint td3_targets_Q (gamma : Q) (rs ds : list Q) (rows : list (list Q)) : list Q :=
  match rs, ds, rows with
  | r :: rt, d :: dt, row :: rowt => td3_target_Q gamma r d row :: td3_targets_Q gamma rt dt rowt
  | _, _, _ => []
  end.
Definition td3_critic_Q (ys : list Q) (qcols : list (list Q)) : Q * list (list Q) :=
  let n := qlen ys in
  (qsum (map (fun qs => qmean (qmap2 (fun q y => (q - y) * (q - y)) qs ys)) qcols),
   map (fun qs => qmap2 (fun q y => 2 * (q - y) / n) qs ys) qcols).
Definition td3_actor_Q (q1s : list Q) : Q * list Q :=
  let n := qlen q1s in (Qred (- qmean q1s), map (fun _ => Qred (- (1) / n)) q1s).
