(* C01 - model of the VecEnv episode-boundary contract (DummyVecEnv.step_wait / reset,
   SubprocVecEnv worker 'step' / 'reset' branches, VecEnv.seed / set_options).
   Generic in the sub-environment: state E, observations O, actions A, infos I, options Opt.
   Definitions only. *)
From Coq Require Import ZArith List Bool.
From SB3V Require Import Model.Script.
Import ListNotations.
Local Open Scope nat_scope.

Section VecEnv.
Context {E O A I Opt : Type}.
(* gymnasium API of one sub-environment: step -> (obs, reward in 1/4 units, terminated, truncated, info) *)
Variable e_step : E -> A -> E * (O * Z * bool * bool * I).
(* reset(seed, options) -> (obs, info); options None = "no options keyword" *)
Variable e_reset : E -> option Z -> option Opt -> E * (O * I).

(* what a sub-environment is asked to do (its own log) *)
Inductive call := CStep (a : A) | CReset (s : option Z) (o : option Opt).

(* per-env result of a vector step *)
Record sout := mk_sout { so_obs : O; so_rew : Z; so_done : bool; so_info : I; so_tl : bool; so_term : option O }.

(* body of the loop of DummyVecEnv.step_wait == 'step' branch of the SubprocVecEnv worker, for one
   sub-environment: ri = reset_infos[i] before the step *)
Definition sub_step (e : E) (ri : option I) (a : A) : E * option I * sout * list call :=
  let '(e1, (obs, r, term, trunc, info)) := e_step e a in
  let done := term || trunc in
  let tl := trunc && negb term in
  if done then
    let '(e2, (obs2, ri2)) := e_reset e1 None None in
    (e2, Some ri2, mk_sout obs2 r done info tl (Some obs), [CStep a; CReset None None])
  else (e1, ri, mk_sout obs r done info tl None, [CStep a]).

(* the same loop body with the three decision formulas as parameters (instantiated in
   Proofs/VecEnvProofs.v with the fragments regenerated from dummy_vec_env.py / subproc_vec_env.py) *)
Definition sub_step_with (fdone ftl : bool -> bool -> bool) (fguard : bool -> bool -> bool -> bool)
  (e : E) (ri : option I) (a : A) : E * option I * sout * list call :=
  let '(e1, (obs, r, term, trunc, info)) := e_step e a in
  let done := fdone term trunc in
  let tl := ftl term trunc in
  if fguard done term trunc then
    let '(e2, (obs2, ri2)) := e_reset e1 None None in
    (e2, Some ri2, mk_sout obs2 r done info tl (Some obs), [CStep a; CReset None None])
  else (e1, ri, mk_sout obs r done info tl None, [CStep a]).

Definition sub_reset (e : E) (seed : option Z) (opt : option Opt) : E * option I * O * list call :=
  let '(e1, (obs, ri)) := e_reset e seed opt in (e1, Some ri, obs, [CReset seed opt]).

(* ---------- one sub-environment driven alone ---------- *)
Record sstate := mk_sstate { s_env : E; s_ri : option I; s_seed : option Z; s_opt : option Opt }.
Inductive sop := SReset | SStep (a : A) | SSeed (s : Z) | SSetOpt (o : option Opt).
Inductive soutput :=
  | SOReset (obs : O) (ri : option I) (calls : list call)
  | SOStep (out : sout) (ri : option I) (calls : list call)
  | SOSeed (s : option Z)
  | SONone.

Definition sapply (st : sstate) (op : sop) : sstate * soutput :=
  match op with
  | SReset =>
      let '(e, ri, obs, c) := sub_reset (s_env st) (s_seed st) (s_opt st) in
      (mk_sstate e ri None None, SOReset obs ri c)
  | SStep a =>
      let '(e, ri, out, c) := sub_step (s_env st) (s_ri st) a in
      (mk_sstate e ri (s_seed st) (s_opt st), SOStep out ri c)
  | SSeed s => (mk_sstate (s_env st) (s_ri st) (Some s) (s_opt st), SOSeed (Some s))
  | SSetOpt o => (mk_sstate (s_env st) (s_ri st) (s_seed st) o, SONone)
  end.

Fixpoint srun (st : sstate) (ops : list sop) : list soutput :=
  match ops with
  | [] => []
  | op :: rest => let '(st', o) := sapply st op in o :: srun st' rest
  end.

Fixpoint sfinal (st : sstate) (ops : list sop) : sstate :=
  match ops with
  | [] => st
  | op :: rest => sfinal (fst (sapply st op)) rest
  end.

Definition calls_of (o : soutput) : list call :=
  match o with SOReset _ _ c => c | SOStep _ _ c => c | _ => [] end.

(* ---------- the vectorised environment ---------- *)
(* the lists the implementation keeps: envs / remotes, reset_infos, _seeds, _options *)
Record vstate := mk_vstate { v_envs : list E; v_ri : list (option I); v_seeds : list (option Z); v_opts : list (option Opt) }.

Inductive vop :=
  | VReset
  | VStep (acts : list A)
  | VSeed (s : Z)
  | VSetOptions (os : list (option Opt))      (* set_options(list) *)
  | VSetOptionsAll (o : option Opt).          (* set_options(dict): the same for all *)

Inductive voutput :=
  | VOReset (obs : list O) (ris : list (option I)) (calls : list (list call))
  | VOStep (outs : list sout) (ris : list (option I)) (calls : list (list call))
  | VOSeed (seeds : list (option Z))
  | VONone.

(* for env_idx in range(num_envs): ... step ... *)
Fixpoint step_loop (envs : list E) (ris : list (option I)) (acts : list A)
  : list E * list (option I) * list sout * list (list call) :=
  match envs, ris, acts with
  | e :: envs', ri :: ris', a :: acts' =>
      let '(e', ri', o, c) := sub_step e ri a in
      let '(es, rs, os, cs) := step_loop envs' ris' acts' in
      (e' :: es, ri' :: rs, o :: os, c :: cs)
  | _, _, _ => ([], [], [], [])
  end.

(* for env_idx in range(num_envs): ... reset(seed=_seeds[env_idx], options=_options[env_idx]) *)
Fixpoint reset_loop (envs : list E) (seeds : list (option Z)) (opts : list (option Opt))
  : list E * list (option I) * list O * list (list call) :=
  match envs, seeds, opts with
  | e :: envs', s :: seeds', o :: opts' =>
      let '(e', ri, obs, c) := sub_reset e s o in
      let '(es, rs, os, cs) := reset_loop envs' seeds' opts' in
      (e' :: es, ri :: rs, obs :: os, c :: cs)
  | _, _, _ => ([], [], [], [])
  end.

Definition num_envs (vs : vstate) : nat := length (v_envs vs).

Definition vapply (vs : vstate) (op : vop) : vstate * voutput :=
  let n := num_envs vs in
  match op with
  | VReset =>
      let '(es, rs, obs, cs) := reset_loop (v_envs vs) (v_seeds vs) (v_opts vs) in
      (* _reset_seeds(); _reset_options() *)
      (mk_vstate es rs (repeat None n) (repeat None n), VOReset obs rs cs)
  | VStep acts =>
      let '(es, rs, outs, cs) := step_loop (v_envs vs) (v_ri vs) acts in
      (mk_vstate es rs (v_seeds vs) (v_opts vs), VOStep outs rs cs)
  | VSeed s =>
      (* self._seeds = [seed + idx for idx in range(self.num_envs)] *)
      let seeds := map (fun idx => Some (s + Z.of_nat idx)%Z) (seq 0 n) in
      (mk_vstate (v_envs vs) (v_ri vs) seeds (v_opts vs), VOSeed seeds)
  | VSetOptions os => (mk_vstate (v_envs vs) (v_ri vs) (v_seeds vs) os, VONone)
  | VSetOptionsAll o => (mk_vstate (v_envs vs) (v_ri vs) (v_seeds vs) (repeat o n), VONone)
  end.

Fixpoint vrun (vs : vstate) (ops : list vop) : list voutput :=
  match ops with
  | [] => []
  | op :: rest => let '(vs', o) := vapply vs op in o :: vrun vs' rest
  end.

(* a freshly constructed VecEnv: reset_infos = [{}]*n, _seeds = [None]*n, _options = [{}]*n *)
Definition vinit (envs : list E) : vstate :=
  let n := length envs in mk_vstate envs (repeat None n) (repeat None n) (repeat None n).
Definition sinit (e : E) : sstate := mk_sstate e None None None.

(* ---------- projection on sub-environment i ---------- *)
Definition proj_state (i : nat) (vs : vstate) : option sstate :=
  match nth_error (v_envs vs) i, nth_error (v_ri vs) i, nth_error (v_seeds vs) i, nth_error (v_opts vs) i with
  | Some e, Some ri, Some s, Some o => Some (mk_sstate e ri s o)
  | _, _, _, _ => None
  end.

Definition proj_op (i : nat) (op : vop) : option sop :=
  match op with
  | VReset => Some SReset
  | VStep acts => option_map SStep (nth_error acts i)
  | VSeed s => Some (SSeed (s + Z.of_nat i)%Z)
  | VSetOptions os => option_map SSetOpt (nth_error os i)
  | VSetOptionsAll o => Some (SSetOpt o)
  end.

Fixpoint proj_ops (i : nat) (ops : list vop) : option (list sop) :=
  match ops with
  | [] => Some []
  | op :: rest =>
      match proj_op i op, proj_ops i rest with
      | Some s, Some r => Some (s :: r)
      | _, _ => None
      end
  end.

Definition proj_out (i : nat) (o : voutput) : option soutput :=
  match o with
  | VOReset obs ris cs =>
      match nth_error obs i, nth_error ris i, nth_error cs i with
      | Some ob, Some ri, Some c => Some (SOReset ob ri c) | _, _, _ => None end
  | VOStep outs ris cs =>
      match nth_error outs i, nth_error ris i, nth_error cs i with
      | Some ou, Some ri, Some c => Some (SOStep ou ri c) | _, _, _ => None end
  | VOSeed seeds => option_map SOSeed (nth_error seeds i)
  | VONone => Some SONone
  end.

(* ---------- specification of what reaches the sub-environment's reset ---------- *)
(* seed / options pending after a prefix of single-env ops: the last seed()/set_options() call
   since the last reset(), if any *)
Fixpoint pending_seed (acc : option Z) (ops : list sop) : option Z :=
  match ops with
  | [] => acc
  | SReset :: r => pending_seed None r
  | SSeed s :: r => pending_seed (Some s) r
  | _ :: r => pending_seed acc r
  end.
Fixpoint pending_opt (acc : option Opt) (ops : list sop) : option Opt :=
  match ops with
  | [] => acc
  | SReset :: r => pending_opt None r
  | SSetOpt o :: r => pending_opt o r
  | _ :: r => pending_opt acc r
  end.

Definition is_reset_call (c : call) : bool := match c with CReset _ _ => true | _ => false end.
End VecEnv.

Arguments call : clear implicits.
Arguments sout : clear implicits.
Arguments sstate : clear implicits.
Arguments sop : clear implicits.
Arguments soutput : clear implicits.
Arguments vstate : clear implicits.
Arguments vop : clear implicits.
Arguments voutput : clear implicits.

(* ---------- instance: scripted sub-environments (Model/Script.v) ---------- *)
Definition senv : Type := script * cursor.
Definition sc_step (e : senv) (a : Z) : senv * (Z * Z * bool * bool * Z) :=
  let '(sc, c) := e in
  let '(c', st) := env_step sc c in
  ((sc, c'), (st_tag st, st_r4 st, st_term st, st_trunc st, st_info st)).
Definition sc_reset (e : senv) (seed : option Z) (opt : option Z) : senv * (Z * Z) :=
  let '(sc, c) := e in
  let '(c', o, i) := env_reset sc c in ((sc, c'), (o, i)).

(* printable forms for the correspondence harness *)
Definition sout_tuple (o : sout Z Z) := (so_obs o, so_rew o, so_done o, so_info o, so_tl o, so_term o).
Inductive pout :=
  | PReset (obs : list Z) (ris : list (option Z)) (calls : list (list (call Z Z)))
  | PStep (outs : list (Z * Z * bool * Z * bool * option Z)) (ris : list (option Z)) (calls : list (list (call Z Z)))
  | PSeed (seeds : list (option Z))
  | PNone.
Definition pout_of (o : voutput Z Z Z Z) : pout :=
  match o with
  | VOReset obs ris cs => PReset obs ris cs
  | VOStep outs ris cs => PStep (map sout_tuple outs) ris cs
  | VOSeed s => PSeed s
  | VONone => PNone
  end.
Definition run_scripted (scs : list script) (ops : list (vop Z Z)) : list pout :=
  map pout_of (vrun sc_step sc_reset (vinit (map (fun sc => (sc, cursor0)) scs)) ops).
