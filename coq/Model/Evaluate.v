(* C18 - model of evaluate_policy's quota loop (evaluation.py).  Definitions only. *)
From Coq Require Import ZArith List Bool.
From SB3V Require Import Model.Script Model.Monitor.
Import ListNotations.
Local Open Scope Z_scope.

(* ---- quotas ---- *)
Definition quota (n : Z) (i : Z) (k : Z) : Z := (n + i) / k.
Definition targets (n : Z) (k : nat) : list Z := map (fun i => quota n (Z.of_nat i) (Z.of_nat k)) (seq 0 k).

(* ---- what one sub-environment delivers at one vector step ---- *)
(* reward, done, and the "episode" entry of info (None when absent) *)
Record cell := mk_cell { c_r : Z; c_done : bool; c_ep : option (Z * Z) }.
Definition cell0 : cell := mk_cell 0 false None.

(* per-env bookkeeping: episode_counts[i], current_rewards[i], current_lengths[i] *)
Record est := mk_e { e_count : Z; e_r : Z; e_l : Z }.
Definition e0 : est := mk_e 0 0 0.

Definition under_quota (count target : Z) : bool := count <? target.

(* one sub-environment at one vector step: new bookkeeping and what is appended to the result lists *)
Definition ev_env_step (mon : bool) (target : Z) (s : est) (c : cell) : est * list (Z * Z) :=
  let r := e_r s + c_r c in
  let l := e_l s + 1 in
  if under_quota (e_count s) target then
    if c_done c then
      if mon then
        match c_ep c with
        | Some ep => (mk_e (e_count s + 1) 0 0, [ep])
        | None => (mk_e (e_count s) 0 0, [])
        end
      else (mk_e (e_count s + 1) 0 0, [(r, l)])
    else (mk_e (e_count s) r l, [])
  else (mk_e (e_count s) r l, []).

(* the vector: `for i in range(n_envs)`; results carry the (ghost) index of the sub-environment *)
Definition ev_vstep (mon : bool) (k : nat) (tg : list Z) (sts : list est) (cells : list cell)
  : list est * list (nat * (Z * Z)) :=
  let f := fun i => ev_env_step mon (nth i tg 0) (nth i sts e0) (nth i cells cell0) in
  (map (fun i => fst (f i)) (seq 0 k), flat_map (fun i => map (pair i) (snd (f i))) (seq 0 k)).

Definition guard (k : nat) (tg : list Z) (sts : list est) : bool :=
  existsb (fun i => under_quota (e_count (nth i sts e0)) (nth i tg 0)) (seq 0 k).

(* all the given vector steps, no stopping *)
Fixpoint ev_all (mon : bool) (k : nat) (tg : list Z) (sts : list est) (steps : list (list cell))
  : list est * list (nat * (Z * Z)) :=
  match steps with
  | [] => (sts, [])
  | v :: rest =>
      let '(sts1, o1) := ev_vstep mon k tg sts v in
      let '(sts2, o2) := ev_all mon k tg sts1 rest in
      (sts2, o1 ++ o2)
  end.

(* the while loop: stops as soon as no sub-environment is under its quota;
   the boolean says whether it stopped by the guard (true) or ran out of given steps (false) *)
Fixpoint ev_loop (mon : bool) (k : nat) (tg : list Z) (sts : list est) (steps : list (list cell))
  : list est * list (nat * (Z * Z)) * bool :=
  if negb (guard k tg sts) then (sts, [], true) else
  match steps with
  | [] => (sts, [], false)
  | v :: rest =>
      let '(sts1, o1) := ev_vstep mon k tg sts v in
      let '(sts2, o2, h) := ev_loop mon k tg sts1 rest in
      (sts2, o1 ++ o2, h)
  end.

Definition ev_init (k : nat) : list est := map (fun _ => e0) (seq 0 k).

Definition evaluate (mon : bool) (n : Z) (k : nat) (steps : list (list cell)) :=
  ev_loop mon k (targets n k) (ev_init k) steps.

(* ---- specification vocabulary ---- *)
Definition column (i : nat) (steps : list (list cell)) : list cell := map (fun v => nth i v cell0) steps.
Definition proj (i : nat) (out : list (nat * (Z * Z))) : list (Z * Z) :=
  map snd (filter (fun x => Nat.eqb (fst x) i) out).

(* completed episodes of one sub-environment: without a monitor, (sum, count) of the rewards between
   episode ends (cr, cl = what was accumulated before the column starts); with a monitor, the
   "episode" entries reported at episode ends *)
Fixpoint episodes_from (mon : bool) (cr cl : Z) (col : list cell) : list (Z * Z) :=
  match col with
  | [] => []
  | c :: t =>
      if c_done c then
        (if mon then match c_ep c with Some ep => [ep] | None => [] end else [(cr + c_r c, cl + 1)])
        ++ episodes_from mon 0 0 t
      else episodes_from mon (cr + c_r c) (cl + 1) t
  end.

(* reward lists of the completed episodes (cur = rewards before the column starts) *)
Fixpoint split_done (cur : list Z) (col : list cell) : list (list Z) :=
  match col with
  | [] => []
  | c :: t => if c_done c then (cur ++ [c_r c]) :: split_done [] t else split_done (cur ++ [c_r c]) t
  end.

(* ---- scripted sub-environments behind DummyVecEnv, optionally monitored (executable) ---- *)
(* mode 0: no monitor; 1: gym Monitor around every sub-environment; 2: VecMonitor around the vector;
   3: Monitor inside a "lives" wrapper (as EpisodicLifeEnv outside Monitor): the wrapper reports terminated=True when a
   life is lost (here: the step's info tag is a multiple of 4) although the episode goes on; the following reset does
   not reset the environment or the Monitor, and the info carries no "episode" entry *)
Record senv := mk_senv { se_cur : cursor; se_mon : mstate; se_acc : vacc }.

Definition senv_reset (sc : script) (e : senv) : senv :=
  let '(c1, _, _) := env_reset sc (se_cur e) in
  mk_senv c1 (fst (mon_op true (se_mon e) MReset)) v0.

Definition senv_init (sc : script) : senv := senv_reset sc (mk_senv cursor0 m0 v0).

Definition senv_step (mode : Z) (sc : script) (e : senv) : senv * cell :=
  let '(c1, st) := env_step sc (se_cur e) in
  let d := st_term st || st_trunc st in
  let '(m1, mo) := mon_op true (se_mon e) (MStep (st_r4 st) (st_term st) (st_trunc st)) in
  let '(a1, vo) := vm_env_step (se_acc e) (st_r4 st) d in
  let ep := if (mode =? 1) || (mode =? 3) then match mo with MInfo x => x | _ => None end
            else if mode =? 2 then vo else None in
  let life := (mode =? 3) && negb d && (st_info st mod 4 =? 0) in
  let e1 := mk_senv c1 m1 a1 in
  (* DummyVecEnv resets the sub-environment at once; VecMonitor's accumulator was already zeroed;
     after a lost life the wrapper swallows the reset *)
  let e2 := if d then let '(c2, _, _) := env_reset sc c1 in mk_senv c2 (fst (mon_op true m1 MReset)) a1 else e1 in
  (e2, mk_cell (st_r4 st) (d || life) ep).

Fixpoint stream (fuel : nat) (mode : Z) (scs : list script) (es : list senv) : list (list cell) :=
  match fuel with
  | O => []
  | S f =>
      let res := map (fun se => senv_step mode (fst se) (snd se)) (combine scs es) in
      map snd res :: stream f mode scs (map fst res)
  end.

Definition evaluate_scripted (fuel : nat) (mode : Z) (n : Z) (scs : list script) :=
  let '(sts, out, halted) := evaluate (negb (mode =? 0)) n (length scs) (stream fuel mode scs (map senv_init scs)) in
  (map snd out, map fst out, halted).

(* ---- Monitor under evaluate_policy: a column is monitor-consistent when its "episode" entries are what a
   (Vec)Monitor-style accumulator reports at the REAL episode ends (real = an entry is present) ---- *)
Fixpoint mon_consistent (a : vacc) (col : list (cell * bool)) : bool :=   (* cell, real end *)
  match col with
  | [] => true
  | (c, real) :: t =>
      let '(a', o) := vm_env_step a (c_r c) real in
      (match c_ep c, o with
       | Some e, Some e' => (fst e =? fst e') && (snd e =? snd e')
       | None, None => true
       | _, _ => false
       end) && (implb real (c_done c)) && mon_consistent a' t
  end.
(* the true episodes: (sum, count) of the rewards between REAL ends, whatever extra "done" flags there are *)
Fixpoint true_episodes (cr cl : Z) (col : list (cell * bool)) : list (Z * Z) :=
  match col with
  | [] => []
  | (c, real) :: t => if real then (cr + c_r c, cl + 1) :: true_episodes 0 0 t else true_episodes (cr + c_r c) (cl + 1) t
  end.
