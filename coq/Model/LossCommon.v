(* C07 - shared definitions of the loss models: per-sample losses are functions of the *network
   outputs on the batch*; a batch loss is (a multiple of) the sum of per-sample terms.
   R side: the published objectives (for the derivative theorems).
   Q side: executable twins used by the correspondence (vm_compute + QUtil.qclose). *)
From Coq Require Import Reals QArith Qminmax Qabs List.
Import ListNotations.
Local Open Scope R_scope.

(* ---------------- R side ---------------- *)
Definition sumR (l : list R) : R := fold_right Rplus 0 l.
Definition meanR (l : list R) : R := sumR l / INR (length l).
Definition clampR (lo hi x : R) : R := Rmin hi (Rmax lo x).      (* th.clamp(x, lo, hi) *)

(* a batch objective: k * sum_i f_i(x_i) with f_i the per-sample term as a function of one output *)
Definition sum_terms (ts : list ((R -> R) * R)) : R := sumR (map (fun t => fst t (snd t)) ts).

(* 1-step TD target  r + (1 - done) * gamma * next_q *)
Definition td_target (r d gamma nq : R) : R := r + (1 - d) * gamma * nq.
Definition sq_err (target q : R) : R := (q - target) ^ 2.                 (* F.mse_loss per sample *)
(* F.smooth_l1_loss, beta = 1, per sample *)
Definition huber (x : R) : R := if Rlt_dec (Rabs x) 1 then x ^ 2 / 2 else Rabs x - 1 / 2.
Definition huber_grad (x : R) : R := clampR (-1) 1 x.

(* th.nn.utils.clip_grad_norm_: every gradient is multiplied by min(1, max_norm / (total_norm + 1e-6)) *)
Definition clip_coef (max_norm total : R) : R := Rmin 1 (max_norm / (total + 1 / 1000000)).

(* ---------------- Q side ---------------- *)
Local Open Scope Q_scope.
Definition qsum (l : list Q) : Q := fold_right (fun x acc => Qred (x + acc)) 0 l.
Definition qlen (l : list Q) : Q := inject_Z (Z.of_nat (length l)).
Definition qmean (l : list Q) : Q := Qred (qsum l / qlen l).
Definition qclamp (lo hi x : Q) : Q := Qmin hi (Qmax lo x).
Definition qlt (a b : Q) : bool := negb (Qle_bool b a).
Fixpoint qmap2 (f : Q -> Q -> Q) (l l' : list Q) : list Q :=
  match l, l' with a :: t, b :: t' => Qred (f a b) :: qmap2 f t t' | _, _ => [] end.
Fixpoint qmap3 (f : Q -> Q -> Q -> Q) (l l' l'' : list Q) : list Q :=
  match l, l', l'' with a :: t, b :: t', c :: t'' => Qred (f a b c) :: qmap3 f t t' t'' | _, _, _ => [] end.
Fixpoint qmap4 (f : Q -> Q -> Q -> Q -> Q) (l1 l2 l3 l4 : list Q) : list Q :=
  match l1, l2, l3, l4 with a :: t1, b :: t2, c :: t3, d :: t4 => Qred (f a b c d) :: qmap4 f t1 t2 t3 t4 | _, _, _, _ => [] end.
Definition qmax_list (l : list Q) : Q := match l with [] => 0 | x :: t => fold_right Qmax x t end.
Definition qmin_list (l : list Q) : Q := match l with [] => 0 | x :: t => fold_right Qmin x t end.

Definition td_target_Q (r d gamma nq : Q) : Q := r + (1 - d) * gamma * nq.
Definition huber_Q (x : Q) : Q := if qlt (Qabs x) 1 then x * x / 2 else Qabs x - (1 # 2).
Definition huber_grad_Q (x : Q) : Q := qclamp (-(1)) 1 x.
Definition clip_coef_Q (max_norm total : Q) : Q := Qmin 1 (max_norm / (total + (1 # 1000000))).
(* advantage normalisation  (A - mean) / (std + 1e-8); std (unbiased, a square root) is an input *)
Definition adv_norm_Q (advs : list Q) (std : Q) : list Q :=
  let m := qmean advs in map (fun a => Qred ((a - m) / (std + (1 # 100000000)))) advs.
Definition adv_var_Q (advs : list Q) : Q :=
  let m := qmean advs in Qred (qsum (map (fun a => (a - m) * (a - m)) advs) / (qlen advs - 1)).
(* learning-rate application: every param group gets schedule(progress_remaining); the harness uses
   constant and linear schedules  lr0 * progress,  progress = max(0, 1 - num_timesteps / total) *)
Definition progress_Q (num_timesteps total : Q) : Q := Qmax 0 (1 - num_timesteps / total).
Definition lr_Q (linear : bool) (lr0 num_timesteps total : Q) : Q :=
  if linear then lr0 * progress_Q num_timesteps total else lr0.
(* clipping applied to one gradient entry *)
Definition clipped_Q (max_norm total g : Q) : Q := clip_coef_Q max_norm total * g.
(* BaseAlgorithm._update_learning_rate + utils.update_learning_rate: every param group of every
   optimizer gets schedule(progress_remaining) *)
Definition apply_lr (sched : Q -> Q) (progress : Q) (optimizers : list (list Q)) : list (list Q) :=
  map (map (fun _ => sched progress)) optimizers.
