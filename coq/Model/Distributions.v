(* C14 - model of stable_baselines3/common/distributions.py over the reals.
   Definitions only (no proofs).  A tensor row is a [list R]; a batch is a list of rows.
   Every definition mirrors one expression of the source (quoted next to it); torch's
   Normal / Categorical / Bernoulli base formulas are written out as torch computes them
   (torch/distributions/normal.py, categorical.py, bernoulli.py) and are tied to the
   implementation by the Interval-checked correspondence, not by proof. *)
From Coq Require Import Reals List.
Import ListNotations.
Local Open Scope R_scope.

Definition sumR (l : list R) : R := fold_right Rplus 0 l.

Fixpoint map2 {A B C : Type} (f : A -> B -> C) (l : list A) (l' : list B) : list C :=
  match l, l' with
  | a :: t, b :: t' => f a b :: map2 f t t'
  | _, _ => []
  end.

(* ---- sum_independent_dims:  if len(tensor.shape) > 1: sum(dim=1) else: sum() ---- *)
Inductive tensor : Type :=
| T1 (v : list R)               (* shape (n_batch,)           *)
| T2 (rows : list (list R)).    (* shape (n_batch, n_actions) *)

Definition tensor_rank (t : tensor) : Z := match t with T1 _ => 1%Z | T2 _ => 2%Z end.

Definition sum_independent_dims (t : tensor) : list R :=
  match t with
  | T2 rows => map sumR rows
  | T1 v => [sumR v]
  end.

(* ---- torch Normal ---- *)
(* log_prob: -((value - loc) ** 2) / (2 * var) - log_scale - log(sqrt(2 * pi)) *)
Definition normal_logpdf (mu sigma x : R) : R :=
  - ((x - mu) ^ 2) / (2 * sigma ^ 2) - ln sigma - ln (sqrt (2 * PI)).
(* entropy: 0.5 + 0.5 * log(2 * pi) + log(scale) *)
Definition normal_entropy (sigma : R) : R := 1 / 2 + 1 / 2 * ln (2 * PI) + ln sigma.
Definition normal_pdf (mu sigma x : R) : R := exp (normal_logpdf mu sigma x).

(* ---- DiagGaussianDistribution: a row of parameters is a list of (mean, log_std);
        action_std = ones_like(mean_actions) * log_std.exp() ---- *)
Definition gparams := list (R * R).
Definition gauss_logpdfs (p : gparams) (xs : list R) : list R :=
  map2 (fun ml x => normal_logpdf (fst ml) (exp (snd ml)) x) p xs.
Definition gauss_logprob (p : gparams) (xs : list R) : R := sumR (gauss_logpdfs p xs).
Definition gauss_entropy (p : gparams) : R := sumR (map (fun ml => normal_entropy (exp (snd ml))) p).
Definition gauss_mode (p : gparams) : list R := map fst p.
(* reparametrised sample:  loc + eps * scale *)
Definition gauss_rsample (p : gparams) (noise : list R) : list R :=
  map2 (fun ml e => fst ml + e * exp (snd ml)) p noise.

(* ---- TanhBijector ---- *)
(* atanh: 0.5 * (x.log1p() - (-x).log1p()) *)
Definition artanh (y : R) : R := (ln (1 + y) - ln (1 - y)) / 2.
(* torch clamp(min=lo, max=hi) *)
Definition clamp (lo hi x : R) : R := Rmin hi (Rmax lo x).
(* inverse: atanh(y.clamp(min=-1.0 + eps, max=1.0 - eps)), eps = finfo(dtype).eps *)
Definition tanh_inverse (feps y : R) : R := artanh (clamp (-1 + feps) (1 - feps) y).
(* log_prob_correction: log(1.0 - tanh(x) ** 2 + epsilon) *)
Definition bijector_correction (eps x : R) : R := ln (1 - (tanh x) ^ 2 + eps).

(* ---- SquashedDiagGaussianDistribution ---- *)
(* log(1 - actions**2 + self.epsilon) *)
Definition squash_correction (eps a : R) : R := ln (1 - a ^ 2 + eps).
(* log_prob(actions, gaussian_actions) *)
Definition squashed_logprob_g (eps : R) (p : gparams) (acts gacts : list R) : R :=
  gauss_logprob p gacts - sumR (map (squash_correction eps) acts).
(* log_prob(actions): gaussian_actions = TanhBijector.inverse(actions) *)
Definition squashed_logprob (feps eps : R) (p : gparams) (acts : list R) : R :=
  squashed_logprob_g eps p acts (map (tanh_inverse feps) acts).
Definition squashed_mode (p : gparams) : list R := map tanh (gauss_mode p).
Definition squashed_sample (p : gparams) (noise : list R) : list R := map tanh (gauss_rsample p noise).
(* the exact density of a = tanh(u), u ~ N(mu, sigma), in action space *)
Definition squashed_pdf (mu sigma a : R) : R := normal_pdf mu sigma (artanh a) / (1 - a ^ 2).

(* ---- torch Categorical(logits): logits - logsumexp ---- *)
Definition lse (l : list R) : R := ln (sumR (map exp l)).
Definition cat_logprob (l : list R) (k : nat) : R := nth k l 0 - lse l.
Definition softmax (l : list R) : list R := map (fun x => exp (x - lse l)) l.
(* entropy: -(logits * probs).sum(-1) on the normalised logits *)
Definition cat_entropy (l : list R) : R := - sumR (map (fun x => exp (x - lse l) * (x - lse l)) l).
(* m is an index of a maximal entry (what th.argmax returns; ties: any) *)
Definition max_at (l : list R) (m : nat) : Prop :=
  (m < length l)%nat /\ fold_right (fun x acc => x <= nth m l 0 /\ acc) True l.
Fixpoint argmax_from (l : list R) (i best : nat) (bv : R) : nat :=
  match l with
  | [] => best
  | x :: t => if Rlt_dec bv x then argmax_from t (S i) i x else argmax_from t (S i) best bv
  end.
Definition argmax (l : list R) : nat :=
  match l with [] => 0%nat | x :: t => argmax_from t 1 0 x end.

(* ---- MultiCategoricalDistribution: th.split(action_logits, action_dims, dim=1) ---- *)
Fixpoint split_logits (sizes : list nat) (flat : list R) : list (list R) :=
  match sizes with
  | [] => []
  | n :: t => firstn n flat :: split_logits t (skipn n flat)
  end.
Definition multicat_logprob (dims : list (list R)) (a : list nat) : R := sumR (map2 cat_logprob dims a).
Definition multicat_entropy (dims : list (list R)) : R := sumR (map cat_entropy dims).
Definition multicat_mode (dims : list (list R)) : list nat := map argmax dims.
(* the whole product action space *)
Fixpoint all_actions (dims : list (list R)) : list (list nat) :=
  match dims with
  | [] => [[]]
  | d :: t => flat_map (fun k => map (cons k) (all_actions t)) (seq 0 (length d))
  end.

(* ---- torch Bernoulli(logits) ---- *)
Definition sigmoid (l : R) : R := 1 / (1 + exp (- l)).
(* log_prob = -binary_cross_entropy_with_logits(logits, value) *)
Definition bern_logprob (l : R) (b : bool) : R :=
  if b then - ln (1 + exp (- l)) else - ln (1 + exp l).
Definition bern_entropy1 (l : R) : R :=
  - (exp (bern_logprob l true) * bern_logprob l true + exp (bern_logprob l false) * bern_logprob l false).
Definition bernoulli_logprob (ls : list R) (bs : list bool) : R := sumR (map2 bern_logprob ls bs).
Definition bernoulli_entropy (ls : list R) : R := sumR (map bern_entropy1 ls).
(* mode: th.round(probs)  (round-half-even: 0.5 -> 0) *)
Definition bern_mode1 (l : R) : bool := if Rlt_dec (1 / 2) (sigmoid l) then true else false.
Definition bernoulli_mode (ls : list R) : list bool := map bern_mode1 ls.
Fixpoint all_bits (n : nat) : list (list bool) :=
  match n with
  | O => [[]]
  | S k => map (cons true) (all_bits k) ++ map (cons false) (all_bits k)
  end.

(* ---- StateDependentNoiseDistribution ---- *)
(* get_std with use_expln:
     below_threshold = exp(log_std) * (log_std <= 0)
     safe_log_std = log_std * (log_std > 0) + epsilon
     above_threshold = (log1p(safe_log_std) + 1.0) * (log_std > 0)
   with the two transcendental values abstracted (e = exp(log_std), l1p = log1p(safe_log_std)) *)
Definition expln_gen (ls e l1p : R) : R :=
  e * (if Rle_dec ls 0 then 1 else 0) + (l1p + 1) * (if Rlt_dec 0 ls then 1 else 0).
Definition expln_safe (eps ls : R) : R := ls * (if Rlt_dec 0 ls then 1 else 0) + eps.
Definition expln (eps ls : R) : R := expln_gen ls (exp ls) (ln (1 + expln_safe eps ls)).
Definition gsde_get_std (use_expln : bool) (eps ls : R) : R := if use_expln then expln eps ls else exp ls.
(* variance = mm(latent_sde ** 2, std ** 2): one output column *)
Definition gsde_variance (x stdcol : list R) : R := sumR (map2 (fun xi s => xi ^ 2 * s ^ 2) x stdcol).
(* Normal(mean_actions, sqrt(variance + epsilon)) *)
Definition gsde_std (eps : R) (x stdcol : list R) : R := sqrt (gsde_variance x stdcol + eps).
(* one batch row: means, one std column per action dimension *)
Definition gsde_logpdfs (eps : R) (x : list R) (means : list R) (stdcols : list (list R)) (g : list R) : list R :=
  map2 (fun ms gi => normal_logpdf (fst ms) (gsde_std eps x (snd ms)) gi) (combine means stdcols) g.
Definition gsde_logprob (eps : R) (x means : list R) (stdcols : list (list R)) (acts : list R) : R :=
  sumR (gsde_logpdfs eps x means stdcols acts).
Definition gsde_logprob_squashed (feps eps : R) (x means : list R) (stdcols : list (list R)) (acts : list R) : R :=
  let g := map (tanh_inverse feps) acts in
  sumR (gsde_logpdfs eps x means stdcols g) - sumR (map (bijector_correction eps) g).
Definition gsde_entropy (eps : R) (x : list R) (stdcols : list (list R)) : R :=
  sumR (map (fun c => normal_entropy (gsde_std eps x c)) stdcols).
(* noise = mm(latent_sde, exploration_mat): one output column *)
Definition dot (x w : list R) : R := sumR (map2 Rmult x w).
Definition gsde_sample (x means : list R) (wcols : list (list R)) : list R :=
  map2 (fun m w => m + dot x w) means wcols.
