(* Counter machines deciding WHEN the target networks are updated (DQN._on_step, SAC.train,
   TD3.train; DDPG = TD3 with policy_delay 1).  Definitions only. *)
From Coq Require Import ZArith List Bool.
Import ListNotations.
Local Open Scope Z_scope.

(* DQN: once per vectorised env step: _n_calls += 1; update iff _n_calls % max(tui // n_envs, 1) == 0 *)
Definition dqn_period (tui n_envs : Z) : Z := Z.max (tui / n_envs) 1.
Fixpoint dqn_steps (m n_calls : Z) (k : nat) : list bool :=
  match k with
  | O => []
  | S k' => let c := n_calls + 1 in (c mod m =? 0) :: dqn_steps m c k'
  end.

(* TD3 / DDPG: per gradient step: _n_updates += 1; update iff _n_updates % policy_delay == 0;
   the counter lives across train() calls *)
Fixpoint td3_train (delay n_updates : Z) (g : nat) : list bool * Z :=
  match g with
  | O => ([], n_updates)
  | S g' => let c := n_updates + 1 in
            let '(fl, c') := td3_train delay c g' in ((c mod delay =? 0) :: fl, c')
  end.
Fixpoint td3_calls (delay n_updates : Z) (gs : list nat) : list bool :=
  match gs with
  | [] => []
  | g :: rest => let '(fl, c) := td3_train delay n_updates g in fl ++ td3_calls delay c rest
  end.

(* SAC: for gradient_step in range(gradient_steps): update iff gradient_step % tui == 0;
   the loop variable restarts in every train() call *)
Definition sac_train (tui : Z) (g : nat) : list bool :=
  map (fun j => Z.of_nat j mod tui =? 0) (seq 0 g).
Definition sac_calls (tui : Z) (gs : list nat) : list bool := flat_map (sac_train tui) gs.

Definition count_true (l : list bool) : Z := Z.of_nat (length (filter (fun b => b) l)).

(* what "every tui gradient steps" means for a run seen as one sequence of gradient steps
   (first update at the first gradient step, like SAC's loop does inside one call) *)
Definition every_k_global (k : Z) (total : nat) : list bool :=
  map (fun j => Z.of_nat j mod k =? 0) (seq 0 total).
