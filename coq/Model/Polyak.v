(* Model of polyak_update (stable_baselines3/common/utils.py) over Q, and of the two kinds of
   events that may touch the (online, target) parameter pair.  Definitions only. *)
From Coq Require Import List QArith.
Import ListNotations.
Local Open Scope Q_scope.

(* target_param.data.mul_(1 - tau); th.add(target_param.data, param.data, alpha=tau, out=target_param.data) *)
Definition polyak (tau p t : Q) : Q := t * (1 - tau) + tau * p.

(* zip_strict: a length mismatch raises (None) *)
Fixpoint polyak_list (tau : Q) (ps ts : list Q) : option (list Q) :=
  match ps, ts with
  | [], [] => Some []
  | p :: ps', t :: ts' =>
      match polyak_list tau ps' ts' with
      | Some r => Some (Qred (polyak tau p t) :: r)
      | None => None
      end
  | _, _ => None
  end.

(* a training run as far as the (online, target) pair is concerned: optimizer steps replace the
   online parameters by anything; target updates apply polyak with the online parameters of that
   moment; nothing else writes *)
Inductive event := OptStep (new_online : list Q) | Update (tau : Q).
Definition pair_step (s : list Q * list Q) (e : event) : list Q * list Q :=
  match e with
  | OptStep o => (o, snd s)
  | Update tau => (fst s, match polyak_list tau (fst s) (snd s) with Some t => t | None => snd s end)
  end.
Definition pair_run (s : list Q * list Q) (es : list event) := fold_left pair_step es s.
