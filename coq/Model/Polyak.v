(* Model of polyak_update (stable_baselines3/common/utils.py) over Q, and of the two kinds of
   events that may touch the (online, target) parameter pair.  Definitions only. *)
From Coq Require Import List QArith.
Import ListNotations.
Local Open Scope Q_scope.

(* target_param.data.mul_(1 - tau); th.add(target_param.data, param.data, alpha=tau, out=target_param.data) *)
Definition polyak (tau p t : Q) : Q := t * (1 - tau) + tau * p.

(* zip_strict: a length mismatch raises (None) *)
Fixpoint polyak_list (tau : Q) (ps ts : list Q) : option (list Q) :=
  match ps, ts with
  | [], [] => Some []
  | p :: ps', t :: ts' =>
      match polyak_list tau ps' ts' with
      | Some r => Some (Qred (polyak tau p t) :: r)
      | None => None
      end
  | _, _ => None
  end.

(* a training run as far as the (online, target) pair is concerned: optimizer steps replace the
   online parameters by anything; target updates apply polyak with the online parameters of that
   moment; nothing else writes *)
Inductive event := OptStep (new_online : list Q) | Update (tau : Q).
Definition pair_step (s : list Q * list Q) (e : event) : list Q * list Q :=
  match e with
  | OptStep o => (o, snd s)
  | Update tau => (fst s, match polyak_list tau (fst s) (snd s) with Some t => t | None => snd s end)
  end.
Definition pair_run (s : list Q * list Q) (es : list event) := fold_left pair_step es s.

(* online / target parameters and normalisation running statistics of one network pair *)
Record nets := mkN { on_params : list Q; on_stats : list Q; tg_params : list Q; tg_stats : list Q }.

Definition polyak_or_keep (tau : Q) (ps ts : list Q) : list Q :=
  match polyak_list tau ps ts with Some r => r | None => ts end.

(* the two polyak_update calls made at an update instant: parameters with ptau, running statistics with stau *)
Definition target_update (ptau stau : Q) (s : nets) : nets :=
  mkN (on_params s) (on_stats s) (polyak_or_keep ptau (on_params s) (tg_params s)) (polyak_or_keep stau (on_stats s) (tg_stats s)).

(* one unit of the cadence (a vectorised env step for DQN, a gradient step otherwise): training may have
   replaced the online parameters and running statistics by anything; then, iff the cadence flag is set,
   the target update happens *)
Definition unit_step (ptau stau : Q) (s : nets) (u : list Q * list Q * bool) : nets :=
  let '(np, ns, fl) := u in
  let s1 := mkN np ns (tg_params s) (tg_stats s) in
  if fl then target_update ptau stau s1 else s1.
Definition units_run (ptau stau : Q) (s : nets) (us : list (list Q * list Q * bool)) : nets :=
  fold_left (unit_step ptau stau) us s.
