(* Model of the callback event protocol (stable_baselines3/common/callbacks.py) and of the event
   emission points of OnPolicyAlgorithm / OffPolicyAlgorithm .learn / .collect_rollouts.
   Definitions only; proofs are in Proofs/CallbacksProofs.v.

   A callback tree carries its own mutable state (n_calls, num_timesteps, locals stamp, ...),
   so "dispatching an event" maps a tree to the updated tree and the boolean the call returned.
   Recorder leaves keep the log of what they saw; the harness places real recording callbacks
   at the same positions and compares logs. *)
From Coq Require Import ZArith List Bool.
Import ListNotations.
Local Open Scope Z_scope.

(* events the algorithm delivers to the ROOT callback *)
Inductive event :=
| TS (nt : Z)                 (* on_training_start; nt = model.num_timesteps at that moment *)
| RS                          (* on_rollout_start *)
| UL (stamp : Z) (ndones : Z) (* update_locals(locals()) right after env.step number [stamp]; ndones = sum(dones) *)
| Step (nt : Z)               (* on_step; nt = model.num_timesteps *)
| RE                          (* on_rollout_end *)
| TE.                         (* on_training_end *)

(* state every BaseCallback has: n_calls, num_timesteps, and what its [locals] describe:
   None = no step data (fresh dict), Some (stamp, ndones) = env step number [stamp] *)
Record base := mkB { b_calls : Z; b_nt : Z; b_loc : option (Z * Z) }.
Definition base0 : base := mkB 0 0 None.

(* what a recorder writes per event: kind (0 TS, 1 RS, 2 Step, 3 RE, 4 TE), n_calls,
   num_timesteps, stamp of its locals (-1 if they hold no step) *)
Record entry := mkE { e_kind : Z; e_calls : Z; e_nt : Z; e_stamp : Z }.

Inductive cb :=
| Nop                                                   (* callback=None / ConvertCallback(None) *)
| Rec (b : base) (stop_at : Z) (log : list entry)       (* recorder; _on_step returns n_calls <> stop_at.  The model's boolean is the
                                                           TRUTHINESS of the returned Python value (False, np.bool_(False), th.tensor(False)
                                                           all ask to stop): `x and y` / `if not x` only look at truthiness *)
| CList (b : base) (l : list cb)                        (* CallbackList *)
| EveryN (b : base) (n last : Z) (fired : list Z) (c : cb)   (* EveryNTimesteps; [fired] is a ghost log of trigger times *)
| EvalC (b : base) (freq : Z) (best : option Z) (evals : list Z) (done_at : list (Z * Z))
       (on_best after : cb)                             (* EvalCallback; [evals] = oracle mean rewards still to come;
                                                           [done_at] = ghost log (n_calls, num_timesteps) of evaluations *)
| Checkpoint (b : base) (freq : Z) (saved : list (Z * Z))   (* CheckpointCallback; ghost log (n_calls, num_timesteps) of saves *)
| MaxEp (b : base) (total neps : Z)                     (* StopTrainingOnMaxEpisodes; total = max_episodes * n_envs *)
| Conv (b : base) (stop_at : Z) (log : list entry)      (* ConvertCallback(function): the function sees every step; returns n_calls <> stop_at *)
| Thresh (b : base) (thr : Z)                           (* StopTrainingOnRewardThreshold *)
| NoImp (b : base) (max_no min_evals : Z) (last_best : option Z) (no_imp : Z).
                                                        (* StopTrainingOnNoModelImprovement *)

Definition stamp_of (b : base) : Z := match b_loc b with Some (s, _) => s | None => -1 end.
Definition ndones_of (b : base) : Z := match b_loc b with Some (_, d) => d | None => 0 end.

(* BaseCallback.on_training_start / update_locals / on_step on the common state *)
Definition base_ts (nt : Z) (b : base) : base := mkB (b_calls b) nt None.
Definition base_ul (s d : Z) (b : base) : base := mkB (b_calls b) (b_nt b) (Some (s, d)).
Definition base_step (nt : Z) (b : base) : base := mkB (b_calls b + 1) nt (b_loc b).

Definition log_entry (k : Z) (b : base) : entry := mkE k (b_calls b) (b_nt b) (stamp_of b).

Definition better (mean : Z) (best : option Z) : bool :=
  match best with None => true | Some b => b <? mean end.   (* best_mean_reward starts at -inf *)

(* comparisons with -inf = None *)
Definition gt_opt (a b : option Z) : bool :=
  match a, b with Some x, Some y => y <? x | Some _, None => true | None, _ => false end.
Definition lt_thr (pb : option Z) (thr : Z) : bool := match pb with None => true | Some v => v <? thr end.

Definition everyn_fires (nt last n : Z) : bool := n <=? nt - last.
Definition checkpoint_fires (calls freq : Z) : bool := calls mod freq =? 0.
Definition eval_fires (calls freq : Z) : bool := (0 <? freq) && (calls mod freq =? 0).

(* dispatchp pb e c = (c after the call, value returned)  -  non-step events return true.
   pb = self.parent.best_mean_reward as the node would read it (None = -inf): the children of an EvalCallback have it as parent,
   a CallbackList hands its own parent to its children, EveryNTimesteps is the parent of its own child (no such attribute:
   StopTrainingOnRewardThreshold / NoModelImprovement below it are not supported, there the model passes the value through). *)
Fixpoint dispatchp (pb : option Z) (e : event) (c : cb) {struct c} : cb * bool :=
  match c with
  | Nop => (Nop, true)
  | Rec b stop log =>
      match e with
      | TS nt => let b' := base_ts nt b in (Rec b' stop (log ++ [log_entry 0 b']), true)
      | RS => (Rec b stop (log ++ [log_entry 1 b]), true)
      | UL s d => (Rec (base_ul s d b) stop log, true)
      | Step nt => let b' := base_step nt b in
                   (Rec b' stop (log ++ [log_entry 2 b']), negb (b_calls b' =? stop))
      | RE => (Rec b stop (log ++ [log_entry 3 b]), true)
      | TE => (Rec b stop (log ++ [log_entry 4 b]), true)
      end
  | CList b l =>
      let fix go (l : list cb) : list cb * bool :=
        match l with
        | [] => ([], true)
        | x :: r => let xr := dispatchp pb e x in let rr := go r in (fst xr :: fst rr, snd xr && snd rr)
        end in
      let lr := go l in
      match e with
      | TS nt => (CList (base_ts nt b) (fst lr), true)
      | UL s d => (CList (base_ul s d b) (fst lr), true)
      | Step nt => (CList (base_step nt b) (fst lr), snd lr)
      | _ => (CList b (fst lr), true)
      end
  | EveryN b n last fired ch =>
      match e with
      | TS nt => (EveryN (base_ts nt b) n last fired (fst (dispatchp pb e ch)), true)
      | UL s d => (EveryN (base_ul s d b) n last fired (fst (dispatchp pb e ch)), true)
      | Step nt =>
          let b' := base_step nt b in
          if everyn_fires nt last n then
            let cr := dispatchp pb e ch in (EveryN b' n nt (fired ++ [nt]) (fst cr), snd cr)
          else (EveryN b' n last fired ch, true)
      | _ => (c, true)            (* rollout start/end, training end are NOT forwarded by EventCallback *)
      end
  | EvalC b freq best evals done_at ob af =>
      match e with
      | TS nt => (EvalC (base_ts nt b) freq best evals done_at ob (fst (dispatchp pb e af)), true)
      | UL s d => (EvalC (base_ul s d b) freq best evals done_at ob (fst (dispatchp pb e af)), true)
      | Step nt =>
          let b' := base_step nt b in
          if eval_fires (b_calls b') freq then
            let mean := hd 0 evals in
            let done' := done_at ++ [(b_calls b', nt)] in
            if better mean best then
              let obr := dispatchp (Some mean) e ob in
              if snd obr then
                let afr := dispatchp (Some mean) e af in
                (EvalC b' freq (Some mean) (tl evals) done' (fst obr) (fst afr), snd afr)
              else (EvalC b' freq (Some mean) (tl evals) done' (fst obr) af, false)
            else
              let afr := dispatchp best e af in
              (EvalC b' freq best (tl evals) done' ob (fst afr), snd afr)
          else (EvalC b' freq best evals done_at ob af, true)
      | _ => (c, true)
      end
  | Checkpoint b freq saved =>
      match e with
      | TS nt => (Checkpoint (base_ts nt b) freq saved, true)
      | UL s d => (Checkpoint (base_ul s d b) freq saved, true)
      | Step nt =>
          let b' := base_step nt b in
          (Checkpoint b' freq (if checkpoint_fires (b_calls b') freq then saved ++ [(b_calls b', nt)] else saved), true)
      | _ => (c, true)
      end
  | MaxEp b total neps =>
      match e with
      | TS nt => (MaxEp (base_ts nt b) total neps, true)
      | UL s d => (MaxEp (base_ul s d b) total neps, true)
      | Step nt =>
          let b' := base_step nt b in
          let neps' := neps + ndones_of b in
          (MaxEp b' total neps', neps' <? total)
      | _ => (c, true)
      end
  | Conv b stop log =>
      match e with
      | TS nt => (Conv (base_ts nt b) stop log, true)
      | UL s d => (Conv (base_ul s d b) stop log, true)
      | Step nt => let b' := base_step nt b in
                   (Conv b' stop (log ++ [log_entry 2 b']), negb (b_calls b' =? stop))
      | _ => (c, true)
      end
  | Thresh b thr =>
      match e with
      | TS nt => (Thresh (base_ts nt b) thr, true)
      | UL s d => (Thresh (base_ul s d b) thr, true)
      | Step nt => (Thresh (base_step nt b) thr, lt_thr pb thr)
      | _ => (c, true)
      end
  | NoImp b mx me lb ni =>
      match e with
      | TS nt => (NoImp (base_ts nt b) mx me lb ni, true)
      | UL s d => (NoImp (base_ul s d b) mx me lb ni, true)
      | Step nt =>
          let b' := base_step nt b in
          if me <? b_calls b' then
            if gt_opt pb lb then (NoImp b' mx me pb 0, true)
            else (NoImp b' mx me pb (ni + 1), negb (mx <? ni + 1))
          else (NoImp b' mx me pb ni, true)
      | _ => (c, true)
      end
  end.

(* the algorithm calls the root: no parent *)
Notation dispatch := (dispatchp None).

(* delivering a sequence of events *)
Definition run (evs : list event) (c : cb) : cb := fold_left (fun c e => fst (dispatch e c)) evs c.

(* ------------------------------------------------------------------ the learn() driver *)

Inductive rkind :=
| OnPol (n_steps : Z)      (* PPO / A2C: while n_steps < n_rollout_steps *)
| OffStep (f : Z)          (* off-policy, train_freq = (f, "step") *)
| OffEpis (f : Z).         (* off-policy, train_freq = (f, "episode") *)

Definition more (k : rkind) (steps episodes : Z) : bool :=
  match k with
  | OnPol n => steps <? n
  | OffStep f => steps <? f
  | OffEpis f => episodes <? f
  end.

(* driver state: model.num_timesteps, the callback tree, number of env.step calls so far,
   the remaining oracle stream "number of sub-envs done at the next env.step", and a flag
   that is set when a loop ran out of fuel (the harness checks that it stays false) *)
Record dst := mkD { d_nt : Z; d_cb : cb; d_stamp : Z; d_dones : list Z; d_exh : bool }.

(* one rollout after on_rollout_start: returns (state, continue_training, events delivered with results) *)
Fixpoint rollout (fuel : nat) (ne : Z) (k : rkind) (steps eps : Z) (s : dst) : dst * bool * list (event * bool) :=
  if more k steps eps then
    match fuel with
    | O => (mkD (d_nt s) (fst (dispatch RE (d_cb s))) (d_stamp s) (d_dones s) true, true, [(RE, true)])
    | S f =>
        let nd := hd 0 (d_dones s) in
        let st := d_stamp s + 1 in          (* env.step *)
        let nt := d_nt s + ne in            (* self.num_timesteps += env.num_envs *)
        let c1 := fst (dispatch (UL st nd) (d_cb s)) in
        let r := dispatch (Step nt) c1 in
        let s' := mkD nt (fst r) st (tl (d_dones s)) (d_exh s) in
        if snd r then
          let '(s'', cont, tr) := rollout f ne k (steps + 1) (eps + nd) s' in
          (s'', cont, (UL st nd, true) :: (Step nt, true) :: tr)
        else (s', false, [(UL st nd, true); (Step nt, false)])
    end
  else (mkD (d_nt s) (fst (dispatch RE (d_cb s))) (d_stamp s) (d_dones s) (d_exh s), true, [(RE, true)]).

Fixpoint learn_loop (fuel rf : nat) (ne : Z) (k : rkind) (total : Z) (s : dst) : dst * list (event * bool) :=
  if d_nt s <? total then
    match fuel with
    | O => (mkD (d_nt s) (d_cb s) (d_stamp s) (d_dones s) true, [])
    | S f =>
        let s1 := mkD (d_nt s) (fst (dispatch RS (d_cb s))) (d_stamp s) (d_dones s) (d_exh s) in
        let '(s2, cont, tr) := rollout rf ne k 0 0 s1 in
        if cont then let '(s3, tr') := learn_loop f rf ne k total s2 in (s3, (RS, true) :: tr ++ tr')
        else (s2, (RS, true) :: tr)
    end
  else (s, []).

(* _setup_learn counters *)
Definition setup (reset : bool) (nt total : Z) : Z * Z := if reset then (0, total) else (nt, total + nt).

Definition learn (fuel rf : nat) (ne : Z) (k : rkind) (total : Z) (reset : bool) (dones : list Z) (s : dst)
  : dst * list (event * bool) :=
  let '(nt0, total') := setup reset (d_nt s) total in
  let s0 := mkD nt0 (fst (dispatch (TS nt0) (d_cb s))) (d_stamp s) dones (d_exh s) in
  let '(s1, tr) := learn_loop fuel rf ne k total' s0 in
  (mkD (d_nt s1) (fst (dispatch TE (d_cb s1))) (d_stamp s1) (d_dones s1) (d_exh s1), (TS nt0, true) :: tr ++ [(TE, true)]).

(* several learn() calls on the same model with the same callback tree *)
Record call := mkCall { c_total : Z; c_reset : bool; c_dones : list Z }.

Fixpoint learns (fuel rf : nat) (ne : Z) (k : rkind) (calls : list call) (s : dst) : dst * list (list (event * bool)) :=
  match calls with
  | [] => (s, [])
  | c :: r =>
      let '(s1, tr) := learn fuel rf ne k (c_total c) (c_reset c) (c_dones c) s in
      let '(s2, trs) := learns fuel rf ne k r s1 in
      (s2, tr :: trs)
  end.

Definition init_dst (c : cb) : dst := mkD 0 c 0 [] false.

(* ------------------------------------------------------------------ observation functions *)

(* pre-order list of every node's observable state:
   (n_calls, num_timesteps, recorder log or ghost log as (kind, calls, nt, stamp)) *)
Definition pairs_to_entries (k : Z) (l : list (Z * Z)) : list entry := map (fun p => mkE k (fst p) (snd p) 0) l.

Fixpoint observe (c : cb) : list (Z * Z * Z * list entry) :=
  match c with
  | Nop => []
  | Rec b _ log => [(0, b_calls b, b_nt b, log)]
  | CList b l => (1, b_calls b, b_nt b, []) :: flat_map observe l
  | EveryN b _ last fired ch => (2, b_calls b, b_nt b, mkE 5 0 last 0 :: map (fun nt => mkE 5 0 nt 0) fired) :: observe ch
  | EvalC b _ best _ done_at ob af =>
      (3, b_calls b, b_nt b,
       match best with Some m => mkE 6 0 m 1 | None => mkE 6 0 0 0 end :: pairs_to_entries 6 done_at) :: observe ob ++ observe af
  | Checkpoint b _ saved => [(4, b_calls b, b_nt b, pairs_to_entries 7 saved)]
  | MaxEp b _ neps => [(5, b_calls b, b_nt b, [mkE 8 0 0 neps])]
  | Conv b _ log => [(6, b_calls b, b_nt b, log)]
  | Thresh b _ => [(7, b_calls b, b_nt b, [])]
  | NoImp b _ _ lb ni => [(8, b_calls b, b_nt b, [match lb with Some v => mkE 12 1 v ni | None => mkE 12 0 0 ni end])]
  end.

Definition show_entry (e : entry) : Z * Z * Z * Z := (e_kind e, e_calls e, e_nt e, e_stamp e).
Definition show (c : cb) : list (Z * Z * Z * list (Z * Z * Z * Z)) :=
  map (fun x => match x with (k, a, b, l) => (k, a, b, map show_entry l) end) (observe c).

Definition ev_code (e : event * bool) : Z * Z * Z * bool :=
  match fst e with
  | TS nt => (0, nt, 0, snd e) | RS => (1, 0, 0, snd e) | UL s d => (9, s, d, snd e)
  | Step nt => (2, nt, 0, snd e) | RE => (3, 0, 0, snd e) | TE => (4, 0, 0, snd e)
  end.

(* correspondence entry point *)
Definition run_case (ne : Z) (k : rkind) (calls : list call) (c : cb)
  : list (list (Z * Z * Z * bool)) * list (Z * Z * Z * list (Z * Z * Z * Z)) * (Z * Z * bool) :=
  let '(s, trs) := learns 400 400 ne k calls (init_dst c) in
  (map (map ev_code) trs, show (d_cb s), (d_nt s, d_stamp s, d_exh s)).

(* fresh nodes, as constructed by the harness *)
Definition rec_ (stop : Z) : cb := Rec base0 stop [].
Definition clist (l : list cb) : cb := CList base0 l.
Definition everyn (n : Z) (c : cb) : cb := EveryN base0 n 0 [] c.
Definition eval_ (freq : Z) (evals : list Z) (ob af : cb) : cb := EvalC base0 freq None evals [] ob af.
Definition checkpoint (freq : Z) : cb := Checkpoint base0 freq [].
Definition maxep (m ne : Z) : cb := MaxEp base0 (m * ne) 0.
Definition conv (stop : Z) : cb := Conv base0 stop [].
Definition thresh (thr : Z) : cb := Thresh base0 thr.
Definition noimp (mx me : Z) : cb := NoImp base0 mx me None 0.
