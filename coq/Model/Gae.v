(* Model of RolloutBuffer.compute_returns_and_advantage (buffers.py).
   Definitions only; proofs are in Proofs/GaeProofs.v.  Arithmetic over Q. *)
From Coq Require Import List QArith.
From SB3V Require Import Lib.QUtil.
Import ListNotations.
Local Open Scope Q_scope.

(* One (step, env) cell as the backward loop sees it. *)
Record stp := { s_r : Q; s_v : Q; s_nv : Q; s_nnt : Q }.

Definition delta (g : Q) (s : stp) : Q := s_r s + g * s_nv s * s_nnt s - s_v s.

(* The loop of the code: from the last step to the first,
     delta = r + gamma*next_values*next_non_terminal - values
     last_gae_lam = delta + gamma*gae_lambda*next_non_terminal*last_gae_lam   (0 initially)
   written as structural recursion over the step list (head = earliest step). *)
Fixpoint gae_code (g l : Q) (steps : list stp) : list Q :=
  match steps with
  | [] => []
  | s :: rest =>
      let advs := gae_code g l rest in
      (delta g s + g * l * s_nnt s * hd 0 advs) :: advs
  end.

(* The definition the property states:
     A_t = sum_{k>=0} (gamma*lambda)^k * (prod_{j<k} nnt_{t+j}) * delta_{t+k}
   for the suffix of steps starting at t (finite horizon). *)
Fixpoint prod_nnt (k : nat) (steps : list stp) : Q :=
  match k, steps with
  | O, _ => 1
  | S k', s :: rest => s_nnt s * prod_nnt k' rest
  | S _, [] => 0
  end.

Fixpoint qsum (f : nat -> Q) (n : nat) : Q :=
  match n with O => 0 | S n' => qsum f n' + f n' end.

Fixpoint qpow (x : Q) (k : nat) : Q :=
  match k with O => 1 | S k' => x * qpow x k' end.

Definition adv_term (g l : Q) (steps : list stp) (k : nat) : Q :=
  qpow (g * l) k * prod_nnt k steps *
  match nth_error steps k with Some s => delta g s | None => 0 end.

Definition adv_def (g l : Q) (steps : list stp) : Q :=
  qsum (adv_term g l steps) (length steps).

(* Building the per-env column the loop consumes, from the stored arrays:
   next value / non-terminal flag of step t are values[t+1], 1-episode_starts[t+1],
   and for the last step last_values, 1-dones. *)
Definition next_spec (step buffer_size : Z) (done_last last_v es_next v_next : Q) : Q * Q :=
  if Z.eqb step (buffer_size - 1) then (1 - done_last, last_v) else (1 - es_next, v_next).

Fixpoint mk_col (rs vs es : list Q) (last_v done_last : Q) : list stp :=
  match rs, vs, es with
  | r :: rs', v :: vs', _ :: es' =>
      match vs', es' with
      | v' :: _, e' :: _ =>
          {| s_r := r; s_v := v; s_nv := v'; s_nnt := 1 - e' |} :: mk_col rs' vs' es' last_v done_last
      | _, _ => [{| s_r := r; s_v := v; s_nv := last_v; s_nnt := 1 - done_last |}]
      end
  | _, _, _ => []
  end.

(* Row-wise (vectorised over envs) version: exactly what numpy does on rows. *)
Fixpoint map2 {A B C} (f : A -> B -> C) (a : list A) (b : list B) : list C :=
  match a, b with
  | x :: a', y :: b' => f x y :: map2 f a' b'
  | _, _ => []
  end.

Fixpoint gae_rows (g l : Q) (n : nat) (rows : list (list stp)) : list (list Q) :=
  match rows with
  | [] => []
  | row :: rest =>
      let advs := gae_rows g l n rest in
      let last := hd (repeat 0 n) advs in
      map2 (fun s a => delta g s + g * l * s_nnt s * a) row last :: advs
  end.

Definition column {A} (e : nat) (d : A) (rows : list (list A)) : list A :=
  map (fun row => nth e row d) rows.

Definition returns_of (advs vals : list Q) : list Q := map2 Qplus advs vals.

(* executable entry points used by the correspondence check *)
(* executable variant: same recursion with every stored value reduced (Proofs.GaeProofs.gae_exec_code
   shows it is pointwise == gae_code); un-reduced Q arithmetic over 12 steps costs seconds *)
Fixpoint gae_exec (g l : Q) (steps : list stp) : list Q :=
  match steps with
  | [] => []
  | s :: rest =>
      let advs := gae_exec g l rest in
      Qred (delta g s + g * l * s_nnt s * hd 0 advs) :: advs
  end.

(* correspondence entry point: compares inside Coq with the implementation's advantages /
   returns (see Lib/QUtil.v for why exact rationals are never printed) *)
Definition check_col (rel abs g l : Q) (rs vs es : list Q) (last_v done_last : Q)
           (impl_adv impl_ret : list Q) : list bool * list bool * list Z :=
  let advs := gae_exec g l (mk_col rs vs es last_v done_last) in
  (qclose_list rel abs advs impl_adv, qclose_list rel abs (returns_of advs vs) impl_ret,
   map qapprox advs).
