(* C20 - model of Logger.record / record_mean / dump and the per-format filters (logger.py).
   Numeric values over Q, strings as texts.  Definitions only. *)
From Coq Require Import List QArith ZArith Bool Ascii String.
From SB3V Require Import Model.Csv.
Import ListNotations.
Local Open Scope Q_scope.

Inductive lval := LNum (q : Q) | LStr (s : text).

(* name_to_value, name_to_count, name_to_excluded: association lists in insertion order (Python dicts) *)
Record lstate := mk_l { l_val : list (text * lval); l_cnt : list (text * Z); l_exc : list (text * list text) }.
Definition l0 : lstate := mk_l [] [] [].

Fixpoint set_kv {V} (k : text) (v : V) (m : list (text * V)) : list (text * V) :=
  match m with
  | [] => [(k, v)]
  | (k', v') :: r => if text_eqb k k' then (k', v) :: r else (k', v') :: set_kv k v r
  end.

Fixpoint get_kv {V} (k : text) (m : list (text * V)) : option V :=
  match m with
  | [] => None
  | (k', v') :: r => if text_eqb k k' then Some v' else get_kv k r
  end.

(* exclude=None becomes ("",); a string becomes a 1-tuple: the harness passes the tuple *)
Inductive lop :=
| ORecord (k : text) (v : lval) (excl : list text)
| ORecordMean (k : text) (v : option Q) (excl : list text)
| ODump.

Definition mean_step (old : Q) (count : Z) (v : Q) : Q :=
  old * inject_Z count / inject_Z (count + 1) + v / inject_Z (count + 1).

(* defaultdict(float) / defaultdict(int) *)
Definition value_of (st : lstate) (k : text) : Q :=
  match get_kv k (l_val st) with Some (LNum q) => q | _ => 0 end.
Definition count_of (st : lstate) (k : text) : Z :=
  match get_kv k (l_cnt st) with Some c => c | None => 0%Z end.

Definition l_record (st : lstate) (k : text) (v : lval) (excl : list text) : lstate :=
  mk_l (set_kv k v (l_val st)) (l_cnt st) (set_kv k excl (l_exc st)).

Definition l_record_mean (st : lstate) (k : text) (v : option Q) (excl : list text) : lstate :=
  match v with
  | None => st
  | Some x =>
      mk_l (set_kv k (LNum (mean_step (value_of st k) (count_of st k) x)) (l_val st))
           (set_kv k (count_of st k + 1)%Z (l_cnt st))
           (set_kv k excl (l_exc st))
  end.

Definition mem_text (x : text) (l : list text) : bool := existsb (text_eqb x) l.

(* filter_excluded_keys (csv, json, tensorboard): key in key_excluded and fmt in key_excluded[key] *)
Definition is_excluded (st : lstate) (k : text) (fmt : text) : bool :=
  match get_kv k (l_exc st) with Some ex => mem_text fmt ex | None => false end.
Definition filter_fmt (fmt : text) (st : lstate) : list (text * lval) :=
  filter (fun kv => negb (is_excluded st (fst kv) fmt)) (l_val st).

(* HumanOutputFormat ("stdout" and "log"): one test for both formats, as in the code *)
Definition t_stdout : text := list_ascii_of_string "stdout".
Definition t_log : text := list_ascii_of_string "log".
Definition t_csv : text := list_ascii_of_string "csv".
Definition t_json : text := list_ascii_of_string "json".
Definition human_hidden (st : lstate) (k : text) : bool :=
  match get_kv k (l_exc st) with Some ex => mem_text t_stdout ex || mem_text t_log ex | None => false end.
Definition filter_human (st : lstate) : list (text * lval) :=
  filter (fun kv => negb (human_hidden st (fst kv))) (l_val st).

(* what the property asks of every format *)
Definition visible_spec (fmt : text) (excl : list text) : bool := negb (mem_text fmt excl).

(* one dump: what each writer receives (csv, json, log, stdout), then everything is cleared *)
Record dumped := mk_d { d_csv : list (text * lval); d_json : list (text * lval); d_log : list (text * lval); d_stdout : list (text * lval);
                        d_pending : list (text * lval); d_excl : list (text * list text) }.

Definition l_dump (st : lstate) : lstate * dumped :=
  (l0, mk_d (filter_fmt t_csv st) (filter_fmt t_json st) (filter_human st) (filter_human st) (l_val st) (l_exc st)).

Fixpoint l_run (st : lstate) (ops : list lop) : lstate * list dumped :=
  match ops with
  | [] => (st, [])
  | ORecord k v e :: r => l_run (l_record st k v e) r
  | ORecordMean k v e :: r => l_run (l_record_mean st k v e) r
  | ODump :: r => let '(st1, d) := l_dump st in let '(st2, ds) := l_run st1 r in (st2, d :: ds)
  end.

(* ---- executable helpers for the correspondence ---- *)
Definition red_val (v : lval) : lval := match v with LNum q => LNum (Qred q) | s => s end.
Fixpoint l_run_red (st : lstate) (ops : list lop) : lstate * list dumped :=
  match ops with
  | [] => (st, [])
  | ORecord k v e :: r => l_run_red (l_record st k v e) r
  | ORecordMean k v e :: r =>
      let st1 := l_record_mean st k v e in
      l_run_red (mk_l (map (fun kv => (fst kv, red_val (snd kv))) (l_val st1)) (l_cnt st1) (l_exc st1)) r
  | ODump :: r => let '(st1, d) := l_dump st in let '(st2, ds) := l_run_red st1 r in (st2, d :: ds)
  end.

(* ---- correspondence driver: run the history, compare the pending maps with what the implementation held just
   before every dump, feed the csv writer model with what the Logger model hands to the csv format, and compare
   the resulting file with the implementation's bytes.  Everything is decided inside Coq. ---- *)
From SB3V Require Import Lib.QUtil.

Definition S_ (t : text) : string := string_of_list_ascii t.
Definition keys_of (m : list (text * lval)) : list string := map (fun kv => S_ (fst kv)) m.

Definition lval_close (m i : lval) : bool :=
  match m, i with
  | LNum a, LNum b => qclose (1 # 1000000000) (1 # 1000000000) a b
  | LStr a, LStr b => text_eqb a b
  | _, _ => false
  end.

Definition entry_ok (excl : list (text * list text)) (mv : text * lval) (iv : text * lval * list text) : bool :=
  let '(ik, ival, iex) := iv in
  text_eqb (fst mv) ik && lval_close (snd mv) ival
  && match get_kv ik excl with Some ex => list_eqb text_eqb ex iex | None => false end.

Fixpoint all2b {A B} (f : A -> B -> bool) (a : list A) (b : list B) : bool :=
  match a, b with
  | [], [] => true
  | x :: a', y :: b' => f x y && all2b f a' b'
  | _, _ => false
  end.

Definition pending_ok (d : dumped) (impl : list (text * lval * list text)) : bool :=
  all2b (entry_ok (d_excl d)) (d_pending d) impl.

(* numbers are written as Python's str(value): that text is supplied by the harness *)
Definition to_field (rend : list (text * text)) (kv : text * lval) : text * field :=
  match snd kv with
  | LStr s => (fst kv, FQ s)
  | LNum _ => (fst kv, FU (match get_kv (fst kv) rend with Some t => t | None => [] end))
  end.

Definition c20_check (ops : list lop) (impl_pending : list (list (text * lval * list text)))
           (rends : list (list (text * text))) (extras : list (list text)) (impl_csv : text) :=
  let '(st, ds) := l_run_red l0 ops in
  let cds := map (fun x => (map (to_field (fst (snd x))) (d_csv (fst x)), snd (snd x))) (combine ds (combine rends extras)) in
  let c := csv_run csv0 cds in
  (all2b pending_ok ds impl_pending,
   map (fun d => (keys_of (d_csv d), keys_of (d_json d), keys_of (d_log d), keys_of (d_stdout d))) ds,
   first_diff (c_file c) impl_csv 0,
   map S_ (c_keys c),
   table_eqb (parse_csv (c_file c)) (expected_table (c_keys c) cds),
   List.length (l_val st),
   List.length (parse_csv_skip_blank (c_file c))).

(* ---- extension: log levels, the disabled logger, truncation in the human formats ---- *)
Definition DISABLED_ : Z := 50%Z.
Definition log_emits (cfg level : Z) : bool := Z.leb cfg level.        (* Logger.log / debug / info / warn / error *)
Definition l_dump_level (cfg : Z) (st : lstate) : lstate * option dumped :=
  if Z.eqb cfg DISABLED_ then (st, None) else let '(st', d) := l_dump st in (st', Some d).

(* HumanOutputFormat._truncate with max_length m: texts longer than m keep their first m-3 characters plus "..." *)
Definition dots : text := list_ascii_of_string "...".
Definition truncate (m : nat) (s : text) : text :=
  if Nat.ltb m (List.length s) then firstn (m - 3) s ++ dots else s.
(* two different keys collide in the table when they are cut to the same text: the writer then raises ValueError *)
Definition collide (m : nat) (a b : text) : bool := negb (text_eqb a b) && text_eqb (truncate m a) (truncate m b).

(* record_mean needs a number (or nothing) under the key: on a string the implementation raises TypeError *)
Definition mean_defined (st : lstate) (k : text) : bool :=
  match get_kv k (l_val st) with Some (LStr _) => false | _ => true end.
(* the values given to record_mean for key k in a list of operations *)
Fixpoint mean_values (k : text) (ops : list lop) : list Q :=
  match ops with
  | [] => []
  | ORecordMean k' (Some v) _ :: r => if text_eqb k k' then v :: mean_values k r else mean_values k r
  | _ :: r => mean_values k r
  end.
(* an operation that leaves the running mean of k alone or feeds it: no dump, no record() on k *)
Definition mean_safe (k : text) (o : lop) : bool :=
  match o with
  | ODump => false
  | ORecord k' _ _ => negb (text_eqb k k')
  | ORecordMean _ _ _ => true
  end.
