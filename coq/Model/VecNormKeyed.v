(* C15 (build round 5) - keyed model of VecNormalize: Dict observations with norm_obs_keys.
   An observation of one sub-environment is an association list key -> component vector (keys are tags, nat);
   the statistics are a dictionary key -> one rms per component, holding ONLY the selected keys (obs_rms of the code);
   rewards / returns / flags are the existing single-array model run on zero channels (k_base).
   Also: the constructor's decision function (_sanity_checks) and pickling / set_venv.  Definitions only. *)
From Coq Require Import List QArith Bool Arith.
From SB3V Require Import Lib.QUtil Model.RunningMoments Model.VecNorm.
Import ListNotations.
Local Open Scope nat_scope.

Definition kenv := list (nat * list Q).        (* one sub-environment's Dict observation *)

Fixpoint kget {A} (k : nat) (l : list (nat * A)) (d : A) : A :=
  match l with [] => d | (k', v) :: t => if Nat.eqb k k' then v else kget k t d end.
Definition kmem (k : nat) (ks : list nat) : bool := existsb (Nat.eqb k) ks.
(* the per-sub-environment vectors of key k in a batch *)
Definition kcol (k : nat) (obs : list kenv) : list (list Q) := map (fun e => kget k e []) obs.

Record kvn := mk_kvn {
  k_rms : list (nat * list rms);   (* obs_rms: selected keys only *)
  k_keys : list nat;               (* norm_obs_keys *)
  k_old_obs : list kenv;           (* old_obs: the raw Dict observations of the latest reset/step *)
  k_base : vn }.                   (* ret_rms, returns, old_reward, training / norm_obs / norm_reward *)

Inductive kop :=
| KReset (obs : list kenv)
| KStep (obs : list kenv) (rews : list Q) (dones : list bool)
| KSet (training norm_obs norm_reward : bool).

Definition base_op (o : kop) : vnop :=
  match o with KReset _ => OReset [] | KStep _ r d => OStep [] r d | KSet t no nr => OSet t no nr end.
Definition kop_obs (o : kop) : option (list kenv) :=
  match o with KReset obs | KStep obs _ _ => Some obs | KSet _ _ _ => None end.
(* what key k sees of an operation *)
Definition proj_op (k : nat) (o : kop) : vnop :=
  match o with KReset obs => OReset (kcol k obs) | KStep obs r d => OStep (kcol k obs) r d | KSet t no nr => OSet t no nr end.

(* parameters without channels (the base) / with w selected channels (one key) *)
Definition projp (p : vnp) (w : nat) : vnp := mk_vnp (p_clip_obs p) (p_clip_rew p) (p_gamma p) (p_eps p) (repeat true w).

Section WithUpdate.
Context (upd : rms -> list Q -> rms) (red : Q -> Q).

(* self.obs_rms[key].update(obs[key]) : every component of the key, with that key's batch *)
Definition upd_key (rs : list rms) (batch : list (list Q)) : list rms :=
  map (fun ir => upd (snd ir) (chan_col (fst ir) batch)) (combine (seq 0 (length rs)) rs).

(* for key in self.obs_rms.keys(): self.obs_rms[key].update(obs[key])   under `if self.training and self.norm_obs` *)
Definition kupd_rms (st : kvn) (obs : list kenv) : list (nat * list rms) :=
  if obs_guard (v_training (k_base st)) (v_norm_obs (k_base st)) then
    map (fun kr => (fst kr, upd_key (snd kr) (kcol (fst kr) obs))) (k_rms st)
  else k_rms st.

Definition kvn_op (p : vnp) (st : kvn) (o : kop) : kvn :=
  mk_kvn (match kop_obs o with Some obs => kupd_rms st obs | None => k_rms st end)
         (k_keys st)
         (match kop_obs o with Some obs => obs | None => k_old_obs st end)
         (vn_op upd red (projp p 0) (k_base st) (base_op o)).

Definition kvn_run (p : vnp) (st : kvn) (ops : list kop) : kvn := fold_left (kvn_op p) ops st.
End WithUpdate.

(* the single-array state that key k carries *)
Definition proj (k : nat) (st : kvn) : vn :=
  let b := k_base st in
  mk_vn (kget k (k_rms st) []) (v_ret_rms b) (v_returns b) (kcol k (k_old_obs st)) (v_old_rew b)
        (v_training b) (v_norm_obs b) (v_norm_reward b).

(* ---- transforms: normalize_obs / unnormalize_obs copy the observation and replace the entries of the selected keys ---- *)
Definition knorm_entry (p : vnp) (st : kvn) (hints : list (nat * list Q)) (k : nat) (x : list Q) : list Q :=
  if v_norm_obs (k_base st) && kmem k (k_keys st)
  then norm_vec (projp p (length x)) true (repeat true (length x)) (kget k (k_rms st) []) (kget k hints []) x else x.
Definition kunnorm_entry (p : vnp) (st : kvn) (hints : list (nat * list Q)) (k : nat) (y : list Q) : list Q :=
  if v_norm_obs (k_base st) && kmem k (k_keys st)
  then norm_unvec (projp p (length y)) true (repeat true (length y)) (kget k (k_rms st) []) (kget k hints []) y else y.

Definition knormalize (p : vnp) (st : kvn) (hints : list (nat * list Q)) (o : kenv) : kenv :=
  map (fun e => (fst e, knorm_entry p st hints (fst e) (snd e))) o.
Definition kunnormalize (p : vnp) (st : kvn) (hints : list (nat * list Q)) (o : kenv) : kenv :=
  map (fun e => (fst e, kunnorm_entry p st hints (fst e) (snd e))) o.

Definition kterm_out (p : vnp) (st : kvn) (hints : list (nat * list Q)) (done : bool) (t : option kenv) : option kenv :=
  if negb done then t else match t with Some x => Some (knormalize p st hints x) | None => None end.

Record kstep_out := mk_kout { ko_obs : list kenv; ko_term : list (option kenv); ko_rews : list Q }.

Definition kstep_outputs (p : vnp) (st : kvn) (obs : list kenv) (rews : list Q) (dones : list bool)
           (terms : list (option kenv)) (hints : list (nat * list Q)) (sr : Q) : kvn * kstep_out :=
  let st' := kvn_op update idq_ p st (KStep obs rews dones) in
  (st', mk_kout (map (knormalize p st' hints) obs)
                (map (fun dt => kterm_out p st' hints (fst dt) (snd dt)) (combine dones terms))
                (map (fun r => if v_norm_reward (k_base st') then normalize_reward_s r sr (p_clip_rew p) else r) rews)).

(* ---- constructor: observation spaces and _sanity_checks ---- *)
(* a Dict space: key -> Some w (a Box key with w components; image keys are Box keys) | None (any other space) *)
Definition kspace := list (nat * option nat).
Inductive ospace := SBox (w : nat) | SDict (ks : kspace) | SOther.

Definition is_box_key (ks : kspace) (k : nat) : bool :=
  match kget k ks None with Some _ => true | None => false end.   (* a key that is missing or not a Box: false *)

(* norm_obs_keys after _sanity_checks: None on a Dict space means all keys *)
Definition effective_keys (s : ospace) (keys : option (list nat)) : list nat :=
  match s, keys with
  | SDict ks, None => map fst ks
  | _, Some l => l
  | _, None => []
  end.

(* true = _sanity_checks returns, false = it raises (ValueError; KeyError for a key that is not in the Dict space) *)
Definition sanity_accepts (s : ospace) (keys : option (list nat)) : bool :=
  match s with
  | SDict ks => forallb (is_box_key ks) (effective_keys s keys)
  | SBox _ => match keys with None => true | Some _ => false end
  | SOther => false
  end.

(* __init__: the checks run only `if self.norm_obs` *)
Definition ctor_accepts (norm_obs : bool) (s : ospace) (keys : option (list nat)) : bool :=
  if norm_obs then sanity_accepts s keys else true.

Fixpoint dedup (l : list nat) : list nat :=
  match l with [] => [] | k :: t => k :: filter (fun j => negb (Nat.eqb j k)) (dedup t) end.

Definition kwidth (ks : kspace) (k : nat) : nat := match kget k ks None with Some w => w | None => 0 end.

(* {key: RunningMeanStd(shape=...) for key in norm_obs_keys}; the base starts like the single-array model *)
Definition kvn_init (ks : kspace) (keys : list nat) (n_envs : nat) (training norm_obs norm_reward : bool) : kvn :=
  mk_kvn (if norm_obs then map (fun k => (k, repeat (rms_init eps_default) (kwidth ks k))) (dedup keys) else [])
         keys []
         (mk_vn [] (rms_init eps_default) (repeat 0%Q n_envs) [] [] training norm_obs norm_reward).

(* ---- pickling: __getstate__ drops venv / class_attributes / returns; __setstate__ (a pickle written before norm_obs_keys
   existed gets all keys of its Dict space); set_venv re-creates returns for the new venv ---- *)
Definition ksetstate_keys (s : ospace) (pickled : option (list nat)) : list nat :=
  match pickled with
  | Some l => l
  | None => match s with SDict ks => map fst ks | _ => [] end
  end.

Definition kunpickle_pickle (st : kvn) (n_envs : nat) : kvn :=
  mk_kvn (k_rms st) (k_keys st) (k_old_obs st) (unpickle_pickle (k_base st) n_envs).

(* set_venv: refused (None) when the wrapper already has a venv *)
Definition kset_venv (has_venv : bool) (st : kvn) (n_envs : nat) : option kvn :=
  if has_venv then None else Some (kunpickle_pickle st n_envs).

(* ---- trace checker for the correspondence: everything is decided inside Coq ---- *)
Record kcheck := mk_kck {
  kk_stats : list (nat * list (Q * Q * Q * Q));   (* the implementation's obs_rms: key -> per component (mean, var, count, hint) *)
  kk_out_obs : list kenv;                         (* returned observations *)
  kk_out_term : list (option (kenv * kenv));      (* per env: raw terminal observation, returned one *)
  kk_unnorm : list kenv;                          (* unnormalize_obs(returned) *)
  kk_orig : list kenv;                            (* get_original_obs() *)
  kk_ret : Q * Q * Q * Q; kk_returns : list Q; kk_out_rews : list Q }.

Definition kenv_cmp (f : list Q -> list Q -> bool) (a b : kenv) : bool :=
  all2 (fun x y => Nat.eqb (fst x) (fst y) && f (snd x) (snd y)) a b.
(* selected keys are float32 results (1e-5); unselected keys must be EXACTLY the input *)
Definition kenv_out_ok (st : kvn) (m i : kenv) : bool :=
  all2 (fun x y => Nat.eqb (fst x) (fst y) &&
                   (if v_norm_obs (k_base st) && kmem (fst x) (k_keys st) then vec_close (snd x) (snd y) else vec_eq (snd x) (snd y))) m i.

Definition khints (k : kcheck) : list (nat * list Q) :=
  map (fun e => (fst e, map (fun q => let '(_, _, _, s) := q in s) (snd e))) (kk_stats k).

Definition kstats_ok (tol : Q) (ms : list (nat * list rms)) (is_ : list (nat * list (Q * Q * Q * Q))) : bool :=
  all2 (fun m i => Nat.eqb (fst m) (fst i) &&
                   all2 (fun r q => let '(im, iv, ic, _) := q in rms_close tol tol r im iv ic) (snd m) (snd i)) ms is_.
Definition khints_ok (th eps : Q) (ms : list (nat * list rms)) (is_ : list (nat * list (Q * Q * Q * Q))) : bool :=
  all2 (fun m i => all2 (fun r q => let '(_, _, _, s) := q in sqrt_hint_ok th s (r_var r) eps) (snd m) (snd i)) ms is_.

Definition kcheck_state (tol : Q) (p : vnp) (st : kvn) (o : kop) (k : kcheck) : list bool :=
  let th := (4 * tol + (1 # 100000000))%Q in
  let hs := khints k in
  let '(_, _, _, sr) := kk_ret k in
  let b := k_base st in
  [ kstats_ok tol (k_rms st) (kk_stats k);
    (let '(im, iv, ic, _) := kk_ret k in rms_close tol9 tol9 (v_ret_rms b) im iv ic)
      && forallb (fun x => x) (qclose_list tol9 tol9 (v_returns b) (kk_returns k));
    is_set (base_op o) ||
    (khints_ok th (p_eps p) (k_rms st) (kk_stats k)
     && all2 (fun x y => kenv_out_ok st (knormalize p st hs x) y) (match kop_obs o with Some obs => obs | None => [] end) (kk_out_obs k));
    all2 (fun d t => match t with
                     | Some (x, y) => match kterm_out p st hs d (Some x) with Some z => d && kenv_out_ok st z y | None => false end
                     | None => true
                     end) (op_dones (base_op o)) (kk_out_term k);
    all2 (fun y u => kenv_out_ok st (kunnormalize p st hs y) u) (kk_out_obs k) (kk_unnorm k);
    is_set (base_op o) || all2 (kenv_cmp vec_eq) (k_old_obs st) (kk_orig k);
    all2 (fun r y => close5 (if v_norm_reward b then normalize_reward_s r sr (p_clip_rew p) else r) y) (op_rews (base_op o)) (kk_out_rews k) ].

(* after the history: what the loaded wrapper (pickle round trip + set_venv onto n_envs2 environments) shows *)
Record kfin := mk_kfin { kf_stats : list (nat * list (Q * Q * Q * Q)); kf_keys : list nat; kf_ret : Q * Q * Q * Q; kf_returns : list Q;
                         kf_flags : bool * bool * bool }.
Definition kfinal_check (tol : Q) (st : kvn) (n_envs2 : nat) (f : kfin) : list bool :=
  match kset_venv false st n_envs2 with
  | None => [false]
  | Some l =>
    [ kstats_ok tol (k_rms l) (kf_stats f);
      all2 Nat.eqb (k_keys l) (kf_keys f);
      (let '(im, iv, ic, _) := kf_ret f in rms_close tol9 tol9 (v_ret_rms (k_base l)) im iv ic);
      vec_eq (v_returns (k_base l)) (kf_returns f);
      (let '(t, no, nr) := kf_flags f in
       Bool.eqb t (v_training (k_base l)) && Bool.eqb no (v_norm_obs (k_base l)) && Bool.eqb nr (v_norm_reward (k_base l))) ]
  end.

Fixpoint kvn_trace (tol : Q) (p : vnp) (st : kvn) (ops : list (kop * kcheck)) (n_envs2 : nat) (f : kfin)
  : list (list bool) * list bool :=
  match ops with
  | [] => ([], kfinal_check tol st n_envs2 f)
  | (o, k) :: rest =>
      let st' := kvn_op update_red Qred p st o in
      let '(rows, fin) := kvn_trace tol p st' rest n_envs2 f in
      (kcheck_state tol p st' o k :: rows, fin)
  end.
