(* C07 x C05 - what PPO.train / A2C.train receive from the rollout buffer: for the minibatch sample that
   is cell (t, e) of the rollout, the policy-gradient term uses the GAE advantage of that cell
   (optionally normalised over the MINIBATCH) and the value loss regresses on
   return(t, e) = advantage(t, e) + value(t, e).   Model/Gae.v is imported read-only. *)
From Coq Require Import QArith List.
From SB3V Require Model.Gae.
From SB3V Require Import Model.LossCommon Model.LossPPO Model.LossA2C.
Import ListNotations.
Local Open Scope Q_scope.

Definition dstp : Gae.stp := {| Gae.s_r := 0; Gae.s_v := 0; Gae.s_nv := 0; Gae.s_nnt := 0 |}.
(* one column of rollout steps per sub-environment *)
Definition cell_adv (g l : Q) (cols : list (list Gae.stp)) (te : nat * nat) : Q :=
  nth (fst te) (Gae.gae_code g l (nth (snd te) cols [])) 0.
Definition cell_val (cols : list (list Gae.stp)) (te : nat * nat) : Q :=
  Gae.s_v (nth (fst te) (nth (snd te) cols []) dstp).
Definition cell_ret (g l : Q) (cols : list (list Gae.stp)) (te : nat * nat) : Q := cell_adv g l cols te + cell_val cols te.

(* the columns of a minibatch given as rollout cells (step, env) *)
Definition mb_advs g l cols (cells : list (nat * nat)) : list Q := map (cell_adv g l cols) cells.
Definition mb_rets g l cols (cells : list (nat * nat)) : list Q := map (cell_ret g l cols) cells.
Definition mb_vals cols (cells : list (nat * nat)) : list Q := map (cell_val cols) cells.
Definition maybe_norm (norm : bool) (std : Q) (advs : list Q) : list Q := if norm then adv_norm_Q advs std else advs.

(* executable twin (reduced GAE recursion) *)
Definition cell_adv_exec (g l : Q) (cols : list (list Gae.stp)) (te : nat * nat) : Q :=
  nth (fst te) (Gae.gae_exec g l (nth (snd te) cols [])) 0.

Definition ppo_minibatch_Q (c : Q) (cv : option Q) (ec vc : Q) (he norm : bool) (std g l : Q)
    (cols : list (list Gae.stp)) (cells : list (nat * nat)) (ratios vs ent_terms : list Q) :=
  let advs := map (cell_adv_exec g l cols) cells in
  ppo_batch_Q c cv ec vc he (maybe_norm norm std advs) ratios
    (map (fun te => Qred (cell_adv_exec g l cols te + cell_val cols te)) cells) (mb_vals cols cells) vs ent_terms.
Definition a2c_minibatch_Q (ec vc : Q) (he norm : bool) (std g l : Q)
    (cols : list (list Gae.stp)) (cells : list (nat * nat)) (lps vs ent_terms : list Q) :=
  let advs := map (cell_adv_exec g l cols) cells in
  a2c_batch_Q ec vc he (maybe_norm norm std advs) lps
    (map (fun te => Qred (cell_adv_exec g l cols te + cell_val cols te)) cells) vs ent_terms.
(* what the buffer hands over for comparison: (advantages, returns, old values) of the cells *)
Definition mb_columns_exec g l cols cells : list Q * (list Q * list Q) :=
  (map (cell_adv_exec g l cols) cells,
   (map (fun te => Qred (cell_adv_exec g l cols te + cell_val cols te)) cells, mb_vals cols cells)).
