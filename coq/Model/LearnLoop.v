(* Model of learn(): timestep / update / schedule accounting of OnPolicyAlgorithm.learn and
   OffPolicyAlgorithm.learn (+ collect_rollouts as far as the counters go).  Definitions only.
   A rollout is a number of vectorised env steps (n_steps on-policy; train_freq steps, or as many
   steps as the env needs for train_freq episodes, off-policy): the list `lens` gives the length of
   each successive rollout (it also bounds the number of loop iterations).  A callback may ask to stop:
   `stop n` = the callback returns False when it sees num_timesteps = n. *)
From Coq Require Import ZArith List Bool QArith Qminmax.
Import ListNotations.
Local Open Scope Z_scope.

(* _setup_learn: (num_timesteps, _episode_num, total_timesteps) *)
Definition setup (reset : bool) (num ep total : Z) : Z * Z * Z :=
  if reset then (0, 0, total) else (num, ep, total + num).

(* collect_rollouts: k vectorised steps, each adds n_envs, the callback is consulted after each *)
Fixpoint collect (k : nat) (n_envs num : Z) (stop : Z -> bool) : Z * bool :=
  match k with
  | O => (num, true)
  | S k' => let num' := num + n_envs in
            if stop num' then (num', false) else collect k' n_envs num' stop
  end.

Inductive mode := OnPolicy | OffPolicy (learning_starts gradient_steps : Z).

Definition grad_steps (gs collected_ts : Z) : Z := if 0 <=? gs then gs else collected_ts.
Definition gate (num ls : Z) : bool := (0 <? num) && (ls <? num).

(* the train() call after a rollout that ended at num': (num', gradient steps), if any.
   on-policy: always one call (its optimizer-step count is `on_train_steps`) *)
Definition train_event (m : mode) (num' collected_ts : Z) : list (Z * Z) :=
  match m with
  | OnPolicy => [(num', 0)]
  | OffPolicy ls gs =>
      let g := grad_steps gs collected_ts in
      if gate num' ls && (0 <? g) then [(num', g)] else []
  end.

(* while num_timesteps < total: rollout; break if the callback stopped; train *)
Fixpoint loop (m : mode) (n_envs total : Z) (stop : Z -> bool) (lens : list nat) (num : Z)
  : list (Z * Z) * Z * bool :=
  match lens with
  | [] => ([], num, false)
  | s :: rest =>
      if num <? total then
        let '(num', cont) := collect s n_envs num stop in
        if cont then
          let '(l, fin, stopped) := loop m n_envs total stop rest num' in
          (train_event m num' (Z.of_nat s * n_envs) ++ l, fin, stopped)
        else ([], num', true)
      else ([], num, false)
  end.

(* progress handed to the schedules *)
Definition progress (num total : Z) : Q := Qmax 0 (1 - inject_Z num / inject_Z total).

(* PPO: n_epochs passes of ceil(rollout size / batch_size) minibatches; A2C: one step *)
Definition on_train_steps (n_epochs rollout_size batch : Z) : Z := n_epochs * ((rollout_size + batch - 1) / batch).

(* one learn() call from counters (num, ep): returns (train events, final num, stopped, total used) *)
Definition learn_call (m : mode) (n_envs : Z) (stop : Z -> bool) (lens : list nat)
           (reset : bool) (num ep total : Z) :=
  let '(num0, ep0, total') := setup reset num ep total in
  (loop m n_envs total' stop lens num0, total').

(* ---- PPO.train: for epoch in range(n_epochs): for minibatch in get(batch_size): [early stop by target_kl: continue_training = False;
   break] optimizer step; _n_updates += 1; if not continue_training: break.   kl e j = the early-stop test of minibatch j of epoch e *)
Fixpoint ppo_minibatches (js : list nat) (kl : nat -> bool) : nat * bool :=      (* optimizer steps, continue_training *)
  match js with
  | [] => (O, true)
  | j :: rest => if kl j then (O, false) else let '(n, c) := ppo_minibatches rest kl in (S n, c)
  end.
Fixpoint ppo_epochs (es : list nat) (k : nat) (kl : nat -> nat -> bool) : nat * nat :=   (* optimizer steps, _n_updates increments *)
  match es with
  | [] => (O, O)
  | e :: rest =>
      let '(n, c) := ppo_minibatches (seq 0 k) (kl e) in
      if c then let '(n', u') := ppo_epochs rest k kl in ((n + n')%nat, S u') else (n, 1%nat)
  end.
Definition ppo_train (n_epochs k : nat) (kl : nat -> nat -> bool) : nat * nat := ppo_epochs (seq 0 n_epochs) k kl.
(* A2C.train: one pass with batch_size=None (one minibatch), one optimizer step, _n_updates += 1 *)
Definition a2c_train : nat * nat := (1%nat, 1%nat).
