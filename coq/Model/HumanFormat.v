(* C20 (build round 5) - character-level model of HumanOutputFormat.write (logger.py): the whole writer, from the
   pending (key, formatted value, hidden) list to the printed lines, and a reader for the printed table.
   Value formatting (`%-8.3g`, str()) is an input: e_val is the already formatted text.  Definitions only. *)
From Coq Require Import List Ascii String Bool Arith.
From SB3V Require Import Model.Csv Model.Logger.
Import ListNotations.
Local Open Scope nat_scope.

Definition slash : ascii := "/"%char.
Definition sp : ascii := " "%char.
Definition bar : ascii := "|"%char.
Definition dash : ascii := "-"%char.

(* str.find("/") *)
Fixpoint find_slash (s : text) : option nat :=
  match s with
  | [] => None
  | c :: r => if ascii_eqb c slash then Some 0 else option_map S (find_slash r)
  end.

(* `tag in key` is Python's SUBSTRING test *)
Fixpoint is_prefix (p s : text) : bool :=
  match p, s with
  | [], _ => true
  | a :: p', b :: s' => ascii_eqb a b && is_prefix p' s'
  | _ :: _, [] => false
  end.
Fixpoint is_substr (p s : text) : bool :=
  is_prefix p s || match s with [] => false | _ :: r => is_substr p r end.

(* str comparison: lexicographic by code point *)
Fixpoint text_leb (a b : text) : bool :=
  match a, b with
  | [], _ => true
  | _ :: _, [] => false
  | x :: a', y :: b' =>
      if nat_of_ascii x <? nat_of_ascii y then true
      else if nat_of_ascii y <? nat_of_ascii x then false
      else text_leb a' b'
  end.

Record entry := mk_e { e_key : text; e_val : text; e_hidden : bool }.

(* sorted(key_values.items()): keys of a dict are distinct, so the order is the order of the keys *)
Fixpoint insert_e (e : entry) (l : list entry) : list entry :=
  match l with
  | [] => [e]
  | x :: r => if text_leb (e_key e) (e_key x) then e :: l else x :: insert_e e r
  end.
Definition sort_e (l : list entry) : list entry := fold_right insert_e [] l.
Definition visible (l : list entry) : list entry := filter (fun e => negb (e_hidden e)) l.

(* ---- the scan: what each visible key contributes, given the tag left by the previous keys ---- *)
(* it_new = this key sets the tag (key.find("/") > 0), and so (re)writes the header entry *)
Record item := mk_it { it_tag : text; it_new : bool; it_key : text; it_val : text }.

Definition next_tag (tag key : text) : text * bool :=
  match find_slash key with
  | Some (S i) => (firstn (S i + 1) key, true)
  | _ => (tag, false)
  end.
Definition three : text := [sp; sp; sp].
(* f"{'':3}{key[len(tag):]}" when len(tag) > 0 and tag in key *)
Definition display_key (tag key : text) : text :=
  if negb (Nat.eqb (List.length tag) 0) && is_substr tag key then three ++ skipn (List.length tag) key else key.

Definition item_of (m : nat) (tag : text) (e : entry) : item :=
  let '(tag1, nw) := next_tag tag (e_key e) in
  mk_it tag1 nw (truncate m (display_key tag1 (e_key e))) (truncate m (e_val e)).
Fixpoint scan (m : nat) (tag : text) (l : list entry) : list item :=
  match l with
  | [] => []
  | e :: r => let it := item_of m tag e in it :: scan m (it_tag it) r
  end.

(* ---- key2str: an insertion-ordered dict keyed by (tag, shown text).  c_head is ghost state (is the entry a tag
        header or a key cell): the writer never looks at it. ---- *)
Record cell := mk_c { c_head : bool; c_tag : text; c_key : text; c_val : text }.
Definition pair_eqb (t1 k1 t2 k2 : text) : bool := text_eqb t1 t2 && text_eqb k1 k2.
Definition dmem (t k : text) (d : list cell) : bool := existsb (fun c => pair_eqb t k (c_tag c) (c_key c)) d.
(* d[(t, k)] = "" : an existing entry keeps its position, its value becomes "" *)
Fixpoint dset_head (t k : text) (d : list cell) : list cell :=
  match d with
  | [] => [mk_c true t k []]
  | c :: r => if pair_eqb t k (c_tag c) (c_key c) then mk_c (c_head c) t k [] :: r else c :: dset_head t k r
  end.

Definition step (m : nat) (d : list cell) (it : item) : option (list cell) :=
  let d1 := if it_new it then dset_head (it_tag it) (truncate m (it_tag it)) d else d in
  if dmem (it_tag it) (it_key it) d1 then None                                  (* ValueError *)
  else Some (d1 ++ [mk_c false (it_tag it) (it_key it) (it_val it)]).
Fixpoint run (m : nat) (d : list cell) (its : list item) : option (list cell) :=
  match its with
  | [] => Some d
  | it :: r => match step m d it with None => None | Some d' => run m d' r end
  end.

(* the dict at the end of the first loop; None = ValueError *)
Definition key2str (m : nat) (l : list entry) : option (list cell) :=
  run m [] (scan m [] (sort_e (visible l))).

(* ---- layout ---- *)
Definition maxlen (l : list text) : nat := fold_right (fun s a => Nat.max (List.length s) a) 0 l.
Definition pad (w : nat) (s : text) : text := s ++ repeat sp (w - List.length s).
Definition row_line (kw vw : nat) (c : cell) : text :=
  [bar; sp] ++ pad kw (c_key c) ++ [sp; bar; sp] ++ pad vw (c_val c) ++ [sp; bar].
Definition key_width (d : list cell) : nat := maxlen (map c_key d).
Definition val_width (d : list cell) : nat := maxlen (map c_val d).
Definition table_lines (d : list cell) : list text :=
  match d with
  | [] => []                                                                      (* warning, nothing written *)
  | _ => let kw := key_width d in let vw := val_width d in
         let dashes := repeat dash (kw + vw + 7) in
         dashes :: map (row_line kw vw) d ++ [dashes]
  end.
Definition write_lines (m : nat) (l : list entry) : option (list text) := option_map table_lines (key2str m l).
(* "\n".join(lines) + "\n" (nothing at all for the empty table) *)
Definition file_text (lines : list text) : text := flat_map (fun s => s ++ [nl]) lines.

(* ---- the reader: frame, then one (key cell, value cell) pair per row; the key cell ends at the first '|' ---- *)
Fixpoint split_bar (s : text) : option (text * text) :=
  match s with
  | [] => None
  | c :: r => if ascii_eqb c bar then Some ([], r)
              else match split_bar r with Some (a, b) => Some (c :: a, b) | None => None end
  end.
Definition is_dashes (s : text) : bool := forallb (fun c => ascii_eqb c dash) s.
(* "| K | V |" -> (K, V) *)
Definition parse_row (s : text) : option (text * text) :=
  match s with
  | b :: s1 :: r =>
      if ascii_eqb b bar && ascii_eqb s1 sp then
        match split_bar r with
        | Some (k_sp, rest) =>
            match rest with
            | s2 :: v_tail =>
                if ascii_eqb s2 sp && (2 <=? List.length v_tail) && (1 <=? List.length k_sp) then
                  Some (removelast k_sp, removelast (removelast v_tail))
                else None
            | [] => None
            end
        | None => None
        end
      else None
  | _ => None
  end.
Fixpoint parse_rows (l : list text) : option (list (text * text)) :=
  match l with
  | [] => None                                              (* the closing frame is missing *)
  | [last] => if is_dashes last then Some [] else None
  | s :: r => match parse_row s, parse_rows r with
              | Some kv, Some t => Some (kv :: t)
              | _, _ => None
              end
  end.
Definition parse_table (l : list text) : option (list (text * text)) :=
  match l with
  | [] => Some []
  | top :: r => if is_dashes top then parse_rows r else None
  end.

Definition no_bar (s : text) : bool := forallb (fun c => negb (ascii_eqb c bar)) s.

(* ---- specification side: the key cells in printing order, straight from the scan ---- *)
Definition cells_spec (m : nat) (l : list entry) : list (text * text * text) :=
  map (fun it => (it_tag it, it_key it, it_val it)) (scan m [] (sort_e (visible l))).
Definition key_cells (d : list cell) : list (text * text * text) :=
  map (fun c => (c_tag c, c_key c, c_val c)) (filter (fun c => negb (c_head c)) d).
(* a key whose shown text equals the shown text of its own tag header *)
Definition header_clash (m : nat) (it : item) : bool :=
  negb (Nat.eqb (List.length (it_tag it)) 0) && text_eqb (it_key it) (truncate m (it_tag it)).

(* ---- correspondence driver: the implementation's output against the model's ---- *)
Definition hf_check (m : nat) (l : list entry) (impl_raised : bool) (impl : text) : bool * bool * option nat * bool :=
  match write_lines m l with
  | None => (true, impl_raised, None, true)
  | Some lines =>
      let f := file_text lines in
      (false, negb impl_raised, first_diff f impl 0,
       (* the model's reader on the model's lines returns the padded cells *)
       match parse_table lines, key2str m l with
       | Some t, Some d =>
           if negb (forallb (fun c => no_bar (c_key c)) d) then true else
           let kw := key_width d in let vw := val_width d in
           Nat.eqb (List.length t) (List.length d) &&
           forallb (fun p => text_eqb (fst (fst p)) (pad kw (c_key (snd p))) && text_eqb (snd (fst p)) (pad vw (c_val (snd p)))) (combine t d)
       | None, Some d => negb (forallb (fun c => no_bar (c_key c)) d)
       | _, None => false
       end)
  end.
