(* C07 - SAC objectives (sac/sac.py train): soft clipped-double-Q critic, entropy-regularised actor,
   temperature. *)
From Coq Require Import Reals QArith Qreals Qminmax Qabs List.
From SB3V Require Import Model.LossCommon.
Import ListNotations.
Local Open Scope R_scope.

Definition min_list (l : list R) : R := match l with [] => 0 | x :: t => fold_right Rmin x t end.
(* target = r + (1 - done) * gamma * (min_j Q_target_j(s', a') - ent_coef * log pi(a'|s')) *)
Definition sac_target (r d gamma alpha : R) (next_qs : list R) (next_lp : R) : R :=
  td_target r d gamma (min_list next_qs - alpha * next_lp).
(* critic_loss = 0.5 * sum_j mse(current_q_j, target): per (critic, sample) term *)
Definition sac_critic_term (target q : R) : R := sq_err target q / 2.
(* actor_loss = (ent_coef * log_prob - min_j Q_j(s, a_pi)).mean(): per-sample term *)
Definition sac_actor_term (alpha lp : R) (qpis : list R) : R := alpha * lp - min_list qpis.
(* ent_coef_loss = -(log_ent_coef * (log_prob + target_entropy).detach()).mean(): per-sample term *)
Definition sac_temp_term (lp target_entropy log_alpha : R) : R := - (log_alpha * (lp + target_entropy)).

Local Open Scope Q_scope.
Definition sac_target_Q (gamma alpha r d : Q) (next_qs : list Q) (next_lp : Q) : Q :=
  Qred (td_target_Q r d gamma (qmin_list next_qs - alpha * next_lp)).
Fixpoint sac_targets_Q (gamma alpha : Q) (rs ds : list Q) (rows : list (list Q)) (nlps : list Q) : list Q :=
  match rs, ds, rows, nlps with
  | r :: rt, d :: dt, row :: rowt, l :: lt => sac_target_Q gamma alpha r d row l :: sac_targets_Q gamma alpha rt dt rowt lt
  | _, _, _, _ => []
  end.
(* critic: current Q columns (one list per critic) -> (loss, dL/dq per critic) *)
Definition sac_critic_Q (ys : list Q) (qcols : list (list Q)) : Q * list (list Q) :=
  let n := qlen ys in
  (Qred ((1 # 2) * qsum (map (fun qs => qmean (qmap2 (fun q y => (q - y) * (q - y)) qs ys)) qcols)),
   map (fun qs => qmap2 (fun q y => (q - y) / n) qs ys) qcols).
(* actor: rows of Q_j(s, a_pi) (one row per sample) -> (loss, dL/dlog_prob, dL/dq rows);
   the row gradient is -1/n at the (first) minimum, 0 elsewhere *)
Fixpoint argmin_mask (m : Q) (row : list Q) (found : bool) : list Q :=
  match row with
  | [] => []
  | x :: t => if andb (negb found) (Qeq_bool x m) then 1 :: argmin_mask m t true else 0 :: argmin_mask m t found
  end.
Definition sac_actor_Q (alpha : Q) (lps : list Q) (qpi_rows : list (list Q)) : Q * (list Q * list (list Q)) :=
  let n := qlen lps in
  let mins := map qmin_list qpi_rows in
  (qmean (qmap2 (fun lp m => alpha * lp - m) lps mins),
   (map (fun _ => Qred (alpha / n)) lps,
    map (fun row => map (fun k => Qred (- k / n)) (argmin_mask (qmin_list row) row false)) qpi_rows)).
(* temperature: (loss, dL/dlog_ent_coef) *)
Definition sac_temp_Q (log_alpha target_entropy : Q) (lps : list Q) : Q * Q :=
  let s := qmean (map (fun lp => lp + target_entropy) lps) in
  (Qred (- (log_alpha * s)), Qred (- s)).

(* ---- set-up of the temperature (SAC._setup_model) ---- *)
(* target_entropy: "auto" -> -prod(action_space.shape); otherwise the given number *)
Definition sac_target_entropy_Q (given : option Q) (shape : list Z) : Q :=
  match given with Some h => h | None => - inject_Z (fold_right Z.mul 1%Z shape) end.
(* ent_coef: a number (fixed), "auto" (learned, initial value 1.0) or "auto_<x>" (learned, initial value x) *)
Inductive ent_coef_spec : Type := EntFixed (a : Q) | EntAuto (init : option Q).
Definition sac_init_alpha_Q (s : ent_coef_spec) : Q :=
  match s with EntFixed a => a | EntAuto None => 1 | EntAuto (Some x) => x end.
Definition sac_learned (s : ent_coef_spec) : bool := match s with EntFixed _ => false | EntAuto _ => true end.
Local Open Scope R_scope.
(* log_ent_coef = log(ones(1) * init_value) *)
Definition sac_log_alpha_init (s : ent_coef_spec) : R := ln (Q2R (sac_init_alpha_Q s)).
