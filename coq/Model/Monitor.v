(* C18 - model of Monitor (monitor.py), VecMonitor (vec_monitor.py) and the results file.
   Rewards are integers in units of 1/4 (as in Model/Script.v).  Definitions only. *)
From Coq Require Import ZArith List Bool.
From SB3V Require Import Model.Script.
Import ListNotations.
Local Open Scope Z_scope.

Definition zsum (l : list Z) : Z := fold_right Z.add 0 l.
Definition zlen {A} (l : list A) : Z := Z.of_nat (length l).
Definition ep_of (rs : list Z) : Z * Z := (zsum rs, zlen rs).

(* ------------------------------------------------------------------ Monitor *)
Inductive mop := MStep (r4 : Z) (term trunc : bool) | MReset.

(* rewards of the running episode, needs_reset, rows written to the results file, total_steps *)
Record mstate := mk_m { m_rewards : list Z; m_needs_reset : bool; m_rows : list (Z * Z); m_total : Z }.
Definition m0 : mstate := mk_m [] true [] 0.

Inductive mout := MInfo (ep : option (Z * Z)) | MResetOk | MErrStep | MErrReset.

Definition reset_refused (allow needs_reset : bool) : bool := negb allow && negb needs_reset.
Definition step_refused (needs_reset : bool) : bool := needs_reset.
Definition ends (term trunc : bool) : bool := term || trunc.

Definition mon_op (allow : bool) (s : mstate) (o : mop) : mstate * mout :=
  match o with
  | MReset =>
      if reset_refused allow (m_needs_reset s) then (s, MErrReset)
      else (mk_m [] false (m_rows s) (m_total s), MResetOk)
  | MStep r te tr =>
      if step_refused (m_needs_reset s) then (s, MErrStep)
      else
        let rs := m_rewards s ++ [r] in
        if ends te tr
        then (mk_m rs true (m_rows s ++ [ep_of rs]) (m_total s + 1), MInfo (Some (ep_of rs)))
        else (mk_m rs false (m_rows s) (m_total s + 1), MInfo None)
  end.

Fixpoint mon_run (allow : bool) (s : mstate) (ops : list mop) : mstate * list mout :=
  match ops with
  | [] => (s, [])
  | o :: rest =>
      let '(s1, out) := mon_op allow s o in
      let '(s2, outs) := mon_run allow s1 rest in
      (s2, out :: outs)
  end.

(* --- specification vocabulary (history based, independent of the state) --- *)
Definition is_err (o : mout) : bool := match o with MErrStep | MErrReset => true | _ => false end.

(* the operations that were carried out (not refused) *)
Fixpoint accepted (ops : list mop) (outs : list mout) : list mop :=
  match ops, outs with
  | o :: ops', u :: outs' => if is_err u then accepted ops' outs' else o :: accepted ops' outs'
  | _, _ => []
  end.

(* rewards of the steps after the last reset of a history (acc = rewards before the history) *)
Fixpoint since_reset (acc : list Z) (h : list mop) : list Z :=
  match h with
  | [] => acc
  | MReset :: t => since_reset [] t
  | MStep r _ _ :: t => since_reset (acc ++ [r]) t
  end.

Fixpoint infos_of (outs : list mout) : list (Z * Z) :=
  match outs with
  | MInfo (Some ep) :: t => ep :: infos_of t
  | _ :: t => infos_of t
  | [] => []
  end.

(* load_results on one file: the rows in file order *)
Definition load_rows (s : mstate) : list (Z * Z) := m_rows s.

(* --- Monitor around a scripted environment (executable, used by the correspondence) --- *)
Inductive uop := UStep | UReset.

Fixpoint mon_env_run (allow : bool) (sc : script) (c : cursor) (s : mstate) (ops : list uop)
  : mstate * list mout :=
  match ops with
  | [] => (s, [])
  | UReset :: rest =>
      if reset_refused allow (m_needs_reset s)
      then let '(s2, outs) := mon_env_run allow sc c s rest in (s2, MErrReset :: outs)
      else
        let '(c1, _, _) := env_reset sc c in
        let '(s1, out) := mon_op allow s MReset in
        let '(s2, outs) := mon_env_run allow sc c1 s1 rest in (s2, out :: outs)
  | UStep :: rest =>
      if step_refused (m_needs_reset s)
      then let '(s2, outs) := mon_env_run allow sc c s rest in (s2, MErrStep :: outs)
      else
        let '(c1, st) := env_step sc c in
        let '(s1, out) := mon_op allow s (MStep (st_r4 st) (st_term st) (st_trunc st)) in
        let '(s2, outs) := mon_env_run allow sc c1 s1 rest in (s2, out :: outs)
  end.

(* ------------------------------------------------------------------ VecMonitor, one sub-environment *)
Record vacc := mk_v { v_ret : Z; v_len : Z }.
Definition v0 : vacc := mk_v 0 0.

Definition vm_add (a : vacc) (r : Z) : vacc := mk_v (v_ret a + r) (v_len a + 1).

Definition vm_env_step (a : vacc) (r : Z) (done : bool) : vacc * option (Z * Z) :=
  let a' := vm_add a r in
  if done then (v0, Some (v_ret a', v_len a')) else (a', None).

(* column history of one sub-environment: Some (r, done) = a vector step, None = a vector reset *)
Definition vcell := option (Z * bool).

Definition vm_env_op (a : vacc) (c : vcell) : vacc * option (Z * Z) :=
  match c with
  | Some (r, d) => vm_env_step a r d
  | None => (v0, None)
  end.

Fixpoint vm_env_run (a : vacc) (h : list vcell) : vacc * list (option (Z * Z)) :=
  match h with
  | [] => (a, [])
  | c :: rest =>
      let '(a1, o) := vm_env_op a c in
      let '(a2, os) := vm_env_run a1 rest in
      (a2, o :: os)
  end.

(* rewards of the steps after the last episode end or reset *)
Fixpoint since_boundary (acc : list Z) (h : list vcell) : list Z :=
  match h with
  | [] => acc
  | None :: t => since_boundary [] t
  | Some (r, d) :: t => if d then since_boundary [] t else since_boundary (acc ++ [r]) t
  end.

(* the whole wrapper: one accumulator per sub-environment, file rows in index order inside a step *)
Inductive vop := VStep (cells : list (Z * bool)) | VReset.

Definition vm_vec_step (accs : list vacc) (cells : list (Z * bool)) : list vacc * list (option (Z * Z)) :=
  let res := map (fun ac => vm_env_step (fst ac) (fst (snd ac)) (snd (snd ac))) (combine accs cells) in
  (map fst res, map snd res).

Fixpoint somes {A} (l : list (option A)) : list A :=
  match l with
  | Some x :: t => x :: somes t
  | None :: t => somes t
  | [] => []
  end.

Definition vm_vec_op (st : list vacc * list (Z * Z)) (o : vop) : (list vacc * list (Z * Z)) * list (option (Z * Z)) :=
  let '(accs, rows) := st in
  match o with
  | VReset => ((map (fun _ => v0) accs, rows), map (fun _ => None) accs)
  | VStep cells =>
      let '(accs', infos) := vm_vec_step accs cells in
      ((accs', rows ++ somes infos), infos)
  end.

(* --- DummyVecEnv of scripted environments + VecMonitor (executable) --- *)
(* a sub-environment of DummyVecEnv: step, and reset at once when the episode ended *)
Definition dv_step (sc : script) (c : cursor) : cursor * (Z * bool) :=
  let '(c1, st) := env_step sc c in
  let d := st_term st || st_trunc st in
  if d then let '(c2, _, _) := env_reset sc c1 in (c2, (st_r4 st, d)) else (c1, (st_r4 st, d)).

Definition dv_reset (sc : script) (c : cursor) : cursor :=
  let '(c1, _, _) := env_reset sc c in c1.

Fixpoint vm_scripted_run (scs : list script) (cs : list cursor) (st : list vacc * list (Z * Z)) (ops : list uop)
  : list (Z * Z) * list (list (option (Z * Z))) :=
  match ops with
  | [] => (snd st, [])
  | UReset :: rest =>
      let cs1 := map (fun sc_c => dv_reset (fst sc_c) (snd sc_c)) (combine scs cs) in
      let '(st1, infos) := vm_vec_op st VReset in
      let '(rows, outs) := vm_scripted_run scs cs1 st1 rest in (rows, infos :: outs)
  | UStep :: rest =>
      let res := map (fun sc_c => dv_step (fst sc_c) (snd sc_c)) (combine scs cs) in
      let '(st1, infos) := vm_vec_op st (VStep (map snd res)) in
      let '(rows, outs) := vm_scripted_run scs (map fst res) st1 rest in (rows, infos :: outs)
  end.

(* ---- load_results over several monitor files (extension): every file has a header t_start and rows (t, row) with t relative to
   ITS t_start; the reader adds the file's own t_start to its rows, concatenates, and sorts by the absolute time ---- *)
Section LoadResults.
Context {A : Type}.
Definition mfile := (Z * list (Z * A))%type.          (* t_start, rows (relative t, content); times in microseconds *)

Fixpoint insert_by_t (x : Z * A) (l : list (Z * A)) : list (Z * A) :=
  match l with
  | [] => [x]
  | y :: r => if fst x <=? fst y then x :: l else y :: insert_by_t x r
  end.
Definition sort_by_t (l : list (Z * A)) : list (Z * A) := fold_right insert_by_t [] l.

Definition absolute_rows (f : mfile) : list (Z * A) := map (fun tr => (fst f + fst tr, snd tr)) (snd f).
Definition load_results_model (files : list mfile) : list A := map snd (sort_by_t (flat_map absolute_rows files)).
End LoadResults.
