(* C09 - model of BaseAlgorithm.save / load (base_class.py): the attribute dictionary is split into
   data (JSON / pickled blobs), state dicts and torch variables, and recombined.  Definitions only. *)
From Coq Require Import List ZArith Bool String.
From SB3V Require Import Model.JsonCodec.
Import ListNotations.

(* an attribute: plain data (anything that goes through data_to_json), a module / optimizer identified by the
   content of its state dict, or a bare torch variable *)
Inductive attr := AData (v : jv) | AModule (sd : Z) | AVar (t : Z).
Definition obj := list (string * attr).   (* __dict__; the first binding of a name is the live one *)

Fixpoint lookup (n : string) (o : obj) : option attr :=
  match o with
  | [] => None
  | (m, a) :: r => if String.eqb n m then Some a else lookup n r
  end.

Definition mem (n : string) (l : list string) : bool := existsb (String.eqb n) l.

(* __dict__.update(new): new bindings shadow the old ones *)
Definition update (o new : obj) : obj := new ++ o.

(* what save() leaves out of `data`: (exclude + default exclusions) - include, plus the top-level names of
   everything saved as state dict or torch variable *)
Definition excluded (default_excl excl incl torch_names : list string) (n : string) : bool :=
  ((mem n excl || mem n default_excl) && negb (mem n incl)) || mem n torch_names.

Record archive := mk_arch { a_data : list (string * stored); a_params : list (string * Z); a_vars : list (string * Z) }.

Fixpoint data_of (o : obj) (ex : string -> bool) : list (string * jv) :=
  match o with
  | [] => []
  | (n, AData v) :: r => if ex n then data_of r ex else (n, v) :: data_of r ex
  | (n, AModule sd) :: r => if ex n then data_of r ex else (n, JOpaque sd) :: data_of r ex
  | (n, AVar t) :: r => if ex n then data_of r ex else (n, JOpaque t) :: data_of r ex
  end.

Fixpoint params_of (o : obj) (names : list string) : list (string * Z) :=
  match names with
  | [] => []
  | n :: r => match lookup n o with Some (AModule sd) => (n, sd) :: params_of o r | _ => params_of o r end
  end.

Fixpoint vars_of (o : obj) (names : list string) : list (string * Z) :=
  match names with
  | [] => []
  | n :: r => match lookup n o with Some (AVar t) => (n, t) :: vars_of o r | _ => vars_of o r end
  end.

Definition save (o : obj) (default_excl excl incl sd_names var_names : list string) : archive :=
  mk_arch (data_to_json (data_of o (excluded default_excl excl incl (sd_names ++ var_names))))
          (params_of o sd_names) (vars_of o var_names).

(* load(): fresh object from the constructor, __dict__.update(data), _setup_model() (creates the modules and
   whatever else it recomputes: `setup`), set_parameters(params), torch variables put back *)
Definition load (fresh : obj) (setup : obj -> obj) (a : archive) : obj :=
  let o1 := update fresh (map (fun kv => (fst kv, AData (snd kv))) (json_to_data (a_data a))) in
  let o2 := setup o1 in
  let o3 := update o2 (map (fun kv => (fst kv, AModule (snd kv))) (a_params a)) in
  update o3 (map (fun kv => (fst kv, AVar (snd kv))) (a_vars a)).

(* get_parameters / set_parameters *)
Definition get_parameters (o : obj) (sd_names : list string) : list (string * Z) := params_of o sd_names.
Definition set_parameters (o : obj) (p : list (string * Z)) : obj := update o (map (fun kv => (fst kv, AModule (snd kv))) p).
