(* Model of ReplayBuffer / DictReplayBuffer (stable_baselines3/common/buffers.py).
   Definitions only; proofs are in Proofs/ReplayProofs.v.
   Observations, actions, rewards are integer tags; the storage arrays
   observations / next_observations / actions / rewards / dones / timeouts
   [capacity, n_envs, ...] are total maps slot -> env column -> value. *)
From Coq Require Import ZArith List Bool.
Import ListNotations.
Local Open Scope Z_scope.

(* one sub-environment's part of an add() call *)
Record trans := mkT { t_obs : Z; t_next : Z; t_act : Z; t_rew : Z; t_done : bool; t_to : bool }.
Definition dtrans : trans := mkT 0 0 0 0 false false.
Definition row := list trans.                       (* one add() call: one trans per env column *)
Definition col (e : nat) (r : row) : trans := nth e r dtrans.

Definition arr (A : Type) := Z -> nat -> A.
Definition upd {A} (a : arr A) (i : Z) (f : nat -> A) : arr A :=
  fun j e => if j =? i then f e else a j e.

Record rb := mkRB {
  cap : Z; nenv : Z; memopt : bool; hto : bool;
  pos : Z; full : bool;
  a_obs : arr Z; a_next : arr Z; a_act : arr Z; a_rew : arr Z; a_done : arr Z; a_to : arr Z }.

(* self.buffer_size = max(buffer_size // n_envs, 1) *)
Definition capacity (bs n : Z) : Z := Z.max (bs / n) 1.

(* constructor; None = the configuration is refused (ValueError / AssertionError):
   ReplayBuffer refuses optimize_memory_usage with handle_timeout_termination,
   DictReplayBuffer refuses optimize_memory_usage altogether *)
Definition create (dict : bool) (bs n : Z) (mo ht : bool) : option rb :=
  if mo && (ht || dict) then None
  else Some (mkRB (capacity bs n) n mo ht 0 false
                  (fun _ _ => 0) (fun _ _ => 0) (fun _ _ => 0) (fun _ _ => 0) (fun _ _ => 0) (fun _ _ => 0)).

(* self.pos += 1; if self.pos == self.buffer_size: self.full = True; self.pos = 0 *)
Definition add_cursor (p c : Z) (f : bool) : Z * bool :=
  if p + 1 =? c then (0, true) else (p + 1, f).

(* add(): every field at slot pos; the memory-optimised variant writes next_obs into
   observations[(pos + 1) % cap] AFTER writing obs (this order matters for cap = 1) and has
   no next_observations array; timeouts only when handle_timeout_termination *)
Definition add (b : rb) (r : row) : rb :=
  let p := pos b in
  let o1 := upd (a_obs b) p (fun e => t_obs (col e r)) in
  let o2 := if memopt b then upd o1 ((p + 1) mod cap b) (fun e => t_next (col e r)) else o1 in
  let nx := if memopt b then a_next b else upd (a_next b) p (fun e => t_next (col e r)) in
  let tos := if hto b then upd (a_to b) p (fun e => Z.b2z (t_to (col e r))) else a_to b in
  let '(p', f') := add_cursor p (cap b) (full b) in
  mkRB (cap b) (nenv b) (memopt b) (hto b) p' f'
       o2 nx
       (upd (a_act b) p (fun e => t_act (col e r)))
       (upd (a_rew b) p (fun e => t_rew (col e r)))
       (upd (a_done b) p (fun e => Z.b2z (t_done (col e r))))
       tos.

(* BaseBuffer.reset(): only the cursor; the arrays keep their content *)
Definition reset (b : rb) : rb :=
  mkRB (cap b) (nenv b) (memopt b) (hto b) 0 false
       (a_obs b) (a_next b) (a_act b) (a_rew b) (a_done b) (a_to b).

Definition size (b : rb) : Z := if full b then cap b else pos b.

(* sample(): the arguments (low, high) of the np.random.randint call that draws the indices,
   and the map from a draw to the slot index handed to _get_samples *)
Definition sample_bounds (b : rb) : Z * Z :=
  if memopt b && full b then (1, cap b) else (0, if full b then cap b else pos b).
Definition idx_of_draw (b : rb) (d : Z) : Z :=
  if memopt b && full b then (d + pos b) mod cap b else d.

(* _get_samples: the arguments (low, high) of the randint call that draws the env column of every element *)
Definition env_bounds (b : rb) : Z * Z := (0, nenv b).

(* _get_samples for one (slot, env) pair: (obs, action, next_obs, done, reward) *)
Definition done_mask (d t : Z) : Z := d * (1 - t).
Definition get (b : rb) (i : Z) (e : nat) : Z * Z * Z * Z * Z :=
  (a_obs b i e, a_act b i e,
   if memopt b then a_obs b ((i + 1) mod cap b) e else a_next b i e,
   done_mask (a_done b i e) (a_to b i e),
   a_rew b i e).

(* ------------------------------------------------------------------ histories *)
Inductive op := Add (r : row) | Reset.

Definition step (b : rb) (o : op) : rb :=
  match o with Add r => add b r | Reset => reset b end.
Definition run (b : rb) (ops : list op) : rb := fold_left step ops b.

(* ghost: the rows added since the last reset, oldest first *)
Definition recent_step (h : list row) (o : op) : list row :=
  match o with Add r => h ++ [r] | Reset => [] end.
Definition recent (ops : list op) : list row := fold_left recent_step ops [].

(* ------------------------------------------------------------------ for the harness *)
Fixpoint zrange (lo : Z) (n : nat) : list Z :=
  match n with O => [] | S n' => lo :: zrange (lo + 1) n' end.

(* everything sample() can return: for every draw d in [low, high) and env column e *)
Definition sample_table (b : rb) : list (Z * list (Z * Z * Z * Z * Z)) :=
  let '(lo, hi) := sample_bounds b in
  map (fun d => (d, map (fun e => get b (idx_of_draw b d) e) (seq 0 (Z.to_nat (nenv b)))))
      (zrange lo (Z.to_nat (hi - lo))).

(* observation after a history: (size, pos, full, (low, high), table) *)
Definition observe (b : rb) := (size b, pos b, full b, sample_bounds b, sample_table b).

(* ops with observation points: the harness interleaves Sample requests *)
Inductive hop := HAdd (r : row) | HReset | HObs.
Fixpoint hrun (b : rb) (ops : list hop) :=
  match ops with
  | [] => []
  | HAdd r :: rest => hrun (add b r) rest
  | HReset :: rest => hrun (reset b) rest
  | HObs :: rest => observe b :: hrun b rest
  end.
Definition hrun_from (o : option rb) (ops : list hop) :=
  match o with Some b => Some (hrun b ops) | None => None end.

(* sample(batch, env=<VecNormalize>): _normalize_obs on observations and next observations,
   _normalize_reward on rewards (fo / fr = the wrapper's normalize_obs / normalize_reward on tags);
   actions and dones are returned as stored *)
Definition get_norm (fo fr : Z -> Z) (b : rb) (i : Z) (e : nat) : Z * Z * Z * Z * Z :=
  let '(o, a, nx, d, r) := get b i e in (fo o, a, fo nx, d, fr r).
