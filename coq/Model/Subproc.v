(* C02 - protocol model of SubprocVecEnv: one parent, n workers, one FIFO pipe per direction and
   worker.  A schedule is any list of atomic actions (parent executes its next instruction / worker i
   handles one command).  Definitions only. *)
From Coq Require Import ZArith List Bool.
From SB3V Require Import Model.Script Model.VecEnv.
Import ListNotations.
Local Open Scope nat_scope.

Fixpoint set_nth {X} (i : nat) (x : X) (l : list X) : list X :=
  match l, i with
  | [], _ => []
  | _ :: r, 0 => x :: r
  | y :: r, S j => y :: set_nth j x r
  end.

Section Protocol.
Context {W C R : Type}.          (* worker state, command, reply *)
(* one iteration of the worker loop: cmd, data = remote.recv(); ...; remote.send(reply) *)
Variable wstep : W -> C -> W * R.

(* parent instructions: remotes[i].send(c) / remotes[i].recv() *)
Inductive instr := Send (i : nat) (c : C) | Recv (i : nat).

Record worker := mk_worker { inbox : list C; outbox : list R; wst : W }.
Record config := mk_config { pc : list instr; log : list (nat * R); workers : list worker }.

Inductive action := ActP | ActW (i : nat).

(* one atomic action; None = the action is not enabled (recv on an empty pipe blocks) *)
Definition step (cfg : config) (a : action) : option config :=
  match a with
  | ActP =>
      match pc cfg with
      | [] => None
      | Send i c :: rest =>
          match nth_error (workers cfg) i with
          | Some w => Some (mk_config rest (log cfg) (set_nth i (mk_worker (inbox w ++ [c]) (outbox w) (wst w)) (workers cfg)))
          | None => None
          end
      | Recv i :: rest =>
          match nth_error (workers cfg) i with
          | Some w =>
              match outbox w with
              | r :: q => Some (mk_config rest (log cfg ++ [(i, r)]) (set_nth i (mk_worker (inbox w) q (wst w)) (workers cfg)))
              | [] => None
              end
          | None => None
          end
      end
  | ActW i =>
      match nth_error (workers cfg) i with
      | Some w =>
          match inbox w with
          | c :: q =>
              let '(s', r) := wstep (wst w) c in
              Some (mk_config (pc cfg) (log cfg) (set_nth i (mk_worker q (outbox w ++ [r]) s') (workers cfg)))
          | [] => None
          end
      | None => None
      end
  end.

Fixpoint exec (cfg : config) (sched : list action) : option config :=
  match sched with
  | [] => Some cfg
  | a :: r => match step cfg a with Some c' => exec c' r | None => None end
  end.

Definition init (prog : list instr) (sts : list W) : config :=
  mk_config prog [] (map (fun s => mk_worker [] [] s) sts).

(* ---- the sequential reference (DummyVecEnv order): a command is executed when it is issued, its reply
        waits in a queue until the parent collects it ---- *)
Record sworker := mk_sworker { sw_queue : list R; sw_st : W }.
Record sconfig := mk_sconfig { s_log : list (nat * R); s_workers : list sworker }.

Definition seq_instr (sq : sconfig) (ins : instr) : option sconfig :=
  match ins with
  | Send i c =>
      match nth_error (s_workers sq) i with
      | Some w => let '(s', r) := wstep (sw_st w) c in
                  Some (mk_sconfig (s_log sq) (set_nth i (mk_sworker (sw_queue w ++ [r]) s') (s_workers sq)))
      | None => None
      end
  | Recv i =>
      match nth_error (s_workers sq) i with
      | Some w =>
          match sw_queue w with
          | r :: q => Some (mk_sconfig (s_log sq ++ [(i, r)]) (set_nth i (mk_sworker q (sw_st w)) (s_workers sq)))
          | [] => None
          end
      | None => None
      end
  end.

Fixpoint seq_exec (sq : sconfig) (prog : list instr) : option sconfig :=
  match prog with
  | [] => Some sq
  | ins :: r => match seq_instr sq ins with Some sq' => seq_exec sq' r | None => None end
  end.

Definition sinit (sts : list W) : sconfig := mk_sconfig [] (map (fun s => mk_sworker [] s) sts).

(* a worker handling a list of commands on its own *)
Fixpoint wrun (s : W) (cs : list C) : W * list R :=
  match cs with
  | [] => (s, [])
  | c :: r => let '(s1, x) := wstep s c in let '(s2, xs) := wrun s1 r in (s2, x :: xs)
  end.

(* ---- parent programs of the SubprocVecEnv methods, as data: phases over target workers ---- *)
(* send to every target, in target order / receive from every target, in target order *)
Definition sends (targets : list nat) (payload : nat -> C) : list instr := map (fun i => Send i (payload i)) targets.
Definition recvs (targets : list nat) : list instr := map Recv targets.
Definition method_prog (c : list nat * (nat -> C)) : list instr := sends (fst c) (snd c) ++ recvs (fst c).
Definition history_prog (calls : list (list nat * (nat -> C))) : list instr := flat_map method_prog calls.
(* ---- the DummyVecEnv way of running a method over target sub-environments:
        for i in targets: results.append(handle(env_i, command_i)), threading the env states ---- *)
Fixpoint dloop (sts : list W) (ts : list nat) (payload : nat -> C) : list W * list R :=
  match ts with
  | [] => (sts, [])
  | t :: r =>
      match nth_error sts t with
      | Some s => let '(s', x) := wstep s (payload t) in
                  let '(sts', xs) := dloop (set_nth t s' sts) r payload in (sts', x :: xs)
      | None => dloop sts r payload
      end
  end.
(* a history of method calls (targets, commands): the values returned, tagged with the sub-environment *)
Fixpoint dhistory (sts : list W) (calls : list (list nat * (nat -> C))) : list W * list (nat * R) :=
  match calls with
  | [] => (sts, [])
  | (ts, p) :: r =>
      let '(sts1, xs) := dloop sts ts p in
      let '(sts2, lg) := dhistory sts1 r in (sts2, combine ts xs ++ lg)
  end.
(* the replies that belong to worker i among the replies xs to the targets ts *)
Definition proj_replies (i : nat) (ts : list nat) (xs : list R) : list R :=
  map snd (filter (fun p => Nat.eqb (fst p) i) (combine ts xs)).
End Protocol.

Arguments instr : clear implicits.
Arguments worker : clear implicits.
Arguments config : clear implicits.
Arguments sworker : clear implicits.
Arguments sconfig : clear implicits.

(* the communication skeleton extracted from subproc_vec_env.py (translate/skeleton.py -> Gen/Frag_Subproc.v) *)
Inductive cmdkind := KStep | KReset | KRender | KClose | KGetSpaces | KEnvMethod | KGetAttr | KHasAttr | KSetAttr | KIsWrapped.
(* over_all = iterates self.remotes; otherwise target_remotes = _get_target_remotes(indices) *)
(* what a SendEach loop sends to worker i: the i-th action / (seeds[i], options[i]) / the caller's arguments (the same for every
   target) / anything else *)
Inductive payload := PayOwnAction | PayOwnSeedOption | PayCallArgs | PayOther.
(* Unrecognised = the extractor met pipe traffic outside these two shapes (no lemma accepts it) *)
Inductive phase := SendEach (over_all : bool) (k : cmdkind) | RecvEach (over_all : bool) | Unrecognised.

Definition phase_prog {C} (n : nat) (targets : list nat) (payload : cmdkind -> nat -> C) (ph : phase) : list (instr C) :=
  match ph with
  | SendEach all k => sends (if all then seq 0 n else targets) (payload k)
  | RecvEach all => recvs (if all then seq 0 n else targets)
  | Unrecognised => []
  end.
Definition skel_prog {C} (n : nat) (targets : list nat) (payload : cmdkind -> nat -> C) (sk : list phase) : list (instr C) :=
  flat_map (phase_prog n targets payload) sk.

(* the skeletons the model expects (interface lemmas in Proofs/SubprocProofs.v compare them with the
   regenerated ones) *)
Definition model_skel_step : list phase := [SendEach true KStep; RecvEach true].
Definition model_skel_reset : list phase := [SendEach true KReset; RecvEach true].
Definition model_skel_targets (k : cmdkind) : list phase := [SendEach false k; RecvEach false].

(* ---------- instance: scripted sub-environments in the workers ---------- *)
Inductive scmd :=
  | CmdStep (a : Z) | CmdReset (seed opt : option Z) | CmdGetAttr | CmdSetAttr (v : Z) | CmdEnvMethod (arg : Z) | CmdIsWrapped | CmdOther
  (* round 5: has_attr(name); env_method on a sub-environment method that creates (true) / deletes (false) the dynamic attribute and
     returns whether it existed before; set_attr on an attribute that does not exist yet (creates it) *)
  | CmdHasAttr (name : nat) | CmdDynMethod (create : bool) | CmdSetMade.
Inductive sres :=
  | ResStep (out : Z * Z * bool * Z * bool * option Z) (ri : option Z)
  | ResReset (obs : Z) (ri : option Z)
  | ResAttr (v : Z) | ResNone | ResMethod (env_id : Z) (arg : Z) | ResBool (b : bool).
(* worker-local variables: env, reset_info, plus the attribute the harness reads/writes and the env id *)
(* ws_wrapped: the sub-environment is wrapped with the gym wrapper class asked for by env_is_wrapped *)
(* ws_dyn / ws_made: the attribute created and deleted by the sub-environment's own methods / created by set_attr exists NOW *)
Record wstate := mk_wstate { ws_env : senv; ws_ri : option Z; ws_attr : Z; ws_id : Z; ws_wrapped : bool; ws_dyn : bool; ws_made : bool }.

(* attribute names of the harness: 0 = exists from the start (attr_value), 1 = never exists, 2 = created / deleted by env methods,
   3 = created by set_attr; the worker's has_attr branch answers from the sub-environment as it is when the command is handled *)
Definition attr_present (w : wstate) (name : nat) : bool :=
  match name with 0 => true | 1 => false | 2 => ws_dyn w | 3 => ws_made w | _ => false end.

Definition sworker_step (w : wstate) (c : scmd) : wstate * sres :=
  match c with
  | CmdStep a =>
      let '(e, ri, out, _) := sub_step sc_step sc_reset (ws_env w) (ws_ri w) a in
      (mk_wstate e ri (ws_attr w) (ws_id w) (ws_wrapped w) (ws_dyn w) (ws_made w), ResStep (sout_tuple out) ri)
  | CmdReset seed opt =>
      let '(e, ri, obs, _) := sub_reset (A:=Z) sc_reset (ws_env w) seed opt in
      (mk_wstate e ri (ws_attr w) (ws_id w) (ws_wrapped w) (ws_dyn w) (ws_made w), ResReset obs ri)
  | CmdGetAttr => (w, ResAttr (ws_attr w))
  | CmdSetAttr v => (mk_wstate (ws_env w) (ws_ri w) v (ws_id w) (ws_wrapped w) (ws_dyn w) (ws_made w), ResNone)
  | CmdEnvMethod arg => (w, ResMethod (ws_id w) arg)
  | CmdIsWrapped => (w, ResBool (ws_wrapped w))
  | CmdOther => (w, ResNone)
  | CmdHasAttr name => (w, ResBool (attr_present w name))
  | CmdDynMethod b => (mk_wstate (ws_env w) (ws_ri w) (ws_attr w) (ws_id w) (ws_wrapped w) b (ws_made w), ResBool (ws_dyn w))
  | CmdSetMade => (mk_wstate (ws_env w) (ws_ri w) (ws_attr w) (ws_id w) (ws_wrapped w) (ws_dyn w) true, ResNone)
  end.

(* calls of the harness: VecEnv ops + attribute / method calls over index subsets *)
Inductive call :=
  | KaReset | KaStep (acts : list Z) | KaSeed (s : Z) | KaSetOptions (os : list (option Z))
  | KaGetAttr (targets : list nat) | KaSetAttr (v : Z) (targets : list nat) | KaEnvMethod (arg : Z) (targets : list nat)
  | KaIsWrapped (targets : list nat)
  (* round 5: has_attr(name) asks ALL workers (no indices parameter); the attribute-changing calls take index subsets *)
  | KaHasAttr (name : nat) | KaDynMethod (create : bool) (targets : list nat) | KaSetMade (targets : list nat).

(* parent-side bookkeeping shared with DummyVecEnv (base class): pending seeds / options *)
Fixpoint calls_prog (n : nat) (seeds opts : list (option Z)) (cs : list call) : list (instr scmd) :=
  match cs with
  | [] => []
  | KaReset :: r =>
      skel_prog n [] (fun _ i => CmdReset (nth i seeds None) (nth i opts None)) model_skel_reset
      ++ calls_prog n (repeat None n) (repeat None n) r
  | KaStep acts :: r => skel_prog n [] (fun _ i => CmdStep (nth i acts 0%Z)) model_skel_step ++ calls_prog n seeds opts r
  | KaSeed s :: r => calls_prog n (map (fun i => Some (s + Z.of_nat i)%Z) (seq 0 n)) opts r
  | KaSetOptions os :: r => calls_prog n seeds os r
  | KaGetAttr ts :: r => skel_prog n ts (fun _ _ => CmdGetAttr) (model_skel_targets KGetAttr) ++ calls_prog n seeds opts r
  | KaSetAttr v ts :: r => skel_prog n ts (fun _ _ => CmdSetAttr v) (model_skel_targets KSetAttr) ++ calls_prog n seeds opts r
  | KaEnvMethod a ts :: r => skel_prog n ts (fun _ _ => CmdEnvMethod a) (model_skel_targets KEnvMethod) ++ calls_prog n seeds opts r
  | KaIsWrapped ts :: r => skel_prog n ts (fun _ _ => CmdIsWrapped) (model_skel_targets KIsWrapped) ++ calls_prog n seeds opts r
  | KaHasAttr nm :: r => skel_prog n (seq 0 n) (fun _ _ => CmdHasAttr nm) (model_skel_targets KHasAttr) ++ calls_prog n seeds opts r
  | KaDynMethod b ts :: r => skel_prog n ts (fun _ _ => CmdDynMethod b) (model_skel_targets KEnvMethod) ++ calls_prog n seeds opts r
  | KaSetMade ts :: r => skel_prog n ts (fun _ _ => CmdSetMade) (model_skel_targets KSetAttr) ++ calls_prog n seeds opts r
  end.

(* the same history as a list of method calls (targets, commands) *)
Fixpoint calls_methods (n : nat) (seeds opts : list (option Z)) (cs : list call) : list (list nat * (nat -> scmd)) :=
  match cs with
  | [] => []
  | KaReset :: r => (seq 0 n, fun i => CmdReset (nth i seeds None) (nth i opts None)) :: calls_methods n (repeat None n) (repeat None n) r
  | KaStep acts :: r => (seq 0 n, fun i => CmdStep (nth i acts 0%Z)) :: calls_methods n seeds opts r
  | KaSeed s :: r => calls_methods n (map (fun i => Some (s + Z.of_nat i)%Z) (seq 0 n)) opts r
  | KaSetOptions os :: r => calls_methods n seeds os r
  | KaGetAttr ts :: r => (ts, fun _ => CmdGetAttr) :: calls_methods n seeds opts r
  | KaSetAttr v ts :: r => (ts, fun _ => CmdSetAttr v) :: calls_methods n seeds opts r
  | KaEnvMethod a ts :: r => (ts, fun _ => CmdEnvMethod a) :: calls_methods n seeds opts r
  | KaIsWrapped ts :: r => (ts, fun _ => CmdIsWrapped) :: calls_methods n seeds opts r
  | KaHasAttr nm :: r => (seq 0 n, fun _ => CmdHasAttr nm) :: calls_methods n seeds opts r
  | KaDynMethod b ts :: r => (ts, fun _ => CmdDynMethod b) :: calls_methods n seeds opts r
  | KaSetMade ts :: r => (ts, fun _ => CmdSetMade) :: calls_methods n seeds opts r
  end.
(* legal calls: indices in range, one action / one options entry per sub-environment (a shorter action list is an
   illegal call: the real DummyVecEnv raises IndexError, the real SubprocVecEnv blocks - outside the property's quantifier) *)
Definition call_targets_ok (n : nat) (c : call) : Prop :=
  match c with
  | KaGetAttr ts | KaSetAttr _ ts | KaEnvMethod _ ts | KaIsWrapped ts | KaDynMethod _ ts | KaSetMade ts => Forall (fun t => t < n) ts
  | KaStep acts => length acts = n
  | KaSetOptions os => length os = n
  | _ => True
  end.

Definition winit (scs : list script) : list wstate :=
  map (fun '(i, sc) => mk_wstate (sc, cursor0) None 0%Z (Z.of_nat i) false false false) (combine (seq 0 (length scs)) scs).
(* with per-env "is wrapped" flags (missing flags = not wrapped) *)
Definition winitw (scs : list script) (flags : list bool) : list wstate :=
  map (fun '(i, sc) => mk_wstate (sc, cursor0) None 0%Z (Z.of_nat i) (nth i flags false) false false) (combine (seq 0 (length scs)) scs).
(* the DummyVecEnv loop semantics of a whole history, evaluated directly *)
Definition run_dummy_scripted (scs : list script) (flags : list bool) (cs : list call) : list (nat * sres) :=
  snd (dhistory sworker_step (winitw scs flags) (calls_methods (length scs) (repeat None (length scs)) (repeat None (length scs)) cs)).

(* ---- round 5: the PUBLIC answer of has_attr ---- *)
(* SubprocVecEnv.has_attr returns all([remote.recv() for remote in target_remotes]) *)
Definition has_attr_answer (replies : list sres) : bool :=
  forallb (fun r => match r with ResBool b => b | _ => false end) replies.
(* DummyVecEnv.has_attr (base class: get_attr over all sub-environments raises AttributeError or not): the attribute exists in EVERY
   sub-environment as it is NOW *)
Definition dummy_has_attr (sts : list wstate) (name : nat) : bool := forallb (fun w => attr_present w name) sts.
(* the sub-environment states after a history, by the DummyVecEnv loops *)
Definition dummy_states (scs : list script) (flags : list bool) (cs : list call) : list wstate :=
  fst (dhistory sworker_step (winitw scs flags) (calls_methods (length scs) (repeat None (length scs)) (repeat None (length scs)) cs)).

(* a schedule given as a list of choices: choice k picks the (k mod m)-th of the m enabled actions
   (parent first, then workers by index); fuel bounds the run (a complete run takes one action per parent instruction plus one per command sent: at most 2 * length prog) *)
Definition enabled {W C R} (wstep : W -> C -> W * R) (cfg : config W C R) : list action :=
  (match step wstep cfg ActP with Some _ => [ActP] | None => [] end)
  ++ flat_map (fun i => match step wstep cfg (ActW i) with Some _ => [ActW i] | None => [] end) (seq 0 (length (workers cfg))).

Fixpoint run_choices {W C R} (wstep : W -> C -> W * R) (fuel : nat) (choices : list nat) (cfg : config W C R) : config W C R :=
  match fuel with
  | 0 => cfg
  | S f =>
      match enabled wstep cfg with
      | [] => cfg
      | en =>
          let k := match choices with [] => 0 | c :: _ => c mod (length en) end in
          match step wstep cfg (nth k en ActP) with
          | Some cfg' => run_choices wstep f (tl choices) cfg'
          | None => cfg
          end
      end
  end.

(* (remaining program length, received log) of the scripted protocol model under the given choices *)
Definition run_subproc_scripted (scs : list script) (cs : list call) (choices : list nat) : nat * list (nat * sres) :=
  let prog := calls_prog (length scs) (repeat None (length scs)) (repeat None (length scs)) cs in
  let cfg := run_choices sworker_step (2 * length prog) choices (init prog (winit scs)) in
  (length (pc cfg), log cfg).
(* the sequential reference on the same program *)
Definition run_seq_scripted (scs : list script) (cs : list call) : option (list (nat * sres)) :=
  let prog := calls_prog (length scs) (repeat None (length scs)) (repeat None (length scs)) cs in
  option_map s_log (seq_exec sworker_step (sinit (winit scs)) prog).
(* the same with per-env "is wrapped" flags *)
Definition run_subproc_scripted_w (scs : list script) (flags : list bool) (cs : list call) (choices : list nat) : nat * list (nat * sres) :=
  let prog := calls_prog (length scs) (repeat None (length scs)) (repeat None (length scs)) cs in
  let cfg := run_choices sworker_step (2 * length prog) choices (init prog (winitw scs flags)) in
  (length (pc cfg), log cfg).
