(* C15 - model of VecNormalize (vec_normalize.py) over Q.  An observation of one sub-environment is a
   list of scalar channels (every component of every key, flattened); `chans` says which channels
   belong to normalised keys.  sqrt(var + epsilon) is never computed: output checks take it as a hint
   `s` and verify s*s ~ var + epsilon.  Definitions only. *)
From Coq Require Import List QArith Qminmax Qabs Bool.
From SB3V Require Import Lib.QUtil Model.RunningMoments.
Import ListNotations.
Local Open Scope Q_scope.

Record vnp := mk_vnp { p_clip_obs : Q; p_clip_rew : Q; p_gamma : Q; p_eps : Q; p_chans : list bool }.

Record vn := mk_vn {
  v_obs_rms : list rms;          (* one per channel (entries of unnormalised channels are never touched) *)
  v_ret_rms : rms;
  v_returns : list Q;            (* per sub-environment *)
  v_old_obs : list (list Q);     (* raw observations of the latest reset/step, per sub-environment *)
  v_old_rew : list Q;
  v_training : bool; v_norm_obs : bool; v_norm_reward : bool }.

Definition vn_init (p : vnp) (n_envs : nat) (training norm_obs norm_reward : bool) : vn :=
  mk_vn (map (fun _ => rms_init eps_default) (p_chans p)) (rms_init eps_default)
        (repeat 0 n_envs) [] [] training norm_obs norm_reward.

Inductive vnop :=
| OReset (obs : list (list Q))
| OStep (obs : list (list Q)) (rews : list Q) (dones : list bool)
| OSet (training norm_obs norm_reward : bool).

Definition chan_col (ch : nat) (obs : list (list Q)) : list Q := map (fun o => nth ch o 0) obs.

Definition obs_guard (training norm_obs : bool) : bool := training && norm_obs.

Definition idq_ (x : Q) : Q := x.

(* `upd` = RunningMeanStd.update (Model.RunningMoments.update, or its Qred variant when executing) *)
Section WithUpdate.
Context (upd : rms -> list Q -> rms) (red : Q -> Q).

Definition upd_obs_rms (p : vnp) (st : vn) (obs : list (list Q)) : list rms :=
  if obs_guard (v_training st) (v_norm_obs st) then
    map (fun ic => let '(i, (c, r)) := ic in if (c : bool) then upd r (chan_col i obs) else r)
        (combine (seq 0 (length (v_obs_rms st))) (combine (p_chans p) (v_obs_rms st)))
  else v_obs_rms st.

Definition acc_returns (gamma : Q) (rets rews : list Q) : list Q :=
  map (fun rr => red (fst rr * gamma + snd rr)) (combine rets rews).

Definition restart (rets : list Q) (dones : list bool) : list Q :=
  map (fun rd => if (snd rd : bool) then 0 else fst rd) (combine rets dones).

Definition vn_op (p : vnp) (st : vn) (o : vnop) : vn :=
  match o with
  | OSet t no nr => mk_vn (v_obs_rms st) (v_ret_rms st) (v_returns st) (v_old_obs st) (v_old_rew st) t no nr
  | OReset obs =>
      mk_vn (upd_obs_rms p st obs) (v_ret_rms st) (map (fun _ => 0) (v_returns st)) obs (v_old_rew st)
            (v_training st) (v_norm_obs st) (v_norm_reward st)
  | OStep obs rews dones =>
      let orms := upd_obs_rms p st obs in
      let rets := if v_training st then acc_returns (p_gamma p) (v_returns st) rews else v_returns st in
      let rrms := if v_training st then upd (v_ret_rms st) rets else v_ret_rms st in
      mk_vn orms rrms (restart rets dones) obs rews (v_training st) (v_norm_obs st) (v_norm_reward st)
  end.

Definition vn_run (p : vnp) (st : vn) (ops : list vnop) : vn := fold_left (vn_op p) ops st.
End WithUpdate.

(* ---- transforms, with s standing for sqrt(var + epsilon) ---- *)
Definition clipq (x c : Q) : Q := Qmin (Qmax x (- c)) c.
Definition normalize_s (x mean s c : Q) : Q := clipq ((x - mean) / s) c.
Definition unnormalize_s (y mean s : Q) : Q := y * s + mean.
Definition normalize_reward_s (r s c : Q) : Q := clipq (r / s) c.
Definition unnormalize_reward_s (y s : Q) : Q := y * s.

(* ---- pickling (drops venv and returns) and synchronisation ---- *)
Definition unpickle_pickle (st : vn) (n_envs : nat) : vn :=
  mk_vn (v_obs_rms st) (v_ret_rms st) (repeat 0 n_envs) (v_old_obs st) (v_old_rew st)
        (v_training st) (v_norm_obs st) (v_norm_reward st).
Definition sync (src dst : vn) : vn :=
  mk_vn (v_obs_rms src) (v_ret_rms src) (v_returns dst) (v_old_obs dst) (v_old_rew dst)
        (v_training dst) (v_norm_obs dst) (v_norm_reward dst).

(* ---- specification vocabulary (history based) ---- *)
(* observation batches of channel ch that entered the statistics, given the flags before the history *)
Fixpoint obs_batches (ch : nat) (training norm_obs : bool) (h : list vnop) : list (list Q) :=
  match h with
  | [] => []
  | OSet t no _ :: rest => obs_batches ch t no rest
  | OReset obs :: rest | OStep obs _ _ :: rest =>
      (if obs_guard training norm_obs then [chan_col ch obs] else []) ++ obs_batches ch training norm_obs rest
  end.

(* discounted return of a reward list, oldest first:  ((r0*g + r1)*g + r2) ... *)
Definition disc (g : Q) (rs : list Q) : Q := fold_left (fun acc r => acc * g + r) rs 0.

(* rewards of sub-environment i since its last episode end / the last reset, for an all-training history *)
Fixpoint rewards_since (i : nat) (acc : list Q) (h : list vnop) : list Q :=
  match h with
  | [] => acc
  | OSet _ _ _ :: rest => rewards_since i acc rest
  | OReset _ :: rest => rewards_since i [] rest
  | OStep _ rews dones :: rest =>
      if nth i dones false then rewards_since i [] rest else rewards_since i (acc ++ [nth i rews 0]) rest
  end.

(* ---- executable checks used by the correspondence (all comparisons happen inside Coq) ---- *)
Definition rms_close (rel abs : Q) (m : rms) (im iv ic : Q) : bool :=
  qclose rel abs (r_mean m) im && qclose rel abs (r_var m) iv && qclose rel abs (r_count m) ic.

(* the hint s is the square root of var + eps (relative 1e-8), and y is the clipped standardised x *)
(* th = tolerance of the hint: it is computed by the harness from the implementation's variance, which may differ
   from the model's by the statistics tolerance *)
Definition sqrt_hint_ok (th s var eps : Q) : bool :=
  Qle_bool 0 s && qclose th 0 (var + eps) (s * s).
Definition vn_run_red := vn_run update_red Qred.

(* ---- what step_wait / reset return (extension): observations and terminal observations go through ONE function,
   normalize_obs, with the statistics AFTER this operation's update; ss = sqrt(var + eps) per channel (hints) ---- *)
Fixpoint norm_vec (p : vnp) (norm_obs : bool) (chans : list bool) (ms : list rms) (ss x : list Q) : list Q :=
  match chans, ms, ss, x with
  | c :: chans', m :: ms', s :: ss', v :: x' =>
      (if norm_obs && c then normalize_s v (r_mean m) s (p_clip_obs p) else v) :: norm_vec p norm_obs chans' ms' ss' x'
  | _, _, _, _ => []
  end.

(* unnormalize_obs: the inverse expression on the normalised channels *)
Fixpoint norm_unvec (p : vnp) (norm_obs : bool) (chans : list bool) (ms : list rms) (ss y : list Q) : list Q :=
  match chans, ms, ss, y with
  | c :: chans', m :: ms', s :: ss', v :: y' =>
      (if norm_obs && c then unnormalize_s v (r_mean m) s else v) :: norm_unvec p norm_obs chans' ms' ss' y'
  | _, _, _, _ => []
  end.

Definition normalize_obs_model (p : vnp) (st : vn) (ss x : list Q) : list Q :=
  norm_vec p (v_norm_obs st) (p_chans p) (v_obs_rms st) ss x.

(* a terminal observation is transformed only for a sub-environment that is done and carries one *)
Definition term_out (p : vnp) (st : vn) (ss : list Q) (done : bool) (t : option (list Q)) : option (list Q) :=
  if negb done then t else match t with Some x => Some (normalize_obs_model p st ss x) | None => None end.

Record step_out := mk_out { o_obs : list (list Q); o_term : list (option (list Q)); o_rews : list Q }.

Definition step_outputs (p : vnp) (st : vn) (obs : list (list Q)) (rews : list Q) (dones : list bool)
           (terms : list (option (list Q))) (ss : list Q) (sr : Q) : vn * step_out :=
  let st' := vn_op update idq_ p st (OStep obs rews dones) in
  (st', mk_out (map (normalize_obs_model p st' ss) obs)
               (map (fun dt => term_out p st' ss (fst dt) (snd dt)) (combine dones terms))
               (map (fun r => if v_norm_reward st' then normalize_reward_s r sr (p_clip_rew p) else r) rews)).

(* ---- trace checker: run the history and compare with what the implementation showed after every operation;
   everything is decided inside Coq, through the model's own output functions (normalize_obs_model, term_out,
   v_old_obs / v_old_rew, and at the end unpickle_pickle and sync).  tol = tolerance for the observation statistics
   (1e-9 when the float32 batch moments are exact, 1e-5 otherwise); return statistics 1e-9; float32 outputs 1e-5 ---- *)
Record opcheck := mk_ck {
  k_obs_stats : list (option (Q * Q * Q * Q)); (* per channel: impl (mean, var, count, hint s ~ sqrt(var+eps)); None = not normalised *)
  k_ret_stats : Q * Q * Q * Q;
  k_returns : list Q;
  k_out_obs : list (list Q);                   (* per env, per channel: returned observation *)
  k_out_term : list (option (list Q * list Q)); (* per env: raw terminal observation, returned terminal observation (done envs) *)
  k_unnorm : list (list Q);                    (* per env, per channel: unnormalize_obs(returned observation) ([] = not checked) *)
  k_out_rews : list Q;                         (* per env: returned reward *)
  k_orig_obs : list (list Q);                  (* get_original_obs() *)
  k_orig_rew : list Q;                         (* get_original_reward() ([] after a reset) *)
  k_unnorm_rews : list Q }.                    (* unnormalize_reward(returned rewards) ([] = not checked) *)

Definition tol9 : Q := 1 # 1000000000.

Fixpoint stats_ok (tol : Q) (ms : list rms) (is_ : list (option (Q * Q * Q * Q))) : bool :=
  match ms, is_ with
  | m :: ms', Some (im, iv, ic, _) :: is' => rms_close tol tol m im iv ic && stats_ok tol ms' is'
  | _ :: ms', None :: is' => stats_ok tol ms' is'
  | [], [] => true
  | _, _ => false
  end.

(* the hints of the normalised channels are square roots of the model's var + eps *)
Fixpoint hints_ok (th eps : Q) (ms : list rms) (is_ : list (option (Q * Q * Q * Q))) : bool :=
  match ms, is_ with
  | m :: ms', Some (_, _, _, s) :: is' => sqrt_hint_ok th s (r_var m) eps && hints_ok th eps ms' is'
  | _ :: ms', None :: is' => hints_ok th eps ms' is'
  | _, _ => true
  end.
Definition hints_of (is_ : list (option (Q * Q * Q * Q))) : list Q :=
  map (fun o => match o with Some (_, _, _, s) => s | None => 1 end) is_.

Fixpoint all2 {A B} (f : A -> B -> bool) (a : list A) (b : list B) : bool :=
  match a, b with
  | x :: a', y :: b' => f x y && all2 f a' b'
  | [], [] => true
  | _, _ => false
  end.
Definition close5 (m i : Q) : bool := qclose (1 # 100000) (1 # 1000000) m i.
Definition vec_close (m i : list Q) : bool := all2 close5 m i.
Definition vec_eq (m i : list Q) : bool := all2 Qeq_bool m i.

Definition op_obs (o : vnop) : list (list Q) := match o with OReset obs | OStep obs _ _ => obs | OSet _ _ _ => [] end.
Definition op_rews (o : vnop) : list Q := match o with OStep _ rews _ => rews | _ => [] end.
Definition op_dones (o : vnop) : list bool := match o with OStep _ _ dones => dones | _ => [] end.
Definition is_set (o : vnop) : bool := match o with OSet _ _ _ => true | _ => false end.

Definition check_state (tol : Q) (p : vnp) (st : vn) (o : vnop) (k : opcheck) : list bool :=
  let ms := v_obs_rms st in
  let th := 4 * tol + (1 # 100000000) in
  let ss := hints_of (k_obs_stats k) in
  let '(_, _, _, sr) := k_ret_stats k in
  [ stats_ok tol ms (k_obs_stats k);
    (let '(im, iv, ic, _) := k_ret_stats k in rms_close tol9 tol9 (v_ret_rms st) im iv ic);
    forallb (fun b => b) (qclose_list tol9 tol9 (v_returns st) (k_returns k));
    (* returned observations and terminal observations = the model's normalize_obs_model / term_out *)
    is_set o ||
    (hints_ok th (p_eps p) ms (k_obs_stats k)
     && all2 (fun x y => vec_close (normalize_obs_model p st ss x) y) (op_obs o) (k_out_obs k)
     && all2 (fun d t => match t with
                         | Some (x, y) => match term_out p st ss d (Some x) with Some z => d && vec_close z y | None => false end
                         | None => true
                         end) (op_dones o) (k_out_term k));
    (* returned rewards *)
    all2 (fun r y => close5 (if v_norm_reward st then normalize_reward_s r sr (p_clip_rew p) else r) y) (op_rews o) (k_out_rews k)
    && (negb (v_norm_reward st) || sqrt_hint_ok (1 # 100000000) sr (r_var (v_ret_rms st)) (p_eps p));
    (* unnormalize_obs of the returned observation, unnormalize_reward of the returned rewards: the inverse expressions when the
       flag is on, the identity when it is off *)
    match k_unnorm k with
    | [] => true
    | us => all2 (fun y u => vec_close (norm_unvec p (v_norm_obs st) (p_chans p) ms ss y) u) (k_out_obs k) us
    end
    && match k_unnorm_rews k with
       | [] => true
       | us => all2 (fun y u => close5 (if v_norm_reward st then unnormalize_reward_s y sr else y) u) (k_out_rews k) us
       end;
    (* get_original_obs / get_original_reward = the raw values of the latest step (old_obs / old_reward of the model) *)
    is_set o || (all2 vec_eq (v_old_obs st) (k_orig_obs k) && (match o with OStep _ _ _ => vec_eq (v_old_rew st) (k_orig_rew k) | _ => true end)) ].

(* what save/load and sync_envs_normalization must show, checked on the model's unpickle_pickle / sync at the end *)
Record fincheck := mk_fin {
  f_loaded_stats : list (option (Q * Q * Q * Q)); f_loaded_ret : Q * Q * Q * Q; f_loaded_returns : list Q;
  f_synced_stats : list (option (Q * Q * Q * Q)); f_synced_ret : Q * Q * Q * Q }.

Definition final_check (tol : Q) (st : vn) (n_envs : nat) (other : vn) (f : fincheck) : list bool :=
  let l := unpickle_pickle st n_envs in
  let s := sync st other in
  [ stats_ok tol (v_obs_rms l) (f_loaded_stats f);
    (let '(im, iv, ic, _) := f_loaded_ret f in rms_close tol9 tol9 (v_ret_rms l) im iv ic);
    vec_eq (v_returns l) (f_loaded_returns f);
    stats_ok tol (v_obs_rms s) (f_synced_stats f);
    (let '(im, iv, ic, _) := f_synced_ret f in rms_close tol9 tol9 (v_ret_rms s) im iv ic) ].

Fixpoint vn_trace (tol : Q) (p : vnp) (st : vn) (ops : list (vnop * opcheck)) (n_envs : nat) (other : vn) (f : fincheck)
  : list (list bool) * list bool :=
  match ops with
  | [] => ([], final_check tol st n_envs other f)
  | (o, k) :: rest =>
      let st' := vn_op update_red Qred p st o in
      let '(rows, fin) := vn_trace tol p st' rest n_envs other f in
      (check_state tol p st' o k :: rows, fin)
  end.

(* RunningMeanStd alone: batches through update, then other statistics through combine *)
Definition rms_trace (eps : Q) (bs : list (list Q)) (others : list (list (list Q))) (im iv ic : Q) : bool :=
  let a := fold_left update_red bs (rms_init eps) in
  let a' := fold_left (fun acc obs => let o := fold_left update_red obs (rms_init eps) in
                         let c := rms_combine acc o in mk_rms (Qred (r_mean c)) (Qred (r_var c)) (Qred (r_count c))) others a in
  rms_close tol9 tol9 a' im iv ic.
