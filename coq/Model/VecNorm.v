(* C15 - model of VecNormalize (vec_normalize.py) over Q.  An observation of one sub-environment is a
   list of scalar channels (every component of every key, flattened); `chans` says which channels
   belong to normalised keys.  sqrt(var + epsilon) is never computed: output checks take it as a hint
   `s` and verify s*s ~ var + epsilon.  Definitions only. *)
From Coq Require Import List QArith Qminmax Qabs Bool.
From SB3V Require Import Lib.QUtil Model.RunningMoments.
Import ListNotations.
Local Open Scope Q_scope.

Record vnp := mk_vnp { p_clip_obs : Q; p_clip_rew : Q; p_gamma : Q; p_eps : Q; p_chans : list bool }.

Record vn := mk_vn {
  v_obs_rms : list rms;          (* one per channel (entries of unnormalised channels are never touched) *)
  v_ret_rms : rms;
  v_returns : list Q;            (* per sub-environment *)
  v_old_obs : list (list Q);     (* raw observations of the latest reset/step, per sub-environment *)
  v_old_rew : list Q;
  v_training : bool; v_norm_obs : bool; v_norm_reward : bool }.

Definition vn_init (p : vnp) (n_envs : nat) (training norm_obs norm_reward : bool) : vn :=
  mk_vn (map (fun _ => rms_init eps_default) (p_chans p)) (rms_init eps_default)
        (repeat 0 n_envs) [] [] training norm_obs norm_reward.

Inductive vnop :=
| OReset (obs : list (list Q))
| OStep (obs : list (list Q)) (rews : list Q) (dones : list bool)
| OSet (training norm_obs norm_reward : bool).

Definition chan_col (ch : nat) (obs : list (list Q)) : list Q := map (fun o => nth ch o 0) obs.

Definition obs_guard (training norm_obs : bool) : bool := training && norm_obs.

(* `upd` = RunningMeanStd.update (Model.RunningMoments.update, or its Qred variant when executing) *)
Section WithUpdate.
Context (upd : rms -> list Q -> rms) (red : Q -> Q).

Definition upd_obs_rms (p : vnp) (st : vn) (obs : list (list Q)) : list rms :=
  if obs_guard (v_training st) (v_norm_obs st) then
    map (fun ic => let '(i, (c, r)) := ic in if (c : bool) then upd r (chan_col i obs) else r)
        (combine (seq 0 (length (v_obs_rms st))) (combine (p_chans p) (v_obs_rms st)))
  else v_obs_rms st.

Definition acc_returns (gamma : Q) (rets rews : list Q) : list Q :=
  map (fun rr => red (fst rr * gamma + snd rr)) (combine rets rews).

Definition restart (rets : list Q) (dones : list bool) : list Q :=
  map (fun rd => if (snd rd : bool) then 0 else fst rd) (combine rets dones).

Definition vn_op (p : vnp) (st : vn) (o : vnop) : vn :=
  match o with
  | OSet t no nr => mk_vn (v_obs_rms st) (v_ret_rms st) (v_returns st) (v_old_obs st) (v_old_rew st) t no nr
  | OReset obs =>
      mk_vn (upd_obs_rms p st obs) (v_ret_rms st) (map (fun _ => 0) (v_returns st)) obs (v_old_rew st)
            (v_training st) (v_norm_obs st) (v_norm_reward st)
  | OStep obs rews dones =>
      let orms := upd_obs_rms p st obs in
      let rets := if v_training st then acc_returns (p_gamma p) (v_returns st) rews else v_returns st in
      let rrms := if v_training st then upd (v_ret_rms st) rets else v_ret_rms st in
      mk_vn orms rrms (restart rets dones) obs rews (v_training st) (v_norm_obs st) (v_norm_reward st)
  end.

Definition vn_run (p : vnp) (st : vn) (ops : list vnop) : vn := fold_left (vn_op p) ops st.
End WithUpdate.

(* ---- transforms, with s standing for sqrt(var + epsilon) ---- *)
Definition clipq (x c : Q) : Q := Qmin (Qmax x (- c)) c.
Definition normalize_s (x mean s c : Q) : Q := clipq ((x - mean) / s) c.
Definition unnormalize_s (y mean s : Q) : Q := y * s + mean.
Definition normalize_reward_s (r s c : Q) : Q := clipq (r / s) c.
Definition unnormalize_reward_s (y s : Q) : Q := y * s.

(* ---- pickling (drops venv and returns) and synchronisation ---- *)
Definition unpickle_pickle (st : vn) (n_envs : nat) : vn :=
  mk_vn (v_obs_rms st) (v_ret_rms st) (repeat 0 n_envs) (v_old_obs st) (v_old_rew st)
        (v_training st) (v_norm_obs st) (v_norm_reward st).
Definition sync (src dst : vn) : vn :=
  mk_vn (v_obs_rms src) (v_ret_rms src) (v_returns dst) (v_old_obs dst) (v_old_rew dst)
        (v_training dst) (v_norm_obs dst) (v_norm_reward dst).

(* ---- specification vocabulary (history based) ---- *)
(* observation batches of channel ch that entered the statistics, given the flags before the history *)
Fixpoint obs_batches (ch : nat) (training norm_obs : bool) (h : list vnop) : list (list Q) :=
  match h with
  | [] => []
  | OSet t no _ :: rest => obs_batches ch t no rest
  | OReset obs :: rest | OStep obs _ _ :: rest =>
      (if obs_guard training norm_obs then [chan_col ch obs] else []) ++ obs_batches ch training norm_obs rest
  end.

(* discounted return of a reward list, oldest first:  ((r0*g + r1)*g + r2) ... *)
Definition disc (g : Q) (rs : list Q) : Q := fold_left (fun acc r => acc * g + r) rs 0.

(* rewards of sub-environment i since its last episode end / the last reset, for an all-training history *)
Fixpoint rewards_since (i : nat) (acc : list Q) (h : list vnop) : list Q :=
  match h with
  | [] => acc
  | OSet _ _ _ :: rest => rewards_since i acc rest
  | OReset _ :: rest => rewards_since i [] rest
  | OStep _ rews dones :: rest =>
      if nth i dones false then rewards_since i [] rest else rewards_since i (acc ++ [nth i rews 0]) rest
  end.

(* ---- executable checks used by the correspondence (all comparisons happen inside Coq) ---- *)
Definition rms_close (rel abs : Q) (m : rms) (im iv ic : Q) : bool :=
  qclose rel abs (r_mean m) im && qclose rel abs (r_var m) iv && qclose rel abs (r_count m) ic.

(* the hint s is the square root of var + eps (relative 1e-8), and y is the clipped standardised x *)
Definition sqrt_hint_ok (s var eps : Q) : bool :=
  Qle_bool 0 s && qclose (1 # 100000000) 0 (var + eps) (s * s).
Definition norm_out_ok (x mean var eps s c y : Q) : bool :=
  sqrt_hint_ok s var eps && qclose (1 # 100000) (1 # 1000000) (normalize_s x mean s c) y.
Definition unnorm_out_ok (y mean var eps s x : Q) : bool :=
  sqrt_hint_ok s var eps && qclose (1 # 100000) (1 # 1000000) (unnormalize_s y mean s) x.

Definition vn_run_red := vn_run update_red Qred.

(* ---- trace checker: run the history and compare with what the implementation showed after every
   operation (statistics at rel/abs 1e-9, float32 outputs at 1e-5); everything is decided inside Coq ---- *)
Record opcheck := mk_ck {
  k_obs_stats : list (option (Q * Q * Q));  (* per channel: impl (mean, var, count); None = channel not normalised *)
  k_ret_stats : Q * Q * Q;
  k_returns : list Q;
  k_obs_outs : list (nat * (Q * Q * Q));    (* channel, (raw x, hint s ~ sqrt(var+eps), impl y): observations and terminal observations *)
  k_rew_outs : list (Q * Q * Q);            (* raw r, hint s, impl y *)
  k_unnorm : list (nat * (Q * Q * Q)) }.    (* channel, (normalised y, hint s, impl unnormalised x) *)

Definition tol9 : Q := 1 # 1000000000.

Fixpoint stats_ok (ms : list rms) (is_ : list (option (Q * Q * Q))) : bool :=
  match ms, is_ with
  | m :: ms', Some (im, iv, ic) :: is' => rms_close tol9 tol9 m im iv ic && stats_ok ms' is'
  | _ :: ms', None :: is' => stats_ok ms' is'
  | [], [] => true
  | _, _ => false
  end.

Definition check_state (p : vnp) (st : vn) (k : opcheck) : list bool :=
  let d := rms_init eps_default in
  [ stats_ok (v_obs_rms st) (k_obs_stats k);
    (let '(im, iv, ic) := k_ret_stats k in rms_close tol9 tol9 (v_ret_rms st) im iv ic);
    forallb (fun b => b) (qclose_list tol9 tol9 (v_returns st) (k_returns k));
    forallb (fun c => let '(ch, (x, s, y)) := c in
                      let m := nth ch (v_obs_rms st) d in norm_out_ok x (r_mean m) (r_var m) (p_eps p) s (p_clip_obs p) y) (k_obs_outs k);
    forallb (fun c => let '(r, s, y) := c in
                      norm_out_ok r 0 (r_var (v_ret_rms st)) (p_eps p) s (p_clip_rew p) y) (k_rew_outs k);
    forallb (fun c => let '(ch, (y, s, x)) := c in
                      let m := nth ch (v_obs_rms st) d in unnorm_out_ok y (r_mean m) (r_var m) (p_eps p) s x) (k_unnorm k) ].

Fixpoint vn_trace (p : vnp) (st : vn) (ops : list (vnop * opcheck)) : list (list bool) :=
  match ops with
  | [] => []
  | (o, k) :: rest => let st' := vn_op update_red Qred p st o in check_state p st' k :: vn_trace p st' rest
  end.

(* RunningMeanStd alone: batches through update, then other statistics through combine *)
Definition rms_trace (eps : Q) (bs : list (list Q)) (others : list (list (list Q))) (im iv ic : Q) : bool :=
  let a := fold_left update_red bs (rms_init eps) in
  let a' := fold_left (fun acc obs => let o := fold_left update_red obs (rms_init eps) in
                         let c := rms_combine acc o in mk_rms (Qred (r_mean c)) (Qred (r_var c)) (Qred (r_count c))) others a in
  rms_close tol9 tol9 a' im iv ic.
