(* C17 (build round 5) - the declared bounds of the stacked observation space.
   StackedObservations.__init__:  low = np.repeat(observation_space.low, n_stack, axis=repeat_axis)  (high alike),
   while the observations are np.concatenate of n_stack frames on the same axis.  Definitions only.
   A tensor is seen from the stacking axis as a grid: outer rows, per row the cells along the stacking axis
   (channels-first: one row whose cells are the axis-0 slices; channels-last: the rows of the last axis, cells = elements). *)
From Coq Require Import ZArith List Bool.
From SB3V Require Import Model.Wrappers.
Import ListNotations.
Local Open Scope nat_scope.

Section Grid.
Context {X : Type}.
Definition grid := list (list X).
Fixpoint gzipapp (a b : grid) : grid :=
  match a, b with x :: a', y :: b' => (x ++ y) :: gzipapp a' b' | _, _ => [] end.
(* np.concatenate(frames, axis = stacking axis); every frame has `rows` rows *)
Fixpoint gcat (rows : nat) (fs : list grid) : grid :=
  match fs with [] => repeat [] rows | f :: r => gzipapp f (gcat rows r) end.
(* np.repeat(a, n, axis = stacking axis): every cell n times in a row *)
Definition grepeat (n : nat) (g : grid) : grid := map (flat_map (fun x => repeat x n)) g.
(* the bounds of n concatenated frames: n copies side by side (np.tile on the stacking axis) *)
Definition gtile (n : nat) (g : grid) : grid := gcat (length g) (repeat g n).
End Grid.
Arguments grid : clear implicits.

(* bounds b of a cell admit the cell x: P b x.  A grid of observations within a grid of bounds *)
Definition gwithin {B X} (P : B -> X -> Prop) (bg : grid B) (xg : grid X) : Prop := Forall2 (Forall2 P) bg xg.
(* the bounds do not vary along the stacking axis *)
Definition guniform {B} (bg : grid B) : Prop := Forall (fun row => exists b k, row = repeat b k) bg.

(* every observation / terminal observation of a history *)
Definition fevent_ok {F} (Q : F -> Prop) (ev : fevent F) : Prop :=
  match ev with
  | FReset o => Q o
  | FStep o _ term => Q o /\ match term with Some t => Q t | None => True end
  end.

(* ---------- tensors ---------- *)
Definition tsize (s : list nat) : nat := fold_right Nat.mul 1 s.
Definition grid_of (cf : bool) (t : tensor) : grid (list Z) :=
  if cf then [chunks (length (t_data t)) (tsize (tl (t_shape t))) (t_data t)]
  else map (map (fun x => [x])) (rows t).
Definition ungrid (g : grid (list Z)) : list Z := concat (concat g).
Definition stacked_shape (cf : bool) (n : nat) (s : list nat) : list nat :=
  if cf then set_hd (n * hd 0 s) s else set_last (n * last s 0) s.
(* np.repeat(t, n, axis = 0 | -1) *)
Definition trepeat (cf : bool) (n : nat) (t : tensor) : tensor :=
  mk_tensor (stacked_shape cf n (t_shape t)) (ungrid (grepeat n (grid_of cf t))).
(* np.tile on the stacking axis = concatenation of n copies *)
Definition ttile (cf : bool) (n : nat) (t : tensor) : tensor := tcat cf (repeat t n).

Fixpoint all3 (f : Z -> Z -> Z -> bool) (a b c : list Z) : bool :=
  match a, b, c with
  | [], [], [] => true
  | x :: a', y :: b', z :: c' => f x y z && all3 f a' b' c'
  | _, _, _ => false
  end.
Definition list_eqb (a b : list nat) : bool := (length a =? length b) && forallb (fun '(x, y) => x =? y) (combine a b).
(* Box.contains: same shape, low <= x <= high in every cell *)
Definition twithin (lo hi x : tensor) : bool :=
  list_eqb (t_shape lo) (t_shape x) && list_eqb (t_shape hi) (t_shape x) &&
  all3 (fun l h v => (l <=? v)%Z && (v <=? h)%Z) (t_data lo) (t_data hi) (t_data x).
Definition cell_in (b : list Z * list Z) (x : list Z) : Prop := all3 (fun l h v => (l <=? v)%Z && (v <=? h)%Z) (fst b) (snd b) x = true.
Definition bounds_grid (cf : bool) (lo hi : tensor) : grid (list Z * list Z) :=
  map (fun '(a, b) => combine a b) (combine (grid_of cf lo) (grid_of cf hi)).

(* one VecFrameStack over one Box sub-space: for every event the verdict `contains` of the declared space on the returned
   observation and on the stacked terminal observation, plus the check that the grid view of the window is the tensor view *)
Record bverdict := mk_bv { bv_obs : bool; bv_term : option bool; bv_grid_view : bool }.
Definition zdata_eqb (a b : list Z) : bool := (length a =? length b) && forallb (fun '(x, y) => Z.eqb x y) (combine a b).
Definition grid_view_ok (cf : bool) (w : list tensor) : bool :=
  zdata_eqb (t_data (tcat cf w)) (ungrid (gcat (length (grid_of cf (hd tempty w))) (map (grid_of cf) w))).
Fixpoint bounds_events (cf : bool) (n : nat) (lo hi : tensor) (w : list tensor) (evs : list (fevent tensor)) : list bverdict :=
  match evs with
  | [] => []
  | ev :: r =>
      let z := tzeros_like lo in
      let w' := fs_apply z n w ev in
      let dlo := trepeat cf n lo in let dhi := trepeat cf n hi in
      let tv := match ev with
                | FStep _ true (Some t) => Some (twithin dlo dhi (tcat cf (fs_terminal w t)))
                | _ => None
                end in
      mk_bv (twithin dlo dhi (tcat cf w')) tv (grid_view_ok cf w') :: bounds_events cf n lo hi w' r
  end.
Definition prle (t : tensor) : list nat * list (Z * nat) := (t_shape t, rle (t_data t)).
Definition bounds_run (cf : bool) (n : nat) (lo hi : tensor) (evs : list (fevent tensor))
  : (list nat * list (Z * nat)) * (list nat * list (Z * nat)) * list bverdict :=
  (prle (trepeat cf n lo), prle (trepeat cf n hi), bounds_events cf n lo hi (repeat (tzeros_like lo) n) evs).
(* printable (records are not parsed by the harness) *)
Definition bounds_run_print (cf : bool) (n : nat) (lo hi : tensor) (evs : list (fevent tensor)) :=
  let '(a, b, vs) := bounds_run cf n lo hi evs in (a, b, map (fun v => (bv_obs v, bv_term v, bv_grid_view v)) vs).
