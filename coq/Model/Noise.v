(* C10 (round 3) - model of stable_baselines3/common/noise.py.
   Values are exact rationals; a noise vector is a [list Q] (one entry per action dimension).
   Random draws are an oracle: every __call__ consumes one recorded standard-normal vector.
   Two layers:
   * a pure layer (what the numbers are): NormalActionNoise, the Ornstein-Uhlenbeck recurrence,
     reset, VectorizedActionNoise with per-env states;
   * a small heap layer for OrnsteinUhlenbeckActionNoise (which numpy array object holds what):
     arrays are heap cells, [initial_noise] is a cell owned by the caller, [noise_prev] is a
     reference.  reset() makes noise_prev REFER to initial_noise (as the code does), __call__
     allocates a new array for the new state and another one for the returned astype() copy. *)
From Coq Require Import QArith List.
Import ListNotations.
Local Open Scope Q_scope.

Definition vec := list Q.
Definition zeros_like (v : vec) : vec := map (fun _ => 0) v.

(* ---------------- NormalActionNoise.__call__: np.random.normal(mu, sigma) = mu + sigma * N ---------------- *)
Fixpoint normal_call (mu sigma n : vec) : vec :=
  match mu, sigma, n with
  | m :: mt, s :: st, x :: nt => Qred (m + s * x) :: normal_call mt st nt
  | _, _, _ => []
  end.

(* ---------------- OrnsteinUhlenbeckActionNoise ---------------- *)
Record ouc : Type := { c_theta : Q; c_dt : Q; c_sqdt : Q (* np.sqrt(dt) *); c_mu : vec; c_sigma : vec }.

(* one entry: noise_prev + theta * (mu - noise_prev) * dt + sigma * sqrt(dt) * N *)
Definition ou_step1 (theta dt sqdt m s x n : Q) : Q := x + theta * (m - x) * dt + s * sqdt * n.
Fixpoint ou_stepv (theta dt sqdt : Q) (mu sigma x n : vec) : vec :=
  match mu, sigma, x, n with
  | m :: mt, s :: st, xi :: xt, ni :: nt => Qred (ou_step1 theta dt sqdt m s xi ni) :: ou_stepv theta dt sqdt mt st xt nt
  | _, _, _, _ => []
  end.
Definition ou_step (c : ouc) (x n : vec) : vec := ou_stepv (c_theta c) (c_dt c) (c_sqdt c) (c_mu c) (c_sigma c) x n.

Inductive oop : Type := OCall (n : vec) | OReset.

(* pure layer: [x0] is what reset() restores (initial_noise's value, or zeros), [x] the current state;
   result: final state and the list of returned noises *)
Fixpoint ou_pure (c : ouc) (x0 x : vec) (ops : list oop) : vec * list vec :=
  match ops with
  | [] => (x, [])
  | OCall n :: t => let y := ou_step c x n in let r := ou_pure c x0 y t in (fst r, y :: snd r)
  | OReset :: t => ou_pure c x0 x0 t
  end.
Definition ou_reset_value (c : ouc) (init : option vec) : vec :=
  match init with Some v => v | None => zeros_like (c_mu c) end.

(* noise-free mean recurrence (N = 0), one entry *)
Fixpoint qpow (q : Q) (t : nat) : Q := match t with O => 1 | S k => q * qpow q k end.
Fixpoint ou_mean_iter (theta dt m x : Q) (t : nat) : Q :=
  match t with O => x | S k => ou_step1 theta dt 0 m 0 (ou_mean_iter theta dt m x k) 0 end.

(* heap layer *)
Definition heap := list vec.
Definition hget (h : heap) (a : nat) : vec := nth a h [].
Record ouobj : Type := { o_cfg : ouc; o_init : option nat (* address of the caller's initial_noise array *); o_prev : nat }.
Definition with_prev (o : ouobj) (a : nat) : ouobj := {| o_cfg := o_cfg o; o_init := o_init o; o_prev := a |}.

(* reset(): self.noise_prev = self.initial_noise if self.initial_noise is not None else np.zeros_like(self._mu) *)
Definition ou_reset (h : heap) (o : ouobj) : heap * ouobj :=
  match o_init o with
  | Some a => (h, with_prev o a)
  | None => (h ++ [zeros_like (c_mu (o_cfg o))], with_prev o (length h))
  end.
(* __call__(): noise = <new array>; self.noise_prev = noise; return noise.astype(dtype) <another new array> *)
Definition ou_call (h : heap) (o : ouobj) (n : vec) : heap * ouobj * nat :=
  let y := ou_step (o_cfg o) (hget h (o_prev o)) n in
  (h ++ [y; y], with_prev o (length h), S (length h)).
(* __init__: noise_prev = zeros_like(mu); reset() *)
Definition ou_new (h : heap) (c : ouc) (init : option nat) : heap * ouobj :=
  ou_reset (h ++ [zeros_like (c_mu c)]) {| o_cfg := c; o_init := init; o_prev := length h |}.

Fixpoint ou_run (h : heap) (o : ouobj) (ops : list oop) : heap * ouobj * list nat :=
  match ops with
  | [] => (h, o, [])
  | OCall n :: t =>
      let r := ou_call h o n in
      let r' := ou_run (fst (fst r)) (snd (fst r)) t in
      (fst (fst r'), snd (fst r'), snd r :: snd r')
  | OReset :: t => let r := ou_reset h o in ou_run (fst r) (snd r) t
  end.
Definition ou_init_value (h : heap) (o : ouobj) : vec :=
  match o_init o with Some a => hget h a | None => zeros_like (c_mu (o_cfg o)) end.

(* ---------------- VectorizedActionNoise (pure layer) ----------------
   one independent state per env (copy.deepcopy of the base noise); the base noise is an OU process
   (NormalActionNoise is the stateless special case theta = 1, dt = 1, mu-centred: see normal_as_ou) *)
Inductive vop : Type :=
| VCall (draws : list vec)            (* one draw per env, consumed in env order *)
| VReset (indices : option (list nat)). (* None: all *)

Definition vec_make (n_envs : Z) (x0 : vec) : option (list vec) :=
  if (0 <? n_envs)%Z then Some (repeat x0 (Z.to_nat n_envs)) else None.   (* ValueError otherwise *)

Fixpoint vcall (c : ouc) (states : list vec) (draws : list vec) : list vec :=
  match states, draws with
  | x :: xt, n :: nt => ou_step c x n :: vcall c xt nt
  | _, _ => []
  end.
Fixpoint reset_at (x0 : vec) (states : list vec) (i : nat) : list vec :=
  match states, i with
  | [], _ => []
  | _ :: t, O => x0 :: t
  | x :: t, S k => x :: reset_at x0 t k
  end.
Definition vreset (x0 : vec) (states : list vec) (indices : option (list nat)) : list vec :=
  match indices with
  | None => map (fun _ => x0) states
  | Some l => fold_left (reset_at x0) l states
  end.
(* result: final states and, per call, the stacked noise (env order) *)
Fixpoint vrun (c : ouc) (x0 : vec) (states : list vec) (ops : list vop) : list vec * list (list vec) :=
  match ops with
  | [] => (states, [])
  | VCall d :: t => let s' := vcall c states d in let r := vrun c x0 s' t in (fst r, s' :: snd r)
  | VReset ix :: t => vrun c x0 (vreset x0 states ix) t
  end.
(* what env i alone sees *)
Fixpoint project (i : nat) (ops : list vop) : list oop :=
  match ops with
  | [] => []
  | VCall d :: t => OCall (nth i d []) :: project i t
  | VReset None :: t => OReset :: project i t
  | VReset (Some l) :: t => (if existsb (Nat.eqb i) l then [OReset] else []) ++ project i t
  end.
