(* C15 - model of RunningMeanStd (running_mean_std.py), one scalar component, over Q.
   Definitions only; proofs in Proofs/RunningMomentsProofs.v. *)
From Coq Require Import List QArith.
Import ListNotations.
Local Open Scope Q_scope.

Record rms := mk_rms { r_mean : Q; r_var : Q; r_count : Q }.

(* RunningMeanStd(epsilon): mean 0, variance 1, weight epsilon (1e-4 by default) *)
Definition rms_init (eps : Q) : rms := mk_rms 0 1 eps.
Definition eps_default : Q := 1 # 10000.

(* update_from_moments: Chan et al. parallel merge *)
Definition update_from_moments (s : rms) (bm bv bc : Q) : rms :=
  let delta := bm - r_mean s in
  let tot := r_count s + bc in
  mk_rms (r_mean s + delta * bc / tot)
         ((r_var s * r_count s + bv * bc + delta * delta * r_count s * bc / tot) / tot)
         tot.

Fixpoint qsuml (l : list Q) : Q := match l with [] => 0 | x :: t => x + qsuml t end.
Definition qlen (l : list Q) : Q := inject_Z (Z.of_nat (length l)).

(* np.mean / np.var (population variance, two passes) of a batch *)
Definition bmean (xs : list Q) : Q := qsuml xs / qlen xs.
Definition bvar (xs : list Q) : Q := qsuml (map (fun x => (x - bmean xs) * (x - bmean xs)) xs) / qlen xs.

Definition update (s : rms) (xs : list Q) : rms := update_from_moments s (bmean xs) (bvar xs) (qlen xs).
Definition updates (s : rms) (bs : list (list Q)) : rms := fold_left update bs s.

(* combine(other) *)
Definition rms_combine (s o : rms) : rms := update_from_moments s (r_mean o) (r_var o) (r_count o).

(* raw moments carried by the statistics: weight, weighted sum, weighted sum of squares *)
Definition S0 (s : rms) : Q := r_count s.
Definition S1 (s : rms) : Q := r_count s * r_mean s.
Definition S2 (s : rms) : Q := r_count s * (r_var s + r_mean s * r_mean s).

Definition sumsq (xs : list Q) : Q := qsuml (map (fun x => x * x) xs).

Definition rms_eq (a b : rms) : Prop := r_mean a == r_mean b /\ r_var a == r_var b /\ r_count a == r_count b.

(* executable variant with reduced fractions (same values up to ==) *)
Definition update_red (s : rms) (xs : list Q) : rms :=
  let u := update s xs in mk_rms (Qred (r_mean u)) (Qred (r_var u)) (Qred (r_count u)).
