(* C07 - PPO objective (ppo/ppo.py train): clipped surrogate + value (optionally clipped) + entropy,
   as a function of the network outputs (log_prob_i, value_i, entropy_i) of evaluate_actions. *)
From Coq Require Import Reals QArith Qminmax Qabs List.
From SB3V Require Import Model.LossCommon.
Import ListNotations.
Local Open Scope R_scope.

(* per-sample policy loss as a function of the ratio r = exp(log_prob - old_log_prob):
   -min(advantages * ratio, advantages * clamp(ratio, 1 - clip_range, 1 + clip_range)) *)
Definition ppo_surr (A c r : R) : R := - Rmin (A * r) (A * clampR (1 - c) (1 + c) r).
(* its derivative in r away from the kinks r = 1 -+ c: -A where the unclipped branch is the minimum *)
Definition ppo_surr_grad (A c r : R) : R :=
  if Rle_dec (A * r) (A * clampR (1 - c) (1 + c) r) then - A else 0.
Definition ppo_policy_term (A c oldlp lp : R) : R := ppo_surr A c (exp (lp - oldlp)).

(* values_pred = values | old_values + clamp(values - old_values, -clip_range_vf, clip_range_vf) *)
Definition ppo_value_pred (cv : option R) (oldv v : R) : R :=
  match cv with None => v | Some c => oldv + clampR (- c) c (v - oldv) end.
Definition ppo_value_term (cv : option R) (ret oldv v : R) : R := sq_err ret (ppo_value_pred cv oldv v).
Definition ppo_value_grad (cv : option R) (ret oldv v : R) : R :=
  match cv with
  | None => 2 * (v - ret)
  | Some c => if Rlt_dec (Rabs (v - oldv)) c then 2 * (v - ret) else 0
  end.
(* entropy_loss per sample: -entropy_i, or log_prob_i when the distribution has no analytic entropy *)
Definition ent_term (ent : option R) (lp : R) : R := match ent with Some e => - e | None => lp end.

(* loss = policy_loss + ent_coef * entropy_loss + vf_coef * value_loss  =  (1/n) sum_i ppo_term_i *)
Definition ppo_term (A c : R) (cv : option R) (ret oldv oldlp ent_coef vf_coef : R) (lp v : R) (ent : option R) : R :=
  ppo_policy_term A c oldlp lp + ent_coef * ent_term ent lp + vf_coef * ppo_value_term cv ret oldv v.

(* ---------------- executable twin ---------------- *)
Local Open Scope Q_scope.
Definition ppo_surr_Q (A c r : Q) : Q := - Qmin (A * r) (A * qclamp (1 - c) (1 + c) r).
Definition ppo_surr_grad_Q (A c r : Q) : Q :=
  if Qle_bool (A * r) (A * qclamp (1 - c) (1 + c) r) then - A else 0.
Definition ppo_value_pred_Q (cv : option Q) (oldv v : Q) : Q :=
  match cv with None => v | Some c => oldv + qclamp (- c) c (v - oldv) end.
Definition ppo_value_grad_Q (cv : option Q) (ret oldv v : Q) : Q :=
  match cv with
  | None => 2 * (v - ret)
  | Some c => if qlt (Qabs (v - oldv)) c then 2 * (v - ret) else 0
  end.

(* batch: advantages (already normalised if configured), ratios, returns, old values, values,
   entropy-loss terms (-entropy_i or log_prob_i).  Result: (loss, dL/dlog_prob, dL/dvalue, dL/dentropy_i) *)
Definition ppo_batch_Q (c : Q) (cv : option Q) (ent_coef vf_coef : Q) (has_ent : bool)
    (advs ratios rets oldvs vs ent_terms : list Q) : Q * (list Q * (list Q * Q)) :=
  let n := qlen advs in
  let pol := qmean (qmap2 (fun a r => ppo_surr_Q a c r) advs ratios) in
  let val := qmean (qmap3 (fun ret o v => (ret - ppo_value_pred_Q cv o v) * (ret - ppo_value_pred_Q cv o v)) rets oldvs vs) in
  let entl := qmean ent_terms in
  let loss := Qred (pol + ent_coef * entl + vf_coef * val) in
  let dlp := qmap2 (fun a r => (ppo_surr_grad_Q a c r * r + (if has_ent then 0 else ent_coef)) / n) advs ratios in
  let dv := qmap3 (fun ret o v => vf_coef * ppo_value_grad_Q cv ret o v / n) rets oldvs vs in
  (loss, (dlp, (dv, Qred (- ent_coef / n)))).
