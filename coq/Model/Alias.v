(* C19 - heap model of the library's copy discipline.  Definitions only.

   Locations are indices into a heap of integer arrays; a numpy view counts as the same
   location as its base (sharing any memory = same location).  A library operation is a
   straight-line program over references:
     RArg i   the i-th object the caller passed in
     RSlot k  what the component's attribute k currently refers to
     RTmp r   a local
   The discipline checker [disciplined] classifies every reference it meets:
     - objects created during the call are Fresh until they are Stored (retained) or Returned
     - only Fresh objects may be Stored in a live slot; only Fresh or argument objects may be
       Returned; only slot-held or Fresh-unreturned objects may be written in place
     - a DEAD slot (one no program of the component ever reads or writes through; e.g.
       VecCheckNan._observations, DummyVecEnv.actions) may hold anything. *)
From Coq Require Import ZArith List Bool Arith.
Import ListNotations.

Definition loc := nat.
Definition heap := list (list Z).

Inductive ref := RArg (i : nat) | RSlot (k : nat) | RTmp (r : nat).

Inductive instr :=
| INew (r : nat) (f : nat) (srcs : list ref)   (* tmp r := fresh object, contents F f [contents srcs] *)
| IMov (r : nat) (e : ref)                     (* tmp r := e  (alias / view) *)
| IStore (k : nat) (e : ref)                   (* live slot k := e (the component retains e) *)
| IStoreDead (k : nat) (e : ref)               (* dead slot k := e *)
| IWrite (d : ref) (f : nat) (srcs : list ref) (* in-place: contents d := F f (contents d :: contents srcs) *)
| IRet (e : ref).                              (* hand e back to the caller *)

Definition prog := list instr.

(* ---------- concrete semantics ---------- *)
Section Exec.
Variable F : nat -> list (list Z) -> list Z.     (* the pure array computations; arbitrary *)

Record st := mk_st {
  s_heap : heap;
  s_slots : list loc;         (* live slots *)
  s_dead : list loc;          (* dead slots *)
  s_tmps : list (nat * loc);
  s_rets : list loc }.

Fixpoint assoc (r : nat) (l : list (nat * loc)) : option loc :=
  match l with [] => None | (k, v) :: t => if Nat.eqb k r then Some v else assoc r t end.

Definition lookup (args : list loc) (s : st) (e : ref) : option loc :=
  match e with
  | RArg i => nth_error args i
  | RSlot k => nth_error (s_slots s) k
  | RTmp r => assoc r (s_tmps s)
  end.

Definition content (h : heap) (l : loc) : list Z := nth l h [].

Fixpoint lookups (args : list loc) (s : st) (es : list ref) : list loc :=
  match es with
  | [] => []
  | e :: t => match lookup args s e with Some l => l :: lookups args s t | None => lookups args s t end
  end.

Fixpoint set_nth {A} (n : nat) (x : A) (l : list A) : list A :=
  match l, n with
  | [], _ => []
  | _ :: t, O => x :: t
  | y :: t, S n' => y :: set_nth n' x t
  end.

Definition step (args : list loc) (s : st) (i : instr) : st :=
  match i with
  | INew r f srcs =>
      let v := F f (map (content (s_heap s)) (lookups args s srcs)) in
      mk_st (s_heap s ++ [v]) (s_slots s) (s_dead s) ((r, length (s_heap s)) :: s_tmps s) (s_rets s)
  | IMov r e =>
      match lookup args s e with
      | Some l => mk_st (s_heap s) (s_slots s) (s_dead s) ((r, l) :: s_tmps s) (s_rets s)
      | None => s
      end
  | IStore k e =>
      match lookup args s e with
      | Some l => mk_st (s_heap s) (set_nth k l (s_slots s)) (s_dead s) (s_tmps s) (s_rets s)
      | None => s
      end
  | IStoreDead k e =>
      match lookup args s e with
      | Some l => mk_st (s_heap s) (s_slots s) (set_nth k l (s_dead s)) (s_tmps s) (s_rets s)
      | None => s
      end
  | IWrite d f srcs =>
      match lookup args s d with
      | Some l =>
          let v := F f (content (s_heap s) l :: map (content (s_heap s)) (lookups args s srcs)) in
          mk_st (set_nth l v (s_heap s)) (s_slots s) (s_dead s) (s_tmps s) (s_rets s)
      | None => s
      end
  | IRet e =>
      match lookup args s e with
      | Some l => mk_st (s_heap s) (s_slots s) (s_dead s) (s_tmps s) (s_rets s ++ [l])
      | None => s
      end
  end.

Definition run (p : prog) (args : list loc) (h : heap) (slots dead : list loc) : st :=
  fold_left (step args) p (mk_st h slots dead [] []).
End Exec.

(* ---------- the discipline checker (abstract interpretation of one call) ---------- *)
Inductive aval := AArg (i : nat) | ASlot (k : nat) | AFresh (n : nat).
Inductive fstatus := Unclaimed | Stored | Returned.

Record ast := mk_ast {
  a_tmps : list (nat * aval);
  a_slots : list aval;           (* abstract content of live slots *)
  a_fresh : list fstatus;        (* status of the n-th object created in this call *)
  a_ok : bool }.

Fixpoint aassoc (r : nat) (l : list (nat * aval)) : option aval :=
  match l with [] => None | (k, v) :: t => if Nat.eqb k r then Some v else aassoc r t end.

Definition alookup (nargs : nat) (a : ast) (e : ref) : option aval :=
  match e with
  | RArg i => if Nat.ltb i nargs then Some (AArg i) else None
  | RSlot k => nth_error (a_slots a) k
  | RTmp r => aassoc r (a_tmps a)
  end.

Definition fail (a : ast) : ast := mk_ast (a_tmps a) (a_slots a) (a_fresh a) false.

Definition status_of (a : ast) (n : nat) : fstatus := nth n (a_fresh a) Returned.

Definition all_bound (nargs : nat) (a : ast) (es : list ref) : bool :=
  forallb (fun e => match alookup nargs a e with Some _ => true | None => false end) es.

Definition astep (nargs : nat) (a : ast) (i : instr) : ast :=
  match i with
  | INew r _ srcs =>
      if all_bound nargs a srcs then
        mk_ast ((r, AFresh (length (a_fresh a))) :: a_tmps a) (a_slots a) (a_fresh a ++ [Unclaimed]) (a_ok a)
      else fail a
  | IMov r e =>
      match alookup nargs a e with
      | Some v => mk_ast ((r, v) :: a_tmps a) (a_slots a) (a_fresh a) (a_ok a)
      | None => fail a
      end
  | IStore k e =>
      if Nat.ltb k (length (a_slots a)) then
        match alookup nargs a e with
        | Some (AFresh n) =>
            match status_of a n with
            | Returned => fail a
            | _ => mk_ast (a_tmps a) (set_nth k (AFresh n) (a_slots a)) (set_nth n Stored (a_fresh a)) (a_ok a)
            end
        | Some (ASlot j) => mk_ast (a_tmps a) (set_nth k (ASlot j) (a_slots a)) (a_fresh a) (a_ok a)
        | _ => fail a
        end
      else fail a
  | IStoreDead _ e =>
      match alookup nargs a e with Some _ => a | None => fail a end
  | IWrite d _ srcs =>
      if all_bound nargs a srcs then
        match alookup nargs a d with
        | Some (ASlot _) => a
        | Some (AFresh n) => match status_of a n with Returned => fail a | _ => a end
        | _ => fail a
        end
      else fail a
  | IRet e =>
      match alookup nargs a e with
      | Some (AArg _) => a
      | Some (AFresh n) =>
          match status_of a n with
          | Unclaimed => mk_ast (a_tmps a) (a_slots a) (set_nth n Returned (a_fresh a)) (a_ok a)
          | _ => fail a
          end
      | _ => fail a
      end
  end.

Definition ainit (nslots : nat) : ast := mk_ast [] (map ASlot (seq 0 nslots)) [] true.

Definition disciplined (nargs nslots : nat) (p : prog) : bool :=
  a_ok (fold_left (astep nargs) p (ainit nslots)).

(* ---------- component programs (hand-written from the source; tied to the code by the
   alias-graph correspondence of harness/c19.py) ---------- *)

(* Every component: (number of live slots, number of dead slots, op name -> (nargs, program)).
   Function indices f are opaque labels of the array computation performed. *)

(* DummyVecEnv.  live slots: 0 buf_obs 1 buf_rews 2 buf_dones 3 buf_infos; dead: 0 actions *)
Definition dummy_reset : prog :=
  [ IWrite (RSlot 0) 1 []; INew 0 2 [RSlot 0]; IRet (RTmp 0) ].
Definition dummy_step : prog :=   (* arg 0 = actions *)
  [ IStoreDead 0 (RArg 0);
    IWrite (RSlot 0) 3 [RArg 0]; IWrite (RSlot 1) 4 [RArg 0]; IWrite (RSlot 2) 5 [RArg 0]; IWrite (RSlot 3) 6 [RArg 0];
    INew 0 2 [RSlot 0]; INew 1 2 [RSlot 1]; INew 2 2 [RSlot 2]; INew 3 2 [RSlot 3];
    IRet (RTmp 0); IRet (RTmp 1); IRet (RTmp 2); IRet (RTmp 3) ].

(* a wrapper sees the inner results as fresh objects in tmps 10 (obs) 11 (rewards) 12 (dones) 13 (infos);
   [inner_results] creates them (stands for the inner venv's disciplined step) *)
Definition inner_step : prog := [ INew 10 7 [RArg 0]; INew 11 7 [RArg 0]; INew 12 7 [RArg 0]; INew 13 7 [RArg 0] ].
Definition inner_reset : prog := [ INew 10 8 [] ].

(* StackedObservations / VecFrameStack.  live slot 0: stacked_obs *)
Definition framestack_reset : prog :=
  inner_reset ++ [ IWrite (RSlot 0) 9 [RTmp 10]; INew 0 2 [RSlot 0]; IRet (RTmp 0) ].
Definition framestack_step : prog :=
  inner_step ++
  [ INew 1 10 [RSlot 0]; IStore 0 (RTmp 1);                 (* np.roll -> new array, rebound *)
    INew 2 11 [RSlot 0; RTmp 13]; IWrite (RTmp 13) 12 [RTmp 2];  (* new terminal stack put into infos *)
    IWrite (RSlot 0) 13 [RTmp 10; RTmp 12];                 (* zero on done, insert new frame *)
    INew 0 2 [RSlot 0];                                     (* the copy returned (fix F1) *)
    IRet (RTmp 0); IRet (RTmp 11); IRet (RTmp 12); IRet (RTmp 13) ].
(* the pinned (pre-fix) behaviour: return the window itself *)
Definition framestack_reset_pinned : prog :=
  inner_reset ++ [ IWrite (RSlot 0) 9 [RTmp 10]; IRet (RSlot 0) ].
Definition framestack_step_pinned : prog :=
  inner_step ++
  [ INew 1 10 [RSlot 0]; IStore 0 (RTmp 1);
    INew 2 11 [RSlot 0; RTmp 13]; IWrite (RTmp 13) 12 [RTmp 2];
    IWrite (RSlot 0) 13 [RTmp 10; RTmp 12];
    IRet (RSlot 0); IRet (RTmp 11); IRet (RTmp 12); IRet (RTmp 13) ].

(* VecNormalize.  live slots: 0 old_obs 1 old_reward 2 returns 3 obs_rms 4 ret_rms *)
Definition vecnorm_reset : prog :=
  inner_reset ++ [ IStore 0 (RTmp 10); INew 1 14 []; IStore 2 (RTmp 1);
                   IWrite (RSlot 3) 15 [RTmp 10]; INew 0 16 [RTmp 10; RSlot 3]; IRet (RTmp 0) ].
Definition vecnorm_step : prog :=
  inner_step ++
  [ IStore 0 (RTmp 10); IStore 1 (RTmp 11);
    IWrite (RSlot 3) 15 [RTmp 10];
    INew 0 16 [RTmp 10; RSlot 3];                            (* normalize_obs deep-copies *)
    INew 1 17 [RSlot 2; RTmp 11]; IStore 2 (RTmp 1);         (* returns = returns*gamma + reward (new array) *)
    IWrite (RSlot 4) 15 [RSlot 2];
    INew 2 18 [RTmp 11; RSlot 4];                            (* normalize_reward -> astype copy *)
    INew 3 16 [RTmp 13; RSlot 3]; IWrite (RTmp 13) 12 [RTmp 3];  (* terminal obs normalised into infos *)
    IWrite (RSlot 2) 19 [RTmp 12];                           (* returns[dones] = 0 *)
    IRet (RTmp 0); IRet (RTmp 2); IRet (RTmp 12); IRet (RTmp 13) ].
Definition vecnorm_get_original_obs : prog := [ INew 0 2 [RSlot 0]; IRet (RTmp 0) ].
Definition vecnorm_get_original_reward : prog := [ INew 0 2 [RSlot 1]; IRet (RTmp 0) ].

(* VecTransposeImage (array obs): returns a transposed VIEW of the inner result; no state *)
Definition transpose_reset : prog := inner_reset ++ [ IMov 0 (RTmp 10); IRet (RTmp 0) ].
Definition transpose_step : prog :=
  inner_step ++ [ INew 2 20 [RTmp 13]; IWrite (RTmp 13) 12 [RTmp 2]; IMov 0 (RTmp 10);
                  IRet (RTmp 0); IRet (RTmp 11); IRet (RTmp 12); IRet (RTmp 13) ].

(* VecExtractDictObs: returns obs[key] (the inner dict's entry = part of the inner result) *)
Definition extract_reset : prog := inner_reset ++ [ IMov 0 (RTmp 10); IRet (RTmp 0) ].
Definition extract_step : prog :=
  inner_step ++ [ IWrite (RTmp 13) 21 []; IMov 0 (RTmp 10);
                  IRet (RTmp 0); IRet (RTmp 11); IRet (RTmp 12); IRet (RTmp 13) ].

(* VecCheckNan: passes everything through, remembers the last observations/actions in DEAD slots *)
Definition checknan_reset : prog := inner_reset ++ [ IStoreDead 1 (RTmp 10); IRet (RTmp 10) ].
Definition checknan_step : prog :=
  [ IStoreDead 0 (RArg 0) ] ++ inner_step ++
  [ IStoreDead 1 (RTmp 10); IRet (RTmp 10); IRet (RTmp 11); IRet (RTmp 12); IRet (RTmp 13) ].

(* VecMonitor: live slots 0 episode_returns 1 episode_lengths; adds episode info into infos *)
Definition vecmonitor_reset : prog :=
  inner_reset ++ [ INew 0 14 []; IStore 0 (RTmp 0); INew 1 14 []; IStore 1 (RTmp 1); IRet (RTmp 10) ].
Definition vecmonitor_step : prog :=
  inner_step ++ [ IWrite (RSlot 0) 22 [RTmp 11]; IWrite (RSlot 1) 23 []; INew 3 24 [RTmp 13; RSlot 0; RSlot 1];
                  IWrite (RSlot 0) 19 [RTmp 12]; IWrite (RSlot 1) 19 [RTmp 12];
                  IRet (RTmp 10); IRet (RTmp 11); IRet (RTmp 12); IRet (RTmp 3) ].

(* Replay / rollout buffers.  live slots: 0 observations 1 next_observations 2 actions 3 rewards 4 dones.
   add(obs, next_obs, action, reward, done): args 0..4 copied into the ring in place *)
Definition buffer_add : prog :=
  [ INew 0 25 [RArg 0]; IWrite (RSlot 0) 26 [RTmp 0];
    INew 1 25 [RArg 1]; IWrite (RSlot 1) 26 [RTmp 1];
    INew 2 25 [RArg 2]; IWrite (RSlot 2) 26 [RTmp 2];
    INew 3 25 [RArg 3]; IWrite (RSlot 3) 26 [RTmp 3];
    INew 4 25 [RArg 4]; IWrite (RSlot 4) 26 [RTmp 4] ].
Definition buffer_sample : prog :=
  [ INew 0 27 [RSlot 0]; INew 1 27 [RSlot 1]; INew 2 27 [RSlot 2]; INew 3 27 [RSlot 3]; INew 4 27 [RSlot 4];
    IRet (RTmp 0); IRet (RTmp 1); IRet (RTmp 2); IRet (RTmp 3); IRet (RTmp 4) ].
(* pinned DictReplayBuffer.add: writes the reshaped array back into the caller's dict (arg 0, arg 1) *)
Definition dictbuffer_add_pinned : prog :=
  [ INew 0 28 [RArg 0]; IWrite (RArg 0) 29 [RTmp 0]; IWrite (RSlot 0) 26 [RTmp 0];
    INew 1 28 [RArg 1]; IWrite (RArg 1) 29 [RTmp 1]; IWrite (RSlot 1) 26 [RTmp 1];
    INew 2 25 [RArg 2]; IWrite (RSlot 2) 26 [RTmp 2];
    INew 3 25 [RArg 3]; IWrite (RSlot 3) 26 [RTmp 3];
    INew 4 25 [RArg 4]; IWrite (RSlot 4) 26 [RTmp 4] ].

(* predict(obs): obs_to_tensor copies; the action is computed into fresh arrays; parameters (slot 0) only read *)
Definition predict_prog : prog :=
  [ INew 0 30 [RArg 0]; INew 1 31 [RTmp 0; RSlot 0]; IRet (RTmp 1) ].

(* table used by the harness: (name, nargs, live slots, program) *)
Definition components : list (nat * (nat * nat * prog)) :=
  [ (0, (0, 4, dummy_reset)); (1, (1, 4, dummy_step));
    (2, (0, 1, framestack_reset)); (3, (1, 1, framestack_step));
    (4, (0, 5, vecnorm_reset)); (5, (1, 5, vecnorm_step));
    (6, (0, 5, vecnorm_get_original_obs)); (7, (0, 5, vecnorm_get_original_reward));
    (8, (0, 0, transpose_reset)); (9, (1, 0, transpose_step));
    (10, (0, 0, extract_reset)); (11, (1, 0, extract_step));
    (12, (0, 0, checknan_reset)); (13, (1, 0, checknan_step));
    (14, (0, 2, vecmonitor_reset)); (15, (1, 2, vecmonitor_step));
    (16, (5, 5, buffer_add)); (17, (0, 5, buffer_sample));
    (18, (1, 1, predict_prog)) ].

Definition all_disciplined : bool :=
  forallb (fun c => let '(_, (na, ns, p)) := c in disciplined na ns p) components.

(* which returned objects (by position) are the same location as a live slot after the call:
   the sharing relation the harness compares with np.shares_memory *)
Definition ret_shares_slot (F : nat -> list (list Z) -> list Z) (p : prog) (nargs nslots ndead : nat) : list (list bool) :=
  let h0 := repeat [0%Z] (nargs + nslots + ndead) in
  let args := seq 0 nargs in
  let slots := seq nargs nslots in
  let dead := seq (nargs + nslots) ndead in
  let s := run F p args h0 slots dead in
  map (fun r => map (fun sl => Nat.eqb r sl) (s_slots s)) (s_rets s).

Definition ret_shares_arg (F : nat -> list (list Z) -> list Z) (p : prog) (nargs nslots ndead : nat) : list (list bool) :=
  let h0 := repeat [0%Z] (nargs + nslots + ndead) in
  let s := run F p (seq 0 nargs) h0 (seq nargs nslots) (seq (nargs + nslots) ndead) in
  map (fun r => map (fun a => Nat.eqb r a) (seq 0 nargs)) (s_rets s).

Definition F0 : nat -> list (list Z) -> list Z := fun f cs => [Z.of_nat f].

(* ---------- call histories: the caller allocates, writes to what it knows, and calls ---------- *)
Section Hist.
Variable F : nat -> list (list Z) -> list Z.

Record world := mk_world { w_heap : heap; w_slots : list loc; w_dead : list loc; w_known : list loc }.

Inductive event :=
| ECall (p : prog) (args : list loc)     (* a library call on objects the caller knows *)
| EWrite (l : loc) (v : list Z)          (* the caller overwrites an object it knows *)
| EAlloc (v : list Z).                   (* the caller creates an object *)

Definition knows (w : world) (l : loc) : bool := existsb (Nat.eqb l) (w_known w).

(* result: new world and, for a call, the contents of the returned objects at return time *)
Definition do_event (w : world) (e : event) : world * option (list (list Z)) :=
  match e with
  | ECall p args =>
      if forallb (knows w) args then
        let s := run F p args (w_heap w) (w_slots w) (w_dead w) in
        (mk_world (s_heap s) (s_slots s) (s_dead s) (w_known w ++ s_rets s),
         Some (map (content (s_heap s)) (s_rets s)))
      else (w, None)
  | EWrite l v =>
      if knows w l then (mk_world (set_nth l v (w_heap w)) (w_slots w) (w_dead w) (w_known w), None)
      else (w, None)
  | EAlloc v => (mk_world (w_heap w ++ [v]) (w_slots w) (w_dead w) (w_known w ++ [length (w_heap w)]), None)
  end.

Fixpoint run_hist (w : world) (es : list event) : list (list (list Z)) :=
  match es with
  | [] => []
  | e :: t =>
      let '(w', out) := do_event w e in
      match out with Some o => o :: run_hist w' t | None => run_hist w' t end
  end.

Fixpoint final_world (w : world) (es : list event) : world :=
  match es with [] => w | e :: t => final_world (fst (do_event w e)) t end.

(* a perturbed history: [Extra l v] is a caller write that happens only in the second run *)
Inductive pevent := Both (e : event) | Extra (l : loc) (v : list Z).

Definition left_run (pes : list pevent) : list event :=
  flat_map (fun pe => match pe with Both e => [e] | Extra _ _ => [] end) pes.
Definition right_run (pes : list pevent) : list event :=
  map (fun pe => match pe with Both e => e | Extra l v => EWrite l v end) pes.

(* objects dirtied by an extra write are not handed to the library afterwards *)
Fixpoint clean (D : list loc) (pes : list pevent) : bool :=
  match pes with
  | [] => true
  | Both (ECall _ args) :: t => forallb (fun a => negb (existsb (Nat.eqb a) D)) args && clean D t
  | Both _ :: t => clean D t
  | Extra l _ :: t => clean (l :: D) t
  end.

Definition calls_disciplined (nslots : nat) (pes : list pevent) : bool :=
  forallb (fun pe => match pe with Both (ECall p args) => disciplined (length args) nslots p | _ => true end) pes.
Definition events_disciplined (nslots : nat) (es : list event) : bool :=
  forallb (fun e => match e with ECall p args => disciplined (length args) nslots p | _ => true end) es.

(* every call in the history leaves the contents of everything the caller knew untouched *)
Fixpoint frame_holds (w : world) (es : list event) : Prop :=
  match es with
  | [] => True
  | e :: t =>
      let w' := fst (do_event w e) in
      match e with
      | ECall _ _ => forall l, In l (w_known w) -> content (w_heap w') l = content (w_heap w) l
      | _ => True
      end /\ frame_holds w' t
  end.

(* well-formed world: live references point into the heap; nothing the caller knows is live state *)
Definition Inv (nslots : nat) (w : world) : Prop :=
  length (w_slots w) = nslots /\
  (forall l, In l (w_slots w) -> l < length (w_heap w)) /\
  (forall l, In l (w_known w) -> l < length (w_heap w) /\ ~ In l (w_slots w)).
End Hist.

(* ---------- per-call facts compared with the implementation (harness/c19.py) ---------- *)
(* locations written in place by the call, in order *)
Definition writes_of (F : nat -> list (list Z) -> list Z) (p : prog) (args : list loc) (s0 : st) : list loc :=
  snd (fold_left (fun (acc : st * list loc) i =>
                    let '(s, ws) := acc in
                    (step F args s i,
                     match i with
                     | IWrite d _ _ => match lookup args s d with Some l => ws ++ [l] | None => ws end
                     | _ => ws
                     end)) p (s0, [])).

Record facts := mk_facts {
  f_ret_slot : list (list bool);    (* returned object j is the object held by live slot k after the call *)
  f_ret_arg : list (list bool);     (* returned object j is argument i *)
  f_ret_inner : list (list bool);   (* returned object j is the inner venv's result component c (tmps 10..13) *)
  f_slot_rebound : list bool;       (* live slot k refers to another object after the call *)
  f_slot_inner : list (list bool);  (* live slot k holds inner result component c after the call *)
  f_slot_arg : list (list bool);    (* live slot k holds argument i after the call *)
  f_slot_written : list bool;       (* the object slot k referred to BEFORE the call was written in place *)
  f_inner_written : list bool;      (* inner result component c was written in place *)
  f_arg_written : list bool         (* argument i was written in place *)
}.

Definition call_facts (p : prog) (nargs nslots ndead : nat) : facts :=
  let h0 := repeat [0%Z] (nargs + nslots + ndead) in
  let args := seq 0 nargs in
  let slots0 := seq nargs nslots in
  let dead0 := seq (nargs + nslots) ndead in
  let s0 := mk_st h0 slots0 dead0 [] [] in
  let s := run F0 p args h0 slots0 dead0 in
  let ws := writes_of F0 p args s0 in
  let inner := map (fun r => assoc r (s_tmps s)) [10; 11; 12; 13] in
  let is_inner (l : loc) (o : option loc) := match o with Some l' => Nat.eqb l l' | None => false end in
  mk_facts
    (map (fun r => map (Nat.eqb r) (s_slots s)) (s_rets s))
    (map (fun r => map (Nat.eqb r) args) (s_rets s))
    (map (fun r => map (is_inner r) inner) (s_rets s))
    (map (fun kv => negb (Nat.eqb (fst kv) (snd kv))) (combine slots0 (s_slots s)))
    (map (fun l => map (is_inner l) inner) (s_slots s))
    (map (fun l => map (Nat.eqb l) args) (s_slots s))
    (map (fun l => existsb (Nat.eqb l) ws) slots0)
    (map (fun o => match o with Some l => existsb (Nat.eqb l) ws | None => false end) inner)
    (map (fun a => existsb (Nat.eqb a) ws) args).

(* Dict observations through VecTransposeImage are deep-copied before the image keys are transposed *)
Definition transpose_dict_reset : prog := inner_reset ++ [ INew 0 20 [RTmp 10]; IRet (RTmp 0) ].
Definition transpose_dict_step : prog :=
  inner_step ++ [ INew 2 20 [RTmp 13]; IWrite (RTmp 13) 12 [RTmp 2]; INew 0 20 [RTmp 10];
                  IRet (RTmp 0); IRet (RTmp 11); IRet (RTmp 12); IRet (RTmp 13) ].

Definition more_components_disciplined : bool :=
  disciplined 0 0 transpose_dict_reset && disciplined 1 0 transpose_dict_step.

(* ---------- HerReplayBuffer: retained info dicts ----------
   add(obs, next_obs, action, reward, done, infos): args 0..4 as [buffer_add]; arg 5 = the info dicts the caller
   passed, arg 6 = the MUTABLE VALUES held inside those dicts (nested dict / array / list): a second object, reachable
   from the first.  live slots 0..4 as above, 5 = the info dicts retained for the written cell, 6 = the mutable values
   reachable from them.  copy.deepcopy(infos) creates a fresh object for BOTH; sample() computes the relabelled reward
   from the retained infos (compute_reward(..., infos)). *)
Definition her_add : prog :=
  buffer_add ++ [ INew 5 32 [RArg 5]; IStore 5 (RTmp 5); INew 6 32 [RArg 6]; IStore 6 (RTmp 6) ].
Definition her_sample : prog :=
  [ INew 0 27 [RSlot 0]; INew 1 27 [RSlot 1]; INew 2 27 [RSlot 2]; INew 3 33 [RSlot 1; RSlot 5; RSlot 6]; INew 4 27 [RSlot 4];
    IRet (RTmp 0); IRet (RTmp 1); IRet (RTmp 2); IRet (RTmp 3); IRet (RTmp 4) ].
(* one-level copy `[info.copy() for info in infos]`: the dicts are new, the values inside them are still the caller's *)
Definition her_add_shallow : prog :=
  buffer_add ++ [ INew 5 32 [RArg 5]; IStore 5 (RTmp 5); IStore 6 (RArg 6) ].
(* pinned (before fix 6f36409): `self.infos[self.pos] = infos` keeps the caller's dicts themselves *)
Definition her_add_pinned : prog :=
  buffer_add ++ [ IStore 5 (RArg 5); IStore 6 (RArg 6) ].

Definition her_components_disciplined : bool := disciplined 7 7 her_add && disciplined 0 7 her_sample.

(* ---------- more library operations (tied by per-call facts in harness/c19.py) ---------- *)
(* VecNormalize.normalize_obs / normalize_reward / unnormalize_* called by the USER on an array of their own (arg 0):
   the result is a new array computed from the argument and the running statistics (slots 3, 4), nothing is retained *)
Definition vecnorm_normalize_call : prog := [ INew 0 34 [RArg 0; RSlot 3]; IRet (RTmp 0) ].
Definition vecnorm_normalize_reward_call : prog := [ INew 0 35 [RArg 0; RSlot 4]; IRet (RTmp 0) ].

(* predict(obs) for a Dict observation: obs_to_tensor deep-copies the dict, then reshapes / transposes the COPY in place *)
Definition predict_dict_prog : prog :=
  [ INew 0 36 [RArg 0]; IWrite (RTmp 0) 37 []; INew 1 31 [RTmp 0; RSlot 0]; IRet (RTmp 1) ].
(* without the copy (seeded changes C11_4 / C19_4): the reshape is applied to the caller's dict itself *)
Definition predict_dict_nocopy : prog :=
  [ IWrite (RArg 0) 37 []; INew 1 31 [RArg 0; RSlot 0]; IRet (RTmp 1) ].

(* RolloutBuffer: live slots 0 observations 1 actions 2 rewards 3 episode_starts 4 values 5 log_probs (+ 6 advantages 7 returns).
   add(obs, action, reward, episode_start, value, log_prob) copies the six arguments into the arrays in place;
   compute_returns_and_advantage(last_values, dones) writes advantages in place from rewards, values, starts and rebinds returns;
   get() returns fresh tensors for every field; reset() REBINDS every slot to a newly allocated array *)
Definition rollout_add : prog :=
  [ INew 0 25 [RArg 0]; IWrite (RSlot 0) 26 [RTmp 0]; INew 1 25 [RArg 1]; IWrite (RSlot 1) 26 [RTmp 1];
    INew 2 25 [RArg 2]; IWrite (RSlot 2) 26 [RTmp 2]; INew 3 25 [RArg 3]; IWrite (RSlot 3) 26 [RTmp 3];
    INew 4 25 [RArg 4]; IWrite (RSlot 4) 26 [RTmp 4]; INew 5 25 [RArg 5]; IWrite (RSlot 5) 26 [RTmp 5] ].
Definition rollout_compute : prog :=
  [ INew 0 25 [RArg 0]; INew 1 25 [RArg 1];
    IWrite (RSlot 6) 38 [RSlot 2; RSlot 3; RSlot 4; RTmp 0; RTmp 1];
    (* `self.returns = self.advantages + self.values` creates a new array and rebinds the attribute *)
    INew 7 39 [RSlot 6; RSlot 4]; IStore 7 (RTmp 7) ].
Definition rollout_get : prog :=
  (* the first get() of a rollout flattens the six sampled arrays: each slot is rebound to a new (swapped and reshaped) array *)
  [ INew 10 40 [RSlot 0]; IStore 0 (RTmp 10); INew 11 40 [RSlot 1]; IStore 1 (RTmp 11); INew 14 40 [RSlot 4]; IStore 4 (RTmp 14);
    INew 15 40 [RSlot 5]; IStore 5 (RTmp 15); INew 16 40 [RSlot 6]; IStore 6 (RTmp 16); INew 17 40 [RSlot 7]; IStore 7 (RTmp 17);
    INew 0 27 [RSlot 0]; INew 1 27 [RSlot 1]; INew 2 27 [RSlot 4]; INew 3 27 [RSlot 5]; INew 4 27 [RSlot 6]; INew 5 27 [RSlot 7];
    IRet (RTmp 0); IRet (RTmp 1); IRet (RTmp 2); IRet (RTmp 3); IRet (RTmp 4); IRet (RTmp 5) ].
Definition rollout_reset : prog :=
  [ INew 0 14 []; IStore 0 (RTmp 0); INew 1 14 []; IStore 1 (RTmp 1); INew 2 14 []; IStore 2 (RTmp 2); INew 3 14 []; IStore 3 (RTmp 3);
    INew 4 14 []; IStore 4 (RTmp 4); INew 5 14 []; IStore 5 (RTmp 5); INew 6 14 []; IStore 6 (RTmp 6); INew 7 14 []; IStore 7 (RTmp 7) ].

Definition extra_components_disciplined : bool :=
  disciplined 1 5 vecnorm_normalize_call && disciplined 1 5 vecnorm_normalize_reward_call &&
  disciplined 1 1 predict_dict_prog &&
  disciplined 6 8 rollout_add && disciplined 2 8 rollout_compute && disciplined 0 8 rollout_get && disciplined 0 8 rollout_reset.
