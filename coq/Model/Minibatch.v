(* Model of RolloutBuffer.get / swap_and_flatten (buffers.py). Definitions only. *)
From Coq Require Import List Arith.
Import ListNotations.

(* get(): start_idx = 0; while start_idx < N: yield idx[start:start+b]; start_idx += b *)
Fixpoint get_loop {A} (fuel start b N : nat) (idx : list A) : list (list A) :=
  match fuel with
  | O => []
  | S f =>
      if start <? N then firstn b (skipn start idx) :: get_loop f (start + b) b N idx
      else []
  end.

Definition minibatches {A} (b : nat) (idx : list A) : list (list A) :=
  get_loop (length idx) 0 b (length idx) idx.

(* swap_and_flatten: arr[T][n] -> flat[e*T + t] = arr[t][e] *)
Definition flatten {A} (d : A) (n : nat) (rows : list (list A)) : list A :=
  flat_map (fun e => map (fun row => nth e row d) rows) (seq 0 n).

Definition unflat (T i : nat) : nat * nat := (i mod T, i / T).   (* (step, env) *)
