(* Model of the shape logic of BasePolicy.predict / obs_to_tensor (policies.py), is_vectorized_*_observation
   (utils.py), maybe_transpose (preprocessing.py), VecTransposeImage.transpose_image, DQN.predict's epsilon branch,
   plus clip / unscale / one-hot.  Shapes are lists of Z.  Definitions only. *)
From Coq Require Import ZArith QArith Qminmax Qabs List Bool.
Import ListNotations.
Local Open Scope Z_scope.

Definition shape := list Z.

Inductive space :=
| SBox (s : shape) (image : bool)   (* image = is_image_space: uint8, bounds [0,255], rank 3 *)
| SDiscrete
| SMultiDiscrete (k : Z)            (* k = len(nvec) *)
| SMultiBinary (s : shape).

Definition space_shape (sp : space) : shape :=
  match sp with SBox s _ => s | SDiscrete => [] | SMultiDiscrete k => [k] | SMultiBinary s => s end.

Definition shape_eqb (a b : shape) : bool := if list_eq_dec Z.eq_dec a b then true else false.

(* None = the ValueError branch *)
Definition is_vectorized (sp : space) (o : shape) : option bool :=
  match sp with
  | SBox s _ => if shape_eqb o s then Some false else if shape_eqb (tl o) s then Some true else None
  | SDiscrete => if shape_eqb o [] then Some false else if Z.of_nat (length o) =? 1 then Some true else None
  | SMultiDiscrete k =>
      if shape_eqb o [k] then Some false
      else if (Z.of_nat (length o) =? 2) && (nth 1 o 0 =? k) then Some true else None
  | SMultiBinary s =>
      if shape_eqb o s then Some false
      else if (Z.of_nat (length o) =? Z.of_nat (length s) + 1) && shape_eqb (tl o) s then Some true else None
  end.

(* VecTransposeImage.transpose_image on shapes: HWC -> CHW, NHWC -> NCHW (np.transpose raises on other ranks) *)
Definition transpose_shape (o : shape) : option shape :=
  match o with
  | [h; w; c] => Some [c; h; w]
  | [n; h; w; c] => Some [n; c; h; w]
  | _ => None
  end.

Definition accepted (o s : shape) : bool := shape_eqb o s || shape_eqb (tl o) s.

(* maybe_transpose on shapes; None when np.transpose would raise *)
Definition maybe_transpose (sp : space) (o : shape) : option shape :=
  match sp with
  | SBox s true =>
      if negb (accepted o s) then
        match transpose_shape o with
        | Some t => Some (if accepted t s then t else o)
        | None => None
        end
      else Some o
  | _ => Some o
  end.

(* a Box of rank 0 passes the shape logic but the features extractor (Flatten(start_dim=1)) raises IndexError on its (n,) tensor:
   such spaces are modelled as rejected (see docs/C11.md: finding box-rank0-observation-rejected) *)
Definition supported (sp : space) : bool := match sp with SBox [] _ => false | _ => true end.

(* obs_to_tensor for a non-dict observation: (vectorized?, shape of the tensor given to the network) *)
Definition obs_to_tensor (sp : space) (o : shape) : option (bool * shape) :=
  match (if supported sp then maybe_transpose sp o else None) with
  | None => None
  | Some o' =>
      match is_vectorized sp o' with
      | None => None
      | Some v => Some (v, (if v then hd 1 o' else 1) :: space_shape sp)
      end
  end.

(* predict: network output of batch b reshaped to (-1, *action_shape), squeeze(axis=0) when not vectorized *)
Definition predict_shape (sp : space) (ashape : shape) (o : shape) : option shape :=
  match obs_to_tensor sp o with
  | None => None
  | Some (v, t) => Some (if v then hd 1 t :: ashape else ashape)
  end.

(* Dict observations, in the iteration order of the observation dict:
     vectorized_env = vectorized_env or is_vectorized_observation(obs_, obs_space)
   short-circuits: once a key was found vectorised the later keys are NOT validated any more; every key is reshaped with
   reshape((-1, *space.shape)) (needs a divisible number of elements); the feature extractor then concatenates the keys, which needs
   one common batch size (None = exception) *)
Definition prodZ (l : list Z) : Z := fold_right Z.mul 1 l.

Definition reshape_batch (sp : space) (o : shape) : option Z :=
  let d := prodZ (space_shape sp) in
  if (0 <? d) && (prodZ o mod d =? 0) then Some (prodZ o / d) else None.

Fixpoint dict_tensors_from (v : bool) (sps : list space) (os : list shape) : option (bool * list Z) :=
  match sps, os with
  | [], [] => Some (v, [])
  | sp :: sps', o :: os' =>
      match (if supported sp then maybe_transpose sp o else None) with
      | None => None
      | Some o' =>
          match (if v then Some true else is_vectorized sp o'), reshape_batch sp o' with
          | Some v1, Some b =>
              match dict_tensors_from v1 sps' os' with
              | Some (v2, bs) => Some (v2, b :: bs)
              | None => None
              end
          | _, _ => None
          end
      end
  | _, _ => None
  end.
Definition dict_tensors := dict_tensors_from false.

Definition all_equal (l : list Z) : option Z :=
  match l with
  | [] => None
  | b :: r => if forallb (Z.eqb b) r then Some b else None
  end.

Definition predict_shape_dict (sps : list space) (ashape : shape) (os : list shape) : option shape :=
  match dict_tensors sps os with
  | None => None
  | Some (v, bs) =>
      match all_equal bs with
      | None => None
      | Some b => if v then Some (b :: ashape) else if b =? 1 then Some ashape else None
      end
  end.

(* DQN.predict, exploration branch: np.array([sample() for _ in range(observation.shape[0])]) or np.array(sample()) *)
Definition dqn_eps_shape (sp : space) (o : shape) : option shape :=
  match maybe_transpose sp o with
  | None => None
  | Some o' => match is_vectorized sp o' with
               | None => None
               | Some true => Some [hd 1 o]
               | Some false => Some []
               end
  end.

(* values *)
Definition qclip (a lo hi : Q) : Q := Qmin (Qmax a lo) hi.
Definition unscale (lo hi x : Q) : Q := (lo + (1 # 2) * (x + 1) * (hi - lo))%Q.

(* one-hot encoding of value v among n classes (preprocess_obs for Discrete observations) *)
Fixpoint one_hot_from (i n v : nat) : list Z :=
  match n with
  | O => []
  | S n' => (if Nat.eqb i v then 1 else 0) :: one_hot_from (S i) n' v
  end.
Definition onehot (n v : nat) : list Z := one_hot_from 0 n v.

(* MultiDiscrete observations: concatenation of the per-dimension one-hot encodings, in dimension order *)
Fixpoint onehot_concat (nvec vals : list nat) : list Z :=
  match nvec, vals with
  | n :: ns, v :: vs => onehot n v ++ onehot_concat ns vs
  | _, _ => []
  end.

(* Box actions: what predict() returns for one coordinate of the policy's low-level output x *)
Definition predict_value (squash : bool) (lo hi x : Q) : Q := if squash then unscale lo hi x else qclip x lo hi.

Definition qclose1 (tol m i : Q) : bool := Qle_bool (Qabs (m - i)) (tol + tol * Qabs m).
Fixpoint check_values (squash : bool) (l : list (Q * Q * Q * Q)) : list bool :=
  match l with
  | [] => []
  | (lo, hi, x, impl) :: r => qclose1 (1 # 100000) (predict_value squash lo hi x) impl :: check_values squash r
  end.

(* ---- torch_layers.create_mlp: the list of layers as a function of net_arch, output_dim, squash_output, with_bias and the
   numbers of pre / post linear module classes ---- *)
Inductive layer := LPre (d : Z) | LLinear (i o : Z) (bias : bool) | LPost (d : Z) | LAct | LTanh.

Definition block (npre npost : nat) (i o : Z) (bias : bool) : list layer :=
  repeat (LPre i) npre ++ [LLinear i o bias] ++ repeat (LPost o) npost ++ [LAct].

(* the loop `for idx in range(len(net_arch) - 1)`: consecutive pairs of hidden sizes *)
Fixpoint hidden_blocks (npre npost : nat) (bias : bool) (arch : list Z) : list layer :=
  match arch with
  | a :: ((b :: _) as rest) => block npre npost a b bias ++ hidden_blocks npre npost bias rest
  | _ => []
  end.

Definition mlp_body (input_dim output_dim : Z) (arch : list Z) (bias : bool) (npre npost : nat) : list layer :=
  (match arch with a0 :: _ => block npre npost input_dim a0 bias | [] => [] end)
  ++ hidden_blocks npre npost bias arch
  ++ (if 0 <? output_dim
      then let last_dim := if 0 <? Z.of_nat (length arch) then last arch 0 else input_dim in
           repeat (LPre last_dim) npre ++ [LLinear last_dim output_dim bias]
      else []).

Definition mlp_layers (input_dim output_dim : Z) (arch : list Z) (squash bias : bool) (npre npost : nat) : list layer :=
  mlp_body input_dim output_dim arch bias npre npost ++ (if squash then [LTanh] else []).

Definition layer_code (l : layer) : Z * Z * Z * bool :=
  match l with
  | LPre d => (1, d, 0, false) | LLinear i o b => (2, i, o, b) | LPost d => (3, d, 0, false)
  | LAct => (4, 0, 0, false) | LTanh => (5, 0, 0, false)
  end.
Definition show_mlp (input_dim output_dim : Z) (arch : list Z) (squash bias : bool) (npre npost : nat) :=
  map layer_code (mlp_layers input_dim output_dim arch squash bias npre npost).

(* correspondence entry point *)
Definition show_opt (x : option shape) : list Z := match x with Some s => 1 :: s | None => [0] end.
Definition check_predict (sp : space) (ashape o : shape) : list Z * list Z :=
  (show_opt (predict_shape sp ashape o), show_opt (dqn_eps_shape sp o)).
Definition check_predict_dict (sps : list space) (ashape : shape) (os : list shape) : list Z :=
  show_opt (predict_shape_dict sps ashape os).
