(* C17 - VecEnv wrappers (VecFrameStack / StackedObservations, VecTransposeImage, VecExtractDictObs,
   VecMonitor, VecCheckNan) on top of Model/VecEnv.v.  Definitions only.
   Layer A: frame stacking over abstract frames (theorems are polymorphic in the frame type).
   Layer B: concrete small tensors (shape + row-major data) so that the model can be compared with the
   real wrappers cell by cell. *)
From Coq Require Import ZArith List Bool.
From SB3V Require Import Model.Script Model.VecEnv.
Import ListNotations.
Local Open Scope nat_scope.

(* ================= Layer A: StackedObservations on abstract frames ================= *)
Section FrameStack.
Context {F : Type}.
Variable zero : F.
Variable n : nat.      (* n_stack *)

(* the last k elements *)
Definition lastn (k : nat) (l : list F) : list F := skipn (length l - k) l.

(* reset(): stacked_obs[...] = 0; newest slot := observation *)
Definition fs_reset (o : F) : list F := repeat zero (n - 1) ++ [o].
(* update(), not done: roll by one frame, newest slot := observation *)
Definition fs_push (w : list F) (o : F) : list F := tl w ++ [o].
(* update(): on done the window is zeroed before the new observation is written *)
Definition fs_next (w : list F) (o : F) (done : bool) : list F := if done then fs_reset o else fs_push w o.
(* update(), done: new_terminal = concatenate(previous_stack, old_terminal), previous_stack = rolled[:shift] *)
Definition fs_terminal (w : list F) (t : F) : list F := fs_push w t.

Inductive fevent := FReset (o : F) | FStep (o : F) (done : bool) (term : option F).

Definition fs_apply (w : list F) (ev : fevent) : list F :=
  match ev with FReset o => fs_reset o | FStep o d _ => fs_next w o d end.
(* the window after a history; a new StackedObservations holds zeros *)
Definition fs_run (evs : list fevent) : list F := fold_left fs_apply evs (repeat zero n).

(* specification: the observations of the current episode so far (what the wrapped env returned since
   the last reset, explicit or automatic) *)
Definition ep_apply (fr : list F) (ev : fevent) : list F :=
  match ev with
  | FReset o => [o]
  | FStep o true _ => [o]
  | FStep o false _ => fr ++ [o]
  end.
Definition ep_frames (evs : list fevent) : list F := fold_left ep_apply evs [].
(* the last n of them, zero-padded on the old side *)
Definition padded_suffix (fr : list F) : list F := lastn n (repeat zero n ++ fr).
End FrameStack.
Arguments fevent : clear implicits.

(* ================= Layer B: tensors ================= *)
Record tensor := mk_tensor { t_shape : list nat; t_data : list Z }.
Definition tempty : tensor := mk_tensor [] [].
Definition tfull (shape : list nat) (v : Z) : tensor := mk_tensor shape (repeat v (fold_right Nat.mul 1 shape)).
Definition tzeros_like (t : tensor) : tensor := mk_tensor (t_shape t) (map (fun _ => 0%Z) (t_data t)).

Definition set_hd (d : nat) (s : list nat) : list nat := match s with [] => [] | _ :: r => d :: r end.
Fixpoint set_last (d : nat) (s : list nat) : list nat :=
  match s with [] => [] | [_] => [d] | x :: r => x :: set_last d r end.

(* np.concatenate(frames, axis=0) *)
Definition tcat_first (ts : list tensor) : tensor :=
  match ts with
  | [] => tempty
  | t :: _ => mk_tensor (set_hd (list_sum (map (fun x => hd 0 (t_shape x)) ts)) (t_shape t)) (concat (map t_data ts))
  end.

Fixpoint chunks (fuel k : nat) (l : list Z) : list (list Z) :=
  match fuel with
  | 0 => []
  | S f => match l with [] => [] | _ => firstn k l :: chunks f k (skipn k l) end
  end.
Definition rows (t : tensor) : list (list Z) := chunks (length (t_data t)) (last (t_shape t) 1) (t_data t).
Fixpoint zipapp (a b : list (list Z)) : list (list Z) :=
  match a, b with x :: a', y :: b' => (x ++ y) :: zipapp a' b' | _, _ => [] end.

(* np.concatenate(frames, axis=-1) *)
Definition tcat_last (ts : list tensor) : tensor :=
  match ts with
  | [] => tempty
  | t :: rest =>
      mk_tensor (set_last (list_sum (map (fun x => last (t_shape x) 0) ts)) (t_shape t))
                (concat (fold_left (fun acc x => zipapp acc (rows x)) rest (rows t)))
  end.
Definition tcat (channels_first : bool) (ts : list tensor) : tensor :=
  if channels_first then tcat_first ts else tcat_last ts.

(* np.transpose(image, (2, 0, 1)): HxWxC -> CxHxW *)
Definition ttranspose (t : tensor) : tensor :=
  match t_shape t with
  | [h; w; c] =>
      let px := chunks (h * w) c (t_data t) in
      mk_tensor [c; h; w] (concat (map (fun ch => map (fun p => nth ch p 0%Z) px) (seq 0 c)))
  | _ => t
  end.

(* ================= observations, wrappers ================= *)
Inductive vobs := OBox (t : tensor) | ODict (kv : list (Z * tensor)).
Inductive space := SBox (shape : list nat) | SDict (items : list (Z * list nat)).
(* the scripted observation: every cell holds the tag *)
Definition enc (sp : space) (tag : Z) : vobs :=
  match sp with
  | SBox s => OBox (tfull s tag)
  | SDict items => ODict (map (fun '(k, s) => (k, tfull s tag)) items)
  end.

Fixpoint lookup {X} (k : Z) (l : list (Z * X)) (d : X) : X :=
  match l with [] => d | (k', x) :: r => if Z.eqb k k' then x else lookup k r d end.
Definition memk (k : Z) (l : list Z) : bool := existsb (Z.eqb k) l.

Inductive wrapper :=
  | WFrameStack (n : nat) (cf : list (Z * bool))   (* resolved channels_first per key (key 0 for a Box space) *)
  | WTranspose (keys : list Z)                     (* keys that hold images (key 0 for an image Box); [] when skip *)
  | WExtract (key : Z)
  | WMonitor
  | WCheckNan.

(* state of one wrapper for one sub-environment: the frame windows per key (empty for stateless wrappers) *)
Definition wstate := list (Z * list tensor).

Record bout := mk_bout { b_obs : vobs; b_rew : Z; b_done : bool; b_tl : bool; b_term : option vobs }.

Definition kvs (o : vobs) : list (Z * tensor) := match o with OBox t => [(0%Z, t)] | ODict kv => kv end.
Definition rebuild (like : vobs) (kv : list (Z * tensor)) : vobs :=
  match like with OBox _ => OBox (snd (hd (0%Z, tempty) kv)) | ODict _ => ODict kv end.

Definition st_restart (n : nat) (o : vobs) : wstate :=
  map (fun '(k, t) => (k, fs_reset (tzeros_like t) n t)) (kvs o).
Definition st_push (st : wstate) (o : vobs) : wstate :=
  map (fun '(k, t) => (k, fs_push (lookup k st []) t)) (kvs o).
Definition st_show (cf : list (Z * bool)) (like : vobs) (st : wstate) : vobs :=
  rebuild like (map (fun '(k, w) => (k, tcat (lookup k cf false) w)) st).

Definition tr_obs (keys : list Z) (o : vobs) : vobs :=
  match o with
  | OBox t => if memk 0%Z keys then OBox (ttranspose t) else o
  | ODict kv => ODict (map (fun '(k, t) => (k, if memk k keys then ttranspose t else t)) kv)
  end.
Definition extract (key : Z) (o : vobs) : vobs :=
  match o with ODict kv => OBox (lookup key kv tempty) | _ => o end.

Definition w_reset (w : wrapper) (st : wstate) (o : vobs) : wstate * vobs :=
  match w with
  | WFrameStack n cf => let st' := st_restart n o in (st', st_show cf o st')
  | WTranspose keys => (st, tr_obs keys o)
  | WExtract k => (st, extract k o)
  | WMonitor | WCheckNan => (st, o)
  end.

Definition w_step (w : wrapper) (st : wstate) (out : bout) : wstate * bout :=
  let '(mk_bout obs rew done tl term) := out in
  match w with
  | WFrameStack n cf =>
      let st' := if done then st_restart n obs else st_push st obs in
      (st', mk_bout (st_show cf obs st') rew done tl
                    (if done then option_map (fun t => st_show cf t (st_push st t)) term else term))
  | WTranspose keys =>
      (st, mk_bout (tr_obs keys obs) rew done tl (if done then option_map (tr_obs keys) term else term))
  | WExtract k => (st, mk_bout (extract k obs) rew done tl (option_map (extract k) term))
  | WMonitor | WCheckNan => (st, out)
  end.

(* a stack of wrappers, innermost first *)
Fixpoint stack_reset (ws : list wrapper) (sts : list wstate) (o : vobs) : list wstate * vobs :=
  match ws, sts with
  | w :: ws', s :: ss =>
      let '(s', o1) := w_reset w s o in
      let '(ss', o2) := stack_reset ws' ss o1 in (s' :: ss', o2)
  | _, _ => ([], o)
  end.
Fixpoint stack_step (ws : list wrapper) (sts : list wstate) (out : bout) : list wstate * bout :=
  match ws, sts with
  | w :: ws', s :: ss =>
      let '(s', o1) := w_step w s out in
      let '(ss', o2) := stack_step ws' ss o1 in (s' :: ss', o2)
  | _, _ => ([], out)
  end.
Definition stack_init (ws : list wrapper) : list wstate := map (fun _ => []) ws.

(* an ending step whose terminal observation is t, re-presented as an ordinary (non-ending) step
   that returns t *)
Definition ordinary (out : bout) (t : vobs) : bout := mk_bout t (b_rew out) false (b_tl out) None.

Inductive bevent := BReset (o : vobs) | BStep (out : bout).
Inductive wout := WOReset (o : vobs) | WOStep (out : bout).
Fixpoint run_wrapped (ws : list wrapper) (sts : list wstate) (evs : list bevent) : list wout :=
  match evs with
  | [] => []
  | BReset o :: r => let '(sts', o') := stack_reset ws sts o in WOReset o' :: run_wrapped ws sts' r
  | BStep out :: r => let '(sts', out') := stack_step ws sts out in WOStep out' :: run_wrapped ws sts' r
  end.

(* ================= on top of the scripted VecEnv model ================= *)
Definition bevents_of (sp : space) (i : nat) (outs : list (voutput Z Z Z Z)) : list bevent :=
  flat_map (fun o =>
    match o with
    | VOReset obs _ _ => match nth_error obs i with Some t => [BReset (enc sp t)] | None => [] end
    | VOStep souts _ _ =>
        match nth_error souts i with
        | Some s => [BStep (mk_bout (enc sp (so_obs s)) (so_rew s) (so_done s) (so_tl s) (option_map (enc sp) (so_term s)))]
        | None => []
        end
    | _ => []
    end) outs.

(* printable: run-length encoded tensors *)
Fixpoint rle (l : list Z) : list (Z * nat) :=
  match l with
  | [] => []
  | x :: r => match rle r with
              | (y, c) :: q => if Z.eqb x y then (y, S c) :: q else (x, 1) :: (y, c) :: q
              | [] => [(x, 1)]
              end
  end.
Definition pobs (o : vobs) : list (Z * list nat * list (Z * nat)) :=
  map (fun '(k, t) => (k, t_shape t, rle (t_data t))) (kvs o).
Inductive pwout :=
  | PWReset (o : list (Z * list nat * list (Z * nat)))
  | PWStep (o : list (Z * list nat * list (Z * nat))) (rew : Z) (done tl : bool) (term : option (list (Z * list nat * list (Z * nat)))).
Definition pwout_of (o : wout) : pwout :=
  match o with
  | WOReset ob => PWReset (pobs ob)
  | WOStep out => PWStep (pobs (b_obs out)) (b_rew out) (b_done out) (b_tl out) (option_map pobs (b_term out))
  end.

(* per sub-environment: the outputs of the wrapper stack over the scripted VecEnv driven by ops *)
Definition run_wrapped_scripted (sp : space) (ws : list wrapper) (scs : list script) (ops : list (vop Z Z)) : list (list pwout) :=
  let outs := vrun sc_step sc_reset (vinit (map (fun sc => (sc, cursor0)) scs)) ops in
  map (fun i => map pwout_of (run_wrapped ws (stack_init ws) (bevents_of sp i outs))) (seq 0 (length scs)).
