(* C03 (extension) - RolloutBuffer / DictRolloutBuffer: cursor, reset, get() protocol. *)
From SB3V Require Import Lib.Tactics Gen.Frag_replay Model.Minibatch Model.Rollout Proofs.MinibatchProofs.
Local Open Scope nat_scope.

(* ------------------------------------------------------------------ interface lemmas *)
Lemma frag_radd_cursor pos T full :
  rollout_add_cursor (Z.of_nat pos) (Z.of_nat T) full = (Z.of_nat (fst (radd_cursor pos T full)), snd (radd_cursor pos T full)) /\
  dictrollout_add_cursor (Z.of_nat pos) (Z.of_nat T) full = (Z.of_nat (fst (radd_cursor pos T full)), snd (radd_cursor pos T full)).
Proof.
  unfold rollout_add_cursor, dictrollout_add_cursor, radd_cursor. cbn [fst snd].
  replace (Z.of_nat pos + 1)%Z with (Z.of_nat (S pos)) by lia.
  destruct (Nat.eqb_spec (S pos) T) as [E|E].
  - rewrite E, Z.eqb_refl. split; reflexivity.
  - destruct (Z.eqb_spec (Z.of_nat (S pos)) (Z.of_nat T)); [lia|]. split; reflexivity.
Qed.

Lemma frag_rstep_get b :
  rstep b RGet =
  if rollout_get_requires (r_full b) then
    if rollout_get_flatten_guard (r_ready b)
    then Some (mkR (r_T b) (r_n b) (r_pos b) (r_full b) rollout_get_sets_ready (r_rows b) (Some (flatten 0%Z (r_n b) (arr b))))
    else Some b
  else None.
Proof. unfold rstep, rollout_get_requires, rollout_get_flatten_guard, rollout_get_sets_ready. destruct (r_full b), (r_ready b); reflexivity. Qed.

Lemma frag_rstep_reset b :
  rstep b RReset = Some (mkR (r_T b) (r_n b) (Z.to_nat (fst base_reset)) (snd base_reset) rollout_reset_ready [] None) /\
  rollout_reset_ready = dictrollout_reset_ready /\ rollout_get_sets_ready = dictrollout_get_sets_ready /\
  (forall f, rollout_get_requires f = dictrollout_get_requires f) /\ (forall r, rollout_get_flatten_guard r = dictrollout_get_flatten_guard r).
Proof. repeat split; reflexivity. Qed.

(* ------------------------------------------------------------------ invariant *)
Record RInv (b : rbuf) (h : list (list Z)) : Prop := {
  ri_rows : r_rows b = h;
  ri_pos : r_pos b = length h;
  ri_le : length h <= r_T b;
  ri_full : r_full b = (length h =? r_T b);
  ri_ready : r_ready b = true -> r_full b = true /\ r_flat b = Some (flatten 0%Z (r_n b) h);
  ri_notready : r_ready b = false -> r_flat b = None
}.

Lemma arr_full b h : RInv b h -> r_full b = true -> arr b = h.
Proof.
  intros I Hf. unfold arr. rewrite (ri_rows _ _ I), (ri_pos _ _ I).
  rewrite (ri_full _ _ I) in Hf. apply Nat.eqb_eq in Hf. rewrite Hf, Nat.sub_diag. cbn [repeat]. apply app_nil_r.
Qed.

Lemma RInv_create T n : 0 < T -> RInv (rcreate T n) [].
Proof.
  intros HT. constructor; cbn [rcreate r_rows r_pos r_T r_full r_ready r_flat length]; try reflexivity; try lia; try discriminate.
Qed.

Definition hist_step (h : list (list Z)) (o : rop) : list (list Z) :=
  match o with RAdd row => h ++ [row] | RReset => [] | RGet => h end.

Local Opaque Nat.eqb Nat.ltb.
Lemma RInv_step b h o b' : 0 < r_T b -> RInv b h -> rstep b o = Some b' -> RInv b' (hist_step h o) /\ r_T b' = r_T b /\ r_n b' = r_n b.
Proof.
  intros HT I H. destruct o as [row| |]; cbn [rstep hist_step] in *.
  - destruct (Nat.ltb_spec (r_pos b) (r_T b)) as [Hlt|]; [|discriminate].
    unfold radd_cursor in H. injection H as <-. rewrite (ri_pos _ _ I) in *.
    split; [|split; reflexivity].
    constructor; cbn [r_rows r_pos r_T r_full r_ready r_flat]; rewrite ?app_length; cbn [length].
    + rewrite (ri_rows _ _ I). reflexivity.
    + lia.
    + lia.
    + replace (length h + 1) with (S (length h)) by lia.
      destruct (Nat.eqb_spec (S (length h)) (r_T b)); [reflexivity|].
      rewrite (ri_full _ _ I). destruct (Nat.eqb_spec (length h) (r_T b)); [lia|reflexivity].
    + intros Hr. destruct (ri_ready _ _ I Hr) as (Hf & _). rewrite (ri_full _ _ I) in Hf. apply Nat.eqb_eq in Hf. lia.
    + apply (ri_notready _ _ I).
  - injection H as <-. split; [|split; reflexivity].
    constructor; cbn [r_rows r_pos r_T r_full r_ready r_flat length]; try reflexivity; try lia; try discriminate;
      try (destruct (Nat.eqb_spec 0 (r_T b)); [lia|reflexivity]).
  - destruct (r_full b) eqn:Hf; [|discriminate]. destruct (r_ready b) eqn:Hr.
    + injection H as <-. split; [exact I|split; reflexivity].
    + injection H as <-. split; [|split; reflexivity].
      constructor; cbn [r_rows r_pos r_T r_full r_ready r_flat];
        try apply (ri_rows _ _ I); try apply (ri_pos _ _ I); try apply (ri_le _ _ I).
      * rewrite <- (ri_full _ _ I), Hf. reflexivity.
      * intros _. split; [reflexivity|]. rewrite (arr_full _ _ I Hf). reflexivity.
      * discriminate.
Qed.

Local Transparent Nat.eqb Nat.ltb.
(* histories: calls that raise leave the buffer unchanged *)
Lemma rrun_inv : forall ops b h, 0 < r_T b -> RInv b h ->
  RInv (fst (rrun b ops)) (rrecent b h ops) /\ r_T (fst (rrun b ops)) = r_T b /\ r_n (fst (rrun b ops)) = r_n b.
Proof.
  induction ops as [|o ops IH]; intros b h HT I; cbn [rrun rrecent]; [cbn [fst]; auto|].
  destruct (rstep b o) as [b'|] eqn:E.
  - destruct (RInv_step _ _ _ _ HT I E) as (I' & HT' & Hn').
    specialize (IH b' (hist_step h o) ltac:(lia) I').
    replace (match o with RAdd row => h ++ [row] | RReset => [] | RGet => h end) with (hist_step h o) by (destruct o; reflexivity).
    destruct (rrun b' ops) as [fin errs]. cbn [fst] in *. destruct IH as (A & B & C). split; [exact A|]. split; [rewrite B; exact HT'|rewrite C; exact Hn'].
  - specialize (IH b h HT I). destruct (rrun b ops) as [fin errs]. exact IH.
Qed.

(* ------------------------------------------------------------------ theorems *)
Section Reach.
Variables (T n : nat) (ops : list rop).
Hypothesis HT : 0 < T.
Let b := fst (rrun (rcreate T n) ops).
Let h := rrecent (rcreate T n) [] ops.

(* pos counts the adds since the last reset; full exactly when buffer_size rows are stored; never more *)
Theorem rollout_cursor : r_pos b = length h /\ length h <= T /\ r_full b = (length h =? T).
Proof.
  destruct (rrun_inv ops (rcreate T n) [] HT (RInv_create T n HT)) as (I & HT' & _). fold b h in I, HT'.
  cbn [rcreate r_T] in HT'. rewrite <- HT'. split; [apply (ri_pos _ _ I)|]. split; [apply (ri_le _ _ I)|apply (ri_full _ _ I)].
Qed.

(* add raises exactly when the buffer is full; get raises exactly when it is not *)
Theorem rollout_calls_raise row :
  (rstep b (RAdd row) = None <-> length h = T) /\ (rstep b RGet = None <-> length h <> T).
Proof.
  destruct (rrun_inv ops (rcreate T n) [] HT (RInv_create T n HT)) as (I & HT' & _). fold b h in I, HT'.
  cbn [rcreate r_T] in HT'. pose proof (ri_le _ _ I) as Hle. cbn [rstep]. rewrite (ri_pos _ _ I), (ri_full _ _ I), HT' in *. split.
  - destruct (Nat.ltb_spec (length h) T); [|split; [lia|reflexivity]].
    unfold radd_cursor. split; [discriminate|lia].
  - destruct (Nat.eqb_spec (length h) T).
    + destruct (r_ready b); split; (discriminate || lia || congruence).
    + split; [auto|reflexivity].
Qed.

(* once get() has been called after a fill, and for any number of further passes, the arrays are the
   swap_and_flatten of the stored rows - flattened exactly once: flat index e*T + t holds row t, column e *)
Theorem rollout_flat_is_flatten_of_rows :
  r_ready b = true ->
  length h = T /\ r_flat b = Some (flatten 0%Z n h) /\
  forall e t, t < T -> e < n -> nth (e * T + t) (flatten 0%Z n h) 0%Z = nth e (nth t h []) 0%Z.
Proof.
  intros Hr. destruct (rrun_inv ops (rcreate T n) [] HT (RInv_create T n HT)) as (I & HT' & Hn'). fold b h in I, HT', Hn'.
  cbn [rcreate r_T r_n] in HT', Hn'. destruct (ri_ready _ _ I Hr) as (Hf & Hfl).
  rewrite (ri_full _ _ I), HT' in Hf. apply Nat.eqb_eq in Hf. rewrite Hn' in Hfl.
  split; [exact Hf|]. split; [exact Hfl|]. intros e t Ht He. rewrite <- Hf in *. apply flatten_index; assumption.
Qed.

(* a further get() pass changes nothing (generator_ready prevents a second flattening) *)
Theorem rollout_get_idempotent : r_ready b = true -> rstep b RGet = Some b.
Proof.
  intros Hr. destruct (rrun_inv ops (rcreate T n) [] HT (RInv_create T n HT)) as (I & _). fold b h in I.
  destruct (ri_ready _ _ I Hr) as (Hf & _). cbn [rstep]. rewrite Hf, Hr. reflexivity.
Qed.
End Reach.

(* reset empties the buffer and re-arms the flattening *)
Theorem rollout_reset_empties b :
  exists b', rstep b RReset = Some b' /\ r_pos b' = 0 /\ r_full b' = false /\ r_ready b' = false /\ r_rows b' = [] /\ r_flat b' = None /\
             rstep b' RGet = None.
Proof. eexists. split; [reflexivity|]. cbn. repeat split; reflexivity. Qed.
