From Coq Require Import List ZArith Bool String Lia.
From SB3V Require Import Gen.Frag_loadflow Model.JsonCodec Model.SaveLoad Model.LoadFlow Proofs.JsonCodecProofs Proofs.SaveLoadProofs.
Import ListNotations.
Local Open Scope string_scope.

(* ---------- interface lemmas: the guards regenerated from base_class.py / off_policy_algorithm.py ---------- *)
Lemma frag_pk_raises i d : pk_raises i d = ld_pk_raises i (negb i) d (negb d).
Proof. destruct i, d; reflexivity. Qed.
Lemma frag_spaces_missing o a : spaces_missing o a = ld_spaces_missing o (negb o) a (negb a).
Proof. destruct o, a; reflexivity. Qed.
Lemma frag_legacy_net_arch t l f : legacy_net_arch t l f = ld_legacy_net_arch t l f.
Proof. destruct t, l, f; reflexivity. Qed.
Lemma frag_flow_tests g f e u :
  ld_env_given (negb g) g = g /\ ld_force_reset f true false = f /\ ld_n_envs_updated true false = true /\
  ld_use_stored_env e (negb e) = e /\ ld_reset_noise u = u.
Proof. destruct g, f, e, u; repeat split. Qed.
Lemma frag_load_replay_buffer i :
  ri_buffer i = true -> (ri_her i = true -> ri_model_env i = true) ->
  load_replay_buffer i = RbOk (rb_legacy (ri_timeout_attr i)) (rb_is_her (ri_her i) (negb (ri_her i)))
                              (rb_is_her (ri_her i) (negb (ri_her i)) && rb_truncate (ri_truncate i)) true.
Proof.
  intros Hb He. unfold load_replay_buffer. rewrite Hb. cbn [negb].
  destruct (ri_her i) eqn:E; [rewrite (He eq_refl)|]; destruct (ri_timeout_attr i), (ri_truncate i); reflexivity.
Qed.

(* ---------- lookups ---------- *)
Fixpoint sget (n : string) (j : list (string * stored)) : option stored :=
  match j with [] => None | (m, s) :: r => if String.eqb n m then Some s else sget n r end.

Lemma dget_decoded n j c :
  dget n (json_to_data_custom j c)
  = match sget n j with Some s => Some (match lookup_custom n c with Some v => v | None => load_item s end) | None => None end.
Proof.
  unfold dget, json_to_data_custom. induction j as [|[m s] j IH]; [reflexivity|]. cbn [map lookup_custom sget fst snd].
  destruct (String.eqb n m) eqn:E; [|exact IH]. apply String.eqb_eq in E. now subst.
Qed.

Lemma lookup_adata n d : lookup n (adata d) = match dget n d with Some v => Some (AData v) | None => None end.
Proof.
  unfold adata, dget. induction d as [|[m v] d IH]; [reflexivity|]. cbn [map lookup lookup_custom fst snd].
  destruct (String.eqb n m); [reflexivity|exact IH].
Qed.

Lemma lookup_tagged_none {A} (f : A -> attr) n (l : list (string * A)) : ~ In n (map fst l) ->
  lookup n (map (fun kv => (fst kv, f (snd kv))) l) = None.
Proof.
  induction l as [|[m v] l IH]; [reflexivity|]. cbn [map lookup fst snd]. intros H.
  destruct (String.eqb n m) eqn:E; [apply String.eqb_eq in E; subst; exfalso; apply H; now left|].
  apply IH. intros X. apply H. now right.
Qed.

Lemma lookup_update n o new : lookup n (update o new) = match lookup n new with Some x => Some x | None => lookup n o end.
Proof. apply lookup_app. Qed.

Lemma dget_step_pk n d : dget n (step_pk d) = if String.eqb n "policy_kwargs" then option_map convert_pk (dget n d) else dget n d.
Proof.
  unfold step_pk. destruct (String.eqb n "policy_kwargs") eqn:E.
  - apply String.eqb_eq in E. subst n. destruct (dget "policy_kwargs" d) eqn:G; [|now rewrite G]. unfold dget. cbn [lookup_custom]. now rewrite String.eqb_refl.
  - destruct (dget "policy_kwargs" d); [|reflexivity]. unfold dget. cbn [lookup_custom]. now rewrite E.
Qed.

(* what `data` holds when the constructor runs, for every name *)
Definition expected_data (d0 : list (string * jv)) (args : load_args) (n : string) : option jv :=
  match la_env args with
  | Some e => if String.eqb n "n_envs" then Some (JInt (e_num_envs e))
              else if String.eqb n "_last_obs" && la_force_reset args then Some JNull
              else dget n (step_pk d0)
  | None => dget n (step_pk d0)
  end.

Lemma dget_prepare d0 args d env n : prepare d0 args = POk d env -> dget n d = expected_data d0 args n.
Proof.
  unfold prepare, expected_data. destruct (guard_pk _ _); [discriminate|]. destruct (spaces_missing _ _); [discriminate|].
  destruct (la_env args) as [e|]; [|intros H; now inversion H].
  destruct (negb (e_spaces_ok e)); [discriminate|]. intros H. inversion H; subst. clear H.
  unfold dget. cbn [lookup_custom]. destruct (String.eqb n "n_envs") eqn:E1; [reflexivity|].
  destruct (la_force_reset args); cbn [lookup_custom andb].
  - destruct (String.eqb n "_last_obs"); reflexivity.
  - now rewrite andb_false_r.
Qed.

Lemma prepare_env d0 args d env : prepare d0 args = POk d env ->
  env = match la_env args with Some e => Some (JOpaque (e_id e)) | None => dget "env" (step_pk d0) end.
Proof.
  unfold prepare. destruct (guard_pk _ _); [discriminate|]. destruct (spaces_missing _ _); [discriminate|].
  destruct (la_env args) as [e|]; [|intros H; now inversion H].
  destruct (negb (e_spaces_ok e)); [discriminate|]. intros H. now inversion H.
Qed.

Section Load.
Variables (ctor : option jv -> obj) (setup : obj -> obj) (created : list string) (needing : list string).
Hypothesis setup_frame : forall o n, ~ In n created -> lookup n (setup o) = lookup n o.

(* MAIN lookup lemma: an attribute that _setup_model does not re-create and that is no state dict / torch variable has, after
   load, in this order of priority: the kwargs value, else what `data` held when the constructor ran, else the constructor's *)
Lemma load_lookup a args o nz n :
  load_model ctor setup needing a args = Loaded o nz ->
  ~ In n created -> ~ In n (map fst (a_params a)) -> ~ In n (map fst (a_vars a)) ->
  exists env, env = match la_env args with Some e => Some (JOpaque (e_id e))
                                       | None => dget "env" (step_pk (json_to_data_custom (a_data a) (la_custom args))) end /\
  lookup n o = match lookup n (la_kwargs args) with
               | Some x => Some x
               | None => match expected_data (json_to_data_custom (a_data a) (la_custom args)) args n with
                         | Some v => Some (AData v)
                         | None => lookup n (ctor env)
                         end
               end.
Proof.
  unfold load_model. destruct (prepare _ args) as [e|d env] eqn:P; [discriminate|].
  destruct (negb (set_eqb _ needing)); [discriminate|]. intros H Hc Hp Hv. inversion H; subst. clear H.
  exists env. split; [exact (prepare_env _ _ _ _ P)|].
  unfold set_parameters, update. rewrite lookup_app, (lookup_tagged_none AVar) by exact Hv.
  rewrite lookup_app, (lookup_tagged_none AModule) by exact Hp. rewrite setup_frame by exact Hc.
  rewrite lookup_app. destruct (lookup n (la_kwargs args)); [reflexivity|].
  rewrite lookup_app, lookup_adata, (dget_prepare _ _ _ _ n P). now destruct (expected_data _ args n).
Qed.

(* (a)+(b) frame condition and custom_objects: every stored attribute that is not re-created by _setup_model, not a state dict /
   torch variable, not named in kwargs and not env bookkeeping (n_envs, _last_obs) / policy_kwargs has, after load, the custom
   object if custom_objects names it and its saved value otherwise *)
Lemma load_frame a args o nz n s :
  load_model ctor setup needing a args = Loaded o nz ->
  sget n (a_data a) = Some s ->
  ~ In n created -> ~ In n (map fst (a_params a)) -> ~ In n (map fst (a_vars a)) -> lookup n (la_kwargs args) = None ->
  n <> "n_envs" -> n <> "_last_obs" -> n <> "policy_kwargs" ->
  lookup n o = Some (AData (match lookup_custom n (la_custom args) with Some c => c | None => load_item s end)).
Proof.
  intros H Hs Hc Hp Hv Hk N1 N2 N3. destruct (load_lookup a args o nz n H Hc Hp Hv) as (env & _ & ->). rewrite Hk.
  unfold expected_data. apply String.eqb_neq in N1, N2, N3. rewrite N1, N2, dget_step_pk, N3, dget_decoded, Hs. cbn [andb].
  now destruct (la_env args).
Qed.

(* kwargs win over everything stored *)
Lemma load_kwargs_win a args o nz n x :
  load_model ctor setup needing a args = Loaded o nz ->
  ~ In n created -> ~ In n (map fst (a_params a)) -> ~ In n (map fst (a_vars a)) -> lookup n (la_kwargs args) = Some x ->
  lookup n o = Some x.
Proof. intros H Hc Hp Hv Hk. destruct (load_lookup a args o nz n H Hc Hp Hv) as (env & _ & ->). now rewrite Hk. Qed.

(* policy_kwargs: the stored (or custom) value after the device deletion / legacy net_arch conversion *)
Lemma load_policy_kwargs a args o nz s :
  load_model ctor setup needing a args = Loaded o nz ->
  sget "policy_kwargs" (a_data a) = Some s ->
  ~ In "policy_kwargs" created -> ~ In "policy_kwargs" (map fst (a_params a)) -> ~ In "policy_kwargs" (map fst (a_vars a)) ->
  lookup "policy_kwargs" (la_kwargs args) = None ->
  lookup "policy_kwargs" o = Some (AData (convert_pk (match lookup_custom "policy_kwargs" (la_custom args) with Some c => c | None => load_item s end))).
Proof.
  intros H Hs Hc Hp Hv Hk. destruct (load_lookup a args o nz _ H Hc Hp Hv) as (env & _ & ->). rewrite Hk.
  unfold expected_data. rewrite dget_step_pk, dget_decoded, Hs. cbn. now destruct (la_env args).
Qed.

(* (c) env bookkeeping *)
Lemma load_env_n_envs a args o nz e :
  load_model ctor setup needing a args = Loaded o nz -> la_env args = Some e ->
  ~ In "n_envs" created -> ~ In "n_envs" (map fst (a_params a)) -> ~ In "n_envs" (map fst (a_vars a)) -> lookup "n_envs" (la_kwargs args) = None ->
  lookup "n_envs" o = Some (AData (JInt (e_num_envs e))).
Proof.
  intros H He Hc Hp Hv Hk. destruct (load_lookup a args o nz _ H Hc Hp Hv) as (env & _ & ->). rewrite Hk.
  unfold expected_data. now rewrite He.
Qed.

Lemma load_env_last_obs a args o nz e s :
  load_model ctor setup needing a args = Loaded o nz -> la_env args = Some e ->
  sget "_last_obs" (a_data a) = Some s ->
  ~ In "_last_obs" created -> ~ In "_last_obs" (map fst (a_params a)) -> ~ In "_last_obs" (map fst (a_vars a)) -> lookup "_last_obs" (la_kwargs args) = None ->
  lookup "_last_obs" o = Some (AData (if la_force_reset args then JNull
                                      else match lookup_custom "_last_obs" (la_custom args) with Some c => c | None => load_item s end)).
Proof.
  intros H He Hs Hc Hp Hv Hk. destruct (load_lookup a args o nz _ H Hc Hp Hv) as (env & _ & ->). rewrite Hk.
  unfold expected_data. rewrite He. cbn [String.eqb Ascii.eqb Bool.eqb andb]. destruct (la_force_reset args); [reflexivity|].
  now rewrite dget_step_pk, dget_decoded, Hs.
Qed.

(* without an env both are plain stored attributes *)
Lemma load_noenv_bookkeeping a args o nz n s :
  load_model ctor setup needing a args = Loaded o nz -> la_env args = None ->
  sget n (a_data a) = Some s -> n <> "policy_kwargs" ->
  ~ In n created -> ~ In n (map fst (a_params a)) -> ~ In n (map fst (a_vars a)) -> lookup n (la_kwargs args) = None ->
  lookup n o = Some (AData (match lookup_custom n (la_custom args) with Some c => c | None => load_item s end)).
Proof.
  intros H He Hs N3 Hc Hp Hv Hk. destruct (load_lookup a args o nz n H Hc Hp Hv) as (env & _ & ->). rewrite Hk.
  unfold expected_data. apply String.eqb_neq in N3. now rewrite He, dget_step_pk, N3, dget_decoded, Hs.
Qed.

(* the env attribute itself: the given env is the model's env PROVIDED the archive holds no `env` (see Refuted/C09_load_env.v) *)
Lemma load_env_attribute a args o nz e :
  load_model ctor setup needing a args = Loaded o nz -> la_env args = Some e -> sget "env" (a_data a) = None ->
  ~ In "env" created -> ~ In "env" (map fst (a_params a)) -> ~ In "env" (map fst (a_vars a)) -> lookup "env" (la_kwargs args) = None ->
  lookup "env" o = lookup "env" (ctor (Some (JOpaque (e_id e)))).
Proof.
  intros H He Hs Hc Hp Hv Hk. destruct (load_lookup a args o nz _ H Hc Hp Hv) as (env & -> & ->). rewrite Hk, He.
  unfold expected_data. rewrite He. cbn [String.eqb Ascii.eqb Bool.eqb andb]. now rewrite dget_step_pk, dget_decoded, Hs.
Qed.

(* state dicts and torch variables come from the archive, whatever _setup_model / kwargs did *)
Lemma load_params a args o nz n sd :
  load_model ctor setup needing a args = Loaded o nz -> lookup_param n (a_params a) = Some sd -> ~ In n (map fst (a_vars a)) ->
  lookup n o = Some (AModule sd).
Proof.
  unfold load_model. destruct (prepare _ args); [discriminate|]. destruct (negb (set_eqb _ needing)); [discriminate|].
  intros H Hp Hv. inversion H; subst. clear H. rewrite lookup_update, (lookup_tagged_none AVar) by exact Hv.
  now rewrite set_parameters_partial, Hp.
Qed.
End Load.

(* (d) load raises exactly when one of the modelled guards fails, with the first failing guard's error; otherwise it returns *)
Lemma load_raises_spec ctor setup needing a args :
  match load_model ctor setup needing a args with
  | Loaded _ _ => load_raises needing a args = None
  | LoadRaises e => load_raises needing a args = Some e
  end.
Proof.
  unfold load_model, load_raises, prepare.
  destruct (guard_pk _ _); [reflexivity|]. destruct (spaces_missing _ _); [reflexivity|].
  destruct (la_env args) as [e|].
  - destruct (negb (e_spaces_ok e)); [reflexivity|]. now destruct (negb (set_eqb _ needing)).
  - now destruct (negb (set_eqb _ needing)).
Qed.

Lemma load_raises_iff needing a args :
  load_raises needing a args <> None <->
  let d1 := step_pk (json_to_data_custom (a_data a) (la_custom args)) in
  guard_pk (la_kwargs args) d1 = true \/ dhas "observation_space" d1 = false \/ dhas "action_space" d1 = false \/
  (exists e, la_env args = Some e /\ e_spaces_ok e = false) \/ set_eqb (map fst (a_params a)) needing = false.
Proof.
  unfold load_raises, spaces_missing. cbv zeta.
  destruct (guard_pk _ _); [split; [now left|discriminate]|].
  destruct (dhas "observation_space" _); [|split; [intros _; right; now left|discriminate]].
  destruct (dhas "action_space" _); [|split; [intros _; right; right; now left|discriminate]]. cbn [negb orb].
  destruct (la_env args) as [e|].
  - destruct (e_spaces_ok e) eqn:E; cbn [negb].
    + destruct (set_eqb _ needing); cbn [negb]; split; try discriminate; try congruence.
      * intros [X|[X|[X|[(e' & He & X)|X]]]]; try discriminate. inversion He; subst. congruence.
      * intros _. now repeat right.
    + split; [|discriminate]. intros _. right; right; right; left. now exists e.
  - destruct (set_eqb _ needing); cbn [negb]; split; try discriminate; try congruence.
    + intros [X|[X|[X|[(e' & He & X)|X]]]]; discriminate.
    + intros _. now repeat right.
Qed.
