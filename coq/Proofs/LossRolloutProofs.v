(* C07 x C05 - composition lemmas (axiom-free): the advantages / returns consumed by the PPO / A2C loss
   are the GAE quantities of C05 at the minibatch's rollout cells. *)
From Coq Require Import QArith List Lia.
From SB3V Require Model.Gae Proofs.GaeProofs.
From SB3V Require Import Model.LossCommon Model.LossPPO Model.LossA2C Model.LossRollout.
Import ListNotations.
Local Open Scope Q_scope.

(* the advantage of cell (t, e) is the discounted sum of TD errors of env e from step t on (C05) *)
Lemma cell_adv_is_gae_definition g l cols te :
  cell_adv g l cols te == Gae.adv_def g l (skipn (fst te) (nth (snd te) cols [])).
Proof. unfold cell_adv. apply GaeProofs.gae_code_is_def. Qed.

Lemma Forall2_nth_Qeq (a b : list Q) : Forall2 Qeq a b -> forall t, nth t a 0 == nth t b 0.
Proof. induction 1; intros [|t]; cbn; try reflexivity; auto. Qed.

Lemma cell_adv_exec_ok g l cols te : cell_adv_exec g l cols te == cell_adv g l cols te.
Proof. unfold cell_adv_exec, cell_adv. apply Forall2_nth_Qeq. apply GaeProofs.gae_exec_code. Qed.

(* the policy-gradient term of every minibatch sample uses the GAE advantage of its cell *)
Lemma mb_advs_are_gae g l cols cells :
  Forall2 (fun a te => a == Gae.adv_def g l (skipn (fst te) (nth (snd te) cols []))) (mb_advs g l cols cells) cells.
Proof.
  unfold mb_advs. induction cells as [|te t IH]; cbn [map]; constructor; [apply cell_adv_is_gae_definition | exact IH].
Qed.

(* the value loss regresses on return = advantage + value of the same cell; this is C05's returns array *)
Lemma mb_rets_are_adv_plus_value g l cols cells :
  Forall2 (fun r te => r == cell_adv g l cols te + cell_val cols te) (mb_rets g l cols cells) cells.
Proof. unfold mb_rets, cell_ret. induction cells; cbn [map]; constructor; [reflexivity | assumption]. Qed.

Lemma cell_ret_is_C05_return g l cols t e v :
  (t < length (nth e cols []))%nat ->
  nth_error (map Gae.s_v (nth e cols [])) t = Some v ->
  nth_error (Gae.returns_of (Gae.gae_code g l (nth e cols [])) (map Gae.s_v (nth e cols []))) t = Some (cell_adv g l cols (t, e) + v).
Proof.
  intros Ht Hv. apply GaeProofs.returns_def; [|exact Hv].
  unfold cell_adv. cbn [fst snd]. apply (nth_error_nth' _ 0). rewrite GaeProofs.gae_code_length. exact Ht.
Qed.

(* normalisation is over the MINIBATCH: (A - mean(minibatch)) / (std + 1e-8) *)
Lemma maybe_norm_spec (norm : bool) std advs :
  Forall2 (fun a' a => a' == (if norm then (a - qmean advs) / (std + (1 # 100000000)) else a)) (maybe_norm norm std advs) advs.
Proof.
  unfold maybe_norm, adv_norm_Q. destruct norm.
  - generalize (qmean advs) as m. intros m. induction advs as [|a t IH]; cbn [map]; constructor; [apply Qred_correct | exact IH].
  - induction advs; constructor; [reflexivity | assumption].
Qed.

(* the executable minibatch twin feeds ppo_batch_Q exactly these columns *)
Lemma ppo_minibatch_unfold c cv ec vc he norm std g l cols cells ratios vs ents :
  ppo_minibatch_Q c cv ec vc he norm std g l cols cells ratios vs ents =
  ppo_batch_Q c cv ec vc he (maybe_norm norm std (fst (mb_columns_exec g l cols cells))) ratios
    (fst (snd (mb_columns_exec g l cols cells))) (snd (snd (mb_columns_exec g l cols cells))) vs ents.
Proof. reflexivity. Qed.

Lemma mb_columns_exec_ok g l cols cells :
  Forall2 Qeq (fst (mb_columns_exec g l cols cells)) (mb_advs g l cols cells) /\
  Forall2 Qeq (fst (snd (mb_columns_exec g l cols cells))) (mb_rets g l cols cells) /\
  snd (snd (mb_columns_exec g l cols cells)) = mb_vals cols cells.
Proof.
  unfold mb_columns_exec, mb_advs, mb_rets, cell_ret. cbn [fst snd]. repeat split.
  - induction cells; cbn [map]; constructor; [apply cell_adv_exec_ok | assumption].
  - induction cells; cbn [map]; constructor; [rewrite Qred_correct, cell_adv_exec_ok; reflexivity | assumption].
Qed.

(* the A2C minibatch twin feeds a2c_batch_Q the same columns (second mutation sample: pins return = advantage + value) *)
Lemma a2c_minibatch_unfold ec vc he norm std g l cols cells lps vs ents :
  a2c_minibatch_Q ec vc he norm std g l cols cells lps vs ents =
  a2c_batch_Q ec vc he (maybe_norm norm std (fst (mb_columns_exec g l cols cells))) lps
    (fst (snd (mb_columns_exec g l cols cells))) vs ents.
Proof. reflexivity. Qed.
