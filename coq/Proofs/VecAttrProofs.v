(* C01 (extension) - attribute forwarding through VecEnvWrapper chains *)
From Coq Require Import Sorted.
From SB3V Require Import Lib.Tactics Model.VecAttr.
Local Open Scope nat_scope.

Lemma getattr_recursive_first_holder : forall name layers base d,
  getattr_recursive name layers base = option_map snd (hd_error (holders name d layers base)).
Proof.
  intros name layers. induction layers as [|l inner IH]; intros base d; cbn.
  - destruct (find name base); reflexivity.
  - destruct (find name l); cbn; [reflexivity|apply IH].
Qed.

(* the hidden object reported by the depth check: with already_found it is the first holder, without it the
   second one *)
Lemma depth_check_holders : forall name layers base found d,
  depth_check name found d layers base
  = option_map fst (nth_error (holders name d layers base) (if found then 0 else 1)).
Proof.
  intros name layers. induction layers as [|l inner IH]; intros base found d; cbn [depth_check holders].
  - unfold has. destruct (find name base); destruct found; reflexivity.
  - unfold has. destruct (find name l) as [v|]; cbn [app].
    + destruct found; cbn [andb negb nth_error option_map fst].
      * reflexivity.
      * rewrite IH. reflexivity.
    + cbn [andb]. rewrite IH. reflexivity.
Qed.

(* __getattr__ of a wrapper chain: no holder -> AttributeError; exactly one holder -> its value; two or more ->
   refused as ambiguous, naming the second holder from the outside (the one that would be hidden) *)
Theorem wrapper_getattr_spec : forall name layers base,
  wrapper_getattr name layers base =
  match holders name 0 layers base with
  | [] => NoAttribute
  | [(_, v)] => Value v
  | _ :: (d2, _) :: _ => Ambiguous d2
  end.
Proof.
  intros name layers base. unfold wrapper_getattr.
  rewrite depth_check_holders, (getattr_recursive_first_holder name layers base 0).
  destruct (holders name 0 layers base) as [|[d1 v1] [|[d2 v2] r]]; reflexivity.
Qed.

(* getattr(outermost, name): an attribute of the outermost object wins silently; otherwise as above *)
Theorem py_getattr_spec : forall name l inner base,
  py_getattr name (l :: inner) base =
  match find name l with
  | Some v => Value v
  | None => match holders name 1 inner base with
            | [] => NoAttribute
            | [(_, v)] => Value v
            | _ :: (d2, _) :: _ => Ambiguous d2
            end
  end.
Proof.
  intros name l inner base. unfold py_getattr. destruct (find name l) as [v|] eqn:F; [reflexivity|].
  rewrite wrapper_getattr_spec. cbn [holders]. rewrite F. reflexivity.
Qed.

(* the holders are listed with increasing object index, so "second holder" is the second from the outside *)
Theorem holders_sorted : forall name layers base d,
  StronglySorted (fun a b => fst a < fst b) (holders name d layers base) /\
  Forall (fun a => d <= fst a <= d + length layers) (holders name d layers base).
Proof.
  intros name layers. induction layers as [|l inner IH]; intros base d; cbn [holders length].
  - destruct (find name base); split; repeat constructor; cbn; lia.
  - destruct (IH base (S d)) as [S1 S2]. destruct (find name l); cbn [app].
    + split.
      * constructor; [exact S1|]. eapply Forall_impl; [|exact S2]. cbn. intros a Ha. lia.
      * constructor; [cbn; lia|]. eapply Forall_impl; [|exact S2]. cbn. intros a Ha. lia.
    + split; [exact S1|]. eapply Forall_impl; [|exact S2]. cbn. intros a Ha. lia.
Qed.
