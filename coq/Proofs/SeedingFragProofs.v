(* C10 - interface lemmas: the argument expressions regenerated from utils.set_random_seed,
   BaseAlgorithm.set_random_seed and VecEnv.seed (Gen/Frag_seed.v) are the ones of Model/Seeding.v. *)
From SB3V Require Import Lib.Tactics Gen.Frag_seed Model.Seeding Proofs.SeedingProofs.
Local Open Scope Z_scope.

(* every seeding call of set_random_seed(seed) receives the ARGUMENT seed itself - whatever the model's
   constructor seed self.seed (ms) is *)
Lemma frag_seed_args s ms :
  seed_py_arg s = s /\ seed_np_arg s = s /\ seed_torch_arg s = s /\ seed_global_arg s ms = s /\
  seed_aspace_arg s ms = s /\ seed_env_arg s ms = s.
Proof. unfold seed_py_arg, seed_np_arg, seed_torch_arg, seed_global_arg, seed_aspace_arg, seed_env_arg. repeat split; lia. Qed.

(* so the code's set_random_seed(s) is the model's op list, for every self.seed *)
Lemma frag_setup s ms :
  setup (Some s) = [SetRandomSeed (seed_py_arg (seed_global_arg s ms)); ActionSpaceSeed (seed_aspace_arg s ms); EnvSeed (seed_env_arg s ms)] /\
  seed_np_arg (seed_global_arg s ms) = seed_py_arg (seed_global_arg s ms) /\ seed_torch_arg (seed_global_arg s ms) = seed_py_arg (seed_global_arg s ms).
Proof.
  destruct (frag_seed_args s ms) as (A1 & A2 & A3 & A4 & A5 & A6).
  destruct (frag_seed_args (seed_global_arg s ms) ms) as (B1 & B2 & B3 & _).
  rewrite B1, B2, B3, A4, A5, A6. repeat split; reflexivity.
Qed.

(* VecEnv.seed: sub-env idx gets  seed + idx *)
Lemma frag_vecenv_seed s n i : (i < n)%nat ->
  nth_error (seeds_from s n) i = Some (Some (seed_vecenv_elt s (Z.of_nat i))).
Proof.
  intros H. rewrite (seeds_from_nth n s i H). unfold seed_vecenv_elt. do 2 f_equal; lia.
Qed.
