(* C07 - derivative theorems for the published objectives of PPO / A2C / DQN / SAC / TD3 (DDPG)
   with respect to the network outputs, over the reals (Coquelicot is_derive), away from the kinks
   of min / clamp / Huber. *)
From Coq Require Import Reals List Lra Lia ZArith.
From Coquelicot Require Import Coquelicot.
From SB3V Require Import Model.LossCommon Model.LossPPO Model.LossA2C Model.LossDQN Model.LossSAC Model.LossTD3.
Import ListNotations.
Local Open Scope R_scope.

(* ---------- generic ---------- *)
Lemma derive_local (f g : R -> R) x l eps :
  0 < eps -> (forall y, Rabs (y - x) < eps -> f y = g y) -> is_derive g x l -> is_derive f x l.
Proof.
  intros He H Hg. apply (is_derive_ext_loc g f x l); [|exact Hg].
  exists (mkposreal eps He). intros y Hy. symmetry. apply H. exact Hy.
Qed.

Lemma derive_local_affine (f : R -> R) x a b eps :
  0 < eps -> (forall y, Rabs (y - x) < eps -> f y = a * y + b) -> is_derive f x a.
Proof.
  intros He H. apply (derive_local f (fun y => a * y + b) x a eps He H).
  auto_derive; [exact I | ring].
Qed.

Lemma sumR_app l l' : sumR (l ++ l') = sumR l + sumR l'.
Proof. induction l; cbn [app]; unfold sumR in *; cbn [fold_right]; [lra | rewrite IHl; lra]. Qed.

Lemma sum_terms_split pre f x post :
  sum_terms (pre ++ (f, x) :: post) = sum_terms pre + (f x + sum_terms post).
Proof. unfold sum_terms. rewrite map_app, sumR_app. reflexivity. Qed.

Lemma is_derive_affine_of (f : R -> R) x l k a b :
  is_derive f x l -> is_derive (fun t => k * (a + (f t + b))) x (k * l).
Proof.
  intros H. auto_derive.
  - exists l; exact H.
  - change (fun x0 : R => f x0) with f. rewrite (is_derive_unique f x l H). ring.
Qed.

(* partial derivative of a batch objective k * sum_i f_i(x_i) in the output of one sample *)
Lemma sum_terms_partial k pre f post x0 l :
  is_derive f x0 l -> is_derive (fun x => k * sum_terms (pre ++ (f, x) :: post)) x0 (k * l).
Proof.
  intros Hf.
  apply (is_derive_ext (fun x => k * (sum_terms pre + (f x + sum_terms post)))).
  - intros t. rewrite sum_terms_split. reflexivity.
  - apply is_derive_affine_of. exact Hf.
Qed.

Lemma clampR_inside lo hi x : lo <= x <= hi -> clampR lo hi x = x.
Proof. intros [H1 H2]. unfold clampR. rewrite (Rmax_right lo x) by exact H1. apply Rmin_right; exact H2. Qed.
Lemma clampR_below lo hi x : lo <= hi -> x <= lo -> clampR lo hi x = lo.
Proof. intros H1 H2. unfold clampR. rewrite (Rmax_left lo x) by exact H2. apply Rmin_right; exact H1. Qed.
Lemma clampR_above lo hi x : lo <= hi -> hi <= x -> clampR lo hi x = hi.
Proof. intros H1 H2. unfold clampR. rewrite (Rmax_right lo x) by lra. apply Rmin_left; exact H2. Qed.
Lemma clampR_bounds lo hi x : lo <= hi -> lo <= clampR lo hi x <= hi.
Proof.
  intros H. unfold clampR. split.
  - apply Rmin_glb; [exact H | apply Rmax_l].
  - apply Rmin_l.
Qed.

Lemma Rabs_lt_both x e : Rabs x < e -> - e < x < e.
Proof. intros H. apply Rabs_def2 in H. lra. Qed.

(* ---------- PPO ---------- *)
Lemma ppo_surrogate_pessimistic A c r : - ppo_surr A c r <= A * r.
Proof. unfold ppo_surr. rewrite Ropp_involutive. apply Rmin_l. Qed.

Lemma ppo_surr_derive A c r : 0 <= c -> r <> 1 - c -> r <> 1 + c ->
  is_derive (ppo_surr A c) r (ppo_surr_grad A c r).
Proof.
  intros Hc H1 H2. unfold ppo_surr_grad.
  destruct (Rlt_dec r (1 - c)) as [Hlo|Hlo]; [|destruct (Rlt_dec (1 + c) r) as [Hhi|Hhi]].
  - (* r < 1 - c *)
    rewrite (clampR_below (1 - c) (1 + c) r) by lra.
    destruct (Rle_dec (A * r) (A * (1 - c))) as [Hd|Hd].
    + apply (derive_local_affine _ r (- A) 0 (1 - c - r)); [lra|].
      intros y Hy. apply Rabs_lt_both in Hy. unfold ppo_surr.
      rewrite (clampR_below (1 - c) (1 + c) y) by lra.
      rewrite Rmin_left by nra. ring.
    + apply (derive_local_affine _ r 0 (- (A * (1 - c))) (1 - c - r)); [lra|].
      intros y Hy. apply Rabs_lt_both in Hy. unfold ppo_surr.
      rewrite (clampR_below (1 - c) (1 + c) y) by lra.
      rewrite Rmin_right by nra. ring.
  - (* r > 1 + c *)
    rewrite (clampR_above (1 - c) (1 + c) r) by lra.
    destruct (Rle_dec (A * r) (A * (1 + c))) as [Hd|Hd].
    + apply (derive_local_affine _ r (- A) 0 (r - (1 + c))); [lra|].
      intros y Hy. apply Rabs_lt_both in Hy. unfold ppo_surr.
      rewrite (clampR_above (1 - c) (1 + c) y) by lra.
      rewrite Rmin_left by nra. ring.
    + apply (derive_local_affine _ r 0 (- (A * (1 + c))) (r - (1 + c))); [lra|].
      intros y Hy. apply Rabs_lt_both in Hy. unfold ppo_surr.
      rewrite (clampR_above (1 - c) (1 + c) y) by lra.
      rewrite Rmin_right by nra. ring.
  - (* inside the clip range: both branches coincide *)
    assert (Hin : 1 - c < r < 1 + c) by lra.
    rewrite (clampR_inside (1 - c) (1 + c) r) by lra.
    destruct (Rle_dec (A * r) (A * r)) as [_|Hd]; [|lra].
    apply (derive_local_affine _ r (- A) 0 (Rmin (r - (1 - c)) (1 + c - r))).
    + apply Rmin_glb_lt; lra.
    + intros y Hy. apply Rabs_lt_both in Hy.
      pose proof (Rmin_l (r - (1 - c)) (1 + c - r)). pose proof (Rmin_r (r - (1 - c)) (1 + c - r)).
      unfold ppo_surr. rewrite (clampR_inside (1 - c) (1 + c) y) by lra.
      rewrite Rmin_left by lra. ring.
Qed.

(* through the ratio: d/dlog_prob = surrogate'(ratio) * ratio *)
Lemma ppo_policy_term_derive A c oldlp lp : 0 <= c ->
  exp (lp - oldlp) <> 1 - c -> exp (lp - oldlp) <> 1 + c ->
  is_derive (ppo_policy_term A c oldlp) lp (ppo_surr_grad A c (exp (lp - oldlp)) * exp (lp - oldlp)).
Proof.
  intros Hc H1 H2. unfold ppo_policy_term.
  rewrite Rmult_comm.
  apply (is_derive_comp (ppo_surr A c) (fun t => exp (t - oldlp)) lp).
  - apply ppo_surr_derive; assumption.
  - auto_derive; [exact I | unfold Rminus; ring].
Qed.

Lemma ppo_value_term_derive cv ret oldv v :
  match cv with None => True | Some c => 0 < c /\ Rabs (v - oldv) <> c end ->
  is_derive (ppo_value_term cv ret oldv) v (ppo_value_grad cv ret oldv v).
Proof.
  destruct cv as [c|]; cbn [ppo_value_grad]; intros H.
  - destruct H as [Hc Hk]. unfold ppo_value_term, ppo_value_pred, sq_err.
    destruct (Rlt_dec (Rabs (v - oldv)) c) as [Hin|Hout].
    + apply (derive_local _ (fun y => (y - ret) ^ 2) v _ (c - Rabs (v - oldv))); [lra| |].
      * intros y Hy. apply Rabs_lt_both in Hy. apply Rabs_lt_both in Hin.
        assert (Rabs (v - oldv) >= 0) by apply Rle_ge, Rabs_pos.
        assert (- c < y - oldv < c).
        { unfold Rabs in *. destruct (Rcase_abs (v - oldv)); lra. }
        rewrite clampR_inside by lra. f_equal. ring.
      * auto_derive; [exact I | ring].
    + assert (Hgt : c < Rabs (v - oldv)) by lra.
      apply (derive_local _ (fun _ => (oldv + clampR (- c) c (v - oldv) - ret) ^ 2) v _ (Rabs (v - oldv) - c)); [lra| |].
      * intros y Hy. apply Rabs_lt_both in Hy. f_equal. f_equal. f_equal.
        unfold Rabs in *. destruct (Rcase_abs (v - oldv)).
        -- rewrite !clampR_below by lra. reflexivity.
        -- rewrite !clampR_above by lra. reflexivity.
      * auto_derive; [exact I | ring].
  - unfold ppo_value_term, ppo_value_pred, sq_err. auto_derive; [exact I | ring].
Qed.

(* dL/dlog_prob_i, dL/dvalue_i, dL/dentropy_i of  L = (1/n) sum_i ppo_term_i *)
Lemma ppo_dlogp A c cv ret oldv oldlp ec vc lp v ent : 0 <= c ->
  exp (lp - oldlp) <> 1 - c -> exp (lp - oldlp) <> 1 + c ->
  is_derive (fun x => ppo_term A c cv ret oldv oldlp ec vc x v ent) lp
    (ppo_surr_grad A c (exp (lp - oldlp)) * exp (lp - oldlp) + ec * match ent with Some _ => 0 | None => 1 end).
Proof.
  intros Hc H1 H2. unfold ppo_term.
  pose proof (ppo_policy_term_derive A c oldlp lp Hc H1 H2) as Hp.
  destruct ent; cbn [ent_term]; auto_derive;
    first [ solve [repeat split; try exact I; exists (ppo_surr_grad A c (exp (lp - oldlp)) * exp (lp - oldlp)); exact Hp]
          | change (fun x0 : R => ppo_policy_term A c oldlp x0) with (ppo_policy_term A c oldlp);
            rewrite (is_derive_unique _ _ _ Hp); ring ].
Qed.

Lemma ppo_dvalue A c cv ret oldv oldlp ec vc lp v ent :
  match cv with None => True | Some cc => 0 < cc /\ Rabs (v - oldv) <> cc end ->
  is_derive (fun x => ppo_term A c cv ret oldv oldlp ec vc lp x ent) v (vc * ppo_value_grad cv ret oldv v).
Proof.
  intros H. unfold ppo_term.
  pose proof (ppo_value_term_derive cv ret oldv v H) as Hv.
  auto_derive;
    first [ solve [repeat split; try exact I; exists (ppo_value_grad cv ret oldv v); exact Hv]
          | change (fun x0 : R => ppo_value_term cv ret oldv x0) with (ppo_value_term cv ret oldv);
            rewrite (is_derive_unique _ _ _ Hv); ring ].
Qed.

Lemma ppo_dentropy A c cv ret oldv oldlp ec vc lp v e :
  is_derive (fun x => ppo_term A c cv ret oldv oldlp ec vc lp v (Some x)) e (- ec).
Proof. unfold ppo_term, ent_term. auto_derive; [exact I | ring]. Qed.

(* ---------- A2C ---------- *)
Lemma a2c_dlogp A ret ec vc lp v ent :
  is_derive (fun x => a2c_term A ret ec vc x v ent) lp (- A + ec * match ent with Some _ => 0 | None => 1 end).
Proof. unfold a2c_term. destruct ent; cbn [ent_term]; auto_derive; try exact I; ring. Qed.
Lemma a2c_dvalue A ret ec vc lp v ent :
  is_derive (fun x => a2c_term A ret ec vc lp x ent) v (vc * (2 * (v - ret))).
Proof. unfold a2c_term, sq_err. auto_derive; [exact I | ring]. Qed.
Lemma a2c_dentropy A ret ec vc lp v e :
  is_derive (fun x => a2c_term A ret ec vc lp v (Some x)) e (- ec).
Proof. unfold a2c_term, ent_term. auto_derive; [exact I | ring]. Qed.

(* ---------- DQN ---------- *)
Lemma huber_derive x : x <> 1 -> x <> -1 -> is_derive huber x (huber_grad x).
Proof.
  intros H1 H2. unfold huber_grad.
  destruct (Rlt_dec x (-1)) as [Hlo|Hlo]; [|destruct (Rlt_dec 1 x) as [Hhi|Hhi]].
  - rewrite clampR_below by lra.
    apply (derive_local huber (fun y => - y - 1 / 2) x (-1) (-1 - x)); [lra| |auto_derive; [exact I|ring]].
    intros y Hy. apply Rabs_lt_both in Hy. unfold huber.
    rewrite (Rabs_left y) by lra. destruct (Rlt_dec (- y) 1); lra.
  - rewrite clampR_above by lra.
    apply (derive_local huber (fun y => y - 1 / 2) x 1 (x - 1)); [lra| |auto_derive; [exact I|ring]].
    intros y Hy. apply Rabs_lt_both in Hy. unfold huber.
    rewrite (Rabs_right y) by lra. destruct (Rlt_dec y 1); lra.
  - rewrite clampR_inside by lra.
    apply (derive_local huber (fun y => y ^ 2 / 2) x x (Rmin (x + 1) (1 - x))).
    + apply Rmin_glb_lt; lra.
    + intros y Hy. apply Rabs_lt_both in Hy.
      pose proof (Rmin_l (x + 1) (1 - x)). pose proof (Rmin_r (x + 1) (1 - x)).
      unfold huber. destruct (Rlt_dec (Rabs y) 1) as [|Hn]; [reflexivity|].
      exfalso. apply Hn. apply Rabs_def1; lra.
    + auto_derive; [exact I | field].
Qed.

Lemma dqn_term_derive target q : q - target <> 1 -> q - target <> -1 ->
  is_derive (dqn_term target) q (huber_grad (q - target)).
Proof.
  intros H1 H2. unfold dqn_term.
  replace (huber_grad (q - target)) with (1 * huber_grad (q - target)) by ring.
  apply (is_derive_comp huber (fun t => t - target) q).
  - apply huber_derive; assumption.
  - auto_derive; [exact I | ring].
Qed.

(* the bootstrap is cut when done = 1 *)
Lemma dqn_target_done r gamma nqs nqs' : dqn_target r 1 gamma nqs = r /\ dqn_target r 1 gamma nqs = dqn_target r 1 gamma nqs'.
Proof. unfold dqn_target, td_target. split; ring. Qed.
Lemma dqn_target_not_done r gamma nqs : dqn_target r 0 gamma nqs = r + gamma * max_list nqs.
Proof. unfold dqn_target, td_target. ring. Qed.

Lemma max_list_ge l x : In x l -> x <= max_list l.
Proof.
  destruct l as [|a t]; [intros []|]. cbn [max_list].
  revert a. induction t as [|b t IH]; intros a Hin; cbn [fold_right].
  - destruct Hin as [->|[]]. lra.
  - destruct Hin as [->|[->|Hin]].
    + eapply Rle_trans; [|apply Rmax_r]. apply IH. left; reflexivity.
    + apply Rmax_l.
    + eapply Rle_trans; [|apply Rmax_r]. apply (IH a). right; exact Hin.
Qed.

(* ---------- SAC ---------- *)
Lemma sac_critic_term_derive target q : is_derive (sac_critic_term target) q (q - target).
Proof. unfold sac_critic_term, sq_err. auto_derive; [exact I | field]. Qed.

Lemma sac_actor_dlogp alpha lp qpis : is_derive (fun x => sac_actor_term alpha x qpis) lp alpha.
Proof. unfold sac_actor_term. auto_derive; [exact I | ring]. Qed.

Lemma Rmin_derive_left m x : x < m -> is_derive (fun y => Rmin y m) x 1.
Proof.
  intros H. apply (derive_local_affine _ x 1 0 (m - x)); [lra|].
  intros y Hy. apply Rabs_lt_both in Hy. rewrite Rmin_left by lra. ring.
Qed.
Lemma Rmin_derive_right m x : m < x -> is_derive (fun y => Rmin y m) x 0.
Proof.
  intros H. apply (derive_local_affine _ x 0 m (x - m)); [lra|].
  intros y Hy. apply Rabs_lt_both in Hy. rewrite Rmin_right by lra. ring.
Qed.

(* two critics: the actor gradient flows only through the smaller Q-value *)
Lemma sac_actor_dq_min alpha lp q1 q2 : q1 < q2 ->
  is_derive (fun x => sac_actor_term alpha lp [x; q2]) q1 (-1) /\
  is_derive (fun x => sac_actor_term alpha lp [q1; x]) q2 0.
Proof.
  intros H. unfold sac_actor_term, min_list. cbn [fold_right]. split.
  - apply (derive_local_affine _ q1 (-1) (alpha * lp) (q2 - q1)); [lra|].
    intros y Hy. apply Rabs_lt_both in Hy. rewrite Rmin_right by lra. ring.
  - apply (derive_local_affine _ q2 0 (alpha * lp - q1) (q2 - q1)); [lra|].
    intros y Hy. apply Rabs_lt_both in Hy. rewrite Rmin_right by lra. ring.
Qed.

Lemma sac_temp_derive lp H la : is_derive (sac_temp_term lp H) la (- (lp + H)).
Proof. unfold sac_temp_term. auto_derive; [exact I | ring]. Qed.

Lemma min_list_le l x : In x l -> min_list l <= x.
Proof.
  destruct l as [|a t]; [intros []|]. cbn [min_list].
  revert a. induction t as [|b t IH]; intros a Hin; cbn [fold_right].
  - destruct Hin as [->|[]]. lra.
  - destruct Hin as [->|[->|Hin]].
    + eapply Rle_trans; [apply Rmin_r|]. apply IH. left; reflexivity.
    + apply Rmin_l.
    + eapply Rle_trans; [apply Rmin_r|]. apply (IH a). right; exact Hin.
Qed.

(* the soft target uses the minimum over the target critics and subtracts alpha * log pi; no bootstrap when done *)
Lemma sac_target_spec r d gamma alpha nqs nlp :
  sac_target r d gamma alpha nqs nlp = r + (1 - d) * gamma * (min_list nqs - alpha * nlp) /\
  sac_target r 1 gamma alpha nqs nlp = r.
Proof. unfold sac_target, td_target. split; ring. Qed.

(* ---------- TD3 / DDPG ---------- *)
Lemma td3_critic_term_derive target q : is_derive (td3_critic_term target) q (2 * (q - target)).
Proof. unfold td3_critic_term, sq_err. auto_derive; [exact I | ring]. Qed.
Lemma td3_actor_term_derive q : is_derive td3_actor_term q (-1).
Proof. unfold td3_actor_term. auto_derive; [exact I | ring]. Qed.

Lemma td3_next_action_bounds c a n : 0 <= c ->
  -1 <= td3_next_action c a n <= 1 /\ Rabs (clampR (- c) c n) <= c.
Proof.
  intros Hc. unfold td3_next_action. split.
  - apply clampR_bounds. lra.
  - pose proof (clampR_bounds (- c) c n ltac:(lra)). apply Rabs_le. lra.
Qed.

(* DDPG: noise clip 0 removes target-policy smoothing; delay 1 updates the actor at every step *)
Lemma ddpg_is_td3_special a n k : td3_next_action 0 a n = clampR (-1) 1 a /\ td3_actor_step k 1 = true.
Proof.
  split.
  - unfold td3_next_action.
    assert (E : clampR (- 0) 0 n = 0).
    { pose proof (clampR_bounds (- 0) 0 n ltac:(lra)). lra. }
    rewrite E. f_equal. lra.
  - unfold td3_actor_step. rewrite Z.mod_1_r. reflexivity.
Qed.

Lemma td3_actor_step_spec n delay : (0 < delay)%Z -> (td3_actor_step n delay = true <-> exists k, n = (k * delay)%Z).
Proof.
  intros Hd. unfold td3_actor_step. rewrite Z.eqb_eq. split.
  - intros H. exists (n / delay)%Z. rewrite (Z.div_mod n delay) at 1 by lia. lia.
  - intros [k ->]. apply Z.mod_mul. lia.
Qed.

(* ---------- gradient-norm clipping ---------- *)
Lemma clip_coef_spec max_norm total : 0 < max_norm -> 0 <= total ->
  0 < clip_coef max_norm total <= 1 /\ clip_coef max_norm total * total <= max_norm /\
  (total + 1 / 1000000 <= max_norm -> clip_coef max_norm total = 1).
Proof.
  intros Hm Ht. unfold clip_coef.
  assert (Hd : 0 < total + 1 / 1000000) by lra.
  assert (Hq : 0 < max_norm / (total + 1 / 1000000)) by (apply Rdiv_lt_0_compat; lra).
  split; [|split].
  - split; [apply Rmin_glb_lt; lra | apply Rmin_l].
  - apply Rle_trans with (max_norm / (total + 1 / 1000000) * total).
    + apply Rmult_le_compat_r; [exact Ht | apply Rmin_r].
    + unfold Rdiv. rewrite Rmult_assoc.
      rewrite <- (Rmult_1_r max_norm) at 2. apply Rmult_le_compat_l; [lra|].
      apply Rmult_le_reg_l with (total + 1 / 1000000); [exact Hd|].
      rewrite <- Rmult_assoc, Rinv_r by lra. lra.
  - intros Hle. apply Rmin_left.
    apply Rmult_le_reg_r with (total + 1 / 1000000); [exact Hd|].
    unfold Rdiv. rewrite Rmult_assoc, Rinv_l by lra. lra.
Qed.

(* ---------- SAC actor: any number of critics ---------- *)
Lemma fold_min_swap t : forall a b, fold_right Rmin a (b :: t) = Rmin a (fold_right Rmin b t).
Proof.
  induction t as [|c t IH]; intros a b.
  - cbn [fold_right]. apply Rmin_comm.
  - change (fold_right Rmin a (b :: c :: t)) with (Rmin b (fold_right Rmin a (c :: t))).
    change (fold_right Rmin b (c :: t)) with (Rmin c (fold_right Rmin b t)).
    rewrite (IH a c).
    assert (E : Rmin c (fold_right Rmin b t) = Rmin b (fold_right Rmin c t)) by (rewrite <- (IH b c); reflexivity).
    rewrite E. rewrite !Rmin_assoc. f_equal. apply Rmin_comm.
Qed.

Lemma min_list_cons a t : t <> [] -> min_list (a :: t) = Rmin a (min_list t).
Proof. destruct t as [|b t]; [congruence|]. intros _. cbn [min_list]. apply (fold_min_swap t a b). Qed.

(* the minimum over a list with one distinguished entry x: min(x, min of the others) *)
Lemma min_list_insert pre x post : pre ++ post <> [] ->
  min_list (pre ++ x :: post) = Rmin x (min_list (pre ++ post)).
Proof.
  induction pre as [|a pre IH]; intros H; cbn [app] in *.
  - apply min_list_cons. exact H.
  - destruct (pre ++ post) as [|b r] eqn:E.
    + assert (pre = [] /\ post = []) as [-> ->] by (apply app_eq_nil; exact E).
      cbn [app min_list fold_right]. reflexivity.
    + rewrite (min_list_cons a (pre ++ x :: post)) by (destruct pre; discriminate).
      rewrite IH by discriminate.
      rewrite (min_list_cons a (b :: r)) by discriminate.
      rewrite !Rmin_assoc. f_equal. apply Rmin_comm.
Qed.

(* the actor gradient flows (with -1) only through the strictly smallest critic; every other critic gets 0 *)
Lemma sac_actor_dq_general alpha lp pre x post : pre ++ post <> [] ->
  (x < min_list (pre ++ post) -> is_derive (fun y : R => sac_actor_term alpha lp (pre ++ y :: post)) x (-1)) /\
  (min_list (pre ++ post) < x -> is_derive (fun y : R => sac_actor_term alpha lp (pre ++ y :: post)) x 0).
Proof.
  intros H. set (m := min_list (pre ++ post)). split; intros Hx.
  - apply (derive_local_affine _ x (-1) (alpha * lp) (m - x)); [lra|].
    intros y Hy. apply Rabs_lt_both in Hy. cbv beta. unfold sac_actor_term. rewrite (min_list_insert pre y post H).
    fold m. rewrite Rmin_left by lra. ring.
  - apply (derive_local_affine _ x 0 (alpha * lp - m) (x - m)); [lra|].
    intros y Hy. apply Rabs_lt_both in Hy. cbv beta. unfold sac_actor_term. rewrite (min_list_insert pre y post H).
    fold m. rewrite Rmin_right by lra. ring.
Qed.
