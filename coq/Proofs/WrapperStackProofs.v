(* C17 (round 3) - composition of wrapper layers of different kinds: the wrappers of Model/Wrappers.v,
   observation re-encodings, and VecNormalize (builder-stats' Model/VecNorm.v, read only).
   A layer, at its current state, is a function on per-sub-environment step outputs; layers may change the
   observation type, so stacks are typed chains.  Rewards are rationals. *)
From Coq Require Import QArith.
From SB3V Require Import Lib.Tactics Model.Script Model.VecEnv Model.Wrappers Proofs.VecEnvProofs Proofs.WrappersProofs
                         Model.RunningMoments Model.VecNorm.
Local Open Scope nat_scope.

Record gout (Obs : Type) := mk_gout { g_obs : Obs; g_rew : Q; g_done : bool; g_tl : bool; g_term : option Obs }.
Arguments mk_gout {Obs}. Arguments g_obs {Obs}. Arguments g_rew {Obs}. Arguments g_done {Obs}.
Arguments g_tl {Obs}. Arguments g_term {Obs}.

(* an ending step whose terminal observation is t, re-presented as an ordinary step that returns t *)
Definition gordinary {Obs} (o : gout Obs) (t : Obs) : gout Obs := mk_gout t (g_rew o) false (g_tl o) None.

(* a layer in its current state: the step transformer and what it does to rewards *)
Record layer (A B : Type) := mk_layer { l_step : gout A -> gout B; l_rew : Q -> Q }.
Arguments mk_layer {A B}. Arguments l_step {A B}. Arguments l_rew {A B}.

(* the laws every wrapper of the property obeys *)
Record good_layer {A B} (l : layer A B) : Prop := mk_good {
  gl_done : forall o, g_done (l_step l o) = g_done o;
  gl_tl : forall o, g_tl (l_step l o) = g_tl o;
  gl_rew : forall o, g_rew (l_step l o) = l_rew l (g_rew o);
  gl_noterm : forall o, g_term o = None -> g_term (l_step l o) = None;
  gl_term : forall o t, g_done o = true -> g_term o = Some t ->
      g_term (l_step l o) = Some (g_obs (l_step l (gordinary o t))) /\
      l_step l (gordinary o t) = gordinary (l_step l o) (g_obs (l_step l (gordinary o t))) }.

(* typed stacks, innermost layer first *)
Inductive stack : Type -> Type -> Type :=
| SNil : forall A, stack A A
| SCons : forall A B C, layer A B -> stack B C -> stack A C.

Fixpoint run_stack {A C} (s : stack A C) : gout A -> gout C :=
  match s in stack A0 C0 return gout A0 -> gout C0 with
  | SNil _ => fun o => o
  | SCons _ _ _ l rest => fun o => run_stack rest (l_step l o)
  end.
Fixpoint stack_rew {A C} (s : stack A C) : Q -> Q :=
  match s with
  | SNil _ => fun r => r
  | SCons _ _ _ l rest => fun r => stack_rew rest (l_rew l r)
  end.
Inductive all_good : forall A C, stack A C -> Prop :=
| AGNil : forall A, all_good A A (SNil A)
| AGCons : forall A B C (l : layer A B) (rest : stack B C), good_layer l -> all_good B C rest -> all_good A C (SCons A B C l rest).

(* ---------- any stack of good layers is a good layer ---------- *)
Theorem stack_passthrough : forall A C (s : stack A C), all_good A C s -> forall o,
  g_done (run_stack s o) = g_done o /\ g_tl (run_stack s o) = g_tl o /\ g_rew (run_stack s o) = stack_rew s (g_rew o).
Proof.
  intros A C s H. induction H as [A|A B C l rest G _ IH]; intros o; cbn.
  - auto.
  - destruct (IH (l_step l o)) as (D & T & R). rewrite D, T, R.
    rewrite (gl_done l G), (gl_tl l G), (gl_rew l G). auto.
Qed.

Theorem stack_no_terminal : forall A C (s : stack A C), all_good A C s -> forall o,
  g_term o = None -> g_term (run_stack s o) = None.
Proof.
  intros A C s H. induction H as [A|A B C l rest G _ IH]; intros o N; cbn; [exact N|].
  apply IH. apply (gl_noterm l G). exact N.
Qed.

Theorem stack_terminal_transform : forall A C (s : stack A C), all_good A C s -> forall o t,
  g_done o = true -> g_term o = Some t ->
  g_term (run_stack s o) = Some (g_obs (run_stack s (gordinary o t))).
Proof.
  intros A C s H. induction H as [A|A B C l rest G _ IH]; intros o t D T; cbn.
  - exact T.
  - destruct (gl_term l G o t D T) as [T1 E]. rewrite E.
    apply IH; [rewrite (gl_done l G); exact D|exact T1].
Qed.

(* ---------- instances ---------- *)
(* (1) a stateless re-encoding of observations (e.g. tensor cells -> rational channels) *)
Definition map_layer {A B} (f : A -> B) : layer A B :=
  mk_layer (fun o => mk_gout (f (g_obs o)) (g_rew o) (g_done o) (g_tl o) (option_map f (g_term o))) (fun r => r).
Lemma map_layer_good : forall A B (f : A -> B), good_layer (map_layer f).
Proof.
  intros A B f. constructor; cbn; auto.
  - intros o N. rewrite N. reflexivity.
  - intros o t D T. rewrite T. cbn. split; reflexivity.
Qed.

(* (2) every wrapper of Model/Wrappers.v in any state; its reward field (an integer there) is carried outside *)
Definition wrapper_layer (w : wrapper) (s : wstate) : layer vobs vobs :=
  mk_layer (fun o => let b := snd (w_step w s (mk_bout (g_obs o) 0%Z (g_done o) (g_tl o) (g_term o))) in
                     mk_gout (b_obs b) (g_rew o) (b_done b) (b_tl b) (b_term b)) (fun r => r).

(* the observations a wrapper returns do not depend on the reward *)
Lemma w_step_reward_independent : forall w s obs r1 r2 d tl term,
  let b1 := snd (w_step w s (mk_bout obs r1 d tl term)) in
  let b2 := snd (w_step w s (mk_bout obs r2 d tl term)) in
  b_obs b1 = b_obs b2 /\ b_term b1 = b_term b2 /\ b_done b1 = b_done b2 /\ b_tl b1 = b_tl b2 /\ b_rew b1 = r1.
Proof. intros w s obs r1 r2 d tl term. destruct w; cbn; auto. Qed.

Lemma wrapper_layer_good : forall w s, good_layer (wrapper_layer w s).
Proof.
  intros w s. constructor; cbn [wrapper_layer l_step l_rew g_done g_tl g_rew g_term g_obs]; auto.
  - intros [obs r d tl term]. cbn [g_obs g_done g_tl g_term]. destruct w; reflexivity.
  - intros [obs r d tl term]. cbn [g_obs g_done g_tl g_term]. destruct w; reflexivity.
  - intros [obs r d tl term] N. cbn [g_obs g_done g_tl g_term] in *. subst term. destruct w; cbn; try reflexivity; destruct d; reflexivity.
  - intros [obs r d tl term] t D T. cbn [g_obs g_done g_tl g_term g_rew gordinary] in *. subst d term.
    pose proof (w_step_terminal w s (mk_bout obs 0%Z true tl (Some t)) t eq_refl eq_refl) as H. cbv zeta in H.
    unfold ordinary in H. cbn [b_rew b_tl] in H. destruct H as (H1 & H2 & H3).
    split; [exact H2|]. rewrite H3. cbn [ordinary b_rew b_tl b_obs b_done b_term].
    assert (b_tl (snd (w_step w s (mk_bout obs 0%Z true tl (Some t)))) = tl) by (destruct w; reflexivity).
    rewrite H. reflexivity.
Qed.

(* (3) VecNormalize for one sub-environment, in the state AFTER this step's statistics update: N = normalize_obs
   with those statistics, rw = its reward transform *)
Definition vn_layer (N : list Q -> list Q) (rw : Q -> Q) : layer (list Q) (list Q) :=
  mk_layer (fun o => mk_gout (N (g_obs o)) (rw (g_rew o)) (g_done o) (g_tl o)
                             (if negb (g_done o) then g_term o else option_map N (g_term o))) rw.
Lemma vn_layer_good : forall N rw, good_layer (vn_layer N rw).
Proof.
  intros N rw. constructor; cbn; auto.
  - intros o H. rewrite H. destruct (g_done o); reflexivity.
  - intros o t D T. rewrite D, T. cbn. split; reflexivity.
Qed.

(* what builder-stats' model of VecNormalize.step_wait returns for sub-environment i IS this layer, built from the
   statistics after the update (Model.VecNorm.step_outputs, read only) *)
Definition vn_of (p : vnp) (st' : vn) (ss : list Q) (sr : Q) : layer (list Q) (list Q) :=
  vn_layer (normalize_obs_model p st' ss) (fun r => if v_norm_reward st' then normalize_reward_s r sr (p_clip_rew p) else r).

Lemma nth_error_combine {X Y} : forall (a : list X) (b : list Y) i x y,
  nth_error a i = Some x -> nth_error b i = Some y -> nth_error (combine a b) i = Some (x, y).
Proof.
  induction a as [|a0 a IH]; intros b i x y Ha Hb; destruct i, b; cbn in *; try discriminate.
  - inv Ha. inv Hb. reflexivity.
  - apply IH; assumption.
Qed.

Theorem vecnormalize_is_layer : forall p st obs rews dones terms ss sr i x r d t tl,
  nth_error obs i = Some x -> nth_error rews i = Some r -> nth_error dones i = Some d -> nth_error terms i = Some t ->
  let st' := fst (step_outputs p st obs rews dones terms ss sr) in
  let out := snd (step_outputs p st obs rews dones terms ss sr) in
  let g := l_step (vn_of p st' ss sr) (mk_gout x r d tl t) in
  nth_error (o_obs out) i = Some (g_obs g) /\ nth_error (o_rews out) i = Some (g_rew g) /\
  nth_error (o_term out) i = Some (g_term g) /\ g_done g = d /\ g_tl g = tl /\
  v_obs_rms st' = upd_obs_rms update p st obs.
Proof.
  intros p st obs rews dones terms ss sr i x r d t tl Hx Hr Hd Ht. cbv zeta.
  unfold step_outputs. cbn [fst snd o_obs o_rews o_term vn_of vn_layer l_step g_obs g_rew g_term g_done g_tl].
  repeat split.
  - apply map_nth_error. exact Hx.
  - apply (map_nth_error (fun r0 => if v_norm_reward _ then _ else r0)). exact Hr.
  - erewrite map_nth_error by (apply nth_error_combine; eassumption). reflexivity.
Qed.

(* ---------- the auto-reset contract of C01 under any stack of good layers ---------- *)
(* the base VecEnv output for one sub-environment (Model/VecEnv.v) as a layer input; enc = how observations are
   encoded (tags -> cells), rewards are in quarters *)
Definition base_gout {O I A} (enc : O -> A) (o : sout O I) : gout A :=
  mk_gout (enc (so_obs o)) (inject_Z (so_rew o) / 4)%Q (so_done o) (so_tl o) (option_map enc (so_term o)).

Theorem contract_under_stack : forall E O A0 I Opt Enc C
  (e_step : E -> A0 -> E * (O * Z * bool * bool * I)) (e_reset : E -> option Z -> option Opt -> E * (O * I))
  (enc : O -> Enc) (s : stack Enc C) e ri a e1 obs r term trunc info e' ri' o c,
  all_good Enc C s ->
  e_step e a = (e1, (obs, r, term, trunc, info)) ->
  sub_step e_step e_reset e ri a = (e', ri', o, c) ->
  let g := run_stack s (base_gout enc o) in
  g_done g = (term || trunc) /\ g_tl g = (trunc && negb term) /\ g_rew g = stack_rew s (inject_Z r / 4)%Q /\
  ((term || trunc) = true ->
     (* terminal observation: the finished episode's last observation, transformed exactly as an ordinary observation
        would be by the same stack in the same state; returned observation: the next episode's first observation *)
     exists obs2 ri2, e_reset e1 None None = (e', (obs2, ri2)) /\ ri' = Some ri2 /\
       g_term g = Some (g_obs (run_stack s (gordinary (base_gout enc o) (enc obs)))) /\
       g_obs g = g_obs (run_stack s (mk_gout (enc obs2) (inject_Z r / 4)%Q true (trunc && negb term) (Some (enc obs))))) /\
  ((term || trunc) = false -> g_term g = None /\ so_obs o = obs /\ ri' = ri).
Proof.
  intros E O A0 I Opt Enc C e_step e_reset enc s e ri a e1 obs r term trunc info e' ri' o c G Hs H g.
  destruct (sub_step_contract e_step e_reset _ _ _ _ _ _ _ _ _ _ _ _ _ Hs H) as (R & _ & D & T & Y & N).
  destruct (stack_passthrough _ _ s G (base_gout enc o)) as (PD & PT & PR).
  unfold g. rewrite PD, PT, PR. cbn [base_gout g_done g_tl g_rew]. rewrite D, T, R.
  split; [reflexivity|]. split; [reflexivity|]. split; [reflexivity|]. split.
  - intros Hd. destruct (Y Hd) as (obs2 & ri2 & Er & Eo & Et & Eri & _).
    exists obs2, ri2. split; [exact Er|]. split; [exact Eri|]. split.
    + apply stack_terminal_transform; [exact G| |].
      * cbn. rewrite D. exact Hd.
      * cbn. rewrite Et. reflexivity.
    + f_equal. f_equal. unfold base_gout. rewrite Eo, R, D, T, Et, Hd. reflexivity.
  - intros Hd. destruct (N Hd) as (_ & Eo & Et & Eri & _). split; [|split; [exact Eo|exact Eri]].
    apply stack_no_terminal; [exact G|]. cbn. rewrite Et. reflexivity.
Qed.
