From SB3V Require Import Lib.Tactics Lib.ListUtil Gen.Frag_gae Model.Minibatch.
From Coq Require Import Permutation.

(* ---------- interface lemmas: the regenerated guard / advance of get() ---------- *)
Lemma frag_get_guard (s T n : nat) :
  rollout_get_guard (Z.of_nat s) (Z.of_nat T) (Z.of_nat n) = (s <? T * n).
Proof. unfold rollout_get_guard. destruct (Nat.ltb_spec s (T * n)); lia. Qed.

Lemma frag_get_advance (s b : nat) :
  rollout_get_advance (Z.of_nat s) (Z.of_nat b) = Z.of_nat (s + b).
Proof. unfold rollout_get_advance. lia. Qed.

Lemma frag_dict_get_guard (s T n : nat) :
  dictrollout_get_guard (Z.of_nat s) (Z.of_nat T) (Z.of_nat n) = (s <? T * n).
Proof. unfold dictrollout_get_guard. destruct (Nat.ltb_spec s (T * n)); lia. Qed.

Lemma frag_dict_get_advance (s b : nat) :
  dictrollout_get_advance (Z.of_nat s) (Z.of_nat b) = Z.of_nat (s + b).
Proof. unfold dictrollout_get_advance. lia. Qed.

Section Minibatch.
Context {A : Type}.

Lemma get_loop_done fuel start b N (idx : list A) :
  N <= start -> get_loop fuel start b N idx = [].
Proof. intros H; destruct fuel; simpl; [reflexivity|]. destruct (Nat.ltb_spec start N); [lia|reflexivity]. Qed.

Lemma get_loop_concat fuel start b N (idx : list A) :
  1 <= b -> length idx = N -> N - start <= fuel ->
  concat (get_loop fuel start b N idx) = skipn start idx.
Proof.
  intros Hb Hlen. revert start. induction fuel as [|f IH]; intros start Hf.
  - simpl. symmetry. apply skipn_all_ge. lia.
  - simpl. destruct (Nat.ltb_spec start N) as [Hlt|Hge].
    + simpl. rewrite IH by lia.
      rewrite <- skipn_skipn_add.
      apply firstn_skipn.
    + simpl. symmetry. apply skipn_all_ge. lia.
Qed.

(* C05: the minibatches of one pass, concatenated, are exactly the permutation drawn *)
Theorem minibatches_concat b (idx : list A) : 1 <= b -> concat (minibatches b idx) = idx.
Proof. intros Hb. unfold minibatches. rewrite get_loop_concat; auto. lia. Qed.

Lemma get_loop_sizes fuel start b N (idx : list A) :
  1 <= b -> length idx = N ->
  Forall (fun mb => 1 <= length mb <= b) (get_loop fuel start b N idx).
Proof.
  intros Hb Hlen. revert start; induction fuel as [|f IH]; intros start; simpl; [constructor|].
  destruct (Nat.ltb_spec start N); [|constructor].
  constructor; [|apply IH].
  rewrite firstn_length, skipn_length. lia.
Qed.

Theorem minibatch_sizes b (idx : list A) :
  1 <= b -> Forall (fun mb => 1 <= length mb <= b) (minibatches b idx).
Proof. intros; apply get_loop_sizes; auto. Qed.
End Minibatch.

(* every flat index exactly once per pass, whatever permutation the sampler drew *)
Theorem minibatches_partition b N (perm : list nat) :
  1 <= b -> Permutation perm (seq 0 N) ->
  Permutation (concat (minibatches b perm)) (seq 0 N).
Proof. intros Hb Hp. rewrite minibatches_concat; assumption. Qed.

(* ---------- swap_and_flatten index law ---------- *)
Lemma nth_flat_map_const {X Y} (f : X -> list Y) (T : nat) (l : list X) e t dx dy :
  (forall x, length (f x) = T) -> t < T -> e < length l ->
  nth (e * T + t) (flat_map f l) dy = nth t (f (nth e l dx)) dy.
Proof.
  intros Hf Ht. revert e; induction l as [|x l IH]; intros e He; simpl in *; [lia|].
  destruct e as [|e].
  - simpl. rewrite app_nth1; [reflexivity | rewrite Hf; lia].
  - rewrite app_nth2; rewrite Hf; [|simpl; lia].
    replace (S e * T + t - T) with (e * T + t) by (simpl; lia).
    apply IH. lia.
Qed.

Theorem flatten_index {X} (d : X) (n : nat) (rows : list (list X)) e t :
  t < length rows -> e < n ->
  nth (e * length rows + t) (flatten d n rows) d = nth e (nth t rows []) d.
Proof.
  intros Ht He. unfold flatten.
  rewrite (nth_flat_map_const _ (length rows) _ e t 0 d).
  - rewrite seq_nth by lia. simpl.
    rewrite (nth_indep _ d (nth e [] d)) by (rewrite map_length; lia).
    rewrite (map_nth (fun row => nth e row d)). reflexivity.
  - intros; apply map_length.
  - exact Ht.
  - rewrite seq_length; exact He.
Qed.

Theorem flatten_length {X} (d : X) n (rows : list (list X)) :
  length (flatten d n rows) = n * length rows.
Proof.
  unfold flatten. generalize 0. induction n as [|n IH]; intros s; simpl; [reflexivity|].
  rewrite app_length, map_length, IH. reflexivity.
Qed.

Theorem unflat_flat T e t : t < T -> unflat T (e * T + t) = (t, e).
Proof.
  intros Ht. unfold unflat. f_equal.
  - rewrite Nat.add_comm, Nat.mod_add by lia. apply Nat.mod_small; exact Ht.
  - rewrite Nat.div_add_l by lia. rewrite Nat.div_small by exact Ht. lia.
Qed.

Theorem unflat_injective T n i j :
  0 < T -> i < n * T -> j < n * T -> unflat T i = unflat T j -> i = j.
Proof.
  intros HT Hi Hj H. unfold unflat in H. inversion H.
  rewrite (Nat.div_mod i T), (Nat.div_mod j T) by lia. congruence.
Qed.

(* every field of a sample is gathered through the same flatten + index: the sample at flat index
   e*T + t takes the (step t, env e) cell of EVERY field *)
Theorem fields_aligned {X} (d : X) n T (fields : list (list (list X))) e t :
  Forall (fun rows => length rows = T) fields -> t < T -> e < n ->
  map (fun rows => nth (e * T + t) (flatten d n rows) d) fields =
  map (fun rows => nth e (nth t rows []) d) fields.
Proof.
  intros HF Ht He. apply map_ext_in. intros rows Hin.
  rewrite Forall_forall in HF. specialize (HF _ Hin). subst T. apply flatten_index; assumption.
Qed.

(* ---------- the get() loop assembled from the regenerated guard and advance ---------- *)
Fixpoint get_loop_gen {A} (fuel : nat) (start b T n : Z) (idx : list A) : list (list A) :=
  match fuel with
  | O => []
  | S f =>
      if rollout_get_guard start T n
      then firstn (Z.to_nat b) (skipn (Z.to_nat start) idx) :: get_loop_gen f (rollout_get_advance start b) b T n idx
      else []
  end.

Lemma get_loop_gen_eq {A} fuel : forall start b T n (idx : list A),
  get_loop_gen fuel (Z.of_nat start) (Z.of_nat b) (Z.of_nat T) (Z.of_nat n) idx = get_loop fuel start b (T * n) idx.
Proof.
  induction fuel as [|f IH]; intros start b T n idx; [reflexivity|].
  cbn [get_loop_gen get_loop]. rewrite frag_get_guard, frag_get_advance, !Nat2Z.id.
  destruct (start <? T * n); [|reflexivity]. f_equal. apply IH.
Qed.

(* the loop of get() as regenerated from buffers.py partitions any index list of the rollout *)
Theorem get_loop_gen_partition {A} (b T n : nat) (idx : list A) :
  1 <= b -> length idx = T * n ->
  concat (get_loop_gen (T * n) 0%Z (Z.of_nat b) (Z.of_nat T) (Z.of_nat n) idx) = idx.
Proof.
  intros Hb Hl. change 0%Z with (Z.of_nat 0). rewrite get_loop_gen_eq.
  rewrite get_loop_concat; auto. lia.
Qed.
