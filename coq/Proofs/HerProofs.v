(* C16 - proofs about the HER buffer model: for every capacity, every history of adds
   (any episode lengths, wrapping and longer than the ring), truncations and pickle round trips. *)
From SB3V Require Import Lib.Tactics Gen.Frag_her Model.Replay Model.Her Proofs.ReplayProofs.
From Coq Require Import QArith Qround.
Local Open Scope Z_scope.

(* ------------------------------------------------------------------ ring arithmetic *)
Section Ring.
Variable c : Z.
Hypothesis Hc : 0 < c.

Lemma rmod_bound x : 0 <= x mod c < c.
Proof. apply Z.mod_pos_bound; exact Hc. Qed.

Lemma rmod_zero_eq a b : 0 <= a < c -> 0 <= b < c -> (a - b) mod c = 0 -> a = b.
Proof.
  intros Ha Hb H. apply (mod_inj_window c); [exact Hc| |lia].
  rewrite <- (Z.sub_0_r a) at 1. rewrite <- (Z.sub_diag b).
  replace (a - (b - b)) with (a - b + b) by ring.
  rewrite <- Zplus_mod_idemp_l, H. reflexivity.
Qed.

Lemma rmod_step p q : 0 <= p < c -> 0 <= q < c -> q <> p -> (p - q) mod c = (p - 1 - q) mod c + 1.
Proof.
  intros Hp Hq Hne. pose proof (rmod_bound (p - 1 - q)) as Hb.
  replace (p - q) with (p - 1 - q + 1) by ring. rewrite <- Zplus_mod_idemp_l.
  destruct (Z.eq_dec ((p - 1 - q) mod c + 1) c) as [E|E].
  - exfalso. apply Hne. symmetry. apply rmod_zero_eq; try assumption.
    replace (p - q) with (p - 1 - q + 1) by ring. rewrite <- Zplus_mod_idemp_l, E. apply Z_mod_same_full.
  - apply Z.mod_small. lia.
Qed.

Lemma rmod_succ_back p q : ((p + 1) mod c - 1 - q) mod c = (p - q) mod c.
Proof.
  replace ((p + 1) mod c - 1 - q) with ((p + 1) mod c - (1 + q)) by ring.
  rewrite Zminus_mod_idemp_l. f_equal. ring.
Qed.

Lemma rmod_succ_fwd p s : (((p + 1) mod c) - s) mod c = ((p - s) mod c + 1) mod c.
Proof. rewrite Zminus_mod_idemp_l, Zplus_mod_idemp_l. f_equal. ring. Qed.

Lemma in_arange_seg s l q : in_arange s (s + l) c q = ((q - s) mod c <? l).
Proof. unfold in_arange. destruct (Z.ltb_spec ((q - s) mod c) l); lia. Qed.

Lemma ep_end_len p s : 0 <= p < c -> 0 <= s < c -> ep_end p s c = s + (p - s) mod c.
Proof.
  intros Hp Hs. unfold ep_end. destruct (Z.ltb_spec p s).
  - replace (p - s) with (p - s + c + (-1) * c) by ring. rewrite Z_mod_plus_full, Z.mod_small; lia.
  - rewrite Z.mod_small; lia.
Qed.

Lemma rmod_add_back s x : 0 <= x < c -> ((s + x) mod c - s) mod c = x.
Proof. intros Hx. rewrite Zminus_mod_idemp_l. replace (s + x - s) with x by ring. apply Z.mod_small; exact Hx. Qed.

Lemma rmod_reach s i : 0 <= i < c -> (s + (i - s) mod c) mod c = i.
Proof. intros Hi. rewrite Zplus_mod_idemp_r. replace (s + (i - s)) with i by ring. apply Z.mod_small; exact Hi. Qed.

(* the back distance from the cursor of a slot at forward distance a < L from s, when the cursor is at distance L *)
Lemma rmod_back_of_fwd p s q : (p - 1 - q) mod c = ((p - s) mod c - (q - s) mod c - 1) mod c.
Proof.
  replace ((p - s) mod c - (q - s) mod c - 1) with ((p - s) mod c - ((q - s) mod c + 1)) by ring.
  rewrite Zminus_mod_idemp_l.
  replace (p - s - ((q - s) mod c + 1)) with (p - s - 1 - (q - s) mod c) by ring.
  rewrite Zminus_mod_idemp_r. f_equal. ring.
Qed.
End Ring.

(* ------------------------------------------------------------------ the column invariant *)
Record J (c p : Z) (k : colst) : Prop := {
  j_cur : 0 <= cur k < c;
  j_cnt : 0 <= cnt k;
  j_pos : p = (cur k + cnt k) mod c;
  j_nonneg : forall q, 0 <= ln k q < c;
  (* slots of the running (unfinished) episode: not sampleable, consecutive ghost indices *)
  j_run : forall q, 0 <= q < c -> (p - 1 - q) mod c < cnt k ->
          ln k q = 0 /\ st k q = cur k /\ x_ep (sl k q) = eid k /\ x_ix (sl k q) = cnt k - 1 - (p - 1 - q) mod c;
  (* sampleable slots: the whole recorded segment is one finished episode, consecutive, ending at its last slot *)
  j_seg : forall i, 0 <= i < c -> 0 < ln k i ->
          0 <= st k i < c /\ (i - st k i) mod c < ln k i /\
          exists E base, E < eid k /\ 0 <= base /\
            forall q, 0 <= q < c -> (q - st k i) mod c < ln k i ->
              ln k q = ln k i /\ st k q = st k i /\ x_ep (sl k q) = E /\ x_ix (sl k q) = base + (q - st k i) mod c /\
              ((q - st k i) mod c = ln k i - 1 -> x_last (sl k q) = true);
  (* the write cursor is never strictly inside a recorded segment *)
  j_out : forall i, 0 <= i < c -> 0 < ln k i -> (p - st k i) mod c = 0 \/ ln k i <= (p - st k i) mod c
}.

Lemma J_pos_bound c p k : 0 < c -> J c p k -> 0 <= p < c.
Proof. intros Hc H. rewrite (j_pos _ _ _ H). apply Z.mod_pos_bound; exact Hc. Qed.

Lemma J_init c : 0 < c -> J c 0 col0.
Proof.
  intros Hc. constructor; cbn [col0 cur cnt ln st sl eid]; try lia.
  - rewrite Z.mod_0_l; lia.
Qed.

(* what the invalidation loop does, given the invariant *)
Lemma inval_spec c p k q : 0 < c -> J c p k -> 0 <= q < c ->
  invalidate c p k q = if (0 <? ln k p) && ((q - st k p) mod c <? ln k p) then 0 else ln k q.
Proof.
  intros Hc H Hq. pose proof (J_pos_bound _ _ _ Hc H) as Hp. unfold invalidate.
  destruct (Z.ltb_spec 0 (ln k p)) as [Hl|Hl]; cbn [andb]; [|reflexivity].
  destruct (j_seg _ _ _ H p Hp Hl) as (Hs & Hin & _).
  assert (p = st k p) as Heq.
  { apply (rmod_zero_eq c Hc); try assumption. destruct (j_out _ _ _ H p Hp Hl); lia. }
  unfold set_range.
  replace (in_arange p (st k p + ln k p) c q) with (in_arange (st k p) (st k p + ln k p) c q)
    by (rewrite <- Heq; reflexivity).
  rewrite in_arange_seg by exact Hc. reflexivity.
Qed.

Lemma inval_at_pos c p k : 0 < c -> J c p k -> invalidate c p k p = 0.
Proof.
  intros Hc H. pose proof (J_pos_bound _ _ _ Hc H) as Hp. rewrite (inval_spec _ _ _ _ Hc H Hp).
  destruct (Z.ltb_spec 0 (ln k p)) as [Hl|Hl]; cbn [andb].
  - destruct (j_seg _ _ _ H p Hp Hl) as (_ & Hin & _).
    destruct (Z.ltb_spec ((p - st k p) mod c) (ln k p)); [reflexivity|lia].
  - pose proof (j_nonneg _ _ _ H p). lia.
Qed.

Lemma inval_cases c p k q : 0 < c -> J c p k -> 0 <= q < c ->
  invalidate c p k q = 0 \/
  (invalidate c p k q = ln k q /\ (0 < ln k p -> ln k p <= (q - st k p) mod c)).
Proof.
  intros Hc H Hq. rewrite (inval_spec _ _ _ _ Hc H Hq).
  destruct (Z.ltb_spec 0 (ln k p)); cbn [andb]; [|right; split; [reflexivity|lia]].
  destruct (Z.ltb_spec ((q - st k p) mod c) (ln k p)); [left; reflexivity|right; split; [reflexivity|lia]].
Qed.

(* a slot that stays sampleable: its whole segment is untouched and does not contain pos *)
Lemma inval_keeps_segment c p k i q : 0 < c -> J c p k -> 0 <= i < c -> 0 < invalidate c p k i ->
  0 <= q < c -> (q - st k i) mod c < ln k i ->
  invalidate c p k i = ln k i /\ invalidate c p k q = ln k q /\ q <> p.
Proof.
  intros Hc H Hi Hpos Hq Hin. pose proof (J_pos_bound _ _ _ Hc H) as Hp.
  destruct (inval_cases _ _ _ i Hc H Hi) as [E|(E & Hout)]; [lia|].
  assert (Hli : 0 < ln k i) by lia.
  destruct (j_seg _ _ _ H i Hi Hli) as (_ & Hii & E0 & b0 & _ & _ & Hseg).
  destruct (Hseg q Hq Hin) as (Hlq & Hsq & _).
  split; [exact E|].
  assert (Hnz : ~ (0 < ln k p /\ (q - st k p) mod c < ln k p)).
  { intros (Hlp & Hqp).
    destruct (j_seg _ _ _ H p Hp Hlp) as (_ & _ & E1 & b1 & _ & _ & Hsegp).
    destruct (Hsegp q Hq Hqp) as (Hlq' & Hsq' & _).
    assert (st k i = st k p) by congruence. assert (ln k i = ln k p) by congruence.
    specialize (Hout Hlp). rewrite <- H0, <- H1 in Hout. lia. }
  split.
  - rewrite (inval_spec _ _ _ _ Hc H Hq).
    destruct (Z.ltb_spec 0 (ln k p)); cbn [andb]; [|reflexivity].
    destruct (Z.ltb_spec ((q - st k p) mod c) (ln k p)); [exfalso; apply Hnz; split; assumption|reflexivity].
  - intros ->. apply Hnz. assert (Hlp : 0 < ln k p) by lia. split; [exact Hlp|].
    destruct (j_seg _ _ _ H p Hp Hlp) as (_ & Hpp & _). exact Hpp.
Qed.

(* writing one transition at pos (no episode end yet) *)
Definition written (c : Z) (hto : bool) (p : Z) (k : colst) (x : hin) : colst :=
  mkC (fupd (st k) p (cur k)) (invalidate c p k) (cur k) (eid k) (cnt k + 1) (fupd (sl k) p (store hto k x)).

Lemma J_write c hto p k x : 0 < c -> J c p k -> J c ((p + 1) mod c) (written c hto p k x).
Proof.
  intros Hc H. pose proof (J_pos_bound _ _ _ Hc H) as Hp.
  constructor; cbn [written cur cnt ln st sl eid].
  - apply (j_cur _ _ _ H).
  - pose proof (j_cnt _ _ _ H). lia.
  - rewrite (j_pos _ _ _ H) at 1. rewrite Zplus_mod_idemp_l. f_equal. ring.
  - intros q. unfold invalidate. destruct (0 <? ln k p); [|apply (j_nonneg _ _ _ H)].
    unfold set_range. destruct (in_arange _ _ _ _); [lia|apply (j_nonneg _ _ _ H)].
  - intros q Hq Hr. rewrite rmod_succ_back in Hr |- *. unfold fupd.
    destruct (Z.eqb_spec q p) as [->|Hne].
    + rewrite Z.sub_diag, Z.mod_0_l by lia. rewrite (inval_at_pos _ _ _ Hc H).
      cbn [store x_ep x_ix]. repeat split; lia.
    + rewrite (rmod_step c Hc p q Hp Hq Hne) in Hr |- *.
      destruct (j_run _ _ _ H q Hq ltac:(lia)) as (A & B & C & D).
      repeat split; try assumption; try lia.
      destruct (inval_cases _ _ _ q Hc H Hq) as [E|(E & _)]; lia.
  - intros i Hi Hl.
    destruct (inval_cases _ _ _ i Hc H Hi) as [E|(E & _)]; [lia|].
    assert (Hli : 0 < ln k i) by lia.
    destruct (j_seg _ _ _ H i Hi Hli) as (Hs & Hii & E0 & b0 & HE & Hb & Hseg).
    destruct (inval_keeps_segment _ _ _ i i Hc H Hi Hl Hi Hii) as (_ & _ & Hip).
    assert (Hst : fupd (st k) p (cur k) i = st k i).
    { unfold fupd. destruct (Z.eqb_spec i p); [contradiction|reflexivity]. }
    rewrite !Hst, E.
    split; [exact Hs|]. split; [exact Hii|]. exists E0, b0. split; [exact HE|]. split; [exact Hb|].
    intros q Hq Hin.
    destruct (inval_keeps_segment _ _ _ i q Hc H Hi Hl Hq Hin) as (_ & Eq & Hqp).
    unfold fupd. destruct (Z.eqb_spec q p); [contradiction|]. rewrite Eq. apply Hseg; assumption.
  - intros i Hi Hl.
    destruct (inval_cases _ _ _ i Hc H Hi) as [E|(E & _)]; [lia|].
    assert (Hli : 0 < ln k i) by lia.
    destruct (j_seg _ _ _ H i Hi Hli) as (Hs & Hii & _).
    destruct (inval_keeps_segment _ _ _ i i Hc H Hi Hl Hi Hii) as (_ & _ & Hip).
    assert (Hst : fupd (st k) p (cur k) i = st k i).
    { unfold fupd. destruct (Z.eqb_spec i p); [contradiction|reflexivity]. }
    rewrite !Hst, E.
    rewrite rmod_succ_fwd by exact Hc.
    pose proof (rmod_bound c Hc (p - st k i)) as Hb.
    destruct (Z.eq_dec ((p - st k i) mod c + 1) c) as [Ec|Ec].
    + left. rewrite Ec. apply Z_mod_same_full.
    + rewrite Z.mod_small by lia.
      destruct (Z_lt_le_dec ((p - st k i) mod c) (ln k i)) as [Hlt|Hge]; [|right; lia].
      exfalso. destruct (inval_keeps_segment _ _ _ i p Hc H Hi Hl Hp Hlt) as (_ & _ & Hpp). apply Hpp; reflexivity.
Qed.

Lemma written_last c hto p k x : x_last (sl (written c hto p k x) p) = Her.i_done x.
Proof. cbn [written sl]. unfold fupd. rewrite Z.eqb_refl. reflexivity. Qed.

(* closing the running episode (_compute_episode_length) *)
Lemma J_close c p k : 0 < c -> J c p k ->
  (cnt k mod c <> 0 -> x_last (sl k ((p - 1) mod c)) = true) ->
  J c p (close_episode c p k).
Proof.
  intros Hc H Hlast. pose proof (J_pos_bound _ _ _ Hc H) as Hp.
  pose proof (j_cur _ _ _ H) as Hs. pose proof (j_cnt _ _ _ H) as Hn.
  assert (HL : (p - cur k) mod c = cnt k mod c).
  { rewrite (j_pos _ _ _ H) at 1. rewrite Zminus_mod_idemp_l. f_equal. ring. }
  pose proof (rmod_bound c Hc (cnt k)) as HLb.
  assert (HLn : cnt k mod c <= cnt k) by (apply Z.mod_le; lia).
  assert (Hln' : forall q, ln (close_episode c p k) q = if (q - cur k) mod c <? cnt k mod c then cnt k mod c else ln k q).
  { intros q. cbn [close_episode ln]. unfold set_range. rewrite (ep_end_len c p (cur k) Hp Hs), HL.
    rewrite in_arange_seg by exact Hc. replace (cur k + cnt k mod c - cur k) with (cnt k mod c) by ring. reflexivity. }
  (* a slot of the new segment is a slot of the running episode *)
  assert (Hnew : forall q, 0 <= q < c -> (q - cur k) mod c < cnt k mod c ->
            (p - 1 - q) mod c = cnt k mod c - 1 - (q - cur k) mod c /\ (p - 1 - q) mod c < cnt k).
  { intros q Hq Hin. pose proof (rmod_bound c Hc (q - cur k)).
    rewrite (rmod_back_of_fwd c p (cur k) q), HL. rewrite Z.mod_small by lia. lia. }
  constructor; cbn [close_episode cur cnt st sl eid].
  - exact Hp.
  - lia.
  - rewrite Z.add_0_r. symmetry. apply Z.mod_small. exact Hp.
  - intros q. rewrite Hln'. destruct (_ <? _); [lia|apply (j_nonneg _ _ _ H)].
  - intros q Hq Hr. pose proof (rmod_bound c Hc (p - 1 - q)). lia.
  - intros i Hi. rewrite Hln'. destruct (Z.ltb_spec ((i - cur k) mod c) (cnt k mod c)) as [Hin|Hout]; intros Hl.
    + destruct (Hnew i Hi Hin) as (Hri & Hri').
      destruct (j_run _ _ _ H i Hi Hri') as (_ & Hst & _). rewrite Hst.
      split; [exact Hs|]. split; [exact Hin|].
      exists (eid k), (cnt k - cnt k mod c). split; [lia|]. split; [lia|].
      intros q Hq Hqin. rewrite Hln'.
      destruct (Z.ltb_spec ((q - cur k) mod c) (cnt k mod c)); [|lia].
      destruct (Hnew q Hq Hqin) as (Hrq & Hrq').
      destruct (j_run _ _ _ H q Hq Hrq') as (_ & Hstq & Hep & Hix).
      repeat split; try assumption; try lia.
      intros Hend. assert (Hz : (p - 1 - q) mod c = 0) by lia.
      assert (q = (p - 1) mod c) as ->.
      { symmetry. apply (rmod_zero_eq c Hc); [apply rmod_bound; exact Hc|exact Hq|].
        rewrite Zminus_mod_idemp_l. exact Hz. }
      apply Hlast. lia.
    + destruct (j_seg _ _ _ H i Hi Hl) as (Hsi & Hii & E0 & b0 & HE & Hb & Hseg).
      split; [exact Hsi|]. split; [exact Hii|]. exists E0, b0. split; [lia|]. split; [exact Hb|].
      intros q Hq Hqin. rewrite Hln'.
      destruct (Hseg q Hq Hqin) as (Hlq & Hrest).
      destruct (Z.ltb_spec ((q - cur k) mod c) (cnt k mod c)) as [Hqn|Hqn]; [|split; assumption].
      exfalso. destruct (Hnew q Hq Hqn) as (_ & Hrq'). destruct (j_run _ _ _ H q Hq Hrq') as (Hz & _). lia.
  - intros i Hi. rewrite Hln'. destruct (Z.ltb_spec ((i - cur k) mod c) (cnt k mod c)) as [Hin|Hout]; intros Hl.
    + destruct (Hnew i Hi Hin) as (Hri & Hri').
      destruct (j_run _ _ _ H i Hi Hri') as (_ & Hst & _). rewrite Hst, HL. right. lia.
    + apply (j_out _ _ _ H i Hi Hl).
Qed.

(* marking the newest slot as an episode end (truncate_last_trajectory) keeps the invariant *)
Lemma J_mark c hto p k j : J c p k ->
  J c p (mkC (st k) (ln k) (cur k) (eid k) (cnt k) (fupd (sl k) j (mark_end hto (sl k j)))).
Proof.
  intros H. constructor; cbn [cur cnt ln st sl eid];
    try apply (j_cur _ _ _ H); try apply (j_cnt _ _ _ H); try apply (j_pos _ _ _ H);
    try apply (j_nonneg _ _ _ H); try apply (j_out _ _ _ H).
  - intros q Hq Hr. destruct (j_run _ _ _ H q Hq Hr) as (A & B & C & D).
    unfold fupd. destruct (Z.eqb_spec q j) as [->|]; cbn [mark_end x_ep x_ix]; repeat split; assumption.
  - intros i Hi Hl. destruct (j_seg _ _ _ H i Hi Hl) as (Hs & Hii & E0 & b0 & HE & Hb & Hseg).
    split; [exact Hs|]. split; [exact Hii|]. exists E0, b0. split; [exact HE|]. split; [exact Hb|].
    intros q Hq Hin. destruct (Hseg q Hq Hin) as (A & B & C & D & F).
    unfold fupd. destruct (Z.eqb_spec q j) as [->|]; cbn [mark_end x_ep x_ix x_last]; repeat split; auto.
Qed.

Theorem J_col_add c hto p k x : 0 < c -> J c p k -> J c ((p + 1) mod c) (col_add c hto p ((p + 1) mod c) k x).
Proof.
  intros Hc H. unfold col_add. fold (written c hto p k x).
  pose proof (J_write c hto p k x Hc H) as Hw.
  destruct (Her.i_done x) eqn:Hd; [|exact Hw].
  apply J_close; [exact Hc|exact Hw|]. intros _.
  pose proof (J_pos_bound _ _ _ Hc H) as Hp.
  replace (((p + 1) mod c - 1) mod c) with p.
  - rewrite written_last. exact Hd.
  - rewrite Zminus_mod_idemp_l. replace (p + 1 - 1) with p by ring. symmetry. apply Z.mod_small. exact Hp.
Qed.

Theorem J_col_truncate c hto p k : 0 < c -> J c p k -> J c p (col_truncate c hto p k).
Proof.
  intros Hc H. unfold col_truncate. destruct (Z.eqb_spec (cur k) p); [exact H|].
  apply J_close; [exact Hc|apply J_mark; exact H|]. intros _. cbn [sl]. unfold fupd. rewrite Z.eqb_refl. reflexivity.
Qed.

(* ------------------------------------------------------------------ whole buffer, all histories *)
Definition HJ (b : her) : Prop := 0 < h_cap b /\ forall e, J (h_cap b) (h_pos b) (h_cols b e).

Lemma add_cursor_mod p c f : 0 < c -> 0 <= p < c -> fst (add_cursor p c f) = (p + 1) mod c.
Proof.
  intros Hc Hp. unfold add_cursor. destruct (Z.eqb_spec (p + 1) c) as [E|E]; cbn [fst].
  - rewrite E. symmetry. apply Z_mod_same_full.
  - symmetry. apply Z.mod_small. lia.
Qed.

Lemma HJ_create bs n hto : HJ (her_create bs n hto).
Proof.
  assert (0 < capacity bs n) by (unfold capacity; lia).
  split; cbn [her_create h_cap h_pos h_cols]; [assumption|]. intros e. apply J_init. assumption.
Qed.

Lemma HJ_pos b : HJ b -> 0 <= h_pos b < h_cap b.
Proof. intros (Hc & H). apply (J_pos_bound _ _ _ Hc (H 0%nat)). Qed.

Lemma her_add_fields b row :
  her_add b row =
  mkH (h_cap b) (h_nenv b) (h_hto b) (fst (add_cursor (h_pos b) (h_cap b) (h_full b))) (snd (add_cursor (h_pos b) (h_cap b) (h_full b)))
      (fun e => col_add (h_cap b) (h_hto b) (h_pos b) (fst (add_cursor (h_pos b) (h_cap b) (h_full b))) (h_cols b e) (nth e row din)).
Proof. unfold her_add. destruct (add_cursor (h_pos b) (h_cap b) (h_full b)). reflexivity. Qed.

Lemma HJ_step b o : HJ b -> HJ (her_step b o).
Proof.
  intros HB. pose proof (HJ_pos _ HB) as Hp. destruct HB as (Hc & H). destruct o; cbn [her_step].
  - rewrite her_add_fields. split; cbn [h_cap h_pos h_cols]; [exact Hc|].
    intros e. rewrite (add_cursor_mod _ _ _ Hc Hp). apply J_col_add; [exact Hc|apply H].
  - split; cbn [her_truncate h_cap h_pos h_cols]; [exact Hc|].
    intros e. apply J_col_truncate; [exact Hc|apply H].
  - split; assumption.
Qed.

Theorem HJ_run ops : forall b, HJ b -> HJ (her_run b ops).
Proof. unfold her_run. induction ops as [|o ops IH]; intros b H; simpl; [exact H|]. apply IH, HJ_step, H. Qed.

Lemma her_cap_step b o : h_cap (her_step b o) = h_cap b.
Proof. destruct o; cbn [her_step]; [rewrite her_add_fields|..]; reflexivity. Qed.
Lemma her_cap_run ops : forall b, h_cap (her_run b ops) = h_cap b.
Proof. unfold her_run. induction ops as [|o ops IH]; intros b; simpl; [reflexivity|]. rewrite IH. apply her_cap_step. Qed.

(* ------------------------------------------------------------------ soundness statements *)
(* her_inv in terms of in-episode positions j *)
Theorem her_inv_col c p k i : 0 < c -> J c p k -> 0 <= i < c -> valid k i = true ->
  cur_ix c k i < ln k i /\ 0 <= cur_ix c k i /\ goal_slot c k i (cur_ix c k i) = i /\
  exists E base, E < eid k /\ 0 <= base /\
    forall j, 0 <= j < ln k i ->
      let q := goal_slot c k i j in
      0 <= q < c /\ valid k q = true /\ ln k q = ln k i /\ st k q = st k i /\
      x_ep (sl k q) = E /\ x_ix (sl k q) = base + j /\ (j = ln k i - 1 -> x_last (sl k q) = true).
Proof.
  intros Hc H Hi Hv. unfold valid in Hv. apply Z.ltb_lt in Hv.
  destruct (j_seg _ _ _ H i Hi Hv) as (Hs & Hii & E0 & b0 & HE & Hb & Hseg).
  pose proof (rmod_bound c Hc (i - st k i)) as Hcb.
  unfold cur_ix, goal_slot. split; [exact Hii|]. split; [lia|].
  split. { rewrite Z.add_comm. apply rmod_reach; assumption. }
  exists E0, b0. split; [exact HE|]. split; [exact Hb|].
  intros j Hj. cbn zeta.
  pose proof (j_nonneg _ _ _ H i) as HL.
  assert (Hjc : 0 <= j < c) by lia.
  pose proof (rmod_bound c Hc (j + st k i)) as Hq.
  assert (Hd : ((j + st k i) mod c - st k i) mod c = j).
  { rewrite Z.add_comm. apply rmod_add_back; assumption. }
  destruct (Hseg _ Hq ltac:(rewrite Hd; lia)) as (A & B & C & D & F).
  rewrite Hd in D, F. unfold valid. repeat split; try assumption; try lia.
Qed.

(* the goal of a relabelled transition comes from the same finished episode; future: at or after
   the transition; final: the transition that ended the episode *)
Theorem goal_same_episode_col g c p k i kk : 0 < c -> J c p k -> 0 <= i < c -> valid k i = true ->
  fst (goal_range g c k i) <= kk < snd (goal_range g c k i) ->
  let q := goal_slot c k i kk in
  0 <= q < c /\ valid k q = true /\
  x_ep (sl k q) = x_ep (sl k i) /\ x_ep (sl k i) < eid k /\
  x_ix (sl k q) - x_ix (sl k i) = kk - cur_ix c k i /\
  (g = Future -> x_ix (sl k i) <= x_ix (sl k q)) /\
  (g = Final -> x_last (sl k q) = true).
Proof.
  intros Hc H Hi Hv Hk. cbn zeta.
  destruct (her_inv_col c p k i Hc H Hi Hv) as (Hlt & H0 & Hself & E0 & b0 & HE & Hb & Hall).
  assert (Hkk : 0 <= kk < ln k i) by (destruct g; cbn [goal_range fst snd] in Hk; lia).
  destruct (Hall kk Hkk) as (Hq & Hvq & _ & _ & Hep & Hix & Hlast).
  destruct (Hall (cur_ix c k i) ltac:(lia)) as (_ & _ & _ & _ & Hep' & Hix' & _).
  cbn zeta in *. rewrite Hself in Hep', Hix'.
  split; [exact Hq|]. split; [exact Hvq|]. split; [congruence|]. split; [lia|]. split; [lia|]. split.
  - intros ->. cbn [goal_range fst snd] in Hk. lia.
  - intros ->. cbn [goal_range fst snd] in Hk. apply Hlast. lia.
Qed.

(* lifted to every reachable buffer *)
Theorem her_inv bs n hto ops e i :
  let b := her_run (her_create bs n hto) ops in let k := h_cols b e in let c := capacity bs n in
  0 <= i < c -> valid k i = true ->
  cur_ix c k i < ln k i /\ 0 <= cur_ix c k i /\ goal_slot c k i (cur_ix c k i) = i /\
  exists E base, E < eid k /\ 0 <= base /\
    forall j, 0 <= j < ln k i ->
      let q := goal_slot c k i j in
      0 <= q < c /\ valid k q = true /\ ln k q = ln k i /\ st k q = st k i /\
      x_ep (sl k q) = E /\ x_ix (sl k q) = base + j /\ (j = ln k i - 1 -> x_last (sl k q) = true).
Proof.
  cbn zeta. intros Hi Hv.
  pose proof (HJ_run ops _ (HJ_create bs n hto)) as (Hc & HJe).
  rewrite her_cap_run in Hc, HJe. cbn [her_create h_cap] in Hc, HJe.
  apply (her_inv_col _ _ _ i Hc (HJe e) Hi Hv).
Qed.

Theorem goal_same_episode bs n hto ops e g i kk :
  let b := her_run (her_create bs n hto) ops in let k := h_cols b e in let c := capacity bs n in
  0 <= i < c -> valid k i = true ->
  fst (goal_range g c k i) <= kk < snd (goal_range g c k i) ->
  let q := goal_slot c k i kk in
  0 <= q < c /\ valid k q = true /\
  x_ep (sl k q) = x_ep (sl k i) /\ x_ep (sl k i) < eid k /\
  x_ix (sl k q) - x_ix (sl k i) = kk - cur_ix c k i /\
  (g = Future -> x_ix (sl k i) <= x_ix (sl k q)) /\
  (g = Final -> x_last (sl k q) = true).
Proof.
  cbn zeta. intros Hi Hv Hk.
  pose proof (HJ_run ops _ (HJ_create bs n hto)) as (Hc & HJe).
  rewrite her_cap_run in Hc, HJe. cbn [her_create h_cap] in Hc, HJe.
  apply (goal_same_episode_col g _ _ _ i kk Hc (HJe e) Hi Hv Hk).
Qed.

(* the admissible goal range is never empty for a sampleable slot *)
Theorem goal_range_nonempty bs n hto ops e g i :
  let b := her_run (her_create bs n hto) ops in let k := h_cols b e in let c := capacity bs n in
  0 <= i < c -> valid k i = true -> fst (goal_range g c k i) < snd (goal_range g c k i) /\ 0 <= fst (goal_range g c k i).
Proof.
  cbn zeta. intros Hi Hv.
  destruct (her_inv bs n hto ops e i Hi Hv) as (Hlt & H0 & _).
  unfold valid in Hv. apply Z.ltb_lt in Hv. destruct g; cbn [goal_range fst snd]; lia.
Qed.

(* shape of a relabelled transition *)
Theorem relabel_shape c ci k i kk :
  let '(o, a, d, act, no, na, nd, dn, r) := virtual_sample c ci k i kk in
  let '(o', a', d', act', no', na', nd', dn', r') := real_sample k i in
  let g := x_nach (sl k (goal_slot c k i kk)) in
  o = o' /\ a = a' /\ act = act' /\ no = no' /\ na = na' /\ dn = dn' /\
  d = g /\ nd = g /\ r = reward_tag (if ci then x_info (sl k i) else 0) na g.
Proof. cbn. repeat split; reflexivity. Qed.

(* ------------------------------------------------------------------ relabelled share *)
Lemma her_ratio_product n B : 0 <= n ->
  (her_virtual_product (her_ratio n) B == (n * B) # Z.to_pos (n + 1))%Q.
Proof.
  intros Hn. unfold her_virtual_product, her_ratio. rewrite (Qmake_Qdiv (n * B)).
  rewrite Z2Pos.id by lia. rewrite inject_Z_mult, inject_Z_plus.
  assert (~ (inject_Z n + inject_Z 1 == 0)%Q).
  { rewrite <- inject_Z_plus. unfold Qeq. simpl. lia. }
  field. assumption.
Qed.

Theorem virtual_share n B : 0 <= n ->
  Qfloor (her_virtual_product (her_ratio n) B) = nb_virtual n B.
Proof.
  intros Hn. rewrite (Qfloor_comp _ _ (her_ratio_product n B Hn)).
  unfold nb_virtual. cbn [Qfloor]. rewrite Z2Pos.id by lia. reflexivity.
Qed.

Theorem virtual_share_bounds n B : 0 <= n -> 0 <= B -> 0 <= nb_virtual n B <= B.
Proof.
  intros Hn HB. unfold nb_virtual. split.
  - apply Z.div_pos; nia.
  - apply Z.div_le_upper_bound; nia.
Qed.

(* ------------------------------------------------------------------ interface lemmas *)
Lemma in_arange_spec a b c q : 0 < c -> 0 <= q < c ->
  (in_arange a b c q = true <-> exists t, a <= t < b /\ her_inval_slot t c = q /\ her_close_slot t c = q).
Proof.
  intros Hc Hq. unfold in_arange, her_inval_slot, her_close_slot. pose proof (rmod_bound c Hc (q - a)) as Hb. split.
  - intros H. apply Z.ltb_lt in H. exists (a + (q - a) mod c). split; [lia|].
    assert ((a + (q - a) mod c) mod c = q) by (apply rmod_reach; assumption). tauto.
  - intros (t & Ht & E & _). apply Z.ltb_lt.
    assert ((q - a) mod c = (t - a) mod c) as ->.
    { rewrite <- E. rewrite Zminus_mod_idemp_l. reflexivity. }
    pose proof (Z.mod_le (t - a) c ltac:(lia) Hc). lia.
Qed.

Lemma frag_invalidate c p k :
  let l := ln k (her_inval_reads_length p) in
  let e := her_inval_end (st k (her_inval_reads_start p)) l in
  invalidate c p k =
  (if her_inval_guard l then set_range (ln k) (her_inval_from p e) (her_inval_to p e) c her_inval_value else ln k) /\
  her_inval_which = 1.
Proof. split; reflexivity. Qed.

Lemma frag_close c p k :
  close_episode c p k =
  let '(s, e) := her_close_bounds (cur k) p c in
  mkC (st k) (set_range (ln k) (her_close_from s e) (her_close_to s e) c (her_close_length s e)) (her_close_new_start p) (eid k + 1) 0 (sl k).
Proof. unfold close_episode, her_close_bounds, ep_end, her_close_length, her_close_new_start, her_close_from, her_close_to. destruct (p <? cur k); reflexivity. Qed.

Lemma frag_valid k i : valid k i = her_is_valid (ln k i).
Proof. reflexivity. Qed.

Lemma frag_goal g c k i kk :
  cur_ix c k i = her_goal_current i (st k i) c /\
  goal_slot c k i kk = her_goal_slot kk (st k i) c /\
  goal_range g c k i =
    (let cur := her_goal_current i (st k i) c in
     match g with
     | Final => (her_goal_final (ln k i), her_goal_final (ln k i) + 1)
     | Future => (her_goal_future_lo cur (ln k i), her_goal_future_hi cur (ln k i))
     | Episode => (her_goal_episode_lo cur (ln k i), her_goal_episode_hi cur (ln k i))
     end) /\
  her_goal_future_draw kk = kk /\ her_goal_episode_draw kk = kk /\
  (her_goal_branch0, her_goal_branch1, her_goal_branch2) = (1, 2, 3).
Proof.
  unfold cur_ix, goal_slot, her_goal_current, her_goal_slot, her_goal_final, her_goal_future_draw, her_goal_episode_draw,
    her_goal_future_lo, her_goal_future_hi, her_goal_episode_lo, her_goal_episode_hi.
  repeat split; try reflexivity. destruct g; cbn [goal_range]; try reflexivity. f_equal. ring.
Qed.

(* the remaining pieces of add / truncate_last_trajectory / _sample_goals / _get_virtual_samples, picked from the source:
   ep_start[pos] = _current_ep_start; the episode of column e is closed iff done[e], for that column; the timeout mark goes to slot pos - 1
   under handle_timeout_termination; the goal is next_observations["achieved_goal"][goal slot, env]; it is written to obs["desired_goal"]
   and next_obs["desired_goal"]; compute_reward(next_obs["achieved_goal"], obs["desired_goal"], infos) *)
Lemma frag_her_picks p ti ev (d hto : bool) :
  her_ep_start_slot p = p /\ her_ep_start_value = 1 /\ her_close_guard d = d /\ her_close_guard_arg = 1 /\
  her_trunc_to_slot p = p - 1 /\ her_trunc_slot p = p - 1 /\ her_trunc_to_guard hto = hto /\
  (her_goal_source, her_goal_source_slot ti ev, her_goal_source_env ti ev) = (1, ti, ev) /\
  (her_relabel_obs_key, her_relabel_next_key, her_relabel_next_value) = (1, 1, 1) /\
  (her_reward_arg0, her_reward_arg1, her_reward_arg2, her_reward_arg3) = (1, 2, 3, 4).
Proof. repeat split; reflexivity. Qed.

Lemma frag_truncate c hto p k :
  col_truncate c hto p k =
  if her_trunc_guard (cur k) p
  then close_episode c p (mkC (st k) (ln k) (cur k) (eid k) (cnt k)
         (fupd (sl k) (her_trunc_slot p mod c) (mark_end hto (sl k (her_trunc_slot p mod c)))))
  else k.
Proof. unfold col_truncate, her_trunc_guard, her_trunc_slot. destruct (cur k =? p); reflexivity. Qed.

(* truncate_last_trajectory's marks: dones := True and, under handle_timeout_termination, timeouts := True - the truncated transition is then
   returned with done = 0 (bootstrapping allowed), without timeout handling with done = 1 *)
Lemma mark_end_flags hto s :
  x_done (mark_end hto s) = 1 /\ x_to (mark_end hto s) = (if hto then 1 else x_to s) /\
  done_mask (x_done (mark_end hto s)) (x_to (mark_end hto s)) = (if hto then 0 else 1 - x_to s) /\
  x_last (mark_end hto s) = true /\ x_ep (mark_end hto s) = x_ep s /\ x_ix (mark_end hto s) = x_ix s.
Proof. unfold mark_end, done_mask. cbn [x_done x_to x_last x_ep x_ix]. destruct hto; repeat split; try reflexivity; lia. Qed.

Lemma truncate_marks_newest_slot c hto p k : cur k <> p ->
  sl (col_truncate c hto p k) ((p - 1) mod c) = mark_end hto (sl k ((p - 1) mod c)).
Proof.
  intros H. unfold col_truncate. destruct (Z.eqb_spec (cur k) p); [contradiction|]. cbn [close_episode sl]. unfold fupd. rewrite Z.eqb_refl. reflexivity.
Qed.

(* the scripted environment's compute_reward is a PAIRING of (info tag, next achieved goal, new goal) on the tag ranges the harness uses:
   a wrong argument in any position changes the reward *)
Lemma reward_tag_injective i a d i' a' d' :
  0 <= a < 512 -> 0 <= d < 512 -> 0 <= a' < 512 -> 0 <= d' < 512 ->
  reward_tag i a d = reward_tag i' a' d' -> i = i' /\ a = a' /\ d = d'.
Proof. unfold reward_tag. intros. lia. Qed.
