(* Round 3 - proofs about Model/EnvUtil.v *)
From SB3V Require Import Lib.Tactics Model.Script Model.VecEnv Proofs.VecEnvProofs Model.EnvUtil Model.RunningMoments Model.VecNorm.
Local Open Scope nat_scope.

(* ---------- unwrap: the OUTERMOST layer of the class, None exactly when there is none ---------- *)
Section Unwrap.
Context {L : Type}.
Variable is_inst : L -> bool.

Theorem unwrap_outermost : forall chain l,
  unwrap is_inst chain = Some l <->
  exists pre post, chain = pre ++ l :: post /\ is_inst l = true /\ forallb (fun x => negb (is_inst x)) pre = true.
Proof.
  induction chain as [|x inner IH]; intros l; cbn.
  - split; [discriminate|]. intros (pre & post & E & _). destruct pre; discriminate.
  - destruct (is_inst x) eqn:I.
    + split.
      * intros H. inv H. exists [], inner. auto.
      * intros (pre & post & E & Il & N). destruct pre as [|y pre]; cbn in *.
        -- inv E. reflexivity.
        -- inv E. rewrite I in N. discriminate.
    + split.
      * intros H. apply IH in H. destruct H as (pre & post & E & Il & N).
        exists (x :: pre), post. cbn. rewrite I, N, E. auto.
      * intros (pre & post & E & Il & N). destruct pre as [|y pre]; cbn in *.
        -- inv E. congruence.
        -- inv E. apply andb_true_iff in N. apply IH. exists pre, post. tauto.
Qed.

Theorem unwrap_none : forall chain, unwrap is_inst chain = None <-> forallb (fun x => negb (is_inst x)) chain = true.
Proof.
  induction chain as [|x inner IH]; cbn; [tauto|].
  destruct (is_inst x); cbn; [split; discriminate|exact IH].
Qed.

Theorem is_wrapped_spec : forall chain, is_wrapped is_inst chain = existsb is_inst chain.
Proof.
  unfold is_wrapped. induction chain as [|x inner IH]; cbn; [reflexivity|].
  destruct (is_inst x); cbn; [reflexivity|exact IH].
Qed.
End Unwrap.

(* ---------- make_vec_env ---------- *)
Theorem make_vec_env_envs : forall n seed drawn start dir wc i,
  i < n ->
  let d := nth i (fst (make_vec_env n seed drawn start dir wc)) (mk_desc 0 None []) in
  length (fst (make_vec_env n seed drawn start dir wc)) = n /\
  d_rank d = i + start /\
  d_action_seed d = match seed with Some s => Some (s + Z.of_nat (i + start))%Z | None => None end /\
  (* every sub-environment is monitored, file <dir>/<rank>; the optional wrapper is applied OUTSIDE the Monitor *)
  unwrap is_monitor (d_layers d) = Some (GMonitor (match dir with Some x => Some (x, i + start) | None => None end)) /\
  d_layers d = (match wc with Some c => [GWrapper c] | None => [] end)
               ++ [GMonitor (match dir with Some x => Some (x, i + start) | None => None end)].
Proof.
  intros n seed drawn start dir wc i Hi. cbv zeta. unfold make_vec_env. cbn [fst].
  rewrite map_length, seq_length. split; [reflexivity|].
  rewrite (nth_indep _ _ (make_env seed dir wc (0 + start))) by (rewrite map_length, seq_length; exact Hi).
  rewrite (map_nth (fun i0 => make_env seed dir wc (i0 + start)) (seq 0 n) 0 i), seq_nth by exact Hi.
  cbn. repeat split. destruct wc; reflexivity.
Qed.

(* the monitor files of different sub-environments are different *)
Theorem make_vec_env_monitor_files_distinct : forall n seed drawn start dir wc i j,
  i < n -> j < n -> i <> j ->
  d_rank (nth i (fst (make_vec_env n seed drawn start dir wc)) (mk_desc 0 None []))
  <> d_rank (nth j (fst (make_vec_env n seed drawn start dir wc)) (mk_desc 0 None [])).
Proof.
  intros n seed drawn start dir wc i j Hi Hj Ne.
  destruct (make_vec_env_envs n seed drawn start dir wc i Hi) as (_ & Ri & _).
  destruct (make_vec_env_envs n seed drawn start dir wc j Hj) as (_ & Rj & _).
  cbv zeta in Ri, Rj. rewrite Ri, Rj. lia.
Qed.

(* make_vec_env ends with vec_env.seed(seed): by the C01 seed-delivery theorem the first reset() of the new VecEnv
   (whatever non-reset, non-seed calls come before it) hands seed + i to sub-environment i *)
Theorem make_vec_env_first_reset_seeds : forall E O A I Opt
  (e_step : E -> A -> E * (O * Z * bool * bool * I)) (e_reset : E -> option Z -> option Opt -> E * (O * I))
  (envs : list E) seed drawn start dir wc i e (mid post : list (vop A Opt)),
  nth_error envs i = Some e ->
  let s := snd (make_vec_env (length envs) seed drawn start dir wc) in
  Forall (wf_vop (length envs)) (([] ++ VSeed s :: mid) ++ VReset :: post) ->
  forallb vquiet mid = true ->
  exists out obs ri o,
    nth_error (vrun e_step e_reset (vinit envs) (([] ++ VSeed s :: mid) ++ VReset :: post)) (length ([] ++ VSeed s :: mid)) = Some out /\
    proj_out i out = Some (SOReset obs ri [CReset (Some (match seed with Some x => x | None => drawn end + Z.of_nat i)%Z) o]).
Proof.
  intros E O A I Opt e_step e_reset envs seed drawn start dir wc i e mid post He s W Q.
  eapply vec_seed_delivery; eauto.
Qed.

(* ---------- sync_envs_normalization ---------- *)
Section Sync.
Context {S : Type}.
Variable copy_stats : S -> S -> S.
Notation sync_chain := (sync_chain copy_stats).

(* shapes for which both assertions hold *)
Fixpoint compatible (train evalc : list (vlayer S)) : bool :=
  match train, evalc with
  | [], _ => true
  | _ :: _, [] => false
  | LNorm _ :: tr, LNorm _ :: er => compatible tr er
  | LNorm _ :: _, LOther _ :: _ => false
  | LOther _ :: tr, _ :: er => compatible tr er
  end.

Theorem sync_succeeds_iff_compatible : forall train evalc,
  (exists r, sync_chain train evalc = Some r) <-> compatible train evalc = true.
Proof.
  induction train as [|t tr IH]; intros evalc; cbn.
  - split; eauto.
  - destruct evalc as [|e er]; [destruct t; cbn; (split; [intros [r H]; discriminate|intros H; discriminate])|].
    destruct t as [st|c]; destruct e as [se|c']; cbn.
    + rewrite <- IH. split; intros [r H].
      * destruct (sync_chain tr er); [eauto|discriminate].
      * rewrite H. cbn. eauto.
    + split; [intros [r H]; discriminate|intros H; discriminate].
    + rewrite <- IH. split; intros [r H].
      * destruct (sync_chain tr er); [eauto|discriminate].
      * rewrite H. cbn. eauto.
    + rewrite <- IH. split; intros [r H].
      * destruct (sync_chain tr er); [eauto|discriminate].
      * rewrite H. cbn. eauto.
Qed.

(* on success: the eval chain keeps its length; at EVERY level where the training chain has a VecNormalize the eval
   level receives the training statistics; every other level is untouched *)
Theorem sync_levels : forall train evalc r,
  sync_chain train evalc = Some r ->
  length r = length evalc /\
  forall k,
    nth_error r k =
    match nth_error train k, nth_error evalc k with
    | Some (LNorm st), Some (LNorm se) => Some (LNorm (copy_stats st se))
    | _, e => e
    end.
Proof.
  induction train as [|t tr IH]; intros evalc r H; cbn in H.
  - inv H. split; [reflexivity|]. intros k. destruct k; reflexivity.
  - destruct evalc as [|e er]; [discriminate|].
    assert (G : forall x, option_map (cons x) (sync_chain tr er) = Some r ->
                exists r', sync_chain tr er = Some r' /\ r = x :: r').
    { intros x Hx. destruct (sync_chain tr er) as [r'|]; [|discriminate]. inv Hx. eauto. }
    destruct t as [st|c]; destruct e as [se|c']; try discriminate;
      (apply G in H; destruct H as (r' & Hr & ->); destruct (IH er r' Hr) as [L N];
       split; [cbn; rewrite L; reflexivity|]; intros k; destruct k as [|k]; [reflexivity|cbn; apply N]).
Qed.
End Sync.

(* with builder-stats' VecNormalize model (Model/VecNorm.v, read only).  A level is (state, has_obs_rms) where has_obs_rms is
   what `hasattr(level, "obs_rms")` answers: the level's own attribute (norm_obs) or, through VecEnvWrapper.__getattr__, the
   unique inner holder's (then v_obs_rms of the training level stands for those forwarded statistics).  ret_rms is copied at
   every VecNormalize level, obs_rms only under that guard; the eval level keeps its returns, old observations and flags. *)
Definition vn_copy (t e : vn * bool) : vn * bool :=
  (mk_vn (if snd t then v_obs_rms (fst t) else v_obs_rms (fst e)) (v_ret_rms (fst t)) (v_returns (fst e)) (v_old_obs (fst e))
         (v_old_rew (fst e)) (v_training (fst e)) (v_norm_obs (fst e)) (v_norm_reward (fst e)),
   snd t || snd e).

Theorem sync_levels_vecnorm : forall train evalc r k st h se he,
  sync_chain vn_copy train evalc = Some r ->
  nth_error train k = Some (LNorm (st, h)) -> nth_error evalc k = Some (LNorm (se, he)) ->
  exists s', nth_error r k = Some (LNorm (s', h || he)) /\
    v_ret_rms s' = v_ret_rms st /\
    v_obs_rms s' = (if h then v_obs_rms st else v_obs_rms se) /\
    (h = true -> s' = VecNorm.sync st se) /\
    v_returns s' = v_returns se /\ v_training s' = v_training se /\ v_norm_obs s' = v_norm_obs se /\ v_norm_reward s' = v_norm_reward se.
Proof.
  intros train evalc r k st h se he H Ht He.
  destruct (sync_levels vn_copy train evalc r H) as [_ N]. specialize (N k). rewrite Ht, He in N.
  eexists. split; [exact N|]. cbn. repeat split. intros ->. reflexivity.
Qed.
