(* C19 - soundness of the copy-discipline checker of Model/Alias.v. *)
From SB3V Require Import Lib.Tactics Model.Alias.

(* ---------- list helpers ---------- *)
Lemma set_nth_length {A} n (x : A) l : length (set_nth n x l) = length l.
Proof. revert n; induction l as [|y l IH]; intros [|n]; simpl; auto. Qed.

Lemma nth_set_nth_other {A} n m (x d : A) l : n <> m -> nth m (set_nth n x l) d = nth m l d.
Proof.
  revert n m; induction l as [|y l IH]; intros [|n] [|m] H; simpl; auto; try lia.
Qed.

Lemma nth_set_nth_same {A} n (x d : A) l : n < length l -> nth n (set_nth n x l) d = x.
Proof. revert n; induction l as [|y l IH]; intros [|n] H; simpl in *; try lia; auto. apply IH; lia. Qed.

Lemma In_set_nth {A} n (x y : A) l : In y (set_nth n x l) -> y = x \/ In y l.
Proof.
  revert n; induction l as [|z l IH]; intros [|n] H; simpl in *; auto.
  - destruct H; auto.
  - destruct H as [H|H]; auto. destruct (IH _ H); auto.
Qed.

Lemma map_set_nth {A B} (f : A -> B) n x l : map f (set_nth n x l) = set_nth n (f x) (map f l).
Proof. revert n; induction l as [|y l IH]; intros [|n]; simpl; auto. now rewrite IH. Qed.

Lemma map_nth_seq {A} (l : list A) d : map (fun k => nth k l d) (seq 0 (length l)) = l.
Proof.
  induction l as [|x l IH]; simpl; [reflexivity|]. f_equal.
  rewrite <- seq_shift, map_map. exact IH.
Qed.

Lemma content_app_l h v l : l < length h -> content (h ++ [v]) l = content h l.
Proof. intros H. unfold content. now rewrite app_nth1. Qed.

(* ---------- checker facts ---------- *)
Lemma ok_sticky nargs a i : a_ok a = false -> a_ok (astep nargs a i) = false.
Proof.
  intros H. destruct i; simpl; repeat (destr_if || (match goal with |- context [match ?x with _ => _ end] => destruct x end)); simpl; auto.
Qed.

Lemma ok_fold_false nargs p a : a_ok a = false -> a_ok (fold_left (astep nargs) p a) = false.
Proof. revert a; induction p as [|i p IH]; intros a H; simpl; auto. apply IH, ok_sticky, H. Qed.

Section Sound.
Variable F : nat -> list (list Z) -> list Z.
Variable args : list loc.
Variable h0 : heap.
Variable sl0 : list loc.

Let base := length h0.
Let nargs := length args.

Definition gamma (v : aval) : loc :=
  match v with AArg i => nth i args 0 | ASlot k => nth k sl0 0 | AFresh n => base + n end.

Definition wfv (a : ast) (v : aval) : Prop :=
  match v with AArg i => i < nargs | ASlot k => k < length sl0 | AFresh n => n < length (a_fresh a) end.

Definition slot_ok (a : ast) (v : aval) : Prop :=
  match v with AArg _ => False | ASlot _ => True | AFresh n => status_of a n = Stored end.

Record R (a : ast) (s : st) : Prop := {
  R_tmps : s_tmps s = map (fun rv => (fst rv, gamma (snd rv))) (a_tmps a);
  R_slots : s_slots s = map gamma (a_slots a);
  R_len : length (s_heap s) = base + length (a_fresh a);
  R_wf_t : forall r v, In (r, v) (a_tmps a) -> wfv a v;
  R_wf_s : forall v, In v (a_slots a) -> wfv a v /\ slot_ok a v;
  R_frame : forall l, l < base -> ~ In l sl0 -> content (s_heap s) l = content h0 l;
  R_rets : forall l, In l (s_rets s) -> In l args \/ exists n, l = base + n /\ n < length (a_fresh a) /\ status_of a n = Returned;
  R_nslots : length (a_slots a) = length sl0 }.

Lemma assoc_map r l :
  assoc r (map (fun rv => (fst rv, gamma (snd rv))) l) = option_map gamma (aassoc r l).
Proof. induction l as [|[k v] l IH]; simpl; auto. destruct (Nat.eqb k r); auto. Qed.

Lemma aassoc_In r l v : aassoc r l = Some v -> In (r, v) l.
Proof.
  induction l as [|[k w] l IH]; simpl; [discriminate|].
  destruct (Nat.eqb_spec k r); intros H; [inversion H; subst; auto | auto].
Qed.

Lemma lookup_sound a s e v :
  R a s -> alookup nargs a e = Some v -> lookup args s e = Some (gamma v) /\ wfv a v.
Proof.
  intros HR H. destruct e as [i|k|r]; simpl in *.
  - destruct (Nat.ltb_spec i nargs); [|discriminate]. inversion H; subst. simpl. split; [|assumption].
    apply nth_error_nth'. assumption.
  - rewrite (R_slots _ _ HR). rewrite nth_error_map, H. simpl. split; [reflexivity|].
    apply (R_wf_s _ _ HR). eapply nth_error_In; eauto.
  - rewrite (R_tmps _ _ HR), assoc_map, H. simpl. split; [reflexivity|].
    eapply (R_wf_t _ _ HR). apply aassoc_In; eauto.
Qed.

Lemma status_set_other a n m st0 : n <> m -> nth m (set_nth n st0 (a_fresh a)) Returned = status_of a m.
Proof. intros; unfold status_of; now apply nth_set_nth_other. Qed.

Hypothesis sl0_valid : forall l, In l sl0 -> l < base.

Lemma gamma_slot_in a v : wfv a v -> slot_ok a v -> In (gamma v) sl0 \/ base <= gamma v.
Proof.
  destruct v as [i|k|n]; simpl; intros Hw Hs; [contradiction| |right; lia].
  left. apply nth_In. exact Hw.
Qed.

Lemma step_sound a s i :
  R a s -> a_ok (astep nargs a i) = true -> R (astep nargs a i) (step F args s i).
Proof.
  intros HR Hok. destruct i as [r f srcs|r e|k e|k e|d f srcs|e]; simpl in *.
  - (* INew *)
    destruct (all_bound nargs a srcs); [|simpl in Hok; discriminate].
    constructor; simpl.
    + rewrite (R_tmps _ _ HR). f_equal. f_equal. rewrite (R_len _ _ HR). reflexivity.
    + apply (R_slots _ _ HR).
    + rewrite !app_length, (R_len _ _ HR). simpl. lia.
    + intros r0 v [H|H].
      * inversion H; subst. simpl. rewrite app_length; simpl; lia.
      * pose proof (R_wf_t _ _ HR _ _ H) as Hw. destruct v; simpl in *; auto. rewrite app_length; lia.
    + intros v H. destruct (R_wf_s _ _ HR _ H) as [Hw Hs]. split.
      * destruct v; simpl in *; auto. rewrite app_length; lia.
      * destruct v; simpl in *; auto. unfold status_of in *; simpl. rewrite app_nth1; auto.
    + intros l Hl Hn. rewrite content_app_l; [apply (R_frame _ _ HR); auto|]. rewrite (R_len _ _ HR). lia.
    + intros l H. destruct (R_rets _ _ HR _ H) as [|[n [-> [Hlt Hn]]]]; auto. right. exists n. split; auto.
      split; [rewrite app_length; lia|]. unfold status_of in *; simpl. rewrite app_nth1; auto.
    + apply (R_nslots _ _ HR).
  - (* IMov *)
    destruct (alookup nargs a e) as [v|] eqn:E; [|simpl in Hok; discriminate].
    destruct (lookup_sound _ _ _ _ HR E) as [Hl Hw]. rewrite Hl.
    constructor; simpl; try apply HR.
    + rewrite (R_tmps _ _ HR). reflexivity.
    + intros r0 v0 [H|H]; [inversion H; subst; auto | eapply (R_wf_t _ _ HR); eauto].
  - (* IStore *)
    destruct (Nat.ltb_spec k (length (a_slots a))) as [Hk|]; [|simpl in Hok; discriminate].
    destruct (alookup nargs a e) as [v|] eqn:E; [|simpl in Hok; discriminate].
    destruct (lookup_sound _ _ _ _ HR E) as [Hl Hw]. rewrite Hl.
    destruct v as [i|j|n]; [simpl in Hok; discriminate| |].
    + (* slot to slot *)
      constructor; simpl; try apply HR.
      * rewrite (R_slots _ _ HR), map_set_nth. reflexivity.
      * intros v H. apply In_set_nth in H. destruct H as [->|H]; [split; simpl; auto | apply (R_wf_s _ _ HR); auto].
      * rewrite set_nth_length. apply (R_nslots _ _ HR).
    + destruct (status_of a n) eqn:Est; [| |simpl in Hok; discriminate].
      all: constructor; simpl; try apply HR.
      all: try (rewrite (R_slots _ _ HR), map_set_nth; reflexivity).
      all: try (rewrite set_nth_length; apply (R_len _ _ HR)).
      all: try (rewrite set_nth_length; apply (R_nslots _ _ HR)).
      all: try (intros r0 v0 H; pose proof (R_wf_t _ _ HR _ _ H) as Hw0; destruct v0; simpl in *; auto; rewrite set_nth_length; auto).
      all: try (intros v H; apply In_set_nth in H; destruct H as [->|H];
                [ split; simpl; [rewrite set_nth_length; exact Hw | unfold status_of; simpl; apply nth_set_nth_same; exact Hw]
                | destruct (R_wf_s _ _ HR _ H) as [Hw1 Hs1]; split;
                  [ destruct v; simpl in *; auto; rewrite set_nth_length; auto
                  | destruct v as [|?|m]; simpl in *; auto; unfold status_of; simpl;
                    destruct (Nat.eq_dec n m) as [->|Hne]; [apply nth_set_nth_same; auto | rewrite nth_set_nth_other; auto] ] ]).
      all: try (intros l H; destruct (R_rets _ _ HR _ H) as [|[m [-> [Hlt Hm]]]]; auto; right; exists m; split; auto;
                split; [rewrite set_nth_length; auto|];
                unfold status_of; simpl; destruct (Nat.eq_dec n m) as [->|Hne];
                [ unfold status_of in *; congruence | rewrite nth_set_nth_other; auto ]).
  - (* IStoreDead *)
    destruct (alookup nargs a e) as [v|] eqn:E; [|simpl in Hok; discriminate].
    destruct (lookup_sound _ _ _ _ HR E) as [Hl Hw]. rewrite Hl.
    constructor; simpl; apply HR.
  - (* IWrite *)
    destruct (all_bound nargs a srcs); [|simpl in Hok; discriminate].
    destruct (alookup nargs a d) as [v|] eqn:E; [|simpl in Hok; discriminate].
    destruct (lookup_sound _ _ _ _ HR E) as [Hl Hw]. rewrite Hl.
    assert (Hv : (match v with ASlot _ => a | AFresh n => match status_of a n with Returned => fail a | _ => a end | AArg _ => fail a end) = a
                 /\ (In (gamma v) sl0 \/ base <= gamma v)).
    { destruct v as [i|j|n]; simpl in Hok |- *.
      - discriminate.
      - split; [reflexivity | left; apply nth_In; exact Hw].
      - destruct (status_of a n); simpl in Hok; try discriminate; (split; [reflexivity | right; lia]). }
    destruct Hv as [Hv Htarget]. rewrite Hv.
    constructor; simpl; try apply HR.
    + rewrite set_nth_length. apply (R_len _ _ HR).
    + intros l Hlt Hn. unfold content. rewrite nth_set_nth_other; [apply (R_frame _ _ HR); auto|].
      intros Heq; subst l. destruct Htarget; [contradiction | lia].
  - (* IRet *)
    destruct (alookup nargs a e) as [v|] eqn:E; [|simpl in Hok; discriminate].
    destruct (lookup_sound _ _ _ _ HR E) as [Hl Hw]. rewrite Hl.
    destruct v as [i|j|n]; [| simpl in Hok; discriminate |].
    + constructor; simpl; try apply HR.
      intros l H. apply in_app_or in H. destruct H as [H|[<-|[]]]; [apply (R_rets _ _ HR); auto|].
      left. simpl. apply nth_In. exact Hw.
    + destruct (status_of a n) eqn:Est; [|simpl in Hok; discriminate|simpl in Hok; discriminate].
      constructor; simpl; try apply HR.
      * rewrite set_nth_length. apply (R_len _ _ HR).
      * intros r0 v0 H; pose proof (R_wf_t _ _ HR _ _ H) as Hw0; destruct v0; simpl in *; auto; rewrite set_nth_length; auto.
      * intros v H. destruct (R_wf_s _ _ HR _ H) as [Hw1 Hs1]. split.
        -- destruct v; simpl in *; auto; rewrite set_nth_length; auto.
        -- destruct v as [|?|m]; simpl in *; auto. unfold status_of; simpl.
           destruct (Nat.eq_dec n m) as [->|Hne]; [unfold status_of in *; congruence | rewrite nth_set_nth_other; auto].
      * intros l H. apply in_app_or in H. destruct H as [H|[<-|[]]].
        -- destruct (R_rets _ _ HR _ H) as [|[m [-> [Hlt Hm]]]]; auto. right. exists m. split; auto.
           split; [rewrite set_nth_length; auto|].
           unfold status_of; simpl. destruct (Nat.eq_dec n m) as [->|Hne];
             [apply nth_set_nth_same; exact Hw | rewrite nth_set_nth_other; auto].
        -- right. exists n. split; [reflexivity|]. split; [rewrite set_nth_length; exact Hw|].
           unfold status_of; simpl. apply nth_set_nth_same. exact Hw.
Qed.

Lemma fold_sound p a s :
  R a s -> a_ok (fold_left (astep nargs) p a) = true ->
  exists a', R a' (fold_left (step F args) p s).
Proof.
  revert a s; induction p as [|i p IH]; intros a s HR Hok; simpl in *; [eauto|].
  destruct (a_ok (astep nargs a i)) eqn:E.
  - eapply IH; [apply step_sound; eauto | exact Hok].
  - rewrite ok_fold_false in Hok by exact E. discriminate.
Qed.

Lemma R_init dd0 : R (ainit (length sl0)) (mk_st h0 sl0 dd0 [] []).
Proof.
  constructor; simpl.
  - reflexivity.
  - rewrite map_map. simpl. symmetry. apply map_nth_seq.
  - unfold base. lia.
  - intros r v [].
  - intros v H. apply in_map_iff in H. destruct H as [k [<- Hk]]. apply in_seq in Hk. simpl. split; [lia|exact I].
  - reflexivity.
  - intros l [].
  - rewrite map_length, seq_length. reflexivity.
Qed.

(* The frame theorem: a disciplined call leaves every caller-owned location untouched, returns only
   arguments or fresh objects that it does not retain, and retains only old library objects or
   fresh ones. *)
Theorem disciplined_frame p dd0 :
  disciplined nargs (length sl0) p = true ->
  let s := run F p args h0 sl0 dd0 in
  (forall l, l < base -> ~ In l sl0 -> content (s_heap s) l = content h0 l) /\
  (forall l, In l (s_rets s) -> In l args \/ (base <= l /\ ~ In l (s_slots s))) /\
  (forall l, In l (s_slots s) -> In l sl0 \/ base <= l) /\
  base <= length (s_heap s) /\
  (forall l, In l (s_slots s) -> l < length (s_heap s)) /\
  (forall l, In l (s_rets s) -> In l args \/ l < length (s_heap s)) /\
  length (s_slots s) = length sl0.
Proof.
  intros Hd s. unfold disciplined in Hd.
  destruct (fold_sound p _ _ (R_init dd0) Hd) as [a' HR]. fold (run F p args h0 sl0 dd0) in HR. fold s in HR.
  repeat split.
  - apply (R_frame _ _ HR).
  - intros l H. destruct (R_rets _ _ HR _ H) as [|[n [-> [Hlt Hn]]]]; auto. right. split; [lia|].
    rewrite (R_slots _ _ HR). intros Hin. apply in_map_iff in Hin. destruct Hin as [v [Hg Hv]].
    destruct (R_wf_s _ _ HR _ Hv) as [Hw Hs]. destruct v as [i|k|m]; simpl in *; [contradiction| |].
    + assert (nth k sl0 0 < base) by (apply sl0_valid, nth_In; exact Hw). lia.
    + assert (m = n) by lia. subst. congruence.
  - intros l H. rewrite (R_slots _ _ HR) in H. apply in_map_iff in H. destruct H as [v [<- Hv]].
    destruct (R_wf_s _ _ HR _ Hv). apply gamma_slot_in with a'; auto.
  - rewrite (R_len _ _ HR). lia.
  - intros l H. rewrite (R_slots _ _ HR) in H. apply in_map_iff in H. destruct H as [v [<- Hv]].
    destruct (R_wf_s _ _ HR _ Hv) as [Hw Hs]. rewrite (R_len _ _ HR).
    destruct v as [i|k|m]; simpl in *; [contradiction| |lia].
    assert (nth k sl0 0 < base) by (apply sl0_valid, nth_In; exact Hw). lia.
  - intros l H. destruct (R_rets _ _ HR _ H) as [|[n [-> [Hlt Hn]]]]; auto. right. rewrite (R_len _ _ HR). lia.
  - rewrite (R_slots _ _ HR), map_length. apply (R_nslots _ _ HR).
Qed.
End Sound.

(* ---------- two runs of one call from heaps that agree on what the call can reach ---------- *)
Lemma content_set_nth l v h l' :
  content (set_nth l v h) l' = if (Nat.eqb l' l && Nat.ltb l (length h))%bool then v else content h l'.
Proof.
  unfold content. destruct (Nat.eqb_spec l' l) as [->|Hne]; simpl.
  - destruct (Nat.ltb_spec l (length h)).
    + apply nth_set_nth_same; auto.
    + rewrite !nth_overflow; auto. rewrite set_nth_length; auto.
  - apply nth_set_nth_other; auto.
Qed.

Lemma content_snoc h v l :
  content (h ++ [v]) l = if Nat.ltb l (length h) then content h l else if Nat.eqb l (length h) then v else [].
Proof.
  unfold content. destruct (Nat.ltb_spec l (length h)).
  - apply app_nth1; auto.
  - rewrite app_nth2 by lia. destruct (Nat.eqb_spec l (length h)) as [->|].
    + now rewrite Nat.sub_diag.
    + destruct (l - length h) as [|k] eqn:E; [lia|]. simpl. destruct k; reflexivity.
Qed.

Lemma assoc_In r l v : assoc r l = Some v -> In (r, v) l.
Proof.
  induction l as [|[k w] l IH]; simpl; [discriminate|].
  destruct (Nat.eqb_spec k r); intros H; [inversion H; subst; auto | auto].
Qed.

Section TwoRun.
Variable F : nat -> list (list Z) -> list Z.
Variable args sl0 : list loc.
Variable base : nat.

Definition inA (l : loc) : Prop := In l sl0 \/ In l args \/ base <= l.

Record Sim (s1 s2 : st) : Prop := {
  S_slots : s_slots s1 = s_slots s2;
  S_dead : s_dead s1 = s_dead s2;
  S_tmps : s_tmps s1 = s_tmps s2;
  S_rets : s_rets s1 = s_rets s2;
  S_len : length (s_heap s1) = length (s_heap s2);
  S_base : base <= length (s_heap s1);
  S_agree : forall l, inA l -> content (s_heap s1) l = content (s_heap s2) l;
  S_cl_slots : forall l, In l (s_slots s1) -> inA l;
  S_cl_tmps : forall r l, In (r, l) (s_tmps s1) -> inA l }.

Lemma lookup_eq s1 s2 e : Sim s1 s2 -> lookup args s1 e = lookup args s2 e.
Proof. intros H. destruct e; simpl; [reflexivity | now rewrite (S_slots _ _ H) | now rewrite (S_tmps _ _ H)]. Qed.

Lemma lookup_inA s1 s2 e l : Sim s1 s2 -> lookup args s1 e = Some l -> inA l.
Proof.
  intros H E. destruct e; simpl in E.
  - right; left. eapply nth_error_In; eauto.
  - apply (S_cl_slots _ _ H). eapply nth_error_In; eauto.
  - eapply (S_cl_tmps _ _ H). apply assoc_In; eauto.
Qed.

Lemma lookups_eq s1 s2 es : Sim s1 s2 -> lookups args s1 es = lookups args s2 es.
Proof.
  intros H. induction es as [|e es IH]; simpl; [reflexivity|].
  rewrite <- (lookup_eq _ _ e H). destruct (lookup args s1 e); now rewrite IH.
Qed.

Lemma lookups_inA s1 s2 es : Sim s1 s2 -> Forall inA (lookups args s1 es).
Proof.
  intros H. induction es as [|e es IH]; simpl; [constructor|].
  destruct (lookup args s1 e) eqn:E; auto. constructor; auto. eapply lookup_inA; eauto.
Qed.

Lemma contents_eq s1 s2 ls :
  Sim s1 s2 -> Forall inA ls -> map (content (s_heap s1)) ls = map (content (s_heap s2)) ls.
Proof.
  intros H HA. induction HA as [|l ls Hl _ IH]; simpl; [reflexivity|].
  rewrite IH. f_equal. apply (S_agree _ _ H); auto.
Qed.

Lemma step_sim s1 s2 i : Sim s1 s2 -> Sim (step F args s1 i) (step F args s2 i).
Proof.
  intros H. destruct i as [r f srcs|r e|k e|k e|d f srcs|e]; simpl.
  - (* INew *)
    rewrite <- (lookups_eq _ _ srcs H).
    rewrite <- (contents_eq _ _ _ H (lookups_inA _ _ srcs H)).
    set (v := F f (map (content (s_heap s1)) (lookups args s1 srcs))).
    constructor; simpl; try apply H.
    + rewrite (S_tmps _ _ H), (S_len _ _ H). reflexivity.
    + rewrite !app_length, (S_len _ _ H). reflexivity.
    + rewrite app_length. pose proof (S_base _ _ H). lia.
    + intros l Hl. rewrite !content_snoc, <- (S_len _ _ H), (S_agree _ _ H l Hl). reflexivity.
    + intros r0 l [E|Hin]; [inversion E; subst; right; right; apply (S_base _ _ H) | eapply (S_cl_tmps _ _ H); eauto].
  - (* IMov *)
    rewrite <- (lookup_eq _ _ e H). destruct (lookup args s1 e) as [l|] eqn:E; [|exact H].
    constructor; simpl; try apply H.
    + now rewrite (S_tmps _ _ H).
    + intros r0 l0 [E0|Hin]; [inversion E0; subst; eapply lookup_inA; eauto | eapply (S_cl_tmps _ _ H); eauto].
  - (* IStore *)
    rewrite <- (lookup_eq _ _ e H). destruct (lookup args s1 e) as [l|] eqn:E; [|exact H].
    constructor; simpl; try apply H.
    + now rewrite (S_slots _ _ H).
    + intros l0 Hin. apply In_set_nth in Hin. destruct Hin as [->|Hin]; [eapply lookup_inA; eauto | apply (S_cl_slots _ _ H); auto].
  - (* IStoreDead *)
    rewrite <- (lookup_eq _ _ e H). destruct (lookup args s1 e) as [l|] eqn:E; [|exact H].
    constructor; simpl; try apply H. now rewrite (S_dead _ _ H).
  - (* IWrite *)
    rewrite <- (lookup_eq _ _ d H). destruct (lookup args s1 d) as [l|] eqn:E; [|exact H].
    rewrite <- (lookups_eq _ _ srcs H).
    rewrite <- (contents_eq _ _ _ H (lookups_inA _ _ srcs H)).
    rewrite <- (S_agree _ _ H l (lookup_inA _ _ _ _ H E)).
    set (v := F f (content (s_heap s1) l :: map (content (s_heap s1)) (lookups args s1 srcs))).
    constructor; simpl; try apply H.
    + rewrite !set_nth_length. apply (S_len _ _ H).
    + rewrite set_nth_length. apply (S_base _ _ H).
    + intros l0 Hl0. rewrite !content_set_nth, <- (S_len _ _ H), (S_agree _ _ H l0 Hl0). reflexivity.
  - (* IRet *)
    rewrite <- (lookup_eq _ _ e H). destruct (lookup args s1 e) as [l|] eqn:E; [|exact H].
    constructor; simpl; try apply H. now rewrite (S_rets _ _ H).
Qed.

Lemma fold_sim p s1 s2 : Sim s1 s2 -> Sim (fold_left (step F args) p s1) (fold_left (step F args) p s2).
Proof. revert s1 s2; induction p as [|i p IH]; intros s1 s2 H; simpl; auto. apply IH, step_sim, H. Qed.
End TwoRun.

(* Non-interference of ONE call (any program): if two heaps of equal size agree on the library's
   live objects and on the arguments, the call returns the same locations with the same contents,
   leaves the same live/dead references, and the heaps still agree on everything the call could
   reach (old live objects, arguments, everything allocated by the call). *)
Theorem call_noninterference F p args sl0 dd0 h1 h2 :
  length h1 = length h2 ->
  (forall l, In l sl0 \/ In l args -> content h1 l = content h2 l) ->
  let s1 := run F p args h1 sl0 dd0 in
  let s2 := run F p args h2 sl0 dd0 in
  s_slots s1 = s_slots s2 /\ s_dead s1 = s_dead s2 /\ s_rets s1 = s_rets s2 /\
  length (s_heap s1) = length (s_heap s2) /\
  (forall l, In l sl0 \/ In l args \/ length h1 <= l -> content (s_heap s1) l = content (s_heap s2) l).
Proof.
  intros Hlen Hag s1 s2.
  assert (H0 : Sim args sl0 (length h1) (mk_st h1 sl0 dd0 [] []) (mk_st h2 sl0 dd0 [] [])).
  { constructor; simpl; try reflexivity.
    - exact Hlen.
    - intros l [Hl|[Hl|Hl]]; [apply Hag; auto | apply Hag; auto |].
      unfold content. rewrite !nth_overflow; auto; lia.
    - intros l Hl. left; exact Hl.
    - intros r l Hf; contradiction. }
  pose proof (fold_sim F args sl0 (length h1) p _ _ H0) as H. fold (run F p args h1 sl0 dd0) in H.
  fold (run F p args h2 sl0 dd0) in H. fold s1 s2 in H.
  repeat split; try apply H.
Qed.

(* ---------- histories ---------- *)
Section HistProofs.
Variable F : nat -> list (list Z) -> list Z.
Variable nslots : nat.

Lemma knows_In w l : knows w l = true <-> In l (w_known w).
Proof.
  unfold knows. rewrite existsb_exists. split.
  - intros [x [Hin Hx]]. apply Nat.eqb_eq in Hx. now subst.
  - intros H. exists l. split; [exact H | apply Nat.eqb_refl].
Qed.

Lemma args_known w args : forallb (knows w) args = true -> forall a, In a args -> In a (w_known w).
Proof. intros H a Ha. rewrite forallb_forall in H. apply knows_In, H, Ha. Qed.

(* one disciplined call: invariant preserved, everything the caller knew is untouched *)
Lemma call_step w p args :
  Inv nslots w -> disciplined (length args) nslots p = true -> forallb (knows w) args = true ->
  let w' := fst (do_event F w (ECall p args)) in
  Inv nslots w' /\ (forall l, In l (w_known w) -> content (w_heap w') l = content (w_heap w) l).
Proof.
  intros [Hn [Hs Hk]] Hd Ha. simpl. rewrite Ha. simpl.
  rewrite <- Hn in Hd.
  destruct (disciplined_frame F args (w_heap w) (w_slots w) Hs p (w_dead w) Hd)
    as [Hfr [Hrets [Hsl [Hbase [Hslv [Hretv Hlen]]]]]].
  pose proof (args_known _ _ Ha) as Hak.
  split; [split; [|split]|].
  - simpl. rewrite Hlen. exact Hn.
  - simpl. exact Hslv.
  - simpl. intros l Hin. apply in_app_or in Hin. destruct Hin as [Hin|Hin].
    + destruct (Hk _ Hin) as [Hlt Hns]. split; [lia|].
      intros Hc. destruct (Hsl _ Hc); [contradiction | lia].
    + destruct (Hrets _ Hin) as [Harg|[Hge Hns]].
      * destruct (Hk _ (Hak _ Harg)) as [Hlt Hns]. split; [lia|].
        intros Hc. destruct (Hsl _ Hc); [contradiction | lia].
      * split; [|exact Hns]. destruct (Hretv _ Hin) as [Harg|]; [|assumption].
        destruct (Hk _ (Hak _ Harg)). lia.
  - intros l Hin. destruct (Hk _ Hin). apply Hfr; assumption.
Qed.

Lemma event_inv w e :
  Inv nslots w ->
  match e with ECall p args => disciplined (length args) nslots p = true | _ => True end ->
  Inv nslots (fst (do_event F w e)).
Proof.
  intros HI Hd. destruct e as [p args|l v|v].
  - destruct (forallb (knows w) args) eqn:Ha.
    + apply call_step; assumption.
    + simpl. rewrite Ha. exact HI.
  - simpl. destruct (knows w l); [|exact HI]. destruct HI as [Hn [Hs Hk]].
    split; [|split]; simpl; auto; intros l0 H0; rewrite set_nth_length; auto.
  - destruct HI as [Hn [Hs Hk]]. split; [|split]; simpl; auto.
    + intros l Hl. rewrite app_length; simpl. specialize (Hs _ Hl). lia.
    + intros l Hl. rewrite app_length; simpl. apply in_app_or in Hl. destruct Hl as [Hl|[<-|[]]].
      * destruct (Hk _ Hl). split; [lia|assumption].
      * split; [lia|]. intros Hc. specialize (Hs _ Hc). lia.
Qed.

(* (b) of the property, for every history: no call ever changes an object the caller holds *)
Theorem history_frame es w :
  Inv nslots w -> events_disciplined nslots es = true -> frame_holds F w es.
Proof.
  revert w; induction es as [|e es IH]; intros w HI Hd; simpl; [exact I|].
  simpl in Hd. apply andb_prop in Hd. destruct Hd as [Hd1 Hd2].
  split.
  - destruct e as [p args|l v|v]; auto.
    intros l Hl. destruct (forallb (knows w) args) eqn:Ha.
    + apply (call_step w p args HI Hd1 Ha). exact Hl.
    + simpl. rewrite Ha. reflexivity.
  - apply IH; [|exact Hd2]. apply event_inv; [exact HI|]. destruct e; auto.
Qed.

(* ---------- non-interference across whole histories ---------- *)
Definition Agree (D : list loc) (w1 w2 : world) : Prop :=
  forall l, (In l D -> knows w1 l = false) -> content (w_heap w1) l = content (w_heap w2) l.

Record Rel (D : list loc) (w1 w2 : world) : Prop := {
  Rl_slots : w_slots w1 = w_slots w2;
  Rl_dead : w_dead w1 = w_dead w2;
  Rl_known : w_known w1 = w_known w2;
  Rl_len : length (w_heap w1) = length (w_heap w2);
  Rl_agree : Agree D w1 w2;
  Rl_inv1 : Inv nslots w1;
  Rl_inv2 : Inv nslots w2 }.

Lemma knows_eq w1 w2 l : w_known w1 = w_known w2 -> knows w1 l = knows w2 l.
Proof. unfold knows. now intros ->. Qed.

Lemma not_in_existsb a D : negb (existsb (Nat.eqb a) D) = true -> ~ In a D.
Proof.
  intros H Hin. apply negb_true_iff in H. assert (existsb (Nat.eqb a) D = true); [|congruence].
  apply existsb_exists. exists a. split; [assumption | apply Nat.eqb_refl].
Qed.

Lemma rel_event D w1 w2 e :
  Rel D w1 w2 ->
  match e with
  | ECall p args => disciplined (length args) nslots p = true /\ forall a, In a args -> ~ In a D
  | _ => True
  end ->
  Rel D (fst (do_event F w1 e)) (fst (do_event F w2 e)) /\ snd (do_event F w1 e) = snd (do_event F w2 e).
Proof.
  intros HR He. destruct e as [p args|l v|v].
  - destruct He as [Hd Hclean].
    assert (Hk12 : forallb (knows w1) args = forallb (knows w2) args).
    { clear -HR. induction args as [|a args IHa]; simpl; [reflexivity|].
      rewrite IHa, (knows_eq w1 w2 a (Rl_known _ _ _ HR)). reflexivity. }
    destruct (forallb (knows w1) args) eqn:Ha.
    2:{ simpl. rewrite Ha, <- Hk12. split; [exact HR | reflexivity]. }
    pose proof (call_step w1 p args (Rl_inv1 _ _ _ HR) Hd Ha) as [HI1 Hf1].
    assert (Ha2 : forallb (knows w2) args = true) by (symmetry; exact Hk12).
    pose proof (call_step w2 p args (Rl_inv2 _ _ _ HR) Hd Ha2) as [HI2 Hf2].
    simpl in HI1, HI2, Hf1, Hf2 |- *. rewrite Ha in *. rewrite Ha2 in *. simpl in *.
    destruct (Rl_inv1 _ _ _ HR) as [Hn1 [Hs1 Hkn1]].
    destruct (Rl_inv2 _ _ _ HR) as [Hn2 [Hs2 Hkn2]].
    pose proof (args_known _ _ Ha) as Hak.
    (* the two heaps agree on live objects and on the arguments *)
    assert (Hag0 : forall l, In l (w_slots w1) \/ In l args -> content (w_heap w1) l = content (w_heap w2) l).
    { intros l [Hl|Hl]; apply (Rl_agree _ _ _ HR).
      - intros _. destruct (knows w1 l) eqn:Ek; [|reflexivity].
        apply knows_In in Ek. destruct (Hkn1 _ Ek). contradiction.
      - intros HinD. exfalso. apply (Hclean _ Hl HinD). }
    destruct (call_noninterference F p args (w_slots w1) (w_dead w1) (w_heap w1) (w_heap w2) (Rl_len _ _ _ HR) Hag0)
      as [Es [Ed [Er [El Hag]]]].
    rewrite <- (Rl_slots _ _ _ HR), <- (Rl_dead _ _ _ HR).
    set (s1 := run F p args (w_heap w1) (w_slots w1) (w_dead w1)) in *.
    set (s2 := run F p args (w_heap w2) (w_slots w1) (w_dead w1)) in *.
    rewrite <- (Rl_slots _ _ _ HR), <- (Rl_dead _ _ _ HR) in HI2, Hf2. fold s2 in HI2, Hf2.
    assert (Hd' : disciplined (length args) (length (w_slots w1)) p = true) by (rewrite Hn1; exact Hd).
    destruct (disciplined_frame F args (w_heap w1) (w_slots w1) Hs1 p (w_dead w1) Hd')
      as [Hfr1 [Hrets1 [Hsl1 [Hbase1 _]]]]. fold s1 in Hfr1, Hrets1, Hsl1, Hbase1.
    assert (Hs2' : forall l, In l (w_slots w1) -> l < length (w_heap w2)) by (rewrite (Rl_slots _ _ _ HR); exact Hs2).
    destruct (disciplined_frame F args (w_heap w2) (w_slots w1) Hs2' p (w_dead w1) Hd')
      as [Hfr2 _]. fold s2 in Hfr2.
    split.
    + constructor; simpl; auto.
      * rewrite (Rl_known _ _ _ HR), Er. reflexivity.
      * (* agreement outside the dirty set *)
        intros l HD.
        assert (HD0 : In l D -> knows w1 l = false).
        { intros Hin. specialize (HD Hin). unfold knows in *. simpl in HD.
          rewrite existsb_app in HD. apply orb_false_iff in HD. tauto. }
        destruct (Nat.ltb_spec l (length (w_heap w1))) as [Hlt|Hge]; [|apply Hag; right; right; exact Hge].
        destruct (in_dec Nat.eq_dec l (w_slots w1)) as [Hin|Hnin]; [apply Hag; left; exact Hin|].
        rewrite Hfr1 by assumption. rewrite Hfr2; [|rewrite <- (Rl_len _ _ _ HR); exact Hlt|exact Hnin].
        apply (Rl_agree _ _ _ HR). exact HD0.
    + f_equal. rewrite <- Er. apply map_ext_in. intros l Hl.
      apply Hag. destruct (Hrets1 _ Hl) as [Harg|[Hge _]]; [right; left; exact Harg | right; right; exact Hge].
  - simpl. rewrite <- (knows_eq w1 w2 l (Rl_known _ _ _ HR)).
    destruct (knows w1 l) eqn:Ek; [|split; [exact HR|reflexivity]].
    split; [|reflexivity].
    pose proof (event_inv w1 (EWrite l v) (Rl_inv1 _ _ _ HR) I) as HI1.
    pose proof (event_inv w2 (EWrite l v) (Rl_inv2 _ _ _ HR) I) as HI2.
    simpl in HI1, HI2. rewrite Ek in HI1. rewrite <- (knows_eq w1 w2 l (Rl_known _ _ _ HR)), Ek in HI2.
    constructor; simpl; try apply HR; auto.
    + rewrite !set_nth_length. apply HR.
    + intros l0 HD. simpl. rewrite !content_set_nth, <- (Rl_len _ _ _ HR).
      rewrite (Rl_agree _ _ _ HR l0); [reflexivity|]. exact HD.
  - simpl. split; [|reflexivity].
    pose proof (event_inv w1 (EAlloc v) (Rl_inv1 _ _ _ HR) I) as HI1.
    pose proof (event_inv w2 (EAlloc v) (Rl_inv2 _ _ _ HR) I) as HI2.
    constructor; simpl; try apply HR; auto.
    + rewrite (Rl_known _ _ _ HR), (Rl_len _ _ _ HR). reflexivity.
    + rewrite !app_length, (Rl_len _ _ _ HR). reflexivity.
    + intros l0 HD. simpl. rewrite !content_snoc, <- (Rl_len _ _ _ HR).
      rewrite (Rl_agree _ _ _ HR l0); [reflexivity|].
      intros Hin. specialize (HD Hin). unfold knows in *. simpl in HD.
      rewrite existsb_app in HD. apply orb_false_iff in HD. tauto.
Qed.

Lemma run_hist_cons w e t :
  run_hist F w (e :: t) =
  match snd (do_event F w e) with
  | Some o => o :: run_hist F (fst (do_event F w e)) t
  | None => run_hist F (fst (do_event F w e)) t
  end.
Proof. simpl. destruct (do_event F w e) as [w' [o|]]; reflexivity. Qed.

Lemma rel_weaken D l w1 w2 v :
  Rel D w1 w2 ->
  Rel (l :: D) w1 (fst (do_event F w2 (EWrite l v))).
Proof.
  intros HR. simpl. destruct (knows w2 l) eqn:Ek; simpl.
  - pose proof (event_inv w2 (EWrite l v) (Rl_inv2 _ _ _ HR) I) as HI2. simpl in HI2. rewrite Ek in HI2.
    constructor; simpl; try apply HR; auto.
    + rewrite set_nth_length. apply HR.
    + intros l0 HD. simpl. rewrite content_set_nth.
      destruct (Nat.eqb_spec l0 l) as [->|Hne]; simpl.
      * rewrite (knows_eq w1 w2 l (Rl_known _ _ _ HR)), Ek in HD. specialize (HD (or_introl eq_refl)). discriminate.
      * apply (Rl_agree _ _ _ HR). intros Hin. apply HD. right; exact Hin.
  - constructor; try apply HR.
    intros l0 HD. apply (Rl_agree _ _ _ HR). intros Hin. apply HD. right; exact Hin.
Qed.

Lemma hist_rel pes : forall D w1 w2,
  Rel D w1 w2 -> calls_disciplined nslots pes = true -> clean D pes = true ->
  run_hist F w1 (left_run pes) = run_hist F w2 (right_run pes).
Proof.
  induction pes as [|pe pes IH]; intros D w1 w2 HR Hd Hc; [reflexivity|].
  simpl in Hd. apply andb_prop in Hd. destruct Hd as [Hd1 Hd2].
  destruct pe as [e|l v].
  - change (left_run (Both e :: pes)) with (e :: left_run pes).
    change (right_run (Both e :: pes)) with (e :: right_run pes).
    rewrite !run_hist_cons.
    assert (He : match e with
                 | ECall p args => disciplined (length args) nslots p = true /\ forall a, In a args -> ~ In a D
                 | _ => True end /\ clean D pes = true).
    { destruct e as [p args|l v|v]; simpl in Hc; auto.
      apply andb_prop in Hc. destruct Hc as [Hc1 Hc2]. split; [|exact Hc2]. split; [exact Hd1|].
      intros a Ha. rewrite forallb_forall in Hc1. apply not_in_existsb, Hc1, Ha. }
    destruct He as [He Hc'].
    destruct (rel_event D w1 w2 e HR He) as [HR' Hout]. rewrite <- Hout.
    destruct (snd (do_event F w1 e)); [f_equal|]; eapply IH; eauto.
  - change (left_run (Extra l v :: pes)) with (left_run pes).
    change (right_run (Extra l v :: pes)) with (EWrite l v :: right_run pes).
    rewrite run_hist_cons.
    assert (Hnone : snd (do_event F w2 (EWrite l v)) = None) by (simpl; destruct (knows w2 l); reflexivity).
    rewrite Hnone. simpl in Hc. eapply IH; [apply rel_weaken; exact HR | exact Hd2 | exact Hc].
Qed.

(* (a) and (c) of the property, for every history: extra caller writes to objects passed or returned
   earlier (and not handed to the library again) never change what any later call returns *)
Theorem history_noninterference w pes :
  Inv nslots w -> calls_disciplined nslots pes = true -> clean [] pes = true ->
  run_hist F w (left_run pes) = run_hist F w (right_run pes).
Proof.
  intros HI Hd Hc. apply (hist_rel pes [] w w); auto.
  constructor; auto. intros l _. reflexivity.
Qed.
End HistProofs.
