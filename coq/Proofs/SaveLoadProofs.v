From Coq Require Import List ZArith Bool String Lia.
From SB3V Require Import Model.JsonCodec Model.SaveLoad Proofs.JsonCodecProofs.
Import ListNotations.

Lemma lookup_app n a b : lookup n (a ++ b) = match lookup n a with Some x => Some x | None => lookup n b end.
Proof.
  induction a as [|[m x] a IH]; cbn [app lookup]; [reflexivity|]. destruct (String.eqb n m); [reflexivity|exact IH].
Qed.

Lemma mem_spec n l : mem n l = true <-> In n l.
Proof.
  unfold mem. rewrite existsb_exists. split.
  - intros (x & Hx & E). apply String.eqb_eq in E. now subst.
  - intros H. exists n. split; [exact H|apply String.eqb_refl].
Qed.

(* data kept by save(): exactly the non-excluded plain-data attributes, with their values *)
Lemma lookup_data_of o ex n v :
  lookup n o = Some (AData v) -> ex n = false ->
  lookup n (map (fun kv => (fst kv, AData (snd kv))) (data_of o ex)) = Some (AData v).
Proof.
  induction o as [|[m a] o IH]; cbn [lookup]; [discriminate|]. intros H Hex.
  destruct (String.eqb n m) eqn:E.
  - apply String.eqb_eq in E. subst m. inversion H; subst. cbn [data_of]. rewrite Hex. cbn [map lookup fst snd].
    now rewrite String.eqb_refl.
  - destruct a; cbn [data_of]; destruct (ex m); try (apply IH; assumption); cbn [map lookup fst snd]; rewrite E; apply IH; assumption.
Qed.

Lemma lookup_excluded_none o ex n : ex n = true ->
  lookup n (map (fun kv => (fst kv, AData (snd kv))) (data_of o ex)) = None.
Proof.
  intros Hex. induction o as [|[m a] o IH]; [reflexivity|].
  destruct a; cbn [data_of]; destruct (ex m) eqn:Em; try exact IH; cbn [map lookup fst snd];
    (destruct (String.eqb n m) eqn:E; [apply String.eqb_eq in E; subst; congruence|exact IH]).
Qed.

Lemma lookup_params n o names sd : In n names -> lookup n o = Some (AModule sd) ->
  lookup n (map (fun kv => (fst kv, AModule (snd kv))) (params_of o names)) = Some (AModule sd).
Proof.
  induction names as [|m names IH]; [contradiction|]. intros Hin Hl. cbn [params_of].
  destruct (String.eqb n m) eqn:E.
  - apply String.eqb_eq in E. subst m. rewrite Hl. cbn [map lookup fst snd]. now rewrite String.eqb_refl.
  - destruct Hin as [->|Hin]; [now rewrite String.eqb_refl in E|].
    destruct (lookup m o) as [[v|sd'|t]|]; try (now apply IH). cbn [map lookup fst snd]. rewrite E. now apply IH.
Qed.

Lemma lookup_params_none n o names : ~ In n names ->
  lookup n (map (fun kv => (fst kv, AModule (snd kv))) (params_of o names)) = None.
Proof.
  induction names as [|m names IH]; [reflexivity|]. intros Hn. cbn [params_of].
  assert (E : String.eqb n m = false) by (apply String.eqb_neq; intros ->; apply Hn; now left).
  assert (Hn' : ~ In n names) by (intros X; apply Hn; now right).
  destruct (lookup m o) as [[v|sd'|t]|]; try (now apply IH). cbn [map lookup fst snd]. rewrite E. now apply IH.
Qed.

Lemma lookup_vars n o names t : In n names -> lookup n o = Some (AVar t) ->
  lookup n (map (fun kv => (fst kv, AVar (snd kv))) (vars_of o names)) = Some (AVar t).
Proof.
  induction names as [|m names IH]; [contradiction|]. intros Hin Hl. cbn [vars_of].
  destruct (String.eqb n m) eqn:E.
  - apply String.eqb_eq in E. subst m. rewrite Hl. cbn [map lookup fst snd]. now rewrite String.eqb_refl.
  - destruct Hin as [->|Hin]; [now rewrite String.eqb_refl in E|].
    destruct (lookup m o) as [[v|sd'|t']|]; try (now apply IH). cbn [map lookup fst snd]. rewrite E. now apply IH.
Qed.

Lemma lookup_vars_none n o names : ~ In n names ->
  lookup n (map (fun kv => (fst kv, AVar (snd kv))) (vars_of o names)) = None.
Proof.
  induction names as [|m names IH]; [reflexivity|]. intros Hn. cbn [vars_of].
  assert (E : String.eqb n m = false) by (apply String.eqb_neq; intros ->; apply Hn; now left).
  assert (Hn' : ~ In n names) by (intros X; apply Hn; now right).
  destruct (lookup m o) as [[v|sd'|t]|]; try (now apply IH). cbn [map lookup fst snd]. rewrite E. now apply IH.
Qed.

Section SaveLoad.
Variables (fresh : obj) (setup : obj -> obj) (created : list string).
(* _setup_model only (re)creates attributes in `created` (policy, buffers, recomputed schedules, ...) *)
Hypothesis setup_frame : forall o n, ~ In n created -> lookup n (setup o) = lookup n o.

(* every plain attribute outside the exclusion set (and not recomputed by _setup_model) is restored, value and
   type, for all exclude / include sets *)
Lemma save_load_data o dflt excl incl sdn varn n v :
  lookup n o = Some (AData v) ->
  excluded dflt excl incl (sdn ++ varn) n = false -> ~ In n created ->
  lookup n (load fresh setup (save o dflt excl incl sdn varn)) = Some (AData v).
Proof.
  intros Hl Hex Hc. unfold load, save, update. cbn [a_data a_params a_vars].
  assert (Hnt : mem n (sdn ++ varn) = false).
  { unfold excluded in Hex. apply orb_false_iff in Hex. tauto. }
  assert (Hns : ~ In n sdn) by (intros X; assert (mem n (sdn ++ varn) = true) by (apply mem_spec, in_or_app; now left); congruence).
  assert (Hnv : ~ In n varn) by (intros X; assert (mem n (sdn ++ varn) = true) by (apply mem_spec, in_or_app; now right); congruence).
  rewrite lookup_app, lookup_vars_none by exact Hnv. rewrite lookup_app, lookup_params_none by exact Hns.
  rewrite setup_frame by exact Hc. rewrite lookup_app, roundtrip_all.
  now rewrite (lookup_data_of o _ n v Hl Hex).
Qed.

(* an excluded attribute is not in the archive: the loaded object has whatever the constructor / _setup_model made *)
Lemma save_load_excluded o dflt excl incl sdn varn n :
  excluded dflt excl incl (sdn ++ varn) n = true -> ~ In n sdn -> ~ In n varn -> ~ In n created ->
  lookup n (load fresh setup (save o dflt excl incl sdn varn)) = lookup n fresh.
Proof.
  intros Hex Hns Hnv Hc. unfold load, save, update. cbn [a_data a_params a_vars].
  rewrite lookup_app, lookup_vars_none by exact Hnv. rewrite lookup_app, lookup_params_none by exact Hns.
  rewrite setup_frame by exact Hc. rewrite lookup_app, roundtrip_all. now rewrite lookup_excluded_none.
Qed.

(* modules and optimizers come back with the saved state dict, torch variables with the saved value *)
Lemma save_load_module o dflt excl incl sdn varn n sd :
  In n sdn -> ~ In n varn -> lookup n o = Some (AModule sd) ->
  lookup n (load fresh setup (save o dflt excl incl sdn varn)) = Some (AModule sd).
Proof.
  intros Hin Hnv Hl. unfold load, save, update. cbn [a_data a_params a_vars].
  rewrite lookup_app, lookup_vars_none by exact Hnv. rewrite lookup_app. now rewrite (lookup_params n o sdn sd Hin Hl).
Qed.

Lemma save_load_var o dflt excl incl sdn varn n t :
  In n varn -> lookup n o = Some (AVar t) ->
  lookup n (load fresh setup (save o dflt excl incl sdn varn)) = Some (AVar t).
Proof.
  intros Hin Hl. unfold load, save, update. cbn [a_data a_params a_vars].
  rewrite lookup_app. now rewrite (lookup_vars n o varn t Hin Hl).
Qed.
End SaveLoad.

(* set_parameters(get_parameters()) changes no attribute *)
Lemma set_get_parameters_id o sdn n : lookup n (set_parameters o (get_parameters o sdn)) = lookup n o.
Proof.
  unfold set_parameters, get_parameters, update. rewrite lookup_app.
  induction sdn as [|m sdn IH]; [reflexivity|]. cbn [params_of].
  destruct (lookup m o) as [[v|sd|t]|] eqn:E; try exact IH. cbn [map lookup fst snd].
  destruct (String.eqb n m) eqn:E2; [|exact IH]. apply String.eqb_eq in E2. subst. now rewrite E.
Qed.

(* ---------- extension: set_parameters with a partial dictionary (exact_match=False) ---------- *)
Fixpoint lookup_param (n : string) (p : list (string * Z)) : option Z :=
  match p with [] => None | (m, sd) :: r => if String.eqb n m then Some sd else lookup_param n r end.

Lemma set_parameters_partial o p n :
  lookup n (set_parameters o p) = match lookup_param n p with Some sd => Some (AModule sd) | None => lookup n o end.
Proof.
  unfold set_parameters, update. rewrite lookup_app.
  induction p as [|[m sd] p IH]; [reflexivity|]. cbn [map lookup lookup_param fst snd].
  destruct (String.eqb n m); [reflexivity|exact IH].
Qed.
