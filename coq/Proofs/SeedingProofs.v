(* C10 - seed-plumbing theorems about Model/Seeding.v (axiom-free). *)
From SB3V Require Import Lib.Tactics Model.Seeding.
Local Open Scope Z_scope.

Lemma seeds_from_length s n : length (seeds_from s n) = n.
Proof. revert s. induction n; intros s; cbn; [reflexivity | rewrite IHn; reflexivity]. Qed.

Lemma seeds_from_nth n : forall s i, (i < n)%nat -> nth_error (seeds_from s n) i = Some (Some (s + Z.of_nat i)).
Proof.
  induction n; intros s i Hi; [lia|]. destruct i; cbn [seeds_from nth_error].
  - f_equal. f_equal. lia.
  - rewrite IHn by lia. f_equal. f_equal. lia.
Qed.

Lemma run_app x a b : run x (a ++ b) = run (run x a) b.
Proof. unfold run. apply fold_left_app. Qed.

(* every generator is seeded from s at set-up; sub-env i has s+i pending *)
Lemma all_seeded_after_setup n s :
  let x := run (init n) (setup (Some s)) in
  s_py x = Seeded s /\ s_np x = Seeded s /\ s_torch x = Seeded s /\ s_aspace x = Seeded s /\
  s_pending x = seeds_from s n /\ s_delivered x = repeat [] n.
Proof.
  cbn. rewrite repeat_length. repeat split; reflexivity.
Qed.

Lemma no_seed_nothing_seeded n :
  let x := run (init n) (setup None) in
  s_py x = Unseeded /\ s_np x = Unseeded /\ s_torch x = Unseeded /\ s_aspace x = Unseeded /\ s_pending x = repeat None n.
Proof. cbn. repeat split; reflexivity. Qed.

(* ---- deliveries ---- *)
Lemma deliver_length p logs : length (deliver p logs) = length logs.
Proof. revert logs. induction p; intros [|l lt]; cbn; try reflexivity. rewrite IHp. reflexivity. Qed.

Lemma deliver_nth : forall p logs i v l,
  nth_error p i = Some v -> nth_error logs i = Some l -> nth_error (deliver p logs) i = Some (l ++ [v]).
Proof.
  induction p; intros logs i v l Hp Hl; destruct i; cbn in Hp; try discriminate; destruct logs as [|l0 lt]; cbn in Hl; try discriminate; cbn.
  - congruence.
  - eapply IHp; eassumption.
Qed.

Lemma deliver_at_length i logs : length (deliver_at i logs) = length logs.
Proof. revert i. induction logs; intros [|i]; cbn; try reflexivity. rewrite IHlogs. reflexivity. Qed.

Lemma deliver_at_nth : forall logs i j l, nth_error logs j = Some l ->
  nth_error (deliver_at i logs) j = Some (if Nat.eqb i j then l ++ [None] else l).
Proof.
  induction logs; intros i j l Hl; destruct j; cbn in Hl; try discriminate; destruct i; cbn.
  - congruence.
  - congruence.
  - exact Hl.
  - rewrite (IHlogs i j l Hl). reflexivity.
Qed.

Lemma nth_error_repeat {A} (a : A) n i : (i < n)%nat -> nth_error (repeat a n) i = Some a.
Proof. revert i. induction n; intros i Hi; [lia|]. destruct i; cbn; [reflexivity | apply IHn; lia]. Qed.

Lemma repeat_snoc {A} (a : A) k : repeat a k ++ [a] = repeat a (S k).
Proof. induction k; cbn; [reflexivity | rewrite IHk; reflexivity]. Qed.

(* the invariant that holds from the first reset on *)
Definition delivered_once (n : nat) (s : Z) (x : st) : Prop :=
  s_pending x = repeat None n /\ length (s_delivered x) = n /\
  forall i, (i < n)%nat -> exists k, nth_error (s_delivered x) i = Some (Some (s + Z.of_nat i) :: repeat None k).

Lemma first_reset_delivers n s : delivered_once n s (run (init n) (setup (Some s) ++ [Reset])).
Proof.
  rewrite run_app. destruct (all_seeded_after_setup n s) as (_ & _ & _ & _ & Hp & Hd).
  set (x := run (init n) (setup (Some s))) in *. unfold run at 1. cbn [fold_left step].
  unfold delivered_once. cbn [s_pending s_delivered]. rewrite Hp, Hd, seeds_from_length.
  split; [reflexivity|]. split; [rewrite deliver_length, repeat_length; reflexivity|].
  intros i Hi. exists 0%nat.
  rewrite (deliver_nth _ _ i (Some (s + Z.of_nat i)) []); [reflexivity | apply seeds_from_nth; exact Hi | apply nth_error_repeat; exact Hi].
Qed.

Lemma delivered_once_step n s x o : is_reset o = true -> delivered_once n s x -> delivered_once n s (step x o).
Proof.
  intros Ho (Hp & Hl & Hd). destruct o; cbn in Ho; try discriminate; unfold delivered_once; cbn [step s_pending s_delivered].
  - (* Reset with nothing pending: every env receives None *)
    rewrite Hp, repeat_length. split; [reflexivity|]. split; [rewrite deliver_length; exact Hl|].
    intros i Hi. destruct (Hd i Hi) as [k Hk]. exists (S k).
    rewrite (deliver_nth _ _ i None _ (nth_error_repeat None n i Hi) Hk).
    f_equal. cbn [app]. f_equal. apply repeat_snoc.
  - split; [exact Hp|]. split; [rewrite deliver_at_length; exact Hl|].
    intros j Hj. destruct (Hd j Hj) as [k Hk]. rewrite (deliver_at_nth _ i j _ Hk).
    destruct (Nat.eqb i j); [exists (S k) | exists k]; [|reflexivity].
    f_equal. cbn [app]. f_equal. apply repeat_snoc.
Qed.

Lemma delivered_once_run n s later : forall x, forallb is_reset later = true -> delivered_once n s x -> delivered_once n s (run x later).
Proof.
  induction later as [|o t IH]; intros x Hr Hx; [exact Hx|].
  cbn in Hr. apply andb_prop in Hr. destruct Hr as [Ho Ht].
  change (run x (o :: t)) with (run (step x o) t). apply IH; [exact Ht|]. apply delivered_once_step; assumption.
Qed.

(* sub-env i receives s+i at the first reset and None at every later (explicit or automatic) reset *)
Lemma env_seed_once n s later i : forallb is_reset later = true -> (i < n)%nat ->
  exists k, nth_error (s_delivered (run (init n) (setup (Some s) ++ Reset :: later))) i = Some (Some (s + Z.of_nat i) :: repeat None k).
Proof.
  intros Hr Hi.
  replace (setup (Some s) ++ Reset :: later) with ((setup (Some s) ++ [Reset]) ++ later) by (rewrite <- app_assoc; reflexivity).
  rewrite run_app.
  destruct (delivered_once_run n s later _ Hr (first_reset_delivers n s)) as (_ & _ & Hd). apply Hd; exact Hi.
Qed.

(* resets never touch the global generators *)
Lemma resets_keep_globals later : forall x, forallb is_reset later = true ->
  s_py (run x later) = s_py x /\ s_np (run x later) = s_np x /\ s_torch (run x later) = s_torch x /\ s_aspace (run x later) = s_aspace x.
Proof.
  induction later as [|o t IH]; intros x Hr; [repeat split|].
  cbn in Hr. apply andb_prop in Hr. destruct Hr as [Ho Ht].
  change (run x (o :: t)) with (run (step x o) t).
  destruct (IH (step x o) Ht) as (H1 & H2 & H3 & H4). rewrite H1, H2, H3, H4.
  destruct o; cbn in Ho; try discriminate; repeat split.
Qed.

(* different seeds: every generator and every delivered seed differs; different sub-envs differ *)
Lemma seed_injective s s' i j :
  (s <> s' -> Seeded s <> Seeded s' /\ s + Z.of_nat i <> s' + Z.of_nat i) /\
  (i <> j -> s + Z.of_nat i <> s + Z.of_nat j).
Proof. split; intros H; [split|]; [congruence | lia | lia]. Qed.

(* every consumer draws from a generator that is seeded (from s) once set-up and the first reset happened *)
Lemma consumers_covered n s later c : forallb is_reset later = true ->
  match c with CEnvDynamics i => (i < n)%nat | _ => True end ->
  is_seeded (run (init n) (setup (Some s) ++ Reset :: later)) (consumer_gen c) = true.
Proof.
  intros Hr Hc.
  assert (G : let x := run (init n) (setup (Some s) ++ Reset :: later) in
              s_py x = Seeded s /\ s_np x = Seeded s /\ s_torch x = Seeded s /\ s_aspace x = Seeded s).
  { cbn zeta. rewrite run_app.
    destruct (resets_keep_globals (Reset :: later) (run (init n) (setup (Some s))) Hr) as (H1 & H2 & H3 & H4).
    rewrite H1, H2, H3, H4. destruct (all_seeded_after_setup n s) as (A1 & A2 & A3 & A4 & _). repeat split; assumption. }
  destruct G as (G1 & G2 & G3 & G4).
  unfold is_seeded. destruct c; cbn [consumer_gen gen_state]; rewrite ?G1, ?G2, ?G3, ?G4; try reflexivity.
  destruct (env_seed_once n s later i Hr Hc) as [k Hk]. rewrite Hk. reflexivity.
Qed.

(* the call-site scan: every tag that resolves to one of the seeded generators passes, any other tag fails *)
Lemma gen_of_tag_none t : t < 0 \/ 4 < t -> gen_of_tag t = None.
Proof.
  intros H. destruct t as [|p|p]; [lia| |reflexivity].
  destruct p as [[[?|?|]|[?|?|]|]|[[?|?|]|[?|?|]|]|]; cbn; try reflexivity; lia.
Qed.

Lemma scan_ok_spec n s later tags : forallb is_reset later = true -> (0 < n)%nat ->
  scan_ok (run (init n) (setup (Some s) ++ Reset :: later)) tags = forallb (fun t => (0 <=? t) && (t <=? 4)) tags.
Proof.
  intros Hr Hn. unfold scan_ok.
  assert (P : forall c, match c with CEnvDynamics i => (i < n)%nat | _ => True end ->
              is_seeded (run (init n) (setup (Some s) ++ Reset :: later)) (consumer_gen c) = true)
    by (intros c Hc; apply consumers_covered; assumption).
  assert (Py : is_seeded (run (init n) (setup (Some s) ++ Reset :: later)) GPy = true).
  { rewrite run_app.
    destruct (resets_keep_globals (Reset :: later) (run (init n) (setup (Some s))) Hr) as (E1 & _).
    unfold is_seeded, gen_state. rewrite E1.
    destruct (all_seeded_after_setup n s) as (A1 & _). rewrite A1. reflexivity. }
  induction tags as [|t ts IH]; [reflexivity|]. cbn [forallb]. rewrite IH. f_equal.
  destruct (Z_lt_dec t 0); [rewrite gen_of_tag_none by lia; lia|].
  destruct (Z_lt_dec 4 t); [rewrite gen_of_tag_none by lia; lia|].
  assert (C : t = 0 \/ t = 1 \/ t = 2 \/ t = 3 \/ t = 4) by lia.
  destruct C as [->|[->|[->|[->| ->]]]]; cbn [gen_of_tag].
  - exact Py.
  - exact (P CReplaySample I).
  - exact (P CPolicySample I).
  - exact (P CWarmupActionSample I).
  - exact (P (CEnvDynamics 0) Hn).
Qed.

(* re-seeding: whatever was (or was not) seeded at construction, set_random_seed(s) seeds everything with s *)
Lemma seeds_from_length' s n : length (seeds_from s n) = n.
Proof. apply seeds_from_length. Qed.
Lemma reseed_all_seeded n b s :
  let x := run (init n) (setup b ++ setup (Some s)) in
  s_py x = Seeded s /\ s_np x = Seeded s /\ s_torch x = Seeded s /\ s_aspace x = Seeded s /\ s_pending x = seeds_from s n.
Proof.
  destruct b as [b|]; cbn; rewrite ?seeds_from_length, ?repeat_length; repeat split; reflexivity.
Qed.

(* scan tags and consumers: the tag of a consumer's generator resolves back to a generator of the same kind *)
Lemma consumer_tag_resolves c :
  exists g, gen_of_tag (consumer_tag c) = Some g /\ tag_of_gen g = consumer_tag c /\ (0 <= consumer_tag c <= 4).
Proof.
  unfold consumer_tag. destruct (consumer_gen c) as [| | | |i]; cbn; eexists; (split; [reflexivity | split; [reflexivity | lia]]).
Qed.

(* model mutation score: the tag numbering of the scan is the inverse of gen_of_tag (all sub-envs share tag 4) *)
Lemma gen_of_tag_of_gen g : gen_of_tag (tag_of_gen g) = Some (match g with GEnv _ => GEnv 0 | _ => g end).
Proof. destruct g; reflexivity. Qed.
