From Coq Require Import List QArith Lia Setoid Morphisms.
From SB3V Require Import Lib.ListUtil Gen.Frag_gae Model.Gae.
Import ListNotations.
Local Open Scope Q_scope.

(* ---------- interface lemmas: regenerated fragments vs hand-written model ---------- *)

Lemma frag_gae_body_delta r v nv nnt g l last :
  fst (gae_body r v nv nnt g l last) == delta g {| s_r := r; s_v := v; s_nv := nv; s_nnt := nnt |}.
Proof. unfold gae_body, delta; simpl; ring. Qed.

Lemma frag_gae_body_rec r v nv nnt g l last :
  snd (gae_body r v nv nnt g l last)
  == delta g {| s_r := r; s_v := v; s_nv := nv; s_nnt := nnt |} + g * l * nnt * last.
Proof. unfold gae_body, delta; simpl; ring. Qed.

Lemma frag_gae_store x : gae_store x == x.
Proof. unfold gae_store; reflexivity. Qed.

Lemma frag_gae_returns a v : gae_returns a v == a + v.
Proof. unfold gae_returns; ring. Qed.

Lemma frag_gae_next step bs d lv es vn :
  Qeq (fst (gae_next step bs d lv es vn)) (fst (next_spec step bs d lv es vn)) /\
  Qeq (snd (gae_next step bs d lv es vn)) (snd (next_spec step bs d lv es vn)).
Proof.
  unfold gae_next, next_spec.
  replace (Z.sub bs 1%Z) with (bs - 1)%Z by reflexivity.
  destruct (Z.eqb step (bs - 1)); simpl; split; ring.
Qed.

(* the loop written with the regenerated fragments *)
Fixpoint gae_gen (g l : Q) (steps : list stp) : list Q :=
  match steps with
  | [] => []
  | s :: rest =>
      let advs := gae_gen g l rest in
      gae_store (snd (gae_body (s_r s) (s_v s) (s_nv s) (s_nnt s) g l (hd 0 advs))) :: advs
  end.

Lemma hd_Forall2_Qeq (a b : list Q) : Forall2 Qeq a b -> hd 0 a == hd 0 b.
Proof. intros H; destruct H; simpl; [reflexivity | assumption]. Qed.

Lemma gae_gen_code g l steps : Forall2 Qeq (gae_gen g l steps) (gae_code g l steps).
Proof.
  induction steps as [|s rest IH]; simpl; [constructor|].
  constructor; [|exact IH].
  destruct s as [r v nv nnt]; cbn [s_r s_v s_nv s_nnt].
  etransitivity; [apply frag_gae_store|].
  etransitivity; [apply frag_gae_body_rec|].
  pose proof (hd_Forall2_Qeq _ _ IH) as Hh. cbn [s_nnt]. rewrite Hh. reflexivity.
Qed.

Lemma gae_exec_code g l steps : Forall2 Qeq (gae_exec g l steps) (gae_code g l steps).
Proof.
  induction steps as [|s rest IH]; cbn [gae_exec gae_code]; [constructor|].
  constructor; [|exact IH].
  etransitivity; [apply Qred_correct|].
  pose proof (hd_Forall2_Qeq _ _ IH) as Hh. rewrite Hh. reflexivity.
Qed.

(* ---------- the recursion equals the discounted-sum definition ---------- *)

Lemma qsum_ext f h n : (forall k, (k < n)%nat -> f k == h k) -> qsum f n == qsum h n.
Proof.
  induction n as [|n IH]; intros H; simpl; [reflexivity|].
  rewrite IH by (intros; apply H; lia). rewrite H by lia. reflexivity.
Qed.

Lemma qsum_scale c f n : qsum (fun k => c * f k) n == c * qsum f n.
Proof. induction n as [|n IH]; simpl; [ring|]. rewrite IH; ring. Qed.

Lemma qsum_shift f n : qsum f (S n) == f O + qsum (fun k => f (S k)) n.
Proof.
  induction n as [|n IH]; [simpl; ring|].
  change (qsum f (S (S n))) with (qsum f (S n) + f (S n)).
  rewrite IH. simpl. ring.
Qed.

Lemma adv_term_succ g l s rest k :
  adv_term g l (s :: rest) (S k) == g * l * s_nnt s * adv_term g l rest k.
Proof. unfold adv_term; simpl. ring. Qed.

Lemma adv_def_cons g l s rest :
  adv_def g l (s :: rest) == delta g s + g * l * s_nnt s * adv_def g l rest.
Proof.
  unfold adv_def. simpl length. rewrite qsum_shift.
  rewrite (qsum_ext _ (fun k => (g * l * s_nnt s) * adv_term g l rest k))
    by (intros; apply adv_term_succ).
  rewrite qsum_scale. unfold adv_term at 1; simpl. ring.
Qed.

Lemma gae_code_hd g l steps : hd 0 (gae_code g l steps) == adv_def g l steps.
Proof.
  induction steps as [|s rest IH].
  - reflexivity.
  - cbn [gae_code hd]. rewrite adv_def_cons, IH. reflexivity.
Qed.

Lemma gae_code_skipn g l t steps : skipn t (gae_code g l steps) = gae_code g l (skipn t steps).
Proof.
  revert steps; induction t as [|t IH]; intros steps; [reflexivity|].
  destruct steps as [|s rest]; [reflexivity|]. cbn [gae_code skipn]. apply IH.
Qed.

Lemma gae_code_length g l steps : length (gae_code g l steps) = length steps.
Proof. induction steps; simpl; congruence. Qed.

(* C05 headline: for every horizon, every step t, the value the backward loop
   stores equals the discounted sum of deltas cut by the non-terminal flags. *)
Theorem gae_code_is_def g l steps t :
  nth t (gae_code g l steps) 0 == adv_def g l (skipn t steps).
Proof.
  rewrite <- hd_skipn_nth, gae_code_skipn. apply gae_code_hd.
Qed.

Theorem gae_gen_is_def g l steps t :
  nth t (gae_gen g l steps) 0 == adv_def g l (skipn t steps).
Proof.
  rewrite <- gae_code_is_def.
  pose proof (gae_gen_code g l steps) as H.
  revert t; induction H as [|x y a b Hxy _ IH]; intros t; destruct t; simpl; try reflexivity; auto.
Qed.

(* cut at an episode boundary: nothing after the boundary matters *)
Theorem gae_cut_at_boundary g l s rest rest' :
  s_nnt s == 0 ->
  hd 0 (gae_code g l (s :: rest)) == hd 0 (gae_code g l (s :: rest')) /\
  hd 0 (gae_code g l (s :: rest)) == s_r s - s_v s.
Proof.
  intros H. cbn [gae_code hd]. unfold delta. rewrite H. split; ring.
Qed.

(* bootstrap: the last step uses last_values exactly when the final done is 0 *)
Theorem gae_last_step g l r v lastv d :
  hd 0 (gae_code g l (mk_col [r] [v] [0] lastv d)) == r + g * lastv * (1 - d) - v.
Proof. simpl. unfold delta; simpl. ring. Qed.

Lemma mk_col_last_nnt rs vs es lastv d :
  length rs = length vs -> length vs = length es -> rs <> [] ->
  exists s, nth_error (mk_col rs vs es lastv d) (length rs - 1) = Some s /\
            s_nv s = lastv /\ s_nnt s = 1 - d.
Proof.
  revert vs es; induction rs as [|r rs IH]; intros vs es H1 H2 Hne; [congruence|].
  destruct vs as [|v vs]; [discriminate|]. destruct es as [|e es]; [discriminate|].
  simpl in H1, H2. cbn [mk_col].
  destruct vs as [|v' vs]; destruct es as [|e' es]; try discriminate.
  - destruct rs; [|discriminate]. simpl. eexists; repeat split; reflexivity.
  - destruct rs as [|r' rs]; [discriminate|].
    destruct (IH (v' :: vs) (e' :: es)) as [s [Hs Hs2]]; try (simpl in *; lia); [congruence|].
    exists s. split; [|exact Hs2].
    replace (length (r :: r' :: rs) - 1)%nat with (S (length (r' :: rs) - 1)) by (simpl; lia).
    exact Hs.
Qed.

Lemma mk_col_inner rs vs es lastv d t r v v' e e' :
  nth_error rs t = Some r -> nth_error vs t = Some v -> nth_error es t = Some e ->
  nth_error vs (S t) = Some v' -> nth_error es (S t) = Some e' ->
  nth_error (mk_col rs vs es lastv d) t
  = Some {| s_r := r; s_v := v; s_nv := v'; s_nnt := 1 - e' |}.
Proof.
  revert rs vs es; induction t as [|t IH]; intros rs vs es Hr Hv He Hv' He'.
  - destruct rs, vs, es; try discriminate. simpl in *.
    destruct vs, es; try discriminate. simpl in *. congruence.
  - destruct rs as [|r0 rs], vs as [|v0 vs], es as [|e0 es]; try discriminate.
    cbn [mk_col]. cbn [nth_error] in Hr, Hv, He.
    destruct vs as [|v1 vs]; [destruct t; discriminate|].
    destruct es as [|e1 es]; [destruct t; discriminate|].
    cbn [nth_error]. apply IH; assumption.
Qed.

(* returns = advantages + values, cell by cell *)
Theorem returns_def advs vals t a v :
  nth_error advs t = Some a -> nth_error vals t = Some v ->
  nth_error (returns_of advs vals) t = Some (a + v).
Proof.
  unfold returns_of. revert advs vals; induction t as [|t IH]; intros [|x advs] [|y vals] Ha Hv;
    try discriminate; simpl in *.
  - congruence.
  - apply IH; assumption.
Qed.

(* ---------- environments do not influence each other ---------- *)

Lemma map2_length {A B C} (f : A -> B -> C) a b : length (map2 f a b) = Nat.min (length a) (length b).
Proof. revert b; induction a as [|x a IH]; intros [|y b]; simpl; try reflexivity. now rewrite IH. Qed.

Lemma nth_map2 {A B C} (f : A -> B -> C) a b e da db dc :
  (e < length a)%nat -> (e < length b)%nat -> nth e (map2 f a b) dc = f (nth e a da) (nth e b db).
Proof.
  revert a b; induction e as [|e IH]; intros [|x a] [|y b] Ha Hb; simpl in *; try lia; [reflexivity|].
  apply IH; lia.
Qed.

Lemma gae_rows_lengths g l n rows :
  Forall (fun row => length row = n) rows ->
  Forall (fun row => length row = n) (gae_rows g l n rows).
Proof.
  induction rows as [|row rest IH]; intros H; simpl; [constructor|].
  inversion H as [|? ? Hrow Hrest]; subst. specialize (IH Hrest).
  constructor; [|exact IH].
  rewrite map2_length.
  destruct IH; simpl; [rewrite repeat_length|]; lia.
Qed.

(* column e of the vectorised (row-wise) computation = the scalar loop on column e alone *)
Theorem gae_env_independent g l n rows e ds :
  Forall (fun row => length row = n) rows -> (e < n)%nat ->
  column e 0 (gae_rows g l n rows) = gae_code g l (column e ds rows).
Proof.
  intros H He. induction rows as [|row rest IH]; [reflexivity|].
  inversion H as [|? ? Hrow Hrest]; subst. specialize (IH Hrest).
  pose proof (gae_rows_lengths g l _ _ Hrest) as Hl.
  cbn [gae_rows column map gae_code]. fold (column e 0 (gae_rows g l (length row) rest)).
  fold (column e ds rest). rewrite IH. f_equal.
  rewrite (nth_map2 _ _ _ _ ds 0).
  - f_equal. f_equal. rewrite <- IH.
    destruct Hl as [|r0 rs Hr0 Hrs]; simpl; [|reflexivity].
    clear -He. revert He; generalize (length row); induction e; intros [|m] He; simpl; try lia; auto.
    apply IHe; lia.
  - exact He.
  - destruct Hl; simpl; [rewrite repeat_length|]; lia.
Qed.

(* ---------- the column builder agrees with the index-based branch of the code ---------- *)
Lemma mk_col_nth lastv d : forall t rs vs es,
  length rs = length vs -> length vs = length es -> (t < length rs)%nat ->
  nth_error (mk_col rs vs es lastv d) t =
  Some {| s_r := nth t rs 0; s_v := nth t vs 0;
          s_nv := if (S t <? length rs)%nat then nth (S t) vs 0 else lastv;
          s_nnt := if (S t <? length rs)%nat then 1 - nth (S t) es 0 else 1 - d |}.
Proof.
  induction t as [|t IH]; intros rs vs es H1 H2 Ht.
  - destruct rs as [|r rs]; [simpl in Ht; lia|]. destruct vs as [|v vs]; [discriminate|].
    destruct es as [|e es]; [discriminate|]. cbn [mk_col].
    destruct vs as [|v' vs]; destruct es as [|e' es]; simpl in H1, H2; try discriminate.
    + destruct rs; [reflexivity | discriminate].
    + destruct rs as [|r' rs]; [discriminate|]. reflexivity.
  - destruct rs as [|r rs]; [simpl in Ht; lia|]. destruct vs as [|v vs]; [discriminate|].
    destruct es as [|e es]; [discriminate|]. cbn [mk_col].
    destruct vs as [|v' vs]; destruct es as [|e' es]; simpl in H1, H2; try discriminate.
    + destruct rs; [simpl in Ht; lia | discriminate].
    + destruct rs as [|r' rs]; [discriminate|].
      cbn [nth_error]. rewrite IH; try (simpl in *; lia).
      cbn [nth length]. reflexivity.
Qed.

(* position t of the column the loop consumes carries exactly what the (regenerated) branch
   `if step == buffer_size - 1` selects: last_values / final dones for the last step,
   values[t+1] / episode_starts[t+1] otherwise *)
Theorem mk_col_matches_next_spec rs vs es lastv d t :
  length rs = length vs -> length vs = length es -> (t < length rs)%nat ->
  exists s, nth_error (mk_col rs vs es lastv d) t = Some s /\
    s_r s = nth t rs 0 /\ s_v s = nth t vs 0 /\
    (s_nnt s, s_nv s) = next_spec (Z.of_nat t) (Z.of_nat (length rs)) d lastv (nth (S t) es 0) (nth (S t) vs 0).
Proof.
  intros H1 H2 Ht. eexists. split; [apply mk_col_nth; assumption|]. cbn [s_r s_v s_nv s_nnt].
  split; [reflexivity|]. split; [reflexivity|]. unfold next_spec.
  destruct (Nat.ltb_spec (S t) (length rs)) as [Hlt|Hge].
  - destruct (Z.eqb_spec (Z.of_nat t) (Z.of_nat (length rs) - 1)) as [E|_]; [lia | reflexivity].
  - destruct (Z.eqb_spec (Z.of_nat t) (Z.of_nat (length rs) - 1)) as [_|E]; [reflexivity | lia].
Qed.
