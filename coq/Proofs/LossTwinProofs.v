(* C07 - the batch twins used by the correspondence, component by component: every entry of the lists
   they return is the scalar helper applied to the corresponding inputs (Q level), and every scalar
   helper computes the real-valued definition of Model/Loss*.v (Q2R transfer). *)
From Coq Require Import Reals QArith Qreals Qminmax Qabs List Lra Lia.
From SB3V Require Import Model.LossCommon Model.LossPPO Model.LossA2C Model.LossDQN Model.LossSAC Model.LossTD3 Proofs.LossFragProofs.
Import ListNotations.

Local Open Scope Q_scope.
(* ---------- lists ---------- *)
Lemma qmap2_nth f : forall l l' i, (i < length l)%nat -> (i < length l')%nat ->
  nth i (qmap2 f l l') 0 == f (nth i l 0) (nth i l' 0).
Proof.
  induction l as [|a t IH]; intros [|b t'] i H1 H2; cbn in H1, H2; try lia.
  destruct i; cbn [qmap2 nth]; [apply Qred_correct | apply IH; lia].
Qed.
Lemma qmap3_nth f : forall l1 l2 l3 i, (i < length l1)%nat -> (i < length l2)%nat -> (i < length l3)%nat ->
  nth i (qmap3 f l1 l2 l3) 0 == f (nth i l1 0) (nth i l2 0) (nth i l3 0).
Proof.
  induction l1 as [|a t IH]; intros [|b t2] [|c t3] i H1 H2 H3; cbn in H1, H2, H3; try lia.
  destruct i; cbn [qmap3 nth]; [apply Qred_correct | apply IH; lia].
Qed.

(* ---------- which scalar each component of a batch twin is ---------- *)
Lemma ppo_batch_components c cv ec vc he advs ratios rets oldvs vs ents i :
  (i < length advs)%nat -> (i < length ratios)%nat -> (i < length rets)%nat -> (i < length oldvs)%nat -> (i < length vs)%nat ->
  let R := ppo_batch_Q c cv ec vc he advs ratios rets oldvs vs ents in
  nth i (fst (snd R)) 0 == (ppo_surr_grad_Q (nth i advs 0) c (nth i ratios 0) * nth i ratios 0 + (if he then 0 else ec)) / qlen advs /\
  nth i (fst (snd (snd R))) 0 == vc * ppo_value_grad_Q cv (nth i rets 0) (nth i oldvs 0) (nth i vs 0) / qlen advs /\
  snd (snd (snd R)) == - ec / qlen advs.
Proof.
  intros H1 H2 H3 H4 H5. cbn zeta. unfold ppo_batch_Q. cbn [fst snd]. split; [|split].
  - rewrite (qmap2_nth _ advs ratios i H1 H2). reflexivity.
  - rewrite (qmap3_nth _ rets oldvs vs i H3 H4 H5). reflexivity.
  - apply Qred_correct.
Qed.

Lemma nth_map_Q (f : Q -> Q) l i : (i < length l)%nat -> nth i (map f l) 0 = f (nth i l 0).
Proof. revert i. induction l; intros [|i] H; cbn in *; try lia; [reflexivity | apply IHl; lia]. Qed.

Lemma a2c_batch_components ec vc he advs lps rets vs ents i :
  (i < length advs)%nat -> (i < length rets)%nat -> (i < length vs)%nat ->
  let R := a2c_batch_Q ec vc he advs lps rets vs ents in
  nth i (fst (snd R)) 0 == (- nth i advs 0 + (if he then 0 else ec)) / qlen advs /\
  nth i (fst (snd (snd R))) 0 == vc * 2 * (nth i vs 0 - nth i rets 0) / qlen advs /\
  snd (snd (snd R)) == - ec / qlen advs.
Proof.
  intros H1 H2 H3. cbn zeta. unfold a2c_batch_Q. cbn [fst snd]. split; [|split].
  - rewrite (nth_map_Q _ advs i H1). apply Qred_correct.
  - rewrite (qmap2_nth _ rets vs i H2 H3). reflexivity.
  - apply Qred_correct.
Qed.

Lemma dqn_batch_components gamma rs ds rows qs i :
  let R := dqn_batch_Q gamma rs ds rows qs in
  (i < length qs)%nat -> (i < length (fst R))%nat ->
  nth i (snd (snd R)) 0 == huber_grad_Q (nth i qs 0 - nth i (fst R) 0) / qlen qs /\
  fst (snd R) = qmean (qmap2 (fun q y => huber_Q (q - y)) qs (fst R)).
Proof.
  cbn zeta. unfold dqn_batch_Q. cbn [fst snd]. intros H1 H2. split; [|reflexivity].
  rewrite (qmap2_nth _ qs _ i H1 H2). reflexivity.
Qed.

Lemma critic_components ys qs i : (i < length qs)%nat -> (i < length ys)%nat ->
  nth i (qmap2 (fun q y => (q - y) / qlen ys) qs ys) 0 == (nth i qs 0 - nth i ys 0) / qlen ys /\
  nth i (qmap2 (fun q y => 2 * (q - y) / qlen ys) qs ys) 0 == 2 * (nth i qs 0 - nth i ys 0) / qlen ys.
Proof. intros H1 H2. split; rewrite (qmap2_nth _ qs ys i H1 H2); reflexivity. Qed.

Lemma critic_twins_unfold ys qcols :
  snd (sac_critic_Q ys qcols) = map (fun qs => qmap2 (fun q y => (q - y) / qlen ys) qs ys) qcols /\
  snd (td3_critic_Q ys qcols) = map (fun qs => qmap2 (fun q y => 2 * (q - y) / qlen ys) qs ys) qcols.
Proof. split; reflexivity. Qed.

Lemma actor_temp_twins alpha lps rows la H q1s i : (i < length lps)%nat -> (i < length q1s)%nat ->
  nth i (fst (snd (sac_actor_Q alpha lps rows))) 0 == alpha / qlen lps /\
  fst (sac_temp_Q la H lps) == - (la * qmean (map (fun lp => lp + H) lps)) /\
  snd (sac_temp_Q la H lps) == - qmean (map (fun lp => lp + H) lps) /\
  nth i (snd (td3_actor_Q q1s)) 0 == - (1) / qlen q1s /\ fst (td3_actor_Q q1s) == - qmean q1s.
Proof.
  intros H1 H2. unfold sac_actor_Q, sac_temp_Q, td3_actor_Q. cbn [fst snd]. repeat split.
  - rewrite (nth_map_Q _ lps i H1). apply Qred_correct.
  - apply Qred_correct.
  - apply Qred_correct.
  - rewrite (nth_map_Q _ q1s i H2). apply Qred_correct.
  - apply Qred_correct.
Qed.

(* ---------- scalar helpers compute the real-valued definitions ---------- *)
Local Open Scope R_scope.

Lemma Q2R_abs x : Q2R (Qabs x) = Rabs (Q2R x).
Proof.
  apply Qabs_case; intros H.
  - apply Qle_Rle in H. rewrite Q2R_0 in H. rewrite Rabs_right; [reflexivity | lra].
  - apply Qle_Rle in H. rewrite Q2R_0 in H. rewrite Q2R_opp. rewrite Rabs_left1; [reflexivity | exact H].
Qed.

Lemma qlt_Rlt_dec a b (A : Type) (x y : A) :
  (if qlt a b then x else y) = (if Rlt_dec (Q2R a) (Q2R b) then x else y).
Proof.
  unfold qlt. destruct (Qle_bool b a) eqn:E; cbn [negb]; destruct (Rlt_dec (Q2R a) (Q2R b)) as [H|H]; try reflexivity; exfalso.
  - apply Qle_bool_iff in E. apply Qle_Rle in E. lra.
  - apply H. destruct (Rlt_le_dec (Q2R a) (Q2R b)) as [|Hle]; [assumption|].
    apply Rle_Qle in Hle. apply Qle_bool_iff in Hle. congruence.
Qed.

Lemma huber_Q_R x : Q2R (huber_Q x) = huber (Q2R x).
Proof.
  unfold huber_Q, huber.
  rewrite (qlt_Rlt_dec (Qabs x) 1 Q (x * x / 2)%Q (Qabs x - (1 # 2))%Q). rewrite Q2R_abs, Q2R_1.
  destruct (Rlt_dec (Rabs (Q2R x)) 1).
  - rewrite Q2R_div by discriminate. rewrite Q2R_mult. replace (Q2R 2) with 2 by (unfold Q2R; cbn; lra). cbn [pow]. lra.
  - rewrite Q2R_minus, Q2R_abs. replace (Q2R (1 # 2)) with (1 / 2) by (unfold Q2R; cbn; lra). reflexivity.
Qed.

Definition optR (o : option Q) : option R := match o with Some q => Some (Q2R q) | None => None end.

Lemma ppo_value_pred_Q_R cv o v : Q2R (ppo_value_pred_Q cv o v) = ppo_value_pred (optR cv) (Q2R o) (Q2R v).
Proof.
  destruct cv as [c|]; cbn [ppo_value_pred_Q ppo_value_pred optR]; [|reflexivity].
  rewrite Q2R_plus, Q2R_clamp, Q2R_opp, Q2R_minus. reflexivity.
Qed.

Lemma ppo_value_grad_Q_R cv ret o v : Q2R (ppo_value_grad_Q cv ret o v) = ppo_value_grad (optR cv) (Q2R ret) (Q2R o) (Q2R v).
Proof.
  assert (E2 : Q2R 2 = 2) by (unfold Q2R; cbn; lra).
  destruct cv as [c|]; cbn [ppo_value_grad_Q ppo_value_grad optR].
  - rewrite (qlt_Rlt_dec (Qabs (v - o)) c Q (2 * (v - ret))%Q 0%Q). rewrite Q2R_abs, Q2R_minus.
    destruct (Rlt_dec _ _); [rewrite Q2R_mult, Q2R_minus, E2; reflexivity | apply Q2R_0].
  - rewrite Q2R_mult, Q2R_minus, E2. reflexivity.
Qed.

(* one gradient component of each batch twin, as a real number *)
Lemma component_values A c r e n q y :
  ~ (n == 0)%Q ->
  Q2R ((ppo_surr_grad_Q A c r * r + e) / n) = (ppo_surr_grad (Q2R A) (Q2R c) (Q2R r) * Q2R r + Q2R e) / Q2R n /\
  Q2R (huber_grad_Q (q - y) / n) = huber_grad (Q2R q - Q2R y) / Q2R n /\
  Q2R ((q - y) / n) = (Q2R q - Q2R y) / Q2R n.
Proof.
  intros Hn. repeat split.
  - rewrite Q2R_div by exact Hn. rewrite Q2R_plus, Q2R_mult, ppo_surr_grad_Q_R. reflexivity.
  - rewrite Q2R_div by exact Hn. rewrite huber_grad_Q_R, Q2R_minus. reflexivity.
  - rewrite Q2R_div by exact Hn. rewrite Q2R_minus. reflexivity.
Qed.

(* ---------- model mutation score: the remaining Q helpers are pinned to closed forms / R definitions ---------- *)
Lemma qsum_R l : Q2R (qsum l) = LossCommon.sumR (map Q2R l).
Proof.
  unfold qsum, LossCommon.sumR. induction l as [|a t IH]; cbn [fold_right map]; [apply Q2R_0|].
  rewrite (Qeq_eqR _ _ (Qred_correct _)), Q2R_plus, IH. reflexivity.
Qed.

Lemma qlen_R (l : list Q) : Q2R (qlen l) = INR (length l).
Proof. unfold qlen, Q2R. cbn. rewrite Rinv_1, Rmult_1_r. rewrite <- INR_IZR_INZ. reflexivity. Qed.

Lemma qmean_R l : l <> [] -> Q2R (qmean l) = meanR (map Q2R l).
Proof.
  intros H. unfold qmean, meanR. rewrite (Qeq_eqR _ _ (Qred_correct _)).
  assert (Hn : ~ (qlen l == 0)%Q).
  { unfold qlen. destruct l; [congruence|]. cbn [length]. unfold Qeq. cbn. lia. }
  rewrite Q2R_div by exact Hn. rewrite qsum_R, qlen_R, map_length. reflexivity.
Qed.

Local Open Scope Q_scope.
(* progress_remaining and the scheduled learning rate *)
Lemma progress_lr_spec n total lr0 :
  progress_Q n total == Qmax 0 (1 - n / total) /\
  lr_Q true lr0 n total == lr0 * Qmax 0 (1 - n / total) /\ lr_Q false lr0 n total == lr0 /\
  clipped_Q lr0 n total == clip_coef_Q lr0 n * total.
Proof. unfold lr_Q, progress_Q, clipped_Q. repeat split; reflexivity. Qed.

Example progress_lr_examples :
  progress_Q 5 20 == 3 # 4 /\ progress_Q 30 20 == 0 /\ progress_Q 0 20 == 1 /\
  lr_Q true (1 # 1000) 5 20 == 3 # 4000 /\ lr_Q false (1 # 1000) 5 20 == 1 # 1000 /\
  qsum [1; 2; 3 # 2] == 9 # 2 /\ qmean [1; 2; 3] == 2.
Proof. vm_compute. repeat split; reflexivity. Qed.

(* loss VALUES of the batch twins, with the per-sample term spelled out *)
Lemma twin_loss_values ys qcols alpha lps rows gamma rs ds nrows qs :
  fst (sac_critic_Q ys qcols) == (1 # 2) * qsum (map (fun col => qmean (qmap2 (fun q y => (q - y) * (q - y)) col ys)) qcols) /\
  fst (td3_critic_Q ys qcols) == qsum (map (fun col => qmean (qmap2 (fun q y => (q - y) * (q - y)) col ys)) qcols) /\
  fst (sac_actor_Q alpha lps rows) == qmean (qmap2 (fun lp m => alpha * lp - m) lps (map qmin_list rows)) /\
  fst (snd (dqn_batch_Q gamma rs ds nrows qs)) == qmean (qmap2 (fun q y => huber_Q (q - y)) qs (fst (dqn_batch_Q gamma rs ds nrows qs))).
Proof.
  unfold sac_critic_Q, td3_critic_Q, sac_actor_Q, dqn_batch_Q. cbn [fst snd]. repeat split; try reflexivity.
  apply Qred_correct.
Qed.

(* argmin mask: 1 at the first entry equal to the minimum, 0 elsewhere; nothing once found *)
Lemma argmin_mask_found m row : argmin_mask m row true = map (fun _ => 0) row.
Proof. induction row as [|x t IH]; cbn [argmin_mask map negb andb]; [reflexivity | rewrite IH; reflexivity]. Qed.

Example argmin_mask_examples :
  argmin_mask 2 [3; 2; 2; 5] false = [0; 1; 0; 0] /\ argmin_mask 7 [7] false = [1] /\
  snd (snd (sac_actor_Q (1 # 2) [1; 1] [[3; 2]; [1; 4]])) = [[0; -(1 # 2)]; [-(1 # 2); 0]] /\
  fst (sac_actor_Q (1 # 2) [1; 3] [[3; 2]; [1; 4]]) == -(1 # 2) /\
  fst (sac_critic_Q [1; 2] [[2; 4]; [1; 2]]) == 5 # 4 /\ fst (td3_critic_Q [1; 2] [[2; 4]; [1; 2]]) == 5 # 2 /\
  snd (sac_critic_Q [1; 2] [[2; 4]]) = [[1 # 2; 1]].
Proof. vm_compute. repeat split; reflexivity. Qed.

Lemma sac_learned_spec a i : sac_learned (EntFixed a) = false /\ sac_learned (EntAuto i) = true.
Proof. split; reflexivity. Qed.

Local Open Scope R_scope.
(* the per-sample squared error of the critic twins is the model's sq_err; the actor term is the model's actor term *)
Lemma critic_actor_terms_R q y alpha lp m :
  Q2R ((q - y) * (q - y)) = sq_err (Q2R y) (Q2R q) /\
  Q2R ((1 # 2) * ((q - y) * (q - y))) = sac_critic_term (Q2R y) (Q2R q) /\
  Q2R ((q - y) * (q - y)) = td3_critic_term (Q2R y) (Q2R q) /\
  Q2R (alpha * lp - m) = Q2R alpha * Q2R lp - Q2R m.
Proof.
  unfold sac_critic_term, td3_critic_term, sq_err.
  rewrite !Q2R_mult, !Q2R_minus, Q2R_mult. replace (Q2R (1 # 2)) with (1 / 2) by (unfold Q2R; cbn; lra).
  repeat split; cbn [pow]; lra.
Qed.

(* second mutation sample: the unbiased variance used to tie the advantage standard deviation *)
Local Open Scope Q_scope.
Lemma adv_var_spec advs :
  adv_var_Q advs == qsum (map (fun a => (a - qmean advs) * (a - qmean advs)) advs) / (qlen advs - 1).
Proof. unfold adv_var_Q. apply Qred_correct. Qed.
Example adv_var_examples : adv_var_Q [1; 2; 3] == 1 /\ adv_var_Q [2; 2; 5; 7] == 6 /\ adv_norm_Q [1; 3] 1 = [Qred ((1 - 2) / (1 + (1 # 100000000))); Qred ((3 - 2) / (1 + (1 # 100000000)))].
Proof. vm_compute. repeat split; reflexivity. Qed.
Local Open Scope R_scope.
