(* C01 - proofs about Model/VecEnv.v: projection (no cross-talk), auto-reset contract,
   seed/options delivery; interface lemmas to the fragments regenerated from
   dummy_vec_env.py / subproc_vec_env.py. *)
From SB3V Require Import Lib.Tactics Model.Script Model.VecEnv Gen.Frag_vecenv Gen.Frag_seed.
Local Open Scope nat_scope.

(* ---------- interface lemmas: regenerated fragments = model formulas ---------- *)
Lemma frag_dummy_done : forall t tr, dummy_done t tr = (t || tr).
Proof. intros [] []; reflexivity. Qed.
Lemma frag_dummy_timelimit : forall t tr, dummy_timelimit t tr = (tr && negb t).
Proof. intros [] []; reflexivity. Qed.
Lemma frag_dummy_guard : forall d t tr, dummy_autoreset_guard d t tr = d.
Proof. intros [] [] []; reflexivity. Qed.
Lemma frag_worker_done : forall t tr, worker_done t tr = (t || tr).
Proof. intros [] []; reflexivity. Qed.
Lemma frag_worker_timelimit : forall t tr, worker_timelimit t tr = (tr && negb t).
Proof. intros [] []; reflexivity. Qed.
Lemma frag_worker_guard : forall d t tr, worker_autoreset_guard d t tr = d.
Proof. intros [] [] []; reflexivity. Qed.

(* VecEnv.seed: self._seeds = [seed + idx for idx in range(self.num_envs)] - the element expression, regenerated (group seed) *)
Lemma frag_vec_seed : forall s idx, seed_vecenv_elt s idx = (s + idx)%Z.
Proof. intros. unfold seed_vecenv_elt. lia. Qed.

(* generic list facts *)
Lemma nth_error_repeat_lt {X} (x : X) n i : i < n -> nth_error (repeat x n) i = Some x.
Proof.
  revert i; induction n as [|n IH]; intros i H; [lia|].
  destruct i; simpl; [reflexivity|apply IH; lia].
Qed.

Lemma nth_error_seq0 n i : i < n -> nth_error (seq 0 n) i = Some i.
Proof.
  intros H. rewrite (nth_error_nth' (seq 0 n) 0) by (rewrite seq_length; exact H).
  rewrite seq_nth by exact H. reflexivity.
Qed.

Section Proofs.
Context {E O A I Opt : Type}.
Variable e_step : E -> A -> E * (O * Z * bool * bool * I).
Variable e_reset : E -> option Z -> option Opt -> E * (O * I).

Notation sub_step := (sub_step e_step e_reset).
Notation sub_step_with := (sub_step_with e_step e_reset).
Notation sub_reset := (sub_reset (A:=A) e_reset).
Notation step_loop := (step_loop e_step e_reset).
Notation reset_loop := (reset_loop (A:=A) e_reset).
Notation sapply := (sapply e_step e_reset).
Notation srun := (srun e_step e_reset).
Notation sfinal := (sfinal e_step e_reset).
Notation vapply := (vapply e_step e_reset).
Notation vrun := (vrun e_step e_reset).

(* the loop body assembled from the regenerated fragments is the model's loop body *)
Lemma sub_step_dummy_fragments : forall e ri a,
  sub_step_with dummy_done dummy_timelimit dummy_autoreset_guard e ri a = sub_step e ri a.
Proof.
  intros e ri a. unfold VecEnv.sub_step_with, VecEnv.sub_step.
  destruct (e_step e a) as [e1 [[[[obs r] term] trunc] info]].
  rewrite frag_dummy_done, frag_dummy_timelimit, frag_dummy_guard. reflexivity.
Qed.

Lemma sub_step_worker_fragments : forall e ri a,
  sub_step_with worker_done worker_timelimit worker_autoreset_guard e ri a = sub_step e ri a.
Proof.
  intros e ri a. unfold VecEnv.sub_step_with, VecEnv.sub_step.
  destruct (e_step e a) as [e1 [[[[obs r] term] trunc] info]].
  rewrite frag_worker_done, frag_worker_timelimit, frag_worker_guard. reflexivity.
Qed.

(* ---------- auto-reset contract of the loop body, generic sub-environment ---------- *)
Lemma sub_step_contract : forall e ri a e1 obs r term trunc info e' ri' o c,
  e_step e a = (e1, (obs, r, term, trunc, info)) ->
  sub_step e ri a = (e', ri', o, c) ->
  so_rew o = r /\ so_info o = info /\ so_done o = (term || trunc) /\ so_tl o = (trunc && negb term) /\
  ((term || trunc) = true ->
     exists obs2 ri2, e_reset e1 None None = (e', (obs2, ri2)) /\ so_obs o = obs2 /\
       so_term o = Some obs /\ ri' = Some ri2 /\ c = [CStep a; CReset None None]) /\
  ((term || trunc) = false ->
     e' = e1 /\ so_obs o = obs /\ so_term o = None /\ ri' = ri /\ c = [CStep a]).
Proof.
  intros e ri a e1 obs r term trunc info e' ri' o c Hs H.
  unfold VecEnv.sub_step in H. rewrite Hs in H.
  destruct (term || trunc) eqn:D.
  - destruct (e_reset e1 None None) as [e2 [obs2 ri2]] eqn:R. inv H. cbn.
    split; [reflexivity|]. split; [reflexivity|]. split; [reflexivity|]. split; [reflexivity|].
    split; [|discriminate].
    intros _. exists obs2, ri2. repeat split; reflexivity.
  - inv H. cbn.
    split; [reflexivity|]. split; [reflexivity|]. split; [reflexivity|]. split; [reflexivity|].
    split; [discriminate|]. intros _. repeat split; reflexivity.
Qed.

(* ---------- the loops act component-wise ---------- *)
Lemma step_loop_nth : forall envs ris acts i e ri a es rs os cs,
  step_loop envs ris acts = (es, rs, os, cs) ->
  nth_error envs i = Some e -> nth_error ris i = Some ri -> nth_error acts i = Some a ->
  nth_error es i = Some (fst (fst (fst (sub_step e ri a)))) /\
  nth_error rs i = Some (snd (fst (fst (sub_step e ri a)))) /\
  nth_error os i = Some (snd (fst (sub_step e ri a))) /\
  nth_error cs i = Some (snd (sub_step e ri a)).
Proof.
  induction envs as [|e0 envs IH]; intros ris acts i e ri a es rs os cs H He Hr Ha.
  - destruct i; discriminate.
  - destruct ris as [|r0 ris]; [destruct i; discriminate|].
    destruct acts as [|a0 acts]; [destruct i; discriminate|].
    cbn [VecEnv.step_loop] in H.
    destruct (sub_step e0 r0 a0) as [[[e0' r0'] o0] c0] eqn:S0.
    destruct (step_loop envs ris acts) as [[[es' rs'] os'] cs'] eqn:L.
    inv H. destruct i as [|i].
    + cbn in He, Hr, Ha. inv He. inv Hr. inv Ha. rewrite S0. cbn. repeat split; reflexivity.
    + cbn in He, Hr, Ha. cbn [nth_error]. eapply IH; eauto.
Qed.

Lemma reset_loop_nth : forall envs seeds opts i e s o es rs os cs,
  reset_loop envs seeds opts = (es, rs, os, cs) ->
  nth_error envs i = Some e -> nth_error seeds i = Some s -> nth_error opts i = Some o ->
  nth_error es i = Some (fst (fst (fst (sub_reset e s o)))) /\
  nth_error rs i = Some (snd (fst (fst (sub_reset e s o)))) /\
  nth_error os i = Some (snd (fst (sub_reset e s o))) /\
  nth_error cs i = Some (snd (sub_reset e s o)).
Proof.
  induction envs as [|e0 envs IH]; intros seeds opts i e s o es rs os cs H He Hs Ho.
  - destruct i; discriminate.
  - destruct seeds as [|s0 seeds]; [destruct i; discriminate|].
    destruct opts as [|o0 opts]; [destruct i; discriminate|].
    cbn [VecEnv.reset_loop] in H.
    destruct (sub_reset e0 s0 o0) as [[[e0' r0'] ob0] c0] eqn:S0.
    destruct (reset_loop envs seeds opts) as [[[es' rs'] os'] cs'] eqn:L.
    inv H. destruct i as [|i].
    + cbn in He, Hs, Ho. inv He. inv Hs. inv Ho. rewrite S0. cbn. repeat split; reflexivity.
    + cbn in He, Hs, Ho. cbn [nth_error]. eapply IH; eauto.
Qed.

Lemma step_loop_length : forall envs ris acts es rs os cs,
  step_loop envs ris acts = (es, rs, os, cs) ->
  length envs = length ris -> length envs = length acts ->
  length es = length envs /\ length rs = length envs /\ length os = length envs /\ length cs = length envs.
Proof.
  induction envs as [|e0 envs IH]; intros ris acts es rs os cs H L1 L2.
  - cbn in H. inv H. auto.
  - destruct ris as [|r0 ris]; [discriminate|]. destruct acts as [|a0 acts]; [discriminate|].
    cbn [VecEnv.step_loop] in H.
    destruct (sub_step e0 r0 a0) as [[[e0' r0'] o0] c0].
    destruct (step_loop envs ris acts) as [[[es' rs'] os'] cs'] eqn:L.
    inv H. cbn in L1, L2. destruct (IH _ _ _ _ _ _ L) as (?&?&?&?); [lia|lia|]. cbn. lia.
Qed.

Lemma reset_loop_length : forall envs seeds opts es rs os cs,
  reset_loop envs seeds opts = (es, rs, os, cs) ->
  length envs = length seeds -> length envs = length opts ->
  length es = length envs /\ length rs = length envs /\ length os = length envs /\ length cs = length envs.
Proof.
  induction envs as [|e0 envs IH]; intros seeds opts es rs os cs H L1 L2.
  - cbn in H. inv H. auto.
  - destruct seeds as [|s0 seeds]; [discriminate|]. destruct opts as [|o0 opts]; [discriminate|].
    cbn [VecEnv.reset_loop] in H.
    destruct (sub_reset e0 s0 o0) as [[[e0' r0'] ob0] c0].
    destruct (reset_loop envs seeds opts) as [[[es' rs'] os'] cs'] eqn:L.
    inv H. cbn in L1, L2. destruct (IH _ _ _ _ _ _ L) as (?&?&?&?); [lia|lia|]. cbn. lia.
Qed.

(* ---------- one vector op = the op of sub-environment i on its own state ---------- *)
Lemma proj_state_some : forall i (vs : vstate E I Opt) (ss : sstate E I Opt),
  proj_state i vs = Some ss ->
  nth_error (v_envs vs) i = Some (s_env ss) /\ nth_error (v_ri vs) i = Some (s_ri ss) /\
  nth_error (v_seeds vs) i = Some (s_seed ss) /\ nth_error (v_opts vs) i = Some (s_opt ss).
Proof.
  intros i vs ss H. unfold proj_state in H.
  destruct (nth_error (v_envs vs) i); [|discriminate].
  destruct (nth_error (v_ri vs) i); [|discriminate].
  destruct (nth_error (v_seeds vs) i); [|discriminate].
  destruct (nth_error (v_opts vs) i); [|discriminate].
  inv H. cbn. auto.
Qed.

Lemma proj_state_intro : forall i (vs : vstate E I Opt) e ri s o,
  nth_error (v_envs vs) i = Some e -> nth_error (v_ri vs) i = Some ri ->
  nth_error (v_seeds vs) i = Some s -> nth_error (v_opts vs) i = Some o ->
  proj_state i vs = Some (mk_sstate e ri s o).
Proof. intros i vs e ri s o H1 H2 H3 H4. unfold proj_state. rewrite H1, H2, H3, H4. reflexivity. Qed.

Lemma vapply_proj : forall i vs ss op sop,
  proj_state i vs = Some ss -> proj_op i op = Some sop ->
  proj_state i (fst (vapply vs op)) = Some (fst (sapply ss sop)) /\
  proj_out i (snd (vapply vs op)) = Some (snd (sapply ss sop)).
Proof.
  intros i vs ss op sop Hs Ho.
  destruct (proj_state_some _ _ _ Hs) as (He & Hr & Hsd & Hop).
  assert (Hi : i < num_envs vs).
  { unfold num_envs. apply nth_error_Some. rewrite He. discriminate. }
  destruct op as [|acts|s|os|o]; cbn in Ho.
  - (* reset *)
    inv Ho. cbn [VecEnv.vapply VecEnv.sapply].
    destruct (reset_loop (v_envs vs) (v_seeds vs) (v_opts vs)) as [[[es rs] obs] cs] eqn:L.
    destruct (reset_loop_nth _ _ _ _ _ _ _ _ _ _ _ L He Hsd Hop) as (H1 & H2 & H3 & H4).
    destruct (sub_reset (s_env ss) (s_seed ss) (s_opt ss)) as [[[e' ri'] ob] c] eqn:R.
    cbn in H1, H2, H3, H4. cbn [fst snd]. split.
    + apply proj_state_intro; cbn; auto using nth_error_repeat_lt.
    + cbn. rewrite H2, H3, H4. reflexivity.
  - (* step *)
    destruct (nth_error acts i) as [a|] eqn:Ha; [|discriminate]. inv Ho.
    cbn [VecEnv.vapply VecEnv.sapply].
    destruct (step_loop (v_envs vs) (v_ri vs) acts) as [[[es rs] outs] cs] eqn:L.
    destruct (step_loop_nth _ _ _ _ _ _ _ _ _ _ _ L He Hr Ha) as (H1 & H2 & H3 & H4).
    destruct (sub_step (s_env ss) (s_ri ss) a) as [[[e' ri'] ou] c] eqn:R.
    cbn in H1, H2, H3, H4. cbn [fst snd]. split.
    + apply proj_state_intro; cbn; auto.
    + cbn. rewrite H2, H3, H4. reflexivity.
  - (* seed *)
    inv Ho. cbn [VecEnv.vapply VecEnv.sapply fst snd].
    assert (Hn : nth_error (map (fun idx => Some (s + Z.of_nat idx)%Z) (seq 0 (num_envs vs))) i
                 = Some (Some (s + Z.of_nat i)%Z)).
    { apply map_nth_error with (f := fun idx => Some (s + Z.of_nat idx)%Z). apply nth_error_seq0. exact Hi. }
    split.
    + apply proj_state_intro; cbn; auto.
    + cbn. rewrite Hn. reflexivity.
  - (* set_options(list) *)
    destruct (nth_error os i) as [o|] eqn:Hos; [|discriminate]. inv Ho.
    cbn [VecEnv.vapply VecEnv.sapply fst snd]. split; [|reflexivity].
    apply proj_state_intro; cbn; auto.
  - (* set_options(dict) *)
    inv Ho. cbn [VecEnv.vapply VecEnv.sapply fst snd]. split; [|reflexivity].
    apply proj_state_intro; cbn; auto using nth_error_repeat_lt.
Qed.

(* vec_projection: for every op list, component i of every output of the vector run is the output of
   sub-environment i run alone on the i-th projection of the ops *)
Theorem vec_projection : forall i ops vs ss sops,
  proj_state i vs = Some ss -> proj_ops i ops = Some sops ->
  map (proj_out i) (vrun vs ops) = map Some (srun ss sops).
Proof.
  intros i ops. induction ops as [|op ops IH]; intros vs ss sops Hs Ho.
  - cbn in Ho. inv Ho. reflexivity.
  - cbn [proj_ops] in Ho.
    destruct (proj_op i op) as [sop|] eqn:Hop; [|discriminate].
    destruct (proj_ops i ops) as [r|] eqn:Hr; [|discriminate]. inv Ho.
    destruct (vapply_proj i vs ss op sop Hs Hop) as (H1 & H2).
    cbn [VecEnv.vrun VecEnv.srun].
    destruct (vapply vs op) as [vs' vo]. destruct (sapply ss sop) as [ss' so].
    cbn [fst snd] in H1, H2. cbn [map]. rewrite H2. f_equal. apply IH; auto.
Qed.

(* well-shaped op lists project on every index below n *)
Definition wf_vop (n : nat) (op : vop A Opt) : Prop :=
  match op with
  | VStep acts => length acts = n
  | VSetOptions os => length os = n
  | _ => True
  end.

Lemma proj_ops_total : forall n i ops, i < n -> Forall (wf_vop n) ops -> exists sops, proj_ops i ops = Some sops.
Proof.
  intros n i ops Hi H. induction H as [|op ops Hop _ IH].
  - exists []. reflexivity.
  - destruct IH as [r Hr]. cbn [proj_ops]. rewrite Hr.
    destruct op as [|acts|s|os|o]; cbn in *.
    + eexists; reflexivity.
    + destruct (nth_error acts i) eqn:Hn; [eexists; reflexivity|].
      apply nth_error_None in Hn. lia.
    + eexists; reflexivity.
    + destruct (nth_error os i) eqn:Hn; [eexists; reflexivity|].
      apply nth_error_None in Hn. lia.
    + eexists; reflexivity.
Qed.

Lemma proj_state_vinit : forall (envs : list E) i e,
  nth_error envs i = Some e -> proj_state i (vinit (I:=I) (Opt:=Opt) envs) = Some (sinit e).
Proof.
  intros envs i e H. assert (i < length envs) by (apply nth_error_Some; rewrite H; discriminate).
  unfold vinit, sinit. apply proj_state_intro; cbn; auto using nth_error_repeat_lt.
Qed.

Theorem vec_projection_init : forall envs ops i e,
  nth_error envs i = Some e -> Forall (wf_vop (length envs)) ops ->
  exists sops, proj_ops i ops = Some sops /\
    map (proj_out i) (vrun (vinit envs) ops) = map Some (srun (sinit e) sops).
Proof.
  intros envs ops i e He Hw.
  assert (i < length envs) by (apply nth_error_Some; rewrite He; discriminate).
  destruct (proj_ops_total (length envs) i ops) as [sops Hs]; auto.
  exists sops. split; [exact Hs|]. apply vec_projection; auto using proj_state_vinit.
Qed.

(* ---------- seeds / options: what reaches reset ---------- *)
Lemma srun_app : forall a b st, srun st (a ++ b) = srun st a ++ srun (sfinal st a) b.
Proof.
  induction a as [|op a IH]; intros b st; [reflexivity|].
  cbn [app VecEnv.srun VecEnv.sfinal]. destruct (sapply st op) as [st' o]. cbn [fst].
  rewrite IH. reflexivity.
Qed.

Lemma srun_length : forall ops st, length (srun st ops) = length ops.
Proof.
  induction ops as [|op ops IH]; intros st; [reflexivity|].
  cbn [VecEnv.srun]. destruct (sapply st op). cbn. rewrite IH. reflexivity.
Qed.

Lemma sfinal_seed : forall ops st, s_seed (sfinal st ops) = pending_seed (s_seed st) ops.
Proof.
  induction ops as [|op ops IH]; intros st; [reflexivity|].
  cbn [VecEnv.sfinal]. rewrite IH. destruct op as [|a|s|o]; cbn [VecEnv.sapply pending_seed].
  - destruct (sub_reset (s_env st) (s_seed st) (s_opt st)) as [[[e ri] ob] c]. reflexivity.
  - destruct (sub_step (s_env st) (s_ri st) a) as [[[e ri] ou] c]. reflexivity.
  - reflexivity.
  - reflexivity.
Qed.

Lemma sfinal_opt : forall ops st, s_opt (sfinal st ops) = pending_opt (s_opt st) ops.
Proof.
  induction ops as [|op ops IH]; intros st; [reflexivity|].
  cbn [VecEnv.sfinal]. rewrite IH. destruct op as [|a|s|o]; cbn [VecEnv.sapply pending_opt].
  - destruct (sub_reset (s_env st) (s_seed st) (s_opt st)) as [[[e ri] ob] c]. reflexivity.
  - destruct (sub_step (s_env st) (s_ri st) a) as [[[e ri] ou] c]. reflexivity.
  - reflexivity.
  - reflexivity.
Qed.

(* the reset() at any position of any history hands the sub-environment exactly the pending seed and
   options: the last seed()/set_options() since the previous reset(), else None *)
Theorem reset_delivery : forall pre post st,
  exists obs ri,
    nth_error (srun st (pre ++ SReset :: post)) (length pre)
    = Some (SOReset obs ri [CReset (pending_seed (s_seed st) pre) (pending_opt (s_opt st) pre)]).
Proof.
  intros pre post st. rewrite srun_app.
  rewrite nth_error_app2 by (rewrite srun_length; lia).
  rewrite srun_length, Nat.sub_diag. cbn [VecEnv.srun VecEnv.sapply].
  rewrite <- sfinal_seed, <- sfinal_opt.
  unfold VecEnv.sub_reset.
  destruct (e_reset (s_env (sfinal st pre)) (s_seed (sfinal st pre)) (s_opt (sfinal st pre))) as [e1 [obs ri]].
  destruct (srun _ post); cbn; eauto.
Qed.

(* a step hands the sub-environment its own action, and an automatic reset carries no seed/options *)
Theorem step_calls : forall st a,
  calls_of (snd (sapply st (SStep a))) = [CStep a] \/
  calls_of (snd (sapply st (SStep a))) = [CStep a; CReset None None].
Proof.
  intros st a. cbn [VecEnv.sapply]. unfold VecEnv.sub_step.
  destruct (e_step (s_env st) a) as [e1 [[[[obs r] term] trunc] info]].
  destruct (term || trunc).
  - destruct (e_reset e1 None None) as [e2 [obs2 ri2]]. right. reflexivity.
  - left. reflexivity.
Qed.

Lemma nocall_seed_opt : forall st s o,
  calls_of (snd (sapply st (SSeed s))) = [] /\ calls_of (snd (sapply st (SSetOpt o))) = [].
Proof. intros; split; reflexivity. Qed.

(* after a reset() nothing is pending: seeds and options are used once *)
Definition not_seed (op : sop A Opt) : bool := match op with SSeed _ => false | _ => true end.
Definition not_opt (op : sop A Opt) : bool := match op with SSetOpt _ => false | _ => true end.
Definition not_reset (op : sop A Opt) : bool := match op with SReset => false | _ => true end.

Lemma pending_seed_app : forall (a b : list (sop A Opt)) acc, pending_seed acc (a ++ b) = pending_seed (pending_seed acc a) b.
Proof. induction a as [|op a IH]; intros b acc; [reflexivity|]. destruct op; cbn; apply IH. Qed.
Lemma pending_opt_app : forall (a b : list (sop A Opt)) acc, pending_opt acc (a ++ b) = pending_opt (pending_opt acc a) b.
Proof. induction a as [|op a IH]; intros b acc; [reflexivity|]. destruct op; cbn; apply IH. Qed.

Lemma pending_seed_none : forall mid, forallb not_seed mid = true -> pending_seed None mid = None.
Proof.
  induction mid as [|op mid IH]; intros H; [reflexivity|].
  cbn in H. apply andb_true_iff in H. destruct H as [H1 H2].
  destruct op; cbn; try discriminate; auto.
Qed.
Lemma pending_opt_none : forall mid, forallb not_opt mid = true -> pending_opt None mid = None.
Proof.
  induction mid as [|op mid IH]; intros H; [reflexivity|].
  cbn in H. apply andb_true_iff in H. destruct H as [H1 H2].
  destruct op; cbn; try discriminate; auto.
Qed.
Lemma pending_seed_keep : forall mid acc,
  forallb not_seed mid = true -> forallb not_reset mid = true -> pending_seed acc mid = acc.
Proof.
  induction mid as [|op mid IH]; intros acc H G; [reflexivity|].
  cbn in H, G. apply andb_true_iff in H. apply andb_true_iff in G. destruct H, G.
  destruct op; cbn; try discriminate; auto.
Qed.
Lemma pending_opt_keep : forall mid acc,
  forallb not_opt mid = true -> forallb not_reset mid = true -> pending_opt acc mid = acc.
Proof.
  induction mid as [|op mid IH]; intros acc H G; [reflexivity|].
  cbn in H, G. apply andb_true_iff in H. apply andb_true_iff in G. destruct H, G.
  destruct op; cbn; try discriminate; auto.
Qed.

(* seed(s) ... reset(): the reset receives s; options likewise *)
Theorem seed_reaches_next_reset : forall st pre s mid post,
  forallb not_seed mid = true -> forallb not_reset mid = true ->
  exists obs ri o,
    nth_error (srun st ((pre ++ SSeed s :: mid) ++ SReset :: post)) (length (pre ++ SSeed s :: mid))
    = Some (SOReset obs ri [CReset (Some s) o]).
Proof.
  intros st pre s mid post H G.
  destruct (reset_delivery (pre ++ SSeed s :: mid) post st) as (obs & ri & R).
  rewrite pending_seed_app in R. cbn [pending_seed] in R. rewrite pending_seed_keep in R by assumption.
  eauto.
Qed.

Theorem options_reach_next_reset : forall st pre o mid post,
  forallb not_opt mid = true -> forallb not_reset mid = true ->
  exists obs ri s,
    nth_error (srun st ((pre ++ SSetOpt o :: mid) ++ SReset :: post)) (length (pre ++ SSetOpt o :: mid))
    = Some (SOReset obs ri [CReset s o]).
Proof.
  intros st pre o mid post H G.
  destruct (reset_delivery (pre ++ SSetOpt o :: mid) post st) as (obs & ri & R).
  rewrite pending_opt_app in R. cbn [pending_opt] in R. rewrite pending_opt_keep in R by assumption.
  eauto.
Qed.

(* ... and only once: a reset() that follows a reset() without a new seed()/set_options() receives None *)
Theorem seed_used_once : forall st pre mid post,
  forallb not_seed mid = true ->
  exists obs ri o,
    nth_error (srun st ((pre ++ SReset :: mid) ++ SReset :: post)) (length (pre ++ SReset :: mid))
    = Some (SOReset obs ri [CReset None o]).
Proof.
  intros st pre mid post H.
  destruct (reset_delivery (pre ++ SReset :: mid) post st) as (obs & ri & R).
  rewrite pending_seed_app in R. cbn [pending_seed] in R. rewrite pending_seed_none in R by assumption.
  eauto.
Qed.

Theorem options_used_once : forall st pre mid post,
  forallb not_opt mid = true ->
  exists obs ri s,
    nth_error (srun st ((pre ++ SReset :: mid) ++ SReset :: post)) (length (pre ++ SReset :: mid))
    = Some (SOReset obs ri [CReset s None]).
Proof.
  intros st pre mid post H.
  destruct (reset_delivery (pre ++ SReset :: mid) post st) as (obs & ri & R).
  rewrite pending_opt_app in R. cbn [pending_opt] in R. rewrite pending_opt_none in R by assumption.
  eauto.
Qed.

(* ---------- vector level: seed(s) delivers s+i to sub-environment i at the next reset ---------- *)
Definition vquiet (op : vop A Opt) : bool := match op with VSeed _ | VReset => false | _ => true end.

Lemma proj_ops_app : forall i (a b : list (vop A Opt)) sops,
  proj_ops i (a ++ b) = Some sops ->
  exists sa sb, proj_ops i a = Some sa /\ proj_ops i b = Some sb /\ sops = sa ++ sb /\ length sa = length a.
Proof.
  intros i a. induction a as [|op a IH]; intros b sops H.
  - exists [], sops. cbn in *. auto.
  - cbn [app proj_ops] in H. destruct (proj_op i op) as [sop|] eqn:Hop; [|discriminate].
    destruct (proj_ops i (a ++ b)) as [r|] eqn:Hr; [|discriminate]. inv H.
    destruct (IH b r Hr) as (sa & sb & H1 & H2 & H3 & H4). subst r.
    exists (sop :: sa), sb. cbn [proj_ops]. rewrite Hop, H1. cbn. auto.
Qed.

Lemma proj_ops_quiet : forall i (mid : list (vop A Opt)) smid,
  proj_ops i mid = Some smid -> forallb vquiet mid = true ->
  forallb not_seed smid = true /\ forallb not_reset smid = true.
Proof.
  intros i mid. induction mid as [|op mid IH]; intros smid H Q.
  - cbn in H. inv H. auto.
  - cbn [proj_ops] in H. destruct (proj_op i op) as [sop|] eqn:Hop; [|discriminate].
    destruct (proj_ops i mid) as [r|] eqn:Hr; [|discriminate]. inv H.
    cbn in Q. apply andb_true_iff in Q. destruct Q as [Q1 Q2].
    destruct (IH r eq_refl Q2) as [I1 I2]. cbn [forallb]. rewrite I1, I2.
    destruct op as [|acts|s|os|o]; cbn in Q1, Hop; try discriminate.
    + destruct (nth_error acts i); inv Hop. auto.
    + destruct (nth_error os i); inv Hop. auto.
    + inv Hop. auto.
Qed.

Theorem vec_seed_delivery : forall envs i e pre s mid post,
  nth_error envs i = Some e ->
  Forall (wf_vop (length envs)) ((pre ++ VSeed s :: mid) ++ VReset :: post) ->
  forallb vquiet mid = true ->
  exists out obs ri o,
    nth_error (vrun (vinit envs) ((pre ++ VSeed s :: mid) ++ VReset :: post)) (length (pre ++ VSeed s :: mid)) = Some out /\
    proj_out i out = Some (SOReset obs ri [CReset (Some (s + Z.of_nat i)%Z) o]).
Proof.
  intros envs i e pre s mid post He Hw Q.
  destruct (vec_projection_init envs _ i e He Hw) as (sops & Hp & Hm).
  destruct (proj_ops_app _ _ _ _ Hp) as (s1 & s2 & P1 & P2 & -> & L1).
  destruct (proj_ops_app _ _ _ _ P1) as (spre & s3 & P3 & P4 & -> & L2).
  cbn [proj_ops proj_op] in P4. destruct (proj_ops i mid) as [smid|] eqn:Pm; [|discriminate]. inv P4.
  cbn [proj_ops proj_op] in P2. destruct (proj_ops i post) as [spost|] eqn:Pp; [|discriminate]. inv P2.
  destruct (proj_ops_quiet _ _ _ Pm Q) as [Q1 Q2].
  destruct (seed_reaches_next_reset (sinit e) spre (s + Z.of_nat i)%Z smid spost Q1 Q2) as (obs & ri & o & R).
  rewrite <- L1.
  assert (N : nth_error (map (proj_out i) (vrun (vinit envs) ((pre ++ VSeed s :: mid) ++ VReset :: post)))
                (length (spre ++ SSeed (s + Z.of_nat i)%Z :: smid)) = Some (Some (SOReset obs ri [CReset (Some (s + Z.of_nat i)%Z) o]))).
  { rewrite Hm. apply map_nth_error. exact R. }
  rewrite nth_error_map in N.
  destruct (nth_error (vrun (vinit envs) ((pre ++ VSeed s :: mid) ++ VReset :: post))
              (length (spre ++ SSeed (s + Z.of_nat i)%Z :: smid))) as [out|]; [|discriminate].
  cbn in N. inv N. exists out, obs, ri, o. auto.
Qed.

(* the same with the regenerated seed expression of VecEnv.seed *)
Theorem vec_seed_delivery_regenerated : forall envs i e pre s mid post,
  nth_error envs i = Some e ->
  Forall (wf_vop (length envs)) ((pre ++ VSeed s :: mid) ++ VReset :: post) ->
  forallb vquiet mid = true ->
  exists out obs ri o,
    nth_error (vrun (vinit envs) ((pre ++ VSeed s :: mid) ++ VReset :: post)) (length (pre ++ VSeed s :: mid)) = Some out /\
    proj_out i out = Some (SOReset obs ri [CReset (Some (seed_vecenv_elt s (Z.of_nat i))) o]).
Proof. intros. rewrite frag_vec_seed. eapply vec_seed_delivery; eauto. Qed.

(* the seeds list kept by the model after seed(s) is the regenerated element expression at every index *)
Theorem vseed_is_regenerated : forall (vs : vstate E I Opt) s,
  v_seeds (fst (vapply vs (VSeed s))) = map (fun idx => Some (seed_vecenv_elt s (Z.of_nat idx))) (seq 0 (num_envs vs)).
Proof. intros vs s. cbn [VecEnv.vapply fst v_seeds]. apply map_ext. intros idx. rewrite (frag_vec_seed s (Z.of_nat idx)). reflexivity. Qed.

End Proofs.

(* ---------- scripted sub-environments: the contract in terms of the episode script ---------- *)
Definition good (sc : script) (c : cursor) : Prop :=
  1 <= c_resets c /\ c_pos c < length (ep_steps (cur_episode sc c)).

(* the episode that the next reset (explicit or automatic) starts *)
Definition next_episode (sc : script) (c : cursor) : episode :=
  nth (c_resets c mod length sc) sc dummy_episode.

Lemma ends_at_last_nth : forall steps pos,
  ends_at_last steps = true -> pos < length steps ->
  (st_term (nth pos steps dummy_step) || st_trunc (nth pos steps dummy_step)) = (S pos =? length steps).
Proof.
  induction steps as [|s steps IH]; intros pos H L; [cbn in L; lia|].
  destruct steps as [|s2 steps].
  - cbn in L. assert (pos = 0) by lia. subst. cbn in *. exact H.
  - change (ends_at_last (s :: s2 :: steps)) with (negb (st_term s || st_trunc s) && ends_at_last (s2 :: steps)) in H.
    apply andb_true_iff in H. destruct H as [H1 H2].
    destruct pos as [|pos].
    + cbn [nth]. apply negb_true_iff in H1. rewrite H1. cbn. reflexivity.
    + change (nth (S pos) (s :: s2 :: steps) dummy_step) with (nth pos (s2 :: steps) dummy_step).
      rewrite IH; [reflexivity|exact H2|cbn in *; lia].
Qed.

Lemma ends_at_last_nonempty : forall steps, ends_at_last steps = true -> 0 < length steps.
Proof. intros [|s steps] H; [discriminate|cbn; lia]. Qed.

Lemma nth_pred_last : forall (l : list sstep) d, nth (length l - 1) l d = last l d.
Proof.
  induction l as [|x l IH]; intros d; [reflexivity|].
  destruct l as [|y l]; [reflexivity|].
  change (last (x :: y :: l) d) with (last (y :: l) d). rewrite <- IH.
  cbn [length]. replace (S (S (length l)) - 1) with (S (length l - 0)) by lia.
  cbn [nth]. replace (S (length l) - 1) with (length l - 0) by lia. reflexivity.
Qed.

Lemma wf_script_length : forall sc, wf_script sc = true -> 0 < length sc.
Proof.
  intros sc H. unfold wf_script in H. apply andb_true_iff in H. destruct H as [H _].
  apply negb_true_iff in H. apply Nat.eqb_neq in H. lia.
Qed.

Lemma wf_nth_episode : forall sc k, wf_script sc = true ->
  ends_at_last (ep_steps (nth (k mod length sc) sc dummy_episode)) = true.
Proof.
  intros sc k H. pose proof (wf_script_length sc H) as L.
  unfold wf_script in H. apply andb_true_iff in H. destruct H as [_ H].
  rewrite forallb_forall in H. apply H. apply nth_In. apply Nat.mod_upper_bound. lia.
Qed.

Lemma wf_cur_episode : forall sc c, wf_script sc = true -> ends_at_last (ep_steps (cur_episode sc c)) = true.
Proof. intros. unfold cur_episode. apply wf_nth_episode. assumption. Qed.

Lemma cur_episode_after_reset : forall sc c, cur_episode sc (mk_cursor (S (c_resets c)) 0) = next_episode sc c.
Proof. intros. unfold cur_episode, next_episode. cbn [c_resets]. rewrite Nat.sub_succ, Nat.sub_0_r. reflexivity. Qed.

(* reset (explicit, from any cursor) starts the next scripted episode at its first step *)
Theorem scripted_reset : forall sc c seed opt e' ri' obs calls,
  wf_script sc = true ->
  sub_reset (A:=Z) sc_reset (sc, c) seed opt = (e', ri', obs, calls) ->
  obs = ep_reset_tag (next_episode sc c) /\ ri' = Some (ep_reset_info (next_episode sc c)) /\
  e' = (sc, mk_cursor (S (c_resets c)) 0) /\ calls = [CReset seed opt] /\ good sc (snd e').
Proof.
  intros sc c seed opt e' ri' obs calls W H.
  unfold sub_reset, sc_reset, env_reset in H. rewrite cur_episode_after_reset in H. inv H.
  repeat split; try reflexivity.
  - cbn. lia.
  - cbn [snd c_pos]. rewrite cur_episode_after_reset. apply ends_at_last_nonempty.
    unfold next_episode. apply wf_nth_episode. assumption.
Qed.

(* the step contract of the property text, in terms of the script *)
Theorem scripted_autoreset_contract : forall sc c ri a e' ri' o calls,
  wf_script sc = true -> good sc c ->
  sub_step sc_step sc_reset (sc, c) ri a = (e', ri', o, calls) ->
  let ep := cur_episode sc c in
  let st := nth (c_pos c) (ep_steps ep) dummy_step in
  let nx := next_episode sc c in
  so_rew o = st_r4 st /\ so_info o = st_info st /\
  so_done o = (st_term st || st_trunc st) /\ so_tl o = (st_trunc st && negb (st_term st)) /\
  (if S (c_pos c) =? length (ep_steps ep)
   then (* the episode ends at this step *)
     so_done o = true /\ st = last (ep_steps ep) dummy_step /\ so_term o = Some (st_tag st) /\
     so_obs o = ep_reset_tag nx /\ ri' = Some (ep_reset_info nx) /\
     e' = (sc, mk_cursor (S (c_resets c)) 0) /\ calls = [CStep a; CReset None None]
   else
     so_done o = false /\ so_term o = None /\ so_obs o = st_tag st /\ ri' = ri /\
     e' = (sc, mk_cursor (c_resets c) (S (c_pos c))) /\ calls = [CStep a]) /\
  good sc (snd e').
Proof.
  intros sc c ri a e' ri' o calls W [G1 G2] H ep st nx.
  pose proof (wf_cur_episode sc c W) as WE.
  pose proof (ends_at_last_nth _ _ WE G2) as D. fold ep in D, G2. fold st in D.
  unfold sub_step, sc_step, env_step in H. fold ep in H.
  replace (Nat.min (c_pos c) (length (ep_steps ep) - 1)) with (c_pos c) in H by lia.
  fold st in H. rewrite D in H.
  destruct (S (c_pos c) =? length (ep_steps ep)) eqn:L.
  - apply Nat.eqb_eq in L.
    unfold sc_reset, env_reset in H. cbn [c_resets] in H. rewrite cur_episode_after_reset in H.
    fold nx in H. inv H. cbn [so_rew so_info so_done so_tl so_term so_obs snd].
    repeat split; try reflexivity; try (symmetry; exact D).
    + unfold st. rewrite <- nth_pred_last. f_equal. lia.
    + cbn. lia.
    + cbn [c_pos]. rewrite cur_episode_after_reset. apply ends_at_last_nonempty.
      unfold next_episode. apply wf_nth_episode. assumption.
  - apply Nat.eqb_neq in L. inv H. cbn [so_rew so_info so_done so_tl so_term so_obs snd].
    repeat split; try reflexivity; try (symmetry; exact D).
    + cbn. lia.
    + cbn [c_pos]. change (cur_episode sc {| c_resets := c_resets c; c_pos := S (c_pos c) |}) with ep. lia.
Qed.

(* every state reached by any history that starts with a reset is good, so the contract above applies
   at every step of every history *)
Definition sgood (ss : sstate senv Z Z) : Prop :=
  wf_script (fst (s_env ss)) = true /\ good (fst (s_env ss)) (snd (s_env ss)).

Theorem sgood_after_reset : forall ss,
  wf_script (fst (s_env ss)) = true -> sgood (fst (sapply sc_step sc_reset ss SReset)).
Proof.
  intros [[sc c] ri sd op0] W. cbn [s_env fst] in W.
  cbn [sapply s_env s_ri s_seed s_opt].
  destruct (sub_reset (A:=Z) sc_reset (sc, c) sd op0) as [[[e' ri'] obs] calls] eqn:R.
  destruct (scripted_reset _ _ _ _ _ _ _ _ W R) as (_ & _ & -> & _ & G).
  split; cbn; [exact W|exact G].
Qed.

Theorem sgood_preserved : forall ops ss, sgood ss -> sgood (sfinal sc_step sc_reset ss ops).
Proof.
  induction ops as [|op ops IH]; intros ss G; [exact G|].
  cbn [sfinal]. apply IH. destruct G as [W G].
  destruct op as [|a|s|o].
  - apply sgood_after_reset. exact W.
  - destruct ss as [[sc c] ri sd op0]. cbn [s_env fst snd] in W, G.
    cbn [sapply s_env s_ri s_seed s_opt].
    destruct (sub_step sc_step sc_reset (sc, c) ri a) as [[[e' ri'] o] calls] eqn:R.
    pose proof (scripted_autoreset_contract _ _ _ _ _ _ _ _ W G R) as C. cbv zeta in C.
    destruct C as (_ & _ & _ & _ & B & G').
    assert (fst e' = sc).
    { destruct (S (c_pos c) =? length (ep_steps (cur_episode sc c))).
      - destruct B as (_ & _ & _ & _ & _ & -> & _). reflexivity.
      - destruct B as (_ & _ & _ & _ & -> & _). reflexivity. }
    split; cbn [fst s_env]; [rewrite H; exact W|rewrite H; exact G'].
  - destruct ss as [[sc c] ri sd op0]. exact (conj W G).
  - destruct ss as [[sc c] ri sd op0]. exact (conj W G).
Qed.

Theorem sgood_history : forall ops ss,
  wf_script (fst (s_env ss)) = true ->
  sgood (sfinal sc_step sc_reset (fst (sapply sc_step sc_reset ss SReset)) ops).
Proof. intros ops ss W. exact (sgood_preserved ops _ (sgood_after_reset ss W)). Qed.
