(* C15 (build round 5) - keyed VecNormalize: per-key projection onto the single-array model (simulation), pass-through of the
   keys that are not selected, independence between keys, the constructor's decision function, pickling / set_venv. *)
From Coq Require Import List QArith Bool Arith Lia ZArith.
From SB3V Require Import Gen.Frag_vecnormkeyed Model.RunningMoments Model.VecNorm Model.VecNormKeyed
  Proofs.RunningMomentsProofs Proofs.VecNormProofs.
Import ListNotations.
Local Open Scope nat_scope.

(* ---------- dictionaries ---------- *)
Lemma kget_map {A B} (F : nat -> A -> B) (l : list (nat * A)) k d d' :
  F k d = d' -> kget k (map (fun e => (fst e, F (fst e) (snd e))) l) d' = F k (kget k l d).
Proof.
  intros Hd. induction l as [|[k' v] l IH]; cbn [map kget fst snd]; [now symmetry|].
  destruct (Nat.eqb k k') eqn:E; [apply Nat.eqb_eq in E; subst; reflexivity|exact IH].
Qed.

Lemma kget_map_key {B} (G : nat -> B) (l : list nat) k d : In k l -> kget k (map (fun j => (j, G j)) l) d = G k.
Proof.
  induction l as [|j l IH]; intros H; [destruct H|]. cbn [map kget].
  destruct (Nat.eqb k j) eqn:E; [apply Nat.eqb_eq in E; now subst|].
  apply IH. destruct H as [H|H]; [subst; rewrite Nat.eqb_refl in E; discriminate|exact H].
Qed.

Lemma In_dedup k l : In k l <-> In k (dedup l).
Proof.
  induction l as [|a l IH]; cbn [dedup]; [tauto|]. split.
  - intros [H|H]; [now left|]. destruct (Nat.eq_dec a k) as [E|E]; [now left|right].
    apply filter_In. split; [now apply IH|]. apply negb_true_iff, Nat.eqb_neq. auto.
  - intros [H|H]; [now left|right]. apply filter_In in H. apply IH. tauto.
Qed.

Lemma nth_repeat {A} (x d : A) w ch : ch < w -> nth ch (repeat x w) d = x.
Proof. revert ch. induction w; intros [|ch] H; cbn; try lia; auto. apply IHw. lia. Qed.

(* ---------- one key of the keyed model IS the single-array model (with all its channels selected) ---------- *)
Section Sim.
Context (upd : rms -> list Q -> rms) (red : Q -> Q).

Lemma upd_key_map_eq batch : forall rs start,
  map (fun ic : nat * (bool * rms) => let '(i, (c, r)) := ic in if (c : bool) then upd r (chan_col i batch) else r)
      (combine (seq start (length rs)) (combine (repeat true (length rs)) rs))
  = map (fun ir : nat * rms => upd (snd ir) (chan_col (fst ir) batch)) (combine (seq start (length rs)) rs).
Proof. induction rs as [|r rs IH]; intros start; cbn [length repeat seq combine map fst snd]; [reflexivity|]. f_equal. apply IH. Qed.

Lemma kget_kupd p st obs k :
  kget k (kupd_rms upd st obs) [] = upd_obs_rms upd (projp p (length (kget k (k_rms st) []))) (proj k st) (kcol k obs).
Proof.
  unfold kupd_rms, upd_obs_rms. cbn [proj v_training v_norm_obs v_obs_rms p_chans projp].
  destruct (obs_guard _ _); [|reflexivity].
  etransitivity; [apply (kget_map (fun j rs => upd_key upd rs (kcol j obs)) (k_rms st) k [] []); reflexivity|].
  unfold upd_key. symmetry. apply upd_key_map_eq.
Qed.

Lemma proj_sim p st o k :
  proj k (kvn_op upd red p st o) = vn_op upd red (projp p (length (kget k (k_rms st) []))) (proj k st) (proj_op k o).
Proof.
  destruct o as [obs|obs rews dones|t no nr]; unfold proj at 1, kvn_op;
    cbn [kop_obs base_op proj_op k_rms k_base k_old_obs k_keys vn_op v_obs_rms v_ret_rms v_returns v_old_obs v_old_rew v_training v_norm_obs v_norm_reward].
  - rewrite (kget_kupd p). reflexivity.
  - rewrite (kget_kupd p). reflexivity.
  - reflexivity.
Qed.

Lemma kvn_op_width p st o k : length (kget k (k_rms (kvn_op upd red p st o)) []) = length (kget k (k_rms st) []).
Proof.
  change (kget k (k_rms (kvn_op upd red p st o)) []) with (v_obs_rms (proj k (kvn_op upd red p st o))).
  rewrite proj_sim. apply vn_op_chans_length. cbn [p_chans projp proj v_obs_rms]. apply repeat_length.
Qed.

Lemma proj_run_sim p h : forall st k,
  proj k (kvn_run upd red p st h) = vn_run upd red (projp p (length (kget k (k_rms st) []))) (proj k st) (map (proj_op k) h).
Proof.
  induction h as [|o h IH]; intros st k; cbn [kvn_run vn_run fold_left map]; [reflexivity|].
  fold (kvn_run upd red p (kvn_op upd red p st o) h). rewrite IH, kvn_op_width, proj_sim. reflexivity.
Qed.

Lemma k_keys_run p h : forall st, k_keys (kvn_run upd red p st h) = k_keys st.
Proof. induction h as [|o h IH]; intros st; cbn [kvn_run fold_left]; [reflexivity|]. fold (kvn_run upd red p (kvn_op upd red p st o) h). now rewrite IH. Qed.

(* the dictionary of statistics never gains or loses a key *)
Lemma rms_keys_op p st o : map fst (k_rms (kvn_op upd red p st o)) = map fst (k_rms st).
Proof.
  unfold kvn_op. cbn [k_rms]. destruct (kop_obs o); [|reflexivity]. unfold kupd_rms. destruct (obs_guard _ _); [|reflexivity].
  rewrite map_map. reflexivity.
Qed.
Lemma rms_keys_run p h : forall st, map fst (k_rms (kvn_run upd red p st h)) = map fst (k_rms st).
Proof. induction h as [|o h IH]; intros st; cbn [kvn_run fold_left]; [reflexivity|]. fold (kvn_run upd red p (kvn_op upd red p st o) h). now rewrite IH, rms_keys_op. Qed.

(* (b) statistics of component ch of a selected key k = updates with exactly the batches of THAT key's stream that were
   returned while training and norm_obs were set *)
Definition kobs_batches (k ch : nat) (training norm_obs : bool) (h : list kop) : list (list Q) :=
  obs_batches ch training norm_obs (map (proj_op k) h).

Lemma keyed_stats_stream p h st k ch d : ch < length (kget k (k_rms st) []) ->
  nth ch (kget k (k_rms (kvn_run upd red p st h)) []) d
  = fold_left upd (kobs_batches k ch (v_training (k_base st)) (v_norm_obs (k_base st)) h) (nth ch (kget k (k_rms st) []) d).
Proof.
  intros Hc. change (kget k (k_rms (kvn_run upd red p st h)) []) with (v_obs_rms (proj k (kvn_run upd red p st h))).
  rewrite proj_run_sim.
  rewrite (vn_obs_stats_stream upd red _ _ (proj k st) ch d); cbn [p_chans projp proj v_obs_rms v_training v_norm_obs];
    [|apply repeat_length|exact Hc].
  rewrite nth_repeat by exact Hc. reflexivity.
Qed.

(* (b) independence: two histories that show key j the same stream leave key j's state (statistics, original observation) equal *)
Lemma keyed_independence p st h h' j :
  map (proj_op j) h = map (proj_op j) h' -> proj j (kvn_run upd red p st h) = proj j (kvn_run upd red p st h').
Proof. intros E. now rewrite !proj_run_sim, E. Qed.
End Sim.

(* what is returned for key j depends only on key j's state *)
Lemma knorm_entry_proj p st st' hints j x :
  proj j st = proj j st' -> k_keys st = k_keys st' ->
  knorm_entry p st hints j x = knorm_entry p st' hints j x /\ kunnorm_entry p st hints j x = kunnorm_entry p st' hints j x.
Proof.
  intros H K. unfold knorm_entry, kunnorm_entry.
  change (kget j (k_rms st) []) with (v_obs_rms (proj j st)). change (kget j (k_rms st') []) with (v_obs_rms (proj j st')).
  change (v_norm_obs (k_base st)) with (v_norm_obs (proj j st)). change (v_norm_obs (k_base st')) with (v_norm_obs (proj j st')).
  rewrite H, K. split; reflexivity.
Qed.

Lemma knorm_entry_nil p st hints k : knorm_entry p st hints k [] = [] /\ kunnorm_entry p st hints k [] = [].
Proof. unfold knorm_entry, kunnorm_entry. destruct (_ && _); split; reflexivity. Qed.

Lemma kget_knormalize p st hints o k :
  kget k (knormalize p st hints o) [] = knorm_entry p st hints k (kget k o []) /\
  kget k (kunnormalize p st hints o) [] = kunnorm_entry p st hints k (kget k o []).
Proof.
  split.
  - apply (kget_map (knorm_entry p st hints)). apply knorm_entry_nil.
  - apply (kget_map (kunnorm_entry p st hints)). apply knorm_entry_nil.
Qed.

Lemma keyed_outputs_independent upd red p st h h' j hints o :
  map (proj_op j) h = map (proj_op j) h' ->
  let a := kvn_run upd red p st h in let b := kvn_run upd red p st h' in
  kget j (k_rms a) [] = kget j (k_rms b) [] /\
  kget j (knormalize p a hints o) [] = kget j (knormalize p b hints o) [] /\
  kget j (kunnormalize p a hints o) [] = kget j (kunnormalize p b hints o) [] /\
  kcol j (k_old_obs a) = kcol j (k_old_obs b).
Proof.
  intros E a b. pose proof (keyed_independence upd red p st h h' j E) as P. fold a b in P.
  assert (K : k_keys a = k_keys b) by (unfold a, b; now rewrite !k_keys_run).
  split; [exact (f_equal v_obs_rms P)|].
  destruct (kget_knormalize p a hints o j) as [A1 A2]. destruct (kget_knormalize p b hints o j) as [B1 B2].
  destruct (knorm_entry_proj p a b hints j (kget j o []) P K) as [N U].
  split; [now rewrite A1, B1|]. split; [now rewrite A2, B2|]. exact (f_equal v_old_obs P).
Qed.

(* ---------- (a) keys outside norm_obs_keys pass through unchanged ---------- *)
Lemma keyed_unselected_passthrough p st hints o j d :
  kmem j (k_keys st) = false ->
  kget j (knormalize p st hints o) d = kget j o d /\ kget j (kunnormalize p st hints o) d = kget j o d.
Proof.
  intros H.
  assert (N : forall x, knorm_entry p st hints j x = x) by (intros x; unfold knorm_entry; now rewrite H, andb_false_r).
  assert (U : forall x, kunnorm_entry p st hints j x = x) by (intros x; unfold kunnorm_entry; now rewrite H, andb_false_r).
  split.
  - etransitivity; [apply (kget_map (knorm_entry p st hints) o j d d); apply N|apply N].
  - etransitivity; [apply (kget_map (kunnorm_entry p st hints) o j d d); apply U|apply U].
Qed.

(* the whole entry list keeps its keys and their order (deepcopy, then entries replaced in place) *)
Lemma knormalize_keys p st hints o : map fst (knormalize p st hints o) = map fst o /\ map fst (kunnormalize p st hints o) = map fst o.
Proof. unfold knormalize, kunnormalize. rewrite !map_map. split; reflexivity. Qed.

Lemma keyed_terminal_passthrough p st hints done x y j d :
  kmem j (k_keys st) = false -> kterm_out p st hints done (Some x) = Some y -> kget j y d = kget j x d.
Proof.
  intros H E. unfold kterm_out in E. destruct (negb done); inversion E; subst; [reflexivity|].
  now apply keyed_unselected_passthrough.
Qed.

Lemma keyed_original_is_raw upd red p st obs rews dones :
  k_old_obs (kvn_op upd red p st (KStep obs rews dones)) = obs /\ k_old_obs (kvn_op upd red p st (KReset obs)) = obs /\
  v_old_rew (k_base (kvn_op upd red p st (KStep obs rews dones))) = rews.
Proof. repeat split. Qed.

(* no statistics exist, at any time, for a key that is not in norm_obs_keys *)
Lemma keyed_unselected_no_stats upd red p ks keys n t no nr h j :
  ~ In j keys -> ~ In j (map fst (k_rms (kvn_run upd red p (kvn_init ks keys n t no nr) h))).
Proof.
  intros H. rewrite rms_keys_run. cbn [kvn_init k_rms]. destruct no; [|intros []].
  rewrite map_map. cbn [fst]. rewrite map_id. intros I. apply H. apply (proj2 (In_dedup j keys)). exact I.
Qed.

(* ---------- (b) statistics of a selected key = moments of that key's stream merged with the documented prior ---------- *)
Lemma keyed_stats_are_stream_moments red p ks keys n t nr h k ch :
  In k keys -> ch < kwidth ks k ->
  Forall (fun b => b <> []) (kobs_batches k ch t true h) ->
  let u := nth ch (kget k (k_rms (kvn_run update red p (kvn_init ks keys n t true nr) h)) []) (rms_init eps_default) in
  let xs := concat (kobs_batches k ch t true h) in
  (r_count u == eps_default + qlen xs /\
   r_mean u == qsuml xs / (eps_default + qlen xs) /\
   r_var u == (eps_default + sumsq xs) / (eps_default + qlen xs) - r_mean u * r_mean u)%Q.
Proof.
  intros Hk Hc Hall. cbn zeta.
  assert (E : kget k (k_rms (kvn_init ks keys n t true nr)) [] = repeat (rms_init eps_default) (kwidth ks k)).
  { cbn [kvn_init k_rms]. apply (kget_map_key (fun j => repeat (rms_init eps_default) (kwidth ks j))). apply (proj1 (In_dedup k keys)). exact Hk. }
  rewrite (keyed_stats_stream update red p h _ k ch) by (rewrite E, repeat_length; exact Hc).
  rewrite E, nth_repeat by exact Hc. cbn [kvn_init k_base v_training v_norm_obs].
  apply (stats_with_prior eps_default); [reflexivity|exact Hall].
Qed.

(* ---------- (c) the single-array model is the one-key instance ---------- *)
Lemma keyed_entry_is_single_array p st hints k x :
  kmem k (k_keys st) = true ->
  length (kget k (k_rms st) []) = length x -> length (kget k hints []) = length x ->
  knorm_entry p st hints k x = normalize_obs_model (projp p (length x)) (proj k st) (kget k hints []) x.
Proof.
  intros H L1 L2. unfold knorm_entry, normalize_obs_model. cbn [p_chans projp proj v_norm_obs v_obs_rms]. rewrite H, andb_true_r.
  destruct (v_norm_obs (k_base st)); [reflexivity|].
  symmetry. apply norm_vec_passthrough; rewrite ?repeat_length; auto.
Qed.

(* ---------- constructor ---------- *)
Definition class_code (s : ospace) : Z := match s with SDict _ => 1%Z | SBox _ => 2%Z | SOther => 0%Z end.
Definition none_tok (keys : option (list nat)) : bool := match keys with None => true | Some _ => false end.

(* _sanity_checks re-assembled from the regenerated pieces: which class is tested first / second, the `is None` tests (identity with
   the None token = Bool.eqb), where the default keys come from, which collection the loop runs over, which key it looks up, which
   class it requires *)
Definition sanity_frag (s : ospace) (keys : option (list nat)) : bool :=
  if Z.eqb (class_code s) vnk_sanity_first_class then
    let ks := match s with SDict ks => ks | _ => [] end in
    let sel := if vnk_sanity_default_guard (none_tok keys) true
               then (if Z.eqb vnk_sanity_default_source 1 then map fst ks else [])
               else match keys with Some l => l | None => [] end in
    forallb (fun k => negb (vnk_sanity_key_guard
                              (if Z.eqb vnk_sanity_key_index 1 && Z.eqb vnk_sanity_key_class 2 then is_box_key ks k else false)))
            (if Z.eqb vnk_sanity_loop_source 1 then sel else [])
  else if Z.eqb (class_code s) vnk_sanity_second_class then negb (vnk_sanity_box_guard (none_tok keys) true)
  else false.

Lemma forallb_negneg {A} (f : A -> bool) l : forallb (fun k => negb (negb (f k))) l = forallb f l.
Proof. induction l as [|k t IH]; cbn [forallb]; [reflexivity|]. now rewrite IH, negb_involutive. Qed.

Lemma frag_sanity s keys norm_obs :
  sanity_frag s keys = sanity_accepts s keys /\
  (if vnk_ctor_checks_guard norm_obs then sanity_frag s keys else true) = ctor_accepts norm_obs s keys.
Proof.
  assert (E : sanity_frag s keys = sanity_accepts s keys).
  { destruct s as [w|ks|]; destruct keys as [l|]; try reflexivity.
    - exact (forallb_negneg (is_box_key ks) l).
    - exact (forallb_negneg (is_box_key ks) (map fst ks)). }
  split; [exact E|]. unfold vnk_ctor_checks_guard, ctor_accepts. now rewrite E.
Qed.

(* accepted (norm_obs on) = a Dict space all of whose selected keys are Box keys of it, or a Box space without norm_obs_keys *)
Lemma sanity_accepts_iff s keys :
  ctor_accepts true s keys = true <->
  (exists ks, s = SDict ks /\ forall k, In k (effective_keys s keys) -> exists w, kget k ks None = Some w) \/
  (exists w, s = SBox w /\ keys = None).
Proof.
  cbn [ctor_accepts]. destruct s as [w|ks|]; cbn [sanity_accepts].
  - destruct keys; split.
    + discriminate.
    + intros [(ks & E & _)|(w' & _ & E)]; discriminate.
    + intros _. right. now exists w.
    + reflexivity.
  - rewrite forallb_forall. split.
    + intros H. left. exists ks. split; [reflexivity|]. intros k Hk. specialize (H k Hk). unfold is_box_key in H.
      destruct (kget k ks None) as [w|]; [now exists w|discriminate].
    + intros [(ks' & E & H)|(w & E & _)]; [|discriminate]. inversion E; subst ks'. intros k Hk. destruct (H k Hk) as [w Hw].
      unfold is_box_key. now rewrite Hw.
  - split; [discriminate|]. intros [(ks & E & _)|(w & E & _)]; discriminate.
Qed.

Lemma ctor_norm_obs_off s keys : ctor_accepts false s keys = true.
Proof. reflexivity. Qed.

(* ---------- key loops of step_wait / reset / normalize_obs / unnormalize_obs (regenerated) ---------- *)
Lemma frag_key_loops a b :
  (* step_wait / reset: for key in self.obs_rms.keys(): self.obs_rms[key].update(obs[key]) *)
  vnk_step_dict_guard a b = a && b /\ vnk_reset_dict_guard a b = a && b /\
  (vnk_step_loop_source, vnk_step_update_stat_key, vnk_step_update_obs_key) = (1, 1, 1)%Z /\
  (vnk_reset_loop_source, vnk_reset_update_stat_key, vnk_reset_update_obs_key) = (1, 1, 1)%Z /\
  (* normalize_obs / unnormalize_obs: for key in self.norm_obs_keys: obs_[key] = f(obs[key], self.obs_rms[key]) *)
  vnk_norm_dict_guard a b = a && b /\ vnk_unnorm_dict_guard a b = a && b /\ vnk_unnorm_guard a = a /\
  (vnk_norm_loop_source, vnk_norm_target_key, vnk_norm_source_key, vnk_norm_stat_key) = (1, 1, 1, 1)%Z /\
  (vnk_unnorm_loop_source, vnk_unnorm_target_key, vnk_unnorm_source_key, vnk_unnorm_stat_key) = (1, 1, 1, 1)%Z.
Proof. destruct a, b; repeat split. Qed.

(* ---------- pickling, __setstate__, set_venv ---------- *)
Lemma keyed_pickle_preserves st n :
  k_rms (kunpickle_pickle st n) = k_rms st /\ k_keys (kunpickle_pickle st n) = k_keys st /\
  k_old_obs (kunpickle_pickle st n) = k_old_obs st /\
  v_ret_rms (k_base (kunpickle_pickle st n)) = v_ret_rms (k_base st) /\
  v_training (k_base (kunpickle_pickle st n)) = v_training (k_base st) /\
  v_norm_obs (k_base (kunpickle_pickle st n)) = v_norm_obs (k_base st) /\
  v_norm_reward (k_base (kunpickle_pickle st n)) = v_norm_reward (k_base st) /\
  v_returns (k_base (kunpickle_pickle st n)) = repeat 0%Q n /\
  (forall k, v_obs_rms (proj k (kunpickle_pickle st n)) = v_obs_rms (proj k st)).
Proof. repeat split. Qed.

Lemma keyed_set_venv has st n :
  kset_venv has st n = if vnk_set_venv_refuse_guard (negb has) true then None else Some (kunpickle_pickle st n).
Proof. destruct has; reflexivity. Qed.

Lemma frag_setstate missing is_dict s keys :
  vnk_setstate_legacy_guard missing is_dict = missing && is_dict /\
  (vnk_setstate_legacy_source, vnk_set_venv_num_envs_source, vnk_set_venv_returns_len) = (1, 1, 1)%Z /\
  ksetstate_keys s (Some keys) = keys /\ (forall ks, ksetstate_keys (SDict ks) None = map fst ks).
Proof. destruct missing, is_dict; repeat split. Qed.

(* after the round trip the loaded wrapper behaves, key by key, like the saved one with zero accumulators *)
Lemma keyed_loaded_continues upd red p st n h k :
  proj k (kvn_run upd red p (kunpickle_pickle st n) h)
  = vn_run upd red (projp p (length (kget k (k_rms st) []))) (unpickle_pickle (proj k st) n) (map (proj_op k) h).
Proof. rewrite proj_run_sim. reflexivity. Qed.
