(* C02, build round 5 - has_attr as an atomic public call of the protocol model: under EVERY schedule the answer of the
   SubprocVecEnv model is the DummyVecEnv answer computed from the CURRENT sub-environment states (whatever created or
   deleted the attribute before: set_attr, a sub-environment method, ...).  An answer remembered from an earlier call
   would make these statements false (ex_has_attr_answer_changes). *)
From Coq Require Import List ZArith Bool Lia.
From SB3V Require Import Lib.Tactics Model.Script Model.VecEnv Model.Subproc Gen.Frag_Subproc Proofs.SubprocProofs.
Import ListNotations.
Local Open Scope nat_scope.

Lemma set_nth_same {X} : forall (l : list X) i x, nth_error l i = Some x -> set_nth i x l = l.
Proof.
  induction l as [|y l IH]; intros [|i] x H; cbn in *; try discriminate.
  - injection H as ->. reflexivity.
  - f_equal. apply IH. exact H.
Qed.

Lemma map_nth_error_seq {X Y} (f : option X -> Y) : forall (l : list X),
  map (fun t => f (nth_error l t)) (seq 0 (length l)) = map (fun x => f (Some x)) l.
Proof.
  induction l as [|x l IH]; [reflexivity|].
  cbn [length seq map nth_error]. f_equal. rewrite <- seq_shift, map_map. cbn [nth_error]. exact IH.
Qed.

Section Generic.
Context {W C R : Type}.
Variable wstep : W -> C -> W * R.

(* a command that never changes the worker's state: the Dummy loop over any in-range targets leaves all states as they are and
   returns, per target, the reply computed from the state as it is at the time of the call *)
Lemma dloop_read_only : forall (c : C) (ans : W -> R),
  (forall w, wstep w c = (w, ans w)) ->
  forall ts sts,
    dloop wstep sts ts (fun _ => c)
    = (sts, flat_map (fun t => match nth_error sts t with Some w => [ans w] | None => [] end) ts).
Proof.
  intros c ans H. induction ts as [|t ts IH]; intros sts; [reflexivity|].
  cbn [Subproc.dloop flat_map]. destruct (nth_error sts t) as [w|] eqn:E.
  - rewrite H, (set_nth_same _ _ _ E), IH. reflexivity.
  - rewrite IH. reflexivity.
Qed.

Lemma dhistory_app : forall a b sts,
  dhistory wstep sts (a ++ b)
  = (fst (dhistory wstep (fst (dhistory wstep sts a)) b),
     snd (dhistory wstep sts a) ++ snd (dhistory wstep (fst (dhistory wstep sts a)) b)).
Proof.
  induction a as [|[ts p] a IH]; intros b sts.
  - cbn [app Subproc.dhistory fst snd]. destruct (dhistory wstep sts b); reflexivity.
  - cbn [app Subproc.dhistory]. destruct (dloop wstep sts ts p) as [sts1 xs].
    rewrite IH. destruct (dhistory wstep sts1 a) as [sts2 lg]. cbn [fst snd].
    destruct (dhistory wstep sts2 b) as [sts3 lg3]. cbn [fst snd]. rewrite app_assoc. reflexivity.
Qed.
End Generic.

Lemma flat_map_singleton_seq : forall (sts : list wstate) nm,
  flat_map (fun t => match nth_error sts t with Some w => [ResBool (attr_present w nm)] | None => [] end) (seq 0 (length sts))
  = map (fun w => ResBool (attr_present w nm)) sts.
Proof.
  intros sts nm. rewrite flat_map_concat_map.
  rewrite (map_nth_error_seq (fun o => match o with Some w => [ResBool (attr_present w nm)] | None => [] end) sts).
  induction sts as [|w sts IH]; [reflexivity|]. cbn [map concat app]. f_equal. exact IH.
Qed.

(* has_attr over all sub-environments, DummyVecEnv way: no state changes, one answer per sub-environment, in index order *)
Lemma dloop_has_attr : forall (sts : list wstate) nm,
  dloop sworker_step sts (seq 0 (length sts)) (fun _ => CmdHasAttr nm) = (sts, map (fun w => ResBool (attr_present w nm)) sts).
Proof.
  intros sts nm.
  rewrite (dloop_read_only sworker_step (CmdHasAttr nm) (fun w => ResBool (attr_present w nm))) by reflexivity.
  rewrite flat_map_singleton_seq. reflexivity.
Qed.

Lemma calls_methods_snoc_has_attr : forall cs n seeds opts nm,
  calls_methods n seeds opts (cs ++ [KaHasAttr nm]) = calls_methods n seeds opts cs ++ [(seq 0 n, fun _ => CmdHasAttr nm)].
Proof.
  induction cs as [|c cs IH]; intros n seeds opts nm; [reflexivity|].
  destruct c; cbn [app calls_methods]; rewrite IH; reflexivity.
Qed.

Lemma has_attr_answer_bools : forall (sts : list wstate) nm,
  has_attr_answer (map (fun w => ResBool (attr_present w nm)) sts) = dummy_has_attr sts nm.
Proof.
  intros sts nm. unfold has_attr_answer, dummy_has_attr. induction sts as [|w sts IH]; [reflexivity|].
  cbn [map forallb]. rewrite IH. reflexivity.
Qed.

Lemma winitw_length : forall scs flags, length (winitw scs flags) = length scs.
Proof. intros. unfold winitw. rewrite map_length, combine_length, seq_length. lia. Qed.

Lemma dummy_states_length : forall scs flags cs,
  Forall (call_targets_ok (length scs)) cs -> length (dummy_states scs flags cs) = length scs.
Proof.
  intros scs flags cs H. unfold dummy_states.
  rewrite (dhistory_length sworker_step); [apply winitw_length|].
  rewrite winitw_length. apply calls_methods_in_range. exact H.
Qed.

(* the DummyVecEnv semantics of a history that ends with has_attr: the states are untouched, the replies are the presence of the
   attribute in every sub-environment as the history before left it *)
Lemma dhistory_snoc_has_attr : forall scs flags cs nm,
  let n := length scs in
  Forall (call_targets_ok n) cs ->
  dhistory sworker_step (winitw scs flags) (calls_methods n (repeat None n) (repeat None n) (cs ++ [KaHasAttr nm]))
  = (dummy_states scs flags cs,
     snd (dhistory sworker_step (winitw scs flags) (calls_methods n (repeat None n) (repeat None n) cs))
     ++ combine (seq 0 n) (map (fun w => ResBool (attr_present w nm)) (dummy_states scs flags cs))).
Proof.
  intros scs flags cs nm n H.
  rewrite calls_methods_snoc_has_attr, dhistory_app.
  cbn [Subproc.dhistory].
  pose proof (dummy_states_length scs flags cs H) as L.
  pose proof (dloop_has_attr (dummy_states scs flags cs) nm) as X. rewrite L in X.
  unfold dummy_states in *. fold n in X. fold n.
  rewrite X. cbn [fst snd]. rewrite app_nil_r. reflexivity.
Qed.

(* EVERY schedule: a legal history followed by has_attr(name) hands the parent, after the replies of the history, one boolean per
   worker in index order, each the presence of the attribute in that sub-environment NOW; their conjunction (the public answer) is
   the DummyVecEnv answer on the current states; has_attr itself changes no state *)
Theorem scripted_has_attr_any_schedule : forall scs flags cs nm sched cfg',
  let n := length scs in
  let prog := calls_prog n (repeat None n) (repeat None n) (cs ++ [KaHasAttr nm]) in
  let before := snd (dhistory sworker_step (winitw scs flags) (calls_methods n (repeat None n) (repeat None n) cs)) in
  Forall (call_targets_ok n) cs ->
  exec sworker_step (init prog (winitw scs flags)) sched = Some cfg' -> pc cfg' = [] ->
  log cfg' = before ++ combine (seq 0 n) (map (fun w => ResBool (attr_present w nm)) (dummy_states scs flags cs)) /\
  has_attr_answer (map snd (skipn (length before) (log cfg'))) = dummy_has_attr (dummy_states scs flags cs) nm /\
  dummy_states scs flags (cs ++ [KaHasAttr nm]) = dummy_states scs flags cs.
Proof.
  intros scs flags cs nm sched cfg' n prog before H E P.
  assert (H' : Forall (call_targets_ok n) (cs ++ [KaHasAttr nm])).
  { apply Forall_app. split; [exact H|]. constructor; [exact I|constructor]. }
  pose proof (scripted_history_any_schedule scs flags (cs ++ [KaHasAttr nm]) sched cfg' H' E P) as L.
  fold n in L. pose proof (dhistory_snoc_has_attr scs flags cs nm H) as D. fold n in D.
  rewrite D in L. cbn [snd] in L. fold before in L.
  split; [exact L|]. split.
  - rewrite L, skipn_app, skipn_all, Nat.sub_diag. cbn [skipn app].
    pose proof (dummy_states_length scs flags cs H) as Ls. fold n in Ls.
    assert (M : forall (xs : list sres), length xs = n -> map snd (combine (seq 0 n) xs) = xs).
    { intros xs Lx. generalize 0 as k. revert xs Lx. generalize n as m.
      induction m as [|m IH]; intros [|x xs] Lx k; cbn in *; try lia; try reflexivity.
      f_equal. apply IH. lia. }
    rewrite M by (rewrite map_length; exact Ls). apply has_attr_answer_bools.
  - unfold dummy_states at 1. fold n. rewrite D. reflexivity.
Qed.

(* and the run cannot get stuck: from every configuration reachable under any schedule the call can be completed with that answer *)
Theorem scripted_has_attr_no_deadlock : forall scs flags cs nm sched cfg,
  let n := length scs in
  let prog := calls_prog n (repeat None n) (repeat None n) (cs ++ [KaHasAttr nm]) in
  let before := snd (dhistory sworker_step (winitw scs flags) (calls_methods n (repeat None n) (repeat None n) cs)) in
  Forall (call_targets_ok n) cs ->
  exec sworker_step (init prog (winitw scs flags)) sched = Some cfg ->
  exists sched' cfg', exec sworker_step cfg sched' = Some cfg' /\ pc cfg' = [] /\
    has_attr_answer (map snd (skipn (length before) (log cfg'))) = dummy_has_attr (dummy_states scs flags cs) nm.
Proof.
  intros scs flags cs nm sched cfg n prog before H E.
  assert (H' : Forall (call_targets_ok n) (cs ++ [KaHasAttr nm])).
  { apply Forall_app. split; [exact H|]. constructor; [exact I|constructor]. }
  destruct (scripted_history_no_deadlock scs flags (cs ++ [KaHasAttr nm]) sched cfg H' E) as (sched' & cfg' & E' & P' & _).
  exists sched', cfg'. split; [exact E'|]. split; [exact P'|].
  assert (E2 : exec sworker_step (init prog (winitw scs flags)) (sched ++ sched') = Some cfg').
  { rewrite exec_app, E. exact E'. }
  exact (proj1 (proj2 (scripted_has_attr_any_schedule scs flags cs nm (sched ++ sched') cfg' H E2 P'))).
Qed.

(* the worker-side semantics of the three new commands, as facts: has_attr reads, the env method and set_attr write *)
Lemma has_attr_tracks_changes : forall w,
  attr_present (fst (sworker_step w (CmdDynMethod true))) 2 = true /\
  attr_present (fst (sworker_step w (CmdDynMethod false))) 2 = false /\
  attr_present (fst (sworker_step w CmdSetMade)) 3 = true /\
  (forall nm, fst (sworker_step w (CmdHasAttr nm)) = w) /\
  (forall a nm, attr_present (fst (sworker_step w (CmdStep a))) nm = attr_present w nm) /\
  (forall s o nm, attr_present (fst (sworker_step w (CmdReset s o))) nm = attr_present w nm).
Proof.
  intros w. repeat split; try reflexivity.
  - intros a nm. cbn [sworker_step]. destruct (sub_step sc_step sc_reset (ws_env w) (ws_ri w) a) as [[[e ri] o] c].
    destruct nm as [|[|[|[|nm]]]]; reflexivity.
  - intros s o nm. cbn [sworker_step]. destruct (sub_reset (A:=Z) sc_reset (ws_env w) s o) as [[[e ri] ob] c].
    destruct nm as [|[|[|[|nm]]]]; reflexivity.
Qed.

(* interface: the regenerated has_attr asks the workers selected by _get_target_remotes(indices=None) (= all of them, in index order),
   sends only the caller's argument and returns all([...]) of the replies received in target order *)
Lemma frag_has_attr_public_answer :
  skel_has_attr = model_skel_targets KHasAttr /\ skel_has_attr_payload = [PayCallArgs] /\ skel_has_attr_targets_ok = true /\
  skel_has_attr_results_ordered = true /\ skel_has_attr_answer_is_all = true /\ worker_has_attr_reply_ok = true /\
  skel_indices_none_is_range = true.
Proof. repeat split; reflexivity. Qed.
