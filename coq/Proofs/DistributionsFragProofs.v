(* C14 - interface lemmas: the fragments regenerated from distributions.py (Gen/Frag_dist.v,
   over Q with the transcendental sub-terms as inputs) are the assembly used by Model/Distributions.v. *)
From Coq Require Import Reals QArith Qreals List Lra ZArith Lia ZifyBool.
From SB3V Require Import Gen.Frag_dist Model.Distributions.
Import ListNotations.
Local Open Scope R_scope.

(* sum_independent_dims: per-row sums exactly for rank >= 2 *)
Lemma frag_sum_per_row_rank rank : dist_sum_per_row rank = true <-> (1 < rank)%Z.
Proof. unfold dist_sum_per_row. lia. Qed.

Lemma frag_sum_per_row t :
  sum_independent_dims t =
  if dist_sum_per_row (tensor_rank t)
  then match t with T2 rows => map sumR rows | T1 v => map (fun x => x) v end
  else match t with T1 v => [sumR v] | T2 rows => [] end.
Proof. destruct t; reflexivity. Qed.

(* atanh: half the difference of the two log1p values *)
Lemma frag_atanh lp lm : Q2R (dist_atanh lp lm) = (Q2R lp - Q2R lm) / 2.
Proof.
  unfold dist_atanh. rewrite Q2R_mult, Q2R_minus.
  replace (Q2R (1 # 2)) with (/ 2) by (unfold Q2R; cbn; lra). lra.
Qed.

Lemma frag_atanh_model y lp lm :
  Q2R lp = ln (1 + y) -> Q2R lm = ln (1 + - y) -> Q2R (dist_atanh lp lm) = artanh y.
Proof. intros H1 H2. rewrite frag_atanh, H1, H2. reflexivity. Qed.

Lemma Q2R_inject_Z_bool (b : bool) : Q2R (inject_Z (if b then 1 else 0)%Z) = if b then 1 else 0.
Proof. destruct b; unfold Q2R; cbn; lra. Qed.

Lemma Qle_bool_Rle_dec (q : Q) :
  Qle_bool q (inject_Z 0) = if Rle_dec (Q2R q) 0 then true else false.
Proof.
  assert (E0 : Q2R (inject_Z 0) = 0) by (unfold Q2R; cbn; lra).
  destruct (Qle_bool q (inject_Z 0)) eqn:E; destruct (Rle_dec (Q2R q) 0) as [H|H]; try reflexivity; exfalso.
  - apply Qle_bool_iff in E. apply Qle_Rle in E. rewrite E0 in E. contradiction.
  - rewrite <- E0 in H. apply Rle_Qle in H. apply Qle_bool_iff in H. congruence.
Qed.

(* expln: guards (<= 0 / > 0), the +epsilon and the +1.0 *)
Lemma frag_expln log_std e l1p eps :
  Q2R (fst (dist_expln log_std e l1p eps)) = expln_safe (Q2R eps) (Q2R log_std) /\
  Q2R (snd (dist_expln log_std e l1p eps)) = expln_gen (Q2R log_std) (Q2R e) (Q2R l1p).
Proof.
  unfold dist_expln, expln_safe, expln_gen. cbn [fst snd].
  assert (E1 : Q2R (1 # 1) = 1) by (unfold Q2R; cbn; lra).
  rewrite !Q2R_plus, !Q2R_mult, !Q2R_plus, E1, !Q2R_inject_Z_bool.
  rewrite !(Qle_bool_Rle_dec log_std).
  destruct (Rle_dec (Q2R log_std) 0); destruct (Rlt_dec 0 (Q2R log_std)); cbn [negb]; lra.
Qed.

(* squash correction is subtracted *)
Lemma frag_squash_update lp corr : Q2R (dist_squash_update lp corr) = Q2R lp - Q2R corr.
Proof. unfold dist_squash_update. apply Q2R_minus. Qed.
Lemma frag_gsde_squash_update lp corr : Q2R (dist_gsde_squash_update lp corr) = Q2R lp - Q2R corr.
Proof. unfold dist_gsde_squash_update. apply Q2R_minus. Qed.

Lemma frag_squash_update_model eps p acts gacts lp corr :
  Q2R lp = gauss_logprob p gacts -> Q2R corr = sumR (map (squash_correction eps) acts) ->
  Q2R (dist_squash_update lp corr) = squashed_logprob_g eps p acts gacts.
Proof. intros H1 H2. rewrite frag_squash_update, H1, H2. reflexivity. Qed.
