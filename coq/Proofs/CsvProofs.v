From Coq Require Import List Ascii String Bool Arith Lia.
From SB3V Require Import Model.Csv.
Import ListNotations.
Local Open Scope nat_scope.

(* ---------- characters ---------- *)
Lemma ascii_eqb_eq a b : ascii_eqb a b = true <-> a = b.
Proof.
  unfold ascii_eqb. rewrite Nat.eqb_eq. split; [|now intros ->].
  intros H. rewrite <- (ascii_nat_embedding a), <- (ascii_nat_embedding b), H. reflexivity.
Qed.

Lemma ascii_eqb_refl a : ascii_eqb a a = true.
Proof. now apply ascii_eqb_eq. Qed.

Lemma text_eqb_eq a : forall b, text_eqb a b = true <-> a = b.
Proof.
  induction a as [|x a IH]; intros [|y b]; cbn; split; intros H; try congruence; try reflexivity.
  - apply andb_true_iff in H as [H1 H2]. apply ascii_eqb_eq in H1. apply IH in H2. congruence.
  - inversion H; subst. rewrite ascii_eqb_refl. cbn. now apply IH.
Qed.

Lemma plain_char_spec c : plain_char c = true ->
  ascii_eqb c comma = false /\ ascii_eqb c dquote = false /\ ascii_eqb c nl = false /\ ascii_eqb c cr = false.
Proof.
  unfold plain_char. intros H. repeat (apply andb_true_iff in H as [H ?]).
  repeat split; apply negb_true_iff; assumption.
Qed.

(* ---------- reader inverts printer (any quoted content, also line breaks) ---------- *)
Definition cell_ok (f : field) : bool := match f with FU s => plain s | FQ _ => true end.

Lemma parse_unq s : forall cur row rest, plain s = true ->
  parse PUnq cur row (s ++ comma :: rest) = parse PStart [] (row ++ [FU (cur ++ s)]) rest /\
  parse PUnq cur row (s ++ nl :: rest) = (row ++ [FU (cur ++ s)]) :: parse PStart [] [] rest.
Proof.
  induction s as [|c s IH]; intros cur row rest Hp.
  - rewrite app_nil_r. cbn. split; reflexivity.
  - cbn in Hp. apply andb_true_iff in Hp as [Hc Hs].
    destruct (plain_char_spec c Hc) as (H1 & H2 & H3 & H4).
    cbn [app parse]. rewrite H1, H3.
    destruct (IH (cur ++ [c]) row rest Hs) as [A B]. rewrite A, B, <- app_assoc. split; reflexivity.
Qed.

Lemma parse_start_unq s row rest : plain s = true ->
  parse PStart [] row (s ++ comma :: rest) = parse PStart [] (row ++ [FU s]) rest /\
  parse PStart [] row (s ++ nl :: rest) = (row ++ [FU s]) :: parse PStart [] [] rest.
Proof.
  intros Hp. destruct s as [|c s].
  - cbn. split; reflexivity.
  - cbn in Hp. apply andb_true_iff in Hp as [Hc Hs].
    destruct (plain_char_spec c Hc) as (H1 & H2 & H3 & H4).
    cbn [app parse]. rewrite H1, H2, H3.
    destruct (parse_unq s [c] row rest Hs) as [A B]. rewrite A, B. split; reflexivity.
Qed.

Lemma parse_quo s : forall cur row rest,
  parse PQuo cur row (escape s ++ dquote :: comma :: rest) = parse PStart [] (row ++ [FQ (cur ++ s)]) rest /\
  parse PQuo cur row (escape s ++ dquote :: nl :: rest) = (row ++ [FQ (cur ++ s)]) :: parse PStart [] [] rest.
Proof.
  induction s as [|c s IH]; intros cur row rest.
  - rewrite app_nil_r. cbn. split; reflexivity.
  - cbn [escape]. destruct (ascii_eqb c dquote) eqn:E.
    + apply ascii_eqb_eq in E. subst c. cbn [app parse]. rewrite !ascii_eqb_refl.
      destruct (IH (cur ++ [dquote]) row rest) as [A B]. rewrite A, B, <- app_assoc. split; reflexivity.
    + cbn [app parse]. rewrite E.
      destruct (IH (cur ++ [c]) row rest) as [A B]. rewrite A, B, <- app_assoc. split; reflexivity.
Qed.

Lemma parse_field f row rest : cell_ok f = true ->
  parse PStart [] row (print_field f ++ comma :: rest) = parse PStart [] (row ++ [f]) rest /\
  parse PStart [] row (print_field f ++ nl :: rest) = (row ++ [f]) :: parse PStart [] [] rest.
Proof.
  intros H. destruct f as [s|s]; cbn [print_field].
  - now apply parse_start_unq.
  - cbn [app parse]. rewrite ascii_eqb_refl. rewrite <- !app_assoc. cbn [app].
    destruct (parse_quo s [] row rest) as [A B]. rewrite A, B. split; reflexivity.
Qed.

Lemma join_comma_cons x y r : join_comma (x :: y :: r) = x ++ comma :: join_comma (y :: r).
Proof. reflexivity. Qed.

Lemma parse_row fs : forall row rest, fs <> [] -> forallb cell_ok fs = true ->
  parse PStart [] row (join_comma (map print_field fs) ++ nl :: rest) = (row ++ fs) :: parse PStart [] [] rest.
Proof.
  induction fs as [|f fs IH]; intros row rest Hne Hok; [congruence|].
  cbn in Hok. apply andb_true_iff in Hok as [Hf Hfs].
  destruct fs as [|g fs].
  - cbn [map join_comma]. now destruct (parse_field f row rest Hf) as [_ B].
  - cbn [map]. rewrite join_comma_cons, <- app_assoc. cbn [app].
    destruct (parse_field f row (join_comma (map print_field (g :: fs)) ++ nl :: rest) Hf) as [A _].
    cbn [map] in A. rewrite A. rewrite IH by (congruence || assumption). now rewrite <- app_assoc.
Qed.

Lemma parse_print_table t :
  Forall (fun r => r <> [] /\ forallb cell_ok r = true) t -> parse_csv (print_table t) = t.
Proof.
  unfold parse_csv. induction t as [|r t IH]; intros H; [reflexivity|].
  inversion H as [|? ? [Hne Hok] Ht]; subst. cbn [print_table flat_map]. unfold print_row at 1.
  rewrite <- app_assoc. cbn [app]. rewrite parse_row by assumption. cbn [app]. f_equal. now apply IH.
Qed.

(* ---------- physical lines of a printed table whose fields contain no line break ---------- *)
Lemma split_lines_line s : forall cur rest, no_break s = true ->
  split_lines cur (s ++ nl :: rest) = (cur ++ s) :: split_lines [] rest.
Proof.
  induction s as [|c s IH]; intros cur rest H.
  - rewrite app_nil_r. cbn. reflexivity.
  - cbn in H. apply andb_true_iff in H as [Hc Hs]. apply negb_true_iff in Hc.
    cbn [app split_lines]. rewrite Hc, IH by assumption. now rewrite <- app_assoc.
Qed.

Lemma no_break_app a b : no_break (a ++ b) = no_break a && no_break b.
Proof. unfold no_break. apply forallb_app. Qed.

Lemma no_break_escape s : no_break s = true -> no_break (escape s) = true.
Proof.
  induction s as [|c s IH]; [auto|]. intros H.
  change (negb (is_break c) && no_break s = true) in H. apply andb_true_iff in H as [Hc Hs].
  cbn [escape]. destruct (ascii_eqb c dquote).
  - change (no_break ([dquote; dquote] ++ escape s) = true). rewrite no_break_app, IH by assumption. reflexivity.
  - change (negb (is_break c) && no_break (escape s) = true). rewrite Hc, IH by assumption. reflexivity.
Qed.

Lemma plain_no_break s : plain s = true -> no_break s = true.
Proof.
  induction s as [|c s IH]; [auto|]. intros H.
  change (plain_char c && plain s = true) in H. apply andb_true_iff in H as [Hc Hs].
  destruct (plain_char_spec c Hc) as (_ & _ & H3 & H4).
  change (negb (is_break c) && no_break s = true). unfold is_break. rewrite H3, H4, IH by assumption. reflexivity.
Qed.

Definition fld_ok (f : field) : bool := cell_ok f && field_no_break f.

Lemma no_break_print_field f : fld_ok f = true -> no_break (print_field f) = true.
Proof.
  unfold fld_ok. intros H. apply andb_true_iff in H as [H1 H2]. destruct f as [s|s]; cbn [print_field cell_ok field_no_break] in *.
  - now apply plain_no_break.
  - change (no_break ([dquote] ++ escape s ++ [dquote]) = true).
    rewrite !no_break_app, no_break_escape by assumption. reflexivity.
Qed.

Lemma no_break_join l : forallb (fun s => no_break s) l = true -> no_break (join_comma l) = true.
Proof.
  induction l as [|x l IH]; cbn [forallb]; [reflexivity|]. intros H. apply andb_true_iff in H as [Hx Hl].
  destruct l as [|y l]; [exact Hx|]. rewrite join_comma_cons, no_break_app, Hx. cbn. now apply IH.
Qed.

Definition row_text (r : list field) : text := join_comma (map print_field r).

Lemma no_break_row r : forallb fld_ok r = true -> no_break (row_text r) = true.
Proof.
  intros H. apply no_break_join. rewrite forallb_forall in *. intros s Hs.
  apply in_map_iff in Hs as (f & <- & Hf). apply no_break_print_field. now apply H.
Qed.

Lemma split_lines_table t : Forall (fun r => forallb fld_ok r = true) t ->
  split_lines [] (print_table t) = map row_text t.
Proof.
  induction t as [|r t IH]; intros H; [reflexivity|].
  inversion H; subst. cbn [print_table flat_map map]. unfold print_row at 1. rewrite <- app_assoc. cbn [app].
  rewrite split_lines_line by (now apply no_break_row). cbn [app]. f_equal. now apply IH.
Qed.

(* appending k separators to a line = padding the row with k empty cells *)
Lemma row_text_snoc l : l <> [] -> row_text (l ++ [FU []]) = row_text l ++ [comma].
Proof.
  unfold row_text. induction l as [|f l IHl]; [congruence|]. intros _. destruct l as [|g l].
  - cbn. reflexivity.
  - cbn [app map] in *. rewrite !join_comma_cons, IHl by congruence. now rewrite <- app_assoc.
Qed.

Lemma repeat_snoc {A} (x : A) k : repeat x (S k) = repeat x k ++ [x].
Proof. induction k as [|k IH]; [reflexivity|]. cbn [repeat app] in *. now rewrite <- IH. Qed.

Lemma row_text_pad r k : r <> [] -> row_text (r ++ repeat (FU []) k) = row_text r ++ repeat comma k.
Proof.
  intros Hne. induction k as [|k IH]; [cbn; now rewrite !app_nil_r|].
  rewrite !repeat_snoc, !app_assoc, <- IH. apply row_text_snoc.
  destruct r; [congruence|discriminate].
Qed.

(* ---------- the writer keeps the file equal to the printed table ---------- *)
Lemma lookup_none k kv : ~ In k (map fst kv) -> lookup k kv = None.
Proof.
  induction kv as [|[k' v] kv IH]; cbn [lookup map fst]; [reflexivity|]. intros H.
  destruct (text_eqb k k') eqn:E.
  - apply text_eqb_eq in E. subst. exfalso. apply H. now left.
  - apply IH. intros X. apply H. now right.
Qed.

Definition kv_ok (kv : list (text * field)) : bool := forallb (fun p => fld_ok (snd p)) kv.

Lemma lookup_ok k kv : kv_ok kv = true -> fld_ok (cell_of (lookup k kv)) = true.
Proof.
  induction kv as [|[k' v] kv IH]; cbn [lookup kv_ok forallb]; [reflexivity|]. intros H.
  apply andb_true_iff in H as [Hv Hr]. destruct (text_eqb k k'); [exact Hv|now apply IH].
Qed.

Lemma expected_row_ok keys kv : kv_ok kv = true -> forallb fld_ok (expected_row keys kv) = true.
Proof.
  intros H. unfold expected_row. apply forallb_forall. intros f Hf.
  apply in_map_iff in Hf as (k & <- & _). now apply lookup_ok.
Qed.

Lemma expected_row_pad keys extra kv : (forall k, In k extra -> ~ In k (map fst kv)) ->
  expected_row (keys ++ extra) kv = expected_row keys kv ++ repeat (FU []) (List.length extra).
Proof.
  intros H. unfold expected_row. rewrite map_app. f_equal.
  induction extra as [|e extra IH]; [reflexivity|]. cbn [map List.length repeat].
  rewrite lookup_none by (apply H; now left). cbn [cell_of]. f_equal. apply IH. intros k Hk. apply H. now right.
Qed.

Lemma render_row keys kv : join_comma (map (fun k => render_cell (lookup k kv)) keys) = row_text (expected_row keys kv).
Proof.
  unfold row_text, expected_row. rewrite map_map. f_equal. apply map_ext. intros k.
  destruct (lookup k kv); reflexivity.
Qed.

Lemma header_row keys : join_comma keys = row_text (map FU keys).
Proof. unfold row_text. rewrite map_map. cbn [print_field]. now rewrite map_id. Qed.

Lemma header_ok keys : forallb plain keys = true -> forallb fld_ok (map FU keys) = true.
Proof.
  intros H. apply forallb_forall. intros f Hf. apply in_map_iff in Hf as (k & <- & Hk).
  unfold fld_ok. cbn. rewrite forallb_forall in H. rewrite (H k Hk). reflexivity.
Qed.

Definition Inv (c : csv) (past : list (list (text * field))) : Prop :=
  c_keys c <> [] /\ forallb plain (c_keys c) = true /\
  Forall (fun kv => kv_ok kv = true /\ forall k, In k (map fst kv) -> In k (c_keys c)) past /\
  c_file c = print_table (map FU (c_keys c) :: map (expected_row (c_keys c)) past).

Lemma print_table_app a b : print_table (a ++ b) = print_table a ++ print_table b.
Proof. unfold print_table. apply flat_map_app. Qed.

Lemma pad_lines k rows : Forall (fun r : list field => r <> []) rows ->
  flat_map (fun l => l ++ repeat comma k ++ [nl]) (map row_text rows)
  = print_table (map (fun r => r ++ repeat (FU []) k) rows).
Proof.
  induction rows as [|r rows IH]; intros H; [reflexivity|]. inversion H; subst.
  cbn [map flat_map print_table]. rewrite IH by assumption. unfold print_row at 1.
  fold (row_text (r ++ repeat (FU []) k)). rewrite row_text_pad by assumption. now rewrite <- !app_assoc.
Qed.

Lemma expected_row_nonempty keys kv : keys <> [] -> expected_row keys kv <> [].
Proof. destruct keys; [congruence|]. intros _. discriminate. Qed.

Lemma csv_write_inv c past kv extra :
  (Inv c past \/ (c = csv0 /\ past = [] /\ extra <> [])) ->
  kv_ok kv = true -> forallb plain extra = true ->
  (forall k, In k extra -> ~ In k (c_keys c)) ->
  (forall k, In k (map fst kv) -> In k (c_keys c ++ extra)) ->
  Inv (csv_write c kv extra) (past ++ [kv]).
Proof.
  intros H Hkv Hpl Hnew Hcov. destruct H as [(Hne & Hplain & Hpast & Hfile) | (-> & -> & Hex)].
  - unfold Inv, csv_write. cbn [c_keys c_file]. destruct extra as [|e es].
    + rewrite app_nil_r in *. split; [exact Hne|]. split; [exact Hplain|]. split.
      * apply Forall_app. split; [exact Hpast|]. constructor; [|constructor]. split; [exact Hkv|exact Hcov].
      * rewrite Hfile, render_row, map_app. cbn [map].
        change (map FU (c_keys c) :: map (expected_row (c_keys c)) past ++ [expected_row (c_keys c) kv])
          with ((map FU (c_keys c) :: map (expected_row (c_keys c)) past) ++ [expected_row (c_keys c) kv]).
        rewrite print_table_app. f_equal. cbn [print_table flat_map]. now rewrite app_nil_r.
    + set (extra := e :: es) in *. set (keys' := c_keys c ++ extra).
      assert (Hne' : keys' <> []) by (unfold keys'; destruct (c_keys c); [congruence|discriminate]).
      assert (Hplain' : forallb plain keys' = true) by (unfold keys'; rewrite forallb_app, Hplain, Hpl; reflexivity).
      split; [exact Hne'|]. split; [exact Hplain'|]. split.
      * apply Forall_app. split.
        -- eapply Forall_impl; [|exact Hpast]. intros kv0 [A B]. split; [exact A|].
           intros k Hk. unfold keys'. apply in_or_app. left. now apply B.
        -- constructor; [|constructor]. split; [exact Hkv|exact Hcov].
      * rewrite Hfile.
        rewrite split_lines_table.
        2:{ constructor; [now apply header_ok|]. apply Forall_forall. intros r Hr.
            apply in_map_iff in Hr as (kv0 & <- & Hin). apply expected_row_ok.
            rewrite Forall_forall in Hpast. now destruct (Hpast kv0 Hin). }
        cbn [map tl]. rewrite pad_lines.
        2:{ apply Forall_forall. intros r Hr. apply in_map_iff in Hr as (kv0 & <- & _). now apply expected_row_nonempty. }
        rewrite map_map.
        assert (E : map (fun kv0 => expected_row (c_keys c) kv0 ++ repeat (FU []) (List.length extra)) past
                    = map (expected_row keys') past).
        { apply map_ext_in. intros kv0 Hin. unfold keys'. symmetry. apply expected_row_pad.
          intros k Hk Hin2. rewrite Forall_forall in Hpast. destruct (Hpast kv0 Hin) as [_ B].
          apply (Hnew k Hk). now apply B. }
        rewrite E, render_row, header_row, map_app. cbn [map].
        change (map FU keys' :: map (expected_row keys') past ++ [expected_row keys' kv])
          with ((map FU keys' :: map (expected_row keys') past) ++ [expected_row keys' kv]).
        rewrite print_table_app. cbn [print_table flat_map]. unfold print_row.
        rewrite app_nil_r, <- !app_assoc. reflexivity.
  - (* first dump: empty file, at least one new key *)
    unfold Inv, csv_write, csv0. cbn [c_keys c_file app]. destruct extra as [|e es]; [congruence|].
    set (extra := e :: es) in *. cbn [c_keys app] in *.
    split; [discriminate|]. split; [exact Hpl|]. split.
    + constructor; [|constructor]. split; [exact Hkv|exact Hcov].
    + cbn [split_lines tl flat_map map]. rewrite render_row, header_row.
      cbn [print_table flat_map]. unfold print_row, row_text. now rewrite app_nil_r.
Qed.

(* side conditions of a history, relative to the columns known so far *)
Fixpoint dumps_ok (keys : list text) (ds : list (list (text * field) * list text)) : Prop :=
  match ds with
  | [] => True
  | (kv, extra) :: rest =>
      kv_ok kv = true /\ forallb plain extra = true /\
      (forall k, In k extra -> ~ In k keys) /\
      (forall k, In k (map fst kv) -> In k (keys ++ extra)) /\
      dumps_ok (keys ++ extra) rest
  end.

Lemma csv_run_inv ds : forall c past, Inv c past -> dumps_ok (c_keys c) ds ->
  Inv (csv_run c ds) (past ++ map fst ds).
Proof.
  induction ds as [|[kv extra] ds IH]; intros c past HI Hok; cbn [csv_run map].
  - now rewrite app_nil_r.
  - cbn [dumps_ok] in Hok. destruct Hok as (A & B & C & D & E).
    replace (past ++ fst (kv, extra) :: map fst ds) with ((past ++ [kv]) ++ map fst ds) by (rewrite <- app_assoc; reflexivity).
    apply IH; [apply csv_write_inv; auto|]. cbn [csv_write c_keys]. exact E.
Qed.

(* MAIN: for every history whose first dump brings a column, whose new-column order is any oracle choice, and
   whose string values contain no line break: the file parses back to the table of what was recorded *)
Lemma csv_roundtrip kv0 extra0 rest :
  extra0 <> [] -> dumps_ok [] ((kv0, extra0) :: rest) ->
  let c := csv_run csv0 ((kv0, extra0) :: rest) in
  parse_csv (c_file c) = expected_table (c_keys c) ((kv0, extra0) :: rest).
Proof.
  intros Hne Hok. cbn zeta. cbn [csv_run].
  cbn [dumps_ok] in Hok. destruct Hok as (A & B & C & D & E).
  assert (I1 : Inv (csv_write csv0 kv0 extra0) ([] ++ [kv0])).
  { apply csv_write_inv; auto. }
  pose proof (csv_run_inv rest _ _ I1) as I2. cbn [csv_write c_keys csv0 app] in I2. specialize (I2 E).
  cbn [app] in I2.
  remember (csv_run (csv_write csv0 kv0 extra0) rest) as c eqn:Ec.
  destruct I2 as (Hk & Hp & Hpast & Hfile).
  rewrite Hfile. unfold expected_table.
  assert (X : map (fun d : list (text * field) * list text => expected_row (c_keys c) (fst d)) ((kv0, extra0) :: rest)
              = map (expected_row (c_keys c)) (kv0 :: map fst rest)) by (cbn [map fst]; now rewrite map_map).
  rewrite X. clear X.
  apply parse_print_table. constructor.
  - split; [destruct (c_keys c); [congruence|discriminate]|].
    pose proof (header_ok _ Hp) as H. rewrite forallb_forall in *. intros f Hf. specialize (H f Hf).
    unfold fld_ok in H. now apply andb_true_iff in H as [H _].
  - apply Forall_forall. intros r Hr. apply in_map_iff in Hr as (kv & <- & Hin).
    split; [now apply expected_row_nonempty|].
    rewrite Forall_forall in Hpast. destruct (Hpast kv Hin) as [Hkv _].
    pose proof (expected_row_ok (c_keys c) kv Hkv) as H.
    rewrite forallb_forall in *. intros f Hf. specialize (H f Hf). unfold fld_ok in H. now apply andb_true_iff in H as [H _].
Qed.

(* ---------- review item: with the library reader's blank-line skipping ---------- *)
Lemma filter_all {A} (f : A -> bool) l : forallb f l = true -> filter f l = l.
Proof. induction l as [|x l IH]; cbn; [reflexivity|]. intros H. apply andb_true_iff in H as [H1 H2]. now rewrite H1, IH. Qed.

Lemma csv_roundtrip_skip_blank kv0 extra0 rest :
  extra0 <> [] -> dumps_ok [] ((kv0, extra0) :: rest) ->
  let c := csv_run csv0 ((kv0, extra0) :: rest) in
  parse_csv_skip_blank (c_file c) = filter (fun r => negb (is_blank_row r)) (expected_table (c_keys c) ((kv0, extra0) :: rest)) /\
  (no_blank_rows (expected_table (c_keys c) ((kv0, extra0) :: rest)) = true ->
   parse_csv_skip_blank (c_file c) = expected_table (c_keys c) ((kv0, extra0) :: rest)).
Proof.
  intros Hne Hok. cbn zeta. unfold parse_csv_skip_blank. rewrite (csv_roundtrip kv0 extra0 rest Hne Hok).
  split; [reflexivity|]. intros H. now apply filter_all.
Qed.

(* ---------- the comparators used by the correspondence, pinned: one accepted and one rejected pair each ---------- *)
Example text_eqb_pins :
  text_eqb (list_ascii_of_string "ab") (list_ascii_of_string "ab") = true /\
  text_eqb (list_ascii_of_string "ab") (list_ascii_of_string "ac") = false /\
  text_eqb (list_ascii_of_string "ab") (list_ascii_of_string "a") = false /\ text_eqb [] (list_ascii_of_string "a") = false.
Proof. repeat split. Qed.

Example table_eqb_pins :
  let T := fun s : string => list_ascii_of_string s in
  field_eqb (FU (T "a"%string)) (FU (T "a"%string)) = true /\ field_eqb (FU (T "a"%string)) (FQ (T "a"%string)) = false /\ field_eqb (FQ (T "a"%string)) (FQ (T "b"%string)) = false /\
  table_eqb [[FU (T "a"%string); FQ (T "b"%string)]; [FU []]] [[FU (T "a"%string); FQ (T "b"%string)]; [FU []]] = true /\
  table_eqb [[FU (T "a"%string)]] [[FU (T "a"%string)]; [FU []]] = false /\ table_eqb [[FU (T "a"%string)]; [FU []]] [[FU (T "a"%string)]] = false /\
  table_eqb [[FU (T "a"%string); FU (T "b"%string)]] [[FU (T "a"%string); FU (T "c"%string)]] = false /\ table_eqb [[FU (T "a"%string); FU (T "b"%string)]] [[FU (T "a"%string)]] = false.
Proof. repeat split. Qed.

Example first_diff_pins :
  let T := fun s : string => list_ascii_of_string s in
  first_diff (T "abc"%string) (T "abc"%string) 0 = None /\ first_diff (T "abc"%string) (T "abd"%string) 0 = Some 2 /\ first_diff (T "ab"%string) (T "abc"%string) 0 = Some 2.
Proof. repeat split. Qed.
