(* C08 x C12: target updates over a whole learn() call. *)
From SB3V Require Import Lib.Tactics Model.LearnLoop Model.Cadence Model.LearnCadence Proofs.LearnLoopProofs Proofs.CadenceProofs.
From SB3V Require Import Model.Polyak Proofs.PolyakProofs.
Local Open Scope Z_scope.

(* ------------------------------------------------------------------ the loop with equal rollouts, in closed form *)
Lemma n_rollouts_succ R total num : 0 < R -> num < total ->
  n_rollouts R total num = S (n_rollouts R total (num + R)).
Proof.
  intros HR Hlt. unfold n_rollouts. destruct (Z.ltb_spec num total); [|lia].
  destruct (Z.ltb_spec (num + R) total) as [Hc|Hc].
  - replace (total - num - 1) with (total - (num + R) - 1 + 1 * R) by ring. rewrite Z_div_plus_full by lia.
    rewrite <- Z2Nat.inj_succ; [f_equal; lia|]. pose proof (Z.div_pos (total - (num + R) - 1) R ltac:(lia) HR). lia.
  - rewrite Z.div_small by lia. reflexivity.
Qed.

Lemma flat_map_seq_shift {A} (f : nat -> list A) n : forall a,
  flat_map f (seq (S a) n) = flat_map (fun j => f (S j)) (seq a n).
Proof. induction n as [|n IH]; intros a; cbn [seq flat_map]; [reflexivity|]. rewrite IH. reflexivity. Qed.

Theorem loop_const_closed_form m n_envs total stop s : (forall n, stop n = false) ->
  0 < Z.of_nat s * n_envs -> forall K num,
  total - num <= Z.of_nat K * (Z.of_nat s * n_envs) ->
  let R := Z.of_nat s * n_envs in
  let r := loop m n_envs total stop (repeat s K) num in
  fst (fst r) = flat_map (fun j => train_event m (num + Z.of_nat j * R) R) (seq 1 (n_rollouts R total num)) /\
  snd (fst r) = num + Z.of_nat (n_rollouts R total num) * R.
Proof.
  intros Hs HR. induction K as [|K IH]; intros num Hfuel; cbn zeta.
  - cbn [repeat loop fst snd]. unfold n_rollouts. destruct (Z.ltb_spec num total); [lia|]. cbn. split; [reflexivity|lia].
  - cbn [repeat]. rewrite loop_cons. destruct (Z.ltb_spec num total) as [Hlt|Hge].
    + rewrite collect_nostop by exact Hs. set (R := Z.of_nat s * n_envs) in *.
      specialize (IH (num + R) ltac:(lia)). cbn zeta in IH.
      destruct (loop m n_envs total stop (repeat s K) (num + R)) as [[l fin] st]. cbn [fst snd] in *.
      destruct IH as (IH1 & IH2). rewrite (n_rollouts_succ R total num HR Hlt).
      split.
      * cbn [seq flat_map]. rewrite flat_map_seq_shift. f_equal.
        -- f_equal; lia.
        -- rewrite IH1. apply flat_map_ext. intros j. f_equal. lia.
      * rewrite IH2. lia.
    + cbn [fst snd]. unfold n_rollouts. destruct (Z.ltb_spec num total); [lia|]. cbn. split; [reflexivity|lia].
Qed.

(* ------------------------------------------------------------------ how many of these rollouts are followed by train() *)
Lemma lt_mul_iff_div R c q : 0 < R -> (c < q * R <-> c / R < q).
Proof.
  intros HR. split; intros H.
  - apply Z.div_lt_upper_bound; lia.
  - pose proof (Z.mul_succ_div_gt c R HR). nia.
Qed.

Lemma count_above R c : 0 < R -> forall K,
  length (filter (fun j => c <? Z.of_nat j * R) (seq 1 K)) = (K - Nat.min K (Z.to_nat (Z.max 0 (c / R))))%nat.
Proof.
  intros HR. induction K as [|K IH]; [reflexivity|].
  rewrite seq_S, filter_app, app_length, IH. cbn [filter Nat.add].
  set (d := Z.to_nat (Z.max 0 (c / R))).
  destruct (Z.ltb_spec c (Z.of_nat (S K) * R)) as [H|H]; cbn [length].
  - apply (lt_mul_iff_div R c (Z.of_nat (S K)) HR) in H. assert (d <= K)%nat by (unfold d; lia). lia.
  - assert (~ c / R < Z.of_nat (S K)) by (intros H'; apply (lt_mul_iff_div R c (Z.of_nat (S K)) HR) in H'; lia).
    assert (S K <= d)%nat by (unfold d; lia). lia.
Qed.

Theorem off_policy_train_calls ls gs R num K : 0 < R -> 0 <= num -> 0 < grad_steps gs R ->
  flat_map (fun j => train_event (OffPolicy ls gs) (num + Z.of_nat j * R) R) (seq 1 K) =
    map (fun j => (num + Z.of_nat j * R, grad_steps gs R)) (filter (fun j => ls - num <? Z.of_nat j * R) (seq 1 K)) /\
  length (flat_map (fun j => train_event (OffPolicy ls gs) (num + Z.of_nat j * R) R) (seq 1 K)) = n_trains R ls num K.
Proof.
  intros HR Hn Hg.
  assert (E : flat_map (fun j => train_event (OffPolicy ls gs) (num + Z.of_nat j * R) R) (seq 1 K) =
              map (fun j => (num + Z.of_nat j * R, grad_steps gs R)) (filter (fun j => ls - num <? Z.of_nat j * R) (seq 1 K))).
  { assert (G : forall l, Forall (fun j => (1 <= j)%nat) l ->
       flat_map (fun j => train_event (OffPolicy ls gs) (num + Z.of_nat j * R) R) l =
       map (fun j => (num + Z.of_nat j * R, grad_steps gs R)) (filter (fun j => ls - num <? Z.of_nat j * R) l)).
    { induction l as [|j l IHl]; intros Hl; [reflexivity|]. inversion Hl as [|? ? Hj Hl']; subst.
      cbn [flat_map filter]. rewrite (IHl Hl'). cbn [train_event]. unfold gate.
      destruct (Z.ltb_spec 0 (num + Z.of_nat j * R)); [|nia].
      destruct (Z.ltb_spec 0 (grad_steps gs R)); [|lia]. rewrite andb_true_r. cbn [andb].
      destruct (Z.ltb_spec ls (num + Z.of_nat j * R)); destruct (Z.ltb_spec (ls - num) (Z.of_nat j * R)); try lia; reflexivity. }
    apply G. apply Forall_forall. intros j Hj. apply in_seq in Hj. lia. }
  split; [exact E|]. rewrite E, map_length. unfold n_trains. apply count_above. exact HR.
Qed.

(* ------------------------------------------------------------------ the counters over such a call *)
Lemma train_sizes_map g (l : list nat) (f : nat -> Z) :
  train_sizes (map (fun j => (f j, g)) l) = repeat (Z.to_nat g) (length l).
Proof. unfold train_sizes. induction l as [|j l IH]; [reflexivity|]. cbn [map length repeat snd]. rewrite IH. reflexivity. Qed.

Lemma sum_repeat g T : fold_right Nat.add 0%nat (repeat g T) = (T * g)%nat.
Proof. induction T as [|T IH]; [reflexivity|]. cbn [repeat fold_right]. rewrite IH. lia. Qed.

Lemma td3_calls_count delay c gs : 0 < delay ->
  count_true (td3_calls delay c gs) = (c + Z.of_nat (fold_right Nat.add 0%nat gs)) / delay - c / delay.
Proof. intros Hd. rewrite td3_calls_global. apply dqn_steps_count. exact Hd. Qed.

Lemma sac_calls_repeat_count tui g : 0 < tui -> forall T,
  count_true (sac_calls tui (repeat g T)) = Z.of_nat T * ((Z.of_nat g - 1) / tui + 1).
Proof.
  intros Ht. induction T as [|T IH]; [reflexivity|].
  unfold sac_calls in *. cbn [repeat flat_map]. rewrite count_true_app, IH.
  destruct (sac_update_times_per_call tui g Ht) as (_ & Hc). rewrite Hc. lia.
Qed.

Section WholeCall.
(* an off-policy learn() call with train_freq = f vectorised steps, no callback stop, from num_timesteps = num >= 0 *)
Variables (n_envs total ls gs num : Z) (f K : nat) (stop : Z -> bool).
Hypothesis Hstop : forall n, stop n = false.
Hypothesis HR : 0 < Z.of_nat f * n_envs.
Hypothesis Hnum : 0 <= num.
Hypothesis Hfuel : total - num <= Z.of_nat K * (Z.of_nat f * n_envs).
Let R := Z.of_nat f * n_envs.
Let r := loop (OffPolicy ls gs) n_envs total stop (repeat f K) num.
Let g := grad_steps gs R.
Let NR := n_rollouts R total num.
Let T := if 0 <? g then n_trains R ls num NR else 0%nat.

Lemma whole_call_sizes : train_sizes (fst (fst r)) = repeat (Z.to_nat g) T /\ snd (fst r) = num + Z.of_nat NR * R.
Proof.
  destruct (loop_const_closed_form (OffPolicy ls gs) n_envs total stop f Hstop HR K num Hfuel) as (E1 & E2).
  fold R in E1, E2. fold r in E1, E2. fold NR in E1, E2. split; [|exact E2].
  rewrite E1. unfold T. destruct (Z.ltb_spec 0 g) as [Hg|Hg].
  - destruct (off_policy_train_calls ls gs R num NR HR Hnum Hg) as (A & B). rewrite A, train_sizes_map.
    rewrite <- B, A, map_length. reflexivity.
  - assert (Hnil : forall l, flat_map (fun j => train_event (OffPolicy ls gs) (num + Z.of_nat j * R) R) l = []).
    { induction l as [|j l IHl]; [reflexivity|]. cbn [flat_map]. rewrite IHl. cbn [train_event]. fold g.
      destruct (Z.ltb_spec 0 g); [lia|]. rewrite andb_false_r. reflexivity. }
    rewrite Hnil. reflexivity.
Qed.

(* DQN: updates happen at env steps, whatever learning_starts / train_freq / gradient_steps do to training *)
Theorem whole_call_dqn tui n_calls : 0 < n_envs ->
  count_true (learn_flags_dqn tui n_envs n_calls num (snd (fst r))) = dqn_updates tui n_envs (Z.of_nat f) n_calls NR.
Proof.
  intros Hn. destruct whole_call_sizes as (_ & E). unfold learn_flags_dqn, dqn_updates, vector_steps. rewrite E.
  rewrite dqn_steps_count by apply dqn_period_pos.
  replace (num + Z.of_nat NR * R - num) with (Z.of_nat NR * Z.of_nat f * n_envs) by (unfold R; ring).
  rewrite Z_div_mult_full by lia. rewrite Z2Nat.id by lia. reflexivity.
Qed.

(* TD3 / DDPG: the delayed updates over the T train() calls of g gradient steps, counter running across calls *)
Theorem whole_call_td3 delay n_updates : 0 < delay -> 0 <= g ->
  count_true (learn_flags_td3 delay n_updates (fst (fst r))) = td3_updates delay n_updates g T.
Proof.
  intros Hd Hg. destruct whole_call_sizes as (E & _). unfold learn_flags_td3, td3_updates. rewrite E.
  rewrite td3_calls_count by exact Hd. rewrite sum_repeat. rewrite Nat2Z.inj_mul, Z2Nat.id by lia. reflexivity.
Qed.

(* SAC: every train() call restarts the interval: T * ceil(g / tui) updates (F9 stated exactly) *)
Theorem whole_call_sac tui : 0 < tui -> 0 <= g ->
  count_true (learn_flags_sac tui (fst (fst r))) = sac_updates tui g T.
Proof.
  intros Ht Hg. destruct whole_call_sizes as (E & _). unfold learn_flags_sac, sac_updates. rewrite E.
  rewrite sac_calls_repeat_count by exact Ht. rewrite Z2Nat.id by lia. reflexivity.
Qed.
End WholeCall.

(* ------------------------------------------------------------------ the ACTUAL cadence drives the units: nothing writes the targets
   between two update instants.  Generic counter (m, c): DQN m = max(tui // n_envs, 1), c = _n_calls, units = vectorised env steps;
   TD3/DDPG m = policy_delay, c = _n_updates, units = the gradient steps of all train() calls (td3_calls_global);
   SAC m = target_update_interval, c = -1, units = the gradient steps of ONE train() call (sac_train_eq) *)
Theorem cadence_no_write_between_updates ptau stau s m c u1 u2 :
  (forall t, (t < length u2)%nat -> (c + Z.of_nat (length u1) + Z.of_nat t + 1) mod m <> 0) ->
  let run us := units_run ptau stau s (with_flags us (dqn_steps m c (length us))) in
  tg_params (run (u1 ++ u2)) = tg_params (run u1) /\ tg_stats (run (u1 ++ u2)) = tg_stats (run u1).
Proof.
  intros H. cbv zeta beta. rewrite app_length, dqn_steps_app.
  apply no_write_on_unflagged_stretch; [symmetry; apply dqn_steps_length|].
  intros t. destruct (Nat.lt_ge_cases t (length u2)) as [Hlt|Hge].
  - rewrite dqn_steps_nth by exact Hlt. apply Z.eqb_neq. apply H. exact Hlt.
  - apply nth_overflow. rewrite dqn_steps_length. exact Hge.
Qed.

Theorem cadence_flags_td3_sac delay c gs tui g :
  td3_calls delay c gs = dqn_steps delay c (fold_right Nat.add 0%nat gs) /\ sac_train tui g = dqn_steps tui (-1) g.
Proof. split; [apply td3_calls_global|apply sac_train_eq]. Qed.
