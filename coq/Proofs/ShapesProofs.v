(* Proofs about Model/Shapes.v *)
From Coq Require Import ZArith QArith Qminmax List Bool Lia Lqa.
From SB3V Require Import Gen.Frag_shapes Model.Shapes.
Import ListNotations.
Local Open Scope Z_scope.

(* ------------------------------------------------------------------ fragments vs model *)

(* proved by case analysis on every comparison (not by syntactic equality), so that harmless rewrites of the source
   such as swapping the operands of == or of and/or still check *)
Ltac shape_frag :=
  intros;
  unfold vec_box, vec_discrete, vec_multidiscrete, vec_multibinary, transpose_needed, transpose_accepted,
         is_vectorized, accepted, shape_eqb;
  repeat match goal with
         | |- context [list_eq_dec Z.eq_dec ?a ?b] => destruct (list_eq_dec Z.eq_dec a b)
         | |- context [Z.eqb ?a ?b] => destruct (Z.eqb a b) eqn:?
         end;
  cbn [andb orb negb]; try reflexivity; try congruence; try (exfalso; congruence).

Lemma frag_vec_box o s img : vec_box o s = is_vectorized (SBox s img) o.
Proof. shape_frag. Qed.

Lemma frag_vec_discrete o : vec_discrete false o = is_vectorized SDiscrete o.
Proof. shape_frag. Qed.

Lemma frag_vec_discrete_int o : vec_discrete true o = Some false.
Proof. shape_frag. Qed.

Lemma frag_vec_multidiscrete o k : vec_multidiscrete o k = is_vectorized (SMultiDiscrete k) o.
Proof. shape_frag. Qed.

Lemma frag_vec_multibinary o s : vec_multibinary o s = is_vectorized (SMultiBinary s) o.
Proof. shape_frag. Qed.

Lemma frag_transpose o s t :
  transpose_needed o s = negb (accepted o s) /\ transpose_accepted t s = accepted t s.
Proof. split; shape_frag. Qed.

Lemma frag_transpose_rank3 o : transpose_rank3 o = (Z.of_nat (length o) =? 3).
Proof. reflexivity. Qed.

Lemma frag_predict_guards v sq : predict_squeeze_guard v = negb v /\ predict_squash_guard sq = sq.
Proof. split; reflexivity. Qed.

Lemma frag_predict_values a lo hi : (predict_clip a lo hi == qclip a lo hi)%Q /\ (predict_unscale lo hi a == unscale lo hi a)%Q.
Proof. split; [reflexivity | unfold predict_unscale, unscale; ring]. Qed.

(* transpose_image takes the rank-3 branch exactly on rank-3 shapes, and is defined on ranks 3 and 4 only *)
Lemma transpose_shape_rank o :
  (transpose_rank3 o = true -> exists h w c, o = [h; w; c] /\ transpose_shape o = Some [c; h; w]) /\
  (forall t, transpose_shape o = Some t -> length t = length o /\ (length o = 3 \/ length o = 4)%nat).
Proof.
  split.
  - rewrite frag_transpose_rank3. intros H. apply Z.eqb_eq in H.
    destruct o as [|h [|w [|c [|x r]]]]; cbn in H; try lia. exists h, w, c. split; reflexivity.
  - intros t H. destruct o as [|h [|w [|c [|x [|y r]]]]]; cbn in H; try discriminate H; inversion H; subst; cbn; auto.
Qed.

(* ------------------------------------------------------------------ basic facts on shapes *)

Lemma shape_eqb_refl a : shape_eqb a a = true.
Proof. unfold shape_eqb. destruct (list_eq_dec Z.eq_dec a a); congruence. Qed.

Lemma shape_eqb_eq a b : shape_eqb a b = true <-> a = b.
Proof. unfold shape_eqb. destruct (list_eq_dec Z.eq_dec a b); split; congruence. Qed.

Lemma shape_eqb_neq a b : a <> b -> shape_eqb a b = false.
Proof. unfold shape_eqb. destruct (list_eq_dec Z.eq_dec a b); congruence. Qed.

Lemma cons_neq_self (n : Z) (s : shape) : n :: s <> s.
Proof. intros H. apply (f_equal (@length Z)) in H. cbn in H. lia. Qed.

(* a shape cannot be read both as one observation and as a batch of observations *)
Theorem vectorized_unambiguous (s o : shape) : ~ (o = s /\ exists n, o = n :: s).
Proof. intros [H [n H']]. subst o. symmetry in H'. exact (cons_neq_self n s H'). Qed.

(* ------------------------------------------------------------------ is_vectorized on the two legal inputs *)

Lemma is_vec_single sp : is_vectorized sp (space_shape sp) = Some false.
Proof. destruct sp; cbn [is_vectorized space_shape]; rewrite shape_eqb_refl; reflexivity. Qed.

Lemma is_vec_batch sp n : is_vectorized sp (n :: space_shape sp) = Some true.
Proof.
  destruct sp; cbn [is_vectorized space_shape].
  - rewrite (shape_eqb_neq _ _ (cons_neq_self n s)). cbn [tl]. rewrite shape_eqb_refl. reflexivity.
  - reflexivity.
  - rewrite shape_eqb_neq by (intros H; discriminate H). cbn. rewrite Z.eqb_refl. reflexivity.
  - rewrite (shape_eqb_neq _ _ (cons_neq_self n s)). cbn [tl length]. rewrite shape_eqb_refl.
    replace (Z.of_nat (S (length s)) =? Z.of_nat (length s) + 1) with true by (symmetry; apply Z.eqb_eq; lia).
    reflexivity.
Qed.

Lemma maybe_transpose_accepted sp o : accepted o (space_shape sp) = true -> maybe_transpose sp o = Some o.
Proof.
  intros H. destruct sp as [s [|]| | |]; cbn [maybe_transpose space_shape] in *; try reflexivity. rewrite H. reflexivity.
Qed.

Lemma accepted_single s : accepted s s = true.
Proof. unfold accepted. rewrite shape_eqb_refl. reflexivity. Qed.

Lemma accepted_batch n s : accepted (n :: s) s = true.
Proof. unfold accepted. cbn [tl]. rewrite shape_eqb_refl. apply orb_true_r. Qed.

(* ------------------------------------------------------------------ the shape law of predict *)

(* one observation in, one action out (action space's shape) *)
Theorem predict_shape_single sp ashape : supported sp = true -> predict_shape sp ashape (space_shape sp) = Some ashape.
Proof.
  intros Hs. unfold predict_shape, obs_to_tensor. rewrite Hs.
  rewrite (maybe_transpose_accepted sp _ (accepted_single _)), is_vec_single. reflexivity.
Qed.

(* a batch of n observations in (n = 1 included, any n), n actions out *)
Theorem predict_shape_batch sp ashape n : supported sp = true -> predict_shape sp ashape (n :: space_shape sp) = Some (n :: ashape).
Proof.
  intros Hs. unfold predict_shape, obs_to_tensor. rewrite Hs.
  rewrite (maybe_transpose_accepted sp _ (accepted_batch n _)), is_vec_batch. reflexivity.
Qed.

(* so the result has a leading batch dimension exactly when the input had one *)
Theorem predict_batch_dim_iff sp ashape o r : supported sp = true ->
  (o = space_shape sp \/ exists n, o = n :: space_shape sp) ->
  predict_shape sp ashape o = Some r ->
  (r = ashape <-> o = space_shape sp) /\ (forall n, o = n :: space_shape sp -> r = n :: ashape).
Proof.
  intros Hs [->|[n ->]] H.
  - rewrite predict_shape_single in H by exact Hs. inversion H; subst. split; [tauto|].
    intros n E. exfalso. symmetry in E. exact (cons_neq_self n _ E).
  - rewrite predict_shape_batch in H by exact Hs. inversion H; subst. split.
    + split; intros E; exfalso; [exact (cons_neq_self n _ E) | exact (cons_neq_self n _ E)].
    + intros m E. inversion E; subst. reflexivity.
Qed.

(* channel-last images given to a channel-first image space are transposed and accepted, single and batched *)
Theorem predict_shape_image_channel_last c h w ashape n :
  predict_shape (SBox [c; h; w] true) ashape [h; w; c] = Some ashape /\
  predict_shape (SBox [c; h; w] true) ashape [n; h; w; c] = Some (n :: ashape).
Proof.
  split.
  - unfold predict_shape, obs_to_tensor. cbn [supported maybe_transpose].
    destruct (accepted [h; w; c] [c; h; w]) eqn:A; cbn [negb].
    + unfold accepted in A. cbn [tl] in A. rewrite (shape_eqb_neq [w; c] [c; h; w]) in A by (intros E; discriminate E).
      rewrite orb_false_r in A. apply shape_eqb_eq in A. rewrite A. cbn [is_vectorized]. rewrite shape_eqb_refl. reflexivity.
    + cbn [transpose_shape]. rewrite accepted_single. cbn [is_vectorized]. rewrite shape_eqb_refl. reflexivity.
  - unfold predict_shape, obs_to_tensor. cbn [supported maybe_transpose].
    destruct (accepted [n; h; w; c] [c; h; w]) eqn:A; cbn [negb].
    + unfold accepted in A. cbn [tl] in A. rewrite (shape_eqb_neq [n; h; w; c] [c; h; w]) in A by (intros E; discriminate E).
      cbn [orb] in A. apply shape_eqb_eq in A. rewrite A. cbn [is_vectorized tl].
      rewrite (shape_eqb_neq _ _ (cons_neq_self n [c; h; w])), shape_eqb_refl. reflexivity.
    + cbn [transpose_shape]. rewrite accepted_batch. cbn [is_vectorized tl].
      rewrite (shape_eqb_neq _ _ (cons_neq_self n [c; h; w])), shape_eqb_refl. reflexivity.
Qed.

(* DQN's exploration branch follows the same law as the greedy branch (Discrete action: shape ()) *)
Theorem dqn_eps_same_shape_law sp n : supported sp = true ->
  dqn_eps_shape sp (space_shape sp) = predict_shape sp [] (space_shape sp) /\
  dqn_eps_shape sp (n :: space_shape sp) = predict_shape sp [] (n :: space_shape sp).
Proof.
  intros Hs. rewrite predict_shape_single, predict_shape_batch by exact Hs. unfold dqn_eps_shape. split.
  - rewrite (maybe_transpose_accepted sp _ (accepted_single _)), is_vec_single. reflexivity.
  - rewrite (maybe_transpose_accepted sp _ (accepted_batch n _)), is_vec_batch. reflexivity.
Qed.

(* Dict observations: all keys single -> action shape; all keys batched with the same n -> (n, *action shape) *)
Definition key_ok (sp : space) : Prop := supported sp = true /\ 0 < prodZ (space_shape sp).

Lemma reshape_batch_single sp : 0 < prodZ (space_shape sp) -> reshape_batch sp (space_shape sp) = Some 1.
Proof.
  intros H. unfold reshape_batch. replace (0 <? prodZ (space_shape sp)) with true by (symmetry; apply Z.ltb_lt; exact H).
  rewrite Z_mod_same_full, Z.eqb_refl. cbn [andb]. rewrite Z_div_same_full by lia. reflexivity.
Qed.

Lemma reshape_batch_batch sp n : 0 < prodZ (space_shape sp) -> reshape_batch sp (n :: space_shape sp) = Some n.
Proof.
  intros H. unfold reshape_batch. replace (0 <? prodZ (space_shape sp)) with true by (symmetry; apply Z.ltb_lt; exact H).
  cbn [prodZ fold_right]. fold (prodZ (space_shape sp)). rewrite Z_mod_mult, Z.eqb_refl. cbn [andb].
  rewrite Z_div_mult_full by lia. reflexivity.
Qed.

Lemma dict_tensors_single sps : Forall key_ok sps ->
  dict_tensors sps (map space_shape sps) = Some (false, map (fun _ => 1) sps).
Proof.
  unfold dict_tensors. induction 1 as [|sp r [Hs Hp] _ IH]; [reflexivity|].
  cbn [dict_tensors_from map]. rewrite Hs, (maybe_transpose_accepted sp _ (accepted_single _)), is_vec_single,
    (reshape_batch_single sp Hp), IH. reflexivity.
Qed.

Lemma dict_tensors_from_true_batch n : forall sps, Forall key_ok sps ->
  dict_tensors_from true sps (map (fun sp => n :: space_shape sp) sps) = Some (true, map (fun _ => n) sps).
Proof.
  induction 1 as [|sp r [Hs Hp] _ IH]; [reflexivity|].
  cbn [dict_tensors_from map]. rewrite Hs, (maybe_transpose_accepted sp _ (accepted_batch n _)), (reshape_batch_batch sp n Hp), IH. reflexivity.
Qed.

Lemma dict_tensors_batch n sps : sps <> [] -> Forall key_ok sps ->
  dict_tensors sps (map (fun sp => n :: space_shape sp) sps) = Some (true, map (fun _ => n) sps).
Proof.
  unfold dict_tensors. intros Hne H. destruct H as [|sp r [Hs Hp] Hr]; [congruence|].
  cbn [dict_tensors_from map]. rewrite Hs, (maybe_transpose_accepted sp _ (accepted_batch n _)), is_vec_batch,
    (reshape_batch_batch sp n Hp), (dict_tensors_from_true_batch n r Hr). reflexivity.
Qed.

Lemma all_equal_const (b : Z) (A : Type) (l : list A) : l <> [] -> all_equal (map (fun _ => b) l) = Some b.
Proof.
  destruct l as [|x r]; [congruence|]. intros _. cbn [map all_equal].
  replace (forallb (Z.eqb b) (map (fun _ => b) r)) with true; [reflexivity|].
  symmetry. induction r; cbn; [reflexivity|]. rewrite Z.eqb_refl. assumption.
Qed.

Theorem predict_shape_dict_single sps ashape : sps <> [] -> Forall key_ok sps ->
  predict_shape_dict sps ashape (map space_shape sps) = Some ashape.
Proof.
  intros H K. unfold predict_shape_dict. rewrite (dict_tensors_single sps K), (all_equal_const 1 _ sps H). reflexivity.
Qed.

Theorem predict_shape_dict_batch sps ashape n : sps <> [] -> Forall key_ok sps ->
  predict_shape_dict sps ashape (map (fun sp => n :: space_shape sp) sps) = Some (n :: ashape).
Proof.
  intros H K. unfold predict_shape_dict. rewrite (dict_tensors_batch n sps H K), (all_equal_const n _ sps H). reflexivity.
Qed.

(* the short-circuit of `vectorized_env or ...`: once a key was found vectorised, a later key is accepted whatever its shape as long as
   its number of elements fits - so acceptance of a malformed Dict observation depends on the key order (not a claim of the property:
   malformed inputs; modelled faithfully and generated by the harness) *)
Theorem dict_short_circuit_example :
  predict_shape_dict [SBox [2] false; SBox [2] false] [] [[3; 2]; [3; 1; 2]] = Some [3] /\
  predict_shape_dict [SBox [2] false; SBox [2] false] [] [[3; 1; 2]; [3; 2]] = None.
Proof. split; reflexivity. Qed.

(* ------------------------------------------------------------------ values *)

Theorem clip_in_bounds a lo hi : (lo <= hi -> lo <= qclip a lo hi <= hi)%Q.
Proof.
  intros H. unfold qclip. split.
  - apply Q.min_glb; [apply Q.le_max_r | exact H].
  - apply Q.le_min_r.
Qed.

Theorem unscale_in_bounds lo hi x : (lo <= hi -> -1 <= x <= 1 -> lo <= unscale lo hi x <= hi)%Q.
Proof.
  intros H [H1 H2]. unfold unscale.
  assert (A : (0 <= (x + 1) * (hi - lo))%Q) by (apply Qmult_le_0_compat; lra).
  assert (B : (0 <= (1 - x) * (hi - lo))%Q) by (apply Qmult_le_0_compat; lra).
  assert (E1 : (lo + (1 # 2) * (x + 1) * (hi - lo) == lo + (1 # 2) * ((x + 1) * (hi - lo)))%Q) by ring.
  assert (E2 : (lo + (1 # 2) * (x + 1) * (hi - lo) == hi - (1 # 2) * ((1 - x) * (hi - lo)))%Q) by ring.
  split; [rewrite E1 | rewrite E2]; lra.
Qed.

(* one-hot by value: 1 exactly at index v *)
Lemma one_hot_from_nth : forall n i v j, (j < n)%nat ->
  nth j (one_hot_from i n v) 0 = if Nat.eqb (i + j) v then 1 else 0.
Proof.
  induction n as [|n IH]; intros i v j H; [lia|].
  cbn [one_hot_from]. destruct j as [|j].
  - cbn [nth]. rewrite Nat.add_0_r. reflexivity.
  - cbn [nth]. rewrite IH by lia. replace (S i + j)%nat with (i + S j)%nat by lia. reflexivity.
Qed.

Theorem one_hot_by_value n v j : (j < n)%nat -> nth j (onehot n v) 0 = if Nat.eqb j v then 1 else 0.
Proof. intros H. unfold onehot. rewrite one_hot_from_nth by exact H. reflexivity. Qed.

Lemma one_hot_from_length n : forall i v, length (one_hot_from i n v) = n.
Proof. induction n; intros; cbn; [reflexivity|]. rewrite IHn. reflexivity. Qed.

Theorem one_hot_injective n v w : (v < n)%nat -> (w < n)%nat -> onehot n v = onehot n w -> v = w.
Proof.
  intros Hv Hw E. pose proof (one_hot_by_value n v v Hv) as A. rewrite E, (one_hot_by_value n w v Hv) in A.
  rewrite Nat.eqb_refl in A. destruct (Nat.eqb v w) eqn:Q; [apply Nat.eqb_eq in Q; exact Q | discriminate A].
Qed.

(* ------------------------------------------------------------------ MultiDiscrete one-hot concatenation *)
Lemma onehot_length n v : length (onehot n v) = n.
Proof. apply one_hot_from_length. Qed.

(* the block of dimension 0 comes first and is the one-hot of its value; the blocks of the other dimensions follow, shifted by n *)
Theorem onehot_concat_head n ns v vs j : (j < n)%nat ->
  nth j (onehot_concat (n :: ns) (v :: vs)) 0 = if Nat.eqb j v then 1 else 0.
Proof. intros H. cbn [onehot_concat]. rewrite app_nth1 by (rewrite onehot_length; exact H). apply one_hot_by_value. exact H. Qed.

Theorem onehot_concat_tail n ns v vs j :
  nth (n + j) (onehot_concat (n :: ns) (v :: vs)) 0 = nth j (onehot_concat ns vs) 0.
Proof.
  cbn [onehot_concat]. rewrite app_nth2 by (rewrite onehot_length; lia). rewrite onehot_length.
  replace (n + j - n)%nat with j by lia. reflexivity.
Qed.

Theorem onehot_concat_length : forall nvec vals, length nvec = length vals ->
  length (onehot_concat nvec vals) = fold_right Nat.add 0%nat nvec.
Proof.
  induction nvec as [|n ns IH]; intros [|v vs] H; try discriminate H; [reflexivity|].
  cbn [onehot_concat fold_right]. rewrite app_length, onehot_length, IH by (cbn in H; lia). reflexivity.
Qed.

(* ------------------------------------------------------------------ value returned for a Box coordinate *)
Theorem predict_value_in_bounds squash lo hi x :
  (lo <= hi -> (squash = true -> -1 <= x <= 1) -> lo <= predict_value squash lo hi x <= hi)%Q.
Proof.
  intros H Hx. unfold predict_value. destruct squash.
  - apply unscale_in_bounds; auto.
  - apply clip_in_bounds. exact H.
Qed.

Lemma frag_predict_value squash lo hi x :
  (predict_value squash lo hi x == if predict_squash_guard squash then predict_unscale lo hi x else predict_clip x lo hi)%Q.
Proof.
  unfold predict_value, predict_squash_guard. destruct squash.
  - symmetry. apply frag_predict_values.
  - reflexivity.
Qed.

(* ------------------------------------------------------------------ create_mlp: layer structure *)

Lemma frag_mlp_guards arch input_dim output_dim sq :
  mlp_first_guard arch = (0 <? Z.of_nat (length arch)) /\
  mlp_loop_count arch = Z.of_nat (length arch) - 1 /\
  mlp_output_guard output_dim = (0 <? output_dim) /\
  mlp_last_dim arch input_dim = (if 0 <? Z.of_nat (length arch) then last arch 0 else input_dim) /\
  mlp_squash_guard sq = sq.
Proof. repeat split. Qed.

Definition not_tanh (l : layer) : Prop := l <> LTanh.

Lemma repeat_not_tanh x n : not_tanh x -> Forall not_tanh (repeat x n).
Proof. intros H. induction n; cbn; constructor; auto. Qed.

Lemma block_not_tanh npre npost i o b : Forall not_tanh (block npre npost i o b).
Proof.
  unfold block. repeat (apply Forall_app; split); try (apply repeat_not_tanh); try (repeat constructor); unfold not_tanh; discriminate.
Qed.

Lemma hidden_not_tanh npre npost b : forall arch, Forall not_tanh (hidden_blocks npre npost b arch).
Proof.
  induction arch as [|a rest IH]; [constructor|]. destruct rest as [|c rest]; [constructor|].
  cbn [hidden_blocks]. apply Forall_app. split; [apply block_not_tanh | exact IH].
Qed.

Lemma body_not_tanh i o arch b npre npost : Forall not_tanh (mlp_body i o arch b npre npost).
Proof.
  unfold mlp_body. repeat (apply Forall_app; split).
  - destruct arch; [constructor | apply block_not_tanh].
  - apply hidden_not_tanh.
  - destruct (0 <? o); [|constructor]. apply Forall_app. split; [apply repeat_not_tanh; unfold not_tanh; discriminate|].
    repeat constructor. unfold not_tanh. discriminate.
Qed.

Lemma last_Forall {A} (P : A -> Prop) (l : list A) d : Forall P l -> P d -> P (last l d).
Proof. induction 1 as [|x l Hx Hl IH]; intros Hd; [exact Hd|]. destruct l; [exact Hx|]. cbn [last]. apply IH. exact Hd. Qed.

(* the network ends with Tanh exactly when squash_output is set - for EVERY net_arch (the empty one included), output size,
   bias flag and pre / post module lists *)
Theorem mlp_last_is_tanh_iff i o arch sq b npre npost :
  last (mlp_layers i o arch sq b npre npost) LAct = LTanh <-> sq = true.
Proof.
  unfold mlp_layers. destruct sq.
  - rewrite last_last. tauto.
  - rewrite app_nil_r. split; [|discriminate]. intros H. exfalso.
    assert (N : not_tanh (last (mlp_body i o arch b npre npost) LAct)).
    { apply last_Forall; [apply body_not_tanh | unfold not_tanh; discriminate]. }
    exact (N H).
Qed.

(* and Tanh never occurs anywhere else *)
Theorem mlp_tanh_only_last i o arch sq b npre npost :
  mlp_layers i o arch sq b npre npost = mlp_body i o arch b npre npost ++ (if sq then [LTanh] else []) /\
  Forall not_tanh (mlp_body i o arch b npre npost).
Proof. split; [reflexivity | apply body_not_tanh]. Qed.

(* one Linear layer per hidden size, plus the output layer iff output_dim > 0 *)
Definition is_linear (l : layer) : bool := match l with LLinear _ _ _ => true | _ => false end.

Lemma filter_repeat_nonlinear x n : is_linear x = false -> filter is_linear (repeat x n) = [].
Proof. intros H. induction n; cbn; [reflexivity|]. rewrite H. exact IHn. Qed.

Lemma block_linear npre npost i o b : length (filter is_linear (block npre npost i o b)) = 1%nat.
Proof.
  unfold block. rewrite !filter_app, !filter_repeat_nonlinear by reflexivity. reflexivity.
Qed.

Lemma hidden_linear npre npost b : forall arch,
  length (filter is_linear (hidden_blocks npre npost b arch)) = pred (length arch).
Proof.
  induction arch as [|a rest IH]; [reflexivity|]. destruct rest as [|c rest]; [reflexivity|].
  change (hidden_blocks npre npost b (a :: c :: rest)) with (block npre npost a c b ++ hidden_blocks npre npost b (c :: rest)).
  rewrite filter_app, app_length, block_linear, IH. reflexivity.
Qed.

Theorem mlp_linear_count i o arch sq b npre npost :
  length (filter is_linear (mlp_layers i o arch sq b npre npost)) =
  (length arch + (if (0 <? o)%Z then 1 else 0))%nat.
Proof.
  unfold mlp_layers, mlp_body. rewrite !filter_app, !app_length, hidden_linear.
  assert (T : length (filter is_linear (if sq then [LTanh] else [])) = 0%nat) by (destruct sq; reflexivity).
  rewrite T. destruct (0 <? o).
  - rewrite filter_app, filter_repeat_nonlinear by reflexivity. cbn [app filter is_linear length].
    destruct arch as [|a rest]; [reflexivity|]. rewrite block_linear. cbn [length pred]. lia.
  - cbn [filter length]. destruct arch as [|a rest]; [reflexivity|]. rewrite block_linear. cbn [length pred]. lia.
Qed.

(* for a value inside the range the encoding has its single 1 at that value *)
Theorem one_hot_has_one n v : (v < n)%nat -> nth v (onehot n v) 0 = 1 /\ forall j, (j < n)%nat -> j <> v -> nth j (onehot n v) 0 = 0.
Proof.
  intros H. split.
  - rewrite one_hot_by_value by exact H. rewrite Nat.eqb_refl. reflexivity.
  - intros j Hj N. rewrite one_hot_by_value by exact Hj. destruct (Nat.eqb_spec j v); [contradiction | reflexivity].
Qed.

(* ------------------------------------------------------------------ model mutation score: pins *)

(* a vectorized observation always has a leading dimension: the default of `hd 1 o'` in obs_to_tensor is never used
   (changing it gives an equivalent model; see docs/C11.md, "Model mutation score") *)
Theorem vectorized_nonempty sp o : is_vectorized sp o = Some true -> o <> [].
Proof.
  intros H E. subst o. destruct sp; cbn in H.
  - destruct (shape_eqb [] s); discriminate H.
  - discriminate H.
  - destruct (shape_eqb [] [k]); discriminate H.
  - destruct (shape_eqb [] s); [discriminate H|].
    rewrite andb_false_r in H. discriminate H.
Qed.

Theorem obs_to_tensor_batch_is_leading_dim sp o t :
  obs_to_tensor sp o = Some (true, t) ->
  exists n r, maybe_transpose sp o = Some (n :: r) /\ t = n :: space_shape sp.
Proof.
  unfold obs_to_tensor. destruct (supported sp); [|discriminate].
  destruct (maybe_transpose sp o) as [o'|]; [|discriminate].
  destruct (is_vectorized sp o') as [v|] eqn:V; [|discriminate].
  intros H. inversion H; subst v. clear H.
  destruct o' as [|n r]; [exfalso; exact (vectorized_nonempty sp [] V eq_refl)|].
  exists n, r. split; reflexivity.
Qed.

(* the harness-side comparator of predicted Box values: one accepted and one rejected pair (relative + absolute tolerance) *)
Example qclose1_accepts : qclose1 (1 # 100000) 100 (1000005 # 10000) = true /\ qclose1 (1 # 100000) 0 (1 # 100000) = true.
Proof. split; vm_compute; reflexivity. Qed.
Example qclose1_rejects : qclose1 (1 # 100000) 100 101 = false /\ qclose1 (1 # 100000) 0 (1 # 10000) = false /\
                          qclose1 (1 # 100000) (1 # 2) (51 # 100) = false.
Proof. repeat split; vm_compute; reflexivity. Qed.
Example check_values_pins :
  check_values false [(0, 1, 2, 1); (0, 1, 2, 2); (0, 1, -1 # 2, 0)]%Q = [true; false; true] /\
  check_values true [(0, 2, 1 # 2, 3 # 2); (0, 2, 1 # 2, 1 # 2)]%Q = [true; false].
Proof. split; vm_compute; reflexivity. Qed.

(* ------------------------------------------------------------------ model mutation score, second sample *)

(* reshape((-1, *space.shape)) of a Dict entry: a batch size exists exactly when the element count is a multiple of the (positive)
   per-observation element count, and it is the quotient *)
Theorem reshape_batch_spec sp o b :
  reshape_batch sp o = Some b <-> 0 < prodZ (space_shape sp) /\ prodZ o = b * prodZ (space_shape sp).
Proof.
  unfold reshape_batch. set (d := prodZ (space_shape sp)). split.
  - destruct (Z.ltb_spec 0 d) as [P|P]; cbn [andb]; [|discriminate].
    destruct (Z.eqb_spec (prodZ o mod d) 0) as [M|M]; [|discriminate].
    intros H. inversion H; subst b. split; [exact P|].
    rewrite (Z.div_mod (prodZ o) d) at 1 by lia. rewrite M. ring.
  - intros [P E]. destruct (Z.ltb_spec 0 d) as [_|N]; [|lia]. cbn [andb].
    rewrite E, Z.mod_mul by lia. cbn. rewrite Z.div_mul by lia. reflexivity.
Qed.

(* the input width of the output layer is the last hidden width, or input_dim without hidden layers: the default of `last arch 0` in
   mlp_body is never used (equivalent mutant) *)
Lemma last_default_irrelevant {A} (l : list A) a b : l <> [] -> last l a = last l b.
Proof.
  induction l as [|x l IH]; intros H; [contradiction|]. destruct l as [|y l']; [reflexivity|].
  change (last (y :: l') a = last (y :: l') b). apply IH. discriminate.
Qed.

Theorem mlp_output_layer i o arch b npre npost : 0 < o ->
  exists pre, mlp_body i o arch b npre npost = pre ++ repeat (LPre (last arch i)) npre ++ [LLinear (last arch i) o b].
Proof.
  intros H. unfold mlp_body. apply Z.ltb_lt in H. rewrite H.
  assert (E : (if 0 <? Z.of_nat (length arch) then last arch 0 else i) = last arch i).
  { destruct arch as [|a r]; [reflexivity|].
    replace (0 <? Z.of_nat (length (a :: r))) with true by (symmetry; apply Z.ltb_lt; cbn [length]; lia).
    apply last_default_irrelevant. discriminate. }
  rewrite E. eexists. rewrite app_assoc. reflexivity.
Qed.

(* observation helpers of the correspondence entry points *)
Example show_opt_pins : show_opt (Some [2; 3]) = [1; 2; 3] /\ show_opt (Some []) = [1] /\ show_opt None = [0].
Proof. repeat split. Qed.
Example layer_code_pins :
  map layer_code [LPre 7; LLinear 3 4 true; LPost 8; LAct; LTanh] =
  [(1, 7, 0, false); (2, 3, 4, true); (3, 8, 0, false); (4, 0, 0, false); (5, 0, 0, false)] /\
  show_mlp 5 2 [8] true false 1 1 =
  [(1, 5, 0, false); (2, 5, 8, false); (3, 8, 0, false); (4, 0, 0, false); (1, 8, 0, false); (2, 8, 2, false); (5, 0, 0, false)].
Proof. split; vm_compute; reflexivity. Qed.
Example check_predict_pins :
  check_predict (SBox [2] false) [3] [4; 2] = ([1; 4; 3], [1; 4]) /\
  check_predict (SBox [2] false) [3] [5] = ([0], [0]) /\
  check_predict_dict [SBox [2] false; SDiscrete] [3] [[4; 2]; [4]] = [1; 4; 3] /\
  check_predict_dict [SBox [2] false; SDiscrete] [3] [[4; 2]; []] = [0].
Proof. vm_compute. repeat split; reflexivity. Qed.
