(* C12 - learn() accounting: proofs for all totals, rollout sizes, n_envs, histories. *)
From SB3V Require Import Lib.Tactics Gen.Frag_learnloop Model.LearnLoop.
From Coq Require Import QArith Qminmax Lqa Sorted.
Local Open Scope Z_scope.

(* ------------------------------------------------------------------ interface lemmas *)

Lemma frag_setup reset num ep total : setup_counters reset num ep total = setup reset num ep total.
Proof. unfold setup_counters, setup. destruct reset; reflexivity. Qed.

Lemma frag_guards num total n_envs k s :
  on_loop_guard num total = (num <? total) /\ off_loop_guard num total = (num <? total) /\
  on_step_count num n_envs = num + n_envs /\ off_step_count num n_envs = num + n_envs /\
  on_rollout_guard k s = (k <? s) /\ collect_more_step_unit k s = (k <? s) /\ collect_more_episode_unit k s = (k <? s).
Proof. repeat split; reflexivity. Qed.

Lemma frag_train_event ls gs num' ts :
  train_event (OffPolicy ls gs) num' ts =
  if off_train_gate num' ls && off_gradient_gate (off_gradient_steps gs ts) then [(num', off_gradient_steps gs ts)] else [].
Proof. reflexivity. Qed.

(* ------------------------------------------------------------------ progress *)
Lemma inject_pos t : 0 < t -> (0 < inject_Z t)%Q.
Proof. intros H. rewrite (Zlt_Qlt 0 t) in H. exact H. Qed.

Lemma progress_range num total : 0 < total -> 0 <= num -> (0 <= progress num total <= 1)%Q.
Proof.
  intros Ht Hn. unfold progress. split; [apply Q.le_max_l|].
  apply Q.max_lub; [discriminate|].
  pose proof (inject_pos total Ht) as Hp. rewrite (Zle_Qle 0 num) in Hn.
  assert (0 <= inject_Z num / inject_Z total)%Q.
  { unfold Qdiv. apply Qmult_le_0_compat; [exact Hn|]. apply Qinv_le_0_compat. apply Qlt_le_weak, Hp. }
  lra.
Qed.

Lemma progress_monotone num num' total : 0 < total -> num <= num' ->
  (progress num' total <= progress num total)%Q.
Proof.
  intros Ht Hn. unfold progress. apply Q.max_le_compat_l.
  pose proof (inject_pos total Ht) as Hp. rewrite (Zle_Qle num num') in Hn.
  assert (inject_Z num / inject_Z total <= inject_Z num' / inject_Z total)%Q.
  { unfold Qdiv. apply Qmult_le_compat_r; [exact Hn|]. apply Qinv_le_0_compat. apply Qlt_le_weak, Hp. }
  lra.
Qed.

Lemma progress_exhausted num total : 0 < total -> total <= num -> (progress num total == 0)%Q.
Proof.
  intros Ht Hn. unfold progress. apply Q.max_l.
  pose proof (inject_pos total Ht) as Hp. rewrite (Zle_Qle total num) in Hn.
  assert (1 <= inject_Z num / inject_Z total)%Q.
  { apply Qle_shift_div_l; [exact Hp|]. lra. }
  lra.
Qed.

Lemma progress_value num total : 0 < total -> num <= total ->
  (progress num total == 1 - inject_Z num / inject_Z total)%Q.
Proof.
  intros Ht Hn. unfold progress. apply Q.max_r.
  pose proof (inject_pos total Ht) as Hp. rewrite (Zle_Qle num total) in Hn.
  assert (inject_Z num / inject_Z total <= 1)%Q.
  { apply Qle_shift_div_r; [exact Hp|]. lra. }
  lra.
Qed.

(* the same facts for the REGENERATED expression, through a rational equation (so that an algebraically
   equivalent rewrite of the source inside max(0.0, .) still checks, while a semantic change breaks it) *)
Lemma qmax0_eq x y : (x == y)%Q -> (Qmax 0 x == Qmax 0 y)%Q.
Proof.
  intros E. destruct (Q.max_spec 0 x) as [[H1 E1]|[H1 E1]]; destruct (Q.max_spec 0 y) as [[H2 E2]|[H2 E2]];
    rewrite E1, E2; lra.
Qed.

Lemma frag_progress_eq num total : 0 < total -> (progress_remaining num total == progress num total)%Q.
Proof.
  intros Ht. pose proof (inject_pos total Ht) as Hp.
  unfold progress_remaining, progress. apply qmax0_eq. field. intros H0. rewrite H0 in Hp. discriminate.
Qed.

Lemma frag_progress_range num total : 0 < total -> 0 <= num -> (0 <= progress_remaining num total <= 1)%Q.
Proof. intros Ht Hn. rewrite (frag_progress_eq num total Ht). apply progress_range; assumption. Qed.

Lemma frag_progress_monotone num num' total : 0 < total -> num <= num' ->
  (progress_remaining num' total <= progress_remaining num total)%Q.
Proof. intros Ht Hn. rewrite (frag_progress_eq num total Ht), (frag_progress_eq num' total Ht). apply progress_monotone; assumption. Qed.

Lemma frag_progress_value num total : 0 < total ->
  (num <= total -> (progress_remaining num total == 1 - inject_Z num / inject_Z total)%Q) /\
  (total <= num -> (progress_remaining num total == 0)%Q).
Proof.
  intros Ht. split; intros H; rewrite (frag_progress_eq num total Ht); [apply progress_value|apply progress_exhausted]; assumption.
Qed.

(* ------------------------------------------------------------------ collect *)
Lemma collect_nostop stop : (forall n, stop n = false) ->
  forall k n_envs num, collect k n_envs num stop = (num + Z.of_nat k * n_envs, true).
Proof.
  intros Hs. induction k as [|k IH]; intros n_envs num.
  - cbn [collect]. f_equal. lia.
  - cbn [collect]. rewrite Hs, IH. f_equal. lia.
Qed.

(* the callback stops the rollout at the FIRST step where it says so: no further env step *)
Lemma collect_stop stop : forall k n_envs num m, (1 <= m <= k)%nat ->
  (forall j, (1 <= j < m)%nat -> stop (num + Z.of_nat j * n_envs) = false) ->
  stop (num + Z.of_nat m * n_envs) = true ->
  collect k n_envs num stop = (num + Z.of_nat m * n_envs, false).
Proof.
  induction k as [|k IH]; intros n_envs num m Hm Hbefore Hat; [lia|].
  cbn [collect]. destruct (Nat.eq_dec m 1) as [->|Hne].
  - replace (num + Z.of_nat 1 * n_envs) with (num + n_envs) in * by lia. rewrite Hat. reflexivity.
  - assert (H1 : stop (num + n_envs) = false).
    { specialize (Hbefore 1%nat ltac:(lia)). replace (num + Z.of_nat 1 * n_envs) with (num + n_envs) in Hbefore by lia. exact Hbefore. }
    rewrite H1. rewrite (IH n_envs (num + n_envs) (m - 1)%nat).
    + f_equal. lia.
    + lia.
    + intros j Hj. specialize (Hbefore (S j) ltac:(lia)).
      replace (num + n_envs + Z.of_nat j * n_envs) with (num + Z.of_nat (S j) * n_envs) by lia. exact Hbefore.
    + replace (num + n_envs + Z.of_nat (m - 1) * n_envs) with (num + Z.of_nat m * n_envs) by lia. exact Hat.
Qed.

Lemma collect_false_stop stop : forall k n_envs num num', collect k n_envs num stop = (num', false) -> stop num' = true.
Proof.
  induction k as [|k IH]; intros n_envs num num' H; cbn [collect] in H; [discriminate|].
  destruct (stop (num + n_envs)) eqn:E; [injection H as <-; exact E|eapply IH; exact H].
Qed.

(* num_timesteps advances by n_envs per vectorised step: the result is num + j * n_envs for the number j of steps taken *)
Lemma collect_advance stop : forall k n_envs num num' c, collect k n_envs num stop = (num', c) ->
  exists j, (j <= k)%nat /\ num' = num + Z.of_nat j * n_envs /\ (c = true -> j = k) /\ (c = false -> (1 <= j)%nat).
Proof.
  induction k as [|k IH]; intros n_envs num num' c H; cbn [collect] in H.
  - injection H as <- <-. exists 0%nat. repeat split; try lia; discriminate.
  - destruct (stop (num + n_envs)) eqn:E.
    + injection H as <- <-. exists 1%nat. repeat split; try lia; discriminate.
    + destruct (IH _ _ _ _ H) as (j & Hj & Hn & Hc & Hc'). exists (S j). repeat split; try lia.
Qed.

(* ------------------------------------------------------------------ the loop *)
Lemma loop_cons m n_envs total stop s rest num :
  loop m n_envs total stop (s :: rest) num =
  if num <? total then
    let '(num', cont) := collect s n_envs num stop in
    if cont then
      let '(l, fin, stopped) := loop m n_envs total stop rest num' in
      (train_event m num' (Z.of_nat s * n_envs) ++ l, fin, stopped)
    else ([], num', true)
  else ([], num, false).
Proof. reflexivity. Qed.

(* no gradient update before learning_starts; the number of gradient steps is the configured one *)
Theorem no_update_before_learning_starts ls gs n_envs total stop : forall lens num n g,
  In (n, g) (fst (fst (loop (OffPolicy ls gs) n_envs total stop lens num))) ->
  ls < n /\ 0 < n /\ 0 < g /\ (0 <= gs -> g = gs) /\
  (gs < 0 -> exists s, In s lens /\ g = Z.of_nat s * n_envs).
Proof.
  induction lens as [|s rest IH]; intros num n g H; [destruct H|].
  rewrite loop_cons in H. destruct (num <? total); [|destruct H].
  destruct (collect s n_envs num stop) as [num' cont]. destruct cont; [|destruct H].
  destruct (loop (OffPolicy ls gs) n_envs total stop rest num') as [[l fin] st] eqn:E.
  cbn [fst] in H. apply in_app_or in H. destruct H as [H|H].
  - cbn [train_event] in H. unfold gate, grad_steps in H.
    destruct ((0 <? num') && (ls <? num') && (0 <? (if 0 <=? gs then gs else Z.of_nat s * n_envs))) eqn:G; [|destruct H].
    destruct H as [H|[]]. injection H as <- <-.
    apply andb_prop in G. destruct G as [G1 G3]. apply andb_prop in G1. destruct G1 as [G1 G2].
    apply Z.ltb_lt in G1, G2, G3.
    destruct (Z.leb_spec 0 gs) as [Hge|Hlt].
    + split; [lia|]. split; [lia|]. split; [lia|]. split; [intros _; reflexivity|intros; lia].
    + split; [lia|]. split; [lia|]. split; [lia|]. split; [intros; lia|].
      intros _. exists s. split; [left; reflexivity|reflexivity].
  - specialize (IH num' n g). rewrite E in IH. cbn [fst] in IH. destruct (IH H) as (A & B & C & D & F).
    repeat split; try assumption. intros Hneg. destruct (F Hneg) as (s' & Hs' & Hg). exists s'. split; [right; exact Hs'|exact Hg].
Qed.

(* num_timesteps never decreases; every train() happens at a strictly later count than the previous one *)
Theorem loop_increasing m n_envs total stop : 0 < n_envs -> forall lens num,
  Forall (fun s => (1 <= s)%nat) lens ->
  let r := loop m n_envs total stop lens num in
  num <= snd (fst r) /\ Forall (fun e => num < fst e <= snd (fst r)) (fst (fst r)) /\
  StronglySorted (fun a b => fst a < fst b) (fst (fst r)).
Proof.
  intros Hn. induction lens as [|s rest IH]; intros num Hl; cbn zeta.
  - cbn [loop fst snd]. repeat split; try lia; constructor.
  - inversion Hl as [|? ? Hs Hrest]; subst. rewrite loop_cons.
    destruct (num <? total); [|cbn [fst snd]; repeat split; try lia; constructor].
    destruct (collect s n_envs num stop) as [num' cont] eqn:EC.
    destruct (collect_advance _ _ _ _ _ _ EC) as (j & Hj & Hnum' & Hc & Hc').
    destruct cont.
    + specialize (Hc eq_refl). subst j.
      specialize (IH num' Hrest). cbn zeta in IH.
      destruct (loop m n_envs total stop rest num') as [[l fin] st]. cbn [fst snd] in *.
      destruct IH as (A & B & C). assert (num < num') by nia.
      split; [lia|]. split.
      * apply Forall_app. split.
        -- destruct m; cbn [train_event].
           ++ constructor; [cbn [fst]; lia|constructor].
           ++ destruct (_ && _); [constructor; [cbn [fst]; lia|constructor]|constructor].
        -- eapply Forall_impl; [|exact B]. cbn beta. intros e He. lia.
      * assert (Hhead : forall e, In e (train_event m num' (Z.of_nat s * n_envs)) -> fst e = num').
        { intros e He. destruct m; cbn [train_event] in He.
          - destruct He as [<-|[]]. reflexivity.
          - destruct (_ && _); [destruct He as [<-|[]]; reflexivity|destruct He]. }
        destruct (train_event m num' (Z.of_nat s * n_envs)) as [|e0 [|e1 tl]] eqn:ET.
        -- exact C.
        -- cbn [app]. constructor; [exact C|]. rewrite (Hhead e0 (or_introl eq_refl)).
           eapply Forall_impl; [|exact B]. cbn beta. intros e He. lia.
        -- exfalso. destruct m; cbn [train_event] in ET; [discriminate|]. destruct (_ && _); discriminate.
    + cbn [fst snd]. specialize (Hc' eq_refl). split; [nia|]. split; constructor.
Qed.

(* a callback stop ends learn() at that very step: no further rollout, no train() after it *)
Theorem loop_stopped m n_envs total stop : forall lens num,
  snd (loop m n_envs total stop lens num) = true -> stop (snd (fst (loop m n_envs total stop lens num))) = true.
Proof.
  induction lens as [|s rest IH]; intros num H; [discriminate|].
  rewrite loop_cons in H |- *. destruct (num <? total); [|discriminate].
  destruct (collect s n_envs num stop) as [num' cont] eqn:EC. destruct cont.
  - specialize (IH num'). destruct (loop m n_envs total stop rest num') as [[l fin] st]. cbn [fst snd] in *. apply IH, H.
  - cbn [fst snd]. eapply collect_false_stop; exact EC.
Qed.

Theorem loop_never_stopped m n_envs total stop : (forall n, stop n = false) -> forall lens num,
  snd (loop m n_envs total stop lens num) = false.
Proof.
  intros Hs. induction lens as [|s rest IH]; intros num; [reflexivity|].
  rewrite loop_cons. destruct (num <? total); [|reflexivity].
  rewrite collect_nostop by exact Hs. specialize (IH (num + Z.of_nat s * n_envs)).
  destruct (loop m n_envs total stop rest (num + Z.of_nat s * n_envs)) as [[l fin] st]. exact IH.
Qed.

(* equal rollouts of R = s * n_envs timesteps, no stop: learn() ends at the first rollout boundary at
   or after the target; on-policy it has trained once per rollout *)
Theorem stop_at_first_boundary m n_envs total stop s : (forall n, stop n = false) ->
  0 < Z.of_nat s * n_envs -> forall K num,
  total - num <= Z.of_nat K * (Z.of_nat s * n_envs) ->
  let R := Z.of_nat s * n_envs in
  let r := loop m n_envs total stop (repeat s K) num in
  let fin := snd (fst r) in
  (total <= num -> fin = num /\ fst (fst r) = []) /\
  (num < total -> total <= fin < total + R /\ (fin - num) mod R = 0 /\
                  (m = OnPolicy -> Z.of_nat (length (fst (fst r))) = (fin - num) / R)).
Proof.
  intros Hs HR. induction K as [|K IH]; intros num Hfuel; cbn zeta.
  - cbn [repeat loop fst snd]. split; [intros; split; reflexivity|intros; lia].
  - cbn [repeat]. rewrite loop_cons. destruct (Z.ltb_spec num total) as [Hlt|Hge].
    + split; [lia|]. intros _. rewrite collect_nostop by exact Hs.
      set (R := Z.of_nat s * n_envs) in *.
      specialize (IH (num + R) ltac:(lia)). cbn zeta in IH.
      destruct (loop m n_envs total stop (repeat s K) (num + R)) as [[l fin] st]. cbn [fst snd] in *.
      destruct IH as (IH1 & IH2).
      destruct (Z_lt_le_dec (num + R) total) as [Hc|Hc].
      * destruct (IH2 Hc) as (A & B & C). split; [lia|]. split.
        -- replace (fin - num) with (fin - (num + R) + 1 * R) by ring. rewrite Z_mod_plus_full. exact B.
        -- intros ->. specialize (C eq_refl). cbn [train_event app length]. rewrite Nat2Z.inj_succ, C.
           replace (fin - num) with (fin - (num + R) + 1 * R) by ring. rewrite Z_div_plus_full by lia. lia.
      * destruct (IH1 Hc) as (-> & ->). split; [lia|]. split.
        -- replace (num + R - num) with (0 + 1 * R) by ring. rewrite Z_mod_plus_full. apply Z.mod_0_l. lia.
        -- intros ->. cbn [train_event app length]. replace (num + R - num) with R by ring. rewrite Z_div_same_full by lia. reflexivity.
    + cbn [fst snd]. split; [intros; split; reflexivity|lia].
Qed.

(* the progress values seen by consecutive train() calls of one learn() never increase and stay in [0,1] *)
Theorem progress_along_loop m n_envs total stop lens num : 0 < n_envs -> 0 < total -> 0 <= num ->
  Forall (fun s => (1 <= s)%nat) lens ->
  let evs := fst (fst (loop m n_envs total stop lens num)) in
  Forall (fun e => (0 <= progress (fst e) total <= 1)%Q) evs /\
  StronglySorted (fun a b => (progress (fst b) total <= progress (fst a) total)%Q) evs.
Proof.
  intros Hn Ht Hnum Hl. cbn zeta.
  destruct (loop_increasing m n_envs total stop Hn lens num Hl) as (A & B & C). split.
  - eapply Forall_impl; [|exact B]. cbn beta. intros e He. apply progress_range; lia.
  - clear B. induction C as [|a l Hs IH Hf]; constructor; [exact IH|].
    eapply Forall_impl; [|exact Hf]. cbn beta. intros b Hb. apply progress_monotone; lia.
Qed.

(* reset_num_timesteps semantics *)
Theorem reset_semantics num ep total :
  setup true num ep total = (0, 0, total) /\ setup false num ep total = (num, ep, total + num).
Proof. split; reflexivity. Qed.

(* the linear schedule used for exploration: start at progress 1, end once 1 - progress exceeds the fraction *)
Theorem linear_fn_ends p s e f : (0 < f)%Q ->
  (linear_fn 1 s e f == s)%Q /\ ((f < 1 - p)%Q -> linear_fn p s e f = e).
Proof.
  intros Hf. split.
  - unfold linear_fn. destruct (Qle_bool (inject_Z 1 - 1) f) eqn:E; cbn [negb].
    + field. intros H0. rewrite H0 in Hf. discriminate.
    + exfalso. assert (Qle_bool (inject_Z 1 - 1) f = true); [|congruence].
      apply Qle_bool_iff. change (inject_Z 1) with 1%Q. lra.
  - intros Hlt. unfold linear_fn. destruct (Qle_bool (inject_Z 1 - p) f) eqn:E; cbn [negb]; [|reflexivity].
    apply Qle_bool_iff in E. change (inject_Z 1) with 1%Q in E. lra.
Qed.

(* ------------------------------------------------------------------ on-policy: minibatches per pass *)
From SB3V Require Import Model.Minibatch.

Lemma get_loop_length {A} b N (idx : list A) : (1 <= b)%nat -> forall fuel start, (N - start <= fuel)%nat ->
  length (get_loop fuel start b N idx) = ((N - start + b - 1) / b)%nat.
Proof.
  intros Hb. induction fuel as [|f IH]; intros start Hf.
  - cbn [get_loop length]. symmetry. apply Nat.div_small. lia.
  - cbn [get_loop]. destruct (Nat.ltb_spec start N) as [Hlt|Hge].
    + cbn [length]. rewrite IH by lia.
      assert (E : forall x, (1 <= x)%nat -> ((x + b - 1) / b = (x - 1) / b + 1)%nat).
      { intros x Hx. replace (x + b - 1)%nat with (x - 1 + 1 * b)%nat by lia. apply Nat.div_add. lia. }
      rewrite (E (N - start)%nat) by lia.
      destruct (le_lt_dec b (N - start)) as [Hc|Hc].
      * replace (N - (start + b) + b - 1)%nat with (N - start - 1)%nat by lia. lia.
      * replace (N - (start + b))%nat with 0%nat by lia. rewrite (Nat.div_small (N - start - 1) b) by lia.
        rewrite Nat.div_small by lia. reflexivity.
    + cbn [length]. symmetry. apply Nat.div_small. lia.
Qed.

(* one pass over a rollout of N samples in minibatches of b: ceil(N / b) optimizer steps *)
Theorem minibatch_count {A} b (idx : list A) : (1 <= b)%nat ->
  length (minibatches b idx) = ((length idx + b - 1) / b)%nat.
Proof. intros Hb. unfold minibatches. rewrite (get_loop_length b (length idx) idx Hb) by lia. f_equal. lia. Qed.

(* PPO's constructor: the warning is issued exactly when the last minibatch of every pass is truncated; the pass then has
   (untruncated_batches + 1) minibatches, otherwise untruncated_batches; on_train_steps is n_epochs times that *)
Theorem ppo_truncated_minibatch_law n_envs n_steps batch n_epochs : 0 < batch -> 0 <= n_envs * n_steps ->
  let N := ppo_rollout_size n_envs n_steps in
  N = n_envs * n_steps /\
  (ppo_truncated_warning N batch = true <-> N mod batch <> 0) /\
  on_train_steps n_epochs N batch =
    n_epochs * (ppo_untruncated_batches N batch + (if ppo_truncated_warning N batch then 1 else 0)).
Proof.
  intros Hb HN. cbn zeta. unfold ppo_rollout_size, ppo_truncated_warning, ppo_untruncated_batches, on_train_steps.
  set (N := n_envs * n_steps) in *. pose proof (Z.mod_pos_bound N batch Hb) as Hm. pose proof (Z.div_mod N batch ltac:(lia)) as Hd.
  split; [reflexivity|]. split.
  - destruct (Z.ltb_spec 0 (N mod batch)); split; intros; try lia; try discriminate; reflexivity.
  - f_equal. destruct (Z.ltb_spec 0 (N mod batch)) as [Hlt|Hge].
    + symmetry. apply Z.div_unique with (r := N mod batch - 1); [lia|]. nia.
    + assert (N mod batch = 0) by lia. symmetry. apply Z.div_unique with (r := batch - 1); [lia|]. nia.
Qed.

(* ------------------------------------------------------------------ off-policy details *)
(* gradient_steps = -1: as many gradient steps as timesteps collected in THAT rollout (vectorised steps x n_envs) *)
Theorem train_event_minus_one ls gs num' s n_envs : gs < 0 ->
  train_event (OffPolicy ls gs) num' (Z.of_nat s * n_envs) =
  if gate num' ls && (0 <? Z.of_nat s * n_envs) then [(num', Z.of_nat s * n_envs)] else [].
Proof. intros H. cbn [train_event]. unfold grad_steps. destruct (Z.leb_spec 0 gs); [lia|reflexivity]. Qed.

(* one iteration of the loop when the callback does not stop it: the rollout of s vectorised steps advances the counter by
   s * n_envs and is followed by the train() decided by train_event at that count *)
Theorem loop_iteration m n_envs total stop s rest num : (forall n, stop n = false) -> num < total ->
  let num' := num + Z.of_nat s * n_envs in
  fst (fst (loop m n_envs total stop (s :: rest) num)) =
    train_event m num' (Z.of_nat s * n_envs) ++ fst (fst (loop m n_envs total stop rest num')).
Proof.
  intros Hs Hlt. cbn zeta. rewrite loop_cons. destruct (Z.ltb_spec num total); [|lia].
  rewrite collect_nostop by exact Hs.
  destruct (loop m n_envs total stop rest (num + Z.of_nat s * n_envs)) as [[l fin] st]. reflexivity.
Qed.

(* learning_starts is compared with num_timesteps (timesteps, counted across sub-environments), not with the number of
   calls: with equal rollouts of R timesteps from 0, the rollout ending at k*R trains iff k*R > learning_starts *)
Theorem learning_starts_in_timesteps ls gs k R : 0 < R -> 0 < k ->
  (train_event (OffPolicy ls gs) (k * R) R <> [] <-> ls < k * R /\ 0 < grad_steps gs R).
Proof.
  intros HR Hk. cbn [train_event]. unfold gate.
  destruct (Z.ltb_spec 0 (k * R)); [|nia]. destruct (Z.ltb_spec ls (k * R)); destruct (Z.ltb_spec 0 (grad_steps gs R)); cbn [andb];
    split; intros H'; try lia; try discriminate; try (exfalso; apply H'; reflexivity).
Qed.

(* ------------------------------------------------------------------ the linear exploration schedule of DQN *)
Theorem linear_fn_range p s e f : (0 < f)%Q -> (0 <= p <= 1)%Q -> (e <= s)%Q -> (e <= linear_fn p s e f <= s)%Q.
Proof.
  intros Hf Hp He. unfold linear_fn. change (inject_Z 1) with 1%Q.
  destruct (Qle_bool (1 - p) f) eqn:E; cbn [negb]; [|lra].
  apply Qle_bool_iff in E.
  assert (H1 : (0 <= (1 - p) / f <= 1)%Q).
  { split; [apply Qle_shift_div_l; [exact Hf|lra]|apply Qle_shift_div_r; [exact Hf|lra]]. }
  setoid_replace ((1 - p) * (e - s) / f)%Q with (((1 - p) / f) * (e - s))%Q by (field; lra).
  set (x := ((1 - p) / f)%Q) in *. nra.
Qed.

(* as training progresses (progress_remaining decreases) the exploration rate never increases *)
Theorem linear_fn_monotone p p' s e f : (0 < f)%Q -> (0 <= p' <= p)%Q -> (p <= 1)%Q -> (e <= s)%Q ->
  (linear_fn p' s e f <= linear_fn p s e f)%Q.
Proof.
  intros Hf Hp Hp1 He.
  pose proof (linear_fn_range p s e f Hf ltac:(lra) He) as R1. pose proof (linear_fn_range p' s e f Hf ltac:(lra) He) as R2.
  unfold linear_fn in *. change (inject_Z 1) with 1%Q in *.
  destruct (Qle_bool (1 - p') f) eqn:E'; destruct (Qle_bool (1 - p) f) eqn:E; cbn [negb] in *; try lra.
  - apply Qle_bool_iff in E, E'.
    setoid_replace ((1 - p') * (e - s) / f)%Q with (((1 - p') / f) * (e - s))%Q by (field; lra).
    setoid_replace ((1 - p) * (e - s) / f)%Q with (((1 - p) / f) * (e - s))%Q by (field; lra).
    assert (((1 - p) / f <= (1 - p') / f)%Q).
    { unfold Qdiv. apply Qmult_le_compat_r; [lra|]. apply Qinv_le_0_compat. lra. }
    set (x := ((1 - p) / f)%Q) in *. set (y := ((1 - p') / f)%Q) in *. nra.
  - exfalso. apply Qle_bool_iff in E'. assert (Qle_bool (1 - p) f = true); [apply Qle_bool_iff; lra|congruence].
Qed.

(* ------------------------------------------------------------------ a callback stop: no train() at or after it *)
Theorem no_train_at_or_after_stop m n_envs total stop : 0 < n_envs -> forall lens num,
  Forall (fun s => (1 <= s)%nat) lens ->
  let r := loop m n_envs total stop lens num in
  snd r = true -> Forall (fun e => fst e < snd (fst r)) (fst (fst r)).
Proof.
  intros Hn. induction lens as [|s rest IH]; intros num Hl; cbn zeta; [discriminate|].
  inversion Hl as [|? ? Hs Hrest]; subst. rewrite loop_cons.
  destruct (num <? total); [|discriminate].
  destruct (collect s n_envs num stop) as [num' cont] eqn:EC. destruct cont.
  - specialize (IH num' Hrest). cbn zeta in IH.
    destruct (loop m n_envs total stop rest num') as [[l fin] st] eqn:EL. cbn [fst snd] in *.
    intros Hst. specialize (IH Hst). apply Forall_app. split; [|exact IH].
    assert (num' < fin).
    { clear IH. destruct rest as [|s2 rest2]; [cbn in EL; inversion EL; subst; discriminate|].
      rewrite loop_cons in EL. destruct (num' <? total); [|inversion EL; subst; discriminate].
      destruct (collect s2 n_envs num' stop) as [n2 c2] eqn:EC2.
      destruct (collect_advance _ _ _ _ _ _ EC2) as (j & Hj & Hn2 & Hc & Hc').
      inversion Hrest as [|? ? Hs2 Hrest2]; subst.
      destruct c2.
      - specialize (Hc eq_refl). subst j.
        pose proof (loop_increasing m n_envs total stop Hn rest2 (num' + Z.of_nat s2 * n_envs) Hrest2) as L2. cbn zeta in L2.
        destruct (loop m n_envs total stop rest2 (num' + Z.of_nat s2 * n_envs)) as [[l2 f2] st2]. cbn [fst snd] in *.
        inversion EL; subst. nia.
      - inversion EL; subst. specialize (Hc' eq_refl). nia. }
    destruct m; cbn [train_event].
    + constructor; [cbn [fst]; lia|constructor].
    + destruct (_ && _); [constructor; [cbn [fst]; lia|constructor]|constructor].
  - intros _. constructor.
Qed.

(* the loops break exactly when the rollout was stopped (regenerated tests) *)
Lemma frag_breaks c : on_break_after_stop c = negb c /\ off_break_after_stop c = negb c /\ ppo_epoch_break c = negb c.
Proof. repeat split; reflexivity. Qed.

(* ------------------------------------------------------------------ PPO.train / A2C.train: optimizer steps per train() *)
Lemma frag_ppo_train n_epochs batch hk a t n :
  ppo_epoch_range n_epochs = n_epochs /\ ppo_epoch_iter = 1 /\ ppo_get_batch batch = batch /\ a2c_get_batch = 1 /\
  ppo_kl_stop hk a t = (hk && negb (Qle_bool a ((3 # 2) * t))) /\ ppo_kl_sets_continue = false /\ ppo_continue_init = true /\
  ppo_n_updates n = n + 1 /\ a2c_n_updates n = n + 1.
Proof. repeat split; reflexivity. Qed.

Lemma ppo_minibatches_nostop kl : forall js, (forall j, kl j = false) -> ppo_minibatches js kl = (length js, true).
Proof. intros js H. induction js as [|j js IH]; [reflexivity|]. cbn [ppo_minibatches length]. rewrite H, IH. reflexivity. Qed.

Lemma ppo_minibatches_le kl : forall js, (fst (ppo_minibatches js kl) <= length js)%nat.
Proof.
  induction js as [|j js IH]; [cbn; lia|]. cbn [ppo_minibatches length]. destruct (kl j); [cbn; lia|].
  destruct (ppo_minibatches js kl) as [n c]. cbn [fst] in *. lia.
Qed.

(* without early stop: n_epochs * k optimizer steps and n_epochs increments of _n_updates; with any early-stop behaviour: at most that,
   and the epoch in which the stop happens is the last one *)
Theorem ppo_train_steps n_epochs k kl :
  ((forall e j, kl e j = false) -> ppo_train n_epochs k kl = ((n_epochs * k)%nat, n_epochs)) /\
  (fst (ppo_train n_epochs k kl) <= n_epochs * k)%nat /\ (snd (ppo_train n_epochs k kl) <= n_epochs)%nat.
Proof.
  unfold ppo_train. generalize 0%nat as s. induction n_epochs as [|E IH]; intros s; cbn [seq ppo_epochs].
  - repeat split; cbn; lia.
  - destruct (IH (S s)) as (A & B & C). split; [|split].
    + intros H. rewrite ppo_minibatches_nostop by (intros j; apply H). rewrite (A H). rewrite seq_length. f_equal; lia.
    + pose proof (ppo_minibatches_le (kl s) (seq 0 k)) as L. rewrite seq_length in L.
      destruct (ppo_minibatches (seq 0 k) (kl s)) as [n c]. destruct c.
      * destruct (ppo_epochs (seq (S s) E) k kl) as [n' u']. cbn [fst] in *. lia.
      * cbn [fst] in *. lia.
    + destruct (ppo_minibatches (seq 0 k) (kl s)) as [n c]. destruct c.
      * destruct (ppo_epochs (seq (S s) E) k kl) as [n' u']. cbn [snd] in *. lia.
      * cbn [snd]. lia.
Qed.

(* link to the minibatch slicing of get() (C05's model) and to on_train_steps *)
Theorem ppo_train_is_on_train_steps n_epochs N b : (1 <= b)%nat ->
  Z.of_nat (n_epochs * length (minibatches b (seq 0 N))) = on_train_steps (Z.of_nat n_epochs) (Z.of_nat N) (Z.of_nat b).
Proof.
  intros Hb. rewrite minibatch_count by exact Hb. rewrite seq_length. unfold on_train_steps.
  rewrite Nat2Z.inj_mul. f_equal. rewrite Nat2Z.inj_div. f_equal. lia.
Qed.
