(* C02 - proofs about Model/Subproc.v: every schedule yields the sequential result, no deadlock,
   the all-workers methods are the DummyVecEnv loop, interface lemmas for the regenerated skeleton. *)
From SB3V Require Import Lib.Tactics Model.Script Model.VecEnv Model.Subproc Gen.Frag_Subproc.
Local Open Scope nat_scope.

(* ---------- list helpers ---------- *)
Lemma nth_error_set_nth_eq {X} : forall (l : list X) i x y, nth_error l i = Some y -> nth_error (set_nth i x l) i = Some x.
Proof.
  induction l as [|a l IH]; intros i x y H; destruct i; try discriminate; cbn in *; eauto.
Qed.

Lemma set_nth_length {X} : forall (l : list X) i x, length (set_nth i x l) = length l.
Proof. induction l as [|a l IH]; intros i x; destruct i; cbn; auto. Qed.

Lemma set_nth_app {X} : forall (pre : list X) w ws x, set_nth (length pre) x (pre ++ w :: ws) = pre ++ x :: ws.
Proof. induction pre as [|a pre IH]; intros; cbn; [reflexivity|rewrite IH; reflexivity]. Qed.

Lemma Forall2_set_nth {X Y} (P : X -> Y -> Prop) : forall l1 l2 i x y,
  Forall2 P l1 l2 -> P x y -> Forall2 P (set_nth i x l1) (set_nth i y l2).
Proof.
  intros l1 l2 i x y H. revert i. induction H as [|a b l1 l2 Hab H IH]; intros i Hxy.
  - destruct i; constructor.
  - destruct i; cbn; constructor; auto.
Qed.

Lemma Forall2_set_nth_l {X Y} (P : X -> Y -> Prop) : forall l1 l2 i x y,
  Forall2 P l1 l2 -> nth_error l2 i = Some y -> P x y -> Forall2 P (set_nth i x l1) l2.
Proof.
  intros l1 l2 i x y H. revert i. induction H as [|a b l1 l2 Hab H IH]; intros i Hn Hxy.
  - destruct i; discriminate.
  - destruct i; cbn in *.
    + inv Hn. constructor; auto.
    + constructor; auto.
Qed.

Lemma Forall2_nth_error_l {X Y} (P : X -> Y -> Prop) : forall l1 l2 i x,
  Forall2 P l1 l2 -> nth_error l1 i = Some x -> exists y, nth_error l2 i = Some y /\ P x y.
Proof.
  intros l1 l2 i x H. revert i. induction H as [|a b l1 l2 Hab H IH]; intros i Hn.
  - destruct i; discriminate.
  - destruct i; cbn in *.
    + inv Hn. eauto.
    + eauto.
Qed.

Lemma Forall2_nth_error_r {X Y} (P : X -> Y -> Prop) : forall l1 l2 i y,
  Forall2 P l1 l2 -> nth_error l2 i = Some y -> exists x, nth_error l1 i = Some x /\ P x y.
Proof.
  intros l1 l2 i y H. revert i. induction H as [|a b l1 l2 Hab H IH]; intros i Hn.
  - destruct i; discriminate.
  - destruct i; cbn in *.
    + inv Hn. eauto.
    + eauto.
Qed.

Lemma app_eq_self {X} : forall (a l : list X), l = a ++ l -> a = [].
Proof.
  intros a l H. assert (L : length l = length a + length l) by (rewrite H at 1; apply app_length).
  destruct a; [reflexivity|cbn in L; lia].
Qed.

Lemma nth_error_set_nth_neq {X} : forall (l : list X) i j x, i <> j -> nth_error (set_nth i x l) j = nth_error l j.
Proof.
  induction l as [|a l IH]; intros i j x H; destruct i, j; cbn; auto; congruence.
Qed.

Lemma map_set_nth {X Y} (f : X -> Y) : forall (l : list X) i x, map f (set_nth i x l) = set_nth i (f x) (map f l).
Proof. induction l as [|a l IH]; intros i x; destruct i; cbn; auto. rewrite IH. reflexivity. Qed.

Lemma nth_error_ext_eq {X} : forall (l1 l2 : list X), (forall i, nth_error l1 i = nth_error l2 i) -> l1 = l2.
Proof.
  induction l1 as [|a l1 IH]; intros l2 H.
  - destruct l2; [reflexivity|]. specialize (H 0). discriminate.
  - destruct l2 as [|b l2]; [specialize (H 0); discriminate|].
    pose proof (H 0) as H0. cbn in H0. inv H0. f_equal. apply IH. intros i. exact (H (S i)).
Qed.

Section Proofs.
Context {W C R : Type}.
Variable wstep : W -> C -> W * R.

Notation step := (step wstep).
Notation exec := (exec wstep).
Notation seq_instr := (seq_instr wstep).
Notation seq_exec := (seq_exec wstep).
Notation wrun := (wrun wstep).

(* ---------- a worker on its own: deterministic, compositional ---------- *)
Lemma wrun_cons : forall s c cs,
  wrun s (c :: cs) = (fst (wrun (fst (wstep s c)) cs), snd (wstep s c) :: snd (wrun (fst (wstep s c)) cs)).
Proof.
  intros s c cs. cbn [Subproc.wrun]. destruct (wstep s c) as [s1 x]. cbn [fst snd].
  destruct (wrun s1 cs) as [s2 xs]. reflexivity.
Qed.

Lemma wrun_snoc : forall cs s c,
  wrun s (cs ++ [c]) = (fst (wstep (fst (wrun s cs)) c), snd (wrun s cs) ++ [snd (wstep (fst (wrun s cs)) c)]).
Proof.
  induction cs as [|c0 cs IH]; intros s c.
  - cbn. destruct (wstep s c). reflexivity.
  - rewrite <- app_comm_cons. rewrite !wrun_cons. rewrite IH. cbn [fst snd]. reflexivity.
Qed.

(* worker_determinism: the replies of a worker are a function of the commands it was sent, and
   handling commands one at a time or in a batch is the same *)
Theorem worker_determinism : forall s cs1 cs2,
  wrun s (cs1 ++ cs2) = (fst (wrun (fst (wrun s cs1)) cs2), snd (wrun s cs1) ++ snd (wrun (fst (wrun s cs1)) cs2)).
Proof.
  intros s cs1. revert s. induction cs1 as [|c cs1 IH]; intros s cs2.
  - cbn. destruct (wrun s cs2). reflexivity.
  - rewrite <- app_comm_cons. rewrite !wrun_cons. rewrite IH. cbn [fst snd]. reflexivity.
Qed.

(* ---------- the simulation invariant ---------- *)
(* if worker w drained its inbox it would be in the sequential state, with the sequential reply queue *)
Definition Rw (w : worker W C R) (sw : sworker W R) : Prop :=
  fst (wrun (wst w) (inbox w)) = sw_st sw /\ outbox w ++ snd (wrun (wst w) (inbox w)) = sw_queue sw.
Definition Inv (cfg : config W C R) (sq : sconfig W R) : Prop :=
  log cfg = s_log sq /\ Forall2 Rw (workers cfg) (s_workers sq).

Lemma Inv_init : forall prog sts, Inv (init prog sts) (sinit sts).
Proof.
  intros prog sts. split; [reflexivity|]. cbn.
  induction sts as [|s sts IH]; cbn; constructor; auto. split; reflexivity.
Qed.

Lemma step_W_sim : forall cfg sq i cfg',
  Inv cfg sq -> step cfg (ActW i) = Some cfg' -> pc cfg' = pc cfg /\ Inv cfg' sq.
Proof.
  intros cfg sq i cfg' [L F] H. cbn in H.
  destruct (nth_error (workers cfg) i) as [w|] eqn:Hw; [|discriminate].
  destruct (inbox w) as [|c q] eqn:Hi; [discriminate|].
  destruct (wstep (wst w) c) as [s' r] eqn:Hs. inv H. cbn [pc log workers]. split; [reflexivity|].
  split; [exact L|].
  destruct (Forall2_nth_error_l _ _ _ _ _ F Hw) as (sw & Hsw & [R1 R2]).
  eapply Forall2_set_nth_l; eauto.
  rewrite Hi in R1, R2. rewrite wrun_cons in R1, R2. rewrite Hs in R1, R2. cbn [fst snd] in R1, R2.
  split; cbn [wst inbox outbox]; [exact R1|]. rewrite <- app_assoc. exact R2.
Qed.

Lemma step_P_sim : forall cfg sq ins rest cfg',
  Inv cfg sq -> pc cfg = ins :: rest -> step cfg ActP = Some cfg' ->
  exists sq', seq_instr sq ins = Some sq' /\ pc cfg' = rest /\ Inv cfg' sq'.
Proof.
  intros cfg sq ins rest cfg' [L F] Hpc H. cbn in H. rewrite Hpc in H.
  destruct ins as [i c|i].
  - destruct (nth_error (workers cfg) i) as [w|] eqn:Hw; [|discriminate]. inv H.
    destruct (Forall2_nth_error_l _ _ _ _ _ F Hw) as (sw & Hsw & [R1 R2]).
    cbn [Subproc.seq_instr]. rewrite Hsw. destruct (wstep (sw_st sw) c) as [s' r] eqn:Hs.
    eexists. split; [reflexivity|]. split; [reflexivity|]. split; [exact L|]. cbn [workers s_workers].
    apply Forall2_set_nth; [exact F|]. split; cbn [wst inbox outbox sw_st sw_queue].
    + rewrite wrun_snoc. cbn [fst]. rewrite R1, Hs. reflexivity.
    + rewrite wrun_snoc. cbn [snd]. rewrite R1, Hs. cbn [snd]. rewrite app_assoc, R2. reflexivity.
  - destruct (nth_error (workers cfg) i) as [w|] eqn:Hw; [|discriminate].
    destruct (outbox w) as [|r q] eqn:Ho; [discriminate|]. inv H.
    destruct (Forall2_nth_error_l _ _ _ _ _ F Hw) as (sw & Hsw & [R1 R2]).
    cbn [Subproc.seq_instr]. rewrite Hsw. rewrite Ho in R2. cbn in R2. rewrite <- R2.
    eexists. split; [reflexivity|]. split; [reflexivity|]. split.
    + cbn [log s_log]. rewrite L. reflexivity.
    + cbn [workers s_workers]. apply Forall2_set_nth; [exact F|]. split; cbn [wst inbox outbox sw_st sw_queue]; auto.
Qed.

Lemma seq_exec_app : forall a b sq,
  seq_exec sq (a ++ b) = match seq_exec sq a with Some sq' => seq_exec sq' b | None => None end.
Proof.
  induction a as [|x a IH]; intros b sq; [reflexivity|].
  cbn [app Subproc.seq_exec]. destruct (seq_instr sq x); [apply IH|reflexivity].
Qed.

Lemma exec_app : forall a b cfg,
  exec cfg (a ++ b) = match exec cfg a with Some c' => exec c' b | None => None end.
Proof.
  induction a as [|x a IH]; intros b cfg; [reflexivity|].
  cbn [app Subproc.exec]. destruct (step cfg x); [apply IH|reflexivity].
Qed.

(* whatever the schedule did so far, the parent has executed a prefix of its program and the
   configuration is related to the sequential run of exactly that prefix *)
Lemma exec_sim : forall sched cfg sq cfg',
  Inv cfg sq -> exec cfg sched = Some cfg' ->
  exists done sq', pc cfg = done ++ pc cfg' /\ seq_exec sq done = Some sq' /\ Inv cfg' sq'.
Proof.
  induction sched as [|a sched IH]; intros cfg sq cfg' I H.
  - cbn in H. inv H. exists [], sq. auto.
  - cbn [Subproc.exec] in H. destruct (step cfg a) as [c1|] eqn:Hs; [|discriminate].
    destruct a as [|i].
    + destruct (pc cfg) as [|ins rest] eqn:Hpc; [cbn in Hs; rewrite Hpc in Hs; discriminate|].
      destruct (step_P_sim _ _ _ _ _ I Hpc Hs) as (sq1 & S1 & P1 & I1).
      destruct (IH _ _ _ I1 H) as (done & sq' & D & E & I').
      exists (ins :: done), sq'. rewrite P1 in D. split; [cbn; rewrite D; reflexivity|].
      split; [cbn [Subproc.seq_exec]; rewrite S1; exact E|exact I'].
    + destruct (step_W_sim _ _ _ _ I Hs) as (P1 & I1).
      destruct (IH _ _ _ I1 H) as (done & sq' & D & E & I').
      exists done, sq'. rewrite P1 in D. auto.
Qed.

(* schedule_independence: under EVERY schedule under which the parent program completes, the values the
   parent received (with the pipe they came from, in program order) are those of the sequential run *)
Theorem schedule_independence : forall prog sts sched cfg',
  exec (init prog sts) sched = Some cfg' -> pc cfg' = [] ->
  exists sq', seq_exec (sinit sts) prog = Some sq' /\ log cfg' = s_log sq'.
Proof.
  intros prog sts sched cfg' H Hp.
  destruct (exec_sim _ _ _ _ (Inv_init prog sts) H) as (done & sq' & D & E & [L _]).
  cbn [init pc] in D. rewrite Hp, app_nil_r in D. subst done. eauto.
Qed.

(* ---------- progress ---------- *)
Lemma drain : forall k cfg i w,
  nth_error (workers cfg) i = Some w -> length (inbox w) = k ->
  exists cfg', exec cfg (repeat (ActW i) k) = Some cfg' /\ pc cfg' = pc cfg /\
    nth_error (workers cfg') i = Some (mk_worker [] (outbox w ++ snd (wrun (wst w) (inbox w))) (fst (wrun (wst w) (inbox w)))).
Proof.
  induction k as [|k IH]; intros cfg i w Hw Hl.
  - destruct (inbox w) eqn:Hi; [|discriminate]. exists cfg. cbn. rewrite app_nil_r.
    split; [reflexivity|]. split; [reflexivity|]. rewrite Hw. destruct w; cbn in *. subst. reflexivity.
  - destruct (inbox w) as [|c q] eqn:Hi; [discriminate|]. cbn in Hl.
    cbn [repeat Subproc.exec]. cbn [Subproc.step]. rewrite Hw, Hi.
    destruct (wstep (wst w) c) as [s' r] eqn:Hs.
    set (cfg1 := mk_config (pc cfg) (log cfg) (set_nth i (mk_worker q (outbox w ++ [r]) s') (workers cfg))).
    destruct (IH cfg1 i (mk_worker q (outbox w ++ [r]) s')) as (cfg' & E & P & N).
    + cbn. eapply nth_error_set_nth_eq; eauto.
    + cbn. lia.
    + exists cfg'. split; [exact E|]. split; [exact P|].
      rewrite N. cbn [wst inbox outbox]. rewrite wrun_cons, Hs. cbn [fst snd]. rewrite <- app_assoc. reflexivity.
Qed.

(* from any configuration related to a sequential state from which the rest of the program runs
   sequentially, some schedule completes the program (and then, by the theorem above, with the
   sequential result) *)
Lemma complete : forall prog cfg sq sqf,
  pc cfg = prog -> Inv cfg sq -> seq_exec sq prog = Some sqf ->
  exists sched cfg', exec cfg sched = Some cfg' /\ pc cfg' = [] /\ log cfg' = s_log sqf.
Proof.
  induction prog as [|ins rest IH]; intros cfg sq sqf Hpc I S.
  - cbn in S. inv S. exists [], cfg. destruct I as [L _]. auto.
  - cbn [Subproc.seq_exec] in S. destruct (seq_instr sq ins) as [sq1|] eqn:S1; [|discriminate].
    destruct ins as [i c|i].
    + (* send: always enabled *)
      assert (exists cfg1, step cfg ActP = Some cfg1) as [cfg1 Hs].
      { cbn. rewrite Hpc. cbn in S1. destruct (nth_error (s_workers sq) i) as [sw|] eqn:Hsw; [|discriminate].
        destruct I as [_ F]. destruct (Forall2_nth_error_r _ _ _ _ _ F Hsw) as (w & Hw & _). rewrite Hw. eauto. }
      destruct (step_P_sim _ _ _ _ _ I Hpc Hs) as (sq1' & S1' & P1 & I1).
      assert (sq1' = sq1) by congruence. subst sq1'.
      destruct (IH cfg1 sq1 sqf P1 I1 S) as (sched & cfg' & E & P & L).
      exists (ActP :: sched), cfg'. cbn [Subproc.exec]. rewrite Hs. auto.
    + (* recv: let worker i drain its inbox first *)
      cbn in S1. destruct (nth_error (s_workers sq) i) as [sw|] eqn:Hsw; [|discriminate].
      destruct (sw_queue sw) as [|r q] eqn:Hq; [discriminate|].
      destruct I as [L F]. destruct (Forall2_nth_error_r _ _ _ _ _ F Hsw) as (w & Hw & [R1 R2]).
      destruct (drain (length (inbox w)) cfg i w Hw eq_refl) as (cfg1 & E1 & P1 & N1).
      destruct (exec_sim _ _ _ _ (conj L F) E1) as (done & sq' & D & E & I1).
      rewrite P1 in D. apply app_eq_self in D. subst done. cbn in E. inv E.
      assert (exists cfg2, step cfg1 ActP = Some cfg2) as [cfg2 Hs].
      { cbn. rewrite P1, Hpc, N1. cbn [outbox]. rewrite R2, Hq. eauto. }
      assert (Hpc1 : pc cfg1 = Recv i :: rest) by (rewrite P1; exact Hpc).
      destruct (step_P_sim _ _ _ _ _ I1 Hpc1 Hs) as (sq2 & S2 & P2 & I2).
      assert (sq2 = sq1).
      { cbn in S2. rewrite Hsw, Hq in S2. inv S2. inv S1. reflexivity. }
      subst sq2.
      destruct (IH cfg2 sq1 sqf P2 I2 S) as (sched & cfg' & E2 & P & L2).
      exists (repeat (ActW i) (length (inbox w)) ++ ActP :: sched), cfg'.
      rewrite exec_app, E1. cbn [Subproc.exec]. rewrite Hs. auto.
Qed.

(* no_deadlock: if the program can run sequentially at all (every recv has its send), then from EVERY
   configuration reachable under ANY schedule the program can still be completed, with the sequential result *)
Theorem no_deadlock : forall prog sts sqf sched cfg,
  seq_exec (sinit sts) prog = Some sqf ->
  exec (init prog sts) sched = Some cfg ->
  exists sched' cfg', exec cfg sched' = Some cfg' /\ pc cfg' = [] /\ log cfg' = s_log sqf.
Proof.
  intros prog sts sqf sched cfg S H.
  destruct (exec_sim _ _ _ _ (Inv_init prog sts) H) as (done & sq' & D & E & I).
  cbn [init pc] in D. rewrite D, seq_exec_app, E in S.
  eapply complete; eauto.
Qed.

(* ---------- a method over all workers = the DummyVecEnv loop ---------- *)
Definition stepw (payload : nat -> C) (iw : nat * sworker W R) : sworker W R :=
  let '(i, w) := iw in
  mk_sworker (sw_queue w ++ [snd (wstep (sw_st w) (payload i))]) (fst (wstep (sw_st w) (payload i))).

Lemma seq_sends_all : forall ws pre payload lg,
  seq_exec (mk_sconfig lg (pre ++ ws)) (sends (seq (length pre) (length ws)) payload)
  = Some (mk_sconfig lg (pre ++ map (stepw payload) (combine (seq (length pre) (length ws)) ws))).
Proof.
  induction ws as [|w ws IH]; intros pre payload lg.
  - cbn. reflexivity.
  - cbn [length seq sends map Subproc.seq_exec Subproc.seq_instr s_workers s_log combine].
    rewrite nth_error_app2 by lia. rewrite Nat.sub_diag. cbn [nth_error].
    destruct (wstep (sw_st w) (payload (length pre))) as [s' r] eqn:Hs.
    rewrite set_nth_app.
    replace (pre ++ mk_sworker (sw_queue w ++ [r]) s' :: ws) with ((pre ++ [mk_sworker (sw_queue w ++ [r]) s']) ++ ws)
      by (rewrite <- app_assoc; reflexivity).
    replace (S (length pre)) with (length (pre ++ [mk_sworker (sw_queue w ++ [r]) s'])) by (rewrite app_length; cbn; lia).
    fold (sends (seq (length (pre ++ [mk_sworker (sw_queue w ++ [r]) s'])) (length ws)) payload).
    rewrite IH. rewrite <- app_assoc. cbn [app stepw]. rewrite Hs. reflexivity.
Qed.

Definition popw (w : sworker W R) : sworker W R := mk_sworker (tl (sw_queue w)) (sw_st w).
Definition headw (iw : nat * sworker W R) : list (nat * R) :=
  match sw_queue (snd iw) with r :: _ => [(fst iw, r)] | [] => [] end.

Lemma seq_recvs_all : forall ws pre lg,
  Forall (fun w => sw_queue w <> []) ws ->
  seq_exec (mk_sconfig lg (pre ++ ws)) (recvs (seq (length pre) (length ws)))
  = Some (mk_sconfig (lg ++ flat_map headw (combine (seq (length pre) (length ws)) ws)) (pre ++ map popw ws)).
Proof.
  induction ws as [|w ws IH]; intros pre lg H.
  - cbn. rewrite !app_nil_r. reflexivity.
  - inversion_clear H as [|? ? H1 H2].
    cbn [length seq recvs map Subproc.seq_exec Subproc.seq_instr s_workers s_log combine flat_map].
    rewrite nth_error_app2 by lia. rewrite Nat.sub_diag. cbn [nth_error].
    destruct (sw_queue w) as [|r q] eqn:Hq; [congruence|].
    rewrite set_nth_app.
    replace (pre ++ mk_sworker q (sw_st w) :: ws) with ((pre ++ [mk_sworker q (sw_st w)]) ++ ws)
      by (rewrite <- app_assoc; reflexivity).
    replace (S (length pre)) with (length (pre ++ [mk_sworker q (sw_st w)])) by (rewrite app_length; cbn; lia).
    fold (recvs (C:=C) (seq (length (pre ++ [mk_sworker q (sw_st w)])) (length ws))).
    rewrite IH by exact H2. rewrite <- !app_assoc. cbn [app].
    unfold headw at 2. cbn [fst snd]. rewrite Hq. unfold popw at 2. rewrite Hq. cbn [tl app]. reflexivity.
Qed.

(* send to all, then receive from all, every queue empty before: the parent receives, in worker order,
   exactly what `for i in range(n): result[i] = handle(worker i, command i)` computes *)
Theorem seq_all_method : forall sts payload lg,
  seq_exec (mk_sconfig lg (map (fun s => mk_sworker [] s) sts))
           (sends (seq 0 (length sts)) payload ++ recvs (seq 0 (length sts)))
  = Some (mk_sconfig (lg ++ map (fun '(i, s) => (i, snd (wstep s (payload i)))) (combine (seq 0 (length sts)) sts))
                     (map (fun '(i, s) => mk_sworker [] (fst (wstep s (payload i)))) (combine (seq 0 (length sts)) sts))).
Proof.
  intros sts payload lg. rewrite seq_exec_app.
  pose proof (seq_sends_all (map (fun s => mk_sworker [] s) sts) [] payload lg) as A.
  cbn [app length] in A. rewrite map_length in A. rewrite A. clear A.
  set (ws1 := map (stepw payload) (combine (seq 0 (length sts)) (map (fun s => mk_sworker [] s) sts))).
  assert (L1 : length ws1 = length sts).
  { unfold ws1. rewrite map_length, combine_length, seq_length, map_length. lia. }
  pose proof (seq_recvs_all ws1 [] lg) as B. cbn [app length] in B. rewrite L1 in B. rewrite B; clear B.
  - f_equal. unfold ws1. clear L1 ws1. f_equal.
    + f_equal. generalize 0 as k. induction sts as [|s sts IH]; intros k; [reflexivity|].
      cbn [length seq map combine flat_map]. rewrite <- IH. reflexivity.
    + generalize 0 as k. induction sts as [|s sts IH]; intros k; [reflexivity|].
      cbn [length seq map combine]. rewrite <- IH. reflexivity.
  - unfold ws1. clear L1 ws1. generalize 0 as k. induction sts as [|s sts IH]; intros k; [constructor|].
    cbn [length seq map combine]. constructor; [|apply IH]. cbn. discriminate.
Qed.

(* ---------- any method over any list of target workers = the DummyVecEnv loop over those targets ---------- *)
Notation dloop := (dloop wstep).
Notation dhistory := (dhistory wstep).

Lemma proj_replies_cons_eq : forall t ts (x : R) xs, proj_replies t (t :: ts) (x :: xs) = x :: proj_replies t ts xs.
Proof. intros. unfold proj_replies. cbn. rewrite Nat.eqb_refl. reflexivity. Qed.
Lemma proj_replies_cons_neq : forall i t ts (x : R) xs, t <> i -> proj_replies i (t :: ts) (x :: xs) = proj_replies i ts xs.
Proof. intros. unfold proj_replies. cbn. destruct (Nat.eqb t i) eqn:E; [apply Nat.eqb_eq in E; congruence|reflexivity]. Qed.

Lemma dloop_length : forall ts sts payload,
  Forall (fun t => t < length sts) ts ->
  length (fst (dloop sts ts payload)) = length sts /\ length (snd (dloop sts ts payload)) = length ts.
Proof.
  induction ts as [|t ts IH]; intros sts payload H; [cbn; auto|].
  inversion_clear H as [|? ? H1 H2]. cbn [Subproc.dloop].
  destruct (nth_error sts t) as [s|] eqn:E; [|apply nth_error_None in E; lia].
  destruct (wstep s (payload t)) as [s' x].
  specialize (IH (set_nth t s' sts) payload).
  destruct (dloop (set_nth t s' sts) ts payload) as [sts' xs]. cbn [fst snd] in *.
  rewrite set_nth_length in IH. destruct IH as [A B]; [exact H2|]. cbn. lia.
Qed.

(* sending to the targets, in order: every worker ends in its Dummy-loop state, its queue is extended by
   exactly its own replies, in order *)
Lemma seq_sends_targets : forall ts ws payload lg,
  Forall (fun t => t < length ws) ts ->
  exists ws',
    seq_exec (mk_sconfig lg ws) (sends ts payload) = Some (mk_sconfig lg ws') /\
    map (@sw_st W R) ws' = fst (dloop (map (@sw_st W R) ws) ts payload) /\
    (forall i w, nth_error ws i = Some w ->
       exists w', nth_error ws' i = Some w' /\
                  sw_queue w' = sw_queue w ++ proj_replies i ts (snd (dloop (map (@sw_st W R) ws) ts payload))).
Proof.
  induction ts as [|t ts IH]; intros ws payload lg H.
  - exists ws. cbn. split; [reflexivity|]. split; [reflexivity|].
    intros i w Hw. exists w. rewrite app_nil_r. auto.
  - inversion_clear H as [|? ? H1 H2].
    cbn [sends map Subproc.seq_exec Subproc.seq_instr s_workers s_log Subproc.dloop].
    destruct (nth_error ws t) as [w0|] eqn:E; [|apply nth_error_None in E; lia].
    rewrite (map_nth_error (@sw_st W R) _ _ E).
    destruct (wstep (sw_st w0) (payload t)) as [s' x] eqn:Hs.
    set (ws1 := set_nth t (mk_sworker (sw_queue w0 ++ [x]) s') ws).
    destruct (IH ws1 payload lg) as (ws' & E1 & E2 & E3).
    { unfold ws1. rewrite set_nth_length. exact H2. }
    fold (sends ts payload). exists ws'. split; [exact E1|].
    assert (M : map (@sw_st W R) ws1 = set_nth t s' (map (@sw_st W R) ws)).
    { unfold ws1. rewrite map_set_nth. reflexivity. }
    rewrite M in E2, E3.
    destruct (dloop (set_nth t s' (map (@sw_st W R) ws)) ts payload) as [sts' xs] eqn:D.
    cbn [fst snd] in *. split; [exact E2|].
    intros i w Hw. destruct (Nat.eq_dec t i) as [->|Ne].
    + rewrite E in Hw. inv Hw.
      destruct (E3 i (mk_sworker (sw_queue w ++ [x]) s')) as (w' & N & Q).
      { unfold ws1. eapply nth_error_set_nth_eq; eauto. }
      exists w'. split; [exact N|]. rewrite Q. cbn [sw_queue]. rewrite proj_replies_cons_eq, <- app_assoc. reflexivity.
    + destruct (E3 i w) as (w' & N & Q).
      { unfold ws1. rewrite nth_error_set_nth_neq by exact Ne. exact Hw. }
      exists w'. split; [exact N|]. rewrite Q. rewrite proj_replies_cons_neq by exact Ne. reflexivity.
Qed.

(* receiving from the targets, in order, when every worker's queue starts with its own replies *)
Lemma seq_recvs_targets : forall ts xs ws lg (rest : nat -> list R),
  length xs = length ts ->
  Forall (fun t => t < length ws) ts ->
  (forall i w, nth_error ws i = Some w -> sw_queue w = proj_replies i ts xs ++ rest i) ->
  exists ws',
    seq_exec (mk_sconfig lg ws) (recvs (C:=C) ts) = Some (mk_sconfig (lg ++ combine ts xs) ws') /\
    length ws' = length ws /\
    (forall i w, nth_error ws i = Some w -> nth_error ws' i = Some (mk_sworker (rest i) (sw_st w))).
Proof.
  induction ts as [|t ts IH]; intros xs ws lg rest L H Q.
  - destruct xs; [|discriminate]. exists ws. cbn [recvs map Subproc.seq_exec combine]. rewrite app_nil_r.
    split; [reflexivity|]. split; [reflexivity|].
    intros i w Hw. rewrite Hw. specialize (Q i w Hw). cbn in Q. destruct w; cbn in *. subst. reflexivity.
  - destruct xs as [|x xs]; [discriminate|]. cbn in L. inversion_clear H as [|? ? H1 H2].
    cbn [recvs map Subproc.seq_exec Subproc.seq_instr s_workers s_log].
    destruct (nth_error ws t) as [w0|] eqn:E; [|apply nth_error_None in E; lia].
    rewrite (Q t w0 E), proj_replies_cons_eq. cbn [app].
    set (ws1 := set_nth t (mk_sworker (proj_replies t ts xs ++ rest t) (sw_st w0)) ws).
    destruct (IH xs ws1 (lg ++ [(t, x)]) rest) as (ws' & E1 & E2 & E3).
    + lia.
    + unfold ws1. rewrite set_nth_length. exact H2.
    + intros i w Hw. destruct (Nat.eq_dec t i) as [->|Ne].
      * unfold ws1 in Hw. rewrite (nth_error_set_nth_eq _ _ _ _ E) in Hw. inv Hw. reflexivity.
      * unfold ws1 in Hw. rewrite nth_error_set_nth_neq in Hw by exact Ne.
        rewrite (Q i w Hw). rewrite proj_replies_cons_neq by exact Ne. reflexivity.
    + fold (recvs (C:=C) ts). exists ws'. split.
      * rewrite E1. cbn [combine]. rewrite <- app_assoc. reflexivity.
      * split; [rewrite E2; unfold ws1; apply set_nth_length|].
        intros i w Hw. destruct (Nat.eq_dec t i) as [->|Ne].
        -- rewrite E in Hw. inv Hw.
           rewrite (E3 i (mk_sworker (proj_replies i ts xs ++ rest i) (sw_st w))); [reflexivity|].
           unfold ws1. eapply nth_error_set_nth_eq; eauto.
        -- apply E3. unfold ws1. rewrite nth_error_set_nth_neq by exact Ne. exact Hw.
Qed.

(* one method call over arbitrary in-range targets (repetitions and any order allowed), all queues empty
   before: it runs (so it cannot deadlock), the parent receives the Dummy-loop results in target order,
   the workers end in the Dummy-loop states with empty queues again *)
Theorem seq_targets_method : forall ts sts payload lg,
  Forall (fun t => t < length sts) ts ->
  seq_exec (mk_sconfig lg (map (fun s => mk_sworker [] s) sts)) (sends ts payload ++ recvs ts)
  = Some (mk_sconfig (lg ++ combine ts (snd (dloop sts ts payload)))
                     (map (fun s => mk_sworker [] s) (fst (dloop sts ts payload)))).
Proof.
  intros ts sts payload lg H.
  set (ws := map (fun s => mk_sworker (R:=R) [] s) sts).
  assert (Ms : map (@sw_st W R) ws = sts).
  { unfold ws. rewrite map_map. cbn. apply map_id. }
  destruct (seq_sends_targets ts ws payload lg) as (ws1 & E1 & E2 & E3).
  { unfold ws. rewrite map_length. exact H. }
  rewrite Ms in E2, E3.
  destruct (dloop_length ts sts payload H) as [L1 L2].
  assert (Lw1 : length ws1 = length sts).
  { rewrite <- (map_length (@sw_st W R) ws1), E2. exact L1. }
  destruct (seq_recvs_targets ts (snd (dloop sts ts payload)) ws1 lg (fun _ => [])) as (ws2 & F1 & F2 & F3).
  - exact L2.
  - rewrite Lw1. exact H.
  - intros i w1 Hw1.
    assert (Li : i < length ws) by (unfold ws; rewrite map_length, <- Lw1; apply nth_error_Some; rewrite Hw1; discriminate).
    destruct (nth_error ws i) as [w|] eqn:Hw; [|apply nth_error_None in Hw; lia].
    destruct (E3 i w Hw) as (w' & N & Q). rewrite Hw1 in N. injection N as N. subst w'.
    rewrite Q, app_nil_r.
    assert (Hq : sw_queue w = []).
    { unfold ws in Hw. rewrite nth_error_map in Hw. destruct (nth_error sts i); [|discriminate]. cbn in Hw. injection Hw as Hw. rewrite <- Hw. reflexivity. }
    rewrite Hq. reflexivity.
  - rewrite seq_exec_app, E1, F1. f_equal. f_equal.
    apply nth_error_ext_eq. intros i.
    destruct (nth_error ws1 i) as [w1|] eqn:Hw1.
    + rewrite (F3 i w1 Hw1). rewrite nth_error_map.
      assert (Hn : nth_error (fst (dloop sts ts payload)) i = Some (sw_st w1)).
      { rewrite <- E2. apply map_nth_error. exact Hw1. }
      rewrite Hn. reflexivity.
    + assert (length ws1 <= i) by (apply nth_error_None; exact Hw1).
      transitivity (@None (sworker W R)); [apply nth_error_None; lia|symmetry; apply nth_error_None; rewrite map_length; lia].
Qed.

(* a whole history of method calls (step, reset, get_attr, set_attr, env_method, ... over any index lists):
   it runs sequentially - hence, by no_deadlock, can be completed from every reachable configuration - and
   returns the Dummy-loop results *)
Definition calls_in_range (n : nat) (calls : list (list nat * (nat -> C))) : Prop :=
  Forall (fun c => Forall (fun t => t < n) (fst c)) calls.

Lemma dhistory_length : forall calls sts, calls_in_range (length sts) calls -> length (fst (dhistory sts calls)) = length sts.
Proof.
  induction calls as [|[ts p] calls IH]; intros sts H; [reflexivity|].
  inversion_clear H as [|? ? H1 H2]. cbn [Subproc.dhistory].
  destruct (dloop_length ts sts p H1) as [L _].
  destruct (dloop sts ts p) as [sts1 xs]. cbn [fst] in L.
  specialize (IH sts1). destruct (dhistory sts1 calls) as [sts2 lg]. cbn [fst] in *.
  rewrite IH; [exact L|]. unfold calls_in_range. rewrite L. exact H2.
Qed.

Theorem seq_history : forall calls sts lg,
  calls_in_range (length sts) calls ->
  seq_exec (mk_sconfig lg (map (fun s => mk_sworker [] s) sts)) (history_prog calls)
  = Some (mk_sconfig (lg ++ snd (dhistory sts calls)) (map (fun s => mk_sworker [] s) (fst (dhistory sts calls)))).
Proof.
  induction calls as [|[ts p] calls IH]; intros sts lg H.
  - cbn. rewrite app_nil_r. reflexivity.
  - inversion_clear H as [|? ? H1 H2]. cbn [history_prog flat_map method_prog fst snd].
    rewrite seq_exec_app. cbn [fst snd] in H1. unfold method_prog at 1. cbn [fst snd]. rewrite (seq_targets_method ts sts p lg H1).
    cbn [Subproc.dhistory]. destruct (dloop_length ts sts p H1) as [L _].
    destruct (dloop sts ts p) as [sts1 xs]. cbn [fst snd] in *.
    fold (history_prog calls). rewrite IH by (unfold calls_in_range; rewrite L; exact H2).
    destruct (dhistory sts1 calls) as [sts2 lg2]. cbn [fst snd]. rewrite <- app_assoc. reflexivity.
Qed.

(* every schedule, whole histories: the parent of the protocol model receives exactly the Dummy-loop results *)
Theorem history_any_schedule : forall calls sts sched cfg',
  calls_in_range (length sts) calls ->
  exec (init (history_prog calls) sts) sched = Some cfg' -> pc cfg' = [] ->
  log cfg' = snd (dhistory sts calls).
Proof.
  intros calls sts sched cfg' H E P.
  destruct (schedule_independence _ _ _ _ E P) as (sq & S & L).
  unfold sinit in S. rewrite (seq_history calls sts [] H) in S. inv S. exact L.
Qed.

Theorem history_no_deadlock : forall calls sts sched cfg,
  calls_in_range (length sts) calls ->
  exec (init (history_prog calls) sts) sched = Some cfg ->
  exists sched' cfg', exec cfg sched' = Some cfg' /\ pc cfg' = [] /\ log cfg' = snd (dhistory sts calls).
Proof.
  intros calls sts sched cfg H E.
  eapply no_deadlock in E; [|unfold sinit; apply (seq_history calls sts [] H)].
  exact E.
Qed.

End Proofs.

(* ---------- interface lemmas: the regenerated communication skeleton is the one of the model ---------- *)
Lemma frag_skel_step : skel_step_async ++ skel_step_wait = model_skel_step.
Proof. reflexivity. Qed.
Lemma frag_skel_reset : skel_reset = model_skel_reset.
Proof. reflexivity. Qed.
Lemma frag_skel_get_attr : skel_get_attr = model_skel_targets KGetAttr.
Proof. reflexivity. Qed.
Lemma frag_skel_set_attr : skel_set_attr = model_skel_targets KSetAttr.
Proof. reflexivity. Qed.
Lemma frag_skel_env_method : skel_env_method = model_skel_targets KEnvMethod.
Proof. reflexivity. Qed.
Lemma frag_skel_env_is_wrapped : skel_env_is_wrapped = model_skel_targets KIsWrapped.
Proof. reflexivity. Qed.
Lemma frag_skel_has_attr : skel_has_attr = model_skel_targets KHasAttr.
Proof. reflexivity. Qed.
Lemma frag_skel_targets_order : skel_targets_in_index_order = true /\ skel_indices_none_is_range = true.
Proof. split; reflexivity. Qed.
(* the worker receives one command per iteration and answers every command the parent programs use
   with exactly one reply *)
Lemma frag_worker_one_reply :
  worker_recvs_per_iteration = 1 /\
  Forall (fun k => In (k, 1) worker_replies) [KStep; KReset; KGetAttr; KSetAttr; KEnvMethod; KIsWrapped; KHasAttr; KRender; KGetSpaces].
Proof. split; [reflexivity|]. repeat (apply Forall_cons; [cbn; auto 15|]). apply Forall_nil. Qed.

Lemma frag_skel_get_images : skel_get_images = [SendEach true KRender; RecvEach true].
Proof. reflexivity. Qed.
(* which data worker i is sent: its own action / its own (seed, options) / the caller's arguments *)
Lemma frag_skel_payloads :
  skel_step_async_payload = [PayOwnAction] /\ skel_reset_payload = [PayOwnSeedOption] /\
  skel_get_attr_payload = [PayCallArgs] /\ skel_set_attr_payload = [PayCallArgs] /\ skel_env_method_payload = [PayCallArgs] /\
  skel_env_is_wrapped_payload = [PayCallArgs] /\ skel_has_attr_payload = [PayCallArgs].
Proof. repeat split; reflexivity. Qed.
(* the target list is exactly _get_target_remotes(indices); the replies reach the caller in worker order (only unpacking with zip,
   stacking, storing and returning are applied to them) *)
Lemma frag_skel_targets_and_order :
  (skel_get_attr_targets_ok && skel_set_attr_targets_ok && skel_env_method_targets_ok && skel_env_is_wrapped_targets_ok && skel_has_attr_targets_ok)%bool = true /\
  (skel_step_wait_results_ordered && skel_reset_results_ordered && skel_get_attr_results_ordered && skel_set_attr_results_ordered
   && skel_env_method_results_ordered && skel_env_is_wrapped_results_ordered && skel_has_attr_results_ordered && skel_get_images_results_ordered)%bool = true.
Proof. split; reflexivity. Qed.
(* the worker replies (observation, reward, done, info, reset_info) / (observation, reset_info), reset_info being the one env.reset returned *)
Lemma frag_worker_reply_shapes : worker_step_reply_ok = true /\ worker_reset_reply_ok = true.
Proof. split; reflexivity. Qed.

(* the program of a regenerated skeleton over all workers has the send-all / receive-all shape *)
Lemma skel_prog_all : forall {C} n targets (payload : cmdkind -> nat -> C) k,
  skel_prog n targets payload [SendEach true k; RecvEach true] = sends (seq 0 n) (payload k) ++ recvs (seq 0 n).
Proof. intros. cbn. rewrite app_nil_r. reflexivity. Qed.
Lemma skel_prog_targets : forall {C} n targets (payload : cmdkind -> nat -> C) k,
  skel_prog n targets payload (model_skel_targets k) = sends targets (payload k) ++ recvs targets.
Proof. intros. cbn. rewrite app_nil_r. reflexivity. Qed.

(* ---------- the scripted instance: a step over all workers, under any schedule, returns what the
   DummyVecEnv loop of Model/VecEnv.v (step_loop) returns ---------- *)
Definition step_reply (a : Z) (w : wstate) : sres := snd (sworker_step w (CmdStep a)).
Definition step_state (a : Z) (w : wstate) : wstate := fst (sworker_step w (CmdStep a)).
Definition reply_of (p : sout Z Z * option Z) : sres := ResStep (sout_tuple (fst p)) (snd p).

Lemma skipn_nth_cons : forall (l : list Z) k d, k < length l -> skipn k l = nth k l d :: skipn (S k) l.
Proof.
  induction l as [|x l IH]; intros k d H; [cbn in H; lia|].
  destruct k; [reflexivity|]. cbn [skipn nth]. apply IH. cbn in H. lia.
Qed.

Lemma step_facts : forall w a e' ri' o c,
  sub_step sc_step sc_reset (ws_env w) (ws_ri w) a = (e', ri', o, c) ->
  ws_env (step_state a w) = e' /\ ws_ri (step_state a w) = ri' /\ step_reply a w = reply_of (o, ri').
Proof.
  intros w a e' ri' o c H. unfold step_state, step_reply, reply_of. cbn [sworker_step]. rewrite H. cbn. auto.
Qed.

Lemma step_loop_workers : forall (ws : list wstate) k (acts : list Z),
  length acts = k + length ws ->
  let r := step_loop sc_step sc_reset (map ws_env ws) (map ws_ri ws) (skipn k acts) in
  let iw := combine (seq k (length ws)) ws in
  fst (fst (fst r)) = map (fun p => ws_env (step_state (nth (fst p) acts 0%Z) (snd p))) iw /\
  snd (fst (fst r)) = map (fun p => ws_ri (step_state (nth (fst p) acts 0%Z) (snd p))) iw /\
  map reply_of (combine (snd (fst r)) (snd (fst (fst r)))) = map (fun p => step_reply (nth (fst p) acts 0%Z) (snd p)) iw.
Proof.
  induction ws as [|w ws IH]; intros k acts L.
  - cbn. auto.
  - cbn [length] in L. cbv zeta.
    rewrite (skipn_nth_cons acts k 0%Z) by lia.
    cbn [map length seq combine step_loop].
    specialize (IH (S k) acts). cbv zeta in IH.
    destruct (sub_step sc_step sc_reset (ws_env w) (ws_ri w) (nth k acts 0%Z)) as [[[e' ri'] o] c] eqn:Hsub.
    destruct (step_loop sc_step sc_reset (map ws_env ws) (map ws_ri ws) (skipn (S k) acts)) as [[[es rs] os] cs] eqn:Lp.
    cbn [fst snd] in *. destruct IH as (A & B & D); [lia|].
    destruct (step_facts _ _ _ _ _ _ Hsub) as (F1 & F2 & F3).
    cbn [combine map fst snd]. rewrite F1, F2, F3, D, A, B. auto.
Qed.

Theorem subproc_step_eq_dummy_step : forall (ws : list wstate) (acts : list Z),
  length acts = length ws ->
  let n := length ws in
  let r := step_loop sc_step sc_reset (map ws_env ws) (map ws_ri ws) acts in
  exists sq,
    seq_exec sworker_step (mk_sconfig [] (map (fun s => mk_sworker [] s) ws))
             (sends (seq 0 n) (fun i => CmdStep (nth i acts 0%Z)) ++ recvs (seq 0 n)) = Some sq /\
    map fst (s_log sq) = seq 0 n /\
    map snd (s_log sq) = map reply_of (combine (snd (fst r)) (snd (fst (fst r)))) /\
    map (fun w => ws_env (sw_st w)) (s_workers sq) = fst (fst (fst r)) /\
    map (fun w => ws_ri (sw_st w)) (s_workers sq) = snd (fst (fst r)) /\
    Forall (fun w => sw_queue w = []) (s_workers sq).
Proof.
  intros ws acts L n r.
  pose proof (step_loop_workers ws 0 acts L) as H. cbv zeta in H. cbn [skipn] in H.
  fold r in H. destruct H as (A & B & D).
  eexists. split; [apply seq_all_method|]. cbn [s_log s_workers app]. fold n.
  rewrite D, A, B. clear A B D r. unfold n. clear n L.
  generalize 0 as k.
  induction ws as [|w ws IH]; intros k.
  - cbn. repeat split; constructor.
  - cbn [length seq combine map fst snd sw_st sw_queue]. destruct (IH (S k)) as (I1 & I2 & I3 & I4 & I5).
    rewrite I1, I2, I3, I4. unfold step_reply, step_state.
    repeat split. constructor; [reflexivity|exact I5].
Qed.

(* ---------- scripted histories: the program built from the regenerated skeletons is a history of method
   calls, so under EVERY schedule it returns the DummyVecEnv-loop results and never deadlocks ---------- *)
Lemma calls_prog_is_history : forall cs n seeds opts,
  calls_prog n seeds opts cs = history_prog (calls_methods n seeds opts cs).
Proof.
  induction cs as [|c cs IH]; intros n seeds opts; [reflexivity|].
  destruct c; cbn [calls_prog calls_methods history_prog flat_map]; rewrite ?IH; try reflexivity;
    unfold method_prog, skel_prog; cbn [flat_map phase_prog model_skel_reset model_skel_step model_skel_targets fst snd app];
    rewrite ?app_nil_r, <- ?app_assoc; reflexivity.
Qed.

Lemma calls_methods_in_range : forall cs n seeds opts,
  Forall (call_targets_ok n) cs -> calls_in_range n (calls_methods n seeds opts cs).
Proof.
  induction cs as [|c cs IH]; intros n seeds opts H; [constructor|].
  inversion_clear H as [|? ? H1 H2].
  assert (A : Forall (fun t => t < n) (seq 0 n)) by (apply Forall_forall; intros t Ht; apply in_seq in Ht; lia).
  destruct c; cbn [calls_methods]; try (apply IH; assumption); constructor; try (apply IH; assumption); cbn; auto.
Qed.

Theorem scripted_history_any_schedule : forall scs flags cs sched cfg',
  let n := length scs in
  let prog := calls_prog n (repeat None n) (repeat None n) cs in
  Forall (call_targets_ok n) cs ->
  exec sworker_step (init prog (winitw scs flags)) sched = Some cfg' -> pc cfg' = [] ->
  log cfg' = snd (dhistory sworker_step (winitw scs flags) (calls_methods n (repeat None n) (repeat None n) cs)).
Proof.
  intros scs flags cs sched cfg' n prog H E P. unfold prog in E. rewrite calls_prog_is_history in E.
  eapply history_any_schedule; eauto.
  replace (length (winitw scs flags)) with n.
  - apply calls_methods_in_range. exact H.
  - unfold winitw, n. rewrite map_length, combine_length, seq_length. lia.
Qed.

Theorem scripted_history_no_deadlock : forall scs flags cs sched cfg,
  let n := length scs in
  let prog := calls_prog n (repeat None n) (repeat None n) cs in
  Forall (call_targets_ok n) cs ->
  exec sworker_step (init prog (winitw scs flags)) sched = Some cfg ->
  exists sched' cfg', exec sworker_step cfg sched' = Some cfg' /\ pc cfg' = [] /\
    log cfg' = snd (dhistory sworker_step (winitw scs flags) (calls_methods n (repeat None n) (repeat None n) cs)).
Proof.
  intros scs flags cs sched cfg n prog H E. unfold prog in E. rewrite calls_prog_is_history in E.
  eapply history_no_deadlock; eauto.
  replace (length (winitw scs flags)) with n.
  - apply calls_methods_in_range. exact H.
  - unfold winitw, n. rewrite map_length, combine_length, seq_length. lia.
Qed.

(* reset() over all workers = the DummyVecEnv reset loop of Model/VecEnv.v *)
Definition reset_reply_w (seed opt : option Z) (w : wstate) : sres := snd (sworker_step w (CmdReset seed opt)).
Definition reset_state_w (seed opt : option Z) (w : wstate) : wstate := fst (sworker_step w (CmdReset seed opt)).
Definition rreply_of (p : Z * option Z) : sres := ResReset (fst p) (snd p).

Lemma skipn_nth_cons_gen {X} : forall (l : list X) k d, k < length l -> skipn k l = nth k l d :: skipn (S k) l.
Proof.
  induction l as [|x l IH]; intros k d H; [cbn in H; lia|].
  destruct k; [reflexivity|]. cbn [skipn nth]. apply IH. cbn in H. lia.
Qed.

Lemma reset_facts : forall w seed opt e' ri' ob c,
  sub_reset (A:=Z) sc_reset (ws_env w) seed opt = (e', ri', ob, c) ->
  ws_env (reset_state_w seed opt w) = e' /\ ws_ri (reset_state_w seed opt w) = ri' /\ reset_reply_w seed opt w = rreply_of (ob, ri').
Proof.
  intros w seed opt e' ri' ob c H. unfold reset_state_w, reset_reply_w, rreply_of. cbn [sworker_step]. rewrite H. cbn. auto.
Qed.

Lemma reset_loop_workers : forall (ws : list wstate) k (seeds opts : list (option Z)),
  length seeds = k + length ws -> length opts = k + length ws ->
  let r := reset_loop (A:=Z) sc_reset (map ws_env ws) (skipn k seeds) (skipn k opts) in
  let iw := combine (seq k (length ws)) ws in
  fst (fst (fst r)) = map (fun p => ws_env (reset_state_w (nth (fst p) seeds None) (nth (fst p) opts None) (snd p))) iw /\
  snd (fst (fst r)) = map (fun p => ws_ri (reset_state_w (nth (fst p) seeds None) (nth (fst p) opts None) (snd p))) iw /\
  map rreply_of (combine (snd (fst r)) (snd (fst (fst r))))
  = map (fun p => reset_reply_w (nth (fst p) seeds None) (nth (fst p) opts None) (snd p)) iw.
Proof.
  induction ws as [|w ws IH]; intros k seeds opts L1 L2.
  - cbn. destruct (skipn k seeds); destruct (skipn k opts); cbn; auto.
  - cbn [length] in L1, L2. cbv zeta.
    rewrite (skipn_nth_cons_gen seeds k None) by lia. rewrite (skipn_nth_cons_gen opts k None) by lia.
    cbn [map length seq combine reset_loop].
    specialize (IH (S k) seeds opts). cbv zeta in IH.
    destruct (sub_reset (A:=Z) sc_reset (ws_env w) (nth k seeds None) (nth k opts None)) as [[[e' ri'] ob] c] eqn:Hsub.
    destruct (reset_loop (A:=Z) sc_reset (map ws_env ws) (skipn (S k) seeds) (skipn (S k) opts)) as [[[es rs] os] cs] eqn:Lp.
    cbn [fst snd] in *. destruct IH as (A & B & D); [lia|lia|].
    destruct (reset_facts _ _ _ _ _ _ _ Hsub) as (F1 & F2 & F3).
    cbn [combine map fst snd]. rewrite F1, F2, F3, D, A, B. auto.
Qed.

Theorem subproc_reset_eq_dummy_reset : forall (ws : list wstate) (seeds opts : list (option Z)),
  length seeds = length ws -> length opts = length ws ->
  let n := length ws in
  let r := reset_loop (A:=Z) sc_reset (map ws_env ws) seeds opts in
  exists sq,
    seq_exec sworker_step (mk_sconfig [] (map (fun s => mk_sworker [] s) ws))
             (sends (seq 0 n) (fun i => CmdReset (nth i seeds None) (nth i opts None)) ++ recvs (seq 0 n)) = Some sq /\
    map fst (s_log sq) = seq 0 n /\
    map snd (s_log sq) = map rreply_of (combine (snd (fst r)) (snd (fst (fst r)))) /\
    map (fun w => ws_env (sw_st w)) (s_workers sq) = fst (fst (fst r)) /\
    map (fun w => ws_ri (sw_st w)) (s_workers sq) = snd (fst (fst r)) /\
    Forall (fun w => sw_queue w = []) (s_workers sq).
Proof.
  intros ws seeds opts L1 L2 n r.
  pose proof (reset_loop_workers ws 0 seeds opts L1 L2) as H. cbv zeta in H. cbn [skipn] in H.
  fold r in H. destruct H as (A & B & D).
  eexists. split; [apply seq_all_method|]. cbn [s_log s_workers app]. fold n.
  rewrite D, A, B. clear A B D r. unfold n. clear n L1 L2.
  generalize 0 as k.
  induction ws as [|w ws IH]; intros k.
  - cbn. repeat split; constructor.
  - cbn [length seq combine map fst snd sw_st sw_queue]. destruct (IH (S k)) as (I1 & I2 & I3 & I4 & I5).
    rewrite I1, I2, I3, I4. unfold reset_reply_w, reset_state_w.
    repeat split. constructor; [reflexivity|exact I5].
Qed.

(* ---------- evaluation helpers used by the correspondence, pinned on concrete inputs ---------- *)
(* initial workers: sub-environment i gets script i at cursor0, no reset_info, attribute 0, env id i, its own "wrapped" flag *)
Example ex_winitw :
  winitw [[mk_episode 1 2 []]; [mk_episode 3 4 []]] [true]
  = [mk_wstate ([mk_episode 1 2 []], cursor0) None 0%Z 0%Z true false false; mk_wstate ([mk_episode 3 4 []], cursor0) None 0%Z 1%Z false false false] /\
  winit [[mk_episode 1 2 []]] = [mk_wstate ([mk_episode 1 2 []], cursor0) None 0%Z 0%Z false false false].
Proof. split; reflexivity. Qed.
(* the scheduled run of a one-call history completes (nothing of the program is left) and logs the reset reply *)
Example ex_run_subproc_completes :
  run_subproc_scripted [[mk_episode 7 8 [mk_sstep 9 0 true false 1]]] [KaReset] [1; 0; 2] = (0, [(0, ResReset 7%Z (Some 8%Z))]) /\
  run_subproc_scripted_w [[mk_episode 7 8 [mk_sstep 9 0 true false 1]]] [true] [KaReset; KaIsWrapped [0]; KaGetAttr [0]] []
  = (0, [(0, ResReset 7%Z (Some 8%Z)); (0, ResBool true); (0, ResAttr 0%Z)]) /\
  run_subproc_scripted [[mk_episode 7 8 [mk_sstep 9 0 true false 1]]] [KaReset; KaSetAttr 5 [0]; KaGetAttr [0]] [2; 2; 2; 2; 2; 2; 2; 2; 2]
  = (0, [(0, ResReset 7%Z (Some 8%Z)); (0, ResNone); (0, ResAttr 5%Z)]).
Proof. repeat split; vm_compute; reflexivity. Qed.
