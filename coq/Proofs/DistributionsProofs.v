(* C14 - proofs about Model/Distributions.v (real analysis with Coquelicot; no Interval here). *)
From Coq Require Import Reals List Lra Lia.
From Coquelicot Require Import Coquelicot.
From SB3V Require Import Model.Distributions.
Import ListNotations.
Local Open Scope R_scope.

(* ---------- tanh / artanh ---------- *)
Lemma cosh_pos x : 0 < cosh x.
Proof. unfold cosh. pose proof (exp_pos x). pose proof (exp_pos (-x)). lra. Qed.

Lemma tanh_derive u : is_derive tanh u (1 - (tanh u) ^ 2).
Proof.
  unfold tanh, sinh, cosh.
  pose proof (exp_pos u) as H1. pose proof (exp_pos (-u)) as H2.
  auto_derive.
  - lra.
  - field. lra.
Qed.

Lemma tanh_range u : -1 < tanh u < 1.
Proof.
  unfold tanh, sinh, cosh.
  pose proof (exp_pos u) as H1. pose proof (exp_pos (-u)) as H2.
  split.
  - apply Rmult_lt_reg_r with ((exp u + exp (- u)) / 2); [lra|].
    unfold Rdiv at 2. rewrite Rmult_assoc, Rinv_l by lra. lra.
  - apply Rmult_lt_reg_r with ((exp u + exp (- u)) / 2); [lra|].
    unfold Rdiv at 1. rewrite Rmult_assoc, Rinv_l by lra. lra.
Qed.

Lemma artanh_tanh u : artanh (tanh u) = u.
Proof.
  unfold artanh.
  pose proof (exp_pos u) as H1. pose proof (exp_pos (-u)) as H2.
  assert (E1 : 1 + tanh u = exp u * / cosh u).
  { unfold tanh, sinh, cosh. field. lra. }
  assert (E2 : 1 - tanh u = exp (-u) * / cosh u).
  { unfold tanh, sinh, cosh. field. lra. }
  rewrite E1, E2.
  pose proof (cosh_pos u) as Hc.
  assert (0 < / cosh u) by (apply Rinv_0_lt_compat; exact Hc).
  rewrite !ln_mult by assumption. rewrite !ln_exp. lra.
Qed.

Lemma exp_2artanh a : -1 < a < 1 -> exp (2 * artanh a) = (1 + a) / (1 - a).
Proof.
  intros Ha. unfold artanh.
  replace (2 * ((ln (1 + a) - ln (1 - a)) / 2)) with (ln (1 + a) - ln (1 - a)) by lra.
  unfold Rminus at 1. rewrite exp_plus, exp_Ropp, !exp_ln by lra. reflexivity.
Qed.

Lemma tanh_exp2 w : tanh w = (exp (2 * w) - 1) / (exp (2 * w) + 1).
Proof.
  unfold tanh, sinh, cosh.
  pose proof (exp_pos w) as H1. pose proof (exp_pos (-w)) as H2.
  replace (2 * w) with (w + w) by lra. rewrite exp_plus.
  assert (E : exp (- w) = / exp w) by (apply exp_Ropp).
  rewrite E. field. split; [|lra]. nra.
Qed.

Lemma tanh_artanh a : -1 < a < 1 -> tanh (artanh a) = a.
Proof.
  intros Ha. rewrite tanh_exp2, exp_2artanh by exact Ha. field. lra.
Qed.

Lemma artanh_derive a : -1 < a < 1 -> is_derive artanh a (1 / (1 - a ^ 2)).
Proof.
  intros Ha. unfold artanh. auto_derive.
  - lra.
  - field. nra.
Qed.

Lemma artanh_increasing a b : -1 < a -> a < b -> b < 1 -> artanh a < artanh b.
Proof.
  intros H1 H2 H3. unfold artanh.
  assert (ln (1 + a) < ln (1 + b)) by (apply ln_increasing; lra).
  assert (ln (1 - b) < ln (1 - a)) by (apply ln_increasing; lra).
  lra.
Qed.

Lemma tanh_le_iff u a : -1 < a < 1 -> (tanh u <= a <-> u <= artanh a).
Proof.
  intros Ha. pose proof (tanh_range u) as Hr. split; intros H.
  - destruct (Rle_lt_dec u (artanh a)) as [|C]; [assumption|exfalso].
    destruct H as [H|H].
    + pose proof (artanh_increasing (tanh u) a) as Hi. rewrite artanh_tanh in Hi. lra.
    + rewrite <- H, artanh_tanh in C. lra.
  - destruct (Rle_lt_dec (tanh u) a) as [|C]; [assumption|exfalso].
    pose proof (artanh_increasing a (tanh u)) as Hi. rewrite artanh_tanh in Hi. lra.
Qed.

Lemma squash_change_of_variables (F f : R -> R) a :
  (forall u, is_derive F u (f u)) -> -1 < a < 1 ->
  is_derive (fun y => F (artanh y)) a (f (artanh a) / (1 - a ^ 2)).
Proof.
  intros HF Ha.
  replace (f (artanh a) / (1 - a ^ 2)) with (1 / (1 - a ^ 2) * f (artanh a)) by (field; nra).
  apply (is_derive_comp F artanh a (f (artanh a)) (1 / (1 - a ^ 2))).
  - apply HF.
  - apply artanh_derive; exact Ha.
Qed.

Lemma ln_1p_le x : -1 < x -> ln (1 + x) <= x.
Proof.
  intros Hx. rewrite <- (ln_exp x) at 2.
  destruct (exp_ineq1_le x) as [H|H].
  - left. apply ln_increasing; lra.
  - rewrite H. right. reflexivity.
Qed.

Lemma epsilon_gap d e : 0 < d -> 0 <= e -> 0 <= ln (d + e) - ln d <= e / d.
Proof.
  intros Hd He.
  assert (E : ln (d + e) - ln d = ln (1 + e / d)).
  { rewrite <- ln_div by lra. f_equal. field. lra. }
  rewrite E.
  assert (0 <= e / d) by (apply Rmult_le_pos; [lra | left; apply Rinv_0_lt_compat; lra]).
  split.
  - destruct H as [H|H].
    + left. rewrite <- ln_1. apply ln_increasing; lra.
    + rewrite <- H, Rplus_0_r, ln_1. lra.
  - apply ln_1p_le. lra.
Qed.

(* ---------- finite sums ---------- *)
Lemma sumR_cons x l : sumR (x :: l) = x + sumR l.
Proof. reflexivity. Qed.

Lemma sumR_nil : sumR [] = 0.
Proof. reflexivity. Qed.

Lemma sumR_app l l' : sumR (l ++ l') = sumR l + sumR l'.
Proof. induction l; cbn [app]; rewrite ?sumR_cons, ?sumR_nil; [lra|]. rewrite IHl. lra. Qed.

Lemma sumR_map_scale {A} (c : R) (f : A -> R) l : sumR (map (fun a => c * f a) l) = c * sumR (map f l).
Proof. induction l; cbn [map]; rewrite ?sumR_cons; [rewrite ?sumR_nil; lra|]. rewrite IHl. lra. Qed.

Lemma sumR_map_plus {A} (f g : A -> R) l : sumR (map (fun a => f a + g a) l) = sumR (map f l) + sumR (map g l).
Proof. induction l; cbn [map]; rewrite ?sumR_cons; [rewrite ?sumR_nil; lra|]. rewrite IHl. lra. Qed.

Lemma sumR_map_ext {A} (f g : A -> R) l : (forall a, In a l -> f a = g a) -> sumR (map f l) = sumR (map g l).
Proof.
  induction l; intros H; [reflexivity|]. cbn [map]. rewrite !sumR_cons, IHl, (H a); auto.
  - left; reflexivity.
  - intros b Hb. apply H. right; exact Hb.
Qed.

Lemma sumR_flat_map {A B} (g : A -> list B) (f : B -> R) l :
  sumR (map f (flat_map g l)) = sumR (map (fun a => sumR (map f (g a))) l).
Proof.
  induction l; [reflexivity|]. cbn [flat_map map]. rewrite map_app, sumR_app, sumR_cons, IHl. reflexivity.
Qed.

Lemma sumR_nonneg l : List.Forall (fun x => 0 <= x) l -> 0 <= sumR l.
Proof. induction 1; [rewrite ?sumR_nil; lra|]. rewrite sumR_cons. lra. Qed.

Lemma sumR_le l l' : List.Forall2 Rle l l' -> sumR l <= sumR l'.
Proof. induction 1; [lra|]. rewrite !sumR_cons. lra. Qed.

Lemma map_nth_seq {A} (d : A) (l : list A) : map (fun k => nth k l d) (seq 0 (length l)) = l.
Proof.
  induction l; [reflexivity|]. cbn [length seq map nth]. f_equal.
  rewrite <- seq_shift, map_map. exact IHl.
Qed.

Lemma sumR_over_index (f : R -> R) (l : list R) :
  sumR (map (fun k => f (nth k l 0)) (seq 0 (length l))) = sumR (map f l).
Proof.
  transitivity (sumR (map f (map (fun k => nth k l 0) (seq 0 (length l))))).
  - rewrite map_map. reflexivity.
  - rewrite map_nth_seq. reflexivity.
Qed.

(* ---------- categorical ---------- *)
Lemma sum_exp_pos l : l <> [] -> 0 < sumR (map exp l).
Proof.
  destruct l as [|x t]; [congruence|]. intros _. cbn [map]. rewrite sumR_cons.
  assert (0 <= sumR (map exp t)).
  { apply sumR_nonneg. apply Forall_forall. intros y Hy. apply in_map_iff in Hy.
    destruct Hy as [z [<- _]]. left. apply exp_pos. }
  pose proof (exp_pos x). lra.
Qed.

Lemma exp_lse l : l <> [] -> exp (lse l) = sumR (map exp l).
Proof. intros H. unfold lse. apply exp_ln. apply sum_exp_pos; exact H. Qed.

Lemma softmax_sums_to_one l : l <> [] -> sumR (softmax l) = 1.
Proof.
  intros H. unfold softmax.
  rewrite (sumR_map_ext _ (fun x => / exp (lse l) * exp x)).
  - rewrite sumR_map_scale, exp_lse by exact H. apply Rinv_l.
    pose proof (sum_exp_pos l H). lra.
  - intros a _. unfold Rminus. rewrite exp_plus, exp_Ropp. lra.
Qed.

Lemma cat_mass_one l : l <> [] ->
  sumR (map (fun k => exp (cat_logprob l k)) (seq 0 (length l))) = 1.
Proof.
  intros H. unfold cat_logprob.
  rewrite (sumR_over_index (fun x => exp (x - lse l)) l). apply softmax_sums_to_one; exact H.
Qed.

Lemma cat_entropy_is_expectation l :
  cat_entropy l = - sumR (map (fun k => exp (cat_logprob l k) * cat_logprob l k) (seq 0 (length l))).
Proof.
  unfold cat_entropy, cat_logprob.
  rewrite (sumR_over_index (fun x => exp (x - lse l) * (x - lse l)) l). reflexivity.
Qed.

(* ---------- product spaces ---------- *)
(* independent product of two finite distributions: mass and entropy *)
Lemma product_mass {A B} (f : A -> R) (g : B -> R) la lb :
  sumR (map (fun a => sumR (map (fun b => f a * g b) lb)) la) = sumR (map f la) * sumR (map g lb).
Proof.
  rewrite (sumR_map_ext _ (fun a => sumR (map g lb) * f a)).
  - rewrite sumR_map_scale. lra.
  - intros a _. rewrite sumR_map_scale. lra.
Qed.

Lemma product_expectation {A B} (f F : A -> R) (g G : B -> R) la lb :
  sumR (map f la) = 1 -> sumR (map g lb) = 1 ->
  sumR (map (fun a => sumR (map (fun b => (f a * g b) * (F a + G b)) lb)) la)
  = sumR (map (fun a => f a * F a) la) + sumR (map (fun b => g b * G b) lb).
Proof.
  intros Hf Hg.
  rewrite (sumR_map_ext _ (fun a => f a * F a + sumR (map (fun b => g b * G b) lb) * f a)).
  - rewrite sumR_map_plus, sumR_map_scale, Hf. lra.
  - intros a _.
    rewrite (sumR_map_ext _ (fun b => (f a * F a) * g b + f a * (g b * G b))) by (intros; lra).
    rewrite sumR_map_plus, !sumR_map_scale, Hg. lra.
Qed.

Lemma multicat_logprob_cons d t k a :
  multicat_logprob (d :: t) (k :: a) = cat_logprob d k + multicat_logprob t a.
Proof. reflexivity. Qed.

Lemma all_actions_cons d t :
  all_actions (d :: t) = flat_map (fun k => map (cons k) (all_actions t)) (seq 0 (length d)).
Proof. reflexivity. Qed.

Lemma multicat_sum_cons (h : R -> R) d t :
  sumR (map (fun a => h (multicat_logprob (d :: t) a)) (all_actions (d :: t)))
  = sumR (map (fun k => sumR (map (fun a => h (cat_logprob d k + multicat_logprob t a)) (all_actions t))) (seq 0 (length d))).
Proof.
  rewrite all_actions_cons, sumR_flat_map. apply sumR_map_ext. intros k _.
  rewrite map_map. reflexivity.
Qed.

Lemma multicat_mass_one dims : List.Forall (fun d => d <> []) dims ->
  sumR (map (fun a => exp (multicat_logprob dims a)) (all_actions dims)) = 1.
Proof.
  induction 1 as [|d t Hd Ht IH].
  - cbn. unfold multicat_logprob, sumR. cbn. rewrite exp_0. lra.
  - rewrite (multicat_sum_cons exp).
    rewrite (sumR_map_ext _ (fun k => sumR (map (fun a => exp (cat_logprob d k) * exp (multicat_logprob t a)) (all_actions t)))).
    + rewrite (product_mass (fun k => exp (cat_logprob d k)) (fun a => exp (multicat_logprob t a))).
      rewrite IH, cat_mass_one by exact Hd. lra.
    + intros k _. apply sumR_map_ext. intros a _. apply exp_plus.
Qed.

Lemma multicat_entropy_is_expectation dims : List.Forall (fun d => d <> []) dims ->
  multicat_entropy dims
  = - sumR (map (fun a => exp (multicat_logprob dims a) * multicat_logprob dims a) (all_actions dims)).
Proof.
  induction 1 as [|d t Hd Ht IH].
  - cbn. unfold multicat_entropy, multicat_logprob, sumR. cbn. lra.
  - rewrite (multicat_sum_cons (fun x => exp x * x)).
    rewrite (sumR_map_ext _ (fun k => sumR (map (fun a => (exp (cat_logprob d k) * exp (multicat_logprob t a)) * (cat_logprob d k + multicat_logprob t a)) (all_actions t)))).
    + rewrite (product_expectation (fun k => exp (cat_logprob d k)) (fun k => cat_logprob d k)
                 (fun a => exp (multicat_logprob t a)) (fun a => multicat_logprob t a)).
      * unfold multicat_entropy in *. cbn [map]. rewrite sumR_cons, IH, cat_entropy_is_expectation. lra.
      * apply cat_mass_one; exact Hd.
      * apply multicat_mass_one; exact Ht.
    + intros k _. apply sumR_map_ext. intros a _. rewrite exp_plus. reflexivity.
Qed.

(* ---------- Bernoulli ---------- *)
Lemma bern_mass_one l : exp (bern_logprob l true) + exp (bern_logprob l false) = 1.
Proof.
  cbn [bern_logprob].
  pose proof (exp_pos l) as H1.
  assert (E : exp (- l) = / exp l) by apply exp_Ropp.
  assert (H2 : 0 < / exp l) by (apply Rinv_0_lt_compat; exact H1).
  rewrite (exp_Ropp (ln (1 + exp (- l)))), (exp_Ropp (ln (1 + exp l))).
  rewrite E. rewrite !exp_ln by lra. field. split; lra.
Qed.

Lemma bernoulli_logprob_cons l ls b bs :
  bernoulli_logprob (l :: ls) (b :: bs) = bern_logprob l b + bernoulli_logprob ls bs.
Proof. reflexivity. Qed.

Lemma bernoulli_sum_cons (h : R -> R) l ls :
  sumR (map (fun bs => h (bernoulli_logprob (l :: ls) bs)) (all_bits (S (length ls))))
  = sumR (map (fun bs => h (bern_logprob l true + bernoulli_logprob ls bs)) (all_bits (length ls)))
    + sumR (map (fun bs => h (bern_logprob l false + bernoulli_logprob ls bs)) (all_bits (length ls))).
Proof.
  cbn [all_bits]. rewrite map_app, sumR_app, !map_map. reflexivity.
Qed.

Lemma bernoulli_mass_one ls :
  sumR (map (fun bs => exp (bernoulli_logprob ls bs)) (all_bits (length ls))) = 1.
Proof.
  induction ls as [|l ls IH].
  - cbn [length all_bits map]. unfold bernoulli_logprob. cbn [map2]. rewrite sumR_cons, !sumR_nil, exp_0. lra.
  - cbn [length]. rewrite (bernoulli_sum_cons exp).
    rewrite (sumR_map_ext _ (fun bs => exp (bern_logprob l true) * exp (bernoulli_logprob ls bs)))
      by (intros; apply exp_plus).
    rewrite (sumR_map_ext (fun bs => exp (bern_logprob l false + _)) (fun bs => exp (bern_logprob l false) * exp (bernoulli_logprob ls bs)))
      by (intros; apply exp_plus).
    rewrite !sumR_map_scale, IH. pose proof (bern_mass_one l). lra.
Qed.

Lemma bernoulli_entropy_is_expectation ls :
  bernoulli_entropy ls
  = - sumR (map (fun bs => exp (bernoulli_logprob ls bs) * bernoulli_logprob ls bs) (all_bits (length ls))).
Proof.
  induction ls as [|l ls IH].
  - cbn [length all_bits map]. unfold bernoulli_entropy, bernoulli_logprob. cbn [map2 map]. rewrite sumR_cons, !sumR_nil. lra.
  - cbn [length]. rewrite (bernoulli_sum_cons (fun x => exp x * x)).
    set (P := fun bs => exp (bernoulli_logprob ls bs)).
    set (L := fun bs => bernoulli_logprob ls bs).
    assert (Hm : sumR (map P (all_bits (length ls))) = 1) by apply bernoulli_mass_one.
    assert (Hb : forall b, sumR (map (fun bs => exp (bern_logprob l b + bernoulli_logprob ls bs) * (bern_logprob l b + bernoulli_logprob ls bs)) (all_bits (length ls)))
                 = exp (bern_logprob l b) * bern_logprob l b + exp (bern_logprob l b) * sumR (map (fun bs => P bs * L bs) (all_bits (length ls)))).
    { intros b.
      rewrite (sumR_map_ext _ (fun bs => (exp (bern_logprob l b) * bern_logprob l b) * P bs + exp (bern_logprob l b) * (P bs * L bs))).
      - rewrite sumR_map_plus, !sumR_map_scale, Hm. lra.
      - intros bs _. unfold P, L. rewrite exp_plus. ring. }
    rewrite !Hb. unfold bernoulli_entropy in *. cbn [map]. rewrite sumR_cons, IH.
    fold P L. unfold bern_entropy1.
    set (S := sumR (map (fun bs => P bs * L bs) (all_bits (length ls)))).
    pose proof (bern_mass_one l) as H1.
    replace (exp (bern_logprob l true)) with (1 - exp (bern_logprob l false)) by lra.
    change (sumR (map (fun bs => exp (bernoulli_logprob ls bs) * bernoulli_logprob ls bs) (all_bits (length ls)))) with S. ring.
Qed.

(* the textbook form: -(p ln p + (1-p) ln (1-p)) with p = sigmoid(logit) *)
Lemma bern_logprob_sigmoid l :
  bern_logprob l true = ln (sigmoid l) /\ bern_logprob l false = ln (1 - sigmoid l).
Proof.
  pose proof (exp_pos l) as H1. pose proof (exp_pos (- l)) as H2.
  assert (E : exp (- l) = / exp l) by apply exp_Ropp.
  assert (H3 : 0 < / exp l) by (apply Rinv_0_lt_compat; exact H1).
  unfold sigmoid. cbn [bern_logprob]. split.
  - unfold Rdiv. rewrite Rmult_1_l, ln_Rinv by lra. reflexivity.
  - replace (1 - 1 / (1 + exp (- l))) with (/ (1 + exp l)).
    + rewrite ln_Rinv by lra. reflexivity.
    + rewrite E. field. lra.
Qed.

Lemma bern_entropy_textbook l :
  bern_entropy1 l = - (sigmoid l * ln (sigmoid l) + (1 - sigmoid l) * ln (1 - sigmoid l)).
Proof.
  destruct (bern_logprob_sigmoid l) as [E1 E0].
  unfold bern_entropy1. rewrite E1, E0.
  assert (0 < sigmoid l).
  { unfold sigmoid. pose proof (exp_pos (- l)). apply Rdiv_lt_0_compat; lra. }
  assert (0 < 1 - sigmoid l).
  { assert (sigmoid l < 1); [|lra].
    unfold sigmoid. pose proof (exp_pos (- l)). apply Rmult_lt_reg_r with (1 + exp (- l)); [lra|].
    unfold Rdiv. rewrite Rmult_assoc, Rinv_l by lra. lra. }
  rewrite !exp_ln by assumption. reflexivity.
Qed.

(* ---------- log-probability is the sum over dimensions; joint density is the product ---------- *)
Definition prodR (l : list R) : R := fold_right Rmult 1 l.

Lemma gauss_logprob_cons m s p x xs :
  gauss_logprob ((m, s) :: p) (x :: xs) = normal_logpdf m (exp s) x + gauss_logprob p xs.
Proof. reflexivity. Qed.

Lemma exp_sumR l : exp (sumR l) = prodR (map exp l).
Proof.
  induction l; cbn [map]; [rewrite sumR_nil; apply exp_0|].
  rewrite sumR_cons, exp_plus, IHl. reflexivity.
Qed.

Lemma gauss_joint_density_is_product p xs :
  exp (gauss_logprob p xs) = prodR (map2 (fun ml x => normal_pdf (fst ml) (exp (snd ml)) x) p xs).
Proof.
  unfold gauss_logprob. rewrite exp_sumR. f_equal. unfold gauss_logpdfs.
  revert xs. induction p as [|ml p IH]; intros [|x xs]; cbn [map2 map]; try reflexivity.
  rewrite IH. reflexivity.
Qed.

Lemma sum_independent_dims_rank2 rows : sum_independent_dims (T2 rows) = map sumR rows.
Proof. reflexivity. Qed.
Lemma sum_independent_dims_rank1 v : sum_independent_dims (T1 v) = [sumR v].
Proof. reflexivity. Qed.

(* ---------- mode maximises ---------- *)
Lemma normal_mode_maximises mu sigma x : sigma <> 0 ->
  normal_logpdf mu sigma x <= normal_logpdf mu sigma mu.
Proof.
  intros Hs. unfold normal_logpdf.
  assert (0 < 2 * sigma ^ 2) by (destruct (Rdichotomy _ _ Hs); nra).
  assert (0 <= (x - mu) ^ 2 / (2 * sigma ^ 2)).
  { apply Rmult_le_pos; [apply pow2_ge_0|]. left. apply Rinv_0_lt_compat. assumption. }
  replace ((mu - mu) ^ 2) with 0 by ring.
  unfold Rdiv in *. rewrite Ropp_0, Rmult_0_l.
  rewrite Ropp_mult_distr_l_reverse. lra.
Qed.

Lemma gauss_mode_maximises p xs : length xs = length p ->
  gauss_logprob p xs <= gauss_logprob p (gauss_mode p).
Proof.
  revert xs. induction p as [|[m s] p IH]; intros [|x xs] Hl; cbn in Hl; try discriminate.
  - apply Rle_refl.
  - unfold gauss_mode. cbn [map fst]. rewrite !gauss_logprob_cons.
    pose proof (exp_pos s) as Hs.
    pose proof (normal_mode_maximises m (exp s) x ltac:(lra)) as H1.
    specialize (IH xs ltac:(lia)). unfold gauss_mode in IH. lra.
Qed.

Lemma max_at_spec l m : max_at l m <-> ((m < length l)%nat /\ forall k, (k < length l)%nat -> nth k l 0 <= nth m l 0).
Proof.
  unfold max_at. apply and_iff_compat_l. generalize (nth m l 0) as v. intros v.
  induction l as [|x t IH]; cbn [fold_right length].
  - split; [intros _ k Hk; lia | auto].
  - rewrite IH. split.
    + intros [Hx Ht] [|k] Hk; cbn [nth]; [exact Hx | apply Ht; lia].
    + intros H. split; [apply (H 0%nat); lia | intros k Hk; apply (H (S k)); lia].
Qed.

Lemma argmax_from_spec t : forall i best bv pre,
  length pre = i -> (best < i)%nat -> nth best (pre ++ t) 0 = bv ->
  (forall k, (k < i)%nat -> nth k (pre ++ t) 0 <= bv) ->
  let m := argmax_from t i best bv in
  (m < length (pre ++ t))%nat /\ forall k, (k < length (pre ++ t))%nat -> nth k (pre ++ t) 0 <= nth m (pre ++ t) 0.
Proof.
  induction t as [|x t IH]; intros i best bv pre Hlen Hb Hbv Hmax; cbn [argmax_from].
  - cbn zeta. rewrite app_nil_r in *. split; [lia|]. intros k Hk. rewrite Hbv. apply Hmax. lia.
  - replace (pre ++ x :: t) with ((pre ++ [x]) ++ t) in * by (rewrite <- app_assoc; reflexivity).
    assert (Hx : nth i ((pre ++ [x]) ++ t) 0 = x).
    { rewrite <- app_assoc. rewrite app_nth2 by lia. rewrite Hlen, Nat.sub_diag. reflexivity. }
    destruct (Rlt_dec bv x) as [Hlt|Hge].
    + apply IH.
      * rewrite app_length; cbn; lia.
      * lia.
      * exact Hx.
      * intros k Hk. destruct (Nat.eq_dec k i) as [->|]; [rewrite Hx; lra|].
        specialize (Hmax k ltac:(lia)). lra.
    + apply IH.
      * rewrite app_length; cbn; lia.
      * lia.
      * exact Hbv.
      * intros k Hk. destruct (Nat.eq_dec k i) as [->|]; [rewrite Hx; lra|].
        apply Hmax. lia.
Qed.

Lemma argmax_spec l : l <> [] -> (argmax l < length l)%nat /\ max_at l (argmax l).
Proof.
  destruct l as [|x t]; [congruence|]. intros _. unfold argmax.
  pose proof (argmax_from_spec t 1 0 x [x] eq_refl ltac:(lia) eq_refl) as H.
  cbn [app] in H. destruct H as [H1 H2].
  - intros k Hk. assert (k = 0)%nat by lia. subst. cbn. lra.
  - split; [exact H1|]. apply max_at_spec. split; [exact H1 | exact H2].
Qed.

Lemma cat_mode_maximises l m k : max_at l m -> (k < length l)%nat -> cat_logprob l k <= cat_logprob l m.
Proof.
  intros H Hk. unfold cat_logprob. pose proof (proj2 (proj1 (max_at_spec l m) H) k Hk). lra.
Qed.

Lemma multicat_mode_maximises dims : forall a,
  List.Forall2 (fun d k => (k < length d)%nat) dims a ->
  multicat_logprob dims a <= multicat_logprob dims (multicat_mode dims).
Proof.
  induction dims as [|d t IH]; intros a Ha; inversion Ha; subst.
  - apply Rle_refl.
  - unfold multicat_mode. cbn [map]. rewrite !multicat_logprob_cons.
    assert (d <> []) by (destruct d; [cbn in *; lia | congruence]).
    pose proof (cat_mode_maximises d (argmax d) y (proj2 (argmax_spec d ltac:(assumption))) ltac:(assumption)).
    specialize (IH l' ltac:(assumption)). unfold multicat_mode in IH. lra.
Qed.

Lemma sigmoid_gt_half l : 1 / 2 < sigmoid l <-> 0 < l.
Proof.
  unfold sigmoid. pose proof (exp_pos (- l)) as H.
  split; intros H1.
  - assert (exp (- l) < 1).
    { apply Rmult_lt_compat_r with (r := 1 + exp (- l)) in H1; [|lra].
      unfold Rdiv at 2 in H1. rewrite Rmult_assoc, Rinv_l in H1 by lra. lra. }
    rewrite <- exp_0 in H0. apply exp_lt_inv in H0. lra.
  - assert (exp (- l) < 1) by (rewrite <- exp_0; apply exp_increasing; lra).
    apply Rmult_lt_reg_r with (1 + exp (- l)); [lra|].
    unfold Rdiv at 2. rewrite Rmult_assoc, Rinv_l by lra. lra.
Qed.

Lemma bern_mode_maximises l b : bern_logprob l b <= bern_logprob l (bern_mode1 l).
Proof.
  assert (Hmono : forall x y, x <= y -> - ln (1 + exp y) <= - ln (1 + exp x)).
  { intros x y [Hxy | ->]; [|lra]. pose proof (exp_pos x). 
    assert (exp x < exp y) by (apply exp_increasing; exact Hxy).
    assert (ln (1 + exp x) < ln (1 + exp y)) by (apply ln_increasing; lra). lra. }
  unfold bern_mode1. destruct (Rlt_dec (1 / 2) (sigmoid l)) as [H|H].
  - apply sigmoid_gt_half in H. destruct b; cbn [bern_logprob]; [lra|]. apply Hmono. lra.
  - assert (l <= 0).
    { destruct (Rle_lt_dec l 0); [assumption|]. exfalso. apply H. apply sigmoid_gt_half. assumption. }
    destruct b; cbn [bern_logprob]; [|lra]. apply Hmono. lra.
Qed.

Lemma bernoulli_mode_maximises ls : forall bs, length bs = length ls ->
  bernoulli_logprob ls bs <= bernoulli_logprob ls (bernoulli_mode ls).
Proof.
  induction ls as [|l ls IH]; intros [|b bs] Hl; cbn in Hl; try discriminate.
  - apply Rle_refl.
  - unfold bernoulli_mode. cbn [map]. rewrite !bernoulli_logprob_cons.
    pose proof (bern_mode_maximises l b). specialize (IH bs ltac:(lia)). unfold bernoulli_mode in IH. lra.
Qed.

(* squashed Gaussian: mode() = tanh(mean) is the image of the pre-squash maximiser and the
   median of the action (P(tanh U <= tanh mu) = P(U <= mu) = 1/2); it is NOT the maximiser of the
   action-space density - see Refuted/C14_squashed_mode.v *)
Lemma squashed_mode_is_tanh_of_gaussian_mode p : squashed_mode p = map tanh (gauss_mode p).
Proof. reflexivity. Qed.

Lemma tanh_le_tanh_iff u mu : tanh u <= tanh mu <-> u <= mu.
Proof.
  rewrite (tanh_le_iff u (tanh mu) (tanh_range mu)). rewrite artanh_tanh. reflexivity.
Qed.

(* ---------- entropy ---------- *)
Lemma gaussian_entropy_sum p :
  gauss_entropy p = INR (length p) * (1 / 2 + 1 / 2 * ln (2 * PI)) + sumR (map snd p).
Proof.
  unfold gauss_entropy. induction p as [|[m s] p IH].
  - cbn [map length INR]. rewrite !sumR_nil. lra.
  - cbn [map snd length]. rewrite !sumR_cons, IH, S_INR. unfold normal_entropy. rewrite ln_exp. lra.
Qed.

(* ---------- squashed Gaussian log-probability ---------- *)
Lemma clamp_inside lo hi x : lo <= x <= hi -> clamp lo hi x = x.
Proof.
  intros [H1 H2]. unfold clamp. rewrite (Rmax_right lo x) by exact H1. apply Rmin_right. exact H2.
Qed.

Lemma tanh_inverse_inside feps y : -1 + feps <= y <= 1 - feps -> tanh_inverse feps y = artanh y.
Proof. intros H. unfold tanh_inverse. rewrite clamp_inside by exact H. reflexivity. Qed.

(* log_prob(action, cached gaussian_actions) = log_prob(action) when the clamp is inactive *)
Lemma squashed_cached_agrees feps eps p us :
  List.Forall (fun u => -1 + feps <= tanh u <= 1 - feps) us ->
  squashed_logprob feps eps p (map tanh us) = squashed_logprob_g eps p (map tanh us) us.
Proof.
  intros H. unfold squashed_logprob. f_equal. rewrite map_map.
  induction H as [|u us Hu _ IH]; [reflexivity|]. cbn [map].
  rewrite IH, tanh_inverse_inside, artanh_tanh by exact Hu. reflexivity.
Qed.

(* exact change of variables, all dimensions: with epsilon = 0 the code's formula is the log of the
   product of the per-dimension action-space densities  f(artanh a) / (1 - a^2) *)
Lemma squashed_logprob_exact feps p : forall acts,
  length acts = length p ->
  List.Forall (fun a => -1 + feps <= a <= 1 - feps /\ -1 < a < 1) acts ->
  squashed_logprob feps 0 p acts
  = sumR (map2 (fun ml a => ln (squashed_pdf (fst ml) (exp (snd ml)) a)) p acts).
Proof.
  unfold squashed_logprob, squashed_logprob_g.
  induction p as [|[m s] p IH]; intros [|a acts] Hl H; cbn in Hl; try discriminate.
  - unfold gauss_logprob, gauss_logpdfs. cbn [map map2]. rewrite !sumR_nil. lra.
  - inversion H as [|? ? [Hc Ha] Hr]; subst.
    cbn [map map2 fst snd]. rewrite gauss_logprob_cons, !sumR_cons.
    specialize (IH acts ltac:(lia) Hr).
    rewrite tanh_inverse_inside by exact Hc.
    rewrite <- IH.
    unfold squashed_pdf, normal_pdf. unfold squash_correction at 1.
    assert (0 < 1 - a ^ 2) by nra.
    rewrite ln_div; [|apply exp_pos|assumption]. rewrite ln_exp, Rplus_0_r. lra.
Qed.

Lemma squashed_pdf_is_cdf_derivative mu sigma (F : R -> R) a :
  (forall u, is_derive F u (normal_pdf mu sigma u)) -> -1 < a < 1 ->
  is_derive (fun y => F (artanh y)) a (squashed_pdf mu sigma a).
Proof. intros HF Ha. unfold squashed_pdf. apply (squash_change_of_variables F (normal_pdf mu sigma) a HF Ha). Qed.

(* the epsilon inside the logarithm moves the log-probability by at most sum eps / (1 - a^2) *)
Lemma squashed_epsilon_gap eps p gacts : forall acts, 0 <= eps ->
  List.Forall (fun a => -1 < a < 1) acts ->
  0 <= squashed_logprob_g 0 p acts gacts - squashed_logprob_g eps p acts gacts
    <= sumR (map (fun a => eps / (1 - a ^ 2)) acts).
Proof.
  intros acts He H. unfold squashed_logprob_g.
  assert (G : 0 <= sumR (map (squash_correction eps) acts) - sumR (map (squash_correction 0) acts)
              <= sumR (map (fun a => eps / (1 - a ^ 2)) acts)).
  { induction H as [|a acts Ha _ IH]; cbn [map]; rewrite ?sumR_cons, ?sumR_nil; [lra|].
    change (squash_correction eps a) with (ln (1 - a ^ 2 + eps)).
    change (squash_correction 0 a) with (ln (1 - a ^ 2 + 0)). rewrite Rplus_0_r.
    assert (0 < 1 - a ^ 2) by nra.
    pose proof (epsilon_gap (1 - a ^ 2) eps ltac:(assumption) He). lra. }
  lra.
Qed.

Lemma bijector_correction_is_squash_correction eps x :
  bijector_correction eps x = squash_correction eps (tanh x).
Proof. reflexivity. Qed.

(* reparametrised sample: log-density of mu + e*sigma depends on the noise only through e^2 *)
Lemma normal_logpdf_rsample mu sigma e : sigma <> 0 ->
  normal_logpdf mu sigma (mu + e * sigma) = - e ^ 2 / 2 - ln sigma - ln (sqrt (2 * PI)).
Proof. intros H. unfold normal_logpdf. f_equal. f_equal. field. exact H. Qed.

(* ---------- gSDE ---------- *)
Lemma expln_cases eps ls :
  (ls <= 0 -> expln eps ls = exp ls) /\ (0 < ls -> expln eps ls = ln (1 + (ls + eps)) + 1).
Proof.
  unfold expln, expln_gen, expln_safe. split; intros H.
  - destruct (Rle_dec ls 0); [|lra]. destruct (Rlt_dec 0 ls); [lra|]. lra.
  - destruct (Rle_dec ls 0); [lra|]. destruct (Rlt_dec 0 ls); [|lra]. replace (ls * 1 + eps) with (ls + eps) by ring. ring.
Qed.

Lemma expln_positive eps ls : 0 <= eps -> 0 < expln eps ls.
Proof.
  intros He. destruct (expln_cases eps ls) as [H1 H2].
  destruct (Rle_lt_dec ls 0) as [H|H].
  - rewrite H1 by exact H. apply exp_pos.
  - rewrite H2 by exact H.
    assert (0 < ln (1 + (ls + eps))) by (rewrite <- ln_1; apply ln_increasing; lra). lra.
Qed.

Lemma gsde_get_std_positive b eps ls : 0 <= eps -> 0 < gsde_get_std b eps ls.
Proof. intros He. destruct b; cbn; [apply expln_positive; exact He | apply exp_pos]. Qed.

Lemma gsde_variance_nonneg x c : 0 <= gsde_variance x c.
Proof.
  unfold gsde_variance. apply sumR_nonneg.
  revert c. induction x as [|xi x IH]; intros [|s c]; cbn [map2]; try constructor.
  - assert (0 <= xi ^ 2) by nra. assert (0 <= s ^ 2) by nra. nra.
  - apply IH.
Qed.

Lemma gsde_std_positive eps x c : 0 < eps -> 0 < gsde_std eps x c.
Proof. intros He. unfold gsde_std. apply sqrt_lt_R0. pose proof (gsde_variance_nonneg x c). lra. Qed.

(* the std of the Normal used by log_prob is the noise std up to the epsilon under the root:
   std^2 = variance + eps *)
Lemma gsde_std_sq eps x c : 0 <= eps -> (gsde_std eps x c) ^ 2 = gsde_variance x c + eps.
Proof.
  intros He. unfold gsde_std. cbn [pow]. rewrite Rmult_1_r. apply sqrt_sqrt.
  pose proof (gsde_variance_nonneg x c). lra.
Qed.

(* used by the correspondence goals: the gSDE squash correction evaluated at the inverted action *)
Lemma bijector_correction_artanh eps a : -1 < a < 1 -> bijector_correction eps (artanh a) = squash_correction eps a.
Proof. intros H. unfold bijector_correction, squash_correction. rewrite tanh_artanh by exact H. reflexivity. Qed.

(* ---------- gSDE reduces to a diagonal Gaussian with std = sqrt(variance + eps) ---------- *)
Definition gsde_params (eps : R) (x means : list R) (stdcols : list (list R)) : gparams :=
  map (fun ms => (fst ms, ln (gsde_std eps x (snd ms)))) (combine means stdcols).

Lemma gsde_logpdfs_gauss eps x : 0 < eps -> forall cs g,
  map2 (fun ms gi => normal_logpdf (fst ms) (gsde_std eps x (snd ms)) gi) cs g
  = gauss_logpdfs (map (fun ms => (fst ms, ln (gsde_std eps x (snd ms)))) cs) g.
Proof.
  intros He. unfold gauss_logpdfs. induction cs as [|c cs IH]; intros [|gi g]; cbn [map map2]; try reflexivity.
  cbn [fst snd]. rewrite exp_ln by (apply gsde_std_positive; exact He). rewrite IH. reflexivity.
Qed.

Lemma gsde_logprob_is_gaussian eps x means stdcols acts : 0 < eps ->
  gsde_logprob eps x means stdcols acts = gauss_logprob (gsde_params eps x means stdcols) acts.
Proof. intros He. unfold gsde_logprob, gsde_logpdfs, gauss_logprob, gsde_params. rewrite gsde_logpdfs_gauss by exact He. reflexivity. Qed.

Lemma gsde_entropy_is_gaussian eps x stdcols means : 0 < eps -> length means = length stdcols ->
  gsde_entropy eps x stdcols = gauss_entropy (gsde_params eps x means stdcols).
Proof.
  intros He. unfold gsde_entropy, gauss_entropy, gsde_params. revert means.
  induction stdcols as [|c cs IH]; intros [|m ms] Hl; cbn in Hl; try discriminate; cbn [map combine]; [reflexivity|].
  rewrite !sumR_cons. cbn [snd]. rewrite exp_ln by (apply gsde_std_positive; exact He). f_equal. apply IH. congruence.
Qed.

(* squashed gSDE: the Gaussian log-density at the inverted action minus the squash correction at the action *)
Lemma gsde_logprob_squashed_spec feps eps x means stdcols acts :
  List.Forall (fun a => -1 + feps <= a <= 1 - feps /\ -1 < a < 1) acts ->
  gsde_logprob_squashed feps eps x means stdcols acts
  = gsde_logprob eps x means stdcols (map artanh acts) - sumR (map (squash_correction eps) acts).
Proof.
  intros H. unfold gsde_logprob_squashed, gsde_logprob. cbn zeta.
  assert (E : map (tanh_inverse feps) acts = map artanh acts).
  { induction H as [|a t [Ha _] _ IH]; cbn [map]; [reflexivity|]. rewrite IH, tanh_inverse_inside by exact Ha. reflexivity. }
  rewrite E. f_equal. f_equal. rewrite map_map. clear E.
  induction H as [|a t [_ Ha] _ IH]; cbn [map]; [reflexivity|]. rewrite IH. rewrite bijector_correction_artanh by exact Ha. reflexivity.
Qed.

(* sampling: action = mean + latent . weights; the mode is the sample with zero weights *)
Lemma gsde_sample_spec x : forall means wcols,
  gsde_sample x means wcols = map2 (fun m w => m + dot x w) means wcols /\
  (forall j, nth j (gsde_sample x means wcols) 0 - nth j means 0 = if (j <? Nat.min (length means) (length wcols))%nat then dot x (nth j wcols []) else 0 - nth j means 0).
Proof.
  intros means wcols. split; [reflexivity|]. unfold gsde_sample. revert wcols.
  induction means as [|m means IH]; intros wcols j.
  - cbn. destruct j; ring.
  - destruct wcols as [|w wcols]; [cbn; destruct j; ring|].
    destruct j; cbn [map2 nth length Nat.min Nat.ltb Nat.leb]; [ring|]. apply IH.
Qed.

(* samples of the squashed distributions lie in the open support (-1, 1) *)
Lemma squashed_sample_in_support p noise : List.Forall (fun a => -1 < a < 1) (squashed_sample p noise).
Proof. unfold squashed_sample. induction (gauss_rsample p noise); cbn [map]; constructor; [apply tanh_range | assumption]. Qed.

(* the pre-image of mode() maximises the pre-squash Gaussian density *)
Lemma squashed_mode_preimage_maximises p xs : length xs = length p ->
  gauss_logprob p xs <= gauss_logprob p (map artanh (squashed_mode p)).
Proof.
  intros H. unfold squashed_mode. rewrite map_map.
  assert (E : map (fun u => artanh (tanh u)) (gauss_mode p) = gauss_mode p).
  { induction (gauss_mode p); cbn [map]; [reflexivity|]. rewrite artanh_tanh, IHl. reflexivity. }
  rewrite E. apply gauss_mode_maximises. exact H.
Qed.

(* round(p) in terms of the logit, used to compare bernoulli_mode with the implementation *)
Lemma bern_mode1_cases l : (0 < l -> bern_mode1 l = true) /\ (l <= 0 -> bern_mode1 l = false).
Proof.
  unfold bern_mode1. split; intros H; destruct (Rlt_dec (1 / 2) (sigmoid l)) as [S|S]; try reflexivity; exfalso.
  - apply S. apply sigmoid_gt_half. exact H.
  - apply sigmoid_gt_half in S. lra.
Qed.

(* one step of argmax on a literal list, used to compare the model's argmax with the implementation's mode() *)
Lemma argmax_from_lt x t i best bv : bv < x -> argmax_from (x :: t) i best bv = argmax_from t (S i) i x.
Proof. intros H. cbn [argmax_from]. destruct (Rlt_dec bv x); [reflexivity | lra]. Qed.
Lemma argmax_from_ge x t i best bv : x <= bv -> argmax_from (x :: t) i best bv = argmax_from t (S i) best bv.
Proof. intros H. cbn [argmax_from]. destruct (Rlt_dec bv x); [lra | reflexivity]. Qed.

(* the reparametrised sample mean + noise * exp(log_std): its log-density depends on the noise only (model mutation score:
   pins that the sample scales the noise with the standard deviation exp(snd), not with the mean) *)
Lemma gauss_logprob_rsample p : forall noise, length noise = length p ->
  gauss_logprob p (gauss_rsample p noise)
  = sumR (map2 (fun ml e => - e ^ 2 / 2 - snd ml - ln (sqrt (2 * PI))) p noise).
Proof.
  unfold gauss_logprob, gauss_logpdfs, gauss_rsample.
  induction p as [|[m s] p IH]; intros [|e noise] Hl; cbn in Hl; try discriminate; cbn [map2]; [reflexivity|].
  rewrite !sumR_cons. cbn [fst snd]. rewrite IH by lia.
  rewrite normal_logpdf_rsample by (pose proof (exp_pos s); lra). rewrite ln_exp. reflexivity.
Qed.

(* MultiCategorical: th.split cuts the flat logits into consecutive pieces (model mutation score: pins skipn) *)
Lemma firstn_plus {A} (l : list A) : forall n m, firstn (n + m) l = firstn n l ++ firstn m (skipn n l).
Proof. induction l as [|a t IH]; intros [|n] m; cbn; try reflexivity; [destruct m; reflexivity | rewrite IH; reflexivity]. Qed.

Lemma split_logits_concat sizes : forall flat,
  concat (split_logits sizes flat) = firstn (fold_right Nat.add 0%nat sizes) flat /\
  length (split_logits sizes flat) = length sizes.
Proof.
  induction sizes as [|n t IH]; intros flat; cbn [split_logits concat fold_right length]; [split; reflexivity|].
  destruct (IH (skipn n flat)) as [H1 H2]. rewrite H1, H2, firstn_plus. split; reflexivity.
Qed.
