(* C07 - (a) interface lemmas: the fragments regenerated from the train() methods (Gen/Frag_loss.v)
   are the assembly used by the executable twins; (b) the executable Q twins compute the real-valued
   objectives / derivatives of Model/Loss*.v (Q2R transfer). *)
From Coq Require Import Reals QArith Qreals Qminmax Qabs List Lra Lia ZArith ZifyBool.
From SB3V Require Import Gen.Frag_loss Model.LossCommon Model.LossPPO Model.LossA2C Model.LossDQN Model.LossSAC Model.LossTD3.
Import ListNotations.

(* ---------------- (a) fragments ---------------- *)
Local Open Scope Q_scope.

Lemma frag_targets r d g nq :
  dqn_target_frag r d g nq == td_target_Q r d g nq /\
  sac_target_frag r d g nq == td_target_Q r d g nq /\
  td3_target_frag r d g nq == td_target_Q r d g nq.
Proof. unfold dqn_target_frag, sac_target_frag, td3_target_frag, td_target_Q. repeat split; ring. Qed.

Lemma frag_dqn_target gamma r d row :
  dqn_target_Q gamma r d row == dqn_target_frag r d gamma (qmax_list row).
Proof. unfold dqn_target_Q. rewrite Qred_correct. symmetry. apply frag_targets. Qed.

Lemma frag_sac_target gamma alpha r d row nlp :
  sac_target_Q gamma alpha r d row nlp == sac_target_frag r d gamma (sac_soft_value (qmin_list row) alpha nlp).
Proof.
  unfold sac_target_Q. rewrite Qred_correct. unfold sac_soft_value.
  symmetry. apply (proj1 (proj2 (frag_targets r d gamma _))).
Qed.

Lemma frag_td3_target gamma r d row :
  td3_target_Q gamma r d row == td3_target_frag r d gamma (qmin_list row).
Proof. unfold td3_target_Q. rewrite Qred_correct. symmetry. apply frag_targets. Qed.

Lemma frag_td3_delay n delay : td3_delay_guard n delay = td3_actor_step n delay.
Proof. unfold td3_delay_guard, td3_actor_step. lia. Qed.

Lemma frag_adv_norm a m s : ~ s + (1 # 100000000) == 0 ->
  ppo_adv_norm a m s == (a - m) / (s + (1 # 100000000)) /\ a2c_adv_norm a m s == (a - m) / (s + (1 # 100000000)).
Proof.
  intros H. unfold ppo_adv_norm, a2c_adv_norm.
  split; field; intro C; apply H; rewrite <- C; ring.
Qed.

Lemma frag_adv_norm_model advs std : ~ std + (1 # 100000000) == 0 ->
  Forall2 Qeq (adv_norm_Q advs std) (map (fun a => ppo_adv_norm a (qmean advs) std) advs).
Proof.
  intros H. unfold adv_norm_Q. generalize (qmean advs) as m. intros m.
  induction advs as [|a t IH]; cbn [map]; constructor; [|exact IH].
  rewrite Qred_correct. symmetry. apply (frag_adv_norm a m std H).
Qed.

Lemma frag_surr A r : ppo_surr1 A r == A * r.
Proof. unfold ppo_surr1. ring. Qed.

Lemma frag_losses p e v ec vc :
  ppo_loss p e v ec vc == p + ec * e + vc * v /\ a2c_loss p e v ec vc == p + ec * e + vc * v.
Proof. unfold ppo_loss, a2c_loss. split; ring. Qed.

Lemma frag_ppo_loss c cv ec vc he advs ratios rets oldvs vs ents :
  fst (ppo_batch_Q c cv ec vc he advs ratios rets oldvs vs ents)
  == ppo_loss (qmean (qmap2 (fun a r => ppo_surr_Q a c r) advs ratios)) (qmean ents)
       (qmean (qmap3 (fun ret o v => (ret - ppo_value_pred_Q cv o v) * (ret - ppo_value_pred_Q cv o v)) rets oldvs vs)) ec vc.
Proof. unfold ppo_batch_Q. cbn [fst]. rewrite Qred_correct. symmetry. apply frag_losses. Qed.

Lemma frag_a2c_loss ec vc he advs lps rets vs ents :
  fst (a2c_batch_Q ec vc he advs lps rets vs ents)
  == a2c_loss (Qred (- qmean (qmap2 Qmult advs lps))) (qmean ents)
       (qmean (qmap2 (fun ret v => (ret - v) * (ret - v)) rets vs)) ec vc.
Proof. unfold a2c_batch_Q. cbn [fst]. rewrite Qred_correct. symmetry. apply frag_losses. Qed.

(* signs and bounds that the correspondence alone used to carry (review B, C07 item 4) *)
Lemma frag_signs a lp m c cv cr :
  sac_actor_term_frag a lp m == a * lp - m /\
  ppo_clip_lo c == 1 - c /\ ppo_clip_hi c == 1 + c /\ ppo_vclip_lo cv cr == - cv.
Proof. unfold sac_actor_term_frag, ppo_clip_lo, ppo_clip_hi, ppo_vclip_lo. repeat split; ring. Qed.

(* ---------------- (b) Q twins compute the real-valued definitions ---------------- *)
Local Open Scope R_scope.

Lemma Q2R_min a b : Q2R (Qmin a b) = Rmin (Q2R a) (Q2R b).
Proof.
  destruct (Q.min_spec a b) as [[H E]|[H E]]; rewrite (Qeq_eqR _ _ E).
  - apply Qlt_le_weak in H. apply Qle_Rle in H. rewrite Rmin_left; [reflexivity | exact H].
  - apply Qle_Rle in H. rewrite Rmin_right; [reflexivity | exact H].
Qed.
Lemma Q2R_max a b : Q2R (Qmax a b) = Rmax (Q2R a) (Q2R b).
Proof.
  destruct (Q.max_spec a b) as [[H E]|[H E]]; rewrite (Qeq_eqR _ _ E).
  - apply Qlt_le_weak in H. apply Qle_Rle in H. rewrite Rmax_right; [reflexivity | exact H].
  - apply Qle_Rle in H. rewrite Rmax_left; [reflexivity | exact H].
Qed.
Lemma Q2R_clamp lo hi x : Q2R (qclamp lo hi x) = clampR (Q2R lo) (Q2R hi) (Q2R x).
Proof. unfold qclamp, clampR. rewrite Q2R_min, Q2R_max. reflexivity. Qed.
Lemma Q2R_1 : Q2R 1 = 1. Proof. unfold Q2R; cbn; lra. Qed.
Lemma Q2R_0 : Q2R 0 = 0. Proof. unfold Q2R; cbn; lra. Qed.

Lemma td_target_Q_R r d g nq : Q2R (td_target_Q r d g nq) = td_target (Q2R r) (Q2R d) (Q2R g) (Q2R nq).
Proof. unfold td_target_Q, td_target. rewrite Q2R_plus, !Q2R_mult, Q2R_minus, Q2R_1. reflexivity. Qed.

Lemma huber_grad_Q_R x : Q2R (huber_grad_Q x) = huber_grad (Q2R x).
Proof. unfold huber_grad_Q, huber_grad. rewrite Q2R_clamp, Q2R_opp, Q2R_1. reflexivity. Qed.

Lemma Qle_bool_Rle_dec a b (A : Type) (x y : A) :
  (if Qle_bool a b then x else y) = (if Rle_dec (Q2R a) (Q2R b) then x else y).
Proof.
  destruct (Qle_bool a b) eqn:E; destruct (Rle_dec (Q2R a) (Q2R b)) as [H|H]; try reflexivity; exfalso.
  - apply Qle_bool_iff in E. apply Qle_Rle in E. contradiction.
  - apply Rle_Qle in H. apply Qle_bool_iff in H. congruence.
Qed.

Lemma ppo_surr_Q_R A c r : Q2R (ppo_surr_Q A c r) = ppo_surr (Q2R A) (Q2R c) (Q2R r).
Proof.
  unfold ppo_surr_Q, ppo_surr. rewrite Q2R_opp, Q2R_min, !Q2R_mult, Q2R_clamp, Q2R_minus, Q2R_plus, Q2R_1. reflexivity.
Qed.

Lemma ppo_surr_grad_Q_R A c r : Q2R (ppo_surr_grad_Q A c r) = ppo_surr_grad (Q2R A) (Q2R c) (Q2R r).
Proof.
  unfold ppo_surr_grad_Q, ppo_surr_grad.
  rewrite (Qle_bool_Rle_dec (A * r) (A * qclamp (1 - c) (1 + c) r) Q (- A)%Q 0%Q).
  rewrite !Q2R_mult, Q2R_clamp, Q2R_minus, Q2R_plus, Q2R_1.
  destruct (Rle_dec _ _); [apply Q2R_opp | apply Q2R_0].
Qed.

Lemma clip_coef_Q_R m t : ~ (t + (1 # 1000000) == 0)%Q -> Q2R (clip_coef_Q m t) = clip_coef (Q2R m) (Q2R t).
Proof.
  intros H. unfold clip_coef_Q, clip_coef. rewrite Q2R_min, Q2R_1, Q2R_div by exact H. rewrite Q2R_plus.
  replace (Q2R (1 # 1000000)) with (1 / 1000000) by (unfold Q2R; cbn; lra). reflexivity.
Qed.

Lemma td3_next_action_Q_R c a n :
  Q2R (td3_next_action_Q c a n) = td3_next_action (Q2R c) (Q2R a) (Q2R n).
Proof.
  unfold td3_next_action_Q, td3_next_action.
  rewrite Q2R_clamp, Q2R_plus, Q2R_clamp, !Q2R_opp, Q2R_1. reflexivity.
Qed.

(* ---------------- optimizer-facing logic ---------------- *)
Local Open Scope Q_scope.

Lemma apply_lr_spec sched progress opts :
  length (apply_lr sched progress opts) = length opts /\
  Forall2 (fun new old => length new = length old /\ Forall (fun lr => lr = sched progress) new) (apply_lr sched progress opts) opts.
Proof.
  unfold apply_lr. split; [apply map_length|].
  induction opts as [|g t IH]; cbn [map]; constructor; [|exact IH].
  split; [apply map_length|]. induction g; cbn [map]; constructor; [reflexivity | assumption].
Qed.

(* the code assigns exactly the value it is given, and it is given schedule(current progress) *)
Lemma frag_lr lr p : lr_assigned lr == lr /\ lr_progress_arg p == p.
Proof. unfold lr_assigned, lr_progress_arg. split; ring. Qed.

Lemma frag_lr_model sched progress opts :
  Forall (Forall (fun lr => lr == lr_assigned (sched (lr_progress_arg progress)))) (apply_lr (fun p => sched (lr_progress_arg p)) progress opts).
Proof.
  unfold apply_lr. induction opts as [|g t IH]; cbn [map]; constructor; [|exact IH].
  induction g; cbn [map]; constructor; [|assumption].
  symmetry. apply (proj1 (frag_lr _ progress)).
Qed.

(* SAC set-up: target entropy "auto" = -prod(action shape); default initial coefficient 1; log argument *)
Lemma frag_sac_setup shape x :
  sac_target_entropy_Q None shape == sac_auto_target_entropy (inject_Z (fold_right Z.mul 1%Z shape)) /\
  sac_init_alpha_Q (EntAuto None) == sac_default_init /\
  sac_init_alpha_Q (EntAuto (Some x)) == sac_log_arg 1 x.
Proof.
  unfold sac_target_entropy_Q, sac_auto_target_entropy, sac_init_alpha_Q, sac_default_init, sac_log_arg.
  repeat split; ring.
Qed.

Lemma sac_target_entropy_vector d : sac_target_entropy_Q None [d] == - inject_Z d.
Proof. unfold sac_target_entropy_Q. cbn [fold_right]. rewrite Z.mul_1_r. reflexivity. Qed.

Local Open Scope R_scope.
(* the learned coefficient starts at the parsed initial value: exp(log_ent_coef) = init *)
Lemma sac_log_alpha_init_spec s : (0 < sac_init_alpha_Q s)%Q ->
  exp (sac_log_alpha_init s) = Q2R (sac_init_alpha_Q s) /\ sac_log_alpha_init (EntAuto None) = 0.
Proof.
  intros H. unfold sac_log_alpha_init. split.
  - apply exp_ln. apply Qlt_Rlt in H. rewrite Q2R_0 in H. exact H.
  - cbn [sac_init_alpha_Q]. rewrite Q2R_1. apply ln_1.
Qed.
