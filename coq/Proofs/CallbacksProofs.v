(* Proofs about Model/Callbacks.v: interface lemmas for the regenerated fragments of callbacks.py and of the
   collection loops, the trace grammar of learn(), CallbackList forwarding, cadence laws. *)
From SB3V Require Import Lib.Tactics Gen.Frag_callbacks Model.Callbacks.
Local Open Scope Z_scope.

(* ------------------------------------------------------------------ fragments vs model *)
(* proved by unfolding + lia / case analysis, so that harmless rewrites of the source (operand order of a
   commutative operator, 0 == x for x == 0, ...) still check while a changed comparison or offset does not *)

Ltac frag :=
  intros;
  repeat match goal with |- _ /\ _ => split end;
  unfold cb_on_step_counters, cb_training_start_nt, cblist_combine, checkpoint_cond, eval_cond, eval_better,
         eval_after_combine, everyn_cond, everyn_update, everyn_init_last, maxep_total, maxep_count, maxep_continue,
         onpol_rollout_guard, onpol_count, onpol_nsteps_inc, onpol_learn_guard, offpol_count, offpol_episode_inc,
         offpol_learn_guard, cb_collect_more_step, cb_collect_more_episode, setup_learn_counters,
         checkpoint_fires, eval_fires, better, everyn_fires, more, setup, base_step, base_ts;
  cbn [b_calls b_nt fst snd];
  try reflexivity;
  try (repeat match goal with |- (_, _) = (_, _) => f_equal end; lia).

Lemma frag_on_step_counters b nt :
  cb_on_step_counters (b_calls b) nt = (b_calls (base_step nt b), b_nt (base_step nt b)).
Proof. frag. Qed.

Lemma frag_training_start_nt b nt : cb_training_start_nt nt = b_nt (base_ts nt b).
Proof. frag. Qed.

Lemma frag_cblist_combine r acc : cblist_combine r acc = (r && acc)%bool.
Proof. reflexivity. Qed.   (* by computation: the child's result must stay the LEFT operand (both are evaluated; `and` short-circuits on the left) *)

Lemma frag_checkpoint_cond c f : checkpoint_cond c f = checkpoint_fires c f.
Proof. frag. Qed.

Lemma frag_eval_cond c f : eval_cond c f = eval_fires c f.
Proof. frag. Qed.

Lemma frag_eval_better m b : eval_better m b = better m (Some b).
Proof. frag. Qed.

Lemma frag_eval_after_combine a r : eval_after_combine a r = (if a then r else false).
Proof. reflexivity. Qed.   (* by computation: continue_training must stay the LEFT operand (the after-eval callback is skipped when it is False) *)

Lemma frag_everyn_cond nt last n : everyn_cond nt last n = everyn_fires nt last n.
Proof. frag. Qed.

Lemma frag_everyn_update nt : everyn_update nt = nt.
Proof. frag. Qed.

Lemma frag_everyn_init : everyn_init_last = 0.
Proof. frag. Qed.

Lemma frag_maxep m ne neps nd :
  maxep_total m ne = m * ne /\ maxep_count neps nd = neps + nd /\ maxep_continue neps (m * ne) = (neps <? m * ne).
Proof. frag. Qed.

Lemma frag_rollout_guards steps eps n :
  onpol_rollout_guard steps n = more (OnPol n) steps eps /\
  cb_collect_more_step steps n = more (OffStep n) steps eps /\
  cb_collect_more_episode eps n = more (OffEpis n) steps eps.
Proof. frag. Qed.

Lemma frag_counts nt ne steps eps :
  onpol_count nt ne = nt + ne /\ onpol_nsteps_inc steps = steps + 1 /\
  offpol_count nt ne steps = (nt + ne, steps + 1) /\ offpol_episode_inc eps = eps + 1.
Proof. frag. Qed.

Lemma frag_learn_guards nt total :
  onpol_learn_guard nt total = (nt <? total) /\ offpol_learn_guard nt total = (nt <? total).
Proof. frag. Qed.

Lemma frag_setup reset nt ep total :
  let '(nt', _, total') := setup_learn_counters reset nt ep total in (nt', total') = setup reset nt total.
Proof. destruct reset; frag. Qed.

Lemma frag_rthresh v thr : rthresh_continue v thr = lt_thr (Some v) thr.
Proof. unfold rthresh_continue, lt_thr. lia. Qed.

(* the regenerated decision block of StopTrainingOnNoModelImprovement is the model's step (finite best values) *)
Lemma frag_noimp nt b mx me v lbv ni :
  let '(cont, ni', lb') := noimp_block true (b_calls b + 1) me v lbv ni mx in
  dispatchp (Some v) (Step nt) (NoImp b mx me (Some lbv) ni) = (NoImp (base_step nt b) mx me (Some lb') ni', cont).
Proof.
  unfold noimp_block. cbn [dispatchp base_step b_calls gt_opt].
  destruct (me <? b_calls b + 1); [|reflexivity].
  destruct (lbv <? v); [reflexivity|].
  destruct (mx <? ni + 1); reflexivity.
Qed.

(* ------------------------------------------------------------------ unfolding lemmas for dispatch *)

Definition base_ev (e : event) (b : base) : base :=
  match e with TS nt => base_ts nt b | UL s d => base_ul s d b | Step nt => base_step nt b | _ => b end.

Definition is_step (e : event) : bool := match e with Step _ => true | _ => false end.

Lemma dispatchp_clist pb e b l :
  dispatchp pb e (CList b l) =
  (CList (base_ev e b) (map (fun c => fst (dispatchp pb e c)) l),
   if is_step e then forallb (fun c => snd (dispatchp pb e c)) l else true).
Proof.
  assert (G : forall l,
    (fix go (l : list cb) : list cb * bool :=
       match l with
       | [] => ([], true)
       | x :: r => let xr := dispatchp pb e x in let rr := go r in (fst xr :: fst rr, (snd xr && snd rr)%bool)
       end) l = (map (fun c => fst (dispatchp pb e c)) l, forallb (fun c => snd (dispatchp pb e c)) l)).
  { induction l0 as [|x r IH]; [reflexivity|]. rewrite IH. reflexivity. }
  destruct e; cbn [dispatchp]; rewrite G; reflexivity.
Qed.

Lemma dispatch_clist e b l :
  dispatch e (CList b l) =
  (CList (base_ev e b) (map (fun c => fst (dispatch e c)) l),
   if is_step e then forallb (fun c => snd (dispatch e c)) l else true).
Proof. apply dispatchp_clist. Qed.

Lemma dispatch_nonstep_true pb e c : is_step e = false -> snd (dispatchp pb e c) = true.
Proof.
  intros H. destruct c; destruct e; try discriminate H; try reflexivity;
    try (rewrite dispatchp_clist; reflexivity).
Qed.

(* ------------------------------------------------------------------ the trace grammar of learn() *)

(* k successful (env step, update_locals, on_step) rounds: counters move by n_envs and by one *)
Inductive good_steps (ne : Z) : Z -> Z -> list (event * bool) -> Z -> Z -> Prop :=
| gs_nil nt st : good_steps ne nt st [] nt st
| gs_cons nt st nd l nt' st' :
    good_steps ne (nt + ne) (st + 1) l nt' st' ->
    good_steps ne nt st ((UL (st + 1) nd, true) :: (Step (nt + ne), true) :: l) nt' st'.

(* the rollouts of one learn(): complete ones, optionally a last one cut by a Step that returned false *)
Inductive body (ne : Z) : Z -> Z -> list (event * bool) -> bool -> Z -> Z -> Prop :=
| b_done nt st : body ne nt st [] false nt st
| b_full nt st steps nt' st' rest stopped nt'' st'' :
    good_steps ne nt st steps nt' st' -> body ne nt' st' rest stopped nt'' st'' ->
    body ne nt st ((RS, true) :: steps ++ (RE, true) :: rest) stopped nt'' st''
| b_stop nt st steps nt' st' nd :
    good_steps ne nt st steps nt' st' ->
    body ne nt st ((RS, true) :: steps ++ [(UL (st' + 1) nd, true); (Step (nt' + ne), false)]) true (nt' + ne) (st' + 1).

Lemma rollout_grammar ne k : forall fuel steps eps s s' cont tr,
  rollout fuel ne k steps eps s = (s', cont, tr) ->
  exists pre nt' st',
    good_steps ne (d_nt s) (d_stamp s) pre nt' st' /\
    (cont = true -> tr = pre ++ [(RE, true)] /\ d_nt s' = nt' /\ d_stamp s' = st') /\
    (cont = false -> exists nd, tr = pre ++ [(UL (st' + 1) nd, true); (Step (nt' + ne), false)] /\
                                d_nt s' = nt' + ne /\ d_stamp s' = st' + 1).
Proof.
  induction fuel as [|f IH]; intros steps eps s s' cont tr H.
  - cbn [rollout] in H. destruct (more k steps eps); inv H;
      (exists [], (d_nt s), (d_stamp s); split; [constructor|]; split; [intros _; auto | discriminate]).
  - cbn [rollout] in H. destruct (more k steps eps).
    + destruct (snd (dispatch (Step (d_nt s + ne)) (fst (dispatch (UL (d_stamp s + 1) (hd 0 (d_dones s))) (d_cb s))))) eqn:R.
      * match type of H with context [rollout ?a ?b ?c ?d ?e ?g] => destruct (rollout a b c d e g) as [[s2 c2] tr2] eqn:E end.
        inv H. apply IH in E. cbn [d_nt d_stamp] in E.
        destruct E as (pre & nt' & st' & G & Ht & Hf).
        exists ((UL (d_stamp s + 1) (hd 0 (d_dones s)), true) :: (Step (d_nt s + ne), true) :: pre), nt', st'.
        split; [constructor; exact G|]. split.
        -- intros C. destruct (Ht C) as (-> & ? & ?). auto.
        -- intros C. destruct (Hf C) as (nd & -> & ? & ?). exists nd. auto.
      * inv H. exists [], (d_nt s), (d_stamp s). split; [constructor|]. split; [discriminate|].
        intros _. exists (hd 0 (d_dones s)). cbn. auto.
    + inv H. exists [], (d_nt s), (d_stamp s). split; [constructor|]. split; [intros _; auto | discriminate].
Qed.

Lemma learn_loop_grammar rf ne k total : forall fuel s s' tr,
  learn_loop fuel rf ne k total s = (s', tr) ->
  exists stopped, body ne (d_nt s) (d_stamp s) tr stopped (d_nt s') (d_stamp s').
Proof.
  induction fuel as [|f IH]; intros s s' tr H; cbn [learn_loop] in H.
  - destruct (d_nt s <? total); inv H; exists false; constructor.
  - destruct (d_nt s <? total); [|inv H; exists false; constructor].
    match type of H with context [rollout ?a ?b ?c ?d ?e ?g] => destruct (rollout a b c d e g) as [[s2 c2] tr2] eqn:E end.
    apply rollout_grammar in E. cbn [d_nt d_stamp] in E.
    destruct E as (pre & nt' & st' & G & Ht & Hf).
    destruct c2.
    + destruct (learn_loop f rf ne k total s2) as [s3 tr3] eqn:E3. inv H.
      destruct (Ht eq_refl) as (-> & <- & <-).
      apply IH in E3. destruct E3 as (stopped & B). exists stopped.
      rewrite <- app_assoc. cbn [app]. econstructor; eauto.
    + inv H. destruct (Hf eq_refl) as (nd & -> & -> & ->). exists true. constructor. exact G.
Qed.

Theorem learn_grammar fuel rf ne k total reset dones s s' tr :
  learn fuel rf ne k total reset dones s = (s', tr) ->
  exists evs stopped,
    tr = (TS (fst (setup reset (d_nt s) total)), true) :: evs ++ [(TE, true)] /\
    body ne (fst (setup reset (d_nt s) total)) (d_stamp s) evs stopped (d_nt s') (d_stamp s').
Proof.
  unfold learn. destruct (setup reset (d_nt s) total) as [nt0 total'] eqn:S. cbn [fst].
  match goal with |- context [learn_loop ?a ?b ?c ?d ?e ?g] => destruct (learn_loop a b c d e g) as [s1 tr1] eqn:E end.
  intros H. inv H. apply learn_loop_grammar in E. cbn [d_nt d_stamp] in *.
  destruct E as (stopped & B). exists tr1, stopped. auto.
Qed.

(* after an event that returned false nothing but the tail [t] follows *)
Fixpoint after_false_only (t l : list (event * bool)) : Prop :=
  match l with
  | [] => True
  | x :: r => (snd x = false -> r = t) /\ after_false_only t r
  end.

Lemma afo_app_true t a b :
  Forall (fun x => snd x = true) a -> after_false_only t b -> after_false_only t (a ++ b).
Proof.
  induction 1 as [|x a Hx _ IH]; intros Hb; [exact Hb|].
  cbn. split; [rewrite Hx; discriminate | auto].
Qed.

Lemma good_steps_true ne nt st l nt' st' :
  good_steps ne nt st l nt' st' -> Forall (fun x => snd x = true) l.
Proof. induction 1; repeat constructor; auto. Qed.

Lemma body_after_false ne nt st evs stopped nt' st' :
  body ne nt st evs stopped nt' st' -> after_false_only [(TE, true)] (evs ++ [(TE, true)]).
Proof.
  induction 1.
  - cbn. split; [discriminate | exact I].
  - cbn [app]. split; [discriminate|].
    rewrite <- app_assoc. apply afo_app_true; [eapply good_steps_true; eauto|].
    cbn [app]. split; [discriminate | exact IHbody].
  - cbn [app]. split; [discriminate|].
    rewrite <- app_assoc. apply afo_app_true; [eapply good_steps_true; eauto|].
    cbn. repeat split; try discriminate; auto.
Qed.

Lemma afo_split t : forall pre l x post,
  after_false_only t l -> l = pre ++ x :: post -> snd x = false -> post = t.
Proof.
  induction pre as [|p pre IH]; intros l x post H E Hx; subst l; cbn in H.
  - destruct H as [H _]. auto.
  - destruct H as [_ H]. eapply IH; eauto.
Qed.

(* a step event returning False stops training before any further environment step:
   whatever follows it in the trace of that learn() is exactly training-end *)
Theorem stop_halts fuel rf ne k total reset dones s s' tr pre e post :
  learn fuel rf ne k total reset dones s = (s', tr) ->
  tr = pre ++ (e, false) :: post -> post = [(TE, true)].
Proof.
  intros H E. apply learn_grammar in H. destruct H as (evs & stopped & -> & B).
  apply body_after_false in B.
  destruct pre as [|p pre]; [discriminate E|]. inv E.
  eapply afo_split; eauto.
Qed.

(* the unfinished rollout occurs iff some Step returned false *)
Lemma good_steps_no_false ne nt st l nt' st' e :
  good_steps ne nt st l nt' st' -> ~ In (e, false) l.
Proof.
  intros G I. apply good_steps_true in G. rewrite Forall_forall in G. apply G in I. discriminate I.
Qed.

Theorem stopped_iff_false_step ne nt st evs stopped nt' st' :
  body ne nt st evs stopped nt' st' -> (stopped = true <-> exists e, In (e, false) evs).
Proof.
  induction 1.
  - split; [discriminate | intros (e & [])].
  - rewrite IHbody. split; intros (e & I); exists e.
    + right. apply in_or_app. right. right. exact I.
    + destruct I as [I|I]; [discriminate I|]. apply in_app_or in I. destruct I as [I|[I|I]]; auto.
      * exfalso. eapply good_steps_no_false; eauto.
      * discriminate I.
  - split; [|reflexivity]. intros _. eexists. right. apply in_or_app. right. right. left. reflexivity.
Qed.

(* ------------------------------------------------------------------ the tree receives exactly the trace *)

Lemma rollout_is_run ne k : forall fuel steps eps s s' cont tr,
  rollout fuel ne k steps eps s = (s', cont, tr) -> d_cb s' = run (map fst tr) (d_cb s).
Proof.
  induction fuel as [|f IH]; intros steps eps s s' cont tr H; cbn [rollout] in H.
  - destruct (more k steps eps); inv H; reflexivity.
  - destruct (more k steps eps); [|inv H; reflexivity].
    destruct (snd (dispatch (Step (d_nt s + ne)) (fst (dispatch (UL (d_stamp s + 1) (hd 0 (d_dones s))) (d_cb s))))) eqn:R.
    + match type of H with context [rollout ?a ?b ?c ?d ?e ?g] => destruct (rollout a b c d e g) as [[s2 c2] tr2] eqn:E end.
      inv H. apply IH in E. rewrite E. reflexivity.
    + inv H. reflexivity.
Qed.

Lemma run_app a b c : run (a ++ b) c = run b (run a c).
Proof. unfold run. apply fold_left_app. Qed.

Lemma run_cons e l c : run (e :: l) c = run l (fst (dispatch e c)).
Proof. reflexivity. Qed.

Lemma learn_loop_is_run rf ne k total : forall fuel s s' tr,
  learn_loop fuel rf ne k total s = (s', tr) -> d_cb s' = run (map fst tr) (d_cb s).
Proof.
  induction fuel as [|f IH]; intros s s' tr H; cbn [learn_loop] in H.
  - destruct (d_nt s <? total); inv H; reflexivity.
  - destruct (d_nt s <? total); [|inv H; reflexivity].
    match type of H with context [rollout ?a ?b ?c ?d ?e ?g] => destruct (rollout a b c d e g) as [[s2 c2] tr2] eqn:E end.
    apply rollout_is_run in E. cbn [d_cb] in E.
    destruct c2.
    + destruct (learn_loop f rf ne k total s2) as [s3 tr3] eqn:E3. inv H.
      apply IH in E3. rewrite E3, E. cbn [map fst]. rewrite run_cons, map_app, run_app. reflexivity.
    + inv H. rewrite E. reflexivity.
Qed.

(* the callback tree after learn() is the tree that was delivered, in order, the events of the trace *)
Theorem learn_is_run fuel rf ne k total reset dones s s' tr :
  learn fuel rf ne k total reset dones s = (s', tr) -> d_cb s' = run (map fst tr) (d_cb s).
Proof.
  unfold learn. destruct (setup reset (d_nt s) total) as [nt0 total'].
  match goal with |- context [learn_loop ?a ?b ?c ?d ?e ?g] => destruct (learn_loop a b c d e g) as [s1 tr1] eqn:E end.
  intros H. inv H. apply learn_loop_is_run in E. cbn [d_cb] in *.
  cbn [map fst]. rewrite run_cons, map_app, run_app, E. reflexivity.
Qed.

(* ------------------------------------------------------------------ CallbackList forwarding *)

(* the node reached from the root through CallbackLists only, by child indices *)
Fixpoint sub (p : list nat) (c : cb) : option cb :=
  match p with
  | [] => Some c
  | i :: p' => match c with
               | CList _ l => match nth_error l i with Some x => sub p' x | None => None end
               | _ => None
               end
  end.

Lemma sub_dispatch e : forall p c x,
  sub p c = Some x -> sub p (fst (dispatch e c)) = Some (fst (dispatch e x)).
Proof.
  induction p as [|i p IH]; intros c x H; cbn [sub] in *.
  - inv H. reflexivity.
  - destruct c; try discriminate H. rewrite dispatch_clist. cbn [fst sub].
    destruct (nth_error l i) as [y|] eqn:N; [|discriminate H].
    rewrite (map_nth_error _ _ _ N). auto.
Qed.

(* every CallbackList child - through any nesting of lists - is delivered exactly the events the
   root is delivered, whatever its siblings return *)
Theorem list_child_sees_all : forall evs p c x,
  sub p c = Some x -> sub p (run evs c) = Some (run evs x).
Proof.
  induction evs as [|e evs IH]; intros p c x H; [exact H|].
  cbn [run fold_left]. apply IH. apply sub_dispatch. exact H.
Qed.

Theorem list_returns_conjunction nt b l :
  snd (dispatch (Step nt) (CList b l)) = forallb (fun c => snd (dispatch (Step nt) c)) l.
Proof. rewrite dispatch_clist. reflexivity. Qed.

(* what a recorder that is delivered [evs] writes *)
Definition kind_of (e : event) : Z :=
  match e with TS _ => 0 | RS => 1 | Step _ => 2 | RE => 3 | TE => 4 | UL _ _ => 9 end.

Fixpoint rec_entries (b : base) (evs : list event) : list entry :=
  match evs with
  | [] => []
  | e :: r => let b' := base_ev e b in
              (match e with UL _ _ => [] | _ => [log_entry (kind_of e) b'] end) ++ rec_entries b' r
  end.

Definition base_after (b : base) (evs : list event) : base := fold_left (fun b e => base_ev e b) evs b.

Lemma rec_run : forall evs b stop log,
  run evs (Rec b stop log) = Rec (base_after b evs) stop (log ++ rec_entries b evs).
Proof.
  induction evs as [|e evs IH]; intros b stop log.
  - cbn. rewrite app_nil_r. reflexivity.
  - cbn [run fold_left base_after rec_entries] in *.
    destruct e; cbn [dispatchp fst]; unfold run in IH; rewrite IH; cbn [base_ev kind_of app];
      rewrite <- ?app_assoc; reflexivity.
Qed.

(* a recorder below CallbackLists logs one entry per root event (update_locals only refreshes its locals) *)
Theorem list_recorder_log evs p c b stop log :
  sub p c = Some (Rec b stop log) ->
  sub p (run evs c) = Some (Rec (base_after b evs) stop (log ++ rec_entries b evs)).
Proof. intros H. rewrite (list_child_sees_all evs p c _ H), rec_run. reflexivity. Qed.

(* in a run of good steps a recorder's entries are numbered consecutively: n_calls + i,
   num_timesteps + i * n_envs, and the locals it sees are those of env step stamp + i *)
Fixpoint step_entries (ne : Z) (k : nat) (c nt st : Z) : list entry :=
  match k with
  | O => []
  | S k' => mkE 2 (c + 1) (nt + ne) (st + 1) :: step_entries ne k' (c + 1) (nt + ne) (st + 1)
  end.

Lemma good_steps_entries ne nt st steps nt' st' :
  good_steps ne nt st steps nt' st' ->
  forall b, exists k,
    rec_entries b (map fst steps) = step_entries ne k (b_calls b) nt st /\
    b_calls (base_after b (map fst steps)) = b_calls b + Z.of_nat k /\
    nt' = nt + Z.of_nat k * ne /\ st' = st + Z.of_nat k.
Proof.
  induction 1 as [nt st | nt st nd l nt' st' G IH]; intros b.
  - exists O. cbn. repeat split; lia.
  - destruct (IH (base_step (nt + ne) (base_ul (st + 1) nd b))) as (k & E & C & N & HS).
    exists (S k). cbn [map fst rec_entries base_ev app base_after fold_left].
    unfold base_after in C. rewrite C. cbn [step_entries].
    rewrite E. cbn [base_step base_ul b_calls log_entry b_nt stamp_of b_loc].
    split; [reflexivity|]. repeat split; lia.
Qed.

(* ------------------------------------------------------------------ cadence *)

Fixpoint steps_of (evs : list event) : list Z :=
  match evs with [] => [] | Step nt :: r => nt :: steps_of r | _ :: r => steps_of r end.

(* the on_step calls a node receives, numbered by its n_calls *)
Fixpoint numbered (c : Z) (nts : list Z) : list (Z * Z) :=
  match nts with [] => [] | nt :: r => (c + 1, nt) :: numbered (c + 1) r end.

Lemma base_ev_calls e b : b_calls (base_ev e b) = if is_step e then b_calls b + 1 else b_calls b.
Proof. destruct e; reflexivity. Qed.

(* CheckpointCallback *)
Theorem checkpoint_cadence : forall evs b f sv,
  run evs (Checkpoint b f sv) =
  Checkpoint (base_after b evs) f
    (sv ++ filter (fun p => checkpoint_fires (fst p) f) (numbered (b_calls b) (steps_of evs))).
Proof.
  induction evs as [|e evs IH]; intros b f sv.
  - cbn. rewrite app_nil_r. reflexivity.
  - unfold run in *. cbn [fold_left base_after].
    destruct e; cbn [dispatchp fst steps_of]; rewrite IH; cbn [base_ev b_calls base_ts base_ul]; try reflexivity.
    cbn [numbered filter fst base_step b_calls].
    destruct (checkpoint_fires (b_calls b + 1) f); [rewrite <- app_assoc|]; reflexivity.
Qed.

Lemma checkpoint_fires_iff c f : 0 < f -> (checkpoint_fires c f = true <-> exists q, c = q * f).
Proof.
  intros Hf. unfold checkpoint_fires. rewrite Z.eqb_eq. split.
  - intros H. exists (c / f). pose proof (Z.div_mod c f). lia.
  - intros (q & ->). apply Z_mod_mult.
Qed.

(* EvalCallback: its own evaluation log, whatever the children do *)
Definition eval_done (c : cb) : list (Z * Z) := match c with EvalC _ _ _ _ d _ _ => d | _ => [] end.

Lemma dispatch_eval_shape e b f best evals d ob af :
  exists best' evals' ob' af',
    fst (dispatch e (EvalC b f best evals d ob af)) =
    EvalC (base_ev e b) f best' evals'
      (d ++ match e with
            | Step nt => if eval_fires (b_calls b + 1) f then [(b_calls b + 1, nt)] else []
            | _ => []
            end) ob' af'.
Proof.
  destruct e; cbn [dispatchp base_ev base_step b_calls]; try (rewrite app_nil_r; repeat eexists).
  destruct (eval_fires (b_calls b + 1) f).
  - destruct (better (hd 0 evals) best).
    + destruct (snd (dispatchp (Some (hd 0 evals)) (Step nt) ob)); repeat eexists.
    + repeat eexists.
  - rewrite app_nil_r. repeat eexists.
Qed.

Theorem eval_cadence : forall evs b f best evals d ob af,
  eval_done (run evs (EvalC b f best evals d ob af)) =
  d ++ filter (fun p => eval_fires (fst p) f) (numbered (b_calls b) (steps_of evs)).
Proof.
  induction evs as [|e evs IH]; intros b f best evals d ob af.
  - cbn. rewrite app_nil_r. reflexivity.
  - unfold run in *. cbn [fold_left].
    destruct (dispatch_eval_shape e b f best evals d ob af) as (best' & evals' & ob' & af' & E).
    rewrite E, IH. rewrite base_ev_calls.
    destruct e; cbn [is_step steps_of]; rewrite ?app_nil_r; try reflexivity.
    cbn [numbered filter fst].
    destruct (eval_fires (b_calls b + 1) f); [rewrite <- app_assoc|rewrite app_nil_r]; reflexivity.
Qed.

(* who gets on_step below an EvalCallback, for one step event; the children read the parent's best mean as updated by
   this very evaluation ([dispatchp (Some mean)] / [dispatchp best]) *)
Theorem eval_children_on_trigger_only pb nt b f best evals d ob af :
  let c' := b_calls b + 1 in
  let m := hd 0 evals in
  let r := dispatchp pb (Step nt) (EvalC b f best evals d ob af) in
  (eval_fires c' f = false ->
     r = (EvalC (base_step nt b) f best evals d ob af, true)) /\
  (eval_fires c' f = true -> better m best = false ->
     r = (EvalC (base_step nt b) f best (tl evals) (d ++ [(c', nt)]) ob (fst (dispatchp best (Step nt) af)),
          snd (dispatchp best (Step nt) af))) /\
  (eval_fires c' f = true -> better m best = true ->
     r = (EvalC (base_step nt b) f (Some m) (tl evals) (d ++ [(c', nt)])
            (fst (dispatchp (Some m) (Step nt) ob))
            (if snd (dispatchp (Some m) (Step nt) ob) then fst (dispatchp (Some m) (Step nt) af) else af),
          if snd (dispatchp (Some m) (Step nt) ob) then snd (dispatchp (Some m) (Step nt) af) else false)).
Proof.
  intros c' m r. subst c' m r. cbn [dispatchp base_step b_calls].
  split; [|split].
  - intros H. rewrite H. reflexivity.
  - intros H H2. rewrite H, H2. reflexivity.
  - intros H H2. rewrite H, H2. destruct (snd (dispatchp (Some (hd 0 evals)) (Step nt) ob)); reflexivity.
Qed.

(* best_mean_reward is updated by strict improvement only and never decreases *)
Definition eval_best (c : cb) : option Z := match c with EvalC _ _ best _ _ _ _ => best | _ => None end.

Theorem eval_best_update pb e b f best evals d ob af :
  eval_best (fst (dispatchp pb e (EvalC b f best evals d ob af))) =
  match e with
  | Step nt => if eval_fires (b_calls b + 1) f && better (hd 0 evals) best then Some (hd 0 evals) else best
  | _ => best
  end.
Proof.
  destruct e; cbn [dispatchp base_step b_calls eval_best fst]; try reflexivity.
  destruct (eval_fires (b_calls b + 1) f); cbn [andb]; [|reflexivity].
  destruct (better (hd 0 evals) best); [|reflexivity].
  destruct (snd (dispatchp (Some (hd 0 evals)) (Step nt) ob)); reflexivity.
Qed.

Theorem eval_best_never_decreases pb e b f best evals d ob af v :
  best = Some v ->
  exists v', eval_best (fst (dispatchp pb e (EvalC b f best evals d ob af))) = Some v' /\ v <= v'.
Proof.
  intros ->. rewrite eval_best_update. destruct e; try (exists v; split; [reflexivity | lia]).
  destruct (eval_fires (b_calls b + 1) f && better (hd 0 evals) (Some v))%bool eqn:E.
  - apply andb_prop in E. destruct E as [_ E]. cbn [better] in E. exists (hd 0 evals). split; [reflexivity | lia].
  - exists v. split; [reflexivity | lia].
Qed.

(* StopTrainingOnRewardThreshold: stops iff the parent's best mean has reached the threshold *)
Theorem thresh_stops_iff pb nt b thr :
  snd (dispatchp pb (Step nt) (Thresh b thr)) = false <-> exists v, pb = Some v /\ thr <= v.
Proof.
  cbn [dispatchp snd]. unfold lt_thr. destruct pb as [v|].
  - rewrite Z.ltb_ge. split; [intros H; exists v; auto | intros (w & E & H); inversion E; subst; exact H].
  - split; [discriminate | intros (w & E & _); discriminate E].
Qed.

(* as callback_on_new_best of an EvalCallback it therefore stops training exactly when a new best mean >= threshold is found *)
Theorem eval_threshold_stops pb nt b f best evals d thr bt af :
  eval_fires (b_calls b + 1) f = true -> better (hd 0 evals) best = true ->
  (snd (dispatchp pb (Step nt) (EvalC b f best evals d (Thresh bt thr) af)) = false <->
   thr <= hd 0 evals \/ snd (dispatchp (Some (hd 0 evals)) (Step nt) af) = false).
Proof.
  intros H1 H2. cbn [dispatchp base_step b_calls]. rewrite H1, H2. cbn [snd fst lt_thr].
  destruct (hd 0 evals <? thr) eqn:E; cbn [snd].
  - apply Z.ltb_lt in E. split; [intros H; right; exact H | intros [H|H]; [lia | exact H]].
  - apply Z.ltb_ge in E. split; [intros _; left; exact E | reflexivity].
Qed.

(* StopTrainingOnNoModelImprovement, one call *)
Theorem noimp_step pb nt b mx me lb ni :
  dispatchp pb (Step nt) (NoImp b mx me lb ni) =
  let c' := b_calls b + 1 in
  if me <? c' then
    if gt_opt pb lb then (NoImp (base_step nt b) mx me pb 0, true)
    else (NoImp (base_step nt b) mx me pb (ni + 1), negb (mx <? ni + 1))
  else (NoImp (base_step nt b) mx me pb ni, true).
Proof. reflexivity. Qed.

Theorem noimp_stops_iff pb nt b mx me lb ni :
  snd (dispatchp pb (Step nt) (NoImp b mx me lb ni)) = false <->
  me < b_calls b + 1 /\ gt_opt pb lb = false /\ mx < ni + 1.
Proof.
  rewrite noimp_step. cbn zeta. destruct (me <? b_calls b + 1) eqn:A.
  - apply Z.ltb_lt in A. destruct (gt_opt pb lb); cbn [snd].
    + split; [discriminate | intros (_ & H & _); discriminate H].
    + rewrite negb_false_iff, Z.ltb_lt. tauto.
  - apply Z.ltb_ge in A. cbn [snd]. split; [discriminate | intros (H & _); lia].
Qed.

(* ConvertCallback(function): the function is called at every step it is delivered, with the step's counters *)
Theorem conv_run : forall evs b stop log,
  run evs (Conv b stop log) =
  Conv (base_after b evs) stop (log ++ filter (fun x => e_kind x =? 2) (rec_entries b evs)).
Proof.
  induction evs as [|e evs IH]; intros b stop log.
  - cbn. rewrite app_nil_r. reflexivity.
  - unfold run in *. cbn [fold_left base_after rec_entries].
    destruct e; cbn [dispatchp fst]; rewrite IH; cbn [base_ev kind_of app filter log_entry e_kind Z.eqb];
      rewrite <- ?app_assoc; reflexivity.
Qed.

Theorem conv_stops_iff pb nt b stop log :
  snd (dispatchp pb (Step nt) (Conv b stop log)) = false <-> b_calls b + 1 = stop.
Proof. cbn [dispatchp snd base_step b_calls]. rewrite negb_false_iff, Z.eqb_eq. reflexivity. Qed.

(* EveryNTimesteps *)
Fixpoint trig (n last : Z) (nts : list Z) : list Z :=
  match nts with
  | [] => []
  | nt :: r => if everyn_fires nt last n then nt :: trig n nt r else trig n last r
  end.

Fixpoint trig_last (n last : Z) (nts : list Z) : Z :=
  match nts with
  | [] => last
  | nt :: r => if everyn_fires nt last n then trig_last n nt r else trig_last n last r
  end.

Definition everyn_state (c : cb) : Z * list Z := match c with EveryN _ _ last fired _ => (last, fired) | _ => (0, []) end.

Lemma dispatch_everyn_shape e b n last fired ch :
  exists ch',
    fst (dispatch e (EveryN b n last fired ch)) =
    match e with
    | Step nt => if everyn_fires nt last n then EveryN (base_ev e b) n nt (fired ++ [nt]) ch'
                 else EveryN (base_ev e b) n last fired ch
    | _ => EveryN (base_ev e b) n last fired ch'
    end.
Proof.
  destruct e; cbn [dispatchp base_ev fst]; try (eexists; reflexivity).
  destruct (everyn_fires nt last n); [exists (fst (dispatch (Step nt) ch)) | exists ch]; reflexivity.
Qed.

(* fires iff num_timesteps - last_time_trigger >= n, for every history of events and every child *)
Theorem everyN_cadence : forall evs b n last fired ch,
  everyn_state (run evs (EveryN b n last fired ch)) =
  (trig_last n last (steps_of evs), fired ++ trig n last (steps_of evs)).
Proof.
  induction evs as [|e evs IH]; intros b n last fired ch.
  - cbn. rewrite app_nil_r. reflexivity.
  - unfold run in *. cbn [fold_left].
    destruct (dispatch_everyn_shape e b n last fired ch) as (ch' & E). rewrite E.
    destruct e; cbn [steps_of]; try apply IH.
    cbn [trig trig_last]. destruct (everyn_fires nt last n); rewrite IH; [rewrite <- app_assoc|]; reflexivity.
Qed.

(* the child of an EveryNTimesteps is stepped only when it fires; rollout / training-end events are not forwarded *)
Theorem event_child_on_trigger_only nt b n last fired ch :
  (everyn_fires nt last n = false ->
     dispatch (Step nt) (EveryN b n last fired ch) = (EveryN (base_step nt b) n last fired ch, true)) /\
  (everyn_fires nt last n = true ->
     dispatch (Step nt) (EveryN b n last fired ch) =
     (EveryN (base_step nt b) n nt (fired ++ [nt]) (fst (dispatch (Step nt) ch)), snd (dispatch (Step nt) ch))) /\
  (forall e, e = RS \/ e = RE \/ e = TE -> dispatch e (EveryN b n last fired ch) = (EveryN b n last fired ch, true)).
Proof.
  cbn [dispatchp]. repeat split.
  - intros ->. reflexivity.
  - intros ->. reflexivity.
  - intros e [E | [E | E]]; subst e; reflexivity.
Qed.

(* timesteps nt+ne, nt+2ne, ..., nt+k*ne *)
Fixpoint prog (nt ne : Z) (k : nat) : list Z :=
  match k with O => [] | S k' => (nt + ne) :: prog (nt + ne) ne k' end.

Fixpoint gaps_ok (n ne last : Z) (l : list Z) : Prop :=
  match l with [] => True | x :: r => (n <= x - last < n + ne) /\ gaps_ok n ne x r end.

(* when the kept trigger time is not in the future, consecutive triggers are between n and n+n_envs-1 apart *)
Theorem everyN_gaps n ne : 1 <= n -> 1 <= ne -> forall k nt last,
  last <= nt -> nt - last < n -> gaps_ok n ne last (trig n last (prog nt ne k)).
Proof.
  intros Hn Hne. induction k as [|k IH]; intros nt last H1 H2; [exact I|].
  cbn [prog trig]. unfold everyn_fires. destruct (n <=? nt + ne - last) eqn:E.
  - cbn [gaps_ok]. split; [lia|]. apply IH; lia.
  - apply IH; lia.
Qed.

(* ... and it cannot starve: n timesteps after the kept trigger time it has fired *)
Theorem everyN_fires_within_n n ne : 1 <= n -> 1 <= ne -> forall k nt last,
  last <= nt -> nt - last < n -> n <= nt + Z.of_nat k * ne - last -> trig n last (prog nt ne k) <> [].
Proof.
  intros Hn Hne. induction k as [|k IH]; intros nt last H1 H2 H3; [lia|].
  cbn [prog trig]. unfold everyn_fires. destruct (n <=? nt + ne - last) eqn:E; [discriminate|].
  apply IH; lia.
Qed.

(* StopTrainingOnMaxEpisodes *)
Fixpoint dones_seen (b : base) (evs : list event) : Z :=
  match evs with
  | [] => 0
  | e :: r => (if is_step e then ndones_of b else 0) + dones_seen (base_ev e b) r
  end.

Definition maxep_state (c : cb) : Z := match c with MaxEp _ _ neps => neps | _ => 0 end.

Theorem maxep_counts : forall evs b total neps,
  run evs (MaxEp b total neps) = MaxEp (base_after b evs) total (neps + dones_seen b evs).
Proof.
  induction evs as [|e evs IH]; intros b total neps.
  - cbn. f_equal. lia.
  - unfold run in *. cbn [fold_left base_after dones_seen].
    destruct e; cbn [dispatchp fst is_step]; rewrite IH; cbn [base_ev]; f_equal; lia.
Qed.

Theorem maxep_stops_iff nt b total neps :
  snd (dispatch (Step nt) (MaxEp b total neps)) = false <-> total <= neps + ndones_of b.
Proof. cbn [dispatchp snd]. rewrite Z.ltb_ge. reflexivity. Qed.

(* ------------------------------------------------------------------ enough fuel: the loops are not cut short *)
(* with at least n - steps units of fuel an on-policy rollout (or an off-policy one with train_freq in steps) is never cut by the fuel:
   the exhaustion flag is untouched and, unless a Step returned False, exactly n - steps further env steps are taken *)
Lemma rollout_enough_fuel ne n (onp : bool) : forall fuel steps eps s s' cont tr,
  0 <= steps <= n -> (Z.to_nat (n - steps) <= fuel)%nat ->
  rollout fuel ne (if onp then OnPol n else OffStep n) steps eps s = (s', cont, tr) ->
  d_exh s' = d_exh s /\
  (cont = true -> d_stamp s' = d_stamp s + (n - steps) /\ d_nt s' = d_nt s + (n - steps) * ne).
Proof.
  induction fuel as [|f IH]; intros steps eps s s' cont tr Hs Hf H; cbn [rollout] in H.
  - assert (E : more (if onp then OnPol n else OffStep n) steps eps = false) by (destruct onp; cbn; lia).
    rewrite E in H. inv H. cbn. split; [reflexivity|]. intros _. assert (Z0 : n - steps = 0) by lia. rewrite Z0. split; lia.
  - destruct (more (if onp then OnPol n else OffStep n) steps eps) eqn:M.
    + assert (Hlt : steps < n) by (destruct onp; cbn in M; lia).
      destruct (snd (dispatch (Step (d_nt s + ne)) (fst (dispatch (UL (d_stamp s + 1) (hd 0 (d_dones s))) (d_cb s))))) eqn:R.
      * match type of H with context [rollout ?a ?b ?c ?d ?e ?g] => destruct (rollout a b c d e g) as [[s2 c2] tr2] eqn:E end.
        inv H. apply IH in E; [|lia|lia]. cbn [d_exh d_stamp d_nt] in E. destruct E as [A B].
        split; [exact A|]. intros C. destruct (B C) as [B1 B2]. split; [lia | rewrite B2; ring].
      * inv H. cbn. split; [reflexivity | discriminate].
    + inv H. cbn. assert (Z0 : n - steps = 0) by (destruct onp; cbn in M; lia). rewrite Z0. split; [reflexivity|]. intros _. split; lia.
Qed.

(* the learn() loop: with rollouts of n >= 1 steps, n_envs >= 1, rollout fuel >= n and loop fuel >= total - num_timesteps the run is
   not cut by the fuel, and unless some Step returned False it continues until num_timesteps >= total *)
Lemma learn_loop_enough_fuel rf ne n (onp : bool) total : 1 <= n -> 1 <= ne -> (Z.to_nat n <= rf)%nat ->
  forall fuel s s' tr, (Z.to_nat (total - d_nt s) <= fuel)%nat ->
  learn_loop fuel rf ne (if onp then OnPol n else OffStep n) total s = (s', tr) ->
  d_exh s' = d_exh s /\ ((forall e, ~ In (e, false) tr) -> total <= d_nt s').
Proof.
  intros Hn Hne Hrf. induction fuel as [|f IH]; intros s s' tr Hf H; cbn [learn_loop] in H.
  - destruct (d_nt s <? total) eqn:L; [lia|]. inv H. split; [reflexivity | intros _; lia].
  - destruct (d_nt s <? total) eqn:L; [|inv H; split; [reflexivity | intros _; lia]].
    match type of H with context [rollout ?a ?b ?c ?d ?e ?g] => destruct (rollout a b c d e g) as [[s2 c2] tr2] eqn:E end.
    pose proof E as G. apply rollout_grammar in G. cbn [d_nt d_stamp] in G. destruct G as (pre & nt' & st' & _ & _ & Gf).
    apply rollout_enough_fuel in E; [|lia|lia]. cbn [d_exh d_stamp d_nt] in E. destruct E as [A B].
    destruct c2.
    + destruct (learn_loop f rf ne (if onp then OnPol n else OffStep n) total s2) as [s3 tr3] eqn:E3. inv H.
      destruct (B eq_refl) as [_ B2].
      apply IH in E3; [|nia]. destruct E3 as [A3 C3]. split; [congruence|].
      intros NF. apply C3. intros e I. apply (NF e). right. apply in_or_app. right. exact I.
    + inv H. split; [exact A|]. intros NF. exfalso. destruct (Gf eq_refl) as (nd & -> & _).
      apply (NF (Step (nt' + ne))). right. apply in_or_app. right. right. left. reflexivity.
Qed.

Theorem learn_enough_fuel fuel rf ne n (onp : bool) total reset dones s s' tr :
  1 <= n -> 1 <= ne -> (Z.to_nat n <= rf)%nat ->
  (Z.to_nat (snd (setup reset (d_nt s) total) - fst (setup reset (d_nt s) total)) <= fuel)%nat ->
  learn fuel rf ne (if onp then OnPol n else OffStep n) total reset dones s = (s', tr) ->
  d_exh s' = d_exh s /\
  ((forall e, ~ In (e, false) tr) -> snd (setup reset (d_nt s) total) <= d_nt s').
Proof.
  intros Hn Hne Hrf Hf. unfold learn. destruct (setup reset (d_nt s) total) as [nt0 total'] eqn:S. cbn [fst snd] in Hf.
  match goal with |- context [learn_loop ?a ?b ?c ?d ?e ?g] => destruct (learn_loop a b c d e g) as [s1 tr1] eqn:E end.
  intros H. inv H. apply (learn_loop_enough_fuel rf ne n onp total' Hn Hne Hrf) in E; [|exact Hf].
  cbn [d_exh d_nt] in *. destruct E as [A B]. split; [exact A|].
  intros NF. apply B. intros e I. apply (NF e). right. apply in_or_app. left. exact I.
Qed.

(* ------------------------------------------------------------------ locals are forwarded with every update_locals *)
(* update_locals reaches every node except the subtree below callback_on_new_best: lists forward to every child, EveryNTimesteps and
   EvalCallback (callback_after_eval) to their child; a recorder then holds the stamp of that very env step *)
Theorem ul_forwarding pb s d :
  (forall b stop log, dispatchp pb (UL s d) (Rec b stop log) = (Rec (base_ul s d b) stop log, true)) /\
  (forall b l, fst (dispatchp pb (UL s d) (CList b l)) = CList (base_ul s d b) (map (fun c => fst (dispatchp pb (UL s d) c)) l)) /\
  (forall b n last fired ch, fst (dispatchp pb (UL s d) (EveryN b n last fired ch)) = EveryN (base_ul s d b) n last fired (fst (dispatchp pb (UL s d) ch))) /\
  (forall b f best evals dn ob af,
     fst (dispatchp pb (UL s d) (EvalC b f best evals dn ob af)) = EvalC (base_ul s d b) f best evals dn ob (fst (dispatchp pb (UL s d) af))).
Proof.
  repeat split; intros; try reflexivity. rewrite dispatchp_clist. reflexivity.
Qed.

(* hence a recorder that is delivered update_locals for env step s and then the step event logs stamp s *)
Theorem step_after_ul_sees_that_step pb s d nt b stop log :
  let r := fst (dispatchp pb (Step nt) (fst (dispatchp pb (UL s d) (Rec b stop log)))) in
  exists b', r = Rec b' stop (log ++ [mkE 2 (b_calls b + 1) nt s]).
Proof. cbn. eexists. reflexivity. Qed.

(* ------------------------------------------------------------------ model mutation score: pins *)

(* a first learn(reset_num_timesteps=False) on a fresh model starts at num_timesteps = 0 and env-step stamp 0
   (init_dst), and the observation function shows StopTrainingOnMaxEpisodes as (5, n_calls, num_timesteps, [(8, 0, 0, n_episodes)]) *)
Example init_and_show_pins :
  run_case 2 (OnPol 2) [mkCall 4 false [0; 1]] (clist [rec_ 0; maxep 1 2]) =
  ([[(0, 0, 0, true); (1, 0, 0, true); (9, 1, 0, true); (2, 2, 0, true); (9, 2, 1, true); (2, 4, 0, true); (3, 0, 0, true); (4, 0, 0, true)]],
   [(1, 2, 4, []);
    (0, 2, 4, [(0, 0, 0, -1); (1, 0, 0, -1); (2, 1, 2, 1); (2, 2, 4, 2); (3, 2, 4, 2); (4, 2, 4, 2)]);
    (5, 2, 4, [(8, 0, 0, 1)])],
   (4, 2, false)).
Proof. vm_compute. reflexivity. Qed.

(* the rollout loop counts env steps and finished episodes upwards: train_freq = (2, "episode") with dones 0,1,0,1 | 0,0,1,1
   gives two rollouts of four steps; train_freq = (3, "step") gives rollouts of three steps *)
Example rollout_counters_pins :
  (let r := learns 50 50 1 (OffEpis 2) [mkCall 5 true [0; 1; 0; 1; 0; 0; 1; 1]] (init_dst Nop) in
   map (fun tr => map (fun e => fst (fst (fst (ev_code e)))) tr) (snd r) =
     [[0; 1; 9; 2; 9; 2; 9; 2; 9; 2; 3; 1; 9; 2; 9; 2; 9; 2; 9; 2; 3; 4]] /\ d_nt (fst r) = 8 /\ d_exh (fst r) = false) /\
  (let r := learns 50 50 1 (OffStep 3) [mkCall 5 true []] (init_dst Nop) in
   map (fun tr => map (fun e => fst (fst (fst (ev_code e)))) tr) (snd r) =
     [[0; 1; 9; 2; 9; 2; 9; 2; 3; 1; 9; 2; 9; 2; 9; 2; 3; 4]] /\ d_nt (fst r) = 6 /\ d_exh (fst r) = false).
Proof. vm_compute. repeat split; reflexivity. Qed.

(* the observation function of CheckpointCallback / EvalCallback: one entry (kind, n_calls, num_timesteps, 0) per save / evaluation,
   after the EvalCallback's best-mean entry (6, 0, best, 1) *)
Example observe_pairs_pins :
  pairs_to_entries 7 [(2, 3); (4, 5)] = [mkE 7 2 3 0; mkE 7 4 5 0] /\
  snd (fst (run_case 1 (OnPol 2) [mkCall 4 true []] (clist [checkpoint 2; eval_ 3 [5; 1] Nop Nop]))) =
  [(1, 4, 4, []); (4, 4, 4, [(7, 2, 2, 0); (7, 4, 4, 0)]); (3, 4, 4, [(6, 0, 5, 1); (6, 3, 3, 0)])].
Proof. split; vm_compute; reflexivity. Qed.
