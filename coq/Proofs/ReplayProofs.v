(* C03 - proofs about the replay-buffer model, for every capacity, n_envs and history. *)
From SB3V Require Import Lib.Tactics Gen.Frag_replay Model.Replay.
Local Open Scope Z_scope.

(* ------------------------------------------------------------------ interface lemmas *)
Lemma frag_add_cursor p c f : rb_add_cursor p c f = add_cursor p c f.
Proof. unfold rb_add_cursor, add_cursor. destruct (p + 1 =? c); reflexivity. Qed.
Lemma frag_dict_add_cursor p c f : dictrb_add_cursor p c f = add_cursor p c f.
Proof. unfold dictrb_add_cursor, add_cursor. destruct (p + 1 =? c); reflexivity. Qed.

Lemma frag_size b : rb_size (full b) (cap b) (pos b) = size b.
Proof. reflexivity. Qed.

Lemma frag_capacity bs n : rb_capacity bs n = capacity bs n.
Proof. reflexivity. Qed.
Lemma frag_dict_capacity bs n : dictrb_capacity bs n = capacity bs n.
Proof. reflexivity. Qed.

(* the bounds of the index draw are the regenerated ARGUMENTS of the randint call of the taken branch *)
Lemma frag_sample_bounds b :
  let ub := rb_upper_bound (full b) (cap b) (pos b) in
  sample_bounds b =
  if rb_sample_not_memopt (memopt b)
  then (rb_base_lo (full b) (cap b) (pos b) (nenv b) ub, rb_base_hi (full b) (cap b) (pos b) (nenv b) ub)
  else if full b
       then (rb_memopt_full_lo (full b) (cap b) (pos b) (nenv b) ub, rb_memopt_full_hi (full b) (cap b) (pos b) (nenv b) ub)
       else (rb_memopt_notfull_lo (full b) (cap b) (pos b) (nenv b) ub, rb_memopt_notfull_hi (full b) (cap b) (pos b) (nenv b) ub).
Proof.
  cbn zeta. unfold sample_bounds, rb_sample_not_memopt, rb_upper_bound, rb_base_lo, rb_base_hi, rb_memopt_full_lo, rb_memopt_full_hi,
    rb_memopt_notfull_lo, rb_memopt_notfull_hi.
  destruct (memopt b); destruct (full b); reflexivity.
Qed.

(* d = the value drawn by the randint call of the taken branch *)
Lemma frag_idx_of_draw b d :
  idx_of_draw b d =
  if rb_sample_not_memopt (memopt b) then rb_base_index d
  else rb_memopt_index (full b) d (pos b) (cap b).
Proof.
  unfold idx_of_draw, rb_sample_not_memopt, rb_base_index, rb_memopt_index.
  destruct (memopt b); destruct (full b); reflexivity.
Qed.

Lemma frag_env_bounds b ub :
  env_bounds b = (rb_env_lo (full b) (cap b) (pos b) (nenv b) ub, rb_env_hi (full b) (cap b) (pos b) (nenv b) ub) /\
  env_bounds b = (dictrb_env_lo (full b) (cap b) (pos b) (nenv b) ub, dictrb_env_hi (full b) (cap b) (pos b) (nenv b) ub).
Proof. split; reflexivity. Qed.

(* every array of _get_samples is gathered at the same (slot, env) pair - the drawn ones; the memory-optimised next
   observation at ((slot + 1) % capacity, env); the Dict variant reads next observations from next_observations *)
Lemma frag_gather i ev c :
  Forall (fun f => f i ev c = i)
    [rb_gather_obs_slot; rb_gather_act_slot; rb_gather_done_slot; rb_gather_to_slot; rb_gather_rew_slot; rb_gather_next_slot;
     dictrb_gather_act_slot; dictrb_gather_done_slot; dictrb_gather_to_slot; dictrb_gather_rew_slot; dictrb_gather_obs_slot; dictrb_gather_next_slot] /\
  Forall (fun f => f i ev c = ev)
    [rb_gather_obs_env; rb_gather_act_env; rb_gather_done_env; rb_gather_to_env; rb_gather_rew_env; rb_gather_next_env; rb_memopt_next_env;
     dictrb_gather_act_env; dictrb_gather_done_env; dictrb_gather_to_env; dictrb_gather_rew_env; dictrb_gather_obs_env; dictrb_gather_next_env] /\
  rb_memopt_next_index i ev c = (i + 1) mod c /\ dictrb_gather_obs_source = 1 /\ dictrb_gather_next_source = 2.
Proof. repeat split; repeat constructor. Qed.

(* add(): every field is written at slot pos from the argument of the same name (1 obs, 2 next_obs, 3 action, 4 reward, 5 done);
   the memory-optimised variant writes next_obs into observations[(pos + 1) % capacity] *)
Lemma frag_add_fields p c :
  Forall (fun f => f p c = p)
    [rb_add_obs_slot; rb_add_next_slot; rb_add_act_slot; rb_add_rew_slot; rb_add_done_slot; rb_add_to_slot;
     dictrb_add_obs_slot; dictrb_add_next_slot; dictrb_add_act_slot; dictrb_add_rew_slot; dictrb_add_done_slot; dictrb_add_to_slot] /\
  rb_memopt_write_index p c = (p + 1) mod c /\
  (rb_add_obs_src, rb_memopt_write_src, rb_add_next_src, rb_add_act_src, rb_add_rew_src, rb_add_done_src) = (1, 2, 2, 3, 4, 5) /\
  (dictrb_add_act_src, dictrb_add_rew_src, dictrb_add_done_src) = (3, 4, 5).
Proof. repeat split; repeat constructor. Qed.

Lemma frag_done_mask d t : rb_done_mask d t = done_mask d t /\ dictrb_done_mask d t = done_mask d t.
Proof. unfold rb_done_mask, dictrb_done_mask, done_mask. split; ring. Qed.

(* _get_samples: third component (next observation) through the regenerated branch / index *)
Lemma frag_get_next b i e :
  snd (fst (fst (get b i e))) =
  if rb_memopt_next_branch (memopt b) then a_obs b (rb_memopt_next_index i (Z.of_nat e) (cap b)) e else a_next b i e.
Proof. reflexivity. Qed.

Lemma frag_get_done b i e :
  snd (fst (get b i e)) = rb_done_mask (a_done b i e) (a_to b i e).
Proof. unfold get; cbn [fst snd]. unfold rb_done_mask, done_mask. ring. Qed.

(* add(): the observation array after the add, through the regenerated branch / write index / cursor *)
Lemma frag_add_obs b r :
  a_obs (add b r) =
  let o1 := upd (a_obs b) (pos b) (fun e => t_obs (col e r)) in
  if rb_add_memopt_branch (memopt b)
  then upd o1 (rb_memopt_write_index (pos b) (cap b)) (fun e => t_next (col e r)) else o1.
Proof. unfold add. destruct (add_cursor (pos b) (cap b) (full b)). reflexivity. Qed.

Lemma frag_add_to b r :
  a_to (add b r) =
  if rb_add_timeout_branch (hto b) then upd (a_to b) (pos b) (fun e => Z.b2z (t_to (col e r))) else a_to b.
Proof. unfold add. destruct (add_cursor (pos b) (cap b) (full b)). reflexivity. Qed.
Lemma frag_dict_add_to b r :
  a_to (add b r) =
  if dictrb_add_timeout_branch (hto b) then upd (a_to b) (pos b) (fun e => Z.b2z (t_to (col e r))) else a_to b.
Proof. unfold add. destruct (add_cursor (pos b) (cap b) (full b)). reflexivity. Qed.

Lemma frag_add_pos_full b r :
  (pos (add b r), full (add b r)) = rb_add_cursor (pos b) (cap b) (full b).
Proof. rewrite frag_add_cursor. unfold add. destruct (add_cursor (pos b) (cap b) (full b)). reflexivity. Qed.

(* ------------------------------------------------------------------ arithmetic of the ring *)
Lemma mod_succ c n : 0 < c -> 0 <= n ->
  (n + 1) mod c = if n mod c + 1 =? c then 0 else n mod c + 1.
Proof.
  intros Hc Hn. rewrite <- Zplus_mod_idemp_l.
  pose proof (Z.mod_pos_bound n c Hc) as Hb.
  destruct (n mod c + 1 =? c) eqn:E.
  - apply Z.eqb_eq in E. rewrite E. apply Z_mod_same_full.
  - apply Z.eqb_neq in E. apply Z.mod_small. lia.
Qed.

Lemma mod_inj_window c a b : 0 < c -> a mod c = b mod c -> Z.abs (a - b) < c -> a = b.
Proof.
  intros Hc Hm Hab.
  assert (Hz : (a - b) mod c = 0).
  { rewrite Zminus_mod, Hm, Z.sub_diag. apply Z.mod_0_l. lia. }
  apply Z.mod_divide in Hz; [|lia]. destruct Hz as [z Hz].
  assert (z = 0) by nia. subst z. lia.
Qed.

Lemma mod_shift c n d : 0 < c -> (n - c + d) mod c = (d + n mod c) mod c.
Proof.
  intros Hc. replace (n - c + d) with (d + n + (-1) * c) by ring.
  rewrite Z_mod_plus_full. rewrite Zplus_mod_idemp_r. reflexivity.
Qed.

(* ------------------------------------------------------------------ the invariant *)
Definition rowZ (h : list row) (k : Z) : row := nth (Z.to_nat k) h [].
Definition len (h : list row) : Z := Z.of_nat (length h).

(* slots of the window [lo, len h) hold field f of the add with that number *)
Definition holds (a : arr Z) (c : Z) (h : list row) (lo : Z) (f : trans -> Z) : Prop :=
  forall k e, 0 <= k -> lo <= k < len h -> a (k mod c) e = f (col e (rowZ h k)).

Lemma len_snoc h r : len (h ++ [r]) = len h + 1.
Proof. unfold len. rewrite app_length. simpl. lia. Qed.

Lemma rowZ_snoc_old h r k : 0 <= k < len h -> rowZ (h ++ [r]) k = rowZ h k.
Proof. unfold rowZ, len. intros H. apply app_nth1. lia. Qed.

Lemma rowZ_snoc_new h r : rowZ (h ++ [r]) (len h) = r.
Proof. unfold rowZ, len. rewrite Nat2Z.id. apply nth_middle. Qed.

Lemma holds_add a c h lo lo' f r :
  0 < c -> holds a c h lo f -> lo <= lo' -> len h + 1 - c <= lo' ->
  holds (upd a (len h mod c) (fun e => f (col e r))) c (h ++ [r]) lo' f.
Proof.
  intros Hc H Hlo Hw k e Hk0 Hk. rewrite len_snoc in Hk. unfold upd.
  destruct (Z.eq_dec k (len h)) as [->|Hne].
  - rewrite Z.eqb_refl, rowZ_snoc_new. reflexivity.
  - destruct (k mod c =? len h mod c) eqn:E.
    + apply Z.eqb_eq in E. apply mod_inj_window in E; [contradiction|lia|lia].
    + rewrite rowZ_snoc_old by lia. apply H; lia.
Qed.

Lemma holds_upd_other a c h lo f j g :
  holds a c h lo f -> (forall k, 0 <= k -> lo <= k < len h -> k mod c <> j) ->
  holds (upd a j g) c h lo f.
Proof.
  intros H Hj k e Hk0 Hk. unfold upd.
  destruct (k mod c =? j) eqn:E; [apply Z.eqb_eq in E; exfalso; eapply Hj; eauto|].
  apply H; assumption.
Qed.

Lemma holds_nil a c lo f : holds a c [] lo f.
Proof. intros k e Hk0 Hk. unfold len in Hk. simpl in Hk. lia. Qed.

Record Inv (b : rb) (h : list row) : Prop := {
  i_cap : 0 < cap b;
  i_pos : pos b = len h mod cap b;
  i_full : full b = (cap b <=? len h);
  i_cfg : memopt b && hto b = false;
  i_to0 : hto b = false -> forall j e, a_to b j e = 0;
  i_act : holds (a_act b) (cap b) h (len h - cap b) t_act;
  i_rew : holds (a_rew b) (cap b) h (len h - cap b) t_rew;
  i_done : holds (a_done b) (cap b) h (len h - cap b) (fun t => Z.b2z (t_done t));
  i_to : hto b = true -> holds (a_to b) (cap b) h (len h - cap b) (fun t => Z.b2z (t_to t));
  i_obs : memopt b = false -> holds (a_obs b) (cap b) h (len h - cap b) t_obs;
  i_next : memopt b = false -> holds (a_next b) (cap b) h (len h - cap b) t_next;
  i_mobs : memopt b = true -> holds (a_obs b) (cap b) h (len h - cap b + 1) t_obs;
  i_mnext : memopt b = true -> 0 < len h ->
            forall e, a_obs b (len h mod cap b) e = t_next (col e (rowZ h (len h - 1)))
}.

Lemma len_nonneg h : 0 <= len h.
Proof. unfold len. lia. Qed.

Lemma inv_create dict bs n mo ht b : create dict bs n mo ht = Some b -> Inv b [].
Proof.
  unfold create. destruct (mo && (ht || dict)) eqn:E; [discriminate|].
  intros H; inv H. constructor; cbn [cap pos full memopt hto a_obs a_next a_act a_rew a_done a_to];
    try (intros; apply holds_nil); try apply holds_nil.
  - unfold capacity. lia.
  - unfold len. simpl. rewrite Z.mod_0_l; [reflexivity|unfold capacity; lia].
  - unfold len. simpl. unfold capacity. lia.
  - destruct mo, ht; simpl in *; try reflexivity; discriminate.
  - reflexivity.
  - intros _ H. unfold len in H. simpl in H. lia.
Qed.

Lemma inv_reset b h : Inv b h -> Inv (reset b) [].
Proof.
  intros I. pose proof (i_cap _ _ I) as Hc.
  constructor; cbn [reset cap pos full memopt hto a_obs a_next a_act a_rew a_done a_to];
    try (intros; apply holds_nil); try apply holds_nil.
  - exact Hc.
  - unfold len. simpl. rewrite Z.mod_0_l; [reflexivity|lia].
  - unfold len. simpl. lia.
  - apply (i_cfg _ _ I).
  - apply (i_to0 _ _ I).
  - intros _ H. unfold len in H. simpl in H. lia.
Qed.

Lemma add_fields b r :
  add b r =
  mkRB (cap b) (nenv b) (memopt b) (hto b)
       (fst (add_cursor (pos b) (cap b) (full b))) (snd (add_cursor (pos b) (cap b) (full b)))
       (if memopt b then upd (upd (a_obs b) (pos b) (fun e => t_obs (col e r))) ((pos b + 1) mod cap b) (fun e => t_next (col e r))
        else upd (a_obs b) (pos b) (fun e => t_obs (col e r)))
       (if memopt b then a_next b else upd (a_next b) (pos b) (fun e => t_next (col e r)))
       (upd (a_act b) (pos b) (fun e => t_act (col e r)))
       (upd (a_rew b) (pos b) (fun e => t_rew (col e r)))
       (upd (a_done b) (pos b) (fun e => Z.b2z (t_done (col e r))))
       (if hto b then upd (a_to b) (pos b) (fun e => Z.b2z (t_to (col e r))) else a_to b).
Proof. unfold add. destruct (add_cursor (pos b) (cap b) (full b)). reflexivity. Qed.

Lemma inv_add b h r : Inv b h -> Inv (add b r) (h ++ [r]).
Proof.
  intros I. pose proof (i_cap _ _ I) as Hc. pose proof (len_nonneg h) as Hn.
  pose proof (i_pos _ _ I) as Hp. pose proof (Z.mod_pos_bound (len h) (cap b) Hc) as Hb.
  rewrite add_fields.
  constructor; cbn [cap pos full memopt hto a_obs a_next a_act a_rew a_done a_to]; rewrite ?len_snoc.
  - exact Hc.
  - unfold add_cursor. rewrite mod_succ by lia. rewrite Hp.
    destruct (len h mod cap b + 1 =? cap b); reflexivity.
  - unfold add_cursor. rewrite Hp, (i_full _ _ I).
    destruct (len h mod cap b + 1 =? cap b) eqn:E; cbn [snd].
    + apply Z.eqb_eq in E. symmetry. apply Z.leb_le. pose proof (Z.mod_le (len h) (cap b) Hn Hc). lia.
    + apply Z.eqb_neq in E.
      destruct (Z.leb_spec (cap b) (len h)); destruct (Z.leb_spec (cap b) (len h + 1)); try reflexivity; try lia.
      rewrite Z.mod_small in E by lia. lia.
  - apply (i_cfg _ _ I).
  - intros Hh. rewrite Hh. apply (i_to0 _ _ I Hh).
  - rewrite Hp. apply (holds_add _ _ _ (len h - cap b)); [lia|apply (i_act _ _ I)|lia|lia].
  - rewrite Hp. apply (holds_add _ _ _ (len h - cap b)); [lia|apply (i_rew _ _ I)|lia|lia].
  - rewrite Hp. apply (holds_add _ _ _ (len h - cap b) _ (fun t => Z.b2z (t_done t))); [lia|apply (i_done _ _ I)|lia|lia].
  - intros Hh. rewrite Hh, Hp.
    apply (holds_add _ _ _ (len h - cap b) _ (fun t => Z.b2z (t_to t))); [lia|apply (i_to _ _ I Hh)|lia|lia].
  - intros Hm. rewrite Hm, Hp. apply (holds_add _ _ _ (len h - cap b)); [lia|apply (i_obs _ _ I Hm)|lia|lia].
  - intros Hm. rewrite Hm, Hp. apply (holds_add _ _ _ (len h - cap b)); [lia|apply (i_next _ _ I Hm)|lia|lia].
  - intros Hm. rewrite Hm, Hp. apply holds_upd_other.
    + apply (holds_add _ _ _ (len h - cap b + 1)); [lia|apply (i_mobs _ _ I Hm)|lia|lia].
    + intros k Hk0 Hk. rewrite len_snoc in Hk. rewrite Zplus_mod_idemp_l. intros E.
      apply mod_inj_window in E; lia.
  - intros Hm _ e. rewrite Hm, Hp. rewrite Zplus_mod_idemp_l. unfold upd at 1. rewrite Z.eqb_refl.
    replace (len h + 1 - 1) with (len h) by ring. rewrite rowZ_snoc_new. reflexivity.
Qed.

Theorem inv_run_gen ops : forall b h, Inv b h -> Inv (fold_left step ops b) (fold_left recent_step ops h).
Proof.
  induction ops as [|o ops IH]; intros b h I; simpl; [exact I|].
  apply IH. destruct o; simpl; [apply inv_add; exact I|eapply inv_reset; exact I].
Qed.

Theorem inv_run dict bs n mo ht b0 ops :
  create dict bs n mo ht = Some b0 -> Inv (run b0 ops) (recent ops).
Proof. intros H. apply inv_run_gen. eapply inv_create; exact H. Qed.

(* ------------------------------------------------------------------ ring invariant, size *)
Theorem ring_inv b h : Inv b h ->
  0 <= pos b < cap b /\ pos b = len h mod cap b /\ full b = (cap b <=? len h) /\
  size b = Z.min (len h) (cap b).
Proof.
  intros I. pose proof (i_cap _ _ I) as Hc. pose proof (len_nonneg h) as Hn.
  pose proof (Z.mod_pos_bound (len h) (cap b) Hc) as Hb.
  rewrite (i_pos _ _ I). repeat split; try lia; try apply (i_full _ _ I).
  unfold size. rewrite (i_full _ _ I), (i_pos _ _ I).
  destruct (Z.leb_spec (cap b) (len h)); [lia|]. rewrite Z.mod_small by lia. lia.
Qed.

(* the done flag the property asks for *)
Definition done_flag (ht : bool) (t : trans) : Z := Z.b2z (t_done t && negb (ht && t_to t)).

Lemma done_mask_flag b h k e : Inv b h -> 0 <= k -> len h - cap b <= k < len h ->
  done_mask (a_done b (k mod cap b) e) (a_to b (k mod cap b) e) = done_flag (hto b) (col e (rowZ h k)).
Proof.
  intros I Hk0 Hk. rewrite (i_done _ _ I k e Hk0 Hk). unfold done_flag, done_mask.
  destruct (hto b) eqn:Hh.
  - rewrite (i_to _ _ I Hh k e Hk0 Hk).
    destruct (t_done (col e (rowZ h k))), (t_to (col e (rowZ h k))); reflexivity.
  - rewrite (i_to0 _ _ I Hh). destruct (t_done (col e (rowZ h k))); reflexivity.
Qed.

(* the add number stored in slot d when slots [0, min(n, c)) are in use *)
Definition add_of_slot (n c d : Z) : Z := if c <=? n then n - c + (d - (n - c)) mod c else d.

Lemma add_of_slot_spec n c d : 0 < c -> 0 <= n -> 0 <= d < Z.min n c ->
  0 <= add_of_slot n c d /\ n - c <= add_of_slot n c d < n /\ add_of_slot n c d mod c = d.
Proof.
  intros Hc Hn Hd. unfold add_of_slot. destruct (Z.leb_spec c n).
  - pose proof (Z.mod_pos_bound (d - (n - c)) c Hc). repeat split; try lia.
    rewrite Zplus_mod_idemp_r. replace (n - c + (d - (n - c))) with d by ring. apply Z.mod_small. lia.
  - repeat split; try lia. apply Z.mod_small. lia.
Qed.

(* ------------------------------------------------------------------ soundness of sampling *)
(* array / Dict variant (optimize_memory_usage = False) *)
Theorem sample_sound b h d e : Inv b h -> memopt b = false ->
  fst (sample_bounds b) <= d < snd (sample_bounds b) ->
  exists k, 0 <= k /\ len h - cap b <= k < len h /\ idx_of_draw b d = k mod cap b /\
    let t := col e (rowZ h k) in
    get b (idx_of_draw b d) e = (t_obs t, t_act t, t_next t, done_flag (hto b) t, t_rew t).
Proof.
  intros I Hm Hd. pose proof (i_cap _ _ I) as Hc. pose proof (len_nonneg h) as Hn.
  destruct (ring_inv _ _ I) as (_ & _ & _ & Hs).
  unfold sample_bounds, idx_of_draw in *. rewrite Hm in *. cbn [andb fst snd] in *.
  fold (size b) in Hd. rewrite Hs in Hd.
  destruct (add_of_slot_spec (len h) (cap b) d Hc Hn Hd) as (Hk0 & Hk & Hkm).
  exists (add_of_slot (len h) (cap b) d). repeat split; try lia.
  cbn zeta. unfold get. rewrite Hm. rewrite <- Hkm at 1 2 3 4 5 6.
  rewrite (i_obs _ _ I Hm _ e Hk0 Hk), (i_act _ _ I _ e Hk0 Hk), (i_next _ _ I Hm _ e Hk0 Hk),
    (i_rew _ _ I _ e Hk0 Hk), (done_mask_flag _ _ _ _ I Hk0 Hk). reflexivity.
Qed.

(* memory-optimised variant: the next observation is whatever observations[(i+1) % cap] holds *)
Definition memopt_next (h : list row) (k : Z) (e : nat) : Z :=
  if k + 1 <? len h then t_obs (col e (rowZ h (k + 1))) else t_next (col e (rowZ h k)).

Lemma memopt_draw_add b h d : Inv b h -> memopt b = true ->
  fst (sample_bounds b) <= d < snd (sample_bounds b) ->
  let k := if full b then len h - cap b + d else d in
  0 <= k /\ len h - cap b < k < len h /\ idx_of_draw b d = k mod cap b.
Proof.
  intros I Hm Hd. pose proof (i_cap _ _ I) as Hc. pose proof (len_nonneg h) as Hn.
  unfold sample_bounds, idx_of_draw in *. rewrite Hm in *. cbn [andb] in *.
  pose proof (i_full _ _ I) as Hf. pose proof (i_pos _ _ I) as Hp.
  destruct (full b); cbn [fst snd] in *; cbn zeta.
  - symmetry in Hf. apply Z.leb_le in Hf. repeat split; try lia.
    rewrite Hp. symmetry. apply mod_shift. lia.
  - symmetry in Hf. apply Z.leb_gt in Hf. rewrite Z.mod_small in Hp by lia.
    repeat split; try lia. symmetry. apply Z.mod_small. lia.
Qed.

Theorem sample_sound_memopt b h d e : Inv b h -> memopt b = true ->
  fst (sample_bounds b) <= d < snd (sample_bounds b) ->
  exists k, 0 <= k /\ len h - cap b < k < len h /\ idx_of_draw b d = k mod cap b /\
    let t := col e (rowZ h k) in
    get b (idx_of_draw b d) e = (t_obs t, t_act t, memopt_next h k e, done_flag (hto b) t, t_rew t).
Proof.
  intros I Hm Hd. pose proof (i_cap _ _ I) as Hc.
  destruct (memopt_draw_add _ _ _ I Hm Hd) as (Hk0 & Hk & Hi).
  set (k := if full b then len h - cap b + d else d) in *.
  exists k. repeat split; try lia. cbn zeta. rewrite Hi. unfold get. rewrite Hm.
  assert (Hk' : len h - cap b <= k < len h) by lia.
  assert (Hk'' : len h - cap b + 1 <= k < len h) by lia.
  rewrite (i_mobs _ _ I Hm _ e Hk0 Hk''), (i_act _ _ I _ e Hk0 Hk'),
    (i_rew _ _ I _ e Hk0 Hk'), (done_mask_flag _ _ _ _ I Hk0 Hk').
  rewrite Zplus_mod_idemp_l. unfold memopt_next.
  destruct (Z.ltb_spec (k + 1) (len h)).
  - rewrite (i_mobs _ _ I Hm (k + 1) e) by lia. reflexivity.
  - replace (k + 1) with (len h) by lia. rewrite (i_mnext _ _ I Hm) by lia.
    replace (len h - 1) with k by lia. reflexivity.
Qed.

(* observations chain inside an episode: what real collection produces *)
Definition chained (h : list row) (e : nat) : Prop :=
  forall k, 0 <= k -> k + 1 < len h -> t_done (col e (rowZ h k)) = false ->
            t_obs (col e (rowZ h (k + 1))) = t_next (col e (rowZ h k)).

Theorem memopt_next_chained h k e : chained h e -> 0 <= k ->
  t_done (col e (rowZ h k)) = false \/ len h <= k + 1 ->
  memopt_next h k e = t_next (col e (rowZ h k)).
Proof.
  intros Hch Hk0 H. unfold memopt_next. destruct (Z.ltb_spec (k + 1) (len h)); [|reflexivity].
  destruct H as [H|H]; [|lia]. apply Hch; assumption.
Qed.

(* the memory-optimised variant never hands out the slot at the write cursor, whose
   next observation (stored in the following add's obs slot ... which is this very slot's
   successor) has been overwritten *)
Theorem memopt_skips_overwritten b h d : Inv b h -> memopt b = true -> full b = true ->
  fst (sample_bounds b) <= d < snd (sample_bounds b) -> idx_of_draw b d <> pos b.
Proof.
  intros I Hm Hf Hd. pose proof (i_cap _ _ I) as Hc.
  destruct (ring_inv _ _ I) as (Hp & _).
  unfold sample_bounds, idx_of_draw in *. rewrite Hm, Hf in *. cbn [andb fst snd] in *.
  destruct (Z.ltb_spec (d + pos b) (cap b)).
  - rewrite Z.mod_small by lia. lia.
  - replace (d + pos b) with (d + pos b - cap b + 1 * cap b) by ring.
    rewrite Z_mod_plus_full. rewrite Z.mod_small by lia. lia.
Qed.

(* ------------------------------------------------------------------ completeness *)
Theorem sample_complete b h k : Inv b h -> memopt b = false ->
  0 <= k -> len h - cap b <= k < len h ->
  exists d, fst (sample_bounds b) <= d < snd (sample_bounds b) /\ idx_of_draw b d = k mod cap b.
Proof.
  intros I Hm Hk0 Hk. pose proof (i_cap _ _ I) as Hc.
  destruct (ring_inv _ _ I) as (_ & _ & _ & Hs).
  pose proof (Z.mod_pos_bound k (cap b) Hc) as Hb.
  exists (k mod cap b). unfold sample_bounds, idx_of_draw. rewrite Hm. cbn [andb fst snd].
  fold (size b). rewrite Hs. split; [|reflexivity].
  destruct (Z.le_gt_cases (cap b) (len h)); [lia|]. rewrite Z.mod_small by lia. lia.
Qed.

Theorem sample_complete_memopt b h k : Inv b h -> memopt b = true ->
  0 <= k -> len h - cap b < k < len h ->
  exists d, fst (sample_bounds b) <= d < snd (sample_bounds b) /\ idx_of_draw b d = k mod cap b.
Proof.
  intros I Hm Hk0 Hk. pose proof (i_cap _ _ I) as Hc. pose proof (len_nonneg h) as Hn.
  pose proof (i_full _ _ I) as Hf. pose proof (i_pos _ _ I) as Hp.
  unfold sample_bounds, idx_of_draw. rewrite Hm. cbn [andb].
  destruct (full b); cbn [fst snd].
  - symmetry in Hf. apply Z.leb_le in Hf. exists (k - (len h - cap b)). split; [lia|].
    rewrite Hp, <- mod_shift by lia. f_equal. ring.
  - symmetry in Hf. apply Z.leb_gt in Hf. rewrite Z.mod_small in Hp by lia.
    exists k. split; [lia|]. symmetry. apply Z.mod_small. lia.
Qed.

(* distinct adds of the window live in distinct slots: a sampled slot identifies ONE add *)
Theorem window_slots_distinct c n k k' : 0 < c ->
  n - c <= k < n -> n - c <= k' < n -> k mod c = k' mod c -> k = k'.
Proof. intros Hc Hk Hk' E. apply (mod_inj_window c); [lia|exact E|lia]. Qed.

(* ------------------------------------------------------------------ end-to-end statements *)
Lemma cfg_step b o : cap (step b o) = cap b /\ memopt (step b o) = memopt b /\ hto (step b o) = hto b /\ nenv (step b o) = nenv b.
Proof. destruct o; simpl; [rewrite add_fields|]; repeat split; reflexivity. Qed.

Lemma cfg_run ops : forall b, cap (run b ops) = cap b /\ memopt (run b ops) = memopt b /\ hto (run b ops) = hto b /\ nenv (run b ops) = nenv b.
Proof.
  unfold run. induction ops as [|o ops IH]; intros b; simpl; [repeat split; reflexivity|].
  destruct (IH (step b o)) as (A & B & C & D). destruct (cfg_step b o) as (A' & B' & C' & D').
  repeat split; congruence.
Qed.

Lemma cfg_create dict bs n mo ht b0 : create dict bs n mo ht = Some b0 ->
  cap b0 = capacity bs n /\ memopt b0 = mo /\ hto b0 = ht /\ nenv b0 = n.
Proof. unfold create. destruct (mo && (ht || dict)); [discriminate|]. intros H; inv H. repeat split; reflexivity. Qed.

Theorem reach_size dict bs n mo ht b0 ops : create dict bs n mo ht = Some b0 ->
  size (run b0 ops) = Z.min (len (recent ops)) (capacity bs n) /\
  0 <= pos (run b0 ops) < capacity bs n /\ 1 <= capacity bs n.
Proof.
  intros H. pose proof (inv_run _ _ _ _ _ _ ops H) as I.
  destruct (cfg_run ops b0) as (A & _). destruct (cfg_create _ _ _ _ _ _ H) as (A' & _).
  destruct (ring_inv _ _ I) as (Hp & _ & _ & Hs). rewrite A, A' in *.
  assert (1 <= capacity bs n) by (unfold capacity; lia). repeat split; lia.
Qed.

Theorem reach_sample_sound dict bs n ht b0 ops d e : create dict bs n false ht = Some b0 ->
  let b := run b0 ops in let h := recent ops in
  fst (sample_bounds b) <= d < snd (sample_bounds b) ->
  exists k, 0 <= k /\ len h - capacity bs n <= k < len h /\
    let t := col e (rowZ h k) in
    get b (idx_of_draw b d) e = (t_obs t, t_act t, t_next t, done_flag ht t, t_rew t).
Proof.
  intros H b h Hd. pose proof (inv_run _ _ _ _ _ _ ops H) as I.
  destruct (cfg_run ops b0) as (A & B & C & _). destruct (cfg_create _ _ _ _ _ _ H) as (A' & B' & C' & _).
  fold b in I, A, B, C. fold h in I.
  destruct (sample_sound b h d e I ltac:(congruence) Hd) as (k & Hk0 & Hk & _ & Hg).
  exists k. rewrite <- A', <- A, <- C', <- C. repeat split; try lia. exact Hg.
Qed.

Theorem reach_sample_sound_memopt bs n b0 ops d e : create false bs n true false = Some b0 ->
  let b := run b0 ops in let h := recent ops in
  fst (sample_bounds b) <= d < snd (sample_bounds b) ->
  exists k, 0 <= k /\ len h - capacity bs n < k < len h /\
    let t := col e (rowZ h k) in
    get b (idx_of_draw b d) e = (t_obs t, t_act t, memopt_next h k e, Z.b2z (t_done t), t_rew t) /\
    (chained h e -> t_done t = false \/ len h <= k + 1 -> memopt_next h k e = t_next t).
Proof.
  intros H b h Hd. pose proof (inv_run _ _ _ _ _ _ ops H) as I.
  destruct (cfg_run ops b0) as (A & B & C & _). destruct (cfg_create _ _ _ _ _ _ H) as (A' & B' & C' & _).
  fold b in I, A, B, C. fold h in I.
  destruct (sample_sound_memopt b h d e I ltac:(congruence) Hd) as (k & Hk0 & Hk & _ & Hg).
  exists k. rewrite <- A', <- A. repeat split; try lia.
  - cbn zeta in *. rewrite Hg. unfold done_flag. rewrite C, C'. cbn [andb negb]. rewrite andb_true_r. reflexivity.
  - intros Hch Hdn. apply memopt_next_chained; assumption.
Qed.

Theorem reach_sample_complete dict bs n mo ht b0 ops k : create dict bs n mo ht = Some b0 ->
  let b := run b0 ops in let h := recent ops in
  0 <= k -> (if mo then len h - capacity bs n < k else len h - capacity bs n <= k) -> k < len h ->
  exists d, fst (sample_bounds b) <= d < snd (sample_bounds b) /\ idx_of_draw b d = k mod capacity bs n.
Proof.
  intros H b h Hk0 Hlo Hhi. pose proof (inv_run _ _ _ _ _ _ ops H) as I.
  destruct (cfg_run ops b0) as (A & B & C & _). destruct (cfg_create _ _ _ _ _ _ H) as (A' & B' & C' & _).
  fold b in I, A, B, C. fold h in I. rewrite <- A', <- A in *.
  destruct mo.
  - apply (sample_complete_memopt b h k I); [congruence|lia|lia].
  - apply (sample_complete b h k I); [congruence|lia|lia].
Qed.

Theorem reach_memopt_skips bs n b0 ops d : create false bs n true false = Some b0 ->
  let b := run b0 ops in
  full b = true -> fst (sample_bounds b) <= d < snd (sample_bounds b) -> idx_of_draw b d <> pos b.
Proof.
  intros H b Hf Hd. pose proof (inv_run _ _ _ _ _ _ ops H) as I.
  destruct (cfg_run ops b0) as (A & B & C & _). destruct (cfg_create _ _ _ _ _ _ H) as (A' & B' & C' & _).
  fold b in I, B. apply (memopt_skips_overwritten b (recent ops) d I); [congruence|assumption|assumption].
Qed.

Theorem create_refuses dict bs n mo ht :
  create dict bs n mo ht = None <-> (mo = true /\ (ht = true \/ dict = true)).
Proof. unfold create. destruct mo, ht, dict; simpl; split; intros H; try discriminate; try tauto; try (destruct H as [? [?|?]]; discriminate). Qed.

(* with a VecNormalize: the sampled element is normalize_* of the STORED raw values of that one add *)
Theorem reach_sample_normalized fo fr dict bs n ht b0 ops d e : create dict bs n false ht = Some b0 ->
  let b := run b0 ops in let h := recent ops in
  fst (sample_bounds b) <= d < snd (sample_bounds b) ->
  exists k, 0 <= k /\ len h - capacity bs n <= k < len h /\
    let t := col e (rowZ h k) in
    get_norm fo fr b (idx_of_draw b d) e = (fo (t_obs t), t_act t, fo (t_next t), done_flag ht t, fr (t_rew t)).
Proof.
  intros H b h Hd. destruct (reach_sample_sound dict bs n ht b0 ops d e H Hd) as (k & Hk0 & Hk & Hg).
  exists k. split; [exact Hk0|]. split; [exact Hk|]. cbn zeta in *. unfold get_norm. fold b in Hg. rewrite Hg. reflexivity.
Qed.

(* reset() empties: size 0, the index range of sample() is empty (randint(0, 0) raises), whatever was stored *)
Theorem reset_empties b : size (reset b) = 0 /\ pos (reset b) = 0 /\ full (reset b) = false /\ sample_bounds (reset b) = (0, 0).
Proof. unfold size, sample_bounds, reset. cbn [pos full memopt cap]. rewrite andb_false_r. repeat split; reflexivity. Qed.

Lemma frag_base_reset b : (pos (reset b), full (reset b)) = base_reset.
Proof. reflexivity. Qed.

(* completeness over (index, env) PAIRS: every stored add and every env column is reachable by the two draws *)
Theorem reach_sample_complete_pairs dict bs n mo ht b0 ops k ev : create dict bs n mo ht = Some b0 ->
  let b := run b0 ops in let h := recent ops in
  0 <= k -> (if mo then len h - capacity bs n < k else len h - capacity bs n <= k) -> k < len h -> 0 <= ev < n ->
  exists d ee, fst (sample_bounds b) <= d < snd (sample_bounds b) /\ fst (env_bounds b) <= ee < snd (env_bounds b) /\
               idx_of_draw b d = k mod capacity bs n /\ ee = ev.
Proof.
  intros H b h Hk0 Hlo Hhi Hev.
  destruct (reach_sample_complete dict bs n mo ht b0 ops k H Hk0 Hlo Hhi) as (d & Hd & Hi).
  exists d, ev. split; [exact Hd|]. split; [|split; [exact Hi|reflexivity]].
  destruct (cfg_run ops b0) as (_ & _ & _ & D). destruct (cfg_create _ _ _ _ _ _ H) as (_ & _ & _ & D').
  unfold env_bounds. cbn [fst snd]. fold b in D. rewrite D, D'. exact Hev.
Qed.

(* the storage arrays are allocated with the dtype of their space: observations and next observations with the observation space's dtype
   (no cast), actions with _maybe_cast_dtype(action dtype) (float64 -> float32 by design), rewards / dones / timeouts as float32 *)
Lemma frag_alloc_dtypes :
  (rb_alloc_obs_dtype, rb_alloc_next_dtype, rb_alloc_act_dtype, rb_alloc_rew_dtype, rb_alloc_done_dtype, rb_alloc_to_dtype) = (1, 1, 2, 3, 3, 3) /\
  (dictrb_alloc_obs_dtype, dictrb_alloc_next_dtype, dictrb_alloc_act_dtype) = (1, 1, 2).
Proof. split; reflexivity. Qed.
