(* C17 - proofs about Model/Wrappers.v *)
From SB3V Require Import Lib.Tactics Model.Script Model.VecEnv Model.Wrappers Gen.Frag_stacking.
Local Open Scope nat_scope.

(* ================= Layer A: the window is the zero-padded suffix of the current episode ================= *)
Section FS.
Context {F : Type}.
Variable zero : F.
Variable n : nat.
Hypothesis Hn : 1 <= n.

Notation lastn := (@lastn F).
Notation fs_reset := (fs_reset zero n).
Notation fs_next := (fs_next zero n).
Notation fs_run := (fs_run zero n).
Notation padded_suffix := (padded_suffix zero n).

Lemma tl_skipn : forall m (l : list F), tl (skipn m l) = skipn (S m) l.
Proof.
  induction m as [|m IH]; intros l.
  - destruct l; reflexivity.
  - destruct l as [|x l]; [reflexivity|]. cbn [skipn]. rewrite IH. reflexivity.
Qed.

Lemma lastn_snoc : forall k (l : list F) x, 1 <= k -> k <= length l -> lastn k (l ++ [x]) = tl (lastn k l) ++ [x].
Proof.
  intros k l x H1 H2. unfold Wrappers.lastn. rewrite app_length. cbn [length].
  replace (length l + 1 - k) with (S (length l - k)) by lia.
  rewrite skipn_app. rewrite tl_skipn.
  replace (S (length l - k) - length l) with 0 by lia. reflexivity.
Qed.

Lemma lastn_length : forall k (l : list F), k <= length l -> length (lastn k l) = k.
Proof. intros k l H. unfold Wrappers.lastn. rewrite skipn_length. lia. Qed.

Lemma padded_nil : padded_suffix [] = repeat zero n.
Proof.
  unfold Wrappers.padded_suffix, Wrappers.lastn. rewrite app_nil_r, repeat_length, Nat.sub_diag. reflexivity.
Qed.

Lemma padded_push : forall fr o, padded_suffix (fr ++ [o]) = fs_push (padded_suffix fr) o.
Proof.
  intros fr o. unfold Wrappers.padded_suffix, fs_push. rewrite app_assoc.
  apply lastn_snoc; [exact Hn|]. rewrite app_length, repeat_length. lia.
Qed.

Lemma padded_single : forall o, padded_suffix [o] = fs_reset o.
Proof.
  intros o. change [o] with ([] ++ [o]). rewrite padded_push, padded_nil.
  unfold fs_push, Wrappers.fs_reset. f_equal.
  destruct n as [|m]; [lia|]. cbn. rewrite Nat.sub_0_r. reflexivity.
Qed.

Lemma fs_fold_invariant : forall evs w fr,
  w = padded_suffix fr ->
  fold_left (fs_apply zero n) evs w = padded_suffix (fold_left ep_apply evs fr).
Proof.
  induction evs as [|ev evs IH]; intros w fr H; [exact H|].
  cbn [fold_left]. apply IH. subst w.
  destruct ev as [o|o d t]; cbn [fs_apply ep_apply].
  - symmetry. apply padded_single.
  - destruct d; cbn [Wrappers.fs_next].
    + symmetry. apply padded_single.
    + symmetry. apply padded_push.
Qed.

(* window_is_episode_suffix: after ANY history the window holds the last n observations of the current
   episode, zero-padded on the old side *)
Theorem window_is_episode_suffix : forall evs, fs_run evs = padded_suffix (ep_frames evs).
Proof. intros evs. unfold Wrappers.fs_run, ep_frames. apply fs_fold_invariant. symmetry. apply padded_nil. Qed.

(* terminal_stack_is_finished_episode_suffix: the stacked terminal observation holds the last n
   observations of the episode that just ended (its final observation t included), zero-padded *)
Theorem terminal_stack_is_finished_episode_suffix : forall evs t,
  fs_terminal (fs_run evs) t = padded_suffix (ep_frames evs ++ [t]).
Proof. intros evs t. rewrite window_is_episode_suffix. unfold fs_terminal. symmetry. apply padded_push. Qed.

Theorem window_length : forall evs, length (fs_run evs) = n.
Proof.
  intros evs. rewrite window_is_episode_suffix. unfold Wrappers.padded_suffix.
  apply lastn_length. rewrite app_length, repeat_length. lia.
Qed.

(* what "zero-padded suffix" means, spelled out for short and long episodes *)
Theorem padded_short : forall fr, length fr <= n -> padded_suffix fr = repeat zero (n - length fr) ++ fr.
Proof.
  intros fr H. unfold Wrappers.padded_suffix, Wrappers.lastn. rewrite app_length, repeat_length.
  replace (n + length fr - n) with (length fr) by lia.
  replace n with (length fr + (n - length fr)) at 1 by lia.
  rewrite repeat_app, <- app_assoc, skipn_app, repeat_length, Nat.sub_diag.
  rewrite skipn_all2 by (rewrite repeat_length; lia). reflexivity.
Qed.

Theorem padded_long : forall fr, n <= length fr -> padded_suffix fr = lastn n fr.
Proof.
  intros fr H. unfold Wrappers.padded_suffix, Wrappers.lastn. rewrite app_length, repeat_length.
  replace (n + length fr - n) with (length fr) by lia.
  rewrite skipn_app, repeat_length.
  rewrite skipn_all2 by (rewrite repeat_length; lia). reflexivity.
Qed.
End FS.

(* ================= Layer B ================= *)

(* ---- pass-through of rewards, dones and truncation flags through any stack of wrappers ---- *)
Lemma w_step_passthrough : forall w s out,
  b_rew (snd (w_step w s out)) = b_rew out /\ b_done (snd (w_step w s out)) = b_done out /\
  b_tl (snd (w_step w s out)) = b_tl out.
Proof. intros w s [obs rew done tl term]. destruct w; cbn; auto. Qed.

Theorem passthrough : forall ws sts out,
  b_rew (snd (stack_step ws sts out)) = b_rew out /\ b_done (snd (stack_step ws sts out)) = b_done out /\
  b_tl (snd (stack_step ws sts out)) = b_tl out.
Proof.
  induction ws as [|w ws IH]; intros sts out; [cbn; auto|].
  destruct sts as [|s ss]; [cbn; auto|].
  cbn [stack_step].
  destruct (w_step w s out) as [s' o1] eqn:W.
  destruct (stack_step ws ss o1) as [ss' o2] eqn:S. cbn [snd].
  destruct (IH ss o1) as (A & B & C). rewrite S in A, B, C. cbn [snd] in A, B, C.
  destruct (w_step_passthrough w s out) as (A' & B' & C'). rewrite W in A', B', C'. cbn [snd] in A', B', C'.
  rewrite A, B, C. auto.
Qed.

(* ---- terminal observations get exactly the transformation given to ordinary observations ---- *)
Lemma w_step_terminal : forall w s out t,
  b_done out = true -> b_term out = Some t ->
  let o1 := snd (w_step w s out) in
  let o2 := snd (w_step w s (ordinary out t)) in
  b_done o1 = true /\ b_term o1 = Some (b_obs o2) /\ o2 = ordinary o1 (b_obs o2).
Proof.
  intros w s [obs rew done tl term] t D T. cbn in D, T. subst done term.
  destruct w; cbn; auto.
Qed.

Theorem terminal_transform_eq_obs_transform : forall ws sts out t,
  b_done out = true -> b_term out = Some t ->
  b_term (snd (stack_step ws sts out)) = Some (b_obs (snd (stack_step ws sts (ordinary out t)))).
Proof.
  induction ws as [|w ws IH]; intros sts out t D T; [cbn; exact T|].
  destruct sts as [|s ss]; [cbn; exact T|].
  cbn [stack_step].
  pose proof (w_step_terminal w s out t D T) as H. cbv zeta in H.
  destruct (w_step w s out) as [s' o1] eqn:W1.
  destruct (w_step w s (ordinary out t)) as [s'' o2] eqn:W2.
  cbn [snd] in H. destruct H as (D1 & T1 & E).
  specialize (IH ss o1 (b_obs o2) D1 T1).
  destruct (stack_step ws ss o1) as [ss1 r1] eqn:S1.
  rewrite E. destruct (stack_step ws ss (ordinary o1 (b_obs o2))) as [ss2 r2] eqn:S2.
  cbn [snd] in *. exact IH.
Qed.

(* ---- the Box instance of VecFrameStack runs Layer A ---- *)
Definition fev_of (ev : bevent) : option (fevent tensor) :=
  match ev with
  | BReset (OBox t) => Some (FReset t)
  | BStep (mk_bout (OBox t) _ d _ None) => Some (FStep t d None)
  | BStep (mk_bout (OBox t) _ d _ (Some (OBox tm))) => Some (FStep t d (Some tm))
  | _ => None
  end.

Definition frame_of (ev : fevent tensor) : tensor := match ev with FReset t => t | FStep t _ _ => t end.

(* the state of a VecFrameStack wrapper after a history of Box observations *)
Fixpoint fs_state (n : nat) (cf : list (Z * bool)) (st : wstate) (evs : list bevent) : wstate :=
  match evs with
  | [] => st
  | BReset o :: r => fs_state n cf (fst (w_reset (WFrameStack n cf) st o)) r
  | BStep out :: r => fs_state n cf (fst (w_step (WFrameStack n cf) st out)) r
  end.

Lemma fs_state_box : forall n cf z fevs evs w,
  map fev_of evs = map Some fevs ->
  Forall (fun e => tzeros_like (frame_of e) = z) fevs ->
  fs_state n cf [(0%Z, w)] evs = [(0%Z, fold_left (fs_apply z n) fevs w)].
Proof.
  intros n cf z fevs. induction fevs as [|fe fevs IH]; intros evs w M Z.
  - destruct evs; [reflexivity|discriminate].
  - destruct evs as [|ev evs]; [discriminate|]. cbn [map] in M. injection M as M1 M2.
    inversion_clear Z as [|? ? Z1 Z2].
    cbn [fold_left]. rewrite <- (IH evs); auto. clear IH.
    destruct ev as [o|[obs rew d tl term]]; cbn [fs_state].
    + destruct o as [t|kv]; [|discriminate]. cbn in M1. injection M1 as M1; subst fe. cbn in Z1. cbn. rewrite Z1. reflexivity.
    + destruct obs as [t|kv]; [|discriminate].
      destruct term as [[tm|kv]|]; cbn in M1; try discriminate; injection M1 as M1; subst fe; cbn in Z1;
        destruct d; cbn; rewrite ?Z1; reflexivity.
Qed.

(* after a reset and any further history of Box observations of one shape, the wrapper's window is the
   zero-padded suffix of the current episode, and what it shows is its concatenation *)
Theorem box_window_is_episode_suffix : forall n cf z t fevs evs st,
  1 <= n ->
  map fev_of evs = map Some fevs ->
  Forall (fun e => tzeros_like (frame_of e) = z) (FReset t :: fevs) ->
  fs_state n cf st (BReset (OBox t) :: evs) = [(0%Z, padded_suffix z n (ep_frames (FReset t :: fevs)))].
Proof.
  intros n cf z t fevs evs st Hn M Z.
  rewrite <- (window_is_episode_suffix z n Hn).
  cbn [fs_state]. inversion_clear Z as [|? ? Z1 Z2]. cbn in Z1.
  replace (fst (w_reset (WFrameStack n cf) st (OBox t))) with [(0%Z, fs_reset z n t)]
    by (cbn; rewrite Z1; reflexivity).
  rewrite (fs_state_box n cf z fevs evs _ M Z2). reflexivity.
Qed.

(* what the Box frame stack returns: the concatenation of its (new) window; the terminal observation:
   the concatenation of the previous frames and the old terminal observation *)
Theorem box_step_output : forall n cf w t rew d tl term,
  snd (w_step (WFrameStack n cf) [(0%Z, w)] (mk_bout (OBox t) rew d tl term))
  = mk_bout (OBox (tcat (lookup 0%Z cf false) (fs_next (tzeros_like t) n w t d))) rew d tl
      (if d then option_map (fun x => match x with
                                      | OBox tm => OBox (tcat (lookup 0%Z cf false) (fs_terminal w tm))
                                      | ODict kv => st_show cf x (st_push [(0%Z, w)] x)
                                      end) term
       else term).
Proof.
  intros n cf w t rew d tl term. destruct d; cbn.
  - destruct term as [[tm|kv]|]; reflexivity.
  - reflexivity.
Qed.

(* ---- shapes ---- *)
Lemma list_sum_const : forall (ts : list tensor) (f : tensor -> nat) c,
  Forall (fun t => f t = c) ts -> list_sum (map f ts) = length ts * c.
Proof.
  induction ts as [|t ts IH]; intros f c H; [reflexivity|].
  inversion_clear H as [|? ? H1 H2].
  change (list_sum (map f (t :: ts))) with (f t + list_sum (map f ts)).
  rewrite (IH f c H2), H1. cbn [length]. lia.
Qed.

Theorem stacked_space_shape : forall cf ts s,
  ts <> [] -> Forall (fun t => t_shape t = s) ts ->
  t_shape (tcat cf ts) = if cf then set_hd (length ts * hd 0 s) s else set_last (length ts * last s 0) s.
Proof.
  intros cf ts s NE H. destruct ts as [|t ts]; [congruence|].
  assert (Ht : t_shape t = s) by (inversion_clear H; assumption).
  destruct cf; cbn [tcat tcat_first tcat_last t_shape].
  - rewrite (list_sum_const (t :: ts) (fun x => hd 0 (t_shape x)) (hd 0 s)).
    + rewrite Ht. reflexivity.
    + eapply Forall_impl; [|exact H]. cbn. intros a Ha. rewrite Ha. reflexivity.
  - rewrite (list_sum_const (t :: ts) (fun x => last (t_shape x) 0) (last s 0)).
    + rewrite Ht. reflexivity.
    + eapply Forall_impl; [|exact H]. cbn. intros a Ha. rewrite Ha. reflexivity.
Qed.

Theorem transposed_space_shape : forall t h w c, t_shape t = [h; w; c] -> t_shape (ttranspose t) = [c; h; w].
Proof. intros t h w c H. unfold ttranspose. rewrite H. reflexivity. Qed.

(* ---- interface lemmas: regenerated compute_stacking / update arithmetic ---- *)
Local Open Scope Z_scope.
(* Python's negative index normalisation for a sequence of length r *)
Definition py_axis (r a : Z) : Z := if a <? 0 then r + a else a.

Lemma frag_repeat_axis : forall (cf : bool) r, 1 <= r ->
  py_axis r (repeat_axis cf) = if cf then 0 else r - 1.
Proof. intros [] r H; unfold py_axis, repeat_axis; cbn; lia. Qed.

(* the axis of the batched array that update()/reset() write and roll is the repeated axis of the space *)
Lemma frag_axes_agree : forall (cf : bool) r, 1 <= r ->
  py_axis (r + 1) (stack_dimension cf) - 1 = py_axis r (repeat_axis cf).
Proof. intros [] r H; unfold py_axis, stack_dimension, repeat_axis; cbn; lia. Qed.

Lemma frag_stacked_dim : forall d n, stacked_dim d n = d * n.
Proof. intros. reflexivity. Qed.

Lemma frag_stacked_dim_model : forall (k d : nat), stacked_dim (Z.of_nat d) (Z.of_nat k) = Z.of_nat (k * d).
Proof. intros. unfold stacked_dim. lia. Qed.

Lemma frag_update_shift : forall f, update_shift f = - f.
Proof. intros. reflexivity. Qed.

Lemma frag_default_order : default_channels_first = false.
Proof. reflexivity. Qed.

(* ================= the Dict (per-key) instance of VecFrameStack runs Layer A for every key ================= *)
Local Open Scope nat_scope.

Lemma lookup_map_key {X Y} : forall (kv : list (Z * X)) (f : Z -> X -> Y) k x d,
  NoDup (map fst kv) -> In (k, x) kv ->
  lookup k (map (fun p => (fst p, f (fst p) (snd p))) kv) d = f k x.
Proof.
  induction kv as [|[k0 x0] kv IH]; intros f k x d ND HIn; [destruct HIn|].
  cbn [map fst snd lookup]. inversion_clear ND as [|? ? N1 N2].
  destruct HIn as [E|HIn].
  - inv E. rewrite Z.eqb_refl. reflexivity.
  - destruct (Z.eqb k k0) eqn:E.
    + apply Z.eqb_eq in E. subst k0. exfalso. apply N1. cbn. apply in_map_iff. exists (k, x). auto.
    + apply IH; auto.
Qed.

Lemma lookup_in {X} : forall (kv : list (Z * X)) k x d, NoDup (map fst kv) -> In (k, x) kv -> lookup k kv d = x.
Proof.
  induction kv as [|[k0 x0] kv IH]; intros k x d ND HIn; [destruct HIn|].
  cbn [map fst lookup] in *. inversion_clear ND as [|? ? N1 N2].
  destruct HIn as [E|HIn].
  - inv E. rewrite Z.eqb_refl. reflexivity.
  - destruct (Z.eqb k k0) eqn:E.
    + apply Z.eqb_eq in E. subst k0. exfalso. apply N1. apply in_map_iff. exists (k, x). auto.
    + apply IH; auto.
Qed.

Lemma map_pair_eta {X Y} : forall (g : Z -> X -> Y) (kv : list (Z * X)),
  map (fun '(k, t) => (k, g k t)) kv = map (fun p => (fst p, g (fst p) (snd p))) kv.
Proof. intros. apply map_ext. intros [a b]. reflexivity. Qed.

Lemma lookup_map_key' {X Y} : forall (kv : list (Z * X)) (f : Z -> X -> Y) k x d,
  NoDup (map fst kv) -> In (k, x) kv ->
  lookup k (map (fun '(k0, t) => (k0, f k0 t)) kv) d = f k x.
Proof. intros. rewrite map_pair_eta. apply lookup_map_key; assumption. Qed.

(* the event seen by key k of a Dict observation *)
Definition key_event (k : Z) (ev : bevent) : option (fevent tensor) :=
  match ev with
  | BReset (ODict kv) => Some (FReset (lookup k kv tempty))
  | BStep (mk_bout (ODict kv) _ d _ _) => Some (FStep (lookup k kv tempty) d None)
  | _ => None
  end.
(* the observation is a Dict with distinct keys containing k *)
Definition dict_ok (k : Z) (ev : bevent) : Prop :=
  match ev with
  | BReset (ODict kv) | BStep (mk_bout (ODict kv) _ _ _ _) => NoDup (map fst kv) /\ In k (map fst kv)
  | _ => False
  end.

Lemma in_keys_lookup {X} : forall (kv : list (Z * X)) k d, NoDup (map fst kv) -> In k (map fst kv) -> In (k, lookup k kv d) kv.
Proof.
  intros kv k d ND HIn. apply in_map_iff in HIn. destruct HIn as ([k' x] & E & HIn). cbn in E. subst k'.
  rewrite (lookup_in kv k x d ND HIn). exact HIn.
Qed.

Lemma fs_state_dict_key : forall n cf z k fevs evs st,
  Forall (dict_ok k) evs ->
  map (key_event k) evs = map Some fevs ->
  Forall (fun e => tzeros_like (frame_of e) = z) fevs ->
  lookup k (fs_state n cf st evs) [] = fold_left (fs_apply z n) fevs (lookup k st []).
Proof.
  intros n cf z k fevs. induction fevs as [|fe fevs IH]; intros evs st OK M Z.
  - destruct evs; [reflexivity|discriminate].
  - destruct evs as [|ev evs]; [discriminate|]. cbn [map] in M. injection M as M1 M2.
    inversion_clear Z as [|? ? Z1 Z2]. inversion_clear OK as [|? ? O1 O2].
    cbn [fold_left fs_state]. 
    destruct ev as [o|[obs rew d tl term]].
    + destruct o as [t|kv]; [destruct O1|]. cbn in M1. injection M1 as M1. subst fe. cbn in Z1.
      destruct O1 as [ND HIn]. rewrite (IH evs _ O2 M2 Z2). f_equal.
      cbn [w_reset fst]. unfold st_restart, kvs.
      rewrite (lookup_map_key' kv (fun _ t => fs_reset (tzeros_like t) n t) k (lookup k kv tempty) [] ND (in_keys_lookup kv k tempty ND HIn)).
      cbn [fs_apply]. rewrite Z1. reflexivity.
    + destruct obs as [t|kv]; [destruct O1|]. cbn in M1. injection M1 as M1. subst fe. cbn in Z1.
      destruct O1 as [ND HIn]. rewrite (IH evs _ O2 M2 Z2). f_equal.
      cbn [w_step fst]. destruct d; cbn [fs_apply Wrappers.fs_next].
      * unfold st_restart, kvs.
        rewrite (lookup_map_key' kv (fun _ t => fs_reset (tzeros_like t) n t) k (lookup k kv tempty) [] ND (in_keys_lookup kv k tempty ND HIn)).
        rewrite Z1. reflexivity.
      * unfold st_push, kvs.
        rewrite (lookup_map_key' kv (fun k0 t => fs_push (lookup k0 st []) t) k (lookup k kv tempty) [] ND (in_keys_lookup kv k tempty ND HIn)).
        reflexivity.
Qed.

(* after a reset and any further history of Dict observations, the window kept for key k is the zero-padded
   suffix of the current episode of that key's frames *)
Theorem dict_window_is_episode_suffix : forall n cf z k kv0 fevs evs st,
  1 <= n ->
  dict_ok k (BReset (ODict kv0)) -> Forall (dict_ok k) evs ->
  map (key_event k) evs = map Some fevs ->
  Forall (fun e => tzeros_like (frame_of e) = z) (FReset (lookup k kv0 tempty) :: fevs) ->
  lookup k (fs_state n cf st (BReset (ODict kv0) :: evs)) []
  = padded_suffix z n (ep_frames (FReset (lookup k kv0 tempty) :: fevs)).
Proof.
  intros n cf z k kv0 fevs evs st Hn O0 OK M Z.
  rewrite <- (window_is_episode_suffix z n Hn).
  rewrite (fs_state_dict_key n cf z k (FReset (lookup k kv0 tempty) :: fevs) (BReset (ODict kv0) :: evs) st).
  - unfold Wrappers.fs_run. cbn [fold_left fs_apply]. reflexivity.
  - constructor; assumption.
  - cbn [map key_event]. rewrite M. reflexivity.
  - exact Z.
Qed.

(* what the Dict frame stack returns: per key, the concatenation of that key's window (observation) and of
   that key's previous frames plus its old terminal frame (terminal observation) *)
Theorem dict_step_output : forall n cf st kv rew d tl term,
  let st' := fst (w_step (WFrameStack n cf) st (mk_bout (ODict kv) rew d tl term)) in
  snd (w_step (WFrameStack n cf) st (mk_bout (ODict kv) rew d tl term))
  = mk_bout (ODict (map (fun '(k, w) => (k, tcat (lookup k cf false) w)) st')) rew d tl
      (if d then option_map (fun x => match x with
                                      | ODict tkv => ODict (map (fun '(k, w) => (k, tcat (lookup k cf false) w)) (st_push st x))
                                      | OBox _ => st_show cf x (st_push st x)
                                      end) term
       else term).
Proof.
  intros n cf st kv rew d tl term. destruct d; cbn.
  - destruct term as [[tm|tkv]|]; reflexivity.
  - reflexivity.
Qed.

(* VecTransposeImage on a Dict: exactly the image keys are transposed, every other key is untouched,
   for any number of image keys *)
Theorem transpose_dict_keys : forall keys kv k t,
  NoDup (map fst kv) -> In (k, t) kv ->
  lookup k (kvs (tr_obs keys (ODict kv))) tempty = if memk k keys then ttranspose t else t.
Proof.
  intros keys kv k t ND HIn. unfold tr_obs, kvs.
  apply (lookup_map_key' kv (fun k0 t0 => if memk k0 keys then ttranspose t0 else t0) k t tempty ND HIn).
Qed.

(* ================= the regenerated arithmetic, connected to the model's functions ================= *)
(* update() rolls the window by -shift = one frame: fs_push drops exactly that many frames *)
Definition frames_rolled (f : Z) : nat := Z.to_nat (Z.opp (update_shift f) / f).
Lemma frag_roll_is_one_frame : forall f, (0 < f)%Z -> frames_rolled f = 1.
Proof.
  intros f H. unfold frames_rolled. rewrite (frag_update_shift f). rewrite Z.opp_involutive. rewrite Z.div_same by lia. reflexivity.
Qed.
Theorem fs_push_is_regenerated_roll : forall (F : Type) (w : list F) (o : F) (f : Z),
  (0 < f)%Z -> fs_push w o = skipn (frames_rolled f) w ++ [o].
Proof.
  intros F w o f H. rewrite frag_roll_is_one_frame by exact H. unfold fs_push. destruct w; reflexivity.
Qed.

Lemma set_last_nonempty : forall s d, s <> [] -> set_last d s <> [].
Proof. intros [|x [|y s]] d H; cbn; congruence. Qed.
Lemma last_cons_nonempty : forall (x : nat) l d, l <> [] -> last (x :: l) d = last l d.
Proof. intros x [|y l] d H; [congruence|reflexivity]. Qed.
Lemma last_set_last : forall s d, s <> [] -> last (set_last d s) 0 = d.
Proof.
  induction s as [|x s IH]; intros d H; [congruence|].
  destruct s as [|y s]; [reflexivity|].
  change (set_last d (x :: y :: s)) with (x :: set_last d (y :: s)).
  rewrite last_cons_nonempty by (apply set_last_nonempty; discriminate).
  apply IH. discriminate.
Qed.

(* the stacked axis of the declared shape is the regenerated `stacked_shape[repeat_axis] *= n_stack` *)
Theorem stacked_shape_is_regenerated_dim : forall ts s,
  ts <> [] -> s <> [] -> Forall (fun t => t_shape t = s) ts ->
  Z.of_nat (hd 0 (t_shape (tcat true ts))) = stacked_dim (Z.of_nat (hd 0 s)) (Z.of_nat (length ts)) /\
  Z.of_nat (last (t_shape (tcat false ts)) 0) = stacked_dim (Z.of_nat (last s 0)) (Z.of_nat (length ts)).
Proof.
  intros ts s NE NS H. rewrite !frag_stacked_dim_model.
  rewrite (stacked_space_shape true ts s NE H), (stacked_space_shape false ts s NE H).
  split.
  - destruct s; [congruence|]. reflexivity.
  - rewrite last_set_last by exact NS. reflexivity.
Qed.

(* channels_order=None: the order is taken from the image heuristic only when `is_image_space(observation_space)` (default
   arguments: uint8, bounds [0, 255], rank 3) holds, else it is the default (last axis) *)
Lemma frag_auto_order : forall img sf : bool,
  (if auto_order_is_image_guard img then auto_order_of_image sf else default_channels_first) = (img && sf)%bool.
Proof. intros [] []; reflexivity. Qed.

(* ---------- evaluation helpers used by the correspondence, pinned on concrete inputs ---------- *)
(* run-length encoding used to print tensors: accepted and rejected pairs *)
Example ex_rle : rle [5; 5; 7; 5]%Z = [(5%Z, 2); (7%Z, 1); (5%Z, 1)] /\ rle [5; 7]%Z <> [(5%Z, 2); (7%Z, 1)] /\ rle [9]%Z = [(9%Z, 1)] /\ rle [] = [].
Proof. repeat split; try reflexivity. discriminate. Qed.
(* the scripted wrapper run lists sub-environment 0 first, one row per sub-environment *)
Example ex_run_wrapped_scripted_rows :
  run_wrapped_scripted (SBox [1]) [WMonitor] [[mk_episode 4 0 [mk_sstep 5 0 true false 0]]; [mk_episode 6 0 [mk_sstep 7 0 true false 0]]] [VReset]
  = [[PWReset [(0%Z, [1], [(4%Z, 1)])]]; [PWReset [(0%Z, [1], [(6%Z, 1)])]]].
Proof. vm_compute. reflexivity. Qed.

(* concatenation on the last axis interleaves the rows of the frames; transposition HWC -> CHW regroups the channels *)
Example ex_tcat_last_rows :
  tcat false [mk_tensor [2; 1] [1; 2]%Z; mk_tensor [2; 1] [3; 4]%Z; mk_tensor [2; 1] [5; 6]%Z] = mk_tensor [2; 3] [1; 3; 5; 2; 4; 6]%Z /\
  tcat true [mk_tensor [2; 1] [1; 2]%Z; mk_tensor [2; 1] [3; 4]%Z] = mk_tensor [4; 1] [1; 2; 3; 4]%Z /\
  rows (mk_tensor [3; 2] [1; 2; 3; 4; 5; 6]%Z) = [[1; 2]; [3; 4]; [5; 6]]%Z.
Proof. repeat split; reflexivity. Qed.
Example ex_ttranspose :
  ttranspose (mk_tensor [1; 3; 2] [1; 2; 3; 4; 5; 6]%Z) = mk_tensor [2; 1; 3] [1; 3; 5; 2; 4; 6]%Z.
Proof. reflexivity. Qed.
