(* Composition theorems: collection models composed with the buffer models (Model/Pipeline.v). *)
From Coq Require Import ZArith QArith List Bool Lia.
From SB3V Require Import Model.Script Model.Gae Proofs.GaeProofs Model.OnPolicyCollect Proofs.OnPolicyCollectProofs
  Model.OffPolicyCollect Proofs.OffPolicyCollectProofs Model.Replay Proofs.ReplayProofs Model.Pipeline.
Import ListNotations.
Local Open Scope Z_scope.

(* ------------------------------------------------------------------ list helpers *)

Lemma nth_error_ext_eq {A} : forall (l l' : list A), (forall t, nth_error l t = nth_error l' t) -> l = l'.
Proof.
  induction l as [|x l IH]; intros [|y l'] H; try reflexivity.
  - specialize (H O). discriminate H.
  - specialize (H O). discriminate H.
  - pose proof (H O) as H0. cbn in H0. inversion H0; subst. f_equal. apply IH. intros t. exact (H (S t)).
Qed.

Lemma nth_error_map_seq {A} (f : nat -> A) a n t :
  nth_error (map f (seq a n)) t = if (t <? n)%nat then Some (f (a + t)%nat) else None.
Proof.
  revert a t. induction n as [|n IH]; intros a t; [destruct t; reflexivity|].
  destruct t as [|t]; cbn [seq map nth_error]; [rewrite Nat.add_0_r; reflexivity|].
  rewrite IH. replace (S a + t)%nat with (a + S t)%nat by lia. reflexivity.
Qed.

Lemma map_nth_seq {A} (d : A) (l : list A) : map (fun t => nth t l d) (seq 0 (length l)) = l.
Proof.
  apply nth_error_ext_eq. intros t. rewrite nth_error_map_seq. cbn [plus].
  destruct (Nat.ltb_spec t (length l)) as [H|H].
  - symmetry. apply nth_error_nth'. exact H.
  - symmetry. apply nth_error_None. exact H.
Qed.

(* ------------------------------------------------------------------ (a) on-policy: collection . GAE *)

(* the slots of a collection, as a table over the step index *)
Lemma collect_slots_table ak gamma sc st ps :
  snd (collect ak gamma sc st ps) =
  map (fun t => spec_slot ak gamma sc st t (nth t ps dpol)) (seq 0 (length ps)).
Proof.
  apply nth_error_ext_eq. intros t. rewrite nth_error_map_seq. cbn [plus].
  destruct (Nat.ltb_spec t (length ps)) as [H|H].
  - apply collect_slot. apply nth_error_nth'. exact H.
  - apply nth_error_None. rewrite collect_length. exact H.
Qed.

(* mk_col on three tables *)
Lemma mk_col_cons2 r v e v' e' rs vs es lv d :
  mk_col (r :: rs) (v :: v' :: vs) (e :: e' :: es) lv d =
  {| s_r := r; s_v := v; s_nv := v'; s_nnt := (1 - e')%Q |} :: mk_col rs (v' :: vs) (e' :: es) lv d.
Proof. reflexivity. Qed.

Lemma mk_col_tables (fr fv fe : nat -> Q) lv d : forall n a,
  mk_col (map fr (seq a n)) (map fv (seq a n)) (map fe (seq a n)) lv d =
  map (fun t => {| s_r := fr t; s_v := fv t;
                   s_nv := if (S t <? a + n)%nat then fv (S t) else lv;
                   s_nnt := if (S t <? a + n)%nat then (1 - fe (S t))%Q else (1 - d)%Q |}) (seq a n).
Proof.
  induction n as [|n IH]; intros a; [reflexivity|].
  destruct n as [|n].
  - cbn [seq map mk_col]. replace (S a <? a + 1)%nat with false by (symmetry; apply Nat.ltb_ge; lia). reflexivity.
  - specialize (IH (S a)). cbn [seq map] in IH. cbn [seq map]. rewrite mk_col_cons2, IH.
    replace (S a <? a + S (S n))%nat with true by (symmetry; apply Nat.ltb_lt; lia).
    replace (S a + S n)%nat with (a + S (S n))%nat by lia. reflexivity.
Qed.

Lemma bootstraps_signals sc c :
  let o := snd (vstep1 sc c) in bootstraps o = (vo_truncated o && negb (vo_terminated o))%bool.
Proof.
  unfold vstep1, bootstraps. destruct (env_step sc c) as [c1 st]. cbn [snd].
  destruct (st_term st), (st_trunc st); cbn [orb];
    try (destruct (env_reset sc c1) as [[c2 ot] ri]); reflexivity.
Qed.

(* what collect_rollouts hands to compute_returns_and_advantage is, cell by cell, what the property describes *)
Theorem pipeline_cells_spec ak gamma sc st ps lv :
  pipeline_cells ak gamma sc st ps lv = spec_cells gamma sc st ps lv.
Proof.
  unfold pipeline_cells, spec_cells. rewrite collect_state, collect_slots_table, !map_map.
  rewrite mk_col_tables. cbn [plus]. apply map_ext_in. intros t Ht. apply in_seq in Ht.
  unfold spec_cell, spec_slot. cbn [s_rew s_val s_start].
  unfold reward_of, out_at. rewrite bootstraps_signals. cbn [state_at cs_start].
  destruct (Nat.ltb_spec (S t) (length ps)) as [H|H].
  - reflexivity.
  - assert (E : length ps = S t) by lia. rewrite E. reflexivity.
Qed.

(* (a) the advantage the pipeline stores for step t of an env column is the discounted sum of the definition over exactly
   those cells *)
Theorem onpolicy_pipeline ak gamma lam sc st ps lv t :
  (nth t (pipeline_adv ak gamma lam sc st ps lv) 0 == adv_def gamma lam (skipn t (spec_cells gamma sc st ps lv)))%Q.
Proof. unfold pipeline_adv. rewrite pipeline_cells_spec. apply gae_code_is_def. Qed.

(* several rollouts: rollout r starts from the state reached after all earlier steps (carried last observation / episode start) *)
Lemma env_after_add sc c : forall b a, env_after sc (env_after sc c a) b = env_after sc c (a + b).
Proof.
  induction b as [|b IH]; intros a; [rewrite Nat.add_0_r; reflexivity|].
  cbn [env_after]. rewrite IH. replace (a + S b)%nat with (S (a + b)) by lia. reflexivity.
Qed.

Lemma state_at_add sc st a b : state_at sc (state_at sc st a) b = state_at sc st (a + b).
Proof.
  destruct (obs_start_state_at sc a st b) as [A B].
  unfold state_at at 1. rewrite A, B.
  replace (cs_cur (state_at sc st a)) with (env_after sc (cs_cur st) a) by reflexivity.
  rewrite env_after_add. reflexivity.
Qed.

Theorem onpolicy_pipeline_rollouts ak gamma lam sc : forall rs lvs st r ps lv advs,
  nth_error rs r = Some ps -> nth_error lvs r = Some lv ->
  nth_error (pipeline_rollouts ak gamma lam sc st rs lvs) r = Some advs ->
  let st_r := state_at sc st (length (concat (firstn r rs))) in
  advs = pipeline_adv ak gamma lam sc st_r ps lv /\
  forall t, (nth t advs 0 == adv_def gamma lam (skipn t (spec_cells gamma sc st_r ps lv)))%Q.
Proof.
  induction rs as [|ps0 rs IH]; intros lvs st r ps lv advs H1 H2 H3; [destruct r; discriminate H1|].
  destruct lvs as [|lv0 lvs]; [destruct r; discriminate H2|].
  destruct r as [|r].
  - cbn in H1, H2, H3. inversion H1; inversion H2; inversion H3; subst. cbn [firstn concat length].
    rewrite state_at_0. split; [reflexivity | intros t; apply onpolicy_pipeline].
  - cbn [nth_error pipeline_rollouts] in H1, H2, H3.
    destruct (IH lvs _ r ps lv advs H1 H2 H3) as [A B].
    rewrite collect_state, state_at_add in A, B.
    change (firstn (S r) (ps0 :: rs)) with (ps0 :: firstn r rs). cbn [concat]. rewrite app_length.
    split; assumption.
Qed.

(* env independence at the pipeline level: the vectorised backward loop over rows of cells gives, in column e, the
   scalar pipeline of env e *)
Theorem pipeline_env_independent gamma lam (cols : list (list stp)) T e :
  Forall (fun c => length c = T) cols -> (e < length cols)%nat ->
  column e 0%Q (gae_rows gamma lam (length cols) (rows_of_cols cols T)) = gae_code gamma lam (nth e cols []).
Proof.
  intros HT He.
  rewrite (gae_env_independent gamma lam (length cols) (rows_of_cols cols T) e dstp).
  - f_equal. unfold column, rows_of_cols. rewrite map_map.
    assert (L : length (nth e cols []) = T).
    { rewrite Forall_forall in HT. apply HT. apply nth_In. exact He. }
    rewrite <- L at 1. rewrite <- (map_nth_seq dstp (nth e cols [])) at 2.
    apply map_ext. intros t.
    rewrite (nth_indep _ dstp ((fun c : list stp => nth t c dstp) [])) by (rewrite map_length; exact He).
    rewrite (map_nth (fun c : list stp => nth t c dstp)). reflexivity.
  - unfold rows_of_cols. rewrite Forall_forall. intros row Hr. apply in_map_iff in Hr.
    destruct Hr as (t & <- & _). apply map_length.
  - exact He.
Qed.

(* ------------------------------------------------------------------ (b) off-policy: collection . replay buffer *)

Lemma recent_adds : forall rows h, fold_left recent_step (map Add rows) h = h ++ rows.
Proof.
  induction rows as [|r rows IH]; intros h; [rewrite app_nil_r; reflexivity|].
  cbn [map fold_left recent_step]. rewrite IH, <- app_assoc. reflexivity.
Qed.

Lemma env_adds_length ak ec : length (env_adds ak ec) = length (ec_orcs ec).
Proof. unfold env_adds. apply off_collect_length. Qed.

(* the true transition number k of env ec, from the ground truth of its scripted env and the oracle *)
Definition true_trans (ak : akind) (ec : envcol) (k : nat) : OffPolicyCollect.trans :=
  spec_trans ak (ec_sc ec) (ec_st ec) k (nth k (ec_orcs ec) (mkO [] None)).

Lemma env_adds_nth ak ec k : (k < length (ec_orcs ec))%nat -> nth k (env_adds ak ec) dtr = true_trans ak ec k.
Proof.
  intros H. unfold env_adds, true_trans.
  apply nth_error_nth. apply off_collect_trans. apply nth_error_nth'. exact H.
Qed.

(* (b) every element the replay buffer can return after G vector steps is a real transition of the scripted env of that
   column, among the last `capacity` ones: observation acted on, stored (encoded) action, the step's own observation as
   successor, done = terminated-or-truncated masked by the timeout flag when handle_timeout_termination, raw reward *)
Theorem offpolicy_pipeline aenc ak (envs : list envcol) (G : nat) dict bs ht b0 d e ec :
  create dict bs (Z.of_nat (length envs)) false ht = Some b0 ->
  Forall (fun ec => length (ec_orcs ec) = G) envs ->
  nth_error envs e = Some ec ->
  let b := pipeline_buffer aenc ak envs G b0 in
  fst (sample_bounds b) <= d < snd (sample_bounds b) ->
  exists k : nat,
    Z.of_nat G - capacity bs (Z.of_nat (length envs)) <= Z.of_nat k < Z.of_nat G /\
    let t := true_trans ak ec k in
    let s := snd (env_step (ec_sc ec) (env_after (ec_sc ec) (os_cur (ec_st ec)) k)) in
    get b (idx_of_draw b d) e =
      (OffPolicyCollect.t_obs t, aenc (OffPolicyCollect.t_act t), st_tag s,
       Z.b2z ((st_term s || st_trunc s) && negb (ht && (st_trunc s && negb (st_term s)))), st_r4 s) /\
    OffPolicyCollect.t_obs t = obs_at (ec_sc ec) (to_c (ec_st ec)) k.
Proof.
  intros Hc HG He b Hd.
  pose proof (reach_sample_sound dict bs (Z.of_nat (length envs)) ht b0 (map Add (add_rows aenc ak envs G)) d e Hc) as S.
  cbn zeta in S. specialize (S Hd). destruct S as (k & Hk0 & Hk & Hget).
  unfold recent in *. rewrite recent_adds in *. cbn [app] in *.
  assert (Lr : len (add_rows aenc ak envs G) = Z.of_nat G).
  { unfold len, add_rows. rewrite map_length, seq_length. reflexivity. }
  rewrite Lr in Hk.
  exists (Z.to_nat k). split; [lia|]. cbn zeta.
  assert (Hkn : (Z.to_nat k < G)%nat) by lia.
  assert (Hrow : rowZ (add_rows aenc ak envs G) k = add_row aenc ak envs (Z.to_nat k)).
  { unfold rowZ, add_rows. apply nth_error_nth. rewrite nth_error_map_seq.
    destruct (Nat.ltb_spec (Z.to_nat k) G); [reflexivity | lia]. }
  assert (Hcol : col e (add_row aenc ak envs (Z.to_nat k)) = to_replay aenc (nth (Z.to_nat k) (env_adds ak ec) dtr)).
  { unfold col, add_row. apply nth_error_nth. rewrite nth_error_map, He. reflexivity. }
  assert (HGe : length (ec_orcs ec) = G).
  { rewrite Forall_forall in HG. apply HG. eapply nth_error_In. exact He. }
  rewrite env_adds_nth in Hcol by (rewrite HGe; exact Hkn).
  unfold b, pipeline_buffer. rewrite Hget, Hrow, Hcol.
  unfold to_replay, done_flag, true_trans, spec_trans, out_at.
  cbn [Replay.t_obs Replay.t_act Replay.t_next Replay.t_done Replay.t_to Replay.t_rew
       OffPolicyCollect.t_obs OffPolicyCollect.t_act OffPolicyCollect.t_next OffPolicyCollect.t_done
       OffPolicyCollect.t_timeout OffPolicyCollect.t_r4].
  rewrite stored_next_is_step_observation.
  destruct (stored_flags (ec_sc ec) (env_after (ec_sc ec) (os_cur (ec_st ec)) (Z.to_nat k))) as (A & B & C).
  rewrite A, B, C. split; reflexivity.
Qed.
