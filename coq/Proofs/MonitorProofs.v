From SB3V Require Import Lib.Tactics Gen.Frag_monitor Model.Script Model.Monitor.
Local Open Scope Z_scope.
Ltac feq := try reflexivity; repeat (progress f_equal); try lia.

(* ---------- interface lemmas: regenerated fragments = model components ---------- *)
Lemma frag_mon_reset_refused a n : mon_reset_refused a n = reset_refused a n.
Proof. destruct a, n; reflexivity. Qed.
Lemma frag_mon_reset_state : mon_reset_state = m_needs_reset (fst (mon_op true m0 MReset)).
Proof. reflexivity. Qed.
Lemma frag_mon_step_refused n : mon_step_refused n = step_refused n.
Proof. reflexivity. Qed.
Lemma frag_mon_ends te tr : mon_ends te tr = ends te tr.
Proof. destruct te, tr; reflexivity. Qed.
Lemma frag_mon_total t : mon_total_steps t = t + 1.
Proof. unfold mon_total_steps. lia. Qed.

Lemma frag_mon_guards a n te tr :
  mon_reset_refused a n = reset_refused a n /\ mon_step_refused n = step_refused n /\ mon_ends te tr = ends te tr
  /\ mon_reset_state = false.
Proof.
  split; [apply frag_mon_reset_refused|]. split; [apply frag_mon_step_refused|]. split; [apply frag_mon_ends|reflexivity].
Qed.

(* the step of the model written with the fragments: same result *)
Lemma frag_mon_end_state allow s r te tr :
  m_needs_reset s = false -> mon_ends te tr = true ->
  let rs := m_rewards s ++ [r] in
  let '(nr, ep_rew, ep_len) := mon_end_state (zsum rs) (zlen rs) in
  mon_op allow s (MStep r te tr)
  = (mk_m rs nr (m_rows s ++ [(ep_rew, ep_len)]) (mon_total_steps (m_total s)), MInfo (Some (ep_rew, ep_len))).
Proof.
  intros Hn He. cbn zeta.
  destruct (mon_end_state (zsum (m_rewards s ++ [r])) (zlen (m_rewards s ++ [r]))) as [[nr ep_rew] ep_len] eqn:E.
  unfold mon_end_state in E. inv E.
  unfold mon_op, step_refused. rewrite Hn.
  rewrite frag_mon_ends in He. rewrite He, frag_mon_total. reflexivity.
Qed.

Lemma frag_vm_step a r d :
  vm_env_step a r d =
  let '(ret, len) := vm_acc (v_ret a) (v_len a) r in
  if vm_done d
  then (let '(z1, z2) := vm_restart in mk_v z1 z2, Some (vm_report ret len))
  else (mk_v ret len, None).
Proof.
  unfold vm_env_step, vm_acc, vm_done, vm_restart, vm_report, vm_add, v0. cbn.
  destruct d; feq.
Qed.

(* ---------- Monitor ---------- *)
Lemma mon_run_app allow s a b :
  mon_run allow s (a ++ b) =
  let '(s1, o1) := mon_run allow s a in
  let '(s2, o2) := mon_run allow s1 b in (s2, o1 ++ o2).
Proof.
  revert s; induction a as [|o a IH]; intros s; cbn [mon_run app].
  - destruct (mon_run allow s b); reflexivity.
  - destruct (mon_op allow s o) as [s1 out]. rewrite IH.
    destruct (mon_run allow s1 a) as [s2 o1]. destruct (mon_run allow s2 b); reflexivity.
Qed.

(* the rewards held by the wrapper are those of the accepted steps since the last accepted reset *)
Lemma mon_rewards_inv allow ops : forall s,
  m_rewards (fst (mon_run allow s ops))
  = since_reset (m_rewards s) (accepted ops (snd (mon_run allow s ops))).
Proof.
  induction ops as [|o ops IH]; intros s; cbn [mon_run]; [reflexivity|].
  destruct (mon_op allow s o) as [s1 out] eqn:E.
  specialize (IH s1). destruct (mon_run allow s1 ops) as [s2 outs]. cbn [fst snd accepted] in *.
  rewrite IH. clear IH.
  destruct o as [r te tr|]; cbn [mon_op] in E.
  - destruct (step_refused (m_needs_reset s)).
    + inv E. reflexivity.
    + destruct (ends te tr); inv E; reflexivity.
  - destruct (reset_refused allow (m_needs_reset s)); inv E; reflexivity.
Qed.

(* any history, then one more step: refused iff an episode end (or nothing yet) was not followed by a
   reset; otherwise the info carries an episode entry iff the step ends the episode, and the entry is
   (sum, count) of the rewards of exactly the accepted steps since the last accepted reset *)
Lemma monitor_episode_info allow pre r te tr :
  let '(s, outs) := mon_run allow m0 pre in
  let rs := since_reset [] (accepted pre outs) ++ [r] in
  snd (mon_op allow s (MStep r te tr)) =
  if m_needs_reset s then MErrStep
  else MInfo (if te || tr then Some (zsum rs, zlen rs) else None).
Proof.
  pose proof (mon_rewards_inv allow pre m0) as H.
  destruct (mon_run allow m0 pre) as [s outs]. cbn [fst snd m_rewards m0] in H.
  cbn [mon_op]. unfold step_refused, ends. destruct (m_needs_reset s); [reflexivity|].
  rewrite H. destruct (te || tr); reflexivity.
Qed.

(* after an episode end the wrapper refuses steps until a reset; a reset is refused only when early
   resets are disallowed and the episode is still running *)
Lemma monitor_needs_reset_after_end allow s r te tr :
  m_needs_reset s = false -> te || tr = true ->
  m_needs_reset (fst (mon_op allow s (MStep r te tr))) = true.
Proof. intros Hn He. cbn [mon_op]. unfold step_refused, ends. rewrite Hn, He. reflexivity. Qed.

Lemma monitor_reset_allowed allow s :
  snd (mon_op allow s MReset) = if negb allow && negb (m_needs_reset s) then MErrReset else MResetOk.
Proof. cbn [mon_op]. unfold reset_refused. destruct (negb allow && negb (m_needs_reset s)); reflexivity. Qed.

(* the results file holds, in order, exactly the episode entries that were reported *)
Lemma mon_rows_inv allow ops : forall s,
  m_rows (fst (mon_run allow s ops)) = m_rows s ++ infos_of (snd (mon_run allow s ops)).
Proof.
  induction ops as [|o ops IH]; intros s; cbn [mon_run]; [cbn; now rewrite app_nil_r|].
  destruct (mon_op allow s o) as [s1 out] eqn:E.
  specialize (IH s1). destruct (mon_run allow s1 ops) as [s2 outs]. cbn [fst snd] in *.
  rewrite IH. clear IH.
  destruct o as [r te tr|]; cbn [mon_op] in E.
  - destruct (step_refused (m_needs_reset s)).
    + inv E. reflexivity.
    + destruct (ends te tr); inv E; cbn [m_rows infos_of]; [rewrite <- app_assoc|]; reflexivity.
  - destruct (reset_refused allow (m_needs_reset s)); inv E; reflexivity.
Qed.

Lemma file_rows_are_episodes_in_order_partial allow ops :
  load_rows (fst (mon_run allow m0 ops)) = infos_of (snd (mon_run allow m0 ops)).
Proof. unfold load_rows. rewrite mon_rows_inv. reflexivity. Qed.

(* the wrapper around a scripted environment is the wrapper run on the operations it lets through:
   total_steps counts the accepted steps *)
Lemma mon_total_inv allow ops : forall s,
  m_total (fst (mon_run allow s ops))
  = m_total s + zlen (filter (fun o => match o with MInfo _ => true | _ => false end) (snd (mon_run allow s ops))).
Proof.
  induction ops as [|o ops IH]; intros s; cbn [mon_run]; [cbn; lia|].
  destruct (mon_op allow s o) as [s1 out] eqn:E.
  specialize (IH s1). destruct (mon_run allow s1 ops) as [s2 outs]. cbn [fst snd] in *.
  rewrite IH. clear IH. unfold zlen.
  destruct o as [r te tr|]; cbn [mon_op] in E.
  - destruct (step_refused (m_needs_reset s)).
    + inv E. reflexivity.
    + destruct (ends te tr); inv E; cbn [m_total filter length]; lia.
  - destruct (reset_refused allow (m_needs_reset s)); inv E; reflexivity.
Qed.

(* ---------- VecMonitor, one sub-environment ---------- *)
Lemma vm_acc_inv h : forall a cur,
  v_ret a = zsum cur -> v_len a = zlen cur ->
  let a' := fst (vm_env_run a h) in
  v_ret a' = zsum (since_boundary cur h) /\ v_len a' = zlen (since_boundary cur h).
Proof.
  induction h as [|c h IH]; intros a cur Hr Hl; cbn [vm_env_run since_boundary]; [cbn; auto|].
  destruct c as [[r d]|]; cbn [vm_env_op].
  - unfold vm_env_step. destruct d.
    + specialize (IH v0 [] eq_refl eq_refl). destruct (vm_env_run v0 h). exact IH.
    + assert (H1 : v_ret (vm_add a r) = zsum (cur ++ [r])).
      { cbn. rewrite Hr. unfold zsum. rewrite fold_right_app. cbn.
        clear. induction cur as [|x cur IH]; cbn; [lia|]. rewrite <- IH. lia. }
      assert (H2 : v_len (vm_add a r) = zlen (cur ++ [r])).
      { cbn. rewrite Hl. unfold zlen. rewrite app_length. cbn. lia. }
      specialize (IH _ _ H1 H2). destruct (vm_env_run (vm_add a r) h). exact IH.
  - specialize (IH v0 [] eq_refl eq_refl). destruct (vm_env_run v0 h). exact IH.
Qed.

Lemma zsum_snoc l x : zsum (l ++ [x]) = zsum l + x.
Proof. unfold zsum. induction l as [|y l IH]; cbn; [lia|]. cbn in IH. rewrite IH. lia. Qed.

Lemma zlen_snoc {A} (l : list A) x : zlen (l ++ [x]) = zlen l + 1.
Proof. unfold zlen. rewrite app_length. cbn. lia. Qed.

(* any column history (steps, episode ends, vector resets), then one more step: the info carries an
   episode entry iff done, and it is (sum, count) of the rewards since the last episode end or reset *)
Lemma vecmonitor_episode_info pre r d :
  let a := fst (vm_env_run v0 pre) in
  let rs := since_boundary [] pre ++ [r] in
  snd (vm_env_step a r d) = if d then Some (zsum rs, zlen rs) else None.
Proof.
  pose proof (vm_acc_inv pre v0 [] eq_refl eq_refl) as [Hr Hl].
  cbn zeta. unfold vm_env_step. destruct d; [|reflexivity].
  cbn [snd vm_add v_ret v_len]. rewrite Hr, Hl, zsum_snoc, zlen_snoc. reflexivity.
Qed.

(* sub-environments do not influence each other: entry i of a vector step is the one-env step *)
Lemma vm_vec_step_proj accs cells i a c :
  nth_error accs i = Some a -> nth_error cells i = Some c ->
  nth_error (fst (vm_vec_step accs cells)) i = Some (fst (vm_env_step a (fst c) (snd c))) /\
  nth_error (snd (vm_vec_step accs cells)) i = Some (snd (vm_env_step a (fst c) (snd c))).
Proof.
  intros Ha Hc. unfold vm_vec_step. cbn [fst snd].
  assert (H : nth_error (combine accs cells) i = Some (a, c)).
  { revert i cells Ha Hc. induction accs as [|x accs IH]; intros [|i] [|y cells] Ha Hc; cbn in *; try discriminate.
    - inv Ha. inv Hc. reflexivity.
    - apply IH; assumption. }
  rewrite !map_map. split; erewrite map_nth_error by exact H; reflexivity.
Qed.

(* the file rows of the vector wrapper: all reported entries, step by step, in index order *)
Fixpoint vm_vec_run (st : list vacc * list (Z * Z)) (ops : list vop) : (list vacc * list (Z * Z)) * list (list (option (Z * Z))) :=
  match ops with
  | [] => (st, [])
  | o :: rest => let '(st1, i1) := vm_vec_op st o in let '(st2, is2) := vm_vec_run st1 rest in (st2, i1 :: is2)
  end.

Lemma vm_rows_inv ops : forall st,
  snd (fst (vm_vec_run st ops)) = snd st ++ flat_map somes (snd (vm_vec_run st ops)).
Proof.
  induction ops as [|o ops IH]; intros [accs rows]; cbn [vm_vec_run]; [cbn; now rewrite app_nil_r|].
  destruct (vm_vec_op (accs, rows) o) as [st1 i1] eqn:E.
  specialize (IH st1). destruct (vm_vec_run st1 ops) as [st2 is2]. cbn [fst snd flat_map] in *.
  rewrite IH. clear IH. destruct o as [cells|]; cbn [vm_vec_op] in E.
  - destruct (vm_vec_step accs cells) as [accs' infos]. inv E. cbn [snd]. now rewrite app_assoc.
  - inv E. cbn [snd]. f_equal.
    assert (H : somes (map (fun _ : vacc => @None (Z * Z)) accs) = []) by (induction accs; cbn; auto).
    rewrite H. reflexivity.
Qed.

(* ---------- review item: the wrapper around a scripted environment IS mon_run on the operations it lets through ---------- *)
Fixpoint mops_of (allow : bool) (sc : script) (c : cursor) (s : mstate) (ops : list uop) : list mop :=
  match ops with
  | [] => []
  | UReset :: rest =>
      if reset_refused allow (m_needs_reset s) then MReset :: mops_of allow sc c s rest
      else let '(c1, _, _) := env_reset sc c in MReset :: mops_of allow sc c1 (fst (mon_op allow s MReset)) rest
  | UStep :: rest =>
      if step_refused (m_needs_reset s) then MStep 0 false false :: mops_of allow sc c s rest
      else let '(c1, st) := env_step sc c in
           let o := MStep (st_r4 st) (st_term st) (st_trunc st) in
           o :: mops_of allow sc c1 (fst (mon_op allow s o)) rest
  end.

Lemma mon_env_run_is_mon_run allow sc : forall ops c s,
  mon_env_run allow sc c s ops = mon_run allow s (mops_of allow sc c s ops).
Proof.
  induction ops as [|o ops IH]; intros c s; [reflexivity|].
  destruct o; cbn [mon_env_run mops_of].
  - destruct (step_refused (m_needs_reset s)) eqn:E.
    + cbn [mon_run mon_op]. rewrite E. rewrite IH. reflexivity.
    + destruct (env_step sc c) as [c1 st]. cbn [mon_run].
      destruct (mon_op allow s (MStep (st_r4 st) (st_term st) (st_trunc st))) as [s1 out]. cbn [fst]. rewrite IH. reflexivity.
  - destruct (reset_refused allow (m_needs_reset s)) eqn:E.
    + cbn [mon_run mon_op]. rewrite E. rewrite IH. reflexivity.
    + destruct (env_reset sc c) as [[c1 a] b]. cbn [mon_run].
      destruct (mon_op allow s MReset) as [s1 out]. cbn [fst]. rewrite IH. reflexivity.
Qed.

(* ---------- load_results over several files: sorted by the absolute end instants, nothing lost or invented ---------- *)
From Coq Require Import Permutation Sorted.
Section LoadResultsProofs.
Context {A : Type}.
Definition le_t (a b : Z * A) : Prop := fst a <= fst b.

Lemma insert_perm (x : Z * A) l : Permutation (insert_by_t x l) (x :: l).
Proof.
  induction l as [|y r IH]; cbn; [reflexivity|]. destruct (fst x <=? fst y); [reflexivity|].
  rewrite IH. apply perm_swap.
Qed.

Lemma sort_perm (l : list (Z * A)) : Permutation (sort_by_t l) l.
Proof. induction l as [|x l IH]; cbn; [reflexivity|]. rewrite insert_perm. now constructor. Qed.

Lemma insert_sorted (x : Z * A) l : StronglySorted le_t l -> StronglySorted le_t (insert_by_t x l).
Proof.
  induction 1 as [|y r Hs IH Hall]; cbn; [repeat constructor|].
  destruct (fst x <=? fst y) eqn:E.
  - constructor; [now constructor|]. constructor; [unfold le_t; lia|].
    eapply Forall_impl; [|exact Hall]. intros z Hz. unfold le_t in *. lia.
  - constructor; [exact IH|]. rewrite Forall_forall. intros z Hz.
    apply (Permutation_in _ (insert_perm x r)) in Hz. destruct Hz as [<-|Hz]; [unfold le_t; lia|].
    rewrite Forall_forall in Hall. now apply Hall.
Qed.

Lemma sort_sorted (l : list (Z * A)) : StronglySorted le_t (sort_by_t l).
Proof. induction l as [|x l IH]; cbn; [constructor|]. now apply insert_sorted. Qed.

(* the model reader lists exactly the rows of all files (nothing lost, nothing invented), ordered by t_start_i + t *)
Lemma load_results_merge (files : list (@mfile A)) :
  Permutation (sort_by_t (flat_map absolute_rows files)) (flat_map absolute_rows files) /\
  StronglySorted le_t (sort_by_t (flat_map absolute_rows files)).
Proof. split; [apply sort_perm|apply sort_sorted]. Qed.

(* a list that is already in strictly increasing order of time is left as it is: when the end instants are distinct, the
   result is THE chronological list *)
Lemma sort_sorted_id (l : list (Z * A)) : StronglySorted (fun a b => fst a < fst b) l -> sort_by_t l = l.
Proof.
  induction 1 as [|x r Hs IH Hall]; [reflexivity|].
  change (sort_by_t (x :: r)) with (insert_by_t x (sort_by_t r)). rewrite IH. destruct r as [|y r']; [reflexivity|].
  cbn [insert_by_t]. inversion Hall; subst. replace (fst x <=? fst y) with true by lia. reflexivity.
Qed.
End LoadResultsProofs.
