(* C01 - tie of the per-env auto-reset step duplicated in Model/OnPolicyCollect.v (vstep1, used by the
   collection models of C04/C06) to Model/VecEnv.v: it is the projection of sub_step on the scripted
   sub-environment. *)
From SB3V Require Import Lib.Tactics Model.Script Model.VecEnv Model.OnPolicyCollect.
Local Open Scope nat_scope.

Theorem vstep1_is_sub_step : forall (sc : script) (c : cursor) (ri : option Z) (a : Z),
  let r := sub_step sc_step sc_reset (sc, c) ri a in
  let o := snd (fst r) in
  let v := snd (vstep1 sc c) in
  fst (fst (fst r)) = (sc, fst (vstep1 sc c)) /\
  so_obs o = vo_obs v /\ so_rew o = vo_r4 v /\ so_done o = vo_done v /\
  so_term o = vo_term v /\ so_tl o = vo_tl v /\
  vo_done v = (vo_terminated v || vo_truncated v) /\ vo_tl v = (vo_truncated v && negb (vo_terminated v)).
Proof.
  intros sc c ri a. unfold sub_step, sc_step, vstep1.
  destruct (env_step sc c) as [c1 st] eqn:E.
  destruct (st_term st || st_trunc st) eqn:D.
  - unfold sc_reset. destruct (env_reset sc c1) as [[c2 otag] inf] eqn:R. cbn.
    repeat split; auto.
  - cbn. repeat split; auto.
Qed.
