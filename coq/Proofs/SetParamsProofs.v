From Coq Require Import List ZArith Bool String Lia.
From SB3V Require Import Gen.Frag_loadflow Model.SaveLoad Model.LoadFlow Model.SetParams Proofs.SaveLoadProofs.
Import ListNotations.
Local Open Scope Z_scope.

(* ---------- interface lemmas (base_class.py :: set_parameters) ---------- *)
Lemma frag_set_parameters_tests e d o :
  names_raise e d = sp_names_raise e d (negb d) /\ strict_arg e = sp_strict_arg e /\ sp_is_optimizer o (negb o) = o.
Proof. destruct e, d, o; repeat split. Qed.

(* ---------- state dicts ---------- *)
Lemma filter_nil_forall {A} (f : A -> bool) l : filter f l = [] -> forall x, In x l -> f x = false.
Proof.
  induction l as [|a l IH]; [contradiction|]. cbn [filter]. destruct (f a) eqn:E; [discriminate|].
  intros H x [->|Hx]; [exact E|now apply IH].
Qed.

Lemma sd_get_in k v sd : sd_get k sd = Some v -> In (k, v) sd.
Proof.
  induction sd as [|[k' v'] sd IH]; [discriminate|]. cbn [sd_get]. destruct (Z.eqb k k') eqn:E.
  - apply Z.eqb_eq in E. intros H. inversion H; subst. now left.
  - intros H. right. now apply IH.
Qed.

Lemma sd_get_merge k own g :
  sd_get k (merge own g) = match sd_get k own with Some v => Some (match sd_get k g with Some v' => v' | None => v end) | None => None end.
Proof.
  unfold merge. induction own as [|[k' v] own IH]; [reflexivity|]. cbn [map sd_get fst snd].
  destruct (Z.eqb k k') eqn:E; [|exact IH]. apply Z.eqb_eq in E. now subst.
Qed.

Lemma strict_ok_spec own g : strict_ok own g = true ->
  (forall k v, sd_get k own = Some v -> sd_has k g = true) /\ (forall k v, sd_get k g = Some v -> sd_has k own = true).
Proof.
  unfold strict_ok, missing_keys, unexpected_keys.
  destruct (filter _ own) eqn:F1; [|discriminate]. destruct (filter _ g) eqn:F2; [|discriminate]. intros _. split; intros k v H.
  - apply sd_get_in in H. pose proof (filter_nil_forall _ _ F1 _ H) as X. cbn [fst] in X. now apply negb_false_iff in X.
  - apply sd_get_in in H. pose proof (filter_nil_forall _ _ F2 _ H) as X. cbn [fst] in X. now apply negb_false_iff in X.
Qed.

(* strict loading without complaint installs the given state dict exactly: same keys, the given tensors *)
Lemma merge_strict_ok own g : strict_ok own g = true -> forall k, sd_get k (merge own g) = sd_get k g.
Proof.
  intros H k. destruct (strict_ok_spec own g H) as [Hm Hu]. rewrite sd_get_merge.
  destruct (sd_get k own) as [v|] eqn:Eo.
  - pose proof (Hm k v Eo) as X. unfold sd_has in X. now destruct (sd_get k g).
  - destruct (sd_get k g) as [v'|] eqn:Eg; [|reflexivity]. pose proof (Hu k v' Eg) as X. unfold sd_has in X. now rewrite Eo in X.
Qed.

(* ---------- the object table ---------- *)
Lemma tlookup_tset n n' t m :
  tlookup n (tset n' t m) = if String.eqb n n' then match tlookup n m with Some _ => Some t | None => None end else tlookup n m.
Proof.
  induction m as [|[n2 t2] m IH]; [now destruct (String.eqb n n')|]. cbn [tset].
  destruct (String.eqb n' n2) eqn:E2; cbn [tlookup].
  - apply String.eqb_eq in E2. subst n2. now destruct (String.eqb n n').
  - rewrite IH. destruct (String.eqb n n') eqn:E; [|reflexivity].
    apply String.eqb_eq in E. subst n'. now rewrite E2.
Qed.

Lemma tlookup_tset_other n n' t m : n <> n' -> tlookup n (tset n' t m) = tlookup n m.
Proof. intros H. rewrite tlookup_tset. apply String.eqb_neq in H. now rewrite H. Qed.

(* frame: an object that is not named in the dictionary never changes - whether set_parameters raises or not *)
Lemma sp_loop_frame exact n params : forall m upd, ~ In n (map fst params) ->
  tlookup n (fst (fst (sp_loop exact params m upd))) = tlookup n m.
Proof.
  induction params as [|[n' g] params IH]; intros m upd Hn; [reflexivity|]. cbn [sp_loop].
  assert (N : n <> n') by (intros ->; apply Hn; now left).
  assert (Hn' : ~ In n (map fst params)) by (intros X; apply Hn; now right).
  destruct (tlookup n' m) as [[own|st]|]; [| |reflexivity].
  - destruct (strict_arg exact && negb (strict_ok own g)); [cbn [fst]; now apply tlookup_tset_other|].
    rewrite IH by exact Hn'. now apply tlookup_tset_other.
  - rewrite IH by exact Hn'. now apply tlookup_tset_other.
Qed.

Definition installed (exact : bool) (m m' : tmodel) (n : string) (g : sdict) : Prop :=
  match tlookup n m with
  | Some (TModule own) => tlookup n m' = Some (TModule (merge own g)) /\ (exact = true -> strict_ok own g = true)
  | Some (TOptim _) => tlookup n m' = Some (TOptim g)
  | None => False
  end.

(* when the loop finishes without error, EVERY given object has been loaded (modules: merged, and under exact_match nothing was
   missing or unexpected; optimizers: replaced), and updated_objects = the given names *)
Lemma sp_loop_ok exact params : forall m upd m' upd', NoDup (map fst params) ->
  sp_loop exact params m upd = (m', upd', None) ->
  upd' = rev (map fst params) ++ upd /\ forall n g, In (n, g) params -> installed exact m m' n g.
Proof.
  induction params as [|[n g] params IH]; intros m upd m' upd' Hnd H.
  - inversion H; subst. split; [reflexivity|contradiction].
  - cbn [map fst] in Hnd. inversion Hnd as [|? ? Hnin Hnd']; subst. cbn [sp_loop] in H.
    destruct (tlookup n m) as [[own|st]|] eqn:El; [| |discriminate].
    + destruct (strict_arg exact && negb (strict_ok own g)) eqn:Es; [discriminate|].
      destruct (IH _ _ _ _ Hnd' H) as [Hu Hall]. split.
      * rewrite Hu. cbn [map fst rev]. now rewrite <- app_assoc.
      * intros n2 g2 [E|Hin].
        -- inversion E; subst. unfold installed. rewrite El. split.
           ++ pose proof (sp_loop_frame exact n2 params (tset n2 (TModule (merge own g2)) m) (n2 :: upd) Hnin) as F.
              rewrite H in F. cbn [fst] in F. rewrite F, tlookup_tset, String.eqb_refl. now rewrite El.
           ++ intros ->. unfold strict_arg in Es. cbn [andb] in Es. now apply negb_false_iff in Es.
        -- assert (N : n2 <> n) by (intros ->; apply Hnin; apply in_map_iff; now exists (n, g2)).
           pose proof (Hall n2 g2 Hin) as X. unfold installed in *. now rewrite tlookup_tset_other in X by exact N.
    + destruct (IH _ _ _ _ Hnd' H) as [Hu Hall]. split.
      * rewrite Hu. cbn [map fst rev]. now rewrite <- app_assoc.
      * intros n2 g2 [E|Hin].
        -- inversion E; subst. unfold installed. rewrite El.
           pose proof (sp_loop_frame exact n2 params (tset n2 (TOptim g2) m) (n2 :: upd) Hnin) as F.
           rewrite H in F. cbn [fst] in F. rewrite F, tlookup_tset, String.eqb_refl. now rewrite El.
        -- assert (N : n2 <> n) by (intros ->; apply Hnin; apply in_map_iff; now exists (n, g2)).
           pose proof (Hall n2 g2 Hin) as X. unfold installed in *. now rewrite tlookup_tset_other in X by exact N.
Qed.

(* the loop is sequential: a prefix without error, then the rest from the state the prefix left *)
Lemma sp_loop_app exact pre post : forall m upd,
  sp_loop exact (pre ++ post) m upd =
  match sp_loop exact pre m upd with (m1, u1, None) => sp_loop exact post m1 u1 | r => r end.
Proof.
  induction pre as [|[n g] pre IH]; intros m upd; [reflexivity|]. cbn [app sp_loop].
  destruct (tlookup n m) as [[own|st]|]; [| |reflexivity].
  - destruct (strict_arg exact && negb (strict_ok own g)); [reflexivity|apply IH].
  - apply IH.
Qed.

Lemma mem_in n l : mem n l = true <-> In n l.
Proof. apply mem_spec. Qed.
Lemma subset_spec a b : subset a b = true <-> forall x, In x a -> In x b.
Proof.
  unfold subset. rewrite forallb_forall. split; intros H x Hx; [apply mem_in|apply mem_in]; now apply H.
Qed.

Section Full.
Variables (needing : list string) (params : list (string * sdict)) (m : tmodel).
Hypothesis names_nodup : NoDup (map fst params).      (* a Python dict *)

(* MAIN (never silently partial): exact_match=True either raises or has installed every object that needs updating - each of
   them was given, each module holds exactly the given state dict (same keys, given tensors), each optimizer the given state *)
Lemma set_parameters_exact_installs m' :
  set_parameters_full true needing params m = (m', None) ->
  forall n, In n needing ->
  exists g, In (n, g) params /\
    match tlookup n m with
    | Some (TModule _) => exists sd', tlookup n m' = Some (TModule sd') /\ forall k, sd_get k sd' = sd_get k g
    | Some (TOptim _) => tlookup n m' = Some (TOptim g)
    | None => False
    end.
Proof.
  unfold set_parameters_full. destruct (sp_loop true params m []) as [[m1 u1] [e|]] eqn:L; [discriminate|].
  destruct (names_raise true (negb (set_eqb u1 needing))) eqn:R; [discriminate|]. intros H n Hn. inversion H; subst m1. clear H.
  destruct (sp_loop_ok _ _ _ _ _ _ names_nodup L) as [Hu Hall]. rewrite app_nil_r in Hu. subst u1.
  unfold names_raise in R. cbn [andb] in R. apply negb_false_iff in R. unfold set_eqb in R. apply andb_true_iff in R. destruct R as [_ R].
  pose proof (proj1 (subset_spec _ _) R n Hn) as X. rewrite <- in_rev in X. apply in_map_iff in X. destruct X as ([n' g] & E & Hin). cbn [fst] in E. subst n'.
  exists g. split; [exact Hin|]. pose proof (Hall n g Hin) as I. unfold installed in I.
  destruct (tlookup n m) as [[own|st]|]; [|exact I|exact I].
  destruct I as [I S]. exists (merge own g). split; [exact I|]. apply merge_strict_ok. now apply S.
Qed.

(* ... and nothing else was touched *)
Lemma set_parameters_frame exact n : ~ In n (map fst params) ->
  tlookup n (fst (set_parameters_full exact needing params m)) = tlookup n m.
Proof.
  intros Hn. unfold set_parameters_full. pose proof (sp_loop_frame exact n params m [] Hn) as F.
  destruct (sp_loop exact params m []) as [[m1 u1] [e|]]; cbn [fst] in *; [exact F|].
  destruct (names_raise exact _); exact F.
Qed.

(* exact_match=False: every given object is loaded, missing / unexpected keys are tolerated, the names are not compared *)
Lemma set_parameters_inexact m' e :
  set_parameters_full false needing params m = (m', e) ->
  (e = None /\ forall n g, In (n, g) params -> installed false m m' n g) \/ (exists n, e = Some (SPInvalidName n)).
Proof.
  unfold set_parameters_full. destruct (sp_loop false params m []) as [[m1 u1] [e1|]] eqn:L.
  - intros H. inversion H; subst. right.
    clear names_nodup H. revert m L. generalize (@nil string) as upd. induction params as [|[n g] ps IH]; intros upd m0 L; [discriminate|].
    cbn [sp_loop strict_arg andb] in L. destruct (tlookup n m0) as [[own|st]|]; [now apply IH in L|now apply IH in L|].
    inversion L; subst. now exists n.
  - cbn [names_raise andb]. intros H. inversion H; subst. left. split; [reflexivity|]. exact (proj2 (sp_loop_ok _ _ _ _ _ _ names_nodup L)).
Qed.

(* HONEST statement about the raise: the names are compared AFTER the loop - when exact_match=True raises because of the names,
   every given object has already been loaded into the model *)
Lemma set_parameters_names_error_after_install exact m' :
  set_parameters_full exact needing params m = (m', Some SPNames) ->
  exact = true /\ set_eqb (map fst params) needing = false /\ forall n g, In (n, g) params -> installed exact m m' n g.
Proof.
  unfold set_parameters_full. destruct (sp_loop exact params m []) as [[m1 u1] [e|]] eqn:L; [intros H; inversion H; subst; clear H|].
  - exfalso. clear names_nodup. revert m L. generalize (@nil string) as upd. induction params as [|[n g] ps IH]; intros upd m0 L; [discriminate|].
    cbn [sp_loop] in L. destruct (tlookup n m0) as [[own|st]|]; [|now apply IH in L|discriminate].
    destruct (strict_arg exact && negb (strict_ok own g)); [discriminate|now apply IH in L].
  - destruct (sp_loop_ok _ _ _ _ _ _ names_nodup L) as [Hu Hall]. rewrite app_nil_r in Hu. subst u1.
    destruct (names_raise exact _) eqn:R; [|discriminate]. intros H. inversion H; subst. clear H.
    unfold names_raise in R. apply andb_true_iff in R. destruct R as [-> R]. apply negb_true_iff in R. repeat split; [|exact Hall].
    unfold set_eqb in *. apply andb_false_iff in R. apply andb_false_iff.
    destruct R as [R|R]; [left|right]; apply not_true_is_false; intros X; apply not_true_iff_false in R; apply R; apply subset_spec;
      intros x Hx; pose proof (proj1 (subset_spec _ _) X) as Y.
    + apply Y. now rewrite <- in_rev in Hx.
    + rewrite <- in_rev. now apply Y.
Qed.

(* completeness: when every name is valid, (under exact_match) no module has missing / unexpected keys and the names are the
   ones needing an update, set_parameters does not raise *)
Lemma set_parameters_no_raise exact :
  (forall n g, In (n, g) params -> match tlookup n m with Some (TModule own) => exact = true -> strict_ok own g = true | Some (TOptim _) => True | None => False end) ->
  (exact = true -> set_eqb (map fst params) needing = true) ->
  snd (set_parameters_full exact needing params m) = None.
Proof.
  intros Hall Hset. unfold set_parameters_full.
  assert (L : exists m1, sp_loop exact params m [] = (m1, rev (map fst params) ++ [], None)).
  { revert Hall. generalize names_nodup. generalize (@nil string) as upd. generalize m. clear.
    induction params as [|[n g] ps IH]; intros m0 upd Hnd Hall; [now exists m0|].
    cbn [map fst] in Hnd. inversion Hnd as [|? ? Hnin Hnd']; subst. cbn [sp_loop].
    pose proof (Hall n g (or_introl eq_refl)) as H0.
    assert (T : forall t, forall n2 g2, In (n2, g2) ps ->
       match tlookup n2 (tset n t m0) with Some (TModule own) => exact = true -> strict_ok own g2 = true | Some (TOptim _) => True | None => False end).
    { intros t n2 g2 Hin. assert (N : n2 <> n) by (intros ->; apply Hnin; apply in_map_iff; now exists (n, g2)).
      rewrite tlookup_tset_other by exact N. apply Hall. now right. }
    destruct (tlookup n m0) as [[own|st]|]; [| |contradiction].
    - assert (Es : strict_arg exact && negb (strict_ok own g) = false).
      { unfold strict_arg. destruct exact; [|reflexivity]. now rewrite (H0 eq_refl). }
      rewrite Es. destruct (IH (tset n (TModule (merge own g)) m0) (n :: upd) Hnd' (T _)) as [m1 E]. exists m1. rewrite E.
      cbn [map fst rev]. now rewrite <- app_assoc.
    - destruct (IH (tset n (TOptim g) m0) (n :: upd) Hnd' (T _)) as [m1 E]. exists m1. rewrite E. cbn [map fst rev]. now rewrite <- app_assoc. }
  destruct L as [m1 ->]. rewrite app_nil_r. unfold names_raise. destruct exact; [|reflexivity]. cbn [andb].
  assert (E : set_eqb (rev (map fst params)) needing = true).
  { pose proof (Hset eq_refl) as X. unfold set_eqb in *. apply andb_true_iff in X. destruct X as [X1 X2]. apply andb_true_iff.
    split; apply subset_spec; intros x Hx.
    - apply (proj1 (subset_spec _ _) X1). now rewrite <- in_rev in Hx.
    - rewrite <- in_rev. now apply (proj1 (subset_spec _ _) X2). }
  now rewrite E.
Qed.
End Full.

(* raise on an invalid name / a strict failure in the middle: the objects before it are loaded, the failing module itself has its
   matching keys copied (torch copies before it complains), the objects after it are untouched *)
Lemma sp_raise_invalid_name exact pre n g post m upd m1 u1 :
  sp_loop exact pre m upd = (m1, u1, None) -> tlookup n m1 = None ->
  sp_loop exact (pre ++ (n, g) :: post) m upd = (m1, u1, Some (SPInvalidName n)).
Proof. intros H Hl. rewrite sp_loop_app, H. cbn [sp_loop]. now rewrite Hl. Qed.

Lemma sp_raise_strict pre n g post m upd m1 u1 own :
  sp_loop true pre m upd = (m1, u1, None) -> tlookup n m1 = Some (TModule own) -> strict_ok own g = false ->
  sp_loop true (pre ++ (n, g) :: post) m upd = (tset n (TModule (merge own g)) m1, u1, Some (SPStrict n)).
Proof. intros H Hl Hs. rewrite sp_loop_app, H. cbn [sp_loop]. rewrite Hl, Hs. reflexivity. Qed.
