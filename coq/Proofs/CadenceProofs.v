(* C08 - when the targets are updated. *)
From SB3V Require Import Lib.Tactics Gen.Frag_polyak Model.Cadence.
Local Open Scope Z_scope.

(* ------------------------------------------------------------------ interface lemmas *)
Lemma frag_dqn c tui n :
  dqn_update_cond (dqn_count c) tui n = ((c + 1) mod dqn_period tui n =? 0).
Proof. reflexivity. Qed.
Lemma frag_td3 c delay : td3_update_cond (td3_count c) delay = ((c + 1) mod delay =? 0).
Proof. reflexivity. Qed.
Lemma frag_sac g tui : sac_update_cond g tui = (g mod tui =? 0).
Proof. reflexivity. Qed.

(* ------------------------------------------------------------------ arithmetic *)
Lemma div_succ m c : 0 < m -> (c + 1) / m = c / m + (if (c + 1) mod m =? 0 then 1 else 0).
Proof.
  intros Hm. pose proof (Z.div_mod c m ltac:(lia)) as H1. pose proof (Z.div_mod (c + 1) m ltac:(lia)) as H2.
  pose proof (Z.mod_pos_bound c m Hm) as B1. pose proof (Z.mod_pos_bound (c + 1) m Hm) as B2.
  destruct (Z.eqb_spec ((c + 1) mod m) 0) as [E|E]; nia.
Qed.

Lemma dqn_period_pos tui n : 0 < dqn_period tui n.
Proof. unfold dqn_period. lia. Qed.

(* ------------------------------------------------------------------ the generic counter *)
Lemma dqn_steps_length m : forall k c, length (dqn_steps m c k) = k.
Proof. induction k; intros c; simpl; [reflexivity|]. rewrite IHk. reflexivity. Qed.

Lemma dqn_steps_nth m : forall k c j, (j < k)%nat ->
  nth j (dqn_steps m c k) false = ((c + Z.of_nat j + 1) mod m =? 0).
Proof.
  induction k as [|k IH]; intros c j Hj; [lia|]. cbn [dqn_steps]. destruct j as [|j]; cbn [nth].
  - replace (c + Z.of_nat 0 + 1) with (c + 1) by lia. reflexivity.
  - rewrite IH by lia. replace (c + 1 + Z.of_nat j + 1) with (c + Z.of_nat (S j) + 1) by lia. reflexivity.
Qed.

Lemma dqn_steps_app m : forall a b c,
  dqn_steps m c (a + b) = dqn_steps m c a ++ dqn_steps m (c + Z.of_nat a) b.
Proof.
  induction a as [|a IH]; intros b c.
  - cbn [Nat.add dqn_steps app]. replace (c + Z.of_nat 0) with c by lia. reflexivity.
  - cbn [Nat.add dqn_steps app]. rewrite IH. replace (c + 1 + Z.of_nat a) with (c + Z.of_nat (S a)) by lia. reflexivity.
Qed.

Lemma count_true_cons b l : count_true (b :: l) = (if b then 1 else 0) + count_true l.
Proof. unfold count_true. cbn [filter]. destruct b; cbn [length]; [rewrite Nat2Z.inj_succ|]; lia. Qed.

Lemma count_true_app l1 l2 : count_true (l1 ++ l2) = count_true l1 + count_true l2.
Proof. unfold count_true. rewrite filter_app, app_length. lia. Qed.

Theorem dqn_steps_count m : 0 < m -> forall k c,
  count_true (dqn_steps m c k) = (c + Z.of_nat k) / m - c / m.
Proof.
  intros Hm. induction k as [|k IH]; intros c.
  - simpl. unfold count_true. simpl. replace (c + 0) with c by lia. lia.
  - cbn [dqn_steps]. rewrite count_true_cons, IH. rewrite (div_succ m c Hm).
    replace (c + 1 + Z.of_nat k) with (c + Z.of_nat (S k)) by lia.
    destruct ((c + 1) mod m =? 0); lia.
Qed.

(* ------------------------------------------------------------------ DQN *)
(* the j-th vectorised env step (1-based: j = i+1) updates iff j is a multiple of max(tui // n_envs, 1);
   after k steps there have been floor(k / period) updates *)
Theorem dqn_update_times tui n k :
  (forall i, (i < k)%nat -> nth i (dqn_steps (dqn_period tui n) 0 k) false = ((Z.of_nat i + 1) mod dqn_period tui n =? 0)) /\
  count_true (dqn_steps (dqn_period tui n) 0 k) = Z.of_nat k / dqn_period tui n.
Proof.
  split.
  - intros i Hi. rewrite dqn_steps_nth by exact Hi. reflexivity.
  - rewrite dqn_steps_count by apply dqn_period_pos. rewrite Z.div_0_l; [|pose proof (dqn_period_pos tui n); lia]. simpl. lia.
Qed.

(* when n_envs divides tui the period counted in environment steps is exactly tui *)
Theorem dqn_period_env_steps tui n : 0 < n -> 0 < tui -> tui mod n = 0 -> dqn_period tui n * n = tui.
Proof.
  intros Hn Ht Hd. unfold dqn_period. pose proof (Z.div_mod tui n ltac:(lia)).
  assert (1 <= tui / n) by nia. nia.
Qed.

(* in general it is the largest multiple of n_envs not exceeding tui, and n_envs when tui < n_envs *)
Theorem dqn_period_env_steps_general tui n : 0 < n -> 0 < tui ->
  let g := dqn_period tui n * n in
  (n <= tui -> g <= tui < g + n) /\ (tui < n -> g = n).
Proof.
  intros Hn Ht. cbn zeta. unfold dqn_period. pose proof (Z.div_mod tui n ltac:(lia)).
  pose proof (Z.mod_pos_bound tui n Hn). split; intros Hc.
  - assert (1 <= tui / n) by nia. nia.
  - rewrite Z.div_small by lia. lia.
Qed.

(* ------------------------------------------------------------------ TD3 / DDPG *)
Lemma td3_train_eq delay : forall g c, td3_train delay c g = (dqn_steps delay c g, c + Z.of_nat g).
Proof.
  induction g as [|g IH]; intros c; simpl.
  - f_equal. lia.
  - rewrite IH. f_equal. lia.
Qed.

(* the flags of any sequence of train() calls are those of ONE run of sum(gradient steps): the
   cadence does not depend on how the gradient steps are grouped into calls *)
Theorem td3_calls_global delay : forall gs c,
  td3_calls delay c gs = dqn_steps delay c (fold_right Nat.add 0%nat gs).
Proof.
  induction gs as [|g gs IH]; intros c; simpl; [reflexivity|].
  rewrite td3_train_eq, IH, dqn_steps_app. reflexivity.
Qed.

Theorem td3_update_times delay gs : 0 < delay ->
  let total := fold_right Nat.add 0%nat gs in
  (forall i, (i < total)%nat -> nth i (td3_calls delay 0 gs) false = ((Z.of_nat i + 1) mod delay =? 0)) /\
  count_true (td3_calls delay 0 gs) = Z.of_nat total / delay.
Proof.
  intros Hd. cbn zeta. rewrite td3_calls_global. split.
  - intros i Hi. rewrite dqn_steps_nth by exact Hi. reflexivity.
  - rewrite dqn_steps_count by exact Hd. rewrite Z.div_0_l by lia. simpl. lia.
Qed.

(* ------------------------------------------------------------------ SAC *)
Lemma sac_train_eq tui : forall g, sac_train tui g = dqn_steps tui (-1) g.
Proof.
  intros g. unfold sac_train.
  assert (H : forall g s, map (fun j => Z.of_nat j mod tui =? 0) (seq s g) = dqn_steps tui (Z.of_nat s - 1) g).
  { induction g0 as [|g0 IH]; intros s; simpl; [reflexivity|]. f_equal.
    - f_equal. f_equal. lia.
    - rewrite IH. f_equal. lia. }
  apply (H g 0%nat).
Qed.

(* inside one train(g) call: gradient step j (0-based) updates iff j % tui == 0: ceil(g / tui) updates *)
Theorem sac_update_times_per_call tui g : 0 < tui ->
  (forall j, (j < g)%nat -> nth j (sac_train tui g) false = (Z.of_nat j mod tui =? 0)) /\
  count_true (sac_train tui g) = (Z.of_nat g - 1) / tui + 1.
Proof.
  intros Ht. rewrite sac_train_eq. split.
  - intros j Hj. rewrite dqn_steps_nth by exact Hj. f_equal. f_equal. lia.
  - rewrite dqn_steps_count by exact Ht.
    replace (-1 / tui) with (-1).
    + replace (-1 + Z.of_nat g) with (Z.of_nat g - 1) by lia. lia.
    + apply Z.div_unique with (r := tui - 1); lia.
Qed.

(* consequence (finding F9): with gradient_steps = 1 every call updates, whatever the interval *)
Theorem sac_one_step_calls_always_update tui n : 0 < tui -> sac_calls tui (repeat 1%nat n) = repeat true n.
Proof.
  intros Ht. induction n as [|n IH]; [reflexivity|].
  cbn [repeat]. unfold sac_calls. cbn [flat_map]. fold (sac_calls tui (repeat 1%nat n)). rewrite IH.
  unfold sac_train. cbn [seq map app]. change (Z.of_nat 0) with 0. rewrite Z.mod_0_l by lia. reflexivity.
Qed.

(* the spacing of DQN's updates in environment steps is as close to the configured interval as the vector step allows, never later *)
Theorem dqn_spacing_window tui n : 0 < n -> 0 < tui ->
  let g := dqn_period tui n * n in
  (n <= tui -> tui - n < g <= tui) /\ (tui <= n -> g = n).
Proof.
  intros Hn Ht. cbn zeta. unfold dqn_period. pose proof (Z.div_mod tui n ltac:(lia)). pose proof (Z.mod_pos_bound tui n Hn).
  split; intros Hc.
  - assert (1 <= tui / n) by nia. nia.
  - destruct (Z.eq_dec tui n) as [->|]; [rewrite Z_div_same_full by lia; lia|]. rewrite Z.div_small by lia. lia.
Qed.
