(* C08 - the Polyak rule. *)
From Coq Require Import List QArith Lqa.
From SB3V Require Import Gen.Frag_polyak Model.Polyak.
Import ListNotations.
Local Open Scope Q_scope.

(* interface: the model is "scale the target by the regenerated factor, add alpha * online" *)
Lemma frag_polyak tau p t :
  let t1 := t * polyak_scale tau in
  polyak tau p t == polyak_add_a t1 p tau + polyak_alpha t1 p tau * polyak_add_b t1 p tau /\
  polyak_out t1 p tau = t1 /\
  (polyak_scale_op, polyak_add_op, polyak_zip, polyak_zip_first, polyak_zip_second) = (1, 1, 1, 1, 2)%Z.
Proof. cbn zeta. unfold polyak, polyak_scale, polyak_add_a, polyak_add_b, polyak_alpha, polyak_out. split; [ring|split; reflexivity]. Qed.

(* every polyak_update call of the algorithms: (source list, target list) = (online X, target X) and the coefficient is the configured
   tau for parameters, 1.0 for running statistics (ids: 1/2 q_net, 3/4 batch_norm_stats, 5/6 critic, 7/8 actor, 9/10 critic stats, 11/12 actor stats) *)
Lemma frag_polyak_calls tau :
  (dqn_pu0_src, dqn_pu0_dst, dqn_pu1_src, dqn_pu1_dst) = (1, 2, 3, 4)%Z /\ dqn_pu0_tau tau = tau /\ dqn_pu1_tau tau == 1 /\
  (sac_pu0_src, sac_pu0_dst, sac_pu1_src, sac_pu1_dst) = (5, 6, 3, 4)%Z /\ sac_pu0_tau tau = tau /\ sac_pu1_tau tau == 1 /\
  (td3_pu0_src, td3_pu0_dst, td3_pu1_src, td3_pu1_dst, td3_pu2_src, td3_pu2_dst, td3_pu3_src, td3_pu3_dst) = (5, 6, 7, 8, 9, 10, 11, 12)%Z /\
  td3_pu0_tau tau = tau /\ td3_pu1_tau tau = tau /\ td3_pu2_tau tau == 1 /\ td3_pu3_tau tau == 1.
Proof. repeat split; reflexivity. Qed.

Lemma polyak_law tau p t : polyak tau p t == (1 - tau) * t + tau * p.
Proof. unfold polyak. ring. Qed.

Lemma polyak_tau1_copy p t : polyak 1 p t == p.
Proof. unfold polyak. ring. Qed.

Lemma polyak_tau0_id p t : polyak 0 p t == t.
Proof. unfold polyak. ring. Qed.

Lemma polyak_between tau p t : 0 <= tau <= 1 ->
  (p <= t -> p <= polyak tau p t <= t) /\ (t <= p -> t <= polyak tau p t <= p).
Proof. unfold polyak. intros [H0 H1]. split; intros H; split; nra. Qed.

(* fixed point: a target equal to the online value stays there *)
Lemma polyak_fixed tau p : polyak tau p p == p.
Proof. unfold polyak. ring. Qed.

Lemma polyak_list_cons tau p ps t ts :
  polyak_list tau (p :: ps) (t :: ts) =
  match polyak_list tau ps ts with Some r => Some (Qred (polyak tau p t) :: r) | None => None end.
Proof. reflexivity. Qed.

Lemma polyak_list_length tau : forall ps ts r, polyak_list tau ps ts = Some r -> length ps = length ts /\ length r = length ts.
Proof.
  induction ps as [|p ps IH]; intros [|t ts] r H; try discriminate.
  - inversion H. split; reflexivity.
  - rewrite polyak_list_cons in H. destruct (polyak_list tau ps ts) eqn:E; [|discriminate].
    injection H as Hr. subst r.
    destruct (IH _ _ E). cbn [length]. split; congruence.
Qed.

Lemma polyak_list_mismatch tau : forall ps ts, length ps <> length ts -> polyak_list tau ps ts = None.
Proof.
  induction ps as [|p ps IH]; intros [|t ts] H; cbn [length] in H; try reflexivity; try congruence.
  rewrite polyak_list_cons, IH; [reflexivity|congruence].
Qed.

Lemma polyak_list_total tau : forall ps ts, length ps = length ts -> exists r, polyak_list tau ps ts = Some r.
Proof.
  induction ps as [|p ps IH]; intros [|t ts] H; cbn [length] in H; try discriminate.
  - eexists; reflexivity.
  - destruct (IH ts) as [r Hr]; [congruence|]. rewrite polyak_list_cons, Hr. eexists; reflexivity.
Qed.

Lemma polyak_list_nth tau : forall ps ts r i p t,
  polyak_list tau ps ts = Some r -> nth_error ps i = Some p -> nth_error ts i = Some t ->
  exists x, nth_error r i = Some x /\ x == polyak tau p t.
Proof.
  induction ps as [|p0 ps IH]; intros [|t0 ts] r i p t H Hp Ht; try discriminate.
  - destruct i; discriminate.
  - rewrite polyak_list_cons in H. destruct (polyak_list tau ps ts) eqn:E; [|discriminate].
    injection H as Hr. subst r.
    destruct i as [|i]; cbn [nth_error] in *.
    + inversion Hp; inversion Ht; subst. exists (Qred (polyak tau p t)). split; [reflexivity|]. apply Qred_correct.
    + eapply IH; eauto.
Qed.

(* who may write what *)
Lemma opt_step_keeps_target s o : snd (pair_step s (OptStep o)) = snd s.
Proof. reflexivity. Qed.
Lemma update_keeps_online s tau : fst (pair_step s (Update tau)) = fst s.
Proof. reflexivity. Qed.

Definition is_opt (e : event) : bool := match e with OptStep _ => true | Update _ => false end.

Lemma targets_change_only_at_updates es : forall s, forallb is_opt es = true -> snd (pair_run s es) = snd s.
Proof.
  unfold pair_run. induction es as [|e es IH]; intros s H; simpl in *; [reflexivity|].
  apply andb_prop in H. destruct H as [He Hes]. rewrite IH by exact Hes.
  destruct e; [reflexivity|discriminate].
Qed.

(* an update writes exactly the polyak value of the online parameters of that moment *)
Lemma update_writes_polyak s tau i p t :
  length (fst s) = length (snd s) -> nth_error (fst s) i = Some p -> nth_error (snd s) i = Some t ->
  exists x, nth_error (snd (pair_step s (Update tau))) i = Some x /\ x == polyak tau p t.
Proof.
  intros Hl Hp Ht. destruct (polyak_list_total tau _ _ Hl) as [r Hr]. cbn [pair_step snd fst]. rewrite Hr.
  eapply polyak_list_nth; eauto.
Qed.

(* ------------------------------------------------------------------ parameters and running statistics at the update instants *)
Lemma polyak_tau_eq1 stau p t : stau == 1 -> polyak stau p t == p.
Proof. intros H. unfold polyak. rewrite H. ring. Qed.

Lemma unit_no_update ptau stau s np ns :
  tg_params (unit_step ptau stau s (np, ns, false)) = tg_params s /\ tg_stats (unit_step ptau stau s (np, ns, false)) = tg_stats s.
Proof. split; reflexivity. Qed.

Lemma unit_update ptau stau s np ns i :
  on_params (unit_step ptau stau s (np, ns, true)) = np /\ on_stats (unit_step ptau stau s (np, ns, true)) = ns /\
  (forall p t, length np = length (tg_params s) -> nth_error np i = Some p -> nth_error (tg_params s) i = Some t ->
     exists x, nth_error (tg_params (unit_step ptau stau s (np, ns, true))) i = Some x /\ x == polyak ptau p t) /\
  (forall p t, stau == 1 -> length ns = length (tg_stats s) -> nth_error ns i = Some p -> nth_error (tg_stats s) i = Some t ->
     exists x, nth_error (tg_stats (unit_step ptau stau s (np, ns, true))) i = Some x /\ x == p).
Proof.
  split; [reflexivity|]. split; [reflexivity|]. split.
  - intros p t Hl Hp Ht. cbn [unit_step target_update tg_params on_params]. unfold polyak_or_keep.
    destruct (polyak_list_total ptau _ _ Hl) as [r Hr]. rewrite Hr. eapply polyak_list_nth; eauto.
  - intros p t Hs Hl Hp Ht. cbn [unit_step target_update tg_stats on_stats]. unfold polyak_or_keep.
    destruct (polyak_list_total stau _ _ Hl) as [r Hr]. rewrite Hr.
    destruct (polyak_list_nth stau _ _ _ _ _ _ Hr Hp Ht) as (x & Hx & E). exists x. split; [exact Hx|].
    rewrite E. apply polyak_tau_eq1. exact Hs.
Qed.

(* between two update instants nothing writes the target *)
Lemma units_no_update ptau stau us : forall s, forallb (fun u => negb (snd u)) us = true ->
  tg_params (units_run ptau stau s us) = tg_params s /\ tg_stats (units_run ptau stau s us) = tg_stats s.
Proof.
  unfold units_run. induction us as [|[[np ns] fl] us IH]; intros s H; cbn [fold_left]; [split; reflexivity|].
  cbn [forallb snd] in H. apply andb_prop in H. destruct H as [Hf Hr]. destruct fl; [discriminate|].
  destruct (IH (unit_step ptau stau s (np, ns, false)) Hr) as (A & B). rewrite A, B. split; reflexivity.
Qed.

(* ------------------------------------------------------------------ strict versions: a length mismatch is an error, as in Python *)
Definition target_update_strict (ptau stau : Q) (s : nets) : option nets :=
  match polyak_list ptau (on_params s) (tg_params s), polyak_list stau (on_stats s) (tg_stats s) with
  | Some p, Some st => Some (mkN (on_params s) (on_stats s) p st)
  | _, _ => None
  end.

Lemma target_update_strict_spec ptau stau s :
  (length (on_params s) = length (tg_params s) /\ length (on_stats s) = length (tg_stats s) ->
   target_update_strict ptau stau s = Some (target_update ptau stau s)) /\
  (length (on_params s) <> length (tg_params s) \/ length (on_stats s) <> length (tg_stats s) -> target_update_strict ptau stau s = None).
Proof.
  unfold target_update_strict, target_update, polyak_or_keep. split.
  - intros [H1 H2]. destruct (polyak_list_total ptau _ _ H1) as [r1 E1]. destruct (polyak_list_total stau _ _ H2) as [r2 E2].
    rewrite E1, E2. reflexivity.
  - intros [H|H].
    + rewrite (polyak_list_mismatch ptau _ _ H). reflexivity.
    + rewrite (polyak_list_mismatch stau _ _ H). destruct (polyak_list ptau (on_params s) (tg_params s)); reflexivity.
Qed.

(* ------------------------------------------------------------------ the cadence flags drive the units *)
Fixpoint with_flags (us : list (list Q * list Q)) (flags : list bool) : list (list Q * list Q * bool) :=
  match us, flags with
  | (np, ns) :: us', f :: fl' => (np, ns, f) :: with_flags us' fl'
  | _, _ => []
  end.

Lemma with_flags_nth : forall us flags t x, nth_error (with_flags us flags) t = Some x -> nth t flags false = snd x.
Proof.
  induction us as [|[np ns] us IH]; intros [|f fl] t x H; cbn [with_flags] in H; try (destruct t; discriminate).
  destruct t as [|t]; cbn [nth_error nth] in *; [injection H as <-; reflexivity|apply IH; exact H].
Qed.

Lemma units_run_app ptau stau s a b : units_run ptau stau s (a ++ b) = units_run ptau stau (units_run ptau stau s a) b.
Proof. unfold units_run. apply fold_left_app. Qed.

Lemma with_flags_app : forall u1 u2 f1 f2, length u1 = length f1 ->
  with_flags (u1 ++ u2) (f1 ++ f2) = with_flags u1 f1 ++ with_flags u2 f2.
Proof.
  induction u1 as [|[np ns] u1 IH]; intros u2 [|f f1] f2 H; cbn [length] in H; try discriminate; [reflexivity|].
  cbn [app with_flags]. rewrite IH by congruence. reflexivity.
Qed.

Lemma with_flags_unflagged : forall u f, (forall t, nth t f false = false) ->
  forallb (fun x => negb (snd x)) (with_flags u f) = true.
Proof.
  induction u as [|[np ns] u IH]; intros [|b f] H; try reflexivity. cbn [with_flags forallb snd].
  rewrite (H 0%nat : b = false). cbn [negb andb]. apply IH. intros t. apply (H (S t)).
Qed.

(* for ANY flag sequence: a stretch of units whose flags are all unset does not write the targets *)
Theorem no_write_on_unflagged_stretch ptau stau s u1 u2 f1 f2 : length u1 = length f1 ->
  (forall t, nth t f2 false = false) ->
  tg_params (units_run ptau stau s (with_flags (u1 ++ u2) (f1 ++ f2))) = tg_params (units_run ptau stau s (with_flags u1 f1)) /\
  tg_stats (units_run ptau stau s (with_flags (u1 ++ u2) (f1 ++ f2))) = tg_stats (units_run ptau stau s (with_flags u1 f1)).
Proof.
  intros Hl Hf. rewrite with_flags_app by exact Hl. rewrite units_run_app. apply units_no_update. apply with_flags_unflagged. exact Hf.
Qed.

(* a length mismatch (zip_strict raises in Python before anything useful is written): the event model keeps BOTH lists as they are *)
Lemma pair_update_mismatch s tau : length (fst s) <> length (snd s) -> pair_step s (Update tau) = s.
Proof. intros H. destruct s as [o t]. cbn [pair_step fst snd] in *. rewrite (polyak_list_mismatch tau o t H). reflexivity. Qed.
