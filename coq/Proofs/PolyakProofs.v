(* C08 - the Polyak rule. *)
From Coq Require Import List QArith Lqa.
From SB3V Require Import Gen.Frag_polyak Model.Polyak.
Import ListNotations.
Local Open Scope Q_scope.

(* interface: the model is "scale the target by the regenerated factor, add alpha * online" *)
Lemma frag_polyak tau p t : polyak tau p t == t * polyak_scale tau + polyak_alpha tau * p.
Proof. unfold polyak, polyak_scale, polyak_alpha. ring. Qed.

Lemma polyak_law tau p t : polyak tau p t == (1 - tau) * t + tau * p.
Proof. unfold polyak. ring. Qed.

Lemma polyak_tau1_copy p t : polyak 1 p t == p.
Proof. unfold polyak. ring. Qed.

Lemma polyak_tau0_id p t : polyak 0 p t == t.
Proof. unfold polyak. ring. Qed.

Lemma polyak_between tau p t : 0 <= tau <= 1 ->
  (p <= t -> p <= polyak tau p t <= t) /\ (t <= p -> t <= polyak tau p t <= p).
Proof. unfold polyak. intros [H0 H1]. split; intros H; split; nra. Qed.

(* fixed point: a target equal to the online value stays there *)
Lemma polyak_fixed tau p : polyak tau p p == p.
Proof. unfold polyak. ring. Qed.

Lemma polyak_list_cons tau p ps t ts :
  polyak_list tau (p :: ps) (t :: ts) =
  match polyak_list tau ps ts with Some r => Some (Qred (polyak tau p t) :: r) | None => None end.
Proof. reflexivity. Qed.

Lemma polyak_list_length tau : forall ps ts r, polyak_list tau ps ts = Some r -> length ps = length ts /\ length r = length ts.
Proof.
  induction ps as [|p ps IH]; intros [|t ts] r H; try discriminate.
  - inversion H. split; reflexivity.
  - rewrite polyak_list_cons in H. destruct (polyak_list tau ps ts) eqn:E; [|discriminate].
    injection H as Hr. subst r.
    destruct (IH _ _ E). cbn [length]. split; congruence.
Qed.

Lemma polyak_list_mismatch tau : forall ps ts, length ps <> length ts -> polyak_list tau ps ts = None.
Proof.
  induction ps as [|p ps IH]; intros [|t ts] H; cbn [length] in H; try reflexivity; try congruence.
  rewrite polyak_list_cons, IH; [reflexivity|congruence].
Qed.

Lemma polyak_list_total tau : forall ps ts, length ps = length ts -> exists r, polyak_list tau ps ts = Some r.
Proof.
  induction ps as [|p ps IH]; intros [|t ts] H; cbn [length] in H; try discriminate.
  - eexists; reflexivity.
  - destruct (IH ts) as [r Hr]; [congruence|]. rewrite polyak_list_cons, Hr. eexists; reflexivity.
Qed.

Lemma polyak_list_nth tau : forall ps ts r i p t,
  polyak_list tau ps ts = Some r -> nth_error ps i = Some p -> nth_error ts i = Some t ->
  exists x, nth_error r i = Some x /\ x == polyak tau p t.
Proof.
  induction ps as [|p0 ps IH]; intros [|t0 ts] r i p t H Hp Ht; try discriminate.
  - destruct i; discriminate.
  - rewrite polyak_list_cons in H. destruct (polyak_list tau ps ts) eqn:E; [|discriminate].
    injection H as Hr. subst r.
    destruct i as [|i]; cbn [nth_error] in *.
    + inversion Hp; inversion Ht; subst. exists (Qred (polyak tau p t)). split; [reflexivity|]. apply Qred_correct.
    + eapply IH; eauto.
Qed.

(* who may write what *)
Lemma opt_step_keeps_target s o : snd (pair_step s (OptStep o)) = snd s.
Proof. reflexivity. Qed.
Lemma update_keeps_online s tau : fst (pair_step s (Update tau)) = fst s.
Proof. reflexivity. Qed.

Definition is_opt (e : event) : bool := match e with OptStep _ => true | Update _ => false end.

Lemma targets_change_only_at_updates es : forall s, forallb is_opt es = true -> snd (pair_run s es) = snd s.
Proof.
  unfold pair_run. induction es as [|e es IH]; intros s H; simpl in *; [reflexivity|].
  apply andb_prop in H. destruct H as [He Hes]. rewrite IH by exact Hes.
  destruct e; [reflexivity|discriminate].
Qed.

(* an update writes exactly the polyak value of the online parameters of that moment *)
Lemma update_writes_polyak s tau i p t :
  length (fst s) = length (snd s) -> nth_error (fst s) i = Some p -> nth_error (snd s) i = Some t ->
  exists x, nth_error (snd (pair_step s (Update tau))) i = Some x /\ x == polyak tau p t.
Proof.
  intros Hl Hp Ht. destruct (polyak_list_total tau _ _ Hl) as [r Hr]. cbn [pair_step snd fst]. rewrite Hr.
  eapply polyak_list_nth; eauto.
Qed.

(* ------------------------------------------------------------------ parameters and running statistics at the update instants *)
Lemma polyak_tau_eq1 stau p t : stau == 1 -> polyak stau p t == p.
Proof. intros H. unfold polyak. rewrite H. ring. Qed.

Lemma unit_no_update ptau stau s np ns :
  tg_params (unit_step ptau stau s (np, ns, false)) = tg_params s /\ tg_stats (unit_step ptau stau s (np, ns, false)) = tg_stats s.
Proof. split; reflexivity. Qed.

Lemma unit_update ptau stau s np ns i :
  on_params (unit_step ptau stau s (np, ns, true)) = np /\ on_stats (unit_step ptau stau s (np, ns, true)) = ns /\
  (forall p t, length np = length (tg_params s) -> nth_error np i = Some p -> nth_error (tg_params s) i = Some t ->
     exists x, nth_error (tg_params (unit_step ptau stau s (np, ns, true))) i = Some x /\ x == polyak ptau p t) /\
  (forall p t, stau == 1 -> length ns = length (tg_stats s) -> nth_error ns i = Some p -> nth_error (tg_stats s) i = Some t ->
     exists x, nth_error (tg_stats (unit_step ptau stau s (np, ns, true))) i = Some x /\ x == p).
Proof.
  split; [reflexivity|]. split; [reflexivity|]. split.
  - intros p t Hl Hp Ht. cbn [unit_step target_update tg_params on_params]. unfold polyak_or_keep.
    destruct (polyak_list_total ptau _ _ Hl) as [r Hr]. rewrite Hr. eapply polyak_list_nth; eauto.
  - intros p t Hs Hl Hp Ht. cbn [unit_step target_update tg_stats on_stats]. unfold polyak_or_keep.
    destruct (polyak_list_total stau _ _ Hl) as [r Hr]. rewrite Hr.
    destruct (polyak_list_nth stau _ _ _ _ _ _ Hr Hp Ht) as (x & Hx & E). exists x. split; [exact Hx|].
    rewrite E. apply polyak_tau_eq1. exact Hs.
Qed.

(* between two update instants nothing writes the target *)
Lemma units_no_update ptau stau us : forall s, forallb (fun u => negb (snd u)) us = true ->
  tg_params (units_run ptau stau s us) = tg_params s /\ tg_stats (units_run ptau stau s us) = tg_stats s.
Proof.
  unfold units_run. induction us as [|[[np ns] fl] us IH]; intros s H; cbn [fold_left]; [split; reflexivity|].
  cbn [forallb snd] in H. apply andb_prop in H. destruct H as [Hf Hr]. destruct fl; [discriminate|].
  destruct (IH (unit_step ptau stau s (np, ns, false)) Hr) as (A & B). rewrite A, B. split; reflexivity.
Qed.
