(* C17 (build round 5) - declared bounds of the stacked space: proofs. *)
From SB3V Require Import Lib.Tactics Model.Wrappers Model.WrapperBounds Proofs.WrappersProofs Gen.Frag_stacking.
Import ListNotations.
Local Open Scope nat_scope.

Section G.
Context {B X : Type} (P : B -> X -> Prop).

Lemma gzipapp_within : forall a x b y, gwithin P a x -> gwithin P b y -> gwithin P (gzipapp a b) (gzipapp x y).
Proof.
  unfold gwithin. intros a x b y H. revert b y. induction H as [|ra rx a' x' Hr Hrest IH]; intros b y Hb; cbn; [constructor|].
  destruct Hb; cbn; constructor; [apply Forall2_app; auto|apply IH; auto].
Qed.

Lemma gempty_within : forall r, gwithin P (repeat [] r) (repeat [] r).
Proof. unfold gwithin. induction r; cbn; constructor; auto. Qed.

Lemma gcat_within : forall r bs fs, Forall2 (gwithin P) bs fs -> gwithin P (gcat r bs) (gcat r fs).
Proof. intros r bs fs H. induction H; cbn; [apply gempty_within|apply gzipapp_within; auto]. Qed.

Lemma Forall2_repeat_l : forall (R : grid B -> grid X -> Prop) bg fs, Forall (R bg) fs -> Forall2 R (repeat bg (length fs)) fs.
Proof. intros R bg fs H. induction H; cbn; constructor; auto. Qed.

(* n frames within the bounds, concatenated, lie within the bounds tiled n times *)
Lemma tile_within : forall bg fs n, Forall (gwithin P bg) fs -> length fs = n -> gwithin P (gtile n bg) (gcat (length bg) fs).
Proof. intros bg fs n H L. subst n. unfold gtile. apply gcat_within. apply Forall2_repeat_l; auto. Qed.
End G.

Lemma gzipapp_map : forall X (g : grid X) f, gzipapp g (map f g) = map (fun row => row ++ f row) g.
Proof. induction g; intros; cbn; [reflexivity|rewrite IHg; reflexivity]. Qed.

Lemma gcat_repeat : forall X (g : grid X) n, gcat (length g) (repeat g n) = map (fun row => concat (repeat row n)) g.
Proof.
  intros X g n. induction n; cbn.
  - induction g; cbn; [reflexivity|f_equal; auto].
  - rewrite IHn. apply gzipapp_map.
Qed.

Lemma flat_map_repeat : forall X (b : X) k n, flat_map (fun x => repeat x n) (repeat b k) = repeat b (k * n).
Proof. intros. induction k; cbn; [reflexivity|rewrite IHk, <- repeat_app; reflexivity]. Qed.

Lemma concat_repeat_repeat : forall X (b : X) k n, concat (repeat (repeat b k) n) = repeat b (n * k).
Proof. intros. induction n; cbn; [reflexivity|rewrite IHn, <- repeat_app; reflexivity]. Qed.

(* np.repeat and tiling agree exactly when the bounds do not vary along the stacking axis *)
Lemma repeat_is_tile_when_uniform : forall B (bg : grid B) n, guniform bg -> grepeat n bg = gtile n bg.
Proof.
  intros B bg n U. unfold gtile. rewrite gcat_repeat. unfold grepeat.
  apply map_ext_Forall. eapply Forall_impl; [|exact U].
  intros row (b & k & ->). rewrite flat_map_repeat, concat_repeat_repeat. f_equal. apply Nat.mul_comm.
Qed.

(* every frame of every window is the zero frame or an observation of the history *)
Lemma fs_apply_Forall : forall F (Q : F -> Prop) zero n w ev,
  Q zero -> Forall Q w -> fevent_ok Q ev -> Forall Q (fs_apply zero n w ev).
Proof.
  intros F Q zero n w ev Hz Hw He.
  assert (Hr : forall o, Q o -> Forall Q (fs_reset zero n o)).
  { intros o Ho. unfold fs_reset. apply Forall_app. split; [|repeat constructor; auto].
    apply Forall_forall. intros x Hx. apply repeat_spec in Hx. subst. auto. }
  assert (Hp : forall o, Q o -> Forall Q (fs_push w o)).
  { intros o Ho. unfold fs_push. apply Forall_app. split; [|repeat constructor; auto].
    destruct w; cbn; [constructor|]. inversion Hw; auto. }
  destruct ev as [o|o d t]; cbn in *.
  - apply Hr; auto.
  - destruct He as [Ho _]. unfold fs_next. destruct d; [apply Hr|apply Hp]; auto.
Qed.

Lemma fs_run_Forall : forall F (Q : F -> Prop) zero n evs,
  Q zero -> Forall (fevent_ok Q) evs -> Forall Q (fs_run zero n evs).
Proof.
  intros F Q zero n evs Hz He. unfold fs_run.
  assert (H0 : Forall Q (repeat zero n)).
  { apply Forall_forall. intros x Hx. apply repeat_spec in Hx. subst. auto. }
  revert H0. generalize (repeat zero n). induction He; intros w Hw; cbn; [auto|].
  apply IHHe. apply fs_apply_Forall; auto.
Qed.

Lemma fs_terminal_Forall : forall F (Q : F -> Prop) (w : list F) t, Forall Q w -> Q t -> Forall Q (fs_terminal w t).
Proof.
  intros F Q w t Hw Ht. unfold fs_terminal, fs_push. apply Forall_app. split; [|repeat constructor; auto].
  destruct w; cbn; [constructor|]. inversion Hw; auto.
Qed.

Lemma fs_terminal_length : forall F (w : list F) t n, 1 <= n -> length w = n -> length (fs_terminal w t) = n.
Proof. intros F w t n Hn L. unfold fs_terminal, fs_push. rewrite app_length. destruct w; cbn in *; lia. Qed.

(* THE FIX THAT WOULD MAKE THE CLAUSE TRUE FOR NON-UNIFORM BOUNDS: against tiled bounds no uniformity is needed *)
Theorem window_within_tiled_bounds : forall (B X : Type) (P : B -> X -> Prop) (bg : grid B) (zero : grid X) (n : nat) (evs : list (fevent (grid X))),
  1 <= n -> gwithin P bg zero -> Forall (fevent_ok (gwithin P bg)) evs ->
  gwithin P (gtile n bg) (gcat (length bg) (fs_run zero n evs)) /\
  forall t, gwithin P bg t -> gwithin P (gtile n bg) (gcat (length bg) (fs_terminal (fs_run zero n evs) t)).
Proof.
  intros B X P bg zero n evs Hn Hz He.
  pose proof (fs_run_Forall _ (gwithin P bg) zero n evs Hz He) as Hw.
  pose proof (@window_length (grid X) zero n Hn evs) as L.
  split; [apply tile_within; auto|].
  intros t Ht. apply tile_within; [apply fs_terminal_Forall; auto|apply fs_terminal_length; auto].
Qed.

(* the declared space of the code (np.repeat): needs bounds that do not vary along the stacking axis *)
Theorem window_within_declared_bounds : forall (B X : Type) (P : B -> X -> Prop) (bg : grid B) (zero : grid X) (n : nat) (evs : list (fevent (grid X))),
  1 <= n -> guniform bg -> gwithin P bg zero -> Forall (fevent_ok (gwithin P bg)) evs ->
  gwithin P (grepeat n bg) (gcat (length bg) (fs_run zero n evs)) /\
  forall t, gwithin P bg t -> gwithin P (grepeat n bg) (gcat (length bg) (fs_terminal (fs_run zero n evs) t)).
Proof.
  intros B X P bg zero n evs Hn U Hz He. rewrite (repeat_is_tile_when_uniform _ bg n U).
  apply window_within_tiled_bounds; auto.
Qed.

Lemma frag_declared_bounds : forall x : Z, declared_low x = x /\ declared_high x = x.
Proof. intro x. split; reflexivity. Qed.
